// vkmerge counts distinct little-endian uint64 fingerprints over files.
package main

import (
	"encoding/binary"
	"fmt"
	"os"
	"slices"
)

func main() {
	var all []uint64
	for _, f := range os.Args[1:] {
		b, err := os.ReadFile(f)
		if err != nil {
			continue
		}
		for i := 0; i+8 <= len(b); i += 8 {
			all = append(all, binary.LittleEndian.Uint64(b[i:]))
		}
	}
	slices.Sort(all)
	n := 0
	for i, v := range all {
		if i == 0 || v != all[i-1] {
			n++
		}
	}
	fmt.Println(n)
}
