module vkmerge

go 1.23
