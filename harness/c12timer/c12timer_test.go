package tmstate_test

// C12 (production-timer half): StandardRoundTimer against a reference model of
// one step timer.
//
//   - TestVerifC12TimerModel: generated op lists inside a testing/synctest
//     bubble (fake clock). Every op is followed by a quiescence point
//     (synctest.Wait) unless the op says otherwise, and the oracle is evaluated
//     after every op.
//   - TestVerifC12TimerRace: the same interpreter on the real scheduler
//     (GOMAXPROCS=16, no bubble): the op list is a pattern that is repeated
//     thousands of times with generated schedule noise between the calls.
//
// Caller discipline (what tmstate.StateMachine does, statemachine.go): all
// calls come from one goroutine; the cancel function of the outstanding timer
// is always called before the next timer is requested (also after the timer
// elapsed, "as a matter of cleanup"); cancel functions may be called several
// times. The interpreter never requests a timer while the model says one is
// outstanding: it cancels first, which is exactly the cancel-then-start pair
// the state machine issues at a step transition.

import (
	"context"
	"fmt"
	"runtime"
	"sync"
	"sync/atomic"
	"testing"
	"testing/synctest"
	"time"

	"github.com/gordian-engine/gordian/internal/zzverif/vk"
	"github.com/gordian-engine/gordian/tm/tmengine"
	"github.com/gordian-engine/gordian/tm/tmengine/internal/tmstate"
	"pgregory.net/rapid"
)

// ---------------------------------------------------------------------------
// case data

// c12Strat describes the generated TimeoutStrategy.
//
//	Table=false: the production tmengine.LinearTimeoutStrategy with these
//	  fields (0 = "use the default").
//	Table=true : a harness strategy d = Base[k] + r*Inc[k] + (h mod 5)*HMul.
type c12Strat struct {
	Table bool     `json:"table"`
	Base  [4]int64 `json:"base"` // ns, index = timer kind
	Inc   [4]int64 `json:"inc"`  // ns per round
	HMul  int64    `json:"hmul,omitempty"`
}

const (
	c12Proposal = iota
	c12PrevoteDelay
	c12PrecommitDelay
	c12CommitWait
)

var c12KindName = [4]string{"proposal", "prevoteDelay", "precommitDelay", "commitWait"}

type c12Op struct {
	Op string `json:"op"`          // start | cancel | stale | adv | churn
	K  int    `json:"k,omitempty"` // start/churn: timer kind 0..3
	H  uint64 `json:"h,omitempty"`
	R  uint32 `json:"r,omitempty"`
	N  int    `json:"n,omitempty"`  // churn: repetitions; cancel: concurrent callers; stale: index into all timers so far
	D  int64  `json:"d,omitempty"`  // adv: nanoseconds (mode 0 and 5)
	M  int    `json:"m,omitempty"`  // adv mode: 0 absolute, 1 remaining-1ns, 2 remaining, 3 remaining+1ns, 4 remaining/2
	G  int    `json:"g,omitempty"`  // schedule noise before the cancel of a churn step / after a start: runtime.Gosched calls
	S  int    `json:"s,omitempty"`  // schedule noise: spin iterations
	NW bool   `json:"nw,omitempty"` // bubble: no quiescence point after this op
}

type c12Case struct {
	Strat c12Strat `json:"strat"`
	Ops   []c12Op  `json:"ops"`
	Iters int      `json:"iters,omitempty"` // race test: how often the op list is repeated on one timer
}

// ---------------------------------------------------------------------------
// reference model of the strategy (independent recomputation)

const c12Long = 24 * time.Hour // real-clock mode: a timer this long never fires during a case

func (s c12Strat) want(k int, h uint64, r uint32) time.Duration {
	if s.Table {
		return time.Duration(s.Base[k] + int64(r)*s.Inc[k] + int64(h%5)*s.HMul)
	}
	// LinearTimeoutStrategy as documented in timeoutstrategy.go:
	// base + round*increment, zero values replaced by defaults
	// (5s / 500ms; commit wait 2s / 500ms).
	b, i := time.Duration(s.Base[k]), time.Duration(s.Inc[k])
	if b == 0 {
		b = 5 * time.Second
		if k == c12CommitWait {
			b = 2 * time.Second
		}
	}
	if i == 0 {
		i = 500 * time.Millisecond
	}
	return b + time.Duration(r)*i
}

type c12Table struct{ s c12Strat }

func (t c12Table) d(k int, h uint64, r uint32) time.Duration {
	return time.Duration(t.s.Base[k] + int64(r)*t.s.Inc[k] + int64(h%5)*t.s.HMul)
}
func (t c12Table) ProposalTimeout(h uint64, r uint32) time.Duration { return t.d(c12Proposal, h, r) }
func (t c12Table) PrevoteDelayTimeout(h uint64, r uint32) time.Duration {
	return t.d(c12PrevoteDelay, h, r)
}
func (t c12Table) PrecommitDelayTimeout(h uint64, r uint32) time.Duration {
	return t.d(c12PrecommitDelay, h, r)
}
func (t c12Table) CommitWaitTimeout(h uint64, r uint32) time.Duration {
	return t.d(c12CommitWait, h, r)
}

func (s c12Strat) build() tmstate.TimeoutStrategy {
	if s.Table {
		return c12Table{s}
	}
	return tmengine.LinearTimeoutStrategy{
		ProposalBase: time.Duration(s.Base[0]), ProposalIncrement: time.Duration(s.Inc[0]),
		PrevoteDelayBase: time.Duration(s.Base[1]), PrevoteDelayIncrement: time.Duration(s.Inc[1]),
		PrecommitDelayBase: time.Duration(s.Base[2]), PrecommitDelayIncrement: time.Duration(s.Inc[2]),
		CommitWaitBase: time.Duration(s.Base[3]), CommitWaitIncrement: time.Duration(s.Inc[3]),
	}
}

// ---------------------------------------------------------------------------
// interpreter + reference model of one timer

type c12Timer struct {
	id        int
	k         int
	h         uint64
	r         uint32
	dur       time.Duration
	startAt   time.Duration // model time at start (bubble)
	ch        <-chan struct{}
	cancel    func()
	cancelled bool // cancel was called while the model said "not yet elapsed"
	observed  bool // real-clock mode: the harness received from ch
	mayFire   bool // real-clock mode, short duration: the model cannot know whether it elapsed before a cancel
}

type c12Abort struct{}

type c12Run struct {
	dry    bool // model only: no real timer (classification of the case before it is executed)
	bubble bool
	rt     *tmstate.StandardRoundTimer
	ctx    context.Context
	strat  c12Strat
	st     *vk.Stats

	now    time.Duration // model clock (bubble)
	timers []*c12Timer
	seen   map[<-chan struct{}]int
	cur    *c12Timer

	// classification (filled by the dry run)
	direct      int // starts issued directly after a cancel: no quiescence point, no time advance in between
	labels      map[string]int
	sinceCancel bool // the last timer call was a cancel and nothing (wait / advance) happened since

	clause, detail string
	sink           uint64

	// real scheduler only: calls is bumped before and after every start call (odd = a call is in
	// progress); the watchdog of c12Exec ends the case when one call stays in progress for
	// c12BlockedTicks of its one-second ticks (ticks, not wall-clock differences: a stopped
	// process does not accumulate them).
	calls   atomic.Int64
	blocked atomic.Bool
}

const c12BlockedTicks = 45

func (x *c12Run) lab(l string) {
	if x.dry {
		x.labels[l]++
	}
}

func (x *c12Run) failf(clause, format string, args ...any) {
	if x.clause == "" {
		x.clause = clause
		x.detail = fmt.Sprintf(format, args...)
	}
	panic(c12Abort{})
}

func c12Closed(ch <-chan struct{}) bool {
	select {
	case <-ch:
		return true
	default:
		return false
	}
}

// deadline reached according to the model?
func (t *c12Timer) due(now time.Duration) bool { return now >= t.startAt+t.dur }

func (x *c12Run) outstanding() bool {
	t := x.cur
	if t == nil || t.cancelled || t.observed {
		return false
	}
	if x.bubble {
		return !t.due(x.now)
	}
	return true
}

func (x *c12Run) noise(g, s int) {
	if x.dry {
		return
	}
	for i := 0; i < g; i++ {
		runtime.Gosched()
	}
	for i := 0; i < s; i++ {
		x.sink += uint64(i) ^ x.sink<<1
	}
}

func (t *c12Timer) String() string {
	return fmt.Sprintf("timer#%d(%s h=%d r=%d dur=%s startAt=%s cancelled=%v)", t.id, c12KindName[t.k], t.h, t.r, t.dur, t.startAt, t.cancelled)
}

// start requests a timer. If the model says one is outstanding it is cancelled
// first (the state machine's cancel-then-start pair).
func (x *c12Run) start(k int, h uint64, r uint32) {
	k = ((k % 4) + 4) % 4
	if x.outstanding() {
		x.lab("start:implicit-cancel-first")
		x.cancelTimer(x.cur, 1)
	}
	if x.sinceCancel {
		x.direct++
		x.lab("start:directly-after-cancel")
	} else if x.cur != nil && x.cur.cancelled {
		x.lab("start:after-cancel-and-quiescence")
	} else if x.cur != nil {
		x.lab("start:after-elapse")
	} else {
		x.lab("start:first")
	}
	x.sinceCancel = false
	t := &c12Timer{id: len(x.timers), k: k, h: h, r: r, dur: x.strat.want(k, h, r), startAt: x.now}
	if !x.bubble && t.dur < c12Long {
		t.mayFire = true
	}
	x.lab("kind:" + c12KindName[k])
	if !x.dry {
		x.calls.Add(1)
		switch k {
		case c12Proposal:
			t.ch, t.cancel = x.rt.ProposalTimer(x.ctx, h, r)
		case c12PrevoteDelay:
			t.ch, t.cancel = x.rt.PrevoteDelayTimer(x.ctx, h, r)
		case c12PrecommitDelay:
			t.ch, t.cancel = x.rt.PrecommitDelayTimer(x.ctx, h, r)
		default:
			t.ch, t.cancel = x.rt.CommitWaitTimer(x.ctx, h, r)
		}
		x.calls.Add(1)
		if x.blocked.Load() {
			x.failf("start-never-served", "%v: the start call was not served within %d watchdog ticks (1 s each) although the previous timer had been cancelled or had elapsed; the call only returned because the watchdog cancelled the context", t, c12BlockedTicks)
		}
		if t.ch == nil || t.cancel == nil {
			x.failf("start-returns-live-timer", "%v: nil channel or nil cancel func although the context is live", t)
		}
		if !t.mayFire && c12Closed(t.ch) {
			x.failf("start-returns-live-timer", "%v: channel is already closed when the start call returns", t)
		}
		if prev, ok := x.seen[t.ch]; ok {
			x.failf("fires-at-most-once", "%v: start returned the channel of timer#%d again", t, prev)
		}
		x.seen[t.ch] = t.id
	}
	x.timers = append(x.timers, t)
	x.cur = t
}

func (x *c12Run) cancelTimer(t *c12Timer, callers int) {
	if t == nil {
		return
	}
	switch {
	case t.cancelled:
		x.lab("cancel:repeated")
	case t.observed || (x.bubble && t.due(x.now)):
		x.lab("cancel:after-elapse")
	default:
		x.lab("cancel:before-deadline")
		t.cancelled = true
	}
	if t == x.cur {
		x.sinceCancel = true
	} else {
		x.lab("cancel:of-an-older-timer")
	}
	if x.dry {
		return
	}
	if callers <= 1 {
		t.cancel()
		return
	}
	var wg sync.WaitGroup
	for i := 0; i < callers; i++ {
		wg.Add(1)
		go func() { defer wg.Done(); t.cancel() }()
	}
	wg.Wait()
}

// check evaluates the oracle over the most recent timers (all=false) or over
// every timer of the case. quiescent=false: only "must not be closed" can be
// decided (the timer goroutine may still be about to close a due channel).
func (x *c12Run) check(quiescent, all bool, after string) {
	if x.dry {
		return
	}
	lo := 0
	if !all && len(x.timers) > 12 {
		lo = len(x.timers) - 12
	}
	for _, t := range x.timers[lo:] {
		if t.mayFire {
			continue
		}
		closed := c12Closed(t.ch)
		want := !t.cancelled && x.bubble && t.due(x.now)
		switch {
		case closed && t.cancelled:
			x.failf("cancelled-never-fires", "after %s at model time %s: %v was cancelled before its deadline but its channel is closed", after, x.now, t)
		case closed && !want:
			x.failf("not-before-deadline", "after %s at model time %s: %v fired before its deadline", after, x.now, t)
		case !closed && want && quiescent:
			x.failf("fires-at-deadline", "after %s at model time %s: %v is due and was not cancelled but its channel is not closed", after, x.now, t)
		}
	}
}

func (x *c12Run) quiesce() {
	if !x.dry {
		synctest.Wait()
	}
	x.sinceCancel = false
}

func (x *c12Run) step(i int, op c12Op) {
	name := fmt.Sprintf("op %d (%s)", i, op.Op)
	switch op.Op {
	case "start":
		x.start(op.K, op.H, op.R)
		x.noise(op.G, op.S)
	case "cancel":
		n := op.N
		if n > 1 {
			x.lab("cancel:concurrent-callers")
		}
		x.cancelTimer(x.cur, n)
	case "stale":
		if len(x.timers) > 0 {
			// counted from the most recent timer backwards
			x.cancelTimer(x.timers[len(x.timers)-1-((op.N%len(x.timers))+len(x.timers))%len(x.timers)], 1)
		}
	case "adv":
		x.advance(op)
		x.check(true, false, name)
		return
	case "churn":
		n := op.N
		if n < 1 {
			n = 1
		}
		for j := 0; j < n; j++ {
			if !x.outstanding() {
				x.start(op.K, op.H, op.R)
			}
			x.noise(op.G, op.S)
			x.cancelTimer(x.cur, 1)
			x.start(op.K+j%2, op.H, op.R+uint32(j%3))
			x.check(false, false, name)
		}
		x.lab("churn")
	default:
		return
	}
	if !x.bubble {
		// real scheduler: there are no quiescence points at all
		x.check(false, false, name)
		return
	}
	if op.NW {
		x.lab("no-quiescence-after-op")
		x.check(false, false, name)
		return
	}
	x.quiesce()
	x.check(true, false, name)
}

func (x *c12Run) advance(op c12Op) {
	t := x.cur
	if !x.bubble {
		// real clock: the only way time "advances" is waiting for a short timer to elapse.
		if t == nil || !t.mayFire || t.cancelled || t.observed {
			// no short timer outstanding: request one (kinds 2 and 3 are the short ones)
			x.start(c12PrecommitDelay+op.K%2, op.H, op.R)
			t = x.cur
		}
		if t.mayFire {
			x.lab("adv:wait-for-elapse")
			if !x.dry {
				<-t.ch
			}
			t.observed = true
			x.sinceCancel = false
		}
		return
	}
	d := time.Duration(op.D)
	if x.outstanding() && op.M >= 1 && op.M <= 4 {
		rem := t.startAt + t.dur - x.now
		switch op.M {
		case 1:
			d = rem - 1
			x.lab("adv:deadline-1ns")
		case 2:
			d = rem
			x.lab("adv:exact-deadline")
		case 3:
			d = rem + 1
			x.lab("adv:deadline+1ns")
		case 4:
			d = rem / 2
			x.lab("adv:half")
		}
	} else {
		x.lab("adv:absolute")
	}
	if d < 0 {
		d = 0
	}
	if d > 0 {
		x.sinceCancel = false
	}
	if !x.dry {
		// The timer goroutine must be parked before the clock moves.
		synctest.Wait()
		time.Sleep(d)
		synctest.Wait()
	}
	x.sinceCancel = false
	x.now += d
	if t != nil && !t.cancelled && t.due(x.now) && t.startAt+t.dur > x.now-d {
		x.lab("timer-elapsed")
	}
}

// run interprets the whole case. Returns clause, detail ("" = held).
func (x *c12Run) run(c c12Case) {
	defer func() {
		if r := recover(); r != nil {
			if _, ok := r.(c12Abort); !ok {
				panic(r)
			}
		}
	}()
	iters := 1
	if !x.bubble {
		iters = c12Iters(c)
		if x.dry && iters > 2 {
			iters = 2 // the second pass sees what the pattern does when it wraps around
		}
	}
	for it := 0; it < iters; it++ {
		for i, op := range c.Ops {
			x.step(i, op)
		}
	}
	if x.bubble && !x.dry {
		// Let everything that is due fire, then one far jump: nothing cancelled may ever fire.
		synctest.Wait()
		x.check(true, true, "end of case")
		if x.cur != nil {
			x.cancelTimer(x.cur, 1)
		}
		synctest.Wait()
		time.Sleep(200 * time.Hour)
		x.now += 200 * time.Hour
		synctest.Wait()
		x.check(true, true, "end of case + 200h")
		return
	}
	x.check(false, true, "end of case")
}

// c12Iters bounds the work of one race case to roughly 25k timer requests.
func c12Iters(c c12Case) int {
	w := 0
	for _, op := range c.Ops {
		switch op.Op {
		case "churn":
			w += 1 + op.N
		case "adv":
			w += 150
		default:
			w++
		}
	}
	if w == 0 {
		w = 1
	}
	it := c.Iters
	if it < 1 {
		it = 1
	}
	if it*w > 25000 {
		it = 25000/w + 1
	}
	return it
}

func c12Classify(c c12Case, bubble bool) (nontrivial bool, labels []string) {
	x := &c12Run{dry: true, bubble: bubble, strat: c.Strat, labels: map[string]int{}}
	x.run(c)
	for l := range x.labels {
		labels = append(labels, l)
	}
	if c.Strat.Table {
		labels = append(labels, "strategy:table")
	} else {
		labels = append(labels, "strategy:linear")
	}
	if x.direct > 0 {
		labels = append(labels, "case:has-direct-restart")
	}
	return x.direct > 0, labels
}

// ---------------------------------------------------------------------------
// executing one case

func c12Exec(c c12Case, bubble bool, st *vk.Stats) (clause, detail string) {
	x := &c12Run{bubble: bubble, strat: c.Strat, st: st, seen: map[<-chan struct{}]int{}}
	ctx, cancel := context.WithCancel(context.Background())
	x.ctx = ctx
	x.rt = tmstate.NewStandardRoundTimer(ctx, c.Strat.build())
	if !bubble {
		done := make(chan struct{})
		defer close(done)
		go func() {
			tick := time.NewTicker(time.Second)
			defer tick.Stop()
			last, same := int64(-1), 0
			for {
				select {
				case <-done:
					return
				case <-tick.C:
				}
				n := x.calls.Load()
				if n%2 == 1 && n == last {
					same++
				} else {
					last, same = n, 0
				}
				if same >= c12BlockedTicks {
					x.blocked.Store(true)
					cancel()
					return
				}
			}
		}()
	}
	x.run(c)
	cancel()
	x.rt.Wait()
	return x.clause, x.detail
}

func c12RunBubble(t *testing.T, tb vk.TB, st *vk.Stats, c c12Case, reps int) {
	nt, labels := c12Classify(c, true)
	if st.WantSample() {
		st.Sample(c)
	}
	st.Case(nt, vk.FP(c), labels...)
	st.WAL(c)
	st.Guard(tb, c, func() {
		for i := 0; i < reps; i++ {
			var clause, detail string
			synctest.Test(t, func(*testing.T) {
				clause, detail = c12Exec(c, true, st)
			})
			if clause != "" {
				st.Fail(tb, c, "", clause, "%s", detail)
			}
		}
	})
}

func c12RunRace(tb vk.TB, st *vk.Stats, c c12Case, reps int) {
	nt, labels := c12Classify(c, false)
	if st.WantSample() {
		st.Sample(c)
	}
	st.Case(nt, vk.FP(c), labels...)
	st.LabelN("timer-requests-issued~", int64(c12Iters(c))*int64(len(c.Ops)))
	st.WAL(c)
	st.Guard(tb, c, func() {
		for i := 0; i < reps; i++ {
			if clause, detail := c12Exec(c, false, st); clause != "" {
				st.Fail(tb, c, "", clause, "%s", detail)
			}
		}
	})
}

// ---------------------------------------------------------------------------
// generators

func c12GenDur(rt *rapid.T, label string, min int64) int64 {
	switch rapid.IntRange(0, 6).Draw(rt, label+"Class") {
	case 0:
		return rapid.Int64Range(min, 10).Draw(rt, label)
	case 1:
		return rapid.Int64Range(1, 1000).Draw(rt, label) * int64(time.Microsecond)
	case 2:
		return rapid.Int64Range(1, 1000).Draw(rt, label) * int64(time.Millisecond)
	case 3:
		return rapid.Int64Range(1, 120).Draw(rt, label) * int64(time.Second)
	case 4:
		return rapid.Int64Range(1, 3).Draw(rt, label) * int64(time.Hour)
	case 5:
		return min // linear: 0 = documented default
	default:
		return rapid.Int64Range(min, int64(10*time.Second)).Draw(rt, label)
	}
}

func c12GenStrat(rt *rapid.T) c12Strat {
	s := c12Strat{Table: rapid.Bool().Draw(rt, "table")}
	min := int64(0)
	if s.Table {
		min = 1 // a zero-length timer has no "before the deadline"
	}
	for k := 0; k < 4; k++ {
		s.Base[k] = c12GenDur(rt, fmt.Sprintf("base%d", k), min)
		s.Inc[k] = c12GenDur(rt, fmt.Sprintf("inc%d", k), 0)
	}
	if s.Table && rapid.Bool().Draw(rt, "useH") {
		s.HMul = c12GenDur(rt, "hmul", 0)
	}
	return s
}

func c12GenHR(rt *rapid.T, op *c12Op) {
	op.K = rapid.IntRange(0, 3).Draw(rt, "k")
	op.H = rapid.SampledFrom([]uint64{0, 1, 2, 3, 4, 7, 1 << 20, 1<<63 + 3}).Draw(rt, "h")
	if rapid.IntRange(0, 9).Draw(rt, "rBig") == 0 {
		op.R = rapid.Uint32Range(0, 2000).Draw(rt, "r")
	} else {
		op.R = rapid.Uint32Range(0, 4).Draw(rt, "r")
	}
}

func c12GenNoise(rt *rapid.T, op *c12Op) {
	op.G = rapid.SampledFrom([]int{0, 0, 0, 1, 1, 2, 3}).Draw(rt, "g")
	op.S = rapid.SampledFrom([]int{0, 0, 1, 3, 10, 30, 100, 300, 1000, 3000}).Draw(rt, "s")
}

func c12GenOpBubble(rt *rapid.T) c12Op {
	var op c12Op
	switch rapid.SampledFrom([]int{0, 0, 0, 0, 1, 1, 1, 2, 3, 3, 3, 3, 4, 4}).Draw(rt, "opKind") {
	case 0:
		op.Op = "start"
		c12GenHR(rt, &op)
		c12GenNoise(rt, &op)
		op.NW = rapid.IntRange(0, 2).Draw(rt, "nw") == 0
	case 1:
		op.Op = "cancel"
		op.N = rapid.SampledFrom([]int{1, 1, 1, 2, 4}).Draw(rt, "callers")
		op.NW = rapid.IntRange(0, 1).Draw(rt, "nw") == 0
	case 2:
		op.Op = "stale"
		op.N = rapid.IntRange(0, 50).Draw(rt, "idx")
		op.NW = rapid.IntRange(0, 2).Draw(rt, "nw") == 0
	case 3:
		op.Op = "adv"
		op.M = rapid.IntRange(0, 4).Draw(rt, "mode")
		op.D = c12GenDur(rt, "d", 1)
	default:
		op.Op = "churn"
		c12GenHR(rt, &op)
		c12GenNoise(rt, &op)
		op.N = rapid.SampledFrom([]int{1, 2, 5, 20, 60, 150}).Draw(rt, "reps")
		op.NW = rapid.Bool().Draw(rt, "nw")
	}
	return op
}

func c12GenBubble(rt *rapid.T) c12Case {
	return c12Case{
		Strat: c12GenStrat(rt),
		Ops:   rapid.SliceOfN(rapid.Custom(c12GenOpBubble), 1, 30).Draw(rt, "ops"),
	}
}

// race mode: kinds 0,1 are long timers (never fire during a case), kinds 2,3 are
// short ones (microseconds) that really elapse on the wall clock.
func c12GenRace(rt *rapid.T) c12Case {
	s := c12Strat{Table: true}
	s.Base[0], s.Base[1] = int64(c12Long), int64(c12Long)+int64(time.Hour)
	s.Inc[0] = int64(time.Second)
	s.Base[2] = rapid.Int64Range(1, 20000).Draw(rt, "short2")
	s.Base[3] = rapid.Int64Range(1, 60000).Draw(rt, "short3")
	c := c12Case{Strat: s, Iters: rapid.SampledFrom([]int{200, 1000, 3000, 10000}).Draw(rt, "iters")}
	c.Ops = rapid.SliceOfN(rapid.Custom(func(rt *rapid.T) c12Op {
		var op c12Op
		switch rapid.SampledFrom([]int{0, 0, 0, 1, 1, 2, 3, 3, 4, 4}).Draw(rt, "opKind") {
		case 0:
			op.Op = "start"
			c12GenHR(rt, &op)
			c12GenNoise(rt, &op)
		case 1:
			op.Op = "cancel"
			op.N = rapid.SampledFrom([]int{1, 1, 1, 1, 2, 3}).Draw(rt, "callers")
		case 2:
			op.Op = "stale"
			op.N = rapid.IntRange(0, 50).Draw(rt, "idx")
		case 3:
			op.Op = "adv"
			op.K = rapid.IntRange(0, 1).Draw(rt, "k")
		default:
			op.Op = "churn"
			c12GenHR(rt, &op)
			c12GenNoise(rt, &op)
			op.N = rapid.SampledFrom([]int{1, 2, 5, 20}).Draw(rt, "reps")
		}
		if op.Op == "start" || op.Op == "churn" {
			// mostly long timers, so that the never-fires clause is decidable
			if rapid.IntRange(0, 3).Draw(rt, "short") != 0 {
				op.K = op.K % 2
			}
		}
		return op
	}), 1, 8).Draw(rt, "ops")
	return c
}

// ---------------------------------------------------------------------------
// tests

const c12RuleModel = "StandardRoundTimer inside a synctest bubble: generated TimeoutStrategy (production LinearTimeoutStrategy or a table) + 1..30 ops {start kind/h/r, cancel (1..4 concurrent callers), cancel of an older timer, advance fake time (absolute, deadline-1ns, deadline, deadline+1ns, half), churn = n x (noise; cancel; start)} with or without a quiescence point after the op; oracle = reference model of one timer evaluated after every op; non-trivial = at least one start issued directly after a cancel (no quiescence point, no time advance in between); distinct = distinct (strategy, op list)"

const c12RuleRace = "StandardRoundTimer on the real scheduler with GOMAXPROCS=16: a pattern of 1..8 ops {start, cancel, stale cancel, wait for a short timer, churn} with generated Gosched/spin noise, repeated up to 10000 times (<= ~25k timer requests) on one timer instance; 24h timers must never fire, every start must return a fresh live channel, the process must survive; non-trivial = the pattern contains a start directly after a cancel; distinct = distinct (strategy, pattern, iterations)"

func c12ModelTest(t *testing.T, name string) {
	st := vk.NewStats("C12", name, c12RuleModel)
	defer st.Flush()
	defer runtime.GOMAXPROCS(runtime.GOMAXPROCS(16))
	var c c12Case
	if ok, err := vk.LoadReplay("C12", name, &c); err != nil {
		t.Fatal(err)
	} else if ok {
		// The race clauses depend on the goroutine schedule: a replay tries the case repeatedly.
		c12RunBubble(t, t, st, c, 300)
		return
	} else if vk.Replaying() {
		t.Skip("replay file is for another test")
	}
	rapid.Check(t, func(rt *rapid.T) {
		c12RunBubble(t, rt, st, c12GenBubble(rt), 1)
	})
}

func c12RaceTest(t *testing.T, name string) {
	st := vk.NewStats("C12", name, c12RuleRace)
	defer st.Flush()
	defer runtime.GOMAXPROCS(runtime.GOMAXPROCS(16))
	var c c12Case
	if ok, err := vk.LoadReplay("C12", name, &c); err != nil {
		t.Fatal(err)
	} else if ok {
		c12RunRace(t, st, c, 20)
		return
	} else if vk.Replaying() {
		t.Skip("replay file is for another test")
	}
	rapid.Check(t, func(rt *rapid.T) {
		c12RunRace(rt, st, c12GenRace(rt), 1)
	})
}

func TestVerifC12TimerModel(t *testing.T) { c12ModelTest(t, "TestVerifC12TimerModel") }
func TestVerifC12TimerRace(t *testing.T)  { c12RaceTest(t, "TestVerifC12TimerRace") }

// Same tests under their own names for the -race (data race detector) build of the thorough tier.
func TestVerifC12TimerModelDetector(t *testing.T) { c12ModelTest(t, "TestVerifC12TimerModelDetector") }
func TestVerifC12TimerRaceDetector(t *testing.T)  { c12RaceTest(t, "TestVerifC12TimerRaceDetector") }
