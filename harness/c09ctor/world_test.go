package tmengine_test

import (
	"bytes"
	"context"
	"log/slog"
	"time"

	"github.com/gordian-engine/gordian/gassert/gasserttest"
	"github.com/gordian-engine/gordian/gwatchdog"
	"github.com/gordian-engine/gordian/tm/tmconsensus"
	"github.com/gordian-engine/gordian/tm/tmconsensus/tmconsensustest"
	"github.com/gordian-engine/gordian/tm/tmdriver"
	"github.com/gordian-engine/gordian/tm/tmengine"
	"github.com/gordian-engine/gordian/tm/tmengine/internal/tmstate/tmstatetest"
	"github.com/gordian-engine/gordian/tm/tmengine/tmelink"
	"github.com/gordian-engine/gordian/tm/tmstore/tmmemstore"
)

// c09World holds the real values the option list refers to. It is built inside
// the synctest bubble of one case; every goroutine it starts ends when ctx is
// cancelled.
type c09World struct {
	ctx context.Context
	log *slog.Logger
	fx  *tmconsensustest.Fixture

	genesis *tmconsensus.ExternalGenesis

	actionStore          *tmmemstore.ActionStore
	committedHeaderStore *tmmemstore.CommittedHeaderStore
	finalizationStore    *tmmemstore.FinalizationStore
	mirrorStore          *tmmemstore.MirrorStore
	roundStore           *tmmemstore.RoundStore
	stateMachineStore    *tmmemstore.StateMachineStore
	validatorStore       *tmmemstore.ValidatorStore

	gossip *c09Gossip

	initChain   map[string]chan tmdriver.InitChainRequest
	finalize    map[string]chan tmdriver.FinalizeBlockRequest
	dataArrival map[string]chan tmelink.BlockDataArrival
	lagState    map[string]chan tmelink.LagState
	replayed    map[string]chan tmelink.ReplayedHeaderRequest
	metrics     map[string]chan tmengine.Metrics
	nopWd       *gwatchdog.Watchdog
	nopWdCtx    context.Context
	realWd      *gwatchdog.Watchdog
	realWdCtx   context.Context
}

const c09InitAppStateHash = "app_state_0"

// c09Gossip is a gossip strategy that drains its update channel.
type c09Gossip struct {
	ctx     context.Context
	started bool
	done    chan struct{}
}

func (g *c09Gossip) Start(ch <-chan tmelink.NetworkViewUpdate) {
	g.started = true
	go func() {
		defer close(g.done)
		for {
			select {
			case <-g.ctx.Done():
				return
			case <-ch:
			}
		}
	}()
}

func (g *c09Gossip) Wait() {
	if g.started {
		<-g.done
	}
}

func c09NewWorld(ctx context.Context, preInit, slowConsumers bool) *c09World {
	w := &c09World{
		ctx: ctx,
		log: slog.New(slog.DiscardHandler),
		fx:  tmconsensustest.NewEd25519Fixture(4),

		actionStore:          tmmemstore.NewActionStore(),
		committedHeaderStore: tmmemstore.NewCommittedHeaderStore(),
		finalizationStore:    tmmemstore.NewFinalizationStore(),
		mirrorStore:          tmmemstore.NewMirrorStore(),
		roundStore:           tmmemstore.NewRoundStore(),
		stateMachineStore:    tmmemstore.NewStateMachineStore(),

		initChain: map[string]chan tmdriver.InitChainRequest{
			vUnbuffered: make(chan tmdriver.InitChainRequest),
			vBuffered:   make(chan tmdriver.InitChainRequest, 1),
		},
		finalize: map[string]chan tmdriver.FinalizeBlockRequest{
			vUnbuffered: make(chan tmdriver.FinalizeBlockRequest),
			vBuffered:   make(chan tmdriver.FinalizeBlockRequest, 1),
		},
		dataArrival: map[string]chan tmelink.BlockDataArrival{
			vUnbuffered: make(chan tmelink.BlockDataArrival),
			vBuffered:   make(chan tmelink.BlockDataArrival, 1),
		},
		lagState: map[string]chan tmelink.LagState{
			vUnbuffered: make(chan tmelink.LagState),
			vBuffered:   make(chan tmelink.LagState, 1),
		},
		replayed: map[string]chan tmelink.ReplayedHeaderRequest{
			vUnbuffered: make(chan tmelink.ReplayedHeaderRequest),
			vBuffered:   make(chan tmelink.ReplayedHeaderRequest, 1),
		},
		metrics: map[string]chan tmengine.Metrics{
			vUnbuffered: make(chan tmengine.Metrics),
			vBuffered:   make(chan tmengine.Metrics, 1),
			vNonEmpty:   make(chan tmengine.Metrics, 1),
		},
	}
	w.metrics[vNonEmpty] <- tmengine.Metrics{}
	w.validatorStore = w.fx.NewMemValidatorStore()
	w.gossip = &c09Gossip{ctx: ctx, done: make(chan struct{})}
	w.genesis = &tmconsensus.ExternalGenesis{
		ChainID:             "my-chain",
		InitialHeight:       1,
		InitialAppState:     new(bytes.Buffer),
		GenesisValidatorSet: w.fx.ValSet(),
	}
	w.nopWd, w.nopWdCtx = gwatchdog.NewNopWatchdog(ctx, w.log)
	w.realWd, w.realWdCtx = gwatchdog.NewWatchdog(ctx, w.log)

	if preInit {
		// The state New leaves behind after a successful InitChain and mirror start.
		g := tmconsensus.Genesis{
			ChainID:             w.genesis.ChainID,
			InitialHeight:       w.genesis.InitialHeight,
			CurrentAppStateHash: []byte(c09InitAppStateHash),
			ValidatorSet:        w.genesis.GenesisValidatorSet,
		}
		h, err := g.Header(w.fx.HashScheme)
		if err != nil {
			panic("harness: genesis header: " + err.Error())
		}
		if err := w.finalizationStore.SaveFinalization(ctx, 0, 0, string(h.Hash), g.ValidatorSet, c09InitAppStateHash); err != nil {
			panic("harness: save finalization: " + err.Error())
		}
		if err := w.mirrorStore.SetNetworkHeightRound(ctx, 1, 0, 0, 0); err != nil {
			panic("harness: set network height round: " + err.Error())
		}
	}

	// The driver: answers InitChain at once on whichever channel it arrives.
	for _, ch := range w.initChain {
		go func(ch chan tmdriver.InitChainRequest) {
			for {
				select {
				case <-ctx.Done():
					return
				case req, ok := <-ch:
					if !ok {
						return // closed by the engine: chain already initialised
					}
					select {
					case req.Resp <- tmdriver.InitChainResponse{AppStateHash: []byte(c09InitAppStateHash)}:
					case <-ctx.Done():
						return
					}
				}
			}
		}(ch)
	}
	// Consumers of the output channels that the docs tell the application to read.
	// A slow consumer (never reading) must not wedge the engine or its shutdown.
	if !slowConsumers {
		for _, ch := range w.lagState {
			go c09Drain(ctx, ch)
		}
		go c09Drain(ctx, w.metrics[vUnbuffered])
		go c09Drain(ctx, w.metrics[vBuffered])
	}
	return w
}

func c09Drain[T any](ctx context.Context, ch <-chan T) {
	for {
		select {
		case <-ctx.Done():
			return
		case <-ch:
		}
	}
}

// waitHelpers blocks until the goroutines owned by the world's watchdogs ended.
func (w *c09World) waitHelpers() {
	w.nopWd.Wait()
	w.realWd.Wait()
}

// build turns the option list into real tmengine.Opt values (in list order) and
// returns the context the constructor is to be called with: the context of the
// effective watchdog when there is one, as tmenginetest.Fixture does.
func (w *c09World) build(c c09CtorCase) ([]tmengine.Opt, context.Context) {
	engCtx := w.ctx
	opts := make([]tmengine.Opt, 0, len(c.Ops))
	for _, op := range c.Ops {
		isNil := op.Val == vNil
		var o tmengine.Opt
		switch op.Name {
		case "Genesis":
			if isNil {
				o = tmengine.WithGenesis(nil)
			} else if op.Val == vEmptyVals {
				g := *w.genesis
				g.GenesisValidatorSet = tmconsensus.ValidatorSet{}
				o = tmengine.WithGenesis(&g)
			} else {
				o = tmengine.WithGenesis(w.genesis)
			}
		case "HashScheme":
			if isNil {
				o = tmengine.WithHashScheme(nil)
			} else {
				o = tmengine.WithHashScheme(w.fx.HashScheme)
			}
		case "SignatureScheme":
			if isNil {
				o = tmengine.WithSignatureScheme(nil)
			} else {
				o = tmengine.WithSignatureScheme(w.fx.SignatureScheme)
			}
		case "CommonMessageSignatureProofScheme":
			if isNil {
				o = tmengine.WithCommonMessageSignatureProofScheme(nil)
			} else {
				o = tmengine.WithCommonMessageSignatureProofScheme(w.fx.CommonMessageSignatureProofScheme)
			}
		case "MirrorStore":
			if isNil {
				o = tmengine.WithMirrorStore(nil)
			} else {
				o = tmengine.WithMirrorStore(w.mirrorStore)
			}
		case "RoundStore":
			if isNil {
				o = tmengine.WithRoundStore(nil)
			} else {
				o = tmengine.WithRoundStore(w.roundStore)
			}
		case "ValidatorStore":
			if isNil {
				o = tmengine.WithValidatorStore(nil)
			} else {
				o = tmengine.WithValidatorStore(w.validatorStore)
			}
		case "CommittedHeaderStore":
			if isNil {
				o = tmengine.WithCommittedHeaderStore(nil)
			} else {
				o = tmengine.WithCommittedHeaderStore(w.committedHeaderStore)
			}
		case "FinalizationStore":
			if isNil {
				o = tmengine.WithFinalizationStore(nil)
			} else {
				o = tmengine.WithFinalizationStore(w.finalizationStore)
			}
		case "StateMachineStore":
			if isNil {
				o = tmengine.WithStateMachineStore(nil)
			} else {
				o = tmengine.WithStateMachineStore(w.stateMachineStore)
			}
		case "ActionStore":
			if isNil {
				o = tmengine.WithActionStore(nil)
			} else {
				o = tmengine.WithActionStore(w.actionStore)
			}
		case "Watchdog":
			switch op.Val {
			case vNil:
				o = tmengine.WithWatchdog(nil)
				engCtx = w.ctx
			case vReal:
				o = tmengine.WithWatchdog(w.realWd)
				engCtx = w.realWdCtx
			default:
				o = tmengine.WithWatchdog(w.nopWd)
				engCtx = w.nopWdCtx
			}
		case "GossipStrategy":
			if isNil {
				o = tmengine.WithGossipStrategy(nil)
			} else {
				o = tmengine.WithGossipStrategy(w.gossip)
			}
		case "ConsensusStrategy":
			if isNil {
				o = tmengine.WithConsensusStrategy(nil)
			} else {
				o = tmengine.WithConsensusStrategy(tmconsensustest.NopConsensusStrategy{})
			}
		case "Signer":
			if isNil {
				o = tmengine.WithSigner(nil)
			} else {
				o = tmengine.WithSigner(tmconsensus.PassthroughSigner{
					Signer:          w.fx.PrivVals[0].Signer,
					SignatureScheme: w.fx.SignatureScheme,
				})
			}
		case "InternalRoundTimer":
			if isNil {
				o = tmengine.WithInternalRoundTimer(nil)
			} else {
				o = tmengine.WithInternalRoundTimer(new(tmstatetest.MockRoundTimer))
			}
		case "TimeoutStrategy":
			// The context only controls the timer's goroutine; it is the world's.
			if isNil {
				o = tmengine.WithTimeoutStrategy(w.ctx, nil)
			} else {
				o = tmengine.WithTimeoutStrategy(w.ctx, tmengine.LinearTimeoutStrategy{})
			}
		case "InitChainChannel":
			if isNil {
				o = tmengine.WithInitChainChannel(nil)
			} else {
				o = tmengine.WithInitChainChannel(w.initChain[op.Val])
			}
		case "BlockFinalizationChannel":
			if isNil {
				o = tmengine.WithBlockFinalizationChannel(nil)
			} else {
				o = tmengine.WithBlockFinalizationChannel(w.finalize[op.Val])
			}
		case "BlockDataArrivalChannel":
			if isNil {
				o = tmengine.WithBlockDataArrivalChannel(nil)
			} else {
				o = tmengine.WithBlockDataArrivalChannel(w.dataArrival[op.Val])
			}
		case "LagStateChannel":
			if isNil {
				o = tmengine.WithLagStateChannel(nil)
			} else {
				o = tmengine.WithLagStateChannel(w.lagState[op.Val])
			}
		case "ReplayedHeaderRequestChannel":
			if isNil {
				o = tmengine.WithReplayedHeaderRequestChannel(nil)
			} else {
				o = tmengine.WithReplayedHeaderRequestChannel(w.replayed[op.Val])
			}
		case "MetricsChannel":
			if isNil {
				o = tmengine.WithMetricsChannel(nil)
			} else {
				o = tmengine.WithMetricsChannel(w.metrics[op.Val])
			}
		case "ProposedHeaderInterceptor":
			if isNil {
				o = tmengine.WithProposedHeaderInterceptor(nil)
			} else {
				o = tmengine.WithProposedHeaderInterceptor(tmelink.ProposedHeaderInterceptorFunc(
					func(context.Context, *tmconsensus.ProposedHeader) error { return nil },
				))
			}
		case "AssertEnv":
			o = tmengine.WithAssertEnv(gasserttest.DefaultEnv())
		default:
			panic("harness: unknown option " + op.Name)
		}
		opts = append(opts, o)
	}
	return opts, engCtx
}

// c09CallDeadline is the fake-time budget of one Handle* call, and of Wait.
const (
	c09CallDeadline = 30 * time.Second
	c09WaitDeadline = time.Hour
	c09AdvanceBy    = 12 * time.Second
)
