package tmengine_test

import (
	"context"
	"fmt"
	"runtime/debug"
	"strings"
	"testing"
	"testing/synctest"
	"time"

	"github.com/gordian-engine/gordian/internal/zzverif/vk"
	"github.com/gordian-engine/gordian/tm/tmconsensus"
	"github.com/gordian-engine/gordian/tm/tmengine"
	"pgregory.net/rapid"
)

// C09 constructor part. See model_test.go for the option model and generator.

const c09CtorRule = "option lists for the constructor: per option a draw decides present-valid / omitted / invalid value class / duplicated, under a per-case profile (near-complete, noisy, arbitrary, sparse); optional options present or absent; any order; value classes valid/nil/unbuffered/buffered/nonempty/real-watchdog/emptyvals-genesis; non-trivial = the list is incomplete or contains >=1 invalid value (>=1 harness-known defect); consumers of the metrics/lag channels drain or never read; distinct = distinct (target, preinit, advance, slow_consumers, ordered option list)"

// c09Instance is what both constructors return, as far as the oracle cares.
type c09Instance interface {
	tmconsensus.FineGrainedConsensusHandler
	Wait()
}

type c09Outcome struct {
	clause, detail string
	culprits       []string
	labels         []string
}

func (o *c09Outcome) fail(clause, format string, args ...any) {
	if o.clause == "" {
		o.clause, o.detail = clause, fmt.Sprintf(format, args...)
	}
}

func c09PHDefined(r tmconsensus.HandleProposedHeaderResult) bool {
	return r >= tmconsensus.HandleProposedHeaderAccepted && r <= tmconsensus.HandleProposedHeaderInternalError
}

func c09VoteDefined(r tmconsensus.HandleVoteProofsResult) bool {
	return r >= tmconsensus.HandleVoteProofsAccepted && r <= tmconsensus.HandleVoteProofsInternalError
}

// c09Execute runs one case against the real constructor inside a synctest
// bubble. Nothing in here may call t.Fatal: the verdict is carried out of the
// bubble in the returned outcome.
func c09Execute(t *testing.T, c c09CtorCase, exp c09Expect) (out c09Outcome) {
	defer func() {
		// synctest.Test panics on the calling goroutine when the bubble deadlocks
		// or when blocked goroutines remain after the bubble function returned.
		if r := recover(); r != nil {
			if strings.Contains(fmt.Sprint(r), "blocked goroutines remain") {
				out.fail("goroutines-remain-after-shutdown", "after ctx cancel and Wait: %v", r)
			} else {
				out.fail("deadlock", "%v", r)
			}
		}
	}()
	synctest.Test(t, func(t *testing.T) {
		ctx, cancel := context.WithCancel(context.Background())
		var w *c09World
		defer func() {
			// Runs last: whatever happened, stop every goroutine of the world so the
			// bubble can end.
			cancel()
			if w != nil {
				w.waitHelpers()
			}
		}()
		defer func() {
			if r := recover(); r != nil {
				out.fail("panic", "%v\n%s", r, debug.Stack())
			}
		}()

		w = c09NewWorld(ctx, c.PreInit, c.SlowConsumers)
		opts, engCtx := w.build(c)

		var inst c09Instance
		var err error
		switch c.Target {
		case "New":
			var e *tmengine.Engine
			e, err = tmengine.New(engCtx, w.log, opts...)
			if e != nil {
				inst = e
			}
		case "NewMirror":
			var m tmengine.Mirror
			m, err = tmengine.NewMirror(engCtx, w.log, opts...)
			if m != nil {
				inst = m
			}
		default:
			panic("harness: unknown target " + c.Target)
		}

		errText := ""
		if err != nil {
			errText = err.Error()
			out.labels = append(out.labels, "outcome=error")
		} else {
			out.labels = append(out.labels, "outcome=instance")
		}
		if cl, d, culprits := c09Judge(exp, inst != nil, err == nil, errText); cl != "" {
			out.fail(cl, "%s", d)
			out.culprits = culprits
		}

		if inst == nil {
			return
		}
		// From here on an instance exists and must be shut down in every path.
		shutdown := func() {
			cancel()
			done := make(chan struct{})
			go func() {
				defer close(done)
				inst.Wait()
			}()
			select {
			case <-done:
			case <-time.After(c09WaitDeadline):
				out.fail("wait-never-returns", "Wait did not return within %v of fake time after the context was cancelled", c09WaitDeadline)
			}
		}
		if out.clause != "" || err != nil {
			shutdown()
			return
		}

		// The option set is complete and valid: the instance must serve.
		out.labels = append(out.labels, "served")
		ph := w.fx.NextProposedHeader([]byte("app_data_1"), 1)
		w.fx.SignProposal(ctx, &ph, 1)
		pubKeyHash, _ := w.fx.ValidatorHashes()
		prevote := tmconsensus.PrevoteSparseProof{
			Height:     1,
			Round:      0,
			PubKeyHash: pubKeyHash,
			Proofs: w.fx.SparsePrevoteProofMap(ctx, 1, 0, map[string][]int{
				string(ph.Header.Hash): {2},
			}),
		}

		callPH := func(step string) {
			cctx, ccancel := context.WithTimeout(engCtx, c09CallDeadline)
			defer ccancel()
			r := inst.HandleProposedHeader(cctx, ph)
			if cctx.Err() != nil {
				out.fail("call-wedged", "%s: HandleProposedHeader only returned (%s) when its %v fake-time deadline fired", step, r, c09CallDeadline)
				return
			}
			if !c09PHDefined(r) {
				out.fail("undefined-result", "%s: HandleProposedHeader returned %s", step, r)
			}
			out.labels = append(out.labels, step+":ph="+r.String())
			if step == "first" && r != tmconsensus.HandleProposedHeaderAccepted {
				out.fail("valid-proposal-not-accepted", "a freshly constructed instance answered %s to a correctly signed proposal for height 1 round 0", r)
			}
		}
		callVote := func(step string) {
			cctx, ccancel := context.WithTimeout(engCtx, c09CallDeadline)
			defer ccancel()
			r := inst.HandlePrevoteProofs(cctx, prevote)
			if cctx.Err() != nil {
				out.fail("call-wedged", "%s: HandlePrevoteProofs only returned (%s) when its %v fake-time deadline fired", step, r, c09CallDeadline)
				return
			}
			if !c09VoteDefined(r) {
				out.fail("undefined-result", "%s: HandlePrevoteProofs returned %s", step, r)
			}
			out.labels = append(out.labels, step+":prevote="+r.String())
			if step == "first" && r != tmconsensus.HandleVoteProofsAccepted {
				out.fail("valid-vote-not-accepted", "a freshly constructed instance answered %s to a correctly signed prevote for height 1 round 0", r)
			}
		}

		callPH("first")
		callVote("first")
		synctest.Wait()
		if c.Advance && out.clause == "" {
			time.Sleep(c09AdvanceBy)
			synctest.Wait()
			callPH("later")
			callVote("later")
			synctest.Wait()
		}
		shutdown()
	})
	return out
}

func c09RunCtorCase(t *testing.T, tb vk.TB, st *vk.Stats, c c09CtorCase) {
	exp := c09Model(c, vk.Excluded(c09F1))
	for _, id := range exp.Excluded {
		st.Excluded(id)
	}
	if st.WantSample() {
		st.Sample(map[string]any{"case": c, "harness_known_defects": exp.Must, "phase2": exp.Phase2})
	}
	labels := []string{
		fmt.Sprintf("defects=%d", min(exp.Defects(), 4)),
		fmt.Sprintf("nops=%d", min(len(c.Ops)/5*5, 30)),
	}
	if exp.Dups > 0 {
		labels = append(labels, "has-duplicate")
	}
	if c.PreInit {
		labels = append(labels, "preinit")
	}
	if c.SlowConsumers {
		labels = append(labels, "slow-consumers")
	}
	if exp.WatchdogClass != "" {
		labels = append(labels, "watchdog="+exp.WatchdogClass)
	}
	labels = append(labels, exp.Kinds...)
	st.Case(exp.Defects() >= 1, vk.FP(c), labels...)
	// A panic on a goroutine of the instance (mirror kernel, state machine) kills
	// the process; the write-ahead copy lets the driver attribute it to this case.
	st.WAL(c)
	st.Guard(tb, c, func() {
		out := c09Execute(t, c, exp)
		for _, l := range out.labels {
			st.Label(l)
		}
		if out.clause != "" {
			// The failure belongs to a listed finding only if that finding's trigger
			// holds for this list AND the failed clause is about nothing else.
			finding := ""
			if exp.F1Trigger && len(out.culprits) == 1 && out.culprits[0] == "WithCommittedHeaderStore" &&
				(out.clause == "accepted-defective-options" || out.clause == "error-omits-option") {
				finding = c09F1
			}
			st.Fail(tb, c, finding, out.clause, "%s %v: %s", c.Target, c.Ops, out.detail)
		}
	})
}

func c09CtorTest(t *testing.T, name, target string) {
	st := vk.NewStats("C09", name, c09CtorRule)
	defer st.Flush()
	var c c09CtorCase
	if ok, err := vk.LoadReplay("C09", name, &c); err != nil {
		t.Fatal(err)
	} else if ok {
		c09RunCtorCase(t, t, st, c)
		return
	} else if vk.Replaying() {
		t.Skip("replay file is for another test")
	}
	rapid.Check(t, func(rt *rapid.T) {
		c := c09GenCase(rt, target)
		c09RunCtorCase(t, rt, st, c)
	})
}

func TestVerifC09CtorNew(t *testing.T) { c09CtorTest(t, "TestVerifC09CtorNew", "New") }
func TestVerifC09CtorNewMirror(t *testing.T) {
	c09CtorTest(t, "TestVerifC09CtorNewMirror", "NewMirror")
}
