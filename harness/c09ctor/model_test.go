package tmengine_test

import (
	"fmt"
	"sort"
	"strings"

	"pgregory.net/rapid"
)

// C09 constructor part: the option table, the independent option model (the
// oracle's knowledge of what the harness left out or broke) and the generator.

// c09Opt is one element of the option list handed to the constructor:
// tmengine.With<Name>(<value of class Val>).
type c09Opt struct {
	Name string `json:"name"`
	Val  string `json:"val"`
}

type c09CtorCase struct {
	Target  string `json:"target"`  // "New" | "NewMirror"
	PreInit bool   `json:"preinit"` // the stores already hold an initialised chain (InitChain not needed)
	Advance bool   `json:"advance"` // advance fake time by 12 s between the calls and the shutdown
	// SlowConsumers: nobody receives from the metrics and lag-state channels
	// (otherwise the harness drains them until the context is cancelled).
	SlowConsumers bool     `json:"slow_consumers"`
	Ops           []c09Opt `json:"ops"`
}

// Value classes.
const (
	vValid      = "valid"
	vNil        = "nil"
	vUnbuffered = "unbuffered"
	vBuffered   = "buffered"  // capacity 1, empty
	vNonEmpty   = "nonempty"  // capacity 1, holding one value
	vReal       = "real"      // Watchdog only: gwatchdog.NewWatchdog instead of the nop one
	vEmptyVals  = "emptyvals" // Genesis only: an ExternalGenesis whose GenesisValidatorSet has no validators
)

type c09OptInfo struct {
	Name string
	// Token is the option name the code's own error strings use for this option
	// (read from engine.go/mirror.go/opts.go: "no X set (use tmengine.WithY)" and
	// "WithY: ..."). It equals "With"+Name except for the internal round timer,
	// whose documented error points at WithTimeoutStrategy.
	Token string
	// Field is the model slot the option writes (last write wins).
	Field string
	// Vals: all value classes; the first one is the canonical valid value.
	Vals []string
	// ReqNew / ReqMirror: the option is documented as required ("This option is
	// required." in opts.go, or listed by validateSettings/validateMirrorSettings).
	ReqNew, ReqMirror bool
}

var c09Opts = []c09OptInfo{
	{Name: "Genesis", Vals: []string{vValid, vNil, vEmptyVals}, ReqNew: true, ReqMirror: true},
	{Name: "HashScheme", Vals: []string{vValid, vNil}, ReqNew: true, ReqMirror: true},
	{Name: "SignatureScheme", Vals: []string{vValid, vNil}, ReqNew: true, ReqMirror: true},
	{Name: "CommonMessageSignatureProofScheme", Vals: []string{vValid, vNil}, ReqNew: true, ReqMirror: true},
	{Name: "MirrorStore", Vals: []string{vValid, vNil}, ReqNew: true, ReqMirror: true},
	{Name: "RoundStore", Vals: []string{vValid, vNil}, ReqNew: true, ReqMirror: true},
	{Name: "ValidatorStore", Vals: []string{vValid, vNil}, ReqNew: true, ReqMirror: true},
	{Name: "CommittedHeaderStore", Vals: []string{vValid, vNil}, ReqNew: true, ReqMirror: true},
	{Name: "Watchdog", Vals: []string{vValid, vReal, vNil}, ReqNew: true, ReqMirror: true},
	{Name: "FinalizationStore", Vals: []string{vValid, vNil}, ReqNew: true},
	{Name: "StateMachineStore", Vals: []string{vValid, vNil}, ReqNew: true},
	{Name: "GossipStrategy", Vals: []string{vValid, vNil}, ReqNew: true},
	{Name: "ConsensusStrategy", Vals: []string{vValid, vNil}, ReqNew: true},
	{Name: "BlockFinalizationChannel", Vals: []string{vUnbuffered, vBuffered, vNil}, ReqNew: true},
	{Name: "InternalRoundTimer", Token: "WithTimeoutStrategy", Field: "RoundTimer", Vals: []string{vValid, vNil}},
	{Name: "TimeoutStrategy", Field: "RoundTimer", Vals: []string{vValid, vNil}},
	{Name: "InitChainChannel", Vals: []string{vUnbuffered, vBuffered, vNil}},
	{Name: "ActionStore", Vals: []string{vValid, vNil}},
	{Name: "Signer", Vals: []string{vValid, vNil}},
	{Name: "BlockDataArrivalChannel", Vals: []string{vUnbuffered, vBuffered, vNil}},
	{Name: "LagStateChannel", Vals: []string{vUnbuffered, vNil, vBuffered}},
	{Name: "ProposedHeaderInterceptor", Vals: []string{vValid, vNil}},
	{Name: "ReplayedHeaderRequestChannel", Vals: []string{vUnbuffered, vBuffered, vNil}},
	{Name: "MetricsChannel", Vals: []string{vUnbuffered, vNil, vBuffered, vNonEmpty}},
	{Name: "AssertEnv", Vals: []string{vValid}},
}

var c09OptByName = func() map[string]*c09OptInfo {
	m := map[string]*c09OptInfo{}
	for i := range c09Opts {
		o := &c09Opts[i]
		if o.Token == "" {
			o.Token = "With" + o.Name
		}
		if o.Field == "" {
			o.Field = o.Name
		}
		m[o.Name] = o
	}
	return m
}()

// c09Expect is what the harness knows about the option list, derived without
// looking at the constructor's behaviour.
type c09Expect struct {
	// Must: tokens of every option that is documented-required but missing / nil
	// after all options were applied in order (last write wins), plus every
	// option whose value its own doc or error text rejects. Sorted, unique.
	Must []string
	// Phase2: defects the constructor can only discover after option validation,
	// in this order: WithInitChainChannel (needed only if the stores say the chain
	// is uninitialised), then WithGenesis with an empty validator set (only known
	// once the InitChain response brought no validators either). Only the first
	// one is demanded in the error text, and only when Must is empty.
	Phase2 []string
	// May: tokens the error may additionally mention without being misleading
	// (value classes on which the docs are ambiguous).
	May map[string]bool
	// Kinds describes each defect for labels ("missing:X", "nil:X", "rejected:X").
	Kinds []string
	// WatchdogClass is the class of the effective watchdog ("" if none).
	WatchdogClass string
	Dups          int
	// Excluded: ids of known findings whose trigger this list satisfies and that
	// were therefore taken out of Must (excluded by construction).
	Excluded []string
	// F1Trigger: the trigger of known finding C09-F1 holds for this list and the
	// finding is NOT excluded (reproducer mode, or the entry is gone / fixed).
	F1Trigger bool
}

// c09F1 is the known finding "tmengine.New accepts an option list without a
// committed header store". Trigger: target == New and no effective (non-nil)
// WithCommittedHeaderStore.
const c09F1 = "C09-A23"

func c09Model(c c09CtorCase, excludeF1 bool) c09Expect {
	field := map[string]string{} // field -> last value class
	seen := map[string]int{}
	must := map[string]bool{}
	exp := c09Expect{May: map[string]bool{}}
	kinds := map[string]bool{}
	for _, op := range c.Ops {
		info := c09OptByName[op.Name]
		if info == nil {
			panic("harness: unknown option " + op.Name)
		}
		seen[op.Name]++
		if seen[op.Name] == 2 {
			exp.Dups++
		}
		field[info.Field] = op.Val
		// Option-level rejections: the option function itself refuses the value,
		// whatever comes later.
		switch {
		case op.Name == "LagStateChannel" && op.Val == vBuffered:
			// opts.go: "capacity of channel must be zero".
			must[info.Token] = true
			kinds["rejected:"+op.Name] = true
		case op.Name == "MetricsChannel" && op.Val == vNonEmpty:
			// opts.go: "ch must be unbuffered" (checked through len(ch)).
			must[info.Token] = true
			kinds["rejected:"+op.Name] = true
		case op.Name == "MetricsChannel" && op.Val == vBuffered:
			// The error text says "must be unbuffered" but the check is len(ch)!=0,
			// so an empty buffered channel passes today. Either outcome is accepted.
			exp.May[info.Token] = true
			kinds["ambiguous:"+op.Name] = true
		}
	}
	set := func(f string) bool { v, ok := field[f]; return ok && v != vNil }
	miss := func(o *c09OptInfo) {
		must[o.Token] = true
		if _, ok := field[o.Field]; ok {
			kinds["nil:"+o.Field] = true
		} else {
			kinds["missing:"+o.Field] = true
		}
	}
	for i := range c09Opts {
		o := &c09Opts[i]
		req := (c.Target == "New" && o.ReqNew) || (c.Target == "NewMirror" && o.ReqMirror)
		if req && !set(o.Field) {
			if c.Target == "New" && o.Name == "CommittedHeaderStore" {
				if excludeF1 {
					exp.Excluded = append(exp.Excluded, c09F1)
					kinds["excluded-known:CommittedHeaderStore"] = true
					continue
				}
				exp.F1Trigger = true
			}
			miss(o)
		}
	}
	if c.Target == "New" {
		// validateSettings: the round timer is required and reported as
		// WithTimeoutStrategy; a nil TimeoutStrategy is not a usable strategy.
		if !set("RoundTimer") {
			miss(c09OptByName["TimeoutStrategy"])
		}
		// "This option is required if using a non-nil signer."
		if set("Signer") && !set("ActionStore") {
			miss(c09OptByName["ActionStore"])
		}
		// "This option is only required if the chain has not yet been initialized."
		if !c.PreInit && !set("InitChainChannel") {
			exp.Phase2 = append(exp.Phase2, "WithInitChainChannel")
			if _, ok := field["InitChainChannel"]; ok {
				kinds["nil:InitChainChannel"] = true
			} else {
				kinds["missing:InitChainChannel"] = true
			}
		}
	}
	if field["Genesis"] == vEmptyVals {
		// A chain needs validators. The standalone mirror takes them from the
		// genesis only; the full engine may get them from the InitChain response
		// (the harness driver returns none) or from an already initialised store.
		switch {
		case c.Target == "NewMirror":
			must["WithGenesis"] = true
			kinds["emptyvals:Genesis"] = true
		case !c.PreInit:
			exp.Phase2 = append(exp.Phase2, "WithGenesis")
			kinds["emptyvals:Genesis"] = true
		}
	}
	for t := range must {
		exp.Must = append(exp.Must, t)
	}
	sort.Strings(exp.Must)
	for k := range kinds {
		exp.Kinds = append(exp.Kinds, k)
	}
	sort.Strings(exp.Kinds)
	exp.WatchdogClass = field["Watchdog"]
	if exp.WatchdogClass == vNil {
		exp.WatchdogClass = ""
	}
	return exp
}

// Defects is the number of simultaneous defects the harness planted.
func (e c09Expect) Defects() int { return len(e.Must) + len(e.Phase2) }

// c09Judge compares the constructor's outcome with the model.
// gotInstance: a non-nil instance was returned; errText: "" when err == nil.
// culprits: the option tokens the failed clause is about (for matching known findings).
func c09Judge(exp c09Expect, gotInstance bool, errIsNil bool, errText string) (clause, detail string, culprits []string) {
	if errIsNil {
		if !gotInstance {
			return "nil-nil", "constructor returned (nil, nil)", nil
		}
		if len(exp.Must) > 0 {
			return "accepted-defective-options", fmt.Sprintf("constructor returned an instance and no error although these documented-required options are missing/nil or these values are rejected by their docs: %v", exp.Must), exp.Must
		}
		if len(exp.Phase2) > 0 {
			return "accepted-defective-options", fmt.Sprintf("constructor returned an instance and no error although %v is needed (chain uninitialised / no validators)", exp.Phase2), exp.Phase2
		}
		return "", "", nil
	}
	// err != nil
	want := exp.Must
	if len(want) == 0 && len(exp.Phase2) > 0 {
		want = exp.Phase2[:1]
	}
	mentioned := c09Tokens(errText)
	if len(want) == 0 {
		// No defect known to the harness: only the ambiguous classes may be blamed.
		ok := len(mentioned) > 0
		for _, m := range mentioned {
			if !exp.May[m] {
				ok = false
			}
		}
		if !ok {
			return "spurious-error", fmt.Sprintf("every documented-required option is present and every value valid, yet the constructor failed: %q", errText), nil
		}
		return "", "", nil
	}
	var missing []string
	for _, w := range want {
		if !strings.Contains(errText, w) {
			missing = append(missing, w)
		}
	}
	if len(missing) > 0 {
		return "error-omits-option", fmt.Sprintf("error does not mention %v (harness-known defects: %v): %q", missing, want, errText), missing
	}
	allowed := map[string]bool{}
	for _, w := range exp.Must {
		allowed[w] = true
	}
	for _, w := range exp.Phase2 {
		allowed[w] = true
	}
	for w := range exp.May {
		allowed[w] = true
	}
	var blamed []string
	for _, m := range mentioned {
		if !allowed[m] {
			blamed = append(blamed, m)
		}
	}
	if len(blamed) > 0 {
		return "error-blames-valid-option", fmt.Sprintf("error mentions %v which the harness set to a valid value (harness-known defects: %v): %q", blamed, want, errText), blamed
	}
	if gotInstance {
		// New documents returning the half-built engine with some late errors so
		// that it can be Waited; for pure option errors nothing may have started.
		return "instance-with-option-error", fmt.Sprintf("option error returned together with a non-nil instance: %q", errText), nil
	}
	return "", "", nil
}

// c09Tokens extracts the distinct With* option names mentioned in an error text.
func c09Tokens(s string) []string {
	seen := map[string]bool{}
	var out []string
	for i := 0; i+4 <= len(s); i++ {
		if s[i:i+4] != "With" {
			continue
		}
		if i > 0 && isAlpha(s[i-1]) {
			continue
		}
		j := i + 4
		for j < len(s) && isAlpha(s[j]) {
			j++
		}
		if j == i+4 {
			continue
		}
		if t := s[i:j]; !seen[t] {
			seen[t] = true
			out = append(out, t)
		}
		i = j
	}
	sort.Strings(out)
	return out
}

func isAlpha(b byte) bool { return (b >= 'a' && b <= 'z') || (b >= 'A' && b <= 'Z') }

// ---------------------------------------------------------------------------
// generator

// c09Profile steers how far a generated list is from the complete valid set.
// The numbers are counts of values at the TOP of a [0,99] draw, so that rapid's
// shrinking (towards 0) moves every option towards "present with its canonical
// valid value" (required options) or "absent" (optional options): a shrunk
// failure is the complete valid option set except for the defects that matter.
type c09Profile struct {
	Name       string
	Omit       int // required option omitted
	Invalid    int // option present with an invalid value class
	OptPresent int // optional option present with a valid value class
	Dup        int // option given a second time with an arbitrary value class
}

var c09Profiles = []c09Profile{
	{Name: "near-complete", Omit: 2, Invalid: 2, OptPresent: 35, Dup: 3},
	{Name: "near-complete", Omit: 2, Invalid: 2, OptPresent: 35, Dup: 3},
	{Name: "near-complete", Omit: 3, Invalid: 4, OptPresent: 50, Dup: 6},
	{Name: "noisy", Omit: 8, Invalid: 8, OptPresent: 50, Dup: 10},
	{Name: "arbitrary", Omit: 30, Invalid: 30, OptPresent: 60, Dup: 20},
	{Name: "sparse", Omit: 85, Invalid: 5, OptPresent: 10, Dup: 4},
}

// c09SplitVals separates the value classes of o into unproblematic and
// problematic ones, given whether the option is required for the target.
func c09SplitVals(o *c09OptInfo, required bool) (valid, invalid []string) {
	for _, v := range o.Vals {
		switch {
		case v == vNil && required,
			o.Name == "LagStateChannel" && v == vBuffered,
			o.Name == "MetricsChannel" && (v == vNonEmpty || v == vBuffered),
			v == vEmptyVals:
			invalid = append(invalid, v)
		default:
			valid = append(valid, v)
		}
	}
	return valid, invalid
}

func c09GenCase(rt *rapid.T, target string) c09CtorCase {
	c := c09CtorCase{Target: target}
	if target == "New" {
		c.PreInit = rapid.IntRange(0, 3).Draw(rt, "preinit") == 3
	}
	c.Advance = rapid.IntRange(0, 3).Draw(rt, "advance") == 3
	c.SlowConsumers = rapid.IntRange(0, 2).Draw(rt, "slowConsumers") == 2
	prof := rapid.SampledFrom(c09Profiles).Draw(rt, "profile")
	// Which of the two round-timer options plays the required role.
	timerOpt := "InternalRoundTimer"
	if target == "New" && rapid.Bool().Draw(rt, "useTimeoutStrategy") {
		timerOpt = "TimeoutStrategy"
	}

	for i := range c09Opts {
		o := &c09Opts[i]
		required := (target == "New" && (o.ReqNew || o.Name == "InitChainChannel" || o.Name == timerOpt)) ||
			(target == "NewMirror" && o.ReqMirror)
		valid, invalid := c09SplitVals(o, required)
		x := rapid.IntRange(0, 99).Draw(rt, o.Name)
		val := ""
		switch {
		case len(invalid) > 0 && x >= 100-prof.Invalid:
			val = invalid[x%len(invalid)]
		case required && x >= 100-prof.Invalid-prof.Omit:
			// omitted
		case required:
			val = valid[x%len(valid)]
		case x >= 100-prof.Invalid-prof.OptPresent:
			val = valid[x%len(valid)]
		}
		if val == "" {
			continue
		}
		c.Ops = append(c.Ops, c09Opt{Name: o.Name, Val: val})
		if o.Name == "Signer" && val != vNil && target == "New" && rapid.IntRange(0, 9).Draw(rt, "signerActionStore") < 9 {
			c.Ops = append(c.Ops, c09Opt{Name: "ActionStore", Val: vValid})
		}
		if d := rapid.IntRange(0, 99).Draw(rt, "dup:"+o.Name); d >= 100-prof.Dup {
			c.Ops = append(c.Ops, c09Opt{Name: o.Name, Val: o.Vals[d%len(o.Vals)]})
		}
	}
	if len(c.Ops) > 1 && rapid.IntRange(0, 3).Draw(rt, "shuffle") != 0 {
		c.Ops = rapid.Permutation(c.Ops).Draw(rt, "order")
	}
	return c
}
