package tmconsensustest_test

import (
	"bytes"
	"fmt"
	"testing"

	"github.com/gordian-engine/gordian/internal/zzverif/vk"
	"github.com/gordian-engine/gordian/tm/tmconsensus"
	"github.com/gordian-engine/gordian/tm/tmconsensus/tmconsensustest"
	"pgregory.net/rapid"
)

var c15SS tmconsensus.SignatureScheme = tmconsensustest.SimpleSignatureScheme{}

// c15Target is one thing that gets signed.
// Kind 0 = prevote, 1 = precommit: (Height, Round, Hash) is the VoteTarget, Hash "" the nil vote.
// Kind 2 = proposal: Height, PrevBlockHash, PrevAppStateHash, DataID and Hash fill the header,
// Round is the proposal round, AnnUser/AnnDriver are the proposed header's annotations.
type c15Target struct {
	Kind             int    `json:"kind"`
	Height           uint64 `json:"height"`
	Round            uint32 `json:"round"`
	Hash             string `json:"hash"`
	PrevBlockHash    string `json:"prev_block_hash,omitempty"`
	PrevAppStateHash string `json:"prev_app_state_hash,omitempty"`
	DataID           string `json:"data_id,omitempty"`
	AnnUser          c15Opt `json:"ann_user"`
	AnnDriver        c15Opt `json:"ann_driver"`
}

var c15KindNames = []string{"prevote", "precommit", "proposal"}

func (x c15Target) canon() c15Target {
	x.Kind = c15Mod(x.Kind, 3)
	x.Hash = c15Canon(x.Hash)
	if x.Kind != 2 {
		// not part of a vote
		x.PrevBlockHash, x.PrevAppStateHash, x.DataID, x.AnnUser, x.AnnDriver = "", "", "", c15Opt{}, c15Opt{}
		return x
	}
	x.PrevBlockHash, x.PrevAppStateHash, x.DataID = c15Canon(x.PrevBlockHash), c15Canon(x.PrevAppStateHash), c15Canon(x.DataID)
	for _, o := range []*c15Opt{&x.AnnUser, &x.AnnDriver} {
		if o.Set {
			o.V = c15Canon(o.V)
		} else {
			o.V = ""
		}
	}
	return x
}

func c15OptKey(o c15Opt) string {
	if !o.Set {
		return "nil"
	}
	return "x" + o.V
}

// id is the identity of a canonical target as far as the signature is
// concerned: for votes (kind, height, round, hash); for proposals the fields
// the shipped scheme signs (height, round, prev block hash, prev app state
// hash, data id, proposal annotations). The header Hash of a proposal is not
// part of it (see notes/C15.md).
func (x c15Target) id(withHR bool) string {
	h, r := x.Height, x.Round
	if !withHR {
		h, r = 0, 0
	}
	if x.Kind != 2 {
		return fmt.Sprintf("%d|%d|%d|%s", x.Kind, h, r, x.Hash)
	}
	return fmt.Sprintf("2|%d|%d|%s|%s|%s|%s|%s", h, r, x.PrevBlockHash, x.PrevAppStateHash, x.DataID, c15OptKey(x.AnnUser), c15OptKey(x.AnnDriver))
}

func (x c15Target) full() string {
	if x.Kind != 2 {
		return x.id(true)
	}
	return x.id(true) + "|" + x.Hash
}

type c15Derive struct {
	From  int        `json:"from,omitempty"` // parent = targets[From mod len(targets so far)]
	Mut   c15Mut     `json:"mut"`
	Other *c15Target `json:"other,omitempty"` // when set: this target verbatim (cross-case collisions)
}

type c15SignCase struct {
	Base   c15Target   `json:"base"`
	Derive []c15Derive `json:"derive"`
}

var c15TShiftPairs = []string{"PrevBlockHash|PrevAppStateHash", "PrevAppStateHash|DataID"}
var c15TSwapPairs = []string{"PrevBlockHash|PrevAppStateHash", "PrevAppStateHash|DataID", "PrevBlockHash|DataID", "Ann.User|Ann.Driver"}

func (x *c15Target) bytesField(f string) *string {
	switch f {
	case "Hash":
		return &x.Hash
	case "PrevBlockHash":
		return &x.PrevBlockHash
	case "PrevAppStateHash":
		return &x.PrevAppStateHash
	case "DataID":
		return &x.DataID
	}
	return nil
}

// c15ApplyT applies a mutation to a target. Selectors that do not exist on a
// vote are mapped deterministically onto ones that do (byte fields -> Hash,
// everything else -> Kind), so no draw is wasted; the returned label names
// the field that was really changed.
func c15ApplyT(x c15Target, mu c15Mut) (c15Target, string) {
	if x.Kind != 2 {
		switch mu.F {
		case "PrevBlockHash", "PrevAppStateHash", "DataID":
			mu.F = "Hash"
		case "Ann.User", "Ann.Driver", "Shift", "Swap":
			mu = c15Mut{F: "Kind", N: mu.N}
		}
	}
	if p := x.bytesField(mu.F); p != nil {
		*p = c15StrOp(*p, mu)
		return x, mu.F
	}
	switch mu.F {
	case "Kind":
		x.Kind = int((uint64(x.Kind) + 1 + mu.N%2) % 3) // always another kind
	case "Height":
		x.Height = c15NumOp(x.Height, mu.Op, mu.K, mu.N, 64)
	case "Round":
		x.Round = uint32(c15NumOp(uint64(x.Round), mu.Op, mu.K, mu.N, 32))
	case "Ann.User":
		x.AnnUser = c15OptOp(x.AnnUser, mu)
	case "Ann.Driver":
		x.AnnDriver = c15OptOp(x.AnnDriver, mu)
	case "Shift":
		lf, rf := c15SplitPair(mu.Op)
		c15ShiftStrings(x.bytesField(lf), x.bytesField(rf), c15Mod(mu.K, 2) == 1)
	case "Swap":
		if mu.Op == "Ann.User|Ann.Driver" {
			x.AnnUser, x.AnnDriver = x.AnnDriver, x.AnnUser
			break
		}
		lf, rf := c15SplitPair(mu.Op)
		l, r := x.bytesField(lf), x.bytesField(rf)
		*l, *r = *r, *l
	default:
		panic(fmt.Errorf("c15: unknown target field selector %q", mu.F))
	}
	return x, mu.label()
}

var c15TMutFields = []string{"Kind", "Kind", "Kind", "Height", "Height", "Round", "Round", "Hash", "Hash", "Hash",
	"PrevBlockHash", "PrevAppStateHash", "DataID", "Ann.User", "Ann.Driver", "Shift", "Swap"}

func c15GenTMut(t *rapid.T) c15Mut {
	mu := c15Mut{F: rapid.SampledFrom(c15TMutFields).Draw(t, "f")}
	switch mu.F {
	case "Kind":
		mu.N = uint64(rapid.IntRange(0, 1).Draw(t, "kind"))
	case "Height", "Round":
		mu.Op = rapid.SampledFrom(c15NumOps).Draw(t, "op")
		switch mu.Op {
		case "set":
			mu.N = c15GenU64(t, "n")
		case "xor":
			mu.K = rapid.IntRange(0, 63).Draw(t, "bit")
		}
	case "Ann.User", "Ann.Driver":
		switch rapid.IntRange(0, 3).Draw(t, "annop") {
		case 0:
			mu.Op = "nil"
		case 1:
			mu.Op = "empty"
		default:
			c15GenBytesOperands(t, &mu)
		}
	case "Shift":
		mu.Op = rapid.SampledFrom(c15TShiftPairs).Draw(t, "pair")
		mu.K = rapid.IntRange(0, 1).Draw(t, "dir")
	case "Swap":
		mu.Op = rapid.SampledFrom(c15TSwapPairs).Draw(t, "pair")
	default:
		c15GenBytesOperands(t, &mu)
	}
	return mu
}

func c15GenTarget(t *rapid.T) c15Target {
	x := c15Target{
		Kind:   []int{0, 1, 2, 2}[rapid.IntRange(0, 3).Draw(t, "kind")],
		Height: c15GenU64(t, "height"),
		Round:  uint32(c15GenU64(t, "round")),
	}
	if rapid.IntRange(0, 3).Draw(t, "nilhash") != 0 {
		x.Hash = c15GenBytes(t, "hash")
	}
	if x.Kind == 2 {
		x.PrevBlockHash = c15GenBytes(t, "pbh")
		x.PrevAppStateHash = c15GenBytes(t, "pash")
		x.DataID = c15GenBytes(t, "dataid")
		x.AnnUser = c15GenOpt(t, "annu")
		x.AnnDriver = c15GenOpt(t, "annd")
	}
	return x
}

// c15SignBytes returns the sign bytes through the package helper
// (tmconsensus.{Prevote,Precommit,Proposal}SignBytes) and checks the direct
// Write*SigningContent call against it: same content appended to whatever
// the writer already holds, n = number of bytes written.
func c15SignBytes(x c15Target) (helper []byte, clause, detail string) {
	var buf bytes.Buffer
	buf.WriteString("##")
	var n int
	var err, werr error
	switch x.Kind {
	case 0, 1:
		vt := tmconsensus.VoteTarget{Height: x.Height, Round: x.Round, BlockHash: string(c15Unhex(x.Hash))}
		if x.Kind == 0 {
			helper, err = tmconsensus.PrevoteSignBytes(vt, c15SS)
			n, werr = c15SS.WritePrevoteSigningContent(&buf, vt)
		} else {
			helper, err = tmconsensus.PrecommitSignBytes(vt, c15SS)
			n, werr = c15SS.WritePrecommitSigningContent(&buf, vt)
		}
	default:
		mk := func() (tmconsensus.Header, tmconsensus.Annotations) {
			return tmconsensus.Header{
				Hash:             c15Unhex(x.Hash),
				Height:           x.Height,
				PrevBlockHash:    c15Unhex(x.PrevBlockHash),
				PrevAppStateHash: c15Unhex(x.PrevAppStateHash),
				DataID:           c15Unhex(x.DataID),
			}, tmconsensus.Annotations{User: x.AnnUser.bytes(), Driver: x.AnnDriver.bytes()}
		}
		h, a := mk()
		helper, err = tmconsensus.ProposalSignBytes(h, x.Round, a, c15SS)
		h, a = mk()
		n, werr = c15SS.WriteProposalSigningContent(&buf, h, x.Round, a)
	}
	if err != nil || werr != nil {
		return nil, "signbytes-error", fmt.Sprintf("%s: helper err=%v writer err=%v", c15KindNames[x.Kind], err, werr)
	}
	if len(helper) == 0 {
		return nil, "signbytes-empty", fmt.Sprintf("%s: empty sign bytes", c15KindNames[x.Kind])
	}
	if got := buf.Bytes(); n != len(got)-2 || !bytes.Equal(got[:2], []byte("##")) || !bytes.Equal(got[2:], helper) {
		return nil, "signbytes-helper-vs-writer", fmt.Sprintf("%s: helper %q, writer appended %q (n=%d) to \"##\"", c15KindNames[x.Kind], helper, got, n)
	}
	return helper, "", ""
}

const c15SignRule = "2-6 sign targets per case: a generated base (prevote / precommit / proposal, height and round from near-miss pools incl. 2^8/2^16/2^32 multiples and shared decimal digits, hash nil or from the byte pool) and targets derived from an earlier one by one (field selector, new value) mutation: kind, height, round, hash, and for proposals prev block hash, prev app state hash, data id, proposal annotations nil/empty/value, byte shifted between adjacent fields, fields swapped. All pairs are compared; every sign-bytes value is also looked up in a per-process table of earlier targets (first 131072). non-trivial = the case holds two targets whose identities differ in something other than height/round (kind, hash or a signed proposal field); distinct = distinct case"

var c15SeenSB = map[string]c15Target{}

const c15SeenSBCap = 1 << 17

func TestVerifC15SignBytes(t *testing.T) {
	st := vk.NewStats("C15", "TestVerifC15SignBytes", c15SignRule)
	defer st.Flush()
	var c c15SignCase
	if ok, err := vk.LoadReplay("C15", "TestVerifC15SignBytes", &c); err != nil {
		t.Fatal(err)
	} else if ok {
		c15RunSign(t, st, c)
		return
	} else if vk.Replaying() {
		t.Skip("replay file is for another test")
	}
	rapid.Check(t, func(rt *rapid.T) {
		c := c15SignCase{Base: c15GenTarget(rt)}
		n := rapid.IntRange(1, 5).Draw(rt, "nderive")
		for i := 0; i < n; i++ {
			c.Derive = append(c.Derive, c15Derive{From: rapid.IntRange(0, i).Draw(rt, "from"), Mut: c15GenTMut(rt)})
		}
		c15RunSign(rt, st, c)
	})
}

func c15RunSign(t vk.TB, st *vk.Stats, c c15SignCase) {
	if st.WantSample() {
		st.Sample(c)
	}
	st.Guard(t, c, func() {
		ts := []c15Target{c.Base.canon()}
		var labels []string
		for _, d := range c.Derive {
			if d.Other != nil {
				ts = append(ts, d.Other.canon())
				labels = append(labels, "explicit-target")
				continue
			}
			parent := ts[c15Mod(d.From, len(ts))]
			nx, lab := c15ApplyT(parent, d.Mut)
			nx = nx.canon()
			switch {
			case nx.id(true) != parent.id(true):
				labels = append(labels, "mut:"+lab)
			case nx.full() != parent.full():
				labels = append(labels, "unsigned-only:"+lab)
			default:
				labels = append(labels, "noop:"+lab)
			}
			ts = append(ts, nx)
		}
		// Format-learning injection: where the raw bytes of two signed byte fields of a proposal
		// show up in its sign bytes, the text between them is what separates the fields in this
		// scheme; a target whose first field carries "first + separator + second" and whose second
		// field is absent must still get different sign bytes (domain separation of the fields).
		for _, x := range append([]c15Target(nil), ts...) {
			for _, inj := range c15Injections(x) {
				ts = append(ts, inj.canon())
				labels = append(labels, "injection-target")
			}
		}
		nontrivial := false
		var nCross, nSameKind, nEqual int64
		for i := range ts {
			labels = append(labels, "kind:"+c15KindNames[ts[i].Kind])
			if ts[i].Kind != 2 && ts[i].Hash == "" {
				labels = append(labels, "nil-vote")
			}
			for j := i + 1; j < len(ts); j++ {
				if ts[i].id(false) != ts[j].id(false) {
					nontrivial = true
				}
				switch {
				case ts[i].Kind != ts[j].Kind:
					nCross++
				case ts[i].id(true) != ts[j].id(true):
					nSameKind++
				default:
					nEqual++
				}
			}
		}
		labels = append(labels, fmt.Sprintf("targets=%d", len(ts)))
		st.Case(nontrivial, vk.FP(c), labels...)
		st.LabelN("pairs:cross-kind", nCross)
		st.LabelN("pairs:same-kind-distinct", nSameKind)
		st.LabelN("pairs:same-identity", nEqual)

		sb := make([][]byte, len(ts))
		keep := make([][]byte, len(ts))
		for i, x := range ts {
			b, cl, detail := c15SignBytes(x)
			if cl != "" {
				st.Fail(t, c, "", cl, "%s", detail)
			}
			sb[i], keep[i] = b, bytes.Clone(b)
		}
		// Results handed out earlier must not change when later ones are produced.
		for i := range sb {
			if !bytes.Equal(sb[i], keep[i]) {
				st.Fail(t, c, "", "signbytes-stable", "sign bytes of target %d changed after later calls: %q -> %q", i, keep[i], sb[i])
			}
		}
		for i := range ts {
			for j := i + 1; j < len(ts); j++ {
				same := bytes.Equal(sb[i], sb[j])
				switch {
				case ts[i].id(true) != ts[j].id(true):
					if same {
						st.Fail(t, c, "", "signbytes-distinct", "targets %d (%s) and %d (%s) differ but have the same sign bytes %q",
							i, c15KindNames[ts[i].Kind], j, c15KindNames[ts[j].Kind], sb[i])
					}
				case ts[i].full() == ts[j].full():
					if !same {
						st.Fail(t, c, "", "signbytes-deterministic", "targets %d and %d are equal but have sign bytes %q and %q", i, j, sb[i], sb[j])
					}
				default:
					// proposals equal in every signed field, different header Hash: measured, nothing demanded
					if same {
						st.Label("proposal-pair-differing-only-in-header-hash:same-sign-bytes")
					} else {
						st.Label("proposal-pair-differing-only-in-header-hash:different-sign-bytes")
					}
				}
			}
		}
		// Cross-case: an earlier target with the same sign bytes must have the same identity.
		for i, x := range ts {
			prev, ok := c15SeenSB[string(sb[i])]
			if !ok {
				if len(c15SeenSB) < c15SeenSBCap {
					c15SeenSB[string(sb[i])] = x
				}
				continue
			}
			if prev.id(true) != x.id(true) {
				other := x
				pair := c15SignCase{Base: prev, Derive: []c15Derive{{Other: &other}}}
				st.Fail(t, pair, "", "signbytes-distinct", "two different targets seen in this run (%s, %s) have the same sign bytes %q",
					c15KindNames[prev.Kind], c15KindNames[x.Kind], sb[i])
			}
		}
	})
}

// c15Injections builds, from the observed sign bytes of a proposal target, targets that
// would collide with it if the scheme wrote field values without an unambiguous encoding.
func c15Injections(x c15Target) []c15Target {
	if x.Kind != 2 {
		return nil
	}
	sb, cl, _ := c15SignBytes(x)
	if cl != "" {
		return nil
	}
	type field struct {
		get func(c15Target) []byte
		set func(*c15Target, []byte, bool)
	}
	hexField := func(p func(*c15Target) *string) field {
		return field{
			get: func(t c15Target) []byte { return c15Unhex(*p(&t)) },
			set: func(t *c15Target, v []byte, _ bool) { *p(t) = fmt.Sprintf("%x", v) },
		}
	}
	optField := func(p func(*c15Target) *c15Opt) field {
		return field{
			get: func(t c15Target) []byte { return p(&t).bytes() },
			set: func(t *c15Target, v []byte, present bool) {
				*p(t) = c15Opt{Set: present || len(v) > 0, V: fmt.Sprintf("%x", v)}
			},
		}
	}
	fields := []field{
		hexField(func(t *c15Target) *string { return &t.PrevBlockHash }),
		hexField(func(t *c15Target) *string { return &t.PrevAppStateHash }),
		hexField(func(t *c15Target) *string { return &t.DataID }),
		optField(func(t *c15Target) *c15Opt { return &t.AnnUser }),
		optField(func(t *c15Target) *c15Opt { return &t.AnnDriver }),
	}
	var out []c15Target
	for i, fa := range fields {
		a := fa.get(x)
		if len(a) == 0 {
			continue
		}
		ia := bytes.Index(sb, a)
		if ia < 0 {
			continue
		}
		for j, fb := range fields {
			b := fb.get(x)
			if i == j || len(b) == 0 {
				continue
			}
			ib := bytes.Index(sb[ia+len(a):], b)
			if ib < 0 {
				continue
			}
			sep := sb[ia+len(a) : ia+len(a)+ib]
			joined := append(append(append([]byte(nil), a...), sep...), b...)
			for _, present := range []bool{false, true} {
				y := x
				fa.set(&y, joined, true)
				fb.set(&y, nil, present)
				out = append(out, y)
			}
		}
	}
	return out
}
