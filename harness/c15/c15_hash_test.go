package tmconsensustest_test

import (
	"bytes"
	"fmt"
	"strings"
	"testing"

	"github.com/gordian-engine/gordian/gcrypto"
	"github.com/gordian-engine/gordian/internal/zzverif/vk"
	"github.com/gordian-engine/gordian/tm/tmconsensus"
	"github.com/gordian-engine/gordian/tm/tmconsensus/tmconsensustest"
	"pgregory.net/rapid"
)

var c15HS tmconsensus.HashScheme = tmconsensustest.SimpleHashScheme{}

// ---------------------------------------------------------------------------
// determinism: equal headers hash equal

type c15DetCase struct {
	H       c15Header `json:"h"`
	Order   []int     `json:"order,omitempty"` // Fisher-Yates choices for the insertion order of the rebuilt Proofs map
	AltHash c15Opt    `json:"alt_hash"`        // stored Hash field of the rebuilt header: nil / empty / value
	NilMap  bool      `json:"nil_map,omitempty"`
	Reps    int       `json:"reps"`
}

func c15Perm(n int, choices []int) ([]int, bool) {
	p := make([]int, n)
	for i := range p {
		p[i] = i
	}
	for i := 0; i+1 < n; i++ {
		ch := 0
		if i < len(choices) {
			ch = c15Mod(choices[i], n-i)
		}
		p[i], p[i+ch] = p[i+ch], p[i]
	}
	ident := true
	for i := range p {
		if p[i] != i {
			ident = false
		}
	}
	return p, ident
}

const c15DetRule = "header model drawn from near-miss pools (0-4 previous-commit proof entries with 1-3 signatures each, nil/empty/value annotations); the same model is built twice as fresh tmconsensus.Header values: list insertion order + stored Hash H, and a generated permutation of the Proofs insertion order + another stored Hash (nil/empty/other) + optionally nil instead of empty map; each is hashed 2-5 times. non-trivial = at least 2 proof entries inserted in a different order, or a different stored Hash; distinct = distinct (model, order, alt hash)"

func TestVerifC15HashDeterminism(t *testing.T) {
	st := vk.NewStats("C15", "TestVerifC15HashDeterminism", c15DetRule)
	defer st.Flush()
	var c c15DetCase
	if ok, err := vk.LoadReplay("C15", "TestVerifC15HashDeterminism", &c); err != nil {
		t.Fatal(err)
	} else if ok {
		c15RunDet(t, st, c)
		return
	} else if vk.Replaying() {
		t.Skip("replay file is for another test")
	}
	rapid.Check(t, func(rt *rapid.T) {
		c := c15DetCase{H: c15GenHeader(rt)}
		if n := len(c.H.Proofs); n > 1 {
			c.Order = rapid.SliceOfN(rapid.IntRange(0, 3), n-1, n-1).Draw(rt, "order")
		}
		switch rapid.IntRange(0, 3).Draw(rt, "althash") {
		case 0:
			c.AltHash = c15Opt{}
		case 1:
			c.AltHash = c15Opt{Set: true}
		case 2:
			c.AltHash = c15Opt{Set: true, V: c.H.Hash}
		default:
			c.AltHash = c15Opt{Set: true, V: c15GenBytes(rt, "althashv")}
		}
		c.NilMap = rapid.Bool().Draw(rt, "nilmap")
		c.Reps = rapid.IntRange(1, 4).Draw(rt, "reps")
		c15RunDet(rt, st, c)
	})
}

func c15RunDet(t vk.TB, st *vk.Stats, c c15DetCase) {
	if st.WantSample() {
		st.Sample(c)
	}
	st.Guard(t, c, func() {
		m := c.H.canonHex()
		if err := m.wellFormed(); err != nil {
			st.Case(false, vk.FP(c), "bad-case")
			st.Fail(t, c, "", "harness", "malformed case: %v", err)
		}
		order, ident := c15Perm(len(m.Proofs), c.Order)
		alt := c.AltHash.bytes()
		hashDiffers := !c.AltHash.Set || c15Canon(c.AltHash.V) != m.Hash
		labels := []string{fmt.Sprintf("entries=%d", len(m.Proofs))}
		if ident {
			labels = append(labels, "order:identity")
		} else {
			labels = append(labels, "order:permuted")
		}
		switch {
		case !c.AltHash.Set:
			labels = append(labels, "althash:nil")
		case !hashDiffers:
			labels = append(labels, "althash:same")
		case c.AltHash.V == "":
			labels = append(labels, "althash:empty")
		default:
			labels = append(labels, "althash:other")
		}
		if c.NilMap && len(m.Proofs) == 0 {
			labels = append(labels, "nil-vs-empty-map")
		}
		st.Case((len(m.Proofs) >= 2 && !ident) || hashDiffers, vk.FP(c), labels...)

		hA := m.build(nil, c15Unhex(m.Hash), false)
		hB := m.build(order, alt, c.NilMap)
		first, err := c15HS.Block(hA)
		if err != nil {
			st.Fail(t, c, "", "block-error", "Block returned %v", err)
		}
		if len(first) == 0 {
			st.Fail(t, c, "", "block-empty", "Block returned an empty hash")
		}
		reps := 1 + c15Mod(c.Reps, 5)
		for r := 0; r < reps; r++ {
			for i, h := range []tmconsensus.Header{hA, hB} {
				name := []string{"same value", "rebuilt"}[i]
				got, err := c15HS.Block(h)
				if err != nil {
					st.Fail(t, c, "", "block-error", "Block(%s) returned %v", name, err)
				}
				if !bytes.Equal(got, first) {
					st.Fail(t, c, "", "hash-deterministic", "equal headers hashed differently (%s header, call %d): %x vs %x; insertion order %v, stored hash %x vs %x",
						name, r+1, first, got, order, hA.Hash, hB.Hash)
				}
			}
		}
		// Block must not modify what it was given.
		if got := c15FromHeader(hA); got.key(false) != m.key(false) || got.Hash != m.Hash {
			st.Fail(t, c, "", "header-unmodified", "header changed by Block: %+v", got)
		}
		if got := c15FromHeader(hB); got.key(false) != m.key(false) || got.Hash != c15Hex(alt) || (hB.Hash == nil) != (alt == nil) {
			st.Fail(t, c, "", "header-unmodified", "rebuilt header changed by Block: %+v", got)
		}
	})
}

// ---------------------------------------------------------------------------
// sensitivity: headers differing in a consensus field hash differently

type c15SensCase struct {
	Base  c15Header  `json:"base"`
	Muts  []c15Mut   `json:"muts,omitempty"`
	Other *c15Header `json:"other,omitempty"` // when set, the pair is (Base, Other) and Muts is ignored (cross-case collisions)
}

const c15SensRule = "base header model from near-miss pools; the second header is the base after 1-3 generated (field selector, new value) mutations (86% one, 10% two, 4% three): every scalar, every validator hash, data id, app state hash, annotations nil/empty/value, previous-commit proof round / pubkey hash / block key / key id / signature bytes / added or removed signature / added or removed entry / signature moved to another block key / signature lists of two keys swapped, one byte shifted across the boundary of adjacent fields, two same-typed fields swapped. The pair's relation (same / differ / signature-order-only) is decided on the models. Additionally every hash is looked up in a per-process table of earlier headers (first 65536), so unrelated headers are compared too. non-trivial = the two headers differ in something other than Height (any other field, or anything inside the previous-commit proof); distinct = distinct (base, mutations)"

// c15Seen maps hash -> first header model that produced it (per process).
var c15Seen = map[string]c15Header{}

const c15SeenCap = 1 << 16

func TestVerifC15HashSensitivity(t *testing.T) {
	st := vk.NewStats("C15", "TestVerifC15HashSensitivity", c15SensRule)
	defer st.Flush()
	var c c15SensCase
	if ok, err := vk.LoadReplay("C15", "TestVerifC15HashSensitivity", &c); err != nil {
		t.Fatal(err)
	} else if ok {
		c15RunSens(t, st, c)
		return
	} else if vk.Replaying() {
		t.Skip("replay file is for another test")
	}
	rapid.Check(t, func(rt *rapid.T) {
		c := c15SensCase{Base: c15GenHeader(rt)}
		n := []int{1, 1, 1, 1, 1, 1, 1, 1, 1, 1, 1, 1, 1, 1, 1, 1, 1, 1, 1, 1, 1, 1, 2, 2, 3}[rapid.IntRange(0, 24).Draw(rt, "nmuts")]
		for i := 0; i < n; i++ {
			c.Muts = append(c.Muts, c15GenMut(rt))
		}
		c15RunSens(rt, st, c)
	})
	if !vk.Replaying() {
		c15SensFloors(t, st)
	}
}

// c15SensFloors fails the test (clause "harness") when a class of mutation
// that makes the check meaningful was (almost) never effective. The floors
// are far below the measured rates (each listed class is > 1% of the cases
// for every seed tried) and only apply to runs of at least 20000 cases.
func c15SensFloors(t *testing.T, st *vk.Stats) {
	if t.Failed() || st.Evals < 20000 {
		return
	}
	for _, f := range []string{"PC.KeyID", "PC.Sig", "PC.BlockKey", "PC.AddSig", "PC.RemoveSig", "PC.AddEntry", "PC.RemoveEntry", "PC.MoveSig",
		"PC.Round", "PC.PubKeyHash", "Ann.User", "Ann.Driver", "NVS.VotePowerHash", "PrevAppStateHash"} {
		if got := st.Labels["mut:"+f]; got*1000 < st.Evals {
			t.Fatalf("VERIF-FAIL property=C15 test=TestVerifC15HashSensitivity clause=%q: effective %s mutations in %d of %d cases (< 0.1%%)", "harness", f, got, st.Evals)
		}
	}
}

func c15RunSens(t vk.TB, st *vk.Stats, c c15SensCase) {
	if st.WantSample() {
		st.Sample(c)
	}
	st.Guard(t, c, func() {
		a := c.Base.canonHex()
		if err := a.wellFormed(); err != nil {
			st.Case(false, vk.FP(c), "bad-case")
			st.Fail(t, c, "", "harness", "malformed case: %v", err)
		}
		var labels, eff []string
		b := a
		if c.Other != nil {
			b = c.Other.canonHex()
			if err := b.wellFormed(); err != nil {
				st.Case(false, vk.FP(c), "bad-case")
				st.Fail(t, c, "", "harness", "malformed case: %v", err)
			}
			labels = append(labels, "explicit-pair")
		} else {
			for _, mu := range c.Muts {
				nb, ok := c15Apply(b, mu)
				if ok && nb.key(false) != b.key(false) {
					labels = append(labels, "mut:"+mu.label())
					eff = append(eff, mu.label())
				} else {
					labels = append(labels, "noop:"+mu.label())
				}
				b = nb
			}
			labels = append(labels, fmt.Sprintf("muts=%d", len(c.Muts)))
		}
		labels = append(labels, fmt.Sprintf("entries=%d", len(a.Proofs)))

		// Relation of the pair, decided on the models alone.
		rel := "differ"
		switch {
		case a.key(false) == b.key(false):
			rel = "same"
		case a.key(true) == b.key(true):
			rel = "sig-order-only" // same signature sets in another slice order: nothing demanded
		}
		labels = append(labels, "pair:"+rel)
		bh := b
		bh.Height = a.Height
		nontrivial := rel == "differ" && a.key(true) != bh.key(true)
		st.Case(nontrivial, vk.FP(c), labels...)

		ha, err := c15HS.Block(a.build(nil, c15Unhex(a.Hash), false))
		if err != nil {
			st.Fail(t, c, "", "block-error", "Block(base) returned %v", err)
		}
		hb, err := c15HS.Block(b.build(nil, c15Unhex(b.Hash), false))
		if err != nil {
			st.Fail(t, c, "", "block-error", "Block(mutated) returned %v", err)
		}
		switch rel {
		case "differ":
			if bytes.Equal(ha, hb) {
				st.Fail(t, c, "", "hash-binds-field", "headers differing in [%s] have the same hash %x", strings.Join(eff, ", "), ha)
			}
		case "same":
			if !bytes.Equal(ha, hb) {
				st.Fail(t, c, "", "hash-deterministic", "equal headers (mutations were no-ops) hashed differently: %x vs %x", ha, hb)
			}
		}

		// Cross-case: any earlier header with the same hash must be the same header.
		for _, p := range []struct {
			m c15Header
			h []byte
		}{{a, ha}, {b, hb}} {
			prev, ok := c15Seen[string(p.h)]
			if !ok {
				if len(c15Seen) < c15SeenCap {
					c15Seen[string(p.h)] = p.m
				}
				continue
			}
			if prev.key(true) != p.m.key(true) {
				other := p.m
				pair := c15SensCase{Base: prev, Other: &other}
				st.Fail(t, pair, "", "hash-binds-field", "two different headers seen in this run have the same hash %x", p.h)
			}
		}
	})
}

// ---------------------------------------------------------------------------
// validator set hashes: the two hashes a header carries instead of the
// validator list are themselves injective on the ordered lists.

type c15ListMut struct {
	Op string `json:"op"` // none | set | insert | delete | swap | digit
	I  int    `json:"i,omitempty"`
	J  int    `json:"j,omitempty"`
	N  uint64 `json:"n,omitempty"`
}

type c15ValCase struct {
	Pows   []uint64   `json:"pows"`
	PowMut c15ListMut `json:"pow_mut"`
	Keys   []int      `json:"keys"` // indices into the 8 deterministic ed25519 test validators, distinct
	KeyMut c15ListMut `json:"key_mut"`
}

var c15Keys = tmconsensustest.DeterministicValidatorsEd25519(8).PubKeys()

func c15ListApply(in []uint64, mu c15ListMut, keys bool) ([]uint64, string) {
	out := append([]uint64{}, in...)
	n := len(out)
	v := mu.N
	op := mu.Op
	if keys {
		// a validator key appears once: take the first key index >= N (cyclically) not in the list
		used := map[uint64]bool{}
		for _, k := range in {
			used[k] = true
		}
		nk := uint64(len(c15Keys))
		v %= nk
		for tries := uint64(0); used[v] && tries < nk; tries++ {
			v = (v + 1) % nk
		}
		if used[v] && (op == "set" || op == "insert") {
			op = "swap"
		}
		if op == "digit" {
			op = "swap"
		}
	}
	switch op {
	case "none":
	case "set":
		out[c15Mod(mu.I, n)] = v
	case "insert":
		i := c15Mod(mu.I, n+1)
		out = append(out[:i], append([]uint64{v}, out[i:]...)...)
	case "delete":
		if n > 1 {
			i := c15Mod(mu.I, n)
			out = append(out[:i], out[i+1:]...)
		}
	case "swap":
		i, j := c15Mod(mu.I, n), c15Mod(mu.J, n)
		out[i], out[j] = out[j], out[i]
	case "digit":
		// move the last decimal digit of element i to the front of element i+1
		if n < 2 {
			break
		}
		i := c15Mod(mu.I, n-1)
		l, r := fmt.Sprint(out[i]), fmt.Sprint(out[i+1])
		if len(l) < 2 || len(r) > 18 || l[len(l)-1] == '0' {
			break
		}
		var nl, nr uint64
		fmt.Sscan(l[:len(l)-1], &nl)
		fmt.Sscan(l[len(l)-1:]+r, &nr)
		out[i], out[i+1] = nl, nr
	default:
		panic(fmt.Errorf("c15: unknown list op %q", mu.Op))
	}
	return out, op
}

func c15U64Equal(a, b []uint64) bool {
	if len(a) != len(b) {
		return false
	}
	for i := range a {
		if a[i] != b[i] {
			return false
		}
	}
	return true
}

const c15ValRule = "ordered vote power lists (1-5 values from near-miss pools incl. shared decimal digits) and ordered public key lists (1-6 distinct keys of the 8 deterministic ed25519 test validators), each paired with a copy after one list mutation (set / insert / delete / swap / decimal digit moved to the neighbour / none); non-trivial = at least one of the two lists differs from its copy; distinct = distinct case"

func TestVerifC15ValidatorHashes(t *testing.T) {
	st := vk.NewStats("C15", "TestVerifC15ValidatorHashes", c15ValRule)
	defer st.Flush()
	var c c15ValCase
	if ok, err := vk.LoadReplay("C15", "TestVerifC15ValidatorHashes", &c); err != nil {
		t.Fatal(err)
	} else if ok {
		c15RunVal(t, st, c)
		return
	} else if vk.Replaying() {
		t.Skip("replay file is for another test")
	}
	ops := []string{"none", "set", "set", "insert", "delete", "swap", "digit"}
	genMut := func(rt *rapid.T, l string) c15ListMut {
		return c15ListMut{Op: rapid.SampledFrom(ops).Draw(rt, l+"-op"), I: rapid.IntRange(0, 5).Draw(rt, l+"-i"),
			J: rapid.IntRange(0, 5).Draw(rt, l+"-j"), N: c15GenU64(rt, l+"-n")}
	}
	rapid.Check(t, func(rt *rapid.T) {
		c := c15ValCase{
			Pows:   rapid.SliceOfN(rapid.Custom(func(t *rapid.T) uint64 { return c15GenU64(t, "pow") }), 1, 5).Draw(rt, "pows"),
			PowMut: genMut(rt, "pm"),
			Keys:   rapid.SliceOfNDistinct(rapid.IntRange(0, len(c15Keys)-1), 1, 6, rapid.ID[int]).Draw(rt, "keys"),
			KeyMut: genMut(rt, "km"),
		}
		c15RunVal(rt, st, c)
	})
}

func c15RunVal(t vk.TB, st *vk.Stats, c c15ValCase) {
	if st.WantSample() {
		st.Sample(c)
	}
	st.Guard(t, c, func() {
		if len(c.Pows) == 0 || len(c.Keys) == 0 {
			st.Case(false, vk.FP(c), "bad-case")
			st.Fail(t, c, "", "harness", "empty list is outside the domain (documented panic)")
		}
		powsB, powOp := c15ListApply(c.Pows, c.PowMut, false)
		keysA := make([]uint64, len(c.Keys))
		for i, k := range c.Keys {
			keysA[i] = uint64(c15Mod(k, len(c15Keys)))
		}
		keysB, keyOp := c15ListApply(keysA, c.KeyMut, true)
		powSame, keySame := c15U64Equal(c.Pows, powsB), c15U64Equal(keysA, keysB)
		lab := func(kind, op string, same bool) string {
			if same {
				return kind + ":same"
			}
			return kind + ":" + op
		}
		st.Case(!powSame || !keySame, vk.FP(c), lab("pows", powOp, powSame), lab("keys", keyOp, keySame))

		pa, err := c15HS.VotePowers(append([]uint64{}, c.Pows...))
		if err != nil {
			st.Fail(t, c, "", "hash-error", "VotePowers: %v", err)
		}
		pb, err := c15HS.VotePowers(powsB)
		if err != nil {
			st.Fail(t, c, "", "hash-error", "VotePowers: %v", err)
		}
		if powSame != bytes.Equal(pa, pb) {
			st.Fail(t, c, "", "votepower-hash-injective", "power lists %v and %v (equal=%v) hash to %x and %x", c.Pows, powsB, powSame, pa, pb)
		}
		mk := func(idx []uint64) []gcrypto.PubKey {
			out := make([]gcrypto.PubKey, len(idx))
			for i, k := range idx {
				out[i] = c15Keys[k]
			}
			return out
		}
		ka, err := c15HS.PubKeys(mk(keysA))
		if err != nil {
			st.Fail(t, c, "", "hash-error", "PubKeys: %v", err)
		}
		kb, err := c15HS.PubKeys(mk(keysB))
		if err != nil {
			st.Fail(t, c, "", "hash-error", "PubKeys: %v", err)
		}
		if keySame != bytes.Equal(ka, kb) {
			st.Fail(t, c, "", "pubkey-hash-injective", "key lists %v and %v (equal=%v) hash to %x and %x", keysA, keysB, keySame, ka, kb)
		}
	})
}
