package tmconsensustest_test

// C15: block hashes bind all header fields; sign bytes are domain separated.
//
// This file holds the plain-data model of a header, the (field selector, new
// value) mutations, their interpreter and the rapid generators. Nothing in
// here calls the code under test: the oracle's knowledge "these two headers
// are equal / differ" comes from comparing models only.

import (
	"encoding/hex"
	"encoding/json"
	"fmt"
	"sort"

	"github.com/gordian-engine/gordian/gcrypto"
	"github.com/gordian-engine/gordian/tm/tmconsensus"
	"pgregory.net/rapid"
)

// c15Opt is a tri-state byte string: nil, empty-but-non-nil, value.
// The hash scheme compliance suite (AnnotationCombinations) and the signature
// scheme's unit test both treat nil and empty annotations as distinct inputs
// that must produce distinct output, so the model keeps them apart.
type c15Opt struct {
	Set bool   `json:"set"`
	V   string `json:"v,omitempty"` // hex
}

func (o c15Opt) bytes() []byte {
	if !o.Set {
		return nil
	}
	return c15Unhex(o.V)
}

type c15Sig struct {
	K string `json:"k"` // key id, hex
	S string `json:"s"` // signature bytes, hex
}

type c15Entry struct {
	Key  string   `json:"key"` // block hash, hex; "" = nil block
	Sigs []c15Sig `json:"sigs"`
}

// c15Header is the consensus content of a tmconsensus.Header.
// All byte strings are lower-case hex. Proofs is an insertion-ordered list
// with pairwise distinct keys; it becomes the PrevCommitProof.Proofs map.
// The Validators/PubKeys slices of the validator sets are not part of the
// model: the header commits to them through the two hashes.
type c15Header struct {
	Hash             string     `json:"hash"`
	PrevBlockHash    string     `json:"prev_block_hash"`
	Height           uint64     `json:"height"`
	PCRound          uint32     `json:"pc_round"`
	PCPubKeyHash     string     `json:"pc_pub_key_hash"`
	Proofs           []c15Entry `json:"proofs"`
	VSPub            string     `json:"vs_pub"`
	VSPow            string     `json:"vs_pow"`
	NVSPub           string     `json:"nvs_pub"`
	NVSPow           string     `json:"nvs_pow"`
	DataID           string     `json:"data_id"`
	PrevAppStateHash string     `json:"prev_app_state_hash"`
	AnnUser          c15Opt     `json:"ann_user"`
	AnnDriver        c15Opt     `json:"ann_driver"`
}

func c15Unhex(s string) []byte {
	b, err := hex.DecodeString(s)
	if err != nil {
		panic(fmt.Errorf("c15: bad hex %q in case: %w", s, err))
	}
	if b == nil {
		b = []byte{}
	}
	return b
}

func c15Hex(b []byte) string { return hex.EncodeToString(b) }

func c15Canon(s string) string { return c15Hex(c15Unhex(s)) }

func (m c15Header) clone() c15Header {
	out := m
	out.Proofs = make([]c15Entry, len(m.Proofs))
	for i, e := range m.Proofs {
		out.Proofs[i] = c15Entry{Key: e.Key, Sigs: append([]c15Sig(nil), e.Sigs...)}
	}
	return out
}

// canonHex returns a deep copy with every hex string in canonical lower case
// (hand-written replay files may differ); order and Hash are kept.
func (m c15Header) canonHex() c15Header {
	out := m.clone()
	for _, p := range []*string{&out.Hash, &out.PrevBlockHash, &out.PCPubKeyHash, &out.VSPub, &out.VSPow, &out.NVSPub, &out.NVSPow, &out.DataID, &out.PrevAppStateHash} {
		*p = c15Canon(*p)
	}
	for _, o := range []*c15Opt{&out.AnnUser, &out.AnnDriver} {
		if o.Set {
			o.V = c15Canon(o.V)
		} else {
			o.V = ""
		}
	}
	for i := range out.Proofs {
		e := &out.Proofs[i]
		e.Key = c15Canon(e.Key)
		for j := range e.Sigs {
			e.Sigs[j] = c15Sig{K: c15Canon(e.Sigs[j].K), S: c15Canon(e.Sigs[j].S)}
		}
	}
	return out
}

// norm returns the comparison form: stored Hash dropped, hex canonical,
// entries sorted by key (they live in a map), and, if sortSigs, the
// signatures of each entry sorted (treating them as a set).
func (m c15Header) norm(sortSigs bool) c15Header {
	out := m.canonHex()
	out.Hash = ""
	for i := range out.Proofs {
		e := &out.Proofs[i]
		if sortSigs {
			sort.Slice(e.Sigs, func(a, b int) bool {
				if e.Sigs[a].K != e.Sigs[b].K {
					return e.Sigs[a].K < e.Sigs[b].K
				}
				return e.Sigs[a].S < e.Sigs[b].S
			})
		}
	}
	sort.Slice(out.Proofs, func(a, b int) bool { return out.Proofs[a].Key < out.Proofs[b].Key })
	if len(out.Proofs) == 0 {
		out.Proofs = nil
	}
	return out
}

// key is the string two models are compared by.
func (m c15Header) key(sortSigs bool) string {
	b, err := json.Marshal(m.norm(sortSigs))
	if err != nil {
		panic(err)
	}
	return string(b)
}

// wellFormed: distinct entry keys, distinct key ids within an entry.
func (m c15Header) wellFormed() error {
	seen := map[string]bool{}
	for _, e := range m.Proofs {
		k := c15Canon(e.Key)
		if seen[k] {
			return fmt.Errorf("duplicate proof key %q", k)
		}
		seen[k] = true
		ids := map[string]bool{}
		for _, s := range e.Sigs {
			id := c15Canon(s.K)
			if ids[id] {
				return fmt.Errorf("duplicate key id %q under proof key %q", id, k)
			}
			ids[id] = true
			c15Unhex(s.S)
		}
	}
	return nil
}

// build makes a fresh tmconsensus.Header (no shared slices) from the model.
// order is the insertion order of the proof entries (nil = list order);
// hash is the value put into the stored Hash field; nilMap selects a nil
// instead of an empty Proofs map when there are no entries.
func (m c15Header) build(order []int, hash []byte, nilMap bool) tmconsensus.Header {
	if order == nil {
		order = make([]int, len(m.Proofs))
		for i := range order {
			order[i] = i
		}
	}
	var proofs map[string][]gcrypto.SparseSignature
	if len(m.Proofs) > 0 || !nilMap {
		proofs = make(map[string][]gcrypto.SparseSignature)
	}
	for _, idx := range order {
		e := m.Proofs[idx]
		sigs := make([]gcrypto.SparseSignature, len(e.Sigs))
		for j, s := range e.Sigs {
			sigs[j] = gcrypto.SparseSignature{KeyID: c15Unhex(s.K), Sig: c15Unhex(s.S)}
		}
		proofs[string(c15Unhex(e.Key))] = sigs
	}
	return tmconsensus.Header{
		Hash:          hash,
		PrevBlockHash: c15Unhex(m.PrevBlockHash),
		Height:        m.Height,
		PrevCommitProof: tmconsensus.CommitProof{
			Round:      m.PCRound,
			PubKeyHash: string(c15Unhex(m.PCPubKeyHash)),
			Proofs:     proofs,
		},
		ValidatorSet:     tmconsensus.ValidatorSet{PubKeyHash: c15Unhex(m.VSPub), VotePowerHash: c15Unhex(m.VSPow)},
		NextValidatorSet: tmconsensus.ValidatorSet{PubKeyHash: c15Unhex(m.NVSPub), VotePowerHash: c15Unhex(m.NVSPow)},
		DataID:           c15Unhex(m.DataID),
		PrevAppStateHash: c15Unhex(m.PrevAppStateHash),
		Annotations:      tmconsensus.Annotations{User: m.AnnUser.bytes(), Driver: m.AnnDriver.bytes()},
	}
}

func c15OptOf(b []byte) c15Opt {
	if b == nil {
		return c15Opt{}
	}
	return c15Opt{Set: true, V: c15Hex(b)}
}

// c15FromHeader reads a header back into a model (entries sorted by key,
// signatures in slice order). Used to check that hashing did not modify it.
func c15FromHeader(h tmconsensus.Header) c15Header {
	m := c15Header{
		Hash:             c15Hex(h.Hash),
		PrevBlockHash:    c15Hex(h.PrevBlockHash),
		Height:           h.Height,
		PCRound:          h.PrevCommitProof.Round,
		PCPubKeyHash:     c15Hex([]byte(h.PrevCommitProof.PubKeyHash)),
		VSPub:            c15Hex(h.ValidatorSet.PubKeyHash),
		VSPow:            c15Hex(h.ValidatorSet.VotePowerHash),
		NVSPub:           c15Hex(h.NextValidatorSet.PubKeyHash),
		NVSPow:           c15Hex(h.NextValidatorSet.VotePowerHash),
		DataID:           c15Hex(h.DataID),
		PrevAppStateHash: c15Hex(h.PrevAppStateHash),
		AnnUser:          c15OptOf(h.Annotations.User),
		AnnDriver:        c15OptOf(h.Annotations.Driver),
	}
	keys := make([]string, 0, len(h.PrevCommitProof.Proofs))
	for k := range h.PrevCommitProof.Proofs {
		keys = append(keys, k)
	}
	sort.Strings(keys)
	for _, k := range keys {
		e := c15Entry{Key: c15Hex([]byte(k))}
		for _, s := range h.PrevCommitProof.Proofs[k] {
			e.Sigs = append(e.Sigs, c15Sig{K: c15Hex(s.KeyID), S: c15Hex(s.Sig)})
		}
		m.Proofs = append(m.Proofs, e)
	}
	return m
}

// ---------------------------------------------------------------------------
// mutations: (field selector, new value)

// c15Mut is one mutation as data. F selects the field, Op the way the new
// value is derived; I, J, K are small indices resolved at run time
// (entry I mod #entries, signature J mod #sigs, second entry / bit / direction K),
// V and W are hex operands, N a numeric operand, Sigs the content of an added entry.
type c15Mut struct {
	F    string   `json:"f"`
	Op   string   `json:"op,omitempty"`
	I    int      `json:"i,omitempty"`
	J    int      `json:"j,omitempty"`
	K    int      `json:"k,omitempty"`
	V    string   `json:"v,omitempty"`
	W    string   `json:"w,omitempty"`
	N    uint64   `json:"n,omitempty"`
	Sigs []c15Sig `json:"sigs,omitempty"`
}

// label names the mutated field (and the pair for Shift/Swap).
func (mu c15Mut) label() string {
	if mu.F == "Shift" || mu.F == "Swap" {
		return mu.F + "(" + mu.Op + ")"
	}
	return mu.F
}

func c15BytesOp(old []byte, op string, k int, v []byte) []byte {
	if k < 0 {
		k = -k
	}
	switch op {
	case "set":
		return append([]byte{}, v...)
	case "flip":
		if len(old) == 0 {
			return []byte{0x01}
		}
		out := append([]byte{}, old...)
		out[(k/8)%len(out)] ^= 1 << uint(k%8)
		return out
	case "append":
		if len(v) == 0 {
			v = []byte{0}
		}
		return append(append([]byte{}, old...), v...)
	case "prepend":
		if len(v) == 0 {
			v = []byte{0}
		}
		return append(append([]byte{}, v...), old...)
	case "trunc":
		if len(old) == 0 {
			return []byte{}
		}
		return append([]byte{}, old[:len(old)-1]...)
	case "dropfirst":
		if len(old) == 0 {
			return []byte{}
		}
		return append([]byte{}, old[1:]...)
	}
	panic(fmt.Errorf("c15: unknown bytes op %q", op))
}

func c15NumOp(old uint64, op string, k int, n uint64, bits uint) uint64 {
	if k < 0 {
		k = -k
	}
	var out uint64
	switch op {
	case "set":
		out = n
	case "inc":
		out = old + 1
	case "dec":
		out = old - 1
	case "xor":
		out = old ^ (1 << (uint(k) % bits))
	default:
		panic(fmt.Errorf("c15: unknown numeric op %q", op))
	}
	if bits < 64 {
		out &= (1 << bits) - 1
	}
	return out
}

func c15OptOp(old c15Opt, mu c15Mut) c15Opt {
	switch mu.Op {
	case "nil":
		return c15Opt{}
	case "empty":
		return c15Opt{Set: true}
	}
	return c15Opt{Set: true, V: c15Hex(c15BytesOp(old.bytes(), mu.Op, mu.K, c15Unhex(mu.V)))}
}

func c15StrOp(old string, mu c15Mut) string {
	return c15Hex(c15BytesOp(c15Unhex(old), mu.Op, mu.K, c15Unhex(mu.V)))
}

func (m *c15Header) bytesField(f string) *string {
	switch f {
	case "PrevBlockHash":
		return &m.PrevBlockHash
	case "DataID":
		return &m.DataID
	case "PrevAppStateHash":
		return &m.PrevAppStateHash
	case "VS.PubKeyHash":
		return &m.VSPub
	case "VS.VotePowerHash":
		return &m.VSPow
	case "NVS.PubKeyHash":
		return &m.NVSPub
	case "NVS.VotePowerHash":
		return &m.NVSPow
	case "PC.PubKeyHash":
		return &m.PCPubKeyHash
	}
	return nil
}

func c15Mod(i, n int) int {
	if i < 0 {
		i = -i
	}
	return i % n
}

func (m *c15Header) hasKey(k string, except int) bool {
	for i, e := range m.Proofs {
		if i != except && e.Key == k {
			return true
		}
	}
	return false
}

func c15HasKeyID(sigs []c15Sig, id string, except int) bool {
	for j, s := range sigs {
		if j != except && s.K == id {
			return true
		}
	}
	return false
}

// c15ShiftPairs / c15SwapPairs name pairs of byte fields that are adjacent
// in a natural serialization (Shift moves one byte across the boundary) or
// have the same type (Swap exchanges the two values).
var c15ShiftPairs = []string{"VS.PubKeyHash|VS.VotePowerHash", "VS.VotePowerHash|NVS.PubKeyHash", "NVS.PubKeyHash|NVS.VotePowerHash",
	"DataID|PrevAppStateHash", "PrevBlockHash|DataID", "PC.KeyID|PC.Sig", "PC.Sig|PC.KeyID(next)"}

var c15SwapPairs = []string{"VS.PubKeyHash|NVS.PubKeyHash", "VS.VotePowerHash|NVS.VotePowerHash", "VS.PubKeyHash|VS.VotePowerHash",
	"NVS.PubKeyHash|NVS.VotePowerHash", "DataID|PrevAppStateHash", "PrevBlockHash|DataID", "PrevBlockHash|PrevAppStateHash",
	"PC.PubKeyHash|VS.PubKeyHash", "Ann.User|Ann.Driver"}

func c15SplitPair(p string) (string, string) {
	for i := 0; i < len(p); i++ {
		if p[i] == '|' {
			return p[:i], p[i+1:]
		}
	}
	panic(fmt.Errorf("c15: bad pair %q", p))
}

func c15ShiftStrings(l, r *string, back bool) bool {
	lb, rb := c15Unhex(*l), c15Unhex(*r)
	if !back {
		if len(lb) == 0 {
			return false
		}
		rb = append([]byte{lb[len(lb)-1]}, rb...)
		lb = lb[:len(lb)-1]
	} else {
		if len(rb) == 0 {
			return false
		}
		lb = append(append([]byte{}, lb...), rb[0])
		rb = rb[1:]
	}
	*l, *r = c15Hex(lb), c15Hex(rb)
	return true
}

// c15Apply applies one mutation to a copy of m. ok=false means the selector
// could not be resolved on this header (e.g. no proof entries) or the result
// would break well-formedness (duplicate key); the copy is then unchanged.
func c15Apply(m c15Header, mu c15Mut) (out c15Header, ok bool) {
	out = m.clone()
	if p := out.bytesField(mu.F); p != nil {
		*p = c15StrOp(*p, mu)
		return out, true
	}
	ne := len(out.Proofs)
	switch mu.F {
	case "Height":
		out.Height = c15NumOp(out.Height, mu.Op, mu.K, mu.N, 64)
		return out, true
	case "PC.Round":
		out.PCRound = uint32(c15NumOp(uint64(out.PCRound), mu.Op, mu.K, mu.N, 32))
		return out, true
	case "Ann.User":
		out.AnnUser = c15OptOp(out.AnnUser, mu)
		return out, true
	case "Ann.Driver":
		out.AnnDriver = c15OptOp(out.AnnDriver, mu)
		return out, true
	case "PC.BlockKey":
		if ne == 0 {
			return out, false
		}
		i := c15Mod(mu.I, ne)
		nk := c15StrOp(out.Proofs[i].Key, mu)
		if out.hasKey(nk, i) {
			return out, false
		}
		out.Proofs[i].Key = nk
		return out, true
	case "PC.KeyID", "PC.Sig":
		if ne == 0 {
			return out, false
		}
		e := &out.Proofs[c15Mod(mu.I, ne)]
		if len(e.Sigs) == 0 {
			return out, false
		}
		j := c15Mod(mu.J, len(e.Sigs))
		if mu.F == "PC.Sig" {
			e.Sigs[j].S = c15StrOp(e.Sigs[j].S, mu)
			return out, true
		}
		nid := c15StrOp(e.Sigs[j].K, mu)
		if c15HasKeyID(e.Sigs, nid, j) {
			return out, false
		}
		e.Sigs[j].K = nid
		return out, true
	case "PC.AddSig":
		if ne == 0 {
			return out, false
		}
		e := &out.Proofs[c15Mod(mu.I, ne)]
		id := c15Canon(mu.V)
		if c15HasKeyID(e.Sigs, id, -1) {
			return out, false
		}
		e.Sigs = append(e.Sigs, c15Sig{K: id, S: c15Canon(mu.W)})
		return out, true
	case "PC.RemoveSig":
		if ne == 0 {
			return out, false
		}
		e := &out.Proofs[c15Mod(mu.I, ne)]
		if len(e.Sigs) < 2 {
			return out, false // removing the only signature is PC.RemoveEntry's job
		}
		j := c15Mod(mu.J, len(e.Sigs))
		e.Sigs = append(e.Sigs[:j], e.Sigs[j+1:]...)
		return out, true
	case "PC.AddEntry":
		nk := c15Canon(mu.V)
		if out.hasKey(nk, -1) || len(mu.Sigs) == 0 {
			return out, false
		}
		e := c15Entry{Key: nk}
		for _, s := range mu.Sigs {
			if c15HasKeyID(e.Sigs, c15Canon(s.K), -1) {
				continue
			}
			e.Sigs = append(e.Sigs, c15Sig{K: c15Canon(s.K), S: c15Canon(s.S)})
		}
		out.Proofs = append(out.Proofs, e)
		return out, true
	case "PC.RemoveEntry":
		if ne == 0 {
			return out, false
		}
		i := c15Mod(mu.I, ne)
		out.Proofs = append(out.Proofs[:i], out.Proofs[i+1:]...)
		return out, true
	case "PC.MoveSig":
		// one signature entry moves to another block key
		if ne < 2 {
			return out, false
		}
		i := c15Mod(mu.I, ne)
		k := c15Mod(mu.K, ne)
		if k == i {
			k = (i + 1) % ne
		}
		src, dst := &out.Proofs[i], &out.Proofs[k]
		if len(src.Sigs) == 0 {
			return out, false
		}
		j := c15Mod(mu.J, len(src.Sigs))
		s := src.Sigs[j]
		if c15HasKeyID(dst.Sigs, s.K, -1) {
			return out, false
		}
		dst.Sigs = append(dst.Sigs, s)
		src.Sigs = append(src.Sigs[:j], src.Sigs[j+1:]...)
		if len(src.Sigs) == 0 {
			out.Proofs = append(out.Proofs[:i], out.Proofs[i+1:]...)
		}
		return out, true
	case "PC.SwapEntries":
		// the signature lists of two block keys change places
		if ne < 2 {
			return out, false
		}
		i := c15Mod(mu.I, ne)
		k := c15Mod(mu.K, ne)
		if k == i {
			k = (i + 1) % ne
		}
		out.Proofs[i].Sigs, out.Proofs[k].Sigs = out.Proofs[k].Sigs, out.Proofs[i].Sigs
		return out, true
	case "Shift":
		back := c15Mod(mu.K, 2) == 1
		switch mu.Op {
		case "PC.KeyID|PC.Sig":
			if ne == 0 {
				return out, false
			}
			e := &out.Proofs[c15Mod(mu.I, ne)]
			if len(e.Sigs) == 0 {
				return out, false
			}
			j := c15Mod(mu.J, len(e.Sigs))
			k, s := e.Sigs[j].K, e.Sigs[j].S
			if !c15ShiftStrings(&k, &s, back) || c15HasKeyID(e.Sigs, k, j) {
				return out, false
			}
			e.Sigs[j] = c15Sig{K: k, S: s}
			return out, true
		case "PC.Sig|PC.KeyID(next)":
			// boundary between one signature and the key id of the following one
			if ne == 0 {
				return out, false
			}
			e := &out.Proofs[c15Mod(mu.I, ne)]
			if len(e.Sigs) < 2 {
				return out, false
			}
			j := c15Mod(mu.J, len(e.Sigs)-1)
			s, k := e.Sigs[j].S, e.Sigs[j+1].K
			if !c15ShiftStrings(&s, &k, back) || c15HasKeyID(e.Sigs, k, j+1) {
				return out, false
			}
			e.Sigs[j].S, e.Sigs[j+1].K = s, k
			return out, true
		}
		lf, rf := c15SplitPair(mu.Op)
		l, r := out.bytesField(lf), out.bytesField(rf)
		if l == nil || r == nil {
			panic(fmt.Errorf("c15: unknown shift pair %q", mu.Op))
		}
		return out, c15ShiftStrings(l, r, back)
	case "Swap":
		if mu.Op == "Ann.User|Ann.Driver" {
			out.AnnUser, out.AnnDriver = out.AnnDriver, out.AnnUser
			return out, true
		}
		lf, rf := c15SplitPair(mu.Op)
		l, r := out.bytesField(lf), out.bytesField(rf)
		if l == nil || r == nil {
			panic(fmt.Errorf("c15: unknown swap pair %q", mu.Op))
		}
		*l, *r = *r, *l
		return out, true
	}
	panic(fmt.Errorf("c15: unknown field selector %q", mu.F))
}

// ---------------------------------------------------------------------------
// generators

const (
	c15H1 = "8f434346648f6b96df89dda901c5176b10a6d83961dd3c1ac88b59b2dc327aa4"
	c15H2 = "8f434346648f6b96df89dda901c5176b10a6d83961dd3c1ac88b59b2dc327aa5"
)

// c15BytePool: values that sit close to each other (prefixes, one-bit
// neighbours, leading/trailing zero bytes) and values that look like the
// rendering of other values: 3c6e696c3e is "<nil>", 36313632 is the ASCII of
// "6162" which is the hex rendering of 6162.
var c15BytePool = []string{"", "00", "01", "ff", "0000", "0001", "0100", "61", "6162", "616263", "36313632", "3c6e696c3e",
	c15H1, c15H2, c15H1[:62], c15H1 + "00"}

var c15KeyIDPool = []string{"0000", "0001", "0002", "0100", "00", "01", ""}

var c15U64Pool = []uint64{0, 1, 2, 3, 10, 12, 23, 123, 255, 256, 257, 65535, 65536, 1 << 31, 1 << 32, 1<<32 + 1, 1 << 63, ^uint64(0) - 1, ^uint64(0)}

func c15GenBytes(t *rapid.T, label string) string {
	switch rapid.IntRange(0, 9).Draw(t, label+"-src") {
	case 0, 1, 2, 3, 4:
		return rapid.SampledFrom(c15BytePool).Draw(t, label)
	case 5:
		return c15Hex(rapid.SliceOfN(rapid.Byte(), 32, 32).Draw(t, label))
	default:
		return c15Hex(rapid.SliceOfN(rapid.Byte(), 0, 5).Draw(t, label))
	}
}

func c15GenU64(t *rapid.T, label string) uint64 {
	if rapid.IntRange(0, 3).Draw(t, label+"-src") == 0 {
		return rapid.Uint64().Draw(t, label)
	}
	return rapid.SampledFrom(c15U64Pool).Draw(t, label)
}

func c15GenOpt(t *rapid.T, label string) c15Opt {
	switch rapid.IntRange(0, 4).Draw(t, label+"-state") {
	case 0, 1:
		return c15Opt{}
	case 2:
		return c15Opt{Set: true}
	}
	return c15Opt{Set: true, V: c15GenBytes(t, label)}
}

func c15GenKeyID(t *rapid.T, label string) string {
	if rapid.IntRange(0, 3).Draw(t, label+"-src") == 3 {
		return c15Hex(rapid.SliceOfN(rapid.Byte(), 0, 3).Draw(t, label))
	}
	return rapid.SampledFrom(c15KeyIDPool).Draw(t, label)
}

func c15GenSigBytes(t *rapid.T, label string) string {
	if rapid.IntRange(0, 7).Draw(t, label+"-src") == 7 {
		return c15Hex(rapid.SliceOfN(rapid.Byte(), 64, 64).Draw(t, label))
	}
	return c15Hex(rapid.SliceOfN(rapid.Byte(), 0, 4).Draw(t, label))
}

func c15GenSigs(t *rapid.T, label string, min, max int) []c15Sig {
	n := rapid.IntRange(min, max).Draw(t, label+"-n")
	var out []c15Sig
	for len(out) < n {
		id := c15GenKeyID(t, label+"-k")
		if c15HasKeyID(out, id, -1) {
			// make it distinct deterministically instead of rejecting
			id = id + c15Hex([]byte{byte(len(out) + 0x10)})
			if c15HasKeyID(out, id, -1) {
				n--
				continue
			}
		}
		out = append(out, c15Sig{K: id, S: c15GenSigBytes(t, label+"-s")})
	}
	return out
}

func c15GenHeader(t *rapid.T) c15Header {
	m := c15Header{
		Hash:             c15GenBytes(t, "hash"),
		PrevBlockHash:    c15GenBytes(t, "pbh"),
		Height:           c15GenU64(t, "height"),
		PCRound:          uint32(c15GenU64(t, "pcround")),
		PCPubKeyHash:     c15GenBytes(t, "pcpkh"),
		VSPub:            c15GenBytes(t, "vspub"),
		VSPow:            c15GenBytes(t, "vspow"),
		NVSPub:           c15GenBytes(t, "nvspub"),
		NVSPow:           c15GenBytes(t, "nvspow"),
		DataID:           c15GenBytes(t, "dataid"),
		PrevAppStateHash: c15GenBytes(t, "pash"),
		AnnUser:          c15GenOpt(t, "annu"),
		AnnDriver:        c15GenOpt(t, "annd"),
	}
	ne := []int{0, 1, 1, 2, 2, 2, 2, 3, 3, 4}[rapid.IntRange(0, 9).Draw(t, "nentries")]
	for i := 0; i < ne; i++ {
		k := c15GenBytes(t, "pkey")
		if m.hasKey(k, -1) {
			k = k + c15Hex([]byte{byte(i + 0x20)})
			if m.hasKey(k, -1) {
				continue
			}
		}
		m.Proofs = append(m.Proofs, c15Entry{Key: k, Sigs: c15GenSigs(t, "psigs", 1, 3)})
	}
	return m
}

var c15BytesOps = []string{"set", "flip", "flip", "append", "prepend", "trunc", "dropfirst"}
var c15NumOps = []string{"set", "set", "inc", "dec", "xor"}

// c15MutFields is the weighted list of field selectors.
var c15MutFields = []string{
	"PrevBlockHash", "Height", "DataID", "PrevAppStateHash",
	"VS.PubKeyHash", "VS.VotePowerHash", "NVS.PubKeyHash", "NVS.VotePowerHash",
	"Ann.User", "Ann.User", "Ann.Driver", "Ann.Driver",
	"PC.Round", "PC.PubKeyHash",
	"PC.BlockKey", "PC.BlockKey", "PC.KeyID", "PC.KeyID", "PC.Sig", "PC.Sig",
	"PC.AddSig", "PC.RemoveSig", "PC.AddEntry", "PC.RemoveEntry", "PC.MoveSig", "PC.MoveSig", "PC.SwapEntries",
	"Shift", "Shift", "Swap",
}

func c15GenBytesOperands(t *rapid.T, mu *c15Mut) {
	mu.Op = rapid.SampledFrom(c15BytesOps).Draw(t, "op")
	switch mu.Op {
	case "flip":
		mu.K = rapid.IntRange(0, 63).Draw(t, "bit")
	case "set":
		mu.V = c15GenBytes(t, "v")
	case "append", "prepend":
		mu.V = c15Hex(rapid.SliceOfN(rapid.Byte(), 1, 2).Draw(t, "v"))
	}
}

func c15GenMut(t *rapid.T) c15Mut {
	mu := c15Mut{F: rapid.SampledFrom(c15MutFields).Draw(t, "f")}
	idx := func(l string) int { return rapid.IntRange(0, 3).Draw(t, l) }
	switch mu.F {
	case "Height", "PC.Round":
		mu.Op = rapid.SampledFrom(c15NumOps).Draw(t, "op")
		switch mu.Op {
		case "set":
			mu.N = c15GenU64(t, "n")
		case "xor":
			mu.K = rapid.IntRange(0, 63).Draw(t, "bit")
		}
	case "Ann.User", "Ann.Driver":
		switch rapid.IntRange(0, 3).Draw(t, "annop") {
		case 0:
			mu.Op = "nil"
		case 1:
			mu.Op = "empty"
		default:
			c15GenBytesOperands(t, &mu)
		}
	case "PC.BlockKey":
		mu.I = idx("i")
		c15GenBytesOperands(t, &mu)
	case "PC.KeyID", "PC.Sig":
		mu.I, mu.J = idx("i"), idx("j")
		c15GenBytesOperands(t, &mu)
	case "PC.AddSig":
		mu.I = idx("i")
		mu.V = c15GenKeyID(t, "v")
		mu.W = c15GenSigBytes(t, "w")
	case "PC.RemoveSig":
		mu.I, mu.J = idx("i"), idx("j")
	case "PC.AddEntry":
		mu.V = c15GenBytes(t, "v")
		mu.Sigs = c15GenSigs(t, "sigs", 1, 2)
	case "PC.RemoveEntry":
		mu.I = idx("i")
	case "PC.MoveSig":
		mu.I, mu.J, mu.K = idx("i"), idx("j"), idx("k")
	case "PC.SwapEntries":
		mu.I, mu.K = idx("i"), idx("k")
	case "Shift":
		mu.Op = rapid.SampledFrom(c15ShiftPairs).Draw(t, "pair")
		mu.I, mu.J, mu.K = idx("i"), idx("j"), rapid.IntRange(0, 1).Draw(t, "dir")
	case "Swap":
		mu.Op = rapid.SampledFrom(c15SwapPairs).Draw(t, "pair")
	default: // plain byte fields
		c15GenBytesOperands(t, &mu)
	}
	return mu
}
