package tmconsensus_test

import (
	"math/big"
	"testing"

	"github.com/gordian-engine/gordian/internal/zzverif/vk"
	"github.com/gordian-engine/gordian/tm/tmconsensus"
	"pgregory.net/rapid"
)

// C18: Byzantine thresholds are exact for every total power.

type c18Case struct {
	N uint64 `json:"n"`
}

var (
	big2 = big.NewInt(2)
	big3 = big.NewInt(3)
)

// c18Check is the oracle: everything recomputed in math/big.
// Returns clause, detail ("" when the property holds).
func c18Check(n uint64) (string, string) {
	maj := tmconsensus.ByzantineMajority(n)
	min := tmconsensus.ByzantineMinority(n)

	bn := new(big.Int).SetUint64(n)
	bmaj := new(big.Int).SetUint64(maj)
	bmin := new(big.Int).SetUint64(min)
	twoN := new(big.Int).Mul(big2, bn)

	// maj is the least m with 3m > 2n.
	if new(big.Int).Mul(big3, bmaj).Cmp(twoN) <= 0 {
		return "maj-reaches", "3*maj <= 2n"
	}
	if maj == 0 {
		return "maj-positive", "maj == 0"
	}
	majm1 := new(big.Int).Sub(bmaj, big.NewInt(1))
	if new(big.Int).Mul(big3, majm1).Cmp(twoN) > 0 {
		return "maj-least", "3*(maj-1) > 2n: maj is not the least"
	}
	// min is the least m with 3m >= n.
	if new(big.Int).Mul(big3, bmin).Cmp(bn) < 0 {
		return "min-reaches", "3*min < n"
	}
	if min == 0 {
		return "min-positive", "min == 0 for positive n"
	}
	minm1 := new(big.Int).Sub(bmin, big.NewInt(1))
	if new(big.Int).Mul(big3, minm1).Cmp(bn) >= 0 {
		return "min-least", "3*(min-1) >= n: min is not the least"
	}
	// two majorities overlap in at least the minority: 2*maj - n >= min
	ov := new(big.Int).Sub(new(big.Int).Mul(big2, bmaj), bn)
	if ov.Cmp(bmin) < 0 {
		return "overlap", "2*maj - n < min"
	}
	// a set below the minority can not form a majority ...
	if minm1.Cmp(bmaj) >= 0 {
		return "below-min-no-majority", "min-1 >= maj"
	}
	// ... and can not block one: the rest still reaches the majority.
	rest := new(big.Int).Sub(bn, minm1)
	if rest.Cmp(bmaj) < 0 {
		return "below-min-no-block", "n-(min-1) < maj"
	}
	if maj > n || min > n {
		return "bounded", "threshold above n"
	}
	return "", ""
}

func c18Gen() *rapid.Generator[uint64] {
	anchors := []uint64{1, 2, 3, 4, 1 << 8, 1 << 16, 1 << 31, 1 << 32, 1 << 33, 1 << 53, 1 << 62, 1 << 63,
		(1 << 63) / 3 * 3, ^uint64(0) / 3, ^uint64(0) / 3 * 2, ^uint64(0) / 2, ^uint64(0) - 3, ^uint64(0)}
	return rapid.OneOf(
		rapid.Uint64Min(1),
		rapid.Custom(func(t *rapid.T) uint64 {
			a := rapid.SampledFrom(anchors).Draw(t, "anchor")
			d := rapid.Uint64Range(0, 9).Draw(t, "d")
			if rapid.Bool().Draw(t, "up") {
				if a+d < a {
					return ^uint64(0) - d
				}
				return a + d
			}
			if d >= a {
				return 1 + d
			}
			return a - d
		}),
		rapid.Custom(func(t *rapid.T) uint64 {
			// 3k + r for a k of random bit width: all residues at all magnitudes.
			w := rapid.IntRange(1, 62).Draw(t, "w")
			k := rapid.Uint64Range(0, (1<<uint(w))-1).Draw(t, "k")
			r := rapid.Uint64Range(0, 2).Draw(t, "r")
			n := 3*k + r
			if n == 0 {
				n = 3
			}
			return n
		}),
		rapid.Custom(func(t *rapid.T) uint64 {
			// top of the range: 2^64 - 1 - x
			return ^uint64(0) - rapid.Uint64Range(0, 1<<20).Draw(t, "x")
		}),
	)
}

func c18Class(n uint64) string {
	switch {
	case n <= 1000:
		return "n<=1000"
	case n < 1<<32:
		return "n<2^32"
	case n < 1<<63:
		return "n<2^63"
	default:
		return "n>=2^63"
	}
}

const c18Rule = "n drawn from uniform uint64, anchors (powers of two, 2^64-1, thirds of 2^64) +-9, 3k+r at every bit width, and the top 2^20 values; non-trivial = n > 1000 (beyond anything a table test enumerates); distinct = distinct n"

func TestVerifC18Thresholds(t *testing.T) {
	st := vk.NewStats("C18", "TestVerifC18Thresholds", c18Rule)
	defer st.Flush()
	var c c18Case
	if ok, err := vk.LoadReplay("C18", "TestVerifC18Thresholds", &c); err != nil {
		t.Fatal(err)
	} else if ok {
		if cl, d := c18Check(c.N); cl != "" {
			st.Fail(t, c, "", cl, "n=%d: %s", c.N, d)
		}
		return
	} else if vk.Replaying() {
		t.Skip("replay file is for another test")
	}
	g := c18Gen()
	rapid.Check(t, func(rt *rapid.T) {
		c := c18Case{N: g.Draw(rt, "n")}
		if st.WantSample() {
			st.Sample(map[string]any{"n": c.N, "maj": tmconsensus.ByzantineMajority(c.N), "min": tmconsensus.ByzantineMinority(c.N)})
		}
		st.Case(c.N > 1000, c.N, c18Class(c.N), "mod3="+string(rune('0'+c.N%3)))
		st.Guard(rt, c, func() {
			if cl, d := c18Check(c.N); cl != "" {
				st.Fail(rt, c, "", cl, "n=%d maj=%d min=%d: %s", c.N, tmconsensus.ByzantineMajority(c.N), tmconsensus.ByzantineMinority(c.N), d)
			}
		})
	})
}

// Exhaustive sweep of the low range plus a dense sweep just below 2^64.
func TestVerifC18Sweep(t *testing.T) {
	st := vk.NewStats("C18", "TestVerifC18Sweep", "every n in [1, N] and every n in [2^64-N, 2^64-1] (N = -verif.n); all distinct by construction; non-trivial = n > 1000")
	defer st.Flush()
	if vk.Replaying() {
		var c c18Case
		if ok, err := vk.LoadReplay("C18", "TestVerifC18Sweep", &c); err != nil {
			t.Fatal(err)
		} else if ok {
			if cl, d := c18Check(c.N); cl != "" {
				st.Fail(t, c, "", cl, "n=%d: %s", c.N, d)
			}
		}
		return
	}
	N := uint64(vk.N(200000))
	one := func(n uint64) {
		st.Case(n > 1000, n, c18Class(n))
		if cl, d := c18Check(n); cl != "" {
			st.Fail(t, c18Case{N: n}, "", cl, "n=%d: %s", n, d)
		}
	}
	for n := uint64(1); n <= N; n++ {
		one(n)
	}
	for i := uint64(0); i < N; i++ {
		one(^uint64(0) - i)
	}
	st.Sample(map[string]any{"range": []uint64{1, N}, "and": []uint64{^uint64(0) - N + 1, ^uint64(0)}})
}
