package tmmemstore_test

// C16: in-memory stores are linearizable and honour no-overwrite contracts.
//
//   TestVerifC16Seq       generated op lists against the real store and the model, result of every op compared
//   TestVerifC16Conc      2-8 goroutines on one store, call/return history with a logical clock, porcupine
//   TestVerifC16ConcRace  same body, thorough tier, -race build; half of the cases run without the clock
//                         (the shared atomic clock orders non-overlapping calls and hides them from the detector)

import (
	"encoding/json"
	"fmt"
	"os"
	"path/filepath"
	"runtime"
	"runtime/debug"
	"sort"
	"strings"
	"sync"
	"sync/atomic"
	"testing"
	"time"

	"github.com/anishathalye/porcupine"
	"github.com/gordian-engine/gordian/internal/zzverif/vk"
	"pgregory.net/rapid"
)

// ---------------------------------------------------------------------------
// generators

func c16OpGen(spec *c16Spec, hotH uint64, hotR uint32, yields bool) *rapid.Generator[c16Op] {
	i3 := rapid.IntRange(0, 2)
	i2 := rapid.IntRange(0, 1)
	keyBiased := rapid.SampledFrom([]int{0, 0, 0, 0, 1, 1, 2})
	hdrBiased := rapid.SampledFrom([]int{0, 0, 0, 1, 1, 2})
	hotList := int(hotH) + int(hotR)
	coll := rapid.SampledFrom([]int{2, 3, 4, 5, 2, 3, 4, 5, 0, 1, 6})
	listBiased := rapid.SampledFrom([]int{0, 0, 1, 1, 2, 3, 4, 5})
	selBiased := rapid.SampledFrom([]int{0, 0, 0, 1, 1, 1, 2, 2, 3, 3, 4, 5, 6, 7, 9, 12, 13})
	return rapid.Custom(func(t *rapid.T) c16Op {
		op := c16Op{K: rapid.SampledFrom(spec.kinds).Draw(t, "k")}
		switch hot := rapid.IntRange(0, 9).Draw(t, "hot"); {
		case hot < 5:
			op.H, op.R = hotH, hotR
		case hot < 7:
			op.H, op.R = hotH, rapid.Uint32Range(0, c16MaxR).Draw(t, "r")
		default:
			op.H, op.R = rapid.Uint64Range(0, c16MaxH).Draw(t, "h"), rapid.Uint32Range(0, c16MaxR).Draw(t, "r")
		}
		switch op.K {
		case "a.ph":
			if op.H == 0 {
				op.H = 1
			}
			op.A, op.B, op.D = i3.Draw(t, "a"), i3.Draw(t, "b"), i2.Draw(t, "d")
		case "a.pv", "a.pc":
			op.A, op.B, op.C = i3.Draw(t, "a"), keyBiased.Draw(t, "b"), i2.Draw(t, "c")
		case "r.ph":
			op.A, op.B, op.D = hdrBiased.Draw(t, "a"), i3.Draw(t, "b"), i2.Draw(t, "d")
		case "r.rh":
			op.A = hdrBiased.Draw(t, "a")
		case "r.pv", "r.pc":
			op.C = coll.Draw(t, "c")
		case "f.sv":
			op.A, op.B, op.C = i3.Draw(t, "a"), i3.Draw(t, "b"), i3.Draw(t, "c")
		case "c.sv":
			op.A, op.B = i3.Draw(t, "a"), i3.Draw(t, "b")
		case "m.set":
			op.A, op.B = rapid.IntRange(0, c16MaxH).Draw(t, "a"), rapid.IntRange(0, c16MaxR).Draw(t, "b")
		case "v.sk", "v.sp":
			op.H, op.R = 0, 0
			op.A = listBiased.Draw(t, "a")
			if i2.Draw(t, "hotlist") == 0 {
				op.A = c16mod(hotList, 6)
			}
		case "v.lk", "v.lp":
			op.H, op.R = 0, 0
			op.A = selBiased.Draw(t, "a")
			if i2.Draw(t, "hotlist") == 0 {
				op.A = c16mod(hotList, 6)
			}
		case "v.lv":
			op.H, op.R = 0, 0
			op.A, op.B = selBiased.Draw(t, "a"), selBiased.Draw(t, "b")
			if i2.Draw(t, "hotlist") == 0 {
				op.A = c16mod(hotList, 6)
			}
			if i2.Draw(t, "hotlist2") == 0 {
				op.B = c16mod(hotList, 6)
			}
		case "a.ld", "r.ld":
		default: // f.ld c.ld m.get s.get s.set
			if op.K != "s.set" && op.K != "f.ld" && op.K != "c.ld" {
				op.H, op.R = 0, 0
			} else if op.K != "s.set" {
				op.R = 0
			}
		}
		if yields && rapid.IntRange(0, 3).Draw(t, "y") == 0 {
			op.Y = true
		}
		return op
	})
}

// c16WarmUp: for the round store a third of the cases start from a deep
// state that random ops rarely build: one header saved by all three proposers
// in the hot round, the two other headers saved as replayed headers, and
// precommits naming one of them.
func c16WarmUp(rt *rapid.T, store string, hotH uint64, hotR uint32) []c16Op {
	if store != "round" || rapid.IntRange(0, 2).Draw(rt, "warm") != 0 {
		return nil
	}
	return []c16Op{
		{K: "r.ph", H: hotH, R: hotR, A: 0, B: 0}, {K: "r.ph", H: hotH, R: hotR, A: 0, B: 1, D: 1}, {K: "r.ph", H: hotH, R: hotR, A: 0, B: 2},
		{K: "r.rh", H: hotH, A: 1}, {K: "r.rh", H: hotH, A: 2},
		{K: "r.pc", H: hotH, R: hotR, C: rapid.SampledFrom([]int{3, 4}).Draw(rt, "warmc")},
	}
}

type c16SeqCase struct {
	Store string  `json:"store"`
	Ops   []c16Op `json:"ops"`
}

func c16GenSeq(rt *rapid.T) c16SeqCase {
	store := rapid.SampledFrom(c16StoreNames).Draw(rt, "store")
	hotH := rapid.Uint64Range(0, c16MaxH).Draw(rt, "hotH")
	hotR := rapid.Uint32Range(0, c16MaxR).Draw(rt, "hotR")
	n := rapid.IntRange(1, 40).Draw(rt, "n")
	ops := rapid.SliceOfN(c16OpGen(c16Specs[store], hotH, hotR, false), n, 40).Draw(rt, "ops")
	return c16SeqCase{Store: store, Ops: append(c16WarmUp(rt, store, hotH, hotR), ops...)}
}

type c16Event struct {
	G    int    `json:"g"`
	Op   c16Op  `json:"op"`
	Out  c16Out `json:"out"`
	Call int64  `json:"call"`
	Ret  int64  `json:"ret"`
}

type c16ConcCase struct {
	Store   string     `json:"store"`
	Clock   bool       `json:"clock"`
	Pre     []c16Op    `json:"pre,omitempty"` // run sequentially before the goroutines start (history client id = number of threads)
	Threads [][]c16Op  `json:"threads"`
	History []c16Event `json:"history,omitempty"` // recorded on failure: the evidence; replay re-checks it
	Witness []string   `json:"witness,omitempty"` // failing partition with the reads that are not needed removed
}

func c16GenConc(rt *rapid.T, allowNoClock bool) c16ConcCase {
	store := rapid.SampledFrom(c16StoreNames).Draw(rt, "store")
	hotH := rapid.Uint64Range(0, c16MaxH).Draw(rt, "hotH")
	hotR := rapid.Uint32Range(0, c16MaxR).Draw(rt, "hotR")
	g := c16OpGen(c16Specs[store], hotH, hotR, true)
	n := rapid.IntRange(2, 8).Draw(rt, "goroutines")
	c := c16ConcCase{Store: store, Clock: true, Pre: c16WarmUp(rt, store, hotH, hotR)}
	if allowNoClock {
		c.Clock = rapid.Bool().Draw(rt, "clock")
	}
	for i := 0; i < n; i++ {
		c.Threads = append(c.Threads, rapid.SliceOfN(g, rapid.IntRange(1, 6).Draw(rt, "len"), 6).Draw(rt, fmt.Sprintf("t%d", i)))
	}
	return c
}

// ---------------------------------------------------------------------------
// sequential

const c16SeqRule = "store drawn from the 7 memstores; 1-40 ops over heights 0-4, rounds 0-3, 3 header variants per height, 3 public keys, 6 key lists / 6 power lists, 60% of ops on one hot height/round; " +
	"non-trivial = the list contains a refused write (DoubleAction, PubKeyChanged, Overwrite, FinalizationOverwrite, *AlreadyExist; for the three stores whose contract has no refusal: a write over an existing value) and a later read of that key; distinct = distinct (store, op list)"

type c16Tracker struct {
	spec     *c16Spec
	written  map[string]bool
	refused  map[string]bool
	nontriv  bool
	nRefused int
	labels   map[string]int64
}

func c16NewTracker(spec *c16Spec) *c16Tracker {
	return &c16Tracker{spec: spec, written: map[string]bool{}, refused: map[string]bool{}, labels: map[string]int64{}}
}

func (tr *c16Tracker) observe(op c16Op, out c16Out) {
	tr.labels[op.K+":"+c16ErrClass(out.E)]++
	role, keys := tr.spec.role(op, out)
	switch role {
	case "refused":
		tr.nRefused++
		for _, k := range keys {
			tr.refused[k] = true
		}
	case "write":
		for _, k := range keys {
			if tr.written[k] && !tr.spec.refuses {
				tr.nRefused++
				tr.refused[k] = true
			}
			tr.written[k] = true
		}
	case "read":
		for _, k := range keys {
			if tr.refused[k] {
				tr.nontriv = true
			}
		}
	}
}

func (tr *c16Tracker) flush(st *vk.Stats, mode string, fp uint64, extra ...string) {
	labels := append([]string{"store=" + tr.spec.name}, extra...)
	switch {
	case tr.nRefused == 0:
		labels = append(labels, tr.spec.name+":refusals=0")
	case tr.nRefused < 4:
		labels = append(labels, tr.spec.name+":refusals=1-3")
	default:
		labels = append(labels, tr.spec.name+":refusals>=4")
	}
	if tr.nontriv {
		labels = append(labels, tr.spec.name+":nontrivial")
	}
	st.Case(tr.nontriv, fp, labels...)
	keys := make([]string, 0, len(tr.labels))
	for k := range tr.labels {
		keys = append(keys, k)
	}
	sort.Strings(keys)
	for _, k := range keys {
		st.LabelN(k, tr.labels[k])
	}
}

func c16RunSeq(t vk.TB, st *vk.Stats, c c16SeqCase) {
	spec := c16Specs[c.Store]
	if spec == nil {
		t.Fatalf("harness: unknown store %q", c.Store)
	}
	if st.WantSample() {
		st.Sample(c)
	}
	tr := c16NewTracker(spec)
	defer tr.flush(st, "seq", vk.FP(c))
	st.Guard(t, c, func() {
		exec := spec.open()
		states := map[string]any{}
		type held struct {
			i     int
			op    c16Op
			out   c16Out
			again func() c16Out
		}
		var helds []held
		for i, raw := range c.Ops {
			op, ok := spec.norm(raw)
			if !ok {
				tr.labels["skipped-outside-domain"]++
				continue
			}
			out, again := exec(op)
			tr.observe(op, out)
			pk := spec.part(op)
			cur, have := states[pk]
			if !have {
				cur = spec.init()
			}
			ok, why, next := spec.step(cur, op, out)
			if !ok {
				st.Fail(t, c, "", "seq:"+spec.name+":"+op.K, "op #%d %+v: %s", i, op, why)
			}
			states[pk] = next
			if again != nil {
				helds = append(helds, held{i, op, out, again})
			}
		}
		// values handed out earlier must not have been changed by later store calls
		for _, h := range helds {
			if now := h.again(); !c16OutEqual(now, h.out) {
				st.Fail(t, c, "", "seq:"+spec.name+":returned-value-mutated", "value returned by op #%d %+v changed after later calls:\n was %v\n now %v", h.i, h.op, h.out, now)
			}
		}
	})
}

func TestVerifC16Seq(t *testing.T) {
	defer debug.SetGCPercent(debug.SetGCPercent(800)) // many short-lived values; fewer GC cycles
	st := vk.NewStats("C16", "TestVerifC16Seq", c16SeqRule)
	defer st.Flush()
	var c c16SeqCase
	if ok, err := vk.LoadReplay("C16", "TestVerifC16Seq", &c); err != nil {
		t.Fatal(err)
	} else if ok {
		c16RunSeq(t, st, c)
		return
	} else if vk.Replaying() {
		t.Skip("replay file is for another test")
	}
	rapid.Check(t, func(rt *rapid.T) {
		c16RunSeq(rt, st, c16GenSeq(rt))
	})
	c16Floors(t, st, true)
}

// c16Floors: generator self-check (clause "harness"), only for runs large
// enough that the floors hold for every seed.
func c16Floors(t *testing.T, st *vk.Stats, seq bool) {
	n := st.Evals
	if n < 2000 {
		return
	}
	for _, s := range c16StoreNames {
		if got := st.Labels["store="+s]; got*20 < n {
			t.Fatalf("harness: store %s got %d of %d cases", s, got, n)
		}
		if seq {
			if got, all := st.Labels[s+":nontrivial"], st.Labels["store="+s]; got*5 < all {
				t.Fatalf("harness: store %s: only %d of %d cases have a refused write followed by a read of the key", s, got, all)
			}
		}
	}
	if !seq {
		return
	}
	for _, l := range []string{"a.ph:DoubleAction", "a.pv:DoubleAction", "a.pc:DoubleAction", "a.pv:PubKeyChanged", "a.pc:PubKeyChanged",
		"r.ph:Overwrite", "r.rh:Overwrite", "f.sv:FinOverwrite", "v.sk:PubKeysExist", "v.sp:PowersExist", "v.lv:CountMismatch", "v.lv:ok",
		"v.lv:NoPubKeyHash|NoVotePowerHash", "a.ld:RoundUnknown", "r.ld:RoundUnknown", "f.ld:HeightUnknown", "c.ld:HeightUnknown", "m.get:Uninit", "s.get:Uninit"} {
		if st.Labels[l]*1000 < n {
			t.Fatalf("harness: outcome class %s occurred %d times in %d cases", l, st.Labels[l], n)
		}
	}
}

// ---------------------------------------------------------------------------
// concurrent

const c16ConcRule = "store drawn from the 7 memstores; 2-8 goroutines with 1-6 ops each on one store (same key spaces as the sequential test, 60% of ops on one hot height/round, optional yields), real scheduler, " +
	"call/return stamped by one atomic logical clock, history checked with porcupine against the sequential model partitioned by key; " +
	"non-trivial = the history contains a refused write (or, for stores without refusals, an overwriting write) and a read of that key that does not entirely precede it; distinct = distinct (store, per-goroutine op lists)"

func c16Model(spec *c16Spec) porcupine.Model {
	return porcupine.Model{
		Partition: func(h []porcupine.Operation) [][]porcupine.Operation {
			by := map[string][]porcupine.Operation{}
			var keys []string
			for _, o := range h {
				k := spec.part(o.Input.(c16Op))
				if _, ok := by[k]; !ok {
					keys = append(keys, k)
				}
				by[k] = append(by[k], o)
			}
			sort.Strings(keys)
			out := make([][]porcupine.Operation, len(keys))
			for i, k := range keys {
				out[i] = by[k]
			}
			return out
		},
		Init: spec.init,
		Step: func(state, in, out any) (bool, any) {
			ok, _, next := spec.step(state, in.(c16Op), out.(c16Out))
			return ok, next
		},
		DescribeOperation: func(in, out any) string { return fmt.Sprintf("%+v -> %v", in, out) },
	}
}

func c16ToOps(evs []c16Event) []porcupine.Operation {
	ops := make([]porcupine.Operation, len(evs))
	for i, e := range evs {
		ops[i] = porcupine.Operation{ClientId: e.G, Input: e.Op, Call: e.Call, Output: e.Out, Return: e.Ret}
	}
	return ops
}

// The timeout only bounds the search; expiry yields Unknown, which is
// counted and never reported as a violation.
const c16PorcupineBudget = 30 * time.Second

func c16Check(spec *c16Spec, evs []c16Event) porcupine.CheckResult {
	return porcupine.CheckOperationsTimeout(c16Model(spec), c16ToOps(evs), c16PorcupineBudget)
}

// c16Witness narrows a non-linearizable history to one failing partition and
// drops reads and refused writes that are not needed for the verdict (neither
// changes the model state, so the remaining calls keep their meaning). It is
// an explanation only; the complete history is what gets saved and re-checked.
func c16Witness(spec *c16Spec, evs []c16Event) []string {
	by := map[string][]c16Event{}
	var keys []string
	for _, e := range evs {
		k := spec.part(e.Op)
		if _, ok := by[k]; !ok {
			keys = append(keys, k)
		}
		by[k] = append(by[k], e)
	}
	sort.Strings(keys)
	for _, k := range keys {
		part := by[k]
		if c16Check(spec, part) != porcupine.Illegal {
			continue
		}
		for i := 0; i < len(part); {
			role, _ := spec.role(part[i].Op, part[i].Out)
			if role == "read" || role == "refused" { // neither changes the model state
				cand := append(append([]c16Event(nil), part[:i]...), part[i+1:]...)
				if len(cand) > 0 && c16Check(spec, cand) == porcupine.Illegal {
					part = cand
					continue
				}
			}
			i++
		}
		sort.Slice(part, func(i, j int) bool { return part[i].Call < part[j].Call })
		out := make([]string, len(part))
		for i, e := range part {
			out[i] = fmt.Sprintf("g%d [%d,%d] %+v -> %v", e.G, e.Call, e.Ret, e.Op, e.Out)
		}
		return out
	}
	return nil
}

func c16ConcTrack(spec *c16Spec, evs []c16Event, clock bool) *c16Tracker {
	tr := c16NewTracker(spec)
	sorted := append([]c16Event(nil), evs...)
	if clock {
		sort.Slice(sorted, func(i, j int) bool { return sorted[i].Call < sorted[j].Call })
	}
	// first pass: refusals / overwrites; second pass: reads not entirely before one of them
	type ref struct {
		key  string
		call int64
	}
	var refs []ref
	for _, e := range sorted {
		before := map[string]bool{}
		for k := range tr.refused {
			before[k] = true
		}
		tr.observe(e.Op, e.Out)
		for k := range tr.refused {
			if !before[k] {
				refs = append(refs, ref{k, e.Call})
			}
		}
	}
	tr.nontriv = false
	for _, e := range sorted {
		if role, keys := spec.role(e.Op, e.Out); role == "read" {
			for _, k := range keys {
				for _, r := range refs {
					if r.key == k && (!clock || e.Ret > r.call) {
						tr.nontriv = true
					}
				}
			}
		}
	}
	return tr
}

// c16Execute runs the threads once on the real scheduler and returns the
// recorded events (per goroutine in program order), the re-encoders of
// returned values and the first panic text, if any.
func c16Execute(spec *c16Spec, pre []c16Op, threads [][]c16Op, clock bool) ([]c16Event, []func() c16Out, string) {
	exec := spec.open()
	var clk atomic.Int64
	n := len(threads)
	var preEvs []c16Event
	var preAgs []func() c16Out
	for _, op := range pre {
		call := clk.Add(1)
		out, again := exec(op)
		preEvs = append(preEvs, c16Event{G: n, Op: op, Out: out, Call: call, Ret: clk.Add(1)})
		preAgs = append(preAgs, again)
	}
	perG := make([][]c16Event, n)
	perA := make([][]func() c16Out, n)
	panics := make([]string, n)
	start := make(chan struct{})
	var ready, wg sync.WaitGroup
	var arrived atomic.Int32
	ready.Add(n)
	wg.Add(n)
	for g := 0; g < n; g++ {
		go func(g int) {
			defer wg.Done()
			defer func() {
				if r := recover(); r != nil {
					panics[g] = fmt.Sprintf("goroutine %d: %v\n%s", g, r, debug.Stack())
				}
			}()
			ops := threads[g]
			evs := make([]c16Event, 0, len(ops))
			ags := make([]func() c16Out, 0, len(ops))
			ready.Done()
			<-start
			// spin barrier: wake-up latencies after close(start) are longer than a whole op list
			arrived.Add(1)
			for i := 1; arrived.Load() < int32(n); i++ {
				if i%2000 == 0 {
					runtime.Gosched()
				}
			}
			for _, op := range ops {
				if op.Y {
					runtime.Gosched()
				}
				var call, ret int64
				if clock {
					call = clk.Add(1)
				}
				out, again := exec(op)
				if clock {
					ret = clk.Add(1)
				}
				evs = append(evs, c16Event{G: g, Op: op, Out: out, Call: call, Ret: ret})
				ags = append(ags, again)
				perG[g], perA[g] = evs, ags
			}
		}(g)
	}
	ready.Wait()
	close(start)
	wg.Wait()
	evs, ags := preEvs, preAgs
	pan := ""
	for g := 0; g < n; g++ {
		evs = append(evs, perG[g]...)
		ags = append(ags, perA[g]...)
		if pan == "" {
			pan = panics[g]
		}
	}
	return evs, ags, pan
}

func c16NormThreads(spec *c16Spec, threads [][]c16Op) ([][]c16Op, int) {
	out := make([][]c16Op, 0, len(threads))
	skipped := 0
	for _, th := range threads {
		var nt []c16Op
		for _, raw := range th {
			if op, ok := spec.norm(raw); ok {
				nt = append(nt, op)
			} else {
				skipped++
			}
		}
		out = append(out, nt)
	}
	return out, skipped
}

func c16RunConcOnce(t vk.TB, st *vk.Stats, c c16ConcCase, count bool) {
	spec := c16Specs[c.Store]
	if spec == nil {
		t.Fatalf("harness: unknown store %q", c.Store)
	}
	threads, skipped := c16NormThreads(spec, c.Threads)
	pres, skippedPre := c16NormThreads(spec, [][]c16Op{c.Pre})
	skipped += skippedPre
	evs, agains, pan := c16Execute(spec, pres[0], threads, c.Clock)
	var res porcupine.CheckResult = porcupine.Ok
	if c.Clock && pan == "" {
		res = c16Check(spec, evs)
	}
	if count {
		tr := c16ConcTrack(spec, evs, c.Clock)
		if skipped > 0 {
			tr.labels["skipped-outside-domain"] += int64(skipped)
		}
		extra := []string{fmt.Sprintf("goroutines=%d", len(threads))}
		if !c.Clock {
			extra = append(extra, "noclock")
		} else {
			extra = append(extra, "porcupine="+string(res))
			overlap := 0
			for i := range evs {
				for j := range evs {
					if evs[i].G < evs[j].G && evs[i].Call < evs[j].Ret && evs[j].Call < evs[i].Ret {
						overlap++
					}
				}
			}
			switch {
			case overlap == 0:
				extra = append(extra, "overlapping-pairs=0")
			case overlap < 5:
				extra = append(extra, "overlapping-pairs=1-4")
			default:
				extra = append(extra, "overlapping-pairs>=5")
			}
		}
		cc := c
		cc.History, cc.Witness = nil, nil
		tr.flush(st, "conc", vk.FP(cc), extra...)
	}
	fail := c
	fail.History = evs
	if pan != "" {
		st.Fail(t, fail, "", "conc:"+spec.name+":panic", "%s", pan)
	}
	if res == porcupine.Illegal {
		fail.Witness = c16Witness(spec, evs)
		st.Fail(t, fail, "", "conc:"+spec.name+":not-linearizable", "no linearization of the recorded history matches the sequential model; failing partition (reads / refused writes not needed for the verdict removed):\n%s", strings.Join(fail.Witness, "\n"))
	}
	for i, again := range agains {
		if again == nil {
			continue
		}
		if now := again(); !c16OutEqual(now, evs[i].Out) {
			st.Fail(t, fail, "", "conc:"+spec.name+":returned-value-mutated", "value returned to goroutine %d by %+v changed afterwards:\n was %v\n now %v", evs[i].G, evs[i].Op, evs[i].Out, now)
		}
	}
}

func c16Conc(t *testing.T, name string, allowNoClock bool) {
	defer debug.SetGCPercent(debug.SetGCPercent(800))
	st := vk.NewStats("C16", name, c16ConcRule)
	defer st.Flush()
	var c c16ConcCase
	if ok, err := vk.LoadReplay("C16", name, &c); err != nil {
		t.Fatal(err)
	} else if ok {
		spec := c16Specs[c.Store]
		if spec == nil {
			t.Fatalf("harness: unknown store %q", c.Store)
		}
		if len(c.History) > 0 && c.Clock {
			// deterministic: the saved history is the evidence
			st.Case(true, vk.FP(c.Threads), "replay-history")
			if res := c16Check(spec, c.History); res == porcupine.Illegal {
				st.Fail(t, c, "", "conc:"+spec.name+":not-linearizable", "saved history is not linearizable against the model:\n%s", strings.Join(c16Witness(spec, c.History), "\n"))
			}
			return
		}
		// no history (process death or race report): re-run the threads on the real scheduler
		c.History, c.Witness = nil, nil
		for i := 0; i < 300; i++ {
			c16WAL(name, c)
			c16RunConcOnce(t, st, c, i == 0)
		}
		return
	} else if vk.Replaying() {
		t.Skip("replay file is for another test")
	}
	rapid.Check(t, func(rt *rapid.T) {
		c := c16GenConc(rt, allowNoClock)
		if st.WantSample() {
			st.Sample(c)
		}
		c16WAL(name, c) // concurrent map access kills the process; a race report under halt_on_error does too
		c16RunConcOnce(rt, st, c, true)
	})
	c16Floors(t, st, false)
}

func TestVerifC16Conc(t *testing.T) { c16Conc(t, "TestVerifC16Conc", false) }

func TestVerifC16ConcRace(t *testing.T) { c16Conc(t, "TestVerifC16ConcRace", c16RaceBuild) }

// c16WAL is vk.Stats.WAL with the file kept open (one pwrite + ftruncate per
// case instead of create/write/close, which costs milliseconds here). Same
// path and format, so the driver attributes a process death to this case.
var c16WALFile struct {
	name string
	f    *os.File
}

func c16WAL(test string, c c16ConcCase) {
	if vk.OutDir() == "" {
		return
	}
	cb, err := json.Marshal(c)
	if err != nil {
		return
	}
	b, _ := json.Marshal(vk.Failure{Property: "C16", Test: test, Clause: "process-death", Case: cb})
	path := filepath.Join(vk.OutDir(), fmt.Sprintf("C16-%s-s%d.wal.json", test, vk.Shard()))
	if c16WALFile.f == nil || c16WALFile.name != path {
		f, err := os.OpenFile(path, os.O_CREATE|os.O_WRONLY|os.O_TRUNC, 0o644)
		if err != nil {
			return
		}
		c16WALFile.f, c16WALFile.name = f, path
	}
	if _, err := c16WALFile.f.WriteAt(b, 0); err == nil {
		_ = c16WALFile.f.Truncate(int64(len(b)))
	}
}
