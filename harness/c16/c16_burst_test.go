package tmmemstore_test

// C16, register stores under load: the mirror and state machine stores keep
// plain fields, so a missing lock shows up only as a torn value when calls
// really overlap. The porcupine test spends most of its time outside the
// store; here 2-8 goroutines hammer Set/Get in tight loops and the oracle is
// the register part of linearizability that needs no clock: every Get returns
// ErrStoreUninitialized or a tuple that one Set of this case wrote as a whole,
// and never ErrStoreUninitialized after a Set of the same goroutine returned.

import (
	"context"
	"errors"
	"fmt"
	"runtime"
	"sync"
	"sync/atomic"
	"testing"

	"github.com/gordian-engine/gordian/internal/zzverif/vk"
	"github.com/gordian-engine/gordian/tm/tmstore"
	"github.com/gordian-engine/gordian/tm/tmstore/tmmemstore"
	"pgregory.net/rapid"
)

type c16BurstCase struct {
	Store   string  `json:"store"`   // "mirror" | "statemachine"
	Reps    int     `json:"reps"`    // every goroutine runs its list this many times
	Threads [][]int `json:"threads"` // 0 = Get, k>0 = Set of tuple (k,k,k,k)
	Seen    string  `json:"seen,omitempty"`
}

const c16BurstRule = "mirror or state machine store; 2-8 goroutines each looping 100-1200 times over its list of Set(k,k,k,k) / Get calls, k in 1..6 (goroutine 0 only reads, goroutine 1 alternates two different tuples, the others run 1-4 drawn calls); " +
	"non-trivial = at least two goroutines set different tuples and some goroutine reads; distinct = distinct (store, reps, lists)"

type c16Tuple struct {
	a, c uint64
	b, d uint32
	un   bool
}

func c16BurstRun(c c16BurstCase) (bad string) {
	ctx := context.Background()
	var set func(k int)
	var get func() (c16Tuple, error)
	if c.Store == "mirror" {
		var s tmstore.MirrorStore = tmmemstore.NewMirrorStore()
		set = func(k int) { _ = s.SetNetworkHeightRound(ctx, uint64(k), uint32(k), uint64(k), uint32(k)) }
		get = func() (c16Tuple, error) {
			a, b, cc, d, err := s.NetworkHeightRound(ctx)
			return c16Tuple{a: a, b: b, c: cc, d: d}, err
		}
	} else {
		var s tmstore.StateMachineStore = tmmemstore.NewStateMachineStore()
		set = func(k int) { _ = s.SetStateMachineHeightRound(ctx, uint64(k), uint32(k)) }
		get = func() (c16Tuple, error) {
			a, b, err := s.StateMachineHeightRound(ctx)
			return c16Tuple{a: a, b: b, c: a, d: b}, err
		}
	}
	n := len(c.Threads)
	written := map[int]bool{}
	for _, th := range c.Threads {
		for _, k := range th {
			written[k] = true
		}
	}
	bads := make([]string, n)
	var arrived atomic.Int32
	var wg sync.WaitGroup
	wg.Add(n)
	for g := 0; g < n; g++ {
		go func(g int) {
			defer wg.Done()
			ops := c.Threads[g]
			arrived.Add(1)
			for i := 1; arrived.Load() < int32(n); i++ {
				if i%2000 == 0 {
					runtime.Gosched()
				}
			}
			didSet := false
			for rep := 0; rep < c.Reps && bads[g] == ""; rep++ {
				for _, k := range ops {
					if k > 0 {
						set(k)
						didSet = true
						continue
					}
					t, err := get()
					switch {
					case err != nil && !errors.Is(err, tmstore.ErrStoreUninitialized):
						bads[g] = fmt.Sprintf("goroutine %d: Get returned unexpected error %v", g, err)
					case err != nil && didSet:
						bads[g] = fmt.Sprintf("goroutine %d: Get returned ErrStoreUninitialized after its own Set had returned", g)
					case err == nil && !(t.a == t.c && t.b == t.d && uint64(t.b) == t.a && written[int(t.a)] && t.a > 0):
						bads[g] = fmt.Sprintf("goroutine %d: Get returned (%d,%d,%d,%d), a value no Set of this case wrote as a whole", g, t.a, t.b, t.c, t.d)
					}
				}
			}
		}(g)
	}
	wg.Wait()
	for _, b := range bads {
		if b != "" {
			return b
		}
	}
	return ""
}

func c16BurstCaseRun(t vk.TB, st *vk.Stats, c c16BurstCase, runs int) {
	if c.Store != "mirror" && c.Store != "statemachine" {
		t.Fatalf("harness: burst store %q", c.Store)
	}
	for i := range c.Threads {
		for j := range c.Threads[i] {
			c.Threads[i][j] = c16mod(c.Threads[i][j], 7)
		}
	}
	if c.Reps < 1 {
		c.Reps = 1
	}
	if c.Reps > 2000 {
		c.Reps = 2000
	}
	setters, reads := map[int]bool{}, false
	for _, th := range c.Threads {
		for _, k := range th {
			if k > 0 {
				setters[k] = true
			} else {
				reads = true
			}
		}
	}
	c.Seen = ""
	st.Case(len(setters) >= 2 && reads && len(c.Threads) >= 2, vk.FP(c), "store="+c.Store, fmt.Sprintf("goroutines=%d", len(c.Threads)))
	st.Guard(t, c, func() {
		for i := 0; i < runs; i++ {
			if bad := c16BurstRun(c); bad != "" {
				c.Seen = bad
				st.Fail(t, c, "", "burst:"+c.Store+":torn-or-lost-value", "%s", bad)
			}
		}
	})
}

func TestVerifC16RegBurst(t *testing.T) {
	st := vk.NewStats("C16", "TestVerifC16RegBurst", c16BurstRule)
	defer st.Flush()
	var c c16BurstCase
	if ok, err := vk.LoadReplay("C16", "TestVerifC16RegBurst", &c); err != nil {
		t.Fatal(err)
	} else if ok {
		c16BurstCaseRun(t, st, c, 200) // schedule dependent: many attempts
		return
	} else if vk.Replaying() {
		t.Skip("replay file is for another test")
	}
	rapid.Check(t, func(rt *rapid.T) {
		c := c16BurstCase{
			Store: rapid.SampledFrom([]string{"mirror", "statemachine"}).Draw(rt, "store"),
			Reps:  rapid.IntRange(100, 1200).Draw(rt, "reps"),
		}
		n := rapid.IntRange(2, 8).Draw(rt, "goroutines")
		op := rapid.SampledFrom([]int{0, 0, 0, 1, 2, 3, 4, 5, 6})
		// goroutine 0 only reads, goroutine 1 alternates between two different tuples, the rest is free
		k1 := rapid.IntRange(1, 6).Draw(rt, "k1")
		k2 := 1 + (k1+rapid.IntRange(0, 4).Draw(rt, "k2"))%6
		c.Threads = append(c.Threads, []int{0, 0}, []int{k1, k2})
		for i := 2; i < n; i++ {
			c.Threads = append(c.Threads, rapid.SliceOfN(op, 1, 4).Draw(rt, fmt.Sprintf("t%d", i)))
		}
		if st.WantSample() {
			st.Sample(c)
		}
		c16BurstCaseRun(rt, st, c, 1)
	})
}
