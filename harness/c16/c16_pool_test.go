package tmmemstore_test

// C16: in-memory stores are linearizable and honour no-overwrite contracts.
//
// This file: case data types, the deterministic value pools the small integer
// selectors of an Op resolve to, canonical encoders (nil == empty everywhere)
// and the error classifier.

import (
	"crypto/ed25519"
	"crypto/sha256"
	"encoding/hex"
	"errors"
	"fmt"
	"sort"
	"strconv"
	"strings"
	"sync"

	"github.com/gordian-engine/gordian/gcrypto"
	"github.com/gordian-engine/gordian/tm/tmconsensus"
	"github.com/gordian-engine/gordian/tm/tmstore"
	"golang.org/x/crypto/blake2b"
)

// c16Op is one store call as plain data. The meaning of A..D depends on K
// (see the spec of each store); every combination of values is a valid call
// because selectors are reduced modulo the pool size by the interpreter.
type c16Op struct {
	K string `json:"k"`
	H uint64 `json:"h,omitempty"`
	R uint32 `json:"r,omitempty"`
	A int    `json:"a,omitempty"`
	B int    `json:"b,omitempty"`
	C int    `json:"c,omitempty"`
	D int    `json:"d,omitempty"`
	Y bool   `json:"y,omitempty"` // concurrent mode: yield before the call
}

// c16Out is the canonical form of everything a store call returned.
type c16Out struct {
	E string   `json:"e,omitempty"` // classified error, "" = nil
	V string   `json:"v,omitempty"`
	X string   `json:"x,omitempty"`
	Y string   `json:"y,omitempty"`
	L []string `json:"l,omitempty"`
}

func (o c16Out) String() string {
	return fmt.Sprintf("{err=%q v=%q x=%q y=%q l=%q}", o.E, o.V, o.X, o.Y, o.L)
}

func c16OutEqual(a, b c16Out) bool {
	if a.E != b.E || a.V != b.V || a.X != b.X || a.Y != b.Y || len(a.L) != len(b.L) {
		return false
	}
	for i := range a.L {
		if a.L[i] != b.L[i] {
			return false
		}
	}
	return true
}

const (
	c16MaxH  = 4 // heights 0..4
	c16MaxR  = 3 // rounds 0..3
	c16NHdr  = 3 // header variants per height
	c16NKey  = 3 // public keys
	c16NColl = 7 // sparse signature collection variants
)

func c16mod(v, n int) int {
	v %= n
	if v < 0 {
		v += n
	}
	return v
}

// ---------------------------------------------------------------------------
// pools; every call builds fresh values so nothing is shared between ops

var c16KeyBytes = func() [c16NKey][]byte {
	var out [c16NKey][]byte
	for i := range out {
		seed := sha256.Sum256([]byte("c16-key-" + strconv.Itoa(i)))
		out[i] = []byte(ed25519.NewKeyFromSeed(seed[:]).Public().(ed25519.PublicKey))
	}
	return out
}()

func c16PubKey(i int) gcrypto.PubKey {
	b := c16KeyBytes[c16mod(i, c16NKey)]
	return gcrypto.Ed25519PubKey(append([]byte(nil), b...))
}

func c16KeyHex(i int) string { return hex.EncodeToString(c16KeyBytes[c16mod(i, c16NKey)]) }

func c16Hash(h uint64, a int) []byte {
	s := sha256.Sum256([]byte(fmt.Sprintf("c16-hdr-%d-%d", h, c16mod(a, c16NHdr))))
	return s[:]
}

var c16KeyLists = [][]int{{0}, {0, 1}, {1, 0}, {0, 1, 2}, {2}, {1, 2}}
var c16PowLists = [][]uint64{{1}, {1, 2}, {2, 1}, {1, 2, 3}, {10, 10}, {1000, 10, 1}}

func c16Keys(li int) []gcrypto.PubKey {
	idx := c16KeyLists[c16mod(li, len(c16KeyLists))]
	out := make([]gcrypto.PubKey, len(idx))
	for i, k := range idx {
		out[i] = c16PubKey(k)
	}
	return out
}

func c16Pows(li int) []uint64 {
	return append([]uint64(nil), c16PowLists[c16mod(li, len(c16PowLists))]...)
}

// Independent re-implementation of the hash the validator store is
// constructed with (tmconsensustest.SimpleHashScheme): blake2b-256 over the
// hex keys joined by newline / the decimal powers joined by comma.
func c16PubKeyHash(keys []gcrypto.PubKey) string {
	parts := make([]string, len(keys))
	for i, k := range keys {
		parts[i] = hex.EncodeToString(k.PubKeyBytes())
	}
	s := blake2b.Sum256([]byte(strings.Join(parts, "\n")))
	return string(s[:])
}

func c16PowHash(pows []uint64) string {
	parts := make([]string, len(pows))
	for i, p := range pows {
		parts[i] = strconv.FormatUint(p, 10)
	}
	s := blake2b.Sum256([]byte(strings.Join(parts, ",")))
	return string(s[:])
}

var (
	c16ValSetHashOnce [3]sync.Once
	c16ValSetHash     [3][2]string
)

func c16ValSet(v int) tmconsensus.ValidatorSet {
	v = c16mod(v, 3)
	var ks []int
	var ps []uint64
	switch v {
	case 0:
		ks, ps = []int{0, 1}, []uint64{10, 5}
	case 1:
		ks, ps = []int{0, 1, 2}, []uint64{7, 7, 7}
	default:
		ks, ps = []int{2}, []uint64{1}
	}
	vs := tmconsensus.ValidatorSet{}
	for i, k := range ks {
		vs.Validators = append(vs.Validators, tmconsensus.Validator{PubKey: c16PubKey(k), Power: ps[i]})
		vs.PubKeys = append(vs.PubKeys, c16PubKey(k))
	}
	c16ValSetHashOnce[v].Do(func() {
		c16ValSetHash[v] = [2]string{c16PubKeyHash(vs.PubKeys), c16PowHash(ps)}
	})
	vs.PubKeyHash = []byte(c16ValSetHash[v][0])
	vs.VotePowerHash = []byte(c16ValSetHash[v][1])
	return vs
}

func c16Sparse(tag string, ids ...byte) []gcrypto.SparseSignature {
	out := make([]gcrypto.SparseSignature, len(ids))
	for i, id := range ids {
		out[i] = gcrypto.SparseSignature{KeyID: []byte{id}, Sig: []byte(fmt.Sprintf("%s-%d", tag, id))}
	}
	return out
}

func c16CommitProof(h uint64, b int) tmconsensus.CommitProof {
	switch c16mod(b, 3) {
	case 0:
		return tmconsensus.CommitProof{}
	case 1:
		return tmconsensus.CommitProof{Round: 1, PubKeyHash: "pkh-1", Proofs: map[string][]gcrypto.SparseSignature{
			string(c16Hash(h, 0)): c16Sparse(fmt.Sprintf("cp1-%d", h), 0, 1),
			"":                    c16Sparse(fmt.Sprintf("cp1n-%d", h), 2),
		}}
	default:
		return tmconsensus.CommitProof{Round: 0, PubKeyHash: "pkh-2", Proofs: map[string][]gcrypto.SparseSignature{
			string(c16Hash(h, 1)): c16Sparse(fmt.Sprintf("cp2-%d", h), 1, 2, 0),
		}}
	}
}

func c16Header(h uint64, a int) tmconsensus.Header {
	a = c16mod(a, c16NHdr)
	hd := tmconsensus.Header{
		Hash:             c16Hash(h, a),
		Height:           h,
		ValidatorSet:     c16ValSet(a),
		NextValidatorSet: c16ValSet(a + 1),
		DataID:           []byte(fmt.Sprintf("data-%d-%d", h, a)),
		PrevAppStateHash: []byte(fmt.Sprintf("app-%d-%d", h, a)),
	}
	if h > 0 {
		hd.PrevBlockHash = c16Hash(h-1, 0)
		hd.PrevCommitProof = c16CommitProof(h-1, a)
	}
	switch a {
	case 1:
		hd.Annotations.Driver = []byte("drv")
	case 2:
		hd.Annotations.User = []byte("usr")
		hd.Annotations.Driver = []byte("drv2")
	}
	return hd
}

func c16PH(h uint64, r uint32, a, p, d int) tmconsensus.ProposedHeader {
	a, p, d = c16mod(a, c16NHdr), c16mod(p, c16NKey), c16mod(d, 2)
	ph := tmconsensus.ProposedHeader{
		Header:         c16Header(h, a),
		Round:          r,
		ProposerPubKey: c16PubKey(p),
		Signature:      []byte(fmt.Sprintf("phsig-%d-%d-%d-%d-%d", h, r, a, p, d)),
	}
	if d == 1 {
		ph.Annotations.User = []byte("ph-ann")
	}
	return ph
}

// c16CollKeys lists, for a collection variant, the header variants voted for
// (-1 = nil vote) and the number of signatures per target.
var c16CollKeys = [c16NColl][][2]int{
	0: nil,                          // zero value: PubKeyHash nil, BlockSignatures nil
	1: nil,                          // PubKeyHash set, empty non-nil map
	2: {{0, 1}},                     // one vote for header 0
	3: {{-1, 1}, {1, 2}},            // nil vote + two votes for header 1
	4: {{2, 1}},                     // one vote for header 2
	5: {{0, 1}, {1, 1}, {-1, 1}},    // split
	6: {{0, 0}},                     // a target with an empty signature list (leftover entry)
}

func c16Coll(kind string, h uint64, r uint32, c int) tmconsensus.SparseSignatureCollection {
	c = c16mod(c, c16NColl)
	if c == 0 {
		return tmconsensus.SparseSignatureCollection{}
	}
	out := tmconsensus.SparseSignatureCollection{
		PubKeyHash:      []byte("pkh-coll"),
		BlockSignatures: map[string][]gcrypto.SparseSignature{},
	}
	next := byte(0)
	for _, kv := range c16CollKeys[c] {
		key := ""
		if kv[0] >= 0 {
			key = string(c16Hash(h, kv[0]))
		}
		ids := make([]byte, kv[1])
		for i := range ids {
			ids[i] = next
			next++
		}
		out.BlockSignatures[key] = c16Sparse(fmt.Sprintf("%s-%d-%d-%d", kind, h, r, c), ids...)
	}
	return out
}

// c16CollHasVotesFor reports whether collection variant c holds at least one
// signature for header variant a.
func c16CollHasVotesFor(c, a int) bool {
	for _, kv := range c16CollKeys[c16mod(c, c16NColl)] {
		if kv[0] == a && kv[1] > 0 {
			return true
		}
	}
	return false
}

func c16CollSigCount(c int) int {
	n := 0
	for _, kv := range c16CollKeys[c16mod(c, c16NColl)] {
		n += kv[1]
	}
	return n
}

func c16VoteTarget(h uint64, r uint32, a int) tmconsensus.VoteTarget {
	vt := tmconsensus.VoteTarget{Height: h, Round: r}
	if a = c16mod(a, 3); a > 0 { // 0 = nil vote, 1,2 = header variant 0,1
		vt.BlockHash = string(c16Hash(h, a-1))
	}
	return vt
}

func c16VoteSig(kind string, h uint64, r uint32, a, k, s int) []byte {
	return []byte(fmt.Sprintf("%s-sig-%d-%d-%d-%d-%d", kind, h, r, c16mod(a, 3), c16mod(k, c16NKey), c16mod(s, 2)))
}

// ---------------------------------------------------------------------------
// canonical encoders

func c16X(b []byte) string { return hex.EncodeToString(b) }

func c16EncKey(k gcrypto.PubKey) string {
	if k == nil {
		return "<nil>"
	}
	return k.TypeName() + ":" + hex.EncodeToString(k.PubKeyBytes())
}

func c16EncSigs(s []gcrypto.SparseSignature) string {
	parts := make([]string, len(s))
	for i, x := range s {
		parts[i] = c16X(x.KeyID) + ":" + c16X(x.Sig)
	}
	sort.Strings(parts) // the order of signatures inside one entry is not part of any contract
	return strings.Join(parts, ",")
}

func c16EncProofMap(m map[string][]gcrypto.SparseSignature) string {
	keys := make([]string, 0, len(m))
	for k := range m {
		keys = append(keys, k)
	}
	sort.Strings(keys)
	parts := make([]string, len(keys))
	for i, k := range keys {
		parts[i] = c16X([]byte(k)) + "=>(" + c16EncSigs(m[k]) + ")"
	}
	return strings.Join(parts, ";")
}

func c16EncCommitProof(p tmconsensus.CommitProof) string {
	return fmt.Sprintf("r=%d pkh=%x proofs={%s}", p.Round, p.PubKeyHash, c16EncProofMap(p.Proofs))
}

func c16EncValSet(v tmconsensus.ValidatorSet) string {
	parts := make([]string, len(v.Validators))
	for i, x := range v.Validators {
		parts[i] = c16EncKey(x.PubKey) + "/" + strconv.FormatUint(x.Power, 10)
	}
	return fmt.Sprintf("pkh=%x vph=%x vals=[%s]", v.PubKeyHash, v.VotePowerHash, strings.Join(parts, ","))
}

func c16EncHeader(h tmconsensus.Header) string {
	return fmt.Sprintf("hash=%x prev=%x height=%d pcp={%s} vs={%s} nvs={%s} data=%x pash=%x au=%x ad=%x",
		h.Hash, h.PrevBlockHash, h.Height, c16EncCommitProof(h.PrevCommitProof),
		c16EncValSet(h.ValidatorSet), c16EncValSet(h.NextValidatorSet),
		h.DataID, h.PrevAppStateHash, h.Annotations.User, h.Annotations.Driver)
}

func c16EncPH(ph tmconsensus.ProposedHeader) string {
	return fmt.Sprintf("hdr={%s} round=%d proposer=%s au=%x ad=%x sig=%x",
		c16EncHeader(ph.Header), ph.Round, c16EncKey(ph.ProposerPubKey),
		ph.Annotations.User, ph.Annotations.Driver, ph.Signature)
}

func c16EncCH(ch tmconsensus.CommittedHeader) string {
	return "hdr={" + c16EncHeader(ch.Header) + "} proof={" + c16EncCommitProof(ch.Proof) + "}"
}

// A collection without any signature is "empty" whatever its PubKeyHash and
// whichever (signature-less) targets it lists: the contract is silent about
// what a store gives back for it.
func c16EncColl(c tmconsensus.SparseSignatureCollection) string {
	n := 0
	for _, s := range c.BlockSignatures {
		n += len(s)
	}
	if n == 0 {
		return "empty"
	}
	return fmt.Sprintf("pkh=%x sigs={%s}", c.PubKeyHash, c16EncProofMap(c.BlockSignatures))
}

func c16EncKeys(keys []gcrypto.PubKey) string {
	parts := make([]string, len(keys))
	for i, k := range keys {
		parts[i] = c16EncKey(k)
	}
	return "[" + strings.Join(parts, ",") + "]"
}

func c16EncPows(p []uint64) string {
	parts := make([]string, len(p))
	for i, x := range p {
		parts[i] = strconv.FormatUint(x, 10)
	}
	return "[" + strings.Join(parts, ",") + "]"
}

func c16EncVals(vs []tmconsensus.Validator) string {
	parts := make([]string, len(vs))
	for i, x := range vs {
		parts[i] = c16EncKey(x.PubKey) + "/" + strconv.FormatUint(x.Power, 10)
	}
	return "[" + strings.Join(parts, ",") + "]"
}

// ---------------------------------------------------------------------------
// error classification: every documented error type found in the error tree
// (errors.As, so wrapping and errors.Join are fine), sorted and joined by "|".

func c16Classify(err error) string {
	if err == nil {
		return ""
	}
	var parts []string
	var e1 tmstore.DoubleActionError
	if errors.As(err, &e1) {
		parts = append(parts, "DoubleAction:"+e1.Type)
	}
	var e2 tmstore.PubKeyChangedError
	if errors.As(err, &e2) {
		parts = append(parts, fmt.Sprintf("PubKeyChanged:%s:%x:%x", e2.ActionType, e2.Want, e2.Got))
	}
	var e3 tmstore.OverwriteError
	if errors.As(err, &e3) {
		parts = append(parts, "Overwrite:"+e3.Field+":"+e3.Value)
	}
	var e4 tmstore.FinalizationOverwriteError
	if errors.As(err, &e4) {
		parts = append(parts, fmt.Sprintf("FinOverwrite:%d", e4.Height))
	}
	var e5 tmstore.PubKeysAlreadyExistError
	if errors.As(err, &e5) {
		parts = append(parts, fmt.Sprintf("PubKeysExist:%x", e5.ExistingHash))
	}
	var e6 tmstore.VotePowersAlreadyExistError
	if errors.As(err, &e6) {
		parts = append(parts, fmt.Sprintf("PowersExist:%x", e6.ExistingHash))
	}
	var e7 tmstore.NoPubKeyHashError
	if errors.As(err, &e7) {
		parts = append(parts, fmt.Sprintf("NoPubKeyHash:%x", e7.Want))
	}
	var e8 tmstore.NoVotePowerHashError
	if errors.As(err, &e8) {
		parts = append(parts, fmt.Sprintf("NoVotePowerHash:%x", e8.Want))
	}
	var e9 tmstore.PubKeyPowerCountMismatchError
	if errors.As(err, &e9) {
		parts = append(parts, fmt.Sprintf("CountMismatch:%d:%d", e9.NPubKeys, e9.NVotePower))
	}
	var e10 tmconsensus.RoundUnknownError
	if errors.As(err, &e10) {
		parts = append(parts, fmt.Sprintf("RoundUnknown:%d:%d", e10.WantHeight, e10.WantRound))
	}
	var e11 tmconsensus.HeightUnknownError
	if errors.As(err, &e11) {
		parts = append(parts, fmt.Sprintf("HeightUnknown:%d", e11.Want))
	}
	if errors.Is(err, tmstore.ErrStoreUninitialized) {
		parts = append(parts, "Uninit")
	}
	if len(parts) == 0 {
		return "other:" + err.Error()
	}
	sort.Strings(parts)
	return strings.Join(parts, "|")
}

// c16ErrClass is the error class without its parameters, for labels.
func c16ErrClass(e string) string {
	if e == "" {
		return "ok"
	}
	var names []string
	for _, p := range strings.Split(e, "|") {
		if i := strings.IndexByte(p, ':'); i >= 0 {
			p = p[:i]
		}
		names = append(names, p)
	}
	return strings.Join(names, "|")
}

// ---------------------------------------------------------------------------
// memo tables for the model side: the expected encodings of pool values are
// computed once (porcupine calls the model step very often). Filled in init,
// read-only afterwards.

type c16MK struct {
	kind    uint8
	h       uint64
	r       uint32
	a, b, c int8
}

var (
	c16Memo        = map[c16MK]string{}
	c16KeyListHash [6]string // raw hash strings
	c16PowListHash [6]string
	c16KeyListEnc  [6]string
	c16PowListEnc  [6]string
	c16ValsEnc     [6][6]string
)

func init() {
	for h := uint64(0); h <= c16MaxH; h++ {
		for a := 0; a < c16NHdr; a++ {
			c16Memo[c16MK{kind: 1, h: h, a: int8(a)}] = c16EncHeader(c16Header(h, a))
			for b := 0; b < 3; b++ {
				c16Memo[c16MK{kind: 4, h: h, a: int8(a), b: int8(b)}] = c16EncCH(tmconsensus.CommittedHeader{Header: c16Header(h, a), Proof: c16CommitProof(h, b)})
			}
		}
		for r := uint32(0); r <= c16MaxR; r++ {
			for a := 0; a < c16NHdr; a++ {
				for p := 0; p < c16NKey; p++ {
					for d := 0; d < 2; d++ {
						c16Memo[c16MK{kind: 0, h: h, r: r, a: int8(a), b: int8(p), c: int8(d)}] = c16EncPH(c16PH(h, r, a, p, d))
					}
				}
				for b := 0; b < 3; b++ {
					for c := 0; c < 3; c++ {
						c16Memo[c16MK{kind: 3, h: h, r: r, a: int8(a), b: int8(b), c: int8(c)}] = c16EncFin(r, string(c16Hash(h, a)), c16ValSet(b), fmt.Sprintf("ash-%d", c))
					}
				}
			}
			for c := 0; c < c16NColl; c++ {
				c16Memo[c16MK{kind: 2, h: h, r: r, a: 0, c: int8(c)}] = c16EncColl(c16Coll("prevote", h, r, c))
				c16Memo[c16MK{kind: 2, h: h, r: r, a: 1, c: int8(c)}] = c16EncColl(c16Coll("precommit", h, r, c))
			}
		}
	}
	for i := 0; i < 6; i++ {
		c16KeyListHash[i] = c16PubKeyHash(c16Keys(i))
		c16PowListHash[i] = c16PowHash(c16Pows(i))
		c16KeyListEnc[i] = c16EncKeys(c16Keys(i))
		c16PowListEnc[i] = c16EncPows(c16Pows(i))
		for j := 0; j < 6; j++ {
			keys, pows := c16Keys(i), c16Pows(j)
			if len(keys) != len(pows) {
				continue
			}
			vals := make([]tmconsensus.Validator, len(keys))
			for x := range keys {
				vals[x] = tmconsensus.Validator{PubKey: keys[x], Power: pows[x]}
			}
			c16ValsEnc[i][j] = c16EncVals(vals)
		}
	}
}

func c16MPH(h uint64, r uint32, a, p, d int) string {
	return c16Memo[c16MK{kind: 0, h: h, r: r, a: int8(c16mod(a, c16NHdr)), b: int8(c16mod(p, c16NKey)), c: int8(c16mod(d, 2))}]
}
func c16MHeader(h uint64, a int) string {
	return c16Memo[c16MK{kind: 1, h: h, a: int8(c16mod(a, c16NHdr))}]
}
func c16MColl(precommit bool, h uint64, r uint32, c int) string {
	k := int8(0)
	if precommit {
		k = 1
	}
	return c16Memo[c16MK{kind: 2, h: h, r: r, a: k, c: int8(c16mod(c, c16NColl))}]
}
func c16MFin(h uint64, r uint32, a, b, c int) string {
	return c16Memo[c16MK{kind: 3, h: h, r: r, a: int8(c16mod(a, c16NHdr)), b: int8(c16mod(b, 3)), c: int8(c16mod(c, 3))}]
}
func c16MCH(h uint64, a, b int) string {
	return c16Memo[c16MK{kind: 4, h: h, a: int8(c16mod(a, c16NHdr)), b: int8(c16mod(b, 3))}]
}
