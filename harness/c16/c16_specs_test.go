package tmmemstore_test

// C16: per store, (1) how an Op is executed against the real store and its
// return values canonicalised, and (2) the reference model, written from the
// doc comments of tm/tmstore/*.go and the tmstoretest compliance suites — not
// from the memstore sources. Model states are small immutable comparable
// values per partition key (sequential mode keeps them in a map; porcupine
// partitions the history by the same key).

import (
	"context"
	"fmt"
	"sort"
	"strings"

	"github.com/gordian-engine/gordian/tm/tmconsensus"
	"github.com/gordian-engine/gordian/tm/tmconsensus/tmconsensustest"
	"github.com/gordian-engine/gordian/tm/tmstore"
	"github.com/gordian-engine/gordian/tm/tmstore/tmmemstore"
)

// c16Exec runs one op on a real store: the canonical result plus a closure
// that re-encodes the very same returned Go values later (to detect a store
// mutating something it handed out earlier).
type c16Exec func(op c16Op) (c16Out, func() c16Out)

type c16Spec struct {
	name    string
	kinds   []string // op kinds, repeated according to weight
	refuses bool     // the contract has refused writes (else "overwrite" plays that role for non-triviality)
	part    func(op c16Op) string
	init    func() any
	// step validates out against the model in state st and returns the next state.
	step func(st any, op c16Op, out c16Out) (ok bool, why string, next any)
	open func() c16Exec
	// role classifies an executed op: "read" | "write" | "refused", with the keys it touches.
	role func(op c16Op, out c16Out) (string, []string)
	// norm reduces selectors into range; ok=false = outside the domain (assumption), skip the op.
	norm func(op c16Op) (c16Op, bool)
}

var c16Specs = map[string]*c16Spec{}
var c16StoreNames = []string{"action", "round", "finalization", "committedheader", "mirror", "statemachine", "validator"}

var c16bg = context.Background()

func c16NormHR(op c16Op) c16Op {
	op.H %= c16MaxH + 1
	op.R %= c16MaxR + 1
	return op
}

func c16Want(out c16Out, want c16Out) (bool, string) {
	if c16OutEqual(out, want) {
		return true, ""
	}
	return false, fmt.Sprintf("store returned %v, model expects %v", out, want)
}

func c16OneOf(e string, allowed []string) bool {
	for _, a := range allowed {
		if a == e {
			return true
		}
	}
	return false
}

// ---------------------------------------------------------------------------
// ActionStore
//
// Contract: DoubleActionError if a proposed block, prevote or precommit is
// stored in the same height-round more than once (same or different content);
// PubKeyChangedError when prevote and precommit of a round come with different
// keys (either order); LoadActions returns RoundUnknownError if nothing is
// stored for the round. When a second vote of the same kind also changes the
// key both refusals apply and the doc fixes no priority: either is accepted.
// RoundActions.PubKey is only specified once a vote was recorded.
// Domain assumptions: header heights >= 1 (genesis.InitialHeight-1 must exist),
// signatures are non-empty.

type c16ActState struct {
	HasPH            bool
	PH               string
	HasPV, HasPC     bool
	PVT, PVS         string
	PCT, PCS         string
	Key              string
}

func c16EncActions(h uint64, r uint32, ph, pvt, pvs, pct, pcs string) string {
	return fmt.Sprintf("h=%d r=%d ph={%s} pvt=%x pvs=%x pct=%x pcs=%x", h, r, ph, pvt, pvs, pct, pcs)
}

var c16ZeroPH = c16EncPH(tmconsensus.ProposedHeader{})

func init() {
	c16Specs["action"] = &c16Spec{
		name:    "action",
		kinds:   []string{"a.ph", "a.ph", "a.pv", "a.pv", "a.pv", "a.pc", "a.pc", "a.pc", "a.ld", "a.ld", "a.ld"},
		refuses: true,
		norm: func(op c16Op) (c16Op, bool) {
			op = c16NormHR(op)
			if op.K == "a.ph" && op.H == 0 {
				return op, false
			}
			return op, true
		},
		part: func(op c16Op) string { return fmt.Sprintf("%d/%d", op.H, op.R) },
		init: func() any { return c16ActState{} },
		step: func(st any, op c16Op, out c16Out) (bool, string, any) {
			s := st.(c16ActState)
			switch op.K {
			case "a.ph":
				if s.HasPH {
					ok, why := c16Want(out, c16Out{E: "DoubleAction:proposed block"})
					return ok, why, s
				}
				s.HasPH, s.PH = true, c16MPH(op.H, op.R, op.A, op.B, op.D)
				ok, why := c16Want(out, c16Out{})
				return ok, why, s
			case "a.pv", "a.pc":
				typ := "prevote"
				has := s.HasPV
				if op.K == "a.pc" {
					typ, has = "precommit", s.HasPC
				}
				k := c16KeyHex(op.B)
				var allowed []string
				if has {
					allowed = append(allowed, "DoubleAction:"+typ)
				}
				if s.Key != "" && s.Key != k {
					allowed = append(allowed, fmt.Sprintf("PubKeyChanged:%s:%s:%s", typ, s.Key, k))
				}
				if len(allowed) > 0 {
					if out.V != "" || !c16OneOf(out.E, allowed) {
						return false, fmt.Sprintf("store returned %v, model expects a refusal out of %q", out, allowed), s
					}
					return true, "", s
				}
				vt := c16VoteTarget(op.H, op.R, op.A)
				sig := string(c16VoteSig(typ, op.H, op.R, op.A, op.B, op.C))
				if op.K == "a.pv" {
					s.HasPV, s.PVT, s.PVS = true, vt.BlockHash, sig
				} else {
					s.HasPC, s.PCT, s.PCS = true, vt.BlockHash, sig
				}
				s.Key = k
				ok, why := c16Want(out, c16Out{})
				return ok, why, s
			case "a.ld":
				if !s.HasPH && !s.HasPV && !s.HasPC {
					ok, why := c16Want(out, c16Out{E: fmt.Sprintf("RoundUnknown:%d:%d", op.H, op.R)})
					return ok, why, s
				}
				ph := c16ZeroPH
				if s.HasPH {
					ph = s.PH
				}
				want := c16Out{V: c16EncActions(op.H, op.R, ph, s.PVT, s.PVS, s.PCT, s.PCS)}
				if s.Key != "" {
					want.X = "ed25519:" + s.Key
				} else {
					want.X = out.X // unspecified before the first vote
				}
				ok, why := c16Want(out, want)
				return ok, why, s
			}
			return false, "unknown op kind " + op.K, s
		},
		open: func() c16Exec {
			var s tmstore.ActionStore = tmmemstore.NewActionStore()
			return func(op c16Op) (c16Out, func() c16Out) {
				switch op.K {
				case "a.ph":
					return c16Out{E: c16Classify(s.SaveProposedHeaderAction(c16bg, c16PH(op.H, op.R, op.A, op.B, op.D)))}, nil
				case "a.pv":
					err := s.SavePrevoteAction(c16bg, c16PubKey(op.B), c16VoteTarget(op.H, op.R, op.A), c16VoteSig("prevote", op.H, op.R, op.A, op.B, op.C))
					return c16Out{E: c16Classify(err)}, nil
				case "a.pc":
					err := s.SavePrecommitAction(c16bg, c16PubKey(op.B), c16VoteTarget(op.H, op.R, op.A), c16VoteSig("precommit", op.H, op.R, op.A, op.B, op.C))
					return c16Out{E: c16Classify(err)}, nil
				default:
					ra, err := s.LoadActions(c16bg, op.H, op.R)
					if err != nil {
						return c16Out{E: c16Classify(err)}, nil
					}
					enc := func() c16Out {
						return c16Out{
							V: c16EncActions(ra.Height, ra.Round, c16EncPH(ra.ProposedHeader), ra.PrevoteTarget, ra.PrevoteSignature, ra.PrecommitTarget, ra.PrecommitSignature),
							X: c16EncKey(ra.PubKey),
						}
					}
					return enc(), enc
				}
			}
		},
		role: func(op c16Op, out c16Out) (string, []string) {
			k := []string{fmt.Sprintf("%d/%d", op.H, op.R)}
			if op.K == "a.ld" {
				return "read", k
			}
			if out.E != "" {
				return "refused", k
			}
			return "write", k
		},
	}
}

// ---------------------------------------------------------------------------
// RoundStore (partition: height)
//
// Contract: SaveRoundProposedHeader refuses (OverwriteError pubkey) the same
// proposer saving the same header hash again in a round; two proposers may
// save an identical header. SaveRoundReplayedHeader refuses (OverwriteError
// hash) when a proposed header with that hash exists at the height. The two
// Overwrite*Proofs methods replace. LoadRoundState returns the proposed
// headers in undefined order, replayed headers as ProposedHeader values
// without proposer/signature once precommits naming their hash were saved for
// the round (compliance: nothing is asserted about them before that), the
// last prevote / precommit collections, and RoundUnknownError iff there is no
// proposed header and no vote.
// Left open by doc + compliance and therefore tolerated, not flagged:
//   - a replayed header saved twice (refused or kept once or twice);
//   - a replayed header of the height showing up in rounds whose precommits do
//     not name it; the Round field of such an entry;
//   - collections without any signature (nil or empty map, or targets with no
//     signature): RoundUnknownError or nil error; PubKeyHash of such a collection;
//   - the order of signatures inside one target.
// Domain assumptions: ProposerPubKey non-nil (the mirror validates it before
// saving); one hash = one header content.

type c16RndState struct {
	Saved [c16MaxR + 1]uint16 // bit a*3+p: proposed header variant a by proposer p saved in the round
	Var   [c16MaxR + 1]uint16 // same bit: annotation/signature variant d that was saved first
	Rep   uint8               // bit a: replayed header variant a saved
	PV    [c16MaxR + 1]uint8  // 0 = never overwritten, else 1 + collection variant
	PC    [c16MaxR + 1]uint8
}

func init() {
	c16Specs["round"] = &c16Spec{
		name:    "round",
		kinds:   []string{"r.ph", "r.ph", "r.ph", "r.rh", "r.rh", "r.pv", "r.pv", "r.pc", "r.pc", "r.pc", "r.ld", "r.ld", "r.ld", "r.ld"},
		refuses: true,
		norm: func(op c16Op) (c16Op, bool) {
			op = c16NormHR(op)
			op.A, op.B, op.C, op.D = c16mod(op.A, c16NHdr), c16mod(op.B, c16NKey), c16mod(op.C, c16NColl), c16mod(op.D, 2)
			return op, true
		},
		part: func(op c16Op) string { return fmt.Sprintf("%d", op.H) },
		init: func() any { return c16RndState{} },
		step: func(st any, op c16Op, out c16Out) (bool, string, any) {
			s := st.(c16RndState)
			switch op.K {
			case "r.ph":
				bit := uint16(1) << uint(op.A*3+op.B)
				if s.Saved[op.R]&bit != 0 {
					ok, why := c16Want(out, c16Out{E: "Overwrite:pubkey:" + c16KeyHex(op.B)})
					return ok, why, s
				}
				s.Saved[op.R] |= bit
				if op.D == 1 {
					s.Var[op.R] |= bit
				}
				ok, why := c16Want(out, c16Out{})
				return ok, why, s
			case "r.rh":
				refuse := "Overwrite:hash:" + c16X(c16Hash(op.H, op.A))
				for r := range s.Saved {
					if s.Saved[r]&(uint16(7)<<uint(op.A*3)) != 0 {
						ok, why := c16Want(out, c16Out{E: refuse})
						return ok, why, s
					}
				}
				if s.Rep&(1<<uint(op.A)) != 0 {
					// second save of the same replayed header: unspecified
					if out.E != "" && out.E != refuse {
						return false, fmt.Sprintf("store returned %v for a repeated replayed header, model expects nil or %q", out, refuse), s
					}
					return true, "", s
				}
				s.Rep |= 1 << uint(op.A)
				ok, why := c16Want(out, c16Out{})
				return ok, why, s
			case "r.pv":
				s.PV[op.R] = uint8(1 + op.C)
				ok, why := c16Want(out, c16Out{})
				return ok, why, s
			case "r.pc":
				s.PC[op.R] = uint8(1 + op.C)
				ok, why := c16Want(out, c16Out{})
				return ok, why, s
			case "r.ld":
				var wantPH []string
				for a := 0; a < c16NHdr; a++ {
					for p := 0; p < c16NKey; p++ {
						bit := uint16(1) << uint(a*3+p)
						if s.Saved[op.R]&bit != 0 {
							d := 0
							if s.Var[op.R]&bit != 0 {
								d = 1
							}
							wantPH = append(wantPH, "ph:"+c16MPH(op.H, op.R, a, p, d))
						}
					}
				}
				sort.Strings(wantPH)
				reqRep, optRep := map[string]bool{}, map[string]bool{}
				for a := 0; a < c16NHdr; a++ {
					if s.Rep&(1<<uint(a)) == 0 {
						continue
					}
					e := "rep:" + c16MHeader(op.H, a)
					optRep[e] = true
					if s.PC[op.R] != 0 && c16CollHasVotesFor(int(s.PC[op.R])-1, a) {
						reqRep[e] = true
					}
				}
				pv, pc := "empty", "empty"
				votes := 0
				if s.PV[op.R] != 0 {
					pv = c16MColl(false, op.H, op.R, int(s.PV[op.R])-1)
					votes += c16CollSigCount(int(s.PV[op.R]) - 1)
				}
				if s.PC[op.R] != 0 {
					pc = c16MColl(true, op.H, op.R, int(s.PC[op.R])-1)
					votes += c16CollSigCount(int(s.PC[op.R]) - 1)
				}
				known := len(wantPH) > 0 || len(reqRep) > 0 || votes > 0
				maybe := s.PV[op.R] != 0 || s.PC[op.R] != 0 || len(optRep) > 0
				unknown := fmt.Sprintf("RoundUnknown:%d:%d", op.H, op.R)
				if out.E == unknown {
					if known {
						return false, fmt.Sprintf("store returned %s although the model holds proposed=%d replayed=%d signatures=%d for the round", unknown, len(wantPH), len(reqRep), votes), s
					}
					return true, "", s
				}
				if out.E != "" {
					return false, fmt.Sprintf("store returned unexpected error %q", out.E), s
				}
				if !known && !maybe {
					return false, fmt.Sprintf("store returned nil error and %v, model expects %s (nothing was ever saved for the round)", out, unknown), s
				}
				var gotPH []string
				gotRep := map[string]bool{}
				for _, e := range out.L {
					if strings.HasPrefix(e, "rep:") {
						gotRep[e] = true
					} else {
						gotPH = append(gotPH, e)
					}
				}
				sort.Strings(gotPH)
				if strings.Join(gotPH, "\n") != strings.Join(wantPH, "\n") {
					return false, fmt.Sprintf("proposed headers differ:\n got  %q\n want %q", gotPH, wantPH), s
				}
				for e := range reqRep {
					if !gotRep[e] {
						return false, fmt.Sprintf("replayed header with precommits in the round missing from LoadRoundState: %s", e), s
					}
				}
				for e := range gotRep {
					if !optRep[e] {
						return false, fmt.Sprintf("LoadRoundState returned a header without proposer that was never saved as replayed header: %s", e), s
					}
				}
				if out.X != pv {
					return false, fmt.Sprintf("prevotes differ: got %q want %q", out.X, pv), s
				}
				if out.Y != pc {
					return false, fmt.Sprintf("precommits differ: got %q want %q", out.Y, pc), s
				}
				return true, "", s
			}
			return false, "unknown op kind " + op.K, s
		},
		open: func() c16Exec {
			var s tmstore.RoundStore = tmmemstore.NewRoundStore()
			return func(op c16Op) (c16Out, func() c16Out) {
				switch op.K {
				case "r.ph":
					return c16Out{E: c16Classify(s.SaveRoundProposedHeader(c16bg, c16PH(op.H, op.R, op.A, op.B, op.D)))}, nil
				case "r.rh":
					return c16Out{E: c16Classify(s.SaveRoundReplayedHeader(c16bg, c16Header(op.H, op.A)))}, nil
				case "r.pv":
					return c16Out{E: c16Classify(s.OverwriteRoundPrevoteProofs(c16bg, op.H, op.R, c16Coll("prevote", op.H, op.R, op.C)))}, nil
				case "r.pc":
					return c16Out{E: c16Classify(s.OverwriteRoundPrecommitProofs(c16bg, op.H, op.R, c16Coll("precommit", op.H, op.R, op.C)))}, nil
				default:
					phs, pv, pc, err := s.LoadRoundState(c16bg, op.H, op.R)
					if err != nil {
						return c16Out{E: c16Classify(err)}, nil
					}
					enc := func() c16Out {
						o := c16Out{X: c16EncColl(pv), Y: c16EncColl(pc)}
						for _, ph := range phs {
							if ph.ProposerPubKey == nil {
								o.L = append(o.L, "rep:"+c16EncHeader(ph.Header))
							} else {
								o.L = append(o.L, "ph:"+c16EncPH(ph))
							}
						}
						sort.Strings(o.L)
						return o
					}
					return enc(), enc
				}
			}
		},
		role: func(op c16Op, out c16Out) (string, []string) {
			switch op.K {
			case "r.ld":
				return "read", []string{fmt.Sprintf("%d/%d", op.H, op.R), fmt.Sprintf("%d/*", op.H)}
			case "r.rh":
				if out.E != "" {
					return "refused", []string{fmt.Sprintf("%d/*", op.H)}
				}
				return "write", []string{fmt.Sprintf("%d/*", op.H)}
			}
			if out.E != "" {
				return "refused", []string{fmt.Sprintf("%d/%d", op.H, op.R)}
			}
			return "write", []string{fmt.Sprintf("%d/%d", op.H, op.R)}
		},
	}
}

// ---------------------------------------------------------------------------
// FinalizationStore and CommittedHeaderStore (partition: height)
//
// Finalization: a second save for a height is refused with
// FinalizationOverwriteError whatever its content and the original stays;
// unknown height = HeightUnknownError. Committed header: no refusal is
// documented; the property statement asks for "the latest completed save".

type c16SlotState struct {
	Saved bool
	V     string
}

func c16EncFin(r uint32, hash string, vs tmconsensus.ValidatorSet, ash string) string {
	return fmt.Sprintf("r=%d hash=%x vs={%s} ash=%x", r, hash, c16EncValSet(vs), ash)
}

func init() {
	heightPart := func(op c16Op) string { return fmt.Sprintf("%d", op.H) }
	heightKey := func(op c16Op) []string { return []string{fmt.Sprintf("%d", op.H)} }

	c16Specs["finalization"] = &c16Spec{
		name:    "finalization",
		kinds:   []string{"f.sv", "f.ld"},
		refuses: true,
		norm:    func(op c16Op) (c16Op, bool) { return c16NormHR(op), true },
		part:    heightPart,
		init:    func() any { return c16SlotState{} },
		step: func(st any, op c16Op, out c16Out) (bool, string, any) {
			s := st.(c16SlotState)
			if op.K == "f.sv" {
				if s.Saved {
					ok, why := c16Want(out, c16Out{E: fmt.Sprintf("FinOverwrite:%d", op.H)})
					return ok, why, s
				}
				s = c16SlotState{Saved: true, V: c16MFin(op.H, op.R, op.A, op.B, op.C)}
				ok, why := c16Want(out, c16Out{})
				return ok, why, s
			}
			if !s.Saved {
				ok, why := c16Want(out, c16Out{E: fmt.Sprintf("HeightUnknown:%d", op.H)})
				return ok, why, s
			}
			ok, why := c16Want(out, c16Out{V: s.V})
			return ok, why, s
		},
		open: func() c16Exec {
			var s tmstore.FinalizationStore = tmmemstore.NewFinalizationStore()
			return func(op c16Op) (c16Out, func() c16Out) {
				if op.K == "f.sv" {
					err := s.SaveFinalization(c16bg, op.H, op.R, string(c16Hash(op.H, op.A)), c16ValSet(op.B), fmt.Sprintf("ash-%d", c16mod(op.C, 3)))
					return c16Out{E: c16Classify(err)}, nil
				}
				r, hash, vs, ash, err := s.LoadFinalizationByHeight(c16bg, op.H)
				if err != nil {
					return c16Out{E: c16Classify(err)}, nil
				}
				enc := func() c16Out { return c16Out{V: c16EncFin(r, hash, vs, ash)} }
				return enc(), enc
			}
		},
		role: func(op c16Op, out c16Out) (string, []string) {
			if op.K == "f.ld" {
				return "read", heightKey(op)
			}
			if out.E != "" {
				return "refused", heightKey(op)
			}
			return "write", heightKey(op)
		},
	}

	c16Specs["committedheader"] = &c16Spec{
		name:  "committedheader",
		kinds: []string{"c.sv", "c.ld"},
		norm:  func(op c16Op) (c16Op, bool) { return c16NormHR(op), true },
		part:  heightPart,
		init:  func() any { return c16SlotState{} },
		step: func(st any, op c16Op, out c16Out) (bool, string, any) {
			s := st.(c16SlotState)
			if op.K == "c.sv" {
				s = c16SlotState{Saved: true, V: c16MCH(op.H, op.A, op.B)}
				ok, why := c16Want(out, c16Out{})
				return ok, why, s
			}
			if !s.Saved {
				ok, why := c16Want(out, c16Out{E: fmt.Sprintf("HeightUnknown:%d", op.H)})
				return ok, why, s
			}
			ok, why := c16Want(out, c16Out{V: s.V})
			return ok, why, s
		},
		open: func() c16Exec {
			var s tmstore.CommittedHeaderStore = tmmemstore.NewCommittedHeaderStore()
			return func(op c16Op) (c16Out, func() c16Out) {
				if op.K == "c.sv" {
					err := s.SaveCommittedHeader(c16bg, tmconsensus.CommittedHeader{Header: c16Header(op.H, op.A), Proof: c16CommitProof(op.H, op.B)})
					return c16Out{E: c16Classify(err)}, nil
				}
				ch, err := s.LoadCommittedHeader(c16bg, op.H)
				if err != nil {
					return c16Out{E: c16Classify(err)}, nil
				}
				enc := func() c16Out { return c16Out{V: c16EncCH(ch)} }
				return enc(), enc
			}
		},
		role: func(op c16Op, out c16Out) (string, []string) {
			if op.K == "c.ld" {
				return "read", heightKey(op)
			}
			return "write", heightKey(op)
		},
	}
}

// ---------------------------------------------------------------------------
// MirrorStore and StateMachineStore (single register each)
//
// ErrStoreUninitialized before the first Set, afterwards the last values set.
// Tolerated (doc: "need a corresponding Save call before a call to Load is
// valid"; memstore uses height 0 as "unset"; compliance silent; no caller uses
// a voting height 0): after Set(height 0, ...) either answer is accepted.

type c16RegState struct {
	Set        bool
	VH, CH     uint64
	VR, CR     uint32
}

func init() {
	one := func(c16Op) string { return "" }
	oneKey := []string{""}
	regStep := func(setK string, four bool) func(st any, op c16Op, out c16Out) (bool, string, any) {
		return func(st any, op c16Op, out c16Out) (bool, string, any) {
			s := st.(c16RegState)
			if op.K == setK {
				s = c16RegState{Set: true, VH: op.H, VR: op.R}
				if four {
					s.CH, s.CR = uint64(c16mod(op.A, c16MaxH+1)), uint32(c16mod(op.B, c16MaxR+1))
				}
				ok, why := c16Want(out, c16Out{})
				return ok, why, s
			}
			if !s.Set {
				ok, why := c16Want(out, c16Out{E: "Uninit"})
				return ok, why, s
			}
			want := c16Out{V: fmt.Sprintf("%d/%d", s.VH, s.VR)}
			if four {
				want.V = fmt.Sprintf("%d/%d/%d/%d", s.VH, s.VR, s.CH, s.CR)
			}
			if s.VH == 0 && out.E == "Uninit" && out.V == "" {
				return true, "", s
			}
			ok, why := c16Want(out, want)
			return ok, why, s
		}
	}
	regRole := func(getK string) func(op c16Op, out c16Out) (string, []string) {
		return func(op c16Op, out c16Out) (string, []string) {
			if op.K == getK {
				return "read", oneKey
			}
			return "write", oneKey
		}
	}

	c16Specs["mirror"] = &c16Spec{
		name:  "mirror",
		kinds: []string{"m.set", "m.get"},
		norm:  func(op c16Op) (c16Op, bool) { return c16NormHR(op), true },
		part:  one,
		init:  func() any { return c16RegState{} },
		step:  regStep("m.set", true),
		open: func() c16Exec {
			var s tmstore.MirrorStore = tmmemstore.NewMirrorStore()
			return func(op c16Op) (c16Out, func() c16Out) {
				if op.K == "m.set" {
					err := s.SetNetworkHeightRound(c16bg, op.H, op.R, uint64(c16mod(op.A, c16MaxH+1)), uint32(c16mod(op.B, c16MaxR+1)))
					return c16Out{E: c16Classify(err)}, nil
				}
				vh, vr, ch, cr, err := s.NetworkHeightRound(c16bg)
				if err != nil {
					return c16Out{E: c16Classify(err)}, nil
				}
				return c16Out{V: fmt.Sprintf("%d/%d/%d/%d", vh, vr, ch, cr)}, nil
			}
		},
		role: regRole("m.get"),
	}

	c16Specs["statemachine"] = &c16Spec{
		name:  "statemachine",
		kinds: []string{"s.set", "s.get"},
		norm:  func(op c16Op) (c16Op, bool) { return c16NormHR(op), true },
		part:  one,
		init:  func() any { return c16RegState{} },
		step:  regStep("s.set", false),
		open: func() c16Exec {
			var s tmstore.StateMachineStore = tmmemstore.NewStateMachineStore()
			return func(op c16Op) (c16Out, func() c16Out) {
				if op.K == "s.set" {
					return c16Out{E: c16Classify(s.SetStateMachineHeightRound(c16bg, op.H, op.R))}, nil
				}
				h, r, err := s.StateMachineHeightRound(c16bg)
				if err != nil {
					return c16Out{E: c16Classify(err)}, nil
				}
				return c16Out{V: fmt.Sprintf("%d/%d", h, r)}, nil
			}
		},
		role: regRole("s.get"),
	}
}

// ---------------------------------------------------------------------------
// ValidatorStore (one partition: LoadValidators reads both maps)
//
// Save* returns the hash (also together with the *AlreadyExistError on a
// repeated save); Load* returns exactly the saved list for a hash or
// No*HashError; LoadValidators joins both missing-hash errors, or reports
// PubKeyPowerCountMismatchError, or zips keys and powers.
// The hash returned by a save and the hash of everything loaded are
// recomputed with c16PubKeyHash / c16PowHash (independent of the store).
// Load selectors: 0..5 hash of that list, 6..11 hash of a list of the OTHER
// kind (a power hash asked from the key map and vice versa), 12 garbage, 13 "".

type c16ValState struct{ K, P uint8 }

const c16NSel = 14

func c16SelHash(keysWanted bool, sel int) (hash string, idx int) {
	sel = c16mod(sel, c16NSel)
	switch {
	case sel < 6:
		if keysWanted {
			return c16KeyListHash[sel], sel
		}
		return c16PowListHash[sel], sel
	case sel < 12:
		if keysWanted {
			return c16PowListHash[sel-6], -1
		}
		return c16KeyListHash[sel-6], -1
	case sel == 12:
		return "no-such-hash", -1
	}
	return "", -1
}

func init() {
	c16Specs["validator"] = &c16Spec{
		name:    "validator",
		kinds:   []string{"v.sk", "v.sk", "v.sp", "v.sp", "v.lk", "v.lk", "v.lp", "v.lp", "v.lv", "v.lv", "v.lv"},
		refuses: true,
		norm: func(op c16Op) (c16Op, bool) {
			switch op.K {
			case "v.sk", "v.sp":
				op.A = c16mod(op.A, 6)
			default:
				op.A, op.B = c16mod(op.A, c16NSel), c16mod(op.B, c16NSel)
			}
			return op, true
		},
		part: func(c16Op) string { return "" },
		init: func() any { return c16ValState{} },
		step: func(st any, op c16Op, out c16Out) (bool, string, any) {
			s := st.(c16ValState)
			switch op.K {
			case "v.sk":
				h := c16X([]byte(c16KeyListHash[op.A]))
				if s.K&(1<<uint(op.A)) != 0 {
					ok, why := c16Want(out, c16Out{E: "PubKeysExist:" + h, V: h})
					return ok, why, s
				}
				s.K |= 1 << uint(op.A)
				ok, why := c16Want(out, c16Out{V: h})
				return ok, why, s
			case "v.sp":
				h := c16X([]byte(c16PowListHash[op.A]))
				if s.P&(1<<uint(op.A)) != 0 {
					ok, why := c16Want(out, c16Out{E: "PowersExist:" + h, V: h})
					return ok, why, s
				}
				s.P |= 1 << uint(op.A)
				ok, why := c16Want(out, c16Out{V: h})
				return ok, why, s
			case "v.lk":
				h, idx := c16SelHash(true, op.A)
				if idx < 0 || s.K&(1<<uint(idx)) == 0 {
					ok, why := c16Want(out, c16Out{E: "NoPubKeyHash:" + c16X([]byte(h))})
					return ok, why, s
				}
				ok, why := c16Want(out, c16Out{V: c16KeyListEnc[idx], X: c16X([]byte(h))})
				return ok, why, s
			case "v.lp":
				h, idx := c16SelHash(false, op.A)
				if idx < 0 || s.P&(1<<uint(idx)) == 0 {
					ok, why := c16Want(out, c16Out{E: "NoVotePowerHash:" + c16X([]byte(h))})
					return ok, why, s
				}
				ok, why := c16Want(out, c16Out{V: c16PowListEnc[idx], X: c16X([]byte(h))})
				return ok, why, s
			case "v.lv":
				kh, ki := c16SelHash(true, op.A)
				ph, pi := c16SelHash(false, op.B)
				var errs []string
				if ki < 0 || s.K&(1<<uint(ki)) == 0 {
					errs = append(errs, "NoPubKeyHash:"+c16X([]byte(kh)))
				}
				if pi < 0 || s.P&(1<<uint(pi)) == 0 {
					errs = append(errs, "NoVotePowerHash:"+c16X([]byte(ph)))
				}
				if len(errs) > 0 {
					ok, why := c16Want(out, c16Out{E: strings.Join(errs, "|")})
					return ok, why, s
				}
				if nk, np := len(c16KeyLists[ki]), len(c16PowLists[pi]); nk != np {
					ok, why := c16Want(out, c16Out{E: fmt.Sprintf("CountMismatch:%d:%d", nk, np)})
					return ok, why, s
				}
				ok, why := c16Want(out, c16Out{V: c16ValsEnc[ki][pi], X: c16X([]byte(kh)), Y: c16X([]byte(ph))})
				return ok, why, s
			}
			return false, "unknown op kind " + op.K, s
		},
		open: func() c16Exec {
			var s tmstore.ValidatorStore = tmmemstore.NewValidatorStore(tmconsensustest.SimpleHashScheme{})
			return func(op c16Op) (c16Out, func() c16Out) {
				switch op.K {
				case "v.sk":
					h, err := s.SavePubKeys(c16bg, c16Keys(op.A))
					return c16Out{E: c16Classify(err), V: c16X([]byte(h))}, nil
				case "v.sp":
					pows := c16Pows(op.A)
					h, err := s.SaveVotePowers(c16bg, pows)
					// the caller reuses its slice (the shipped store copies the powers on save;
					// for public keys it documents that it does not, so those are left alone)
					for i := range pows {
						pows[i] = ^pows[i]
					}
					return c16Out{E: c16Classify(err), V: c16X([]byte(h))}, nil
				case "v.lk":
					h, _ := c16SelHash(true, op.A)
					keys, err := s.LoadPubKeys(c16bg, h)
					if err != nil {
						return c16Out{E: c16Classify(err)}, nil
					}
					enc := func() c16Out { return c16Out{V: c16EncKeys(keys), X: c16X([]byte(c16PubKeyHash(keys)))} }
					return enc(), enc
				case "v.lp":
					h, _ := c16SelHash(false, op.A)
					pows, err := s.LoadVotePowers(c16bg, h)
					if err != nil {
						return c16Out{E: c16Classify(err)}, nil
					}
					enc := func() c16Out { return c16Out{V: c16EncPows(pows), X: c16X([]byte(c16PowHash(pows)))} }
					return enc(), enc
				default:
					kh, _ := c16SelHash(true, op.A)
					ph, _ := c16SelHash(false, op.B)
					vals, err := s.LoadValidators(c16bg, kh, ph)
					if err != nil {
						return c16Out{E: c16Classify(err)}, nil
					}
					enc := func() c16Out {
						return c16Out{
							V: c16EncVals(vals),
							X: c16X([]byte(c16PubKeyHash(tmconsensus.ValidatorsToPubKeys(vals)))),
							Y: c16X([]byte(c16PowHash(tmconsensus.ValidatorsToVotePowers(vals)))),
						}
					}
					return enc(), enc
				}
			}
		},
		role: func(op c16Op, out c16Out) (string, []string) {
			switch op.K {
			case "v.sk", "v.sp":
				k := []string{op.K[3:] + ":" + out.V}
				if out.E != "" {
					return "refused", k
				}
				return "write", k
			case "v.lk":
				h, _ := c16SelHash(true, op.A)
				return "read", []string{"k:" + c16X([]byte(h))}
			case "v.lp":
				h, _ := c16SelHash(false, op.A)
				return "read", []string{"p:" + c16X([]byte(h))}
			}
			kh, _ := c16SelHash(true, op.A)
			ph, _ := c16SelHash(false, op.B)
			return "read", []string{"k:" + c16X([]byte(kh)), "p:" + c16X([]byte(ph))}
		},
	}
}
