//go:build !race

package tmmemstore_test

const c16RaceBuild = false
