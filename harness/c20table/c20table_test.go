package tmlibp2p

// C20 (table part): the pubsub topic validator a Connection registers accepts a
// message for relay only if the consensus handler returned FeedbackAccepted for
// exactly that message. In-package so the unexported validator constructor,
// the default validator and the Connection struct are reachable.

import (
	"bytes"
	"context"
	"crypto/ed25519"
	"fmt"
	"io"
	"log/slog"
	"reflect"
	"testing"

	"github.com/gordian-engine/gordian/internal/zzverif/c20msg"
	"github.com/gordian-engine/gordian/internal/zzverif/vk"
	"github.com/gordian-engine/gordian/tm/tmcodec"
	"github.com/libp2p/go-libp2p"
	pubsub "github.com/libp2p/go-libp2p-pubsub"
	pubsubpb "github.com/libp2p/go-libp2p-pubsub/pb"
	"github.com/libp2p/go-libp2p/core/crypto"
	"github.com/libp2p/go-libp2p/core/peer"
)

// c20tCase is one call of the validator.
type c20tCase struct {
	// Variant: 0 = validator built for a recording handler,
	//          1 = what the connection registers for a nil handler (ignoreMessage),
	//          2 = validator constructor called with a nil handler.
	Variant int         `json:"variant"`
	F       uint8       `json:"f"`    // feedback value the handler returns for this message
	ID      uint64      `json:"id"`   // identifier carried by the message
	Spec    c20msg.Spec `json:"spec"` // content (ignored when Payload is set)
	Raw     bool        `json:"raw"`  // Payload is the wire content (possibly empty)
	Payload []byte      `json:"payload,omitempty"`
	Class   string      `json:"class,omitempty"`
}

type c20tEnv struct {
	conn  *Connection
	codec tmcodec.MarshalCodec
	src   peer.ID
	topic string
}

func c20tNewEnv(t *testing.T) *c20tEnv {
	ctx, cancel := context.WithCancel(context.Background())
	t.Cleanup(cancel)
	h, err := NewHost(ctx, HostOptions{Options: []libp2p.Option{libp2p.NoListenAddrs}})
	if err != nil {
		t.Fatalf("harness: NewHost: %v", err)
	}
	codec := c20msg.Codec()
	// Same fields NewConnection fills in that the validator reads; no network, no DHT.
	conn := &Connection{
		log:   slog.New(slog.NewTextHandler(io.Discard, nil)),
		codec: codec,
		h:     h,
	}
	t.Cleanup(func() { _ = h.Close() })
	seed := bytes.Repeat([]byte{0xC2}, ed25519.SeedSize)
	_, pub, err := crypto.GenerateEd25519Key(bytes.NewReader(seed))
	if err != nil {
		t.Fatalf("harness: key: %v", err)
	}
	src, err := peer.IDFromPublicKey(pub)
	if err != nil {
		t.Fatalf("harness: peer id: %v", err)
	}
	return &c20tEnv{conn: conn, codec: codec, src: src, topic: topicConsensus}
}

// c20tDecode is the harness' own view of "decodable": the connection's codec
// applied outside the validator. panicked is true when the codec itself panics
// on the payload (a codec defect, property C14, not C20).
func (e *c20tEnv) c20tDecode(b []byte) (cm tmcodec.ConsensusMessage, err error, panicked bool) {
	defer func() {
		if r := recover(); r != nil {
			panicked = true
		}
	}()
	err = e.codec.UnmarshalConsensusMessage(b, &cm)
	return cm, err, false
}

func c20tResName(r pubsub.ValidationResult) string {
	switch r {
	case pubsub.ValidationAccept:
		return "accept"
	case pubsub.ValidationReject:
		return "reject"
	case pubsub.ValidationIgnore:
		return "ignore"
	}
	return fmt.Sprintf("result(%d)", int(r))
}

// c20tRun performs one validator call and evaluates every clause.
func c20tRun(t vk.TB, st *vk.Stats, e *c20tEnv, c c20tCase) {
	data := c.Payload
	if c.Raw && data == nil {
		data = []byte{}
	}
	if !c.Raw {
		b, err := c20msg.Encode(e.codec, c.ID, c.Spec)
		if err != nil {
			t.Fatalf("harness: encode: %v", err)
		}
		data = b
	}
	want, derr, panicked := e.c20tDecode(data)
	if panicked {
		st.Label("skipped:codec-panics-on-payload(C14)")
		return
	}
	decodable := derr == nil
	wantKind := -1
	switch {
	case !decodable:
	case want.ProposedHeader != nil:
		wantKind = c20msg.KindPH
	case want.PrevoteProof != nil:
		wantKind = c20msg.KindPrevote
	case want.PrecommitProof != nil:
		wantKind = c20msg.KindPrecommit
	}

	log := new(c20msg.Log)
	var h *c20msg.Handler
	var val pubsub.ValidatorEx
	switch c.Variant {
	case 0:
		// The verdict for the kind under test is F; every other method of the
		// handler answers the opposite way, so a misdispatch flips the result.
		other := c20msg.Accepted
		if c.F == c20msg.Accepted {
			other = 2
		}
		h = &c20msg.Handler{Log: log, Keep: true, Verdict: func(k uint8, id uint64) uint8 {
			if int(k) == wantKind {
				return c.F
			}
			return other
		}}
		val = e.conn.libp2pConsensusMessageValidator(h)
	case 1:
		// background() registers ignoreMessage when no handler is installed
		// (initially and for SetConsensusHandler(nil)).
		val = ignoreMessage
	default:
		val = e.conn.libp2pConsensusMessageValidator(nil)
	}

	msg := &pubsub.Message{
		Message:      &pubsubpb.Message{Data: data, Topic: &e.topic, From: []byte(e.src)},
		ReceivedFrom: e.src,
	}
	res := val(context.Background(), e.src, msg)
	recs := log.Snapshot()
	st.Label("result:" + c20tResName(res))

	fail := func(clause, format string, args ...any) {
		st.Fail(t, c, "", clause, "variant=%d f=%d class=%q decodable=%v kind=%d result=%s invocations=%v: %s",
			c.Variant, c.F, c.Class, decodable, wantKind, c20tResName(res), recs, fmt.Sprintf(format, args...))
	}

	if res != pubsub.ValidationAccept && res != pubsub.ValidationReject && res != pubsub.ValidationIgnore {
		fail("result-defined", "validator returned a value outside accept/reject/ignore")
	}

	if c.Variant != 0 {
		if res == pubsub.ValidationAccept {
			fail("no-handler-not-relayed", "message accepted for relay although no handler is installed")
		}
		return
	}

	if wantKind < 0 {
		// undecodable, or decodable with no field set: nothing the handler could have accepted
		if len(recs) != 0 {
			fail("undecodable-not-handled", "handler invoked for a payload that does not decode to a consensus message")
		}
		if res == pubsub.ValidationAccept {
			fail("undecodable-not-relayed", "undecodable payload accepted for relay (decode error: %v)", derr)
		}
		return
	}

	// Decodable message, handler installed.
	accepted := false
	for _, r := range recs {
		if r.F == c20msg.Accepted && int(r.Kind) == wantKind {
			accepted = true
		}
	}
	if res == pubsub.ValidationAccept && !accepted {
		fail("relay-only-if-accepted", "accepted for relay without the handler having returned Accepted for this message")
	}
	if len(recs) != 1 || int(recs[0].Kind) != wantKind || recs[0].F != c.F {
		fail("handler-dispatch", "want exactly one invocation of the %s method", c20msg.KindName(uint8(wantKind)))
	}
	// the handler judged the very message that was on the wire
	var same bool
	switch wantKind {
	case c20msg.KindPH:
		same = h.LastPH != nil && reflect.DeepEqual(*h.LastPH, *want.ProposedHeader)
	case c20msg.KindPrevote:
		same = h.LastPrevote != nil && reflect.DeepEqual(*h.LastPrevote, *want.PrevoteProof)
	case c20msg.KindPrecommit:
		same = h.LastPrecommit != nil && reflect.DeepEqual(*h.LastPrecommit, *want.PrecommitProof)
	}
	if !same {
		fail("handler-argument", "handler was given a message different from the decoded payload")
	}
	switch {
	case c.F == c20msg.Accepted:
		if res != pubsub.ValidationAccept {
			fail("accepted-is-relayed", "handler accepted but the validator did not")
		}
	case c.F == 2 || c.F == 3 || c.F == 4:
		// rejected / ignored / reject-and-disconnect: anything but accept (checked above)
	default:
		// 0 and 5..255 are not Feedback values: treated as ignore
		if res != pubsub.ValidationIgnore {
			fail("out-of-range-is-ignore", "feedback value %d is out of range and must map to ignore", c.F)
		}
	}
}

const c20tRule = "exhaustive: 256 feedback values x 3 message kinds x {handler, registered-nil validator, constructor(nil)} with generated content; then -verif.n payloads that are not well-formed messages (random bytes, every-length prefixes, single byte edits, structural JSON variants) with an accept-everything handler; non-trivial = the handler verdict is not Accepted, no handler, or the payload is not a valid encoding; distinct = distinct (variant, f, payload)"

func TestVerifC20Table(t *testing.T) {
	st := vk.NewStats("C20", "TestVerifC20Table", c20tRule)
	defer st.Flush()
	e := c20tNewEnv(t)

	var rc c20tCase
	if ok, err := vk.LoadReplay("C20", "TestVerifC20Table", &rc); err != nil {
		t.Fatal(err)
	} else if ok {
		st.Case(true, vk.FP(rc))
		st.Guard(t, rc, func() { c20tRun(t, st, e, rc) })
		return
	} else if vk.Replaying() {
		t.Skip("replay file is for another test")
	}

	rng := vk.SplitMix64{S: vk.Seed()}
	id := uint64(1)
	one := func(c c20tCase, nontrivial bool, labels ...string) {
		if st.WantSample() {
			s := c
			if len(s.Payload) > 200 {
				s.Payload = s.Payload[:200]
			}
			st.Sample(s)
		}
		st.Case(nontrivial, vk.FPBytes([]byte{byte(c.Variant), c.F, c.Spec.Kind}, c.Payload, []byte(fmt.Sprint(c.Spec))), labels...)
		st.Guard(t, c, func() { c20tRun(t, st, e, c) })
	}

	// Part A: the finite space, exhaustively.
	for variant := 0; variant < 3; variant++ {
		for kind := uint8(0); kind < c20msg.NKinds; kind++ {
			for f := 0; f < 256; f++ {
				x := rng.Next()
				c := c20tCase{Variant: variant, F: uint8(f), ID: id,
					Spec: c20msg.Spec{Kind: kind, Round: uint32(x % 7), Salt: uint8(x >> 8), NSig: uint8(x >> 16)}}
				id++
				one(c, variant != 0 || uint8(f) != c20msg.Accepted,
					fmt.Sprintf("A:variant=%d", variant), "A:kind="+c20msg.KindName(kind))
			}
		}
	}

	// Part B: payloads that are not well-formed encodings.
	valid := make([][]byte, 0, 12)
	for k := uint8(0); k < c20msg.NKinds; k++ {
		for n := uint8(0); n < 4; n++ {
			b, err := c20msg.Encode(e.codec, 7000+uint64(k)*10+uint64(n), c20msg.Spec{Kind: k, Round: uint32(n), Salt: n * 37, NSig: n})
			if err != nil {
				t.Fatalf("harness: encode: %v", err)
			}
			valid = append(valid, b)
		}
	}
	structural := []string{"", " ", "{}", "null", "[]", "0", "\"x\"", "{", "}", "{\"ProposedHeader\":null}",
		"{\"ProposedHeader\":{}}", "{\"PrevoteProof\":{}}", "{\"PrecommitProof\":{}}", "{\"PrevoteProof\":[]}",
		"{\"PrevoteProof\":1}", "{\"ProposedHeader\":\"\"}", "{\"Unknown\":{}}", "\x00", "\xff\xfe", "{\"PrevoteProof\":{\"Height\":-1}}",
		"{\"PrevoteProof\":{\"Height\":1e99}}", "{\"PrecommitProof\":{\"Height\":\"1\"}}", "{\"PrevoteProof\":{\"Proofs\":{}}}"}
	N := vk.N(4000)
	for i := 0; i < N; i++ {
		x := rng.Next()
		var p []byte
		var class string
		v := valid[int(x>>3)%len(valid)]
		switch x % 8 {
		case 0:
			class = "random-bytes"
			p = make([]byte, int(x>>8)%64)
			for j := range p {
				p[j] = byte(rng.Next())
			}
		case 1, 2:
			class = "prefix"
			p = append([]byte{}, v[:int(x>>16)%len(v)]...)
		case 3, 4:
			class = "byte-replaced"
			p = append([]byte{}, v...)
			p[int(x>>16)%len(p)] = byte(x >> 40)
		case 5:
			class = "byte-deleted"
			j := int(x>>16) % len(v)
			p = append(append([]byte{}, v[:j]...), v[j+1:]...)
		case 6:
			class = "structural"
			p = []byte(structural[int(x>>8)%len(structural)])
		default:
			class = "two-concatenated"
			w := valid[int(x>>24)%len(valid)]
			p = append(append([]byte{}, v...), w...)
		}
		variant := 0
		if x>>60 == 0 {
			variant = 1 + int(x>>59)&1
		}
		_, derr, _ := e.c20tDecode(p)
		dl := "B:decodes"
		if derr != nil {
			dl = "B:decode-error"
		}
		one(c20tCase{Variant: variant, F: c20msg.Accepted, Raw: true, Payload: p, Class: class}, true, "B:"+class, dl)
	}
}
