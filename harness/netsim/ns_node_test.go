package tmengine_test

// netsim (C03): node assembly through the public tmengine.New options,
// the lock-respecting harness strategy, the deterministic driver application,
// and the ConsensusBroadcaster that feeds the harness-owned network.

import (
	"context"
	"fmt"
	"log/slog"
	"os"
	"strings"
	"sync"
	"sync/atomic"
	"time"

	"github.com/gordian-engine/gordian/gcrypto"
	"github.com/gordian-engine/gordian/gwatchdog"
	"github.com/gordian-engine/gordian/tm/tmconsensus"
	"github.com/gordian-engine/gordian/tm/tmdriver"
	"github.com/gordian-engine/gordian/tm/tmengine"
	"github.com/gordian-engine/gordian/tm/tmgossip"
	"github.com/gordian-engine/gordian/tm/tmstore/tmmemstore"
)

// nsErrHandler keeps the ERROR-level messages of one node (the state machine
// announces its silent exits there) and discards everything else.
type nsErrHandler struct{ n *nsNode }

func (h nsErrHandler) Enabled(_ context.Context, l slog.Level) bool { return l >= slog.LevelError }
func (h nsErrHandler) Handle(_ context.Context, r slog.Record) error {
	h.n.mu.Lock()
	h.n.errLogs = append(h.n.errLogs, r.Message)
	h.n.mu.Unlock()
	return nil
}
func (h nsErrHandler) WithAttrs([]slog.Attr) slog.Handler { return h }
func (h nsErrHandler) WithGroup(string) slog.Handler      { return h }

func (n *nsNode) logger() *slog.Logger {
	if os.Getenv("NS_LOG") != "" {
		return nsLog.With("node", n.idx, "inc", n.incarnation)
	}
	return slog.New(nsErrHandler{n})
}

var nsLog = func() *slog.Logger {
	if os.Getenv("NS_LOG") != "" {
		return slog.New(slog.NewTextHandler(os.Stderr, &slog.HandlerOptions{Level: slog.LevelDebug}))
	}
	return slog.New(slog.DiscardHandler)
}()

// nsFin is one FinalizeBlockRequest observed by a node's driver.
type nsFin struct {
	Seq         int
	H           uint64
	R           uint32
	Hash        string
	DataID      string
	Incarnation int
	FirstOfInc  bool // first request of its incarnation
	checked     bool
}

// nsLock is the strategy's persistent lock (survives restarts of its node:
// the property is about a lock-respecting strategy, so the harness strategy
// keeps its lock in storage owned by the node, not by the engine instance).
type nsLock struct {
	H    uint64
	R    uint32
	Hash string
}

type nsOutMsg struct {
	kind int
	ph   tmconsensus.ProposedHeader
	pv   tmconsensus.PrevoteSparseProof
	pc   tmconsensus.PrecommitSparseProof
}

type nsNode struct {
	w      *nsWorld
	x      *nsExec
	idx    int // node index
	valIdx int // validator index
	signer gcrypto.Ed25519Signer

	// Stores survive restarts.
	as  *tmmemstore.ActionStore
	chs *tmmemstore.CommittedHeaderStore
	fs  *tmmemstore.FinalizationStore
	ms  *tmmemstore.MirrorStore
	rs  *tmmemstore.RoundStore
	sms *tmmemstore.StateMachineStore
	vs  *tmmemstore.ValidatorStore

	mu sync.Mutex // guards the observation fields below

	lock nsLock

	// Observations.
	fins        []nsFin
	enterH      uint64 // last EnterRound seen (this incarnation)
	enterR      uint32
	maxRound    uint32
	lockCarried bool
	outbox      []nsOutMsg
	stratCalls  int64
	errLogs     []string

	incarnation int
	finsThisInc int
	nextFin     uint64
	lastFinHash string

	// Per incarnation.
	ctx    context.Context
	cancel context.CancelFunc
	eng    *tmengine.Engine
	wd     *gwatchdog.Watchdog
	gs     *tmgossip.ChattyStrategy
	bgDone sync.WaitGroup
	alive  bool
}

func nsNewNode(w *nsWorld, idx int) *nsNode {
	vi := w.correct[idx]
	return &nsNode{
		w: w, idx: idx, valIdx: vi, signer: w.signers[vi],
		as:      tmmemstore.NewActionStore(),
		chs:     tmmemstore.NewCommittedHeaderStore(),
		fs:      tmmemstore.NewFinalizationStore(),
		ms:      tmmemstore.NewMirrorStore(),
		rs:      tmmemstore.NewRoundStore(),
		sms:     tmmemstore.NewStateMachineStore(),
		vs:      tmmemstore.NewValidatorStore(w.hs),
		nextFin: w.c.H0,
	}
}

// ---------------------------------------------------------------------------
// Broadcaster: every outgoing message goes to the node's outbox; the
// interpreter moves outboxes into the network at quiescence points, in node
// order, so the pending list does not depend on goroutine scheduling.

type nsBroadcaster struct {
	ph chan tmconsensus.ProposedHeader
	pv chan tmconsensus.PrevoteSparseProof
	pc chan tmconsensus.PrecommitSparseProof
}

func (b *nsBroadcaster) OutgoingProposedHeaders() chan<- tmconsensus.ProposedHeader { return b.ph }
func (b *nsBroadcaster) OutgoingPrevoteProofs() chan<- tmconsensus.PrevoteSparseProof {
	return b.pv
}
func (b *nsBroadcaster) OutgoingPrecommitProofs() chan<- tmconsensus.PrecommitSparseProof {
	return b.pc
}

func (n *nsNode) runBroadcaster(ctx context.Context, b *nsBroadcaster) {
	defer n.bgDone.Done()
	for {
		select {
		case <-ctx.Done():
			return
		case m := <-b.ph:
			n.mu.Lock()
			n.outbox = append(n.outbox, nsOutMsg{kind: nsKindPH, ph: m})
			n.mu.Unlock()
		case m := <-b.pv:
			n.mu.Lock()
			n.outbox = append(n.outbox, nsOutMsg{kind: nsKindPrevote, pv: m.Clone()})
			n.mu.Unlock()
		case m := <-b.pc:
			n.mu.Lock()
			n.outbox = append(n.outbox, nsOutMsg{kind: nsKindPrecommit, pc: m.Clone()})
			n.mu.Unlock()
		}
	}
}

// ---------------------------------------------------------------------------
// Driver application.

func (n *nsNode) runDriver(ctx context.Context, initCh <-chan tmdriver.InitChainRequest, finCh <-chan tmdriver.FinalizeBlockRequest) {
	defer n.bgDone.Done()
	for {
		select {
		case <-ctx.Done():
			return
		case req, ok := <-initCh:
			if !ok {
				initCh = nil // chain already initialized: the engine closes the channel
				continue
			}
			select {
			case req.Resp <- tmdriver.InitChainResponse{AppStateHash: nsGenesisAppHash}:
			case <-ctx.Done():
				return
			}
		case req := <-finCh:
			h := req.Header.Height
			n.mu.Lock()
			n.fins = append(n.fins, nsFin{
				Seq: len(n.fins), H: h, R: req.Round, Hash: string(req.Header.Hash),
				DataID: string(req.Header.DataID), Incarnation: n.incarnation,
				FirstOfInc: n.finsThisInc == 0,
			})
			n.finsThisInc++
			n.mu.Unlock()
			// Resp is 1-buffered by contract.
			req.Resp <- tmdriver.FinalizeBlockResponse{
				Height: h, Round: req.Round, BlockHash: req.Header.Hash,
				Validators:   n.w.valsFor(h + 2).Validators,
				AppStateHash: nsAppHash(h, req.Header.DataID),
			}
		}
	}
}

// ---------------------------------------------------------------------------
// Strategy.

type nsStrategy struct {
	n *nsNode

	mu      sync.Mutex
	curH    uint64
	curR    uint32
	expProp gcrypto.PubKey
}

func (s *nsStrategy) EnterRound(ctx context.Context, rv tmconsensus.RoundView, proposalOut chan<- tmconsensus.Proposal) error {
	s.mu.Lock()
	defer s.mu.Unlock()
	atomic.AddInt64(&s.n.stratCalls, 1)
	s.curH, s.curR = rv.Height, rv.Round
	nv := len(rv.ValidatorSet.Validators)
	s.expProp = rv.ValidatorSet.Validators[nsProposerIdx(rv.Height, rv.Round, nv)].PubKey

	n := s.n
	n.mu.Lock()
	n.enterH, n.enterR = rv.Height, rv.Round
	if rv.Round > n.maxRound {
		n.maxRound = rv.Round
	}
	if n.lock.Hash != "" && n.lock.H != rv.Height {
		n.lock = nsLock{} // a lock is per height
	}
	if n.lock.Hash != "" && rv.Round > n.lock.R {
		n.lockCarried = true
	}
	n.mu.Unlock()

	if proposalOut != nil && s.expProp.Equal(n.signer.PubKey()) {
		select {
		case proposalOut <- tmconsensus.Proposal{DataID: nsDataID(rv.Height, rv.Round, 0)}:
		default:
		}
	}
	return nil
}

func (s *nsStrategy) pick(phs []tmconsensus.ProposedHeader) (string, bool) {
	s.n.mu.Lock()
	lk := s.n.lock
	s.n.mu.Unlock()
	if lk.Hash != "" && lk.H == s.curH {
		return lk.Hash, true // locked: prevote the locked block
	}
	for _, ph := range phs {
		if ph.ProposerPubKey == nil || !ph.ProposerPubKey.Equal(s.expProp) {
			continue
		}
		if ph.Header.Height != s.curH || ph.Round != s.curR {
			continue
		}
		if !nsValidDataID(s.curH, s.curR, ph.Header.DataID) {
			continue
		}
		return string(ph.Header.Hash), true
	}
	return "", false
}

func (s *nsStrategy) ConsiderProposedBlocks(ctx context.Context, phs []tmconsensus.ProposedHeader, _ tmconsensus.ConsiderProposedBlocksReason) (string, error) {
	s.mu.Lock()
	defer s.mu.Unlock()
	atomic.AddInt64(&s.n.stratCalls, 1)
	if h, ok := s.pick(phs); ok {
		return h, nil
	}
	return "", tmconsensus.ErrProposedBlockChoiceNotReady
}

func (s *nsStrategy) ChooseProposedBlock(ctx context.Context, phs []tmconsensus.ProposedHeader) (string, error) {
	s.mu.Lock()
	defer s.mu.Unlock()
	atomic.AddInt64(&s.n.stratCalls, 1)
	if h, ok := s.pick(phs); ok {
		return h, nil
	}
	return "", nil
}

func (s *nsStrategy) DecidePrecommit(ctx context.Context, vs tmconsensus.VoteSummary) (string, error) {
	s.mu.Lock()
	defer s.mu.Unlock()
	atomic.AddInt64(&s.n.stratCalls, 1)
	// Like every strategy in the repository, the threshold comes from the library.
	maj := tmconsensus.ByzantineMajority(vs.AvailablePower)
	best := ""
	for hash, pow := range vs.PrevoteBlockPower {
		if hash == "" || pow < maj {
			continue
		}
		if best == "" || hash < best {
			best = hash
		}
	}
	if best == "" {
		return "", nil
	}
	s.n.mu.Lock()
	s.n.lock = nsLock{H: s.curH, R: s.curR, Hash: best}
	s.n.mu.Unlock()
	return best, nil
}

// ---------------------------------------------------------------------------
// Engine life cycle.

func (n *nsNode) start(parent context.Context) error {
	ctx, cancel := context.WithCancel(parent)
	n.ctx, n.cancel = ctx, cancel
	wd, wctx := gwatchdog.NewNopWatchdog(ctx, nsLog)
	n.wd = wd

	bc := &nsBroadcaster{
		ph: make(chan tmconsensus.ProposedHeader),
		pv: make(chan tmconsensus.PrevoteSparseProof),
		pc: make(chan tmconsensus.PrecommitSparseProof),
	}
	initCh := make(chan tmdriver.InitChainRequest)
	finCh := make(chan tmdriver.FinalizeBlockRequest)
	n.bgDone.Add(2)
	go n.runBroadcaster(ctx, bc)
	go n.runDriver(ctx, initCh, finCh)

	n.gs = tmgossip.NewChattyStrategy(wctx, nsLog, bc)
	strat := &nsStrategy{n: n}

	n.mu.Lock()
	n.enterH, n.enterR = 0, 0
	n.mu.Unlock()

	e, err := tmengine.New(
		wctx, n.logger(),
		tmengine.WithActionStore(n.as),
		tmengine.WithCommittedHeaderStore(n.chs),
		tmengine.WithFinalizationStore(n.fs),
		tmengine.WithMirrorStore(n.ms),
		tmengine.WithRoundStore(n.rs),
		tmengine.WithStateMachineStore(n.sms),
		tmengine.WithValidatorStore(n.vs),

		tmengine.WithHashScheme(n.w.hs),
		tmengine.WithSignatureScheme(n.w.ss),
		tmengine.WithCommonMessageSignatureProofScheme(gcrypto.SimpleCommonMessageSignatureProofScheme{}),

		tmengine.WithGossipStrategy(n.gs),
		tmengine.WithConsensusStrategy(strat),

		tmengine.WithGenesis(&tmconsensus.ExternalGenesis{
			ChainID:             "netsim",
			InitialHeight:       n.w.c.H0,
			InitialAppState:     strings.NewReader(""),
			GenesisValidatorSet: n.w.gen,
		}),
		tmengine.WithTimeoutStrategy(wctx, nsTimeouts{x: n.x}),

		tmengine.WithBlockFinalizationChannel(finCh),
		tmengine.WithInitChainChannel(initCh),

		tmengine.WithSigner(tmconsensus.PassthroughSigner{Signer: n.signer, SignatureScheme: n.w.ss}),
		tmengine.WithWatchdog(wd),
	)
	if err != nil {
		cancel()
		if e != nil {
			e.Wait()
		}
		wd.Wait()
		n.bgDone.Wait()
		return fmt.Errorf("tmengine.New node %d: %w", n.idx, err)
	}
	n.eng = e
	n.alive = true
	return nil
}

func (n *nsNode) stop() {
	if !n.alive {
		return
	}
	n.cancel()
	n.eng.Wait()
	n.wd.Wait()
	n.bgDone.Wait()
	n.alive = false
	n.eng = nil
}

// ---------------------------------------------------------------------------
// Contexts for engine calls (DESIGN 2.3): fake-time deadline + poll counting.

type nsPollCtx struct {
	context.Context
	polls  *int64
	limit  int64
	closed chan struct{}
}

func (c nsPollCtx) Done() <-chan struct{} {
	if atomic.AddInt64(c.polls, 1) > c.limit {
		return c.closed
	}
	return c.Context.Done()
}

func (c nsPollCtx) Err() error {
	if atomic.LoadInt64(c.polls) > c.limit {
		return context.Canceled
	}
	return c.Context.Err()
}

const (
	nsPollLimit    = 5000
	nsCallDeadline = 30 * time.Second
)

// callCtx returns a context for one engine call; tripped() tells afterwards
// whether the call ended through the deadline (wedge) or the poll limit (livelock).
func (n *nsNode) callCtx(closed chan struct{}) (ctx context.Context, done func() (wedged, livelock bool)) {
	dctx, cancel := context.WithTimeout(n.ctx, nsCallDeadline)
	polls := new(int64)
	pc := nsPollCtx{Context: dctx, polls: polls, limit: nsPollLimit, closed: closed}
	return pc, func() (bool, bool) {
		w := dctx.Err() == context.DeadlineExceeded
		l := atomic.LoadInt64(polls) > nsPollLimit
		cancel()
		return w, l
	}
}
