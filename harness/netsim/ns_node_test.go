package tmengine_test

// netsim (C03): node assembly through the public tmengine.New options,
// the lock-respecting harness strategy, the deterministic driver application,
// and the ConsensusBroadcaster that feeds the harness-owned network.

import (
	"context"
	"fmt"
	"log/slog"
	"os"
	"strings"
	"sync"
	"sync/atomic"
	"time"

	"github.com/gordian-engine/gordian/gcrypto"
	"github.com/gordian-engine/gordian/gwatchdog"
	"github.com/gordian-engine/gordian/tm/tmconsensus"
	"github.com/gordian-engine/gordian/tm/tmdriver"
	"github.com/gordian-engine/gordian/tm/tmengine"
	"github.com/gordian-engine/gordian/tm/tmgossip"
	"github.com/gordian-engine/gordian/tm/tmstore/tmmemstore"
)

// nsErrHandler keeps the ERROR-level messages of one node (the state machine
// announces its silent exits there) and discards everything else.
type nsErrHandler struct{ n *nsNode }

func (h nsErrHandler) Enabled(_ context.Context, l slog.Level) bool { return l >= slog.LevelError }
func (h nsErrHandler) Handle(_ context.Context, r slog.Record) error {
	h.n.mu.Lock()
	h.n.errLogs = append(h.n.errLogs, r.Message)
	h.n.errLogsInc++
	h.n.mu.Unlock()
	return nil
}
func (h nsErrHandler) WithAttrs([]slog.Attr) slog.Handler { return h }
func (h nsErrHandler) WithGroup(string) slog.Handler      { return h }

func (n *nsNode) logger() *slog.Logger {
	if os.Getenv("NS_LOG") != "" {
		return nsLog.With("node", n.idx, "inc", n.incarnation)
	}
	return slog.New(nsErrHandler{n})
}

var nsLog = func() *slog.Logger {
	if os.Getenv("NS_LOG") != "" {
		return slog.New(slog.NewTextHandler(os.Stderr, &slog.HandlerOptions{Level: slog.LevelDebug}))
	}
	return slog.New(slog.DiscardHandler)
}()

// nsFin is one FinalizeBlockRequest observed by a node's driver.
type nsFin struct {
	Seq         int
	H           uint64
	R           uint32
	Hash        string
	DataID      string
	Incarnation int
	FirstOfInc  bool // first request of its incarnation
	checked     bool
}

// nsLock is the strategy's persistent lock (survives restarts of its node:
// the property is about a lock-respecting strategy, so the harness strategy
// keeps its lock in storage owned by the node, not by the engine instance).
type nsLock struct {
	H    uint64
	R    uint32
	Hash string
}

// nsDecision is a prevote decision the strategy returned.
type nsDecision struct {
	H   uint64
	R   uint32
	Op  int64
	Inc int
	Set bool
}

type nsOutMsg struct {
	kind int
	ph   tmconsensus.ProposedHeader
	pv   tmconsensus.PrevoteSparseProof
	pc   tmconsensus.PrecommitSparseProof
}

type nsNode struct {
	w      *nsWorld
	x      *nsExec
	idx    int // node index
	valIdx int // validator index
	signer gcrypto.Ed25519Signer

	// Stores survive restarts.
	as  *tmmemstore.ActionStore
	chs *tmmemstore.CommittedHeaderStore
	fs  *tmmemstore.FinalizationStore
	ms  *tmmemstore.MirrorStore
	rs  *tmmemstore.RoundStore
	sms *tmmemstore.StateMachineStore
	vs  *tmmemstore.ValidatorStore

	mu sync.Mutex // guards the observation fields below

	lock nsLock

	// Observations.
	fins        []nsFin
	enterH      uint64 // last EnterRound seen (this incarnation)
	enterR      uint32
	maxRound    uint32
	lockCarried bool
	outbox      []nsOutMsg
	stratCalls  int64
	errLogs     []string
	errLogsInc  int               // error-level log lines of the current incarnation
	viol        []nsFailure       // clause violations seen from engine-owned goroutines (strategy, driver)
	appHashes   map[uint64][]byte // app state hash this node's driver returned per finalized height
	prevoteDec  nsDecision        // last prevote decision handed to the state machine
	enteredLive bool              // EnterRound was called in this incarnation

	incarnation int
	finsThisInc int
	nextFin     uint64
	lastFinHash string

	// Per incarnation.
	ctx    context.Context
	cancel context.CancelFunc
	eng    *tmengine.Engine
	wd     *gwatchdog.Watchdog
	gs     *tmgossip.ChattyStrategy
	bgDone sync.WaitGroup
	alive  bool
}

func nsNewNode(w *nsWorld, idx int) *nsNode {
	vi := w.correct[idx]
	return &nsNode{
		w: w, idx: idx, valIdx: vi, signer: w.signers[vi],
		as:      tmmemstore.NewActionStore(),
		chs:     tmmemstore.NewCommittedHeaderStore(),
		fs:      tmmemstore.NewFinalizationStore(),
		ms:      tmmemstore.NewMirrorStore(),
		rs:      tmmemstore.NewRoundStore(),
		sms:     tmmemstore.NewStateMachineStore(),
		vs:      tmmemstore.NewValidatorStore(w.hs),
		nextFin: w.c.H0, appHashes: map[uint64][]byte{},
	}
}

// ---------------------------------------------------------------------------
// Broadcaster: every outgoing message goes to the node's outbox; the
// interpreter moves outboxes into the network at quiescence points, in node
// order, so the pending list does not depend on goroutine scheduling.

type nsBroadcaster struct {
	ph chan tmconsensus.ProposedHeader
	pv chan tmconsensus.PrevoteSparseProof
	pc chan tmconsensus.PrecommitSparseProof
}

func (b *nsBroadcaster) OutgoingProposedHeaders() chan<- tmconsensus.ProposedHeader { return b.ph }
func (b *nsBroadcaster) OutgoingPrevoteProofs() chan<- tmconsensus.PrevoteSparseProof {
	return b.pv
}
func (b *nsBroadcaster) OutgoingPrecommitProofs() chan<- tmconsensus.PrecommitSparseProof {
	return b.pc
}

func (n *nsNode) runBroadcaster(ctx context.Context, b *nsBroadcaster) {
	defer n.bgDone.Done()
	for {
		select {
		case <-ctx.Done():
			return
		case m := <-b.ph:
			n.mu.Lock()
			n.outbox = append(n.outbox, nsOutMsg{kind: nsKindPH, ph: m})
			n.mu.Unlock()
		case m := <-b.pv:
			n.mu.Lock()
			n.outbox = append(n.outbox, nsOutMsg{kind: nsKindPrevote, pv: m.Clone()})
			n.mu.Unlock()
		case m := <-b.pc:
			n.mu.Lock()
			n.outbox = append(n.outbox, nsOutMsg{kind: nsKindPrecommit, pc: m.Clone()})
			n.mu.Unlock()
		}
	}
}

// ---------------------------------------------------------------------------
// Driver application.

func (n *nsNode) runDriver(ctx context.Context, initCh <-chan tmdriver.InitChainRequest, finCh <-chan tmdriver.FinalizeBlockRequest) {
	defer n.bgDone.Done()
	for {
		select {
		case <-ctx.Done():
			return
		case req, ok := <-initCh:
			if !ok {
				initCh = nil // chain already initialized: the engine closes the channel
				continue
			}
			select {
			case req.Resp <- n.initChainResponse():
			case <-ctx.Done():
				return
			}
		case req := <-finCh:
			h := req.Header.Height
			n.mu.Lock()
			n.fins = append(n.fins, nsFin{
				Seq: len(n.fins), H: h, R: req.Round, Hash: string(req.Header.Hash),
				DataID: string(req.Header.DataID), Incarnation: n.incarnation,
				FirstOfInc: n.finsThisInc == 0,
			})
			n.finsThisInc++
			n.appHashes[h] = nsAppHash(h, req.Header.DataID)
			n.mu.Unlock()
			// Resp is 1-buffered by contract.
			req.Resp <- tmdriver.FinalizeBlockResponse{
				Height: h, Round: req.Round, BlockHash: req.Header.Hash,
				Validators:   n.w.valsFor(h + 2).Validators,
				AppStateHash: nsAppHash(h, req.Header.DataID),
			}
		}
	}
}

// initChainResponse: when the genesis document does not declare the chain's
// real initial set, the application overrides it.
func (n *nsNode) initChainResponse() tmdriver.InitChainResponse {
	resp := tmdriver.InitChainResponse{AppStateHash: nsGenesisAppHash}
	if n.w.c.Doc != 0 {
		resp.Validators = n.w.gen.Validators
	}
	return resp
}

func (n *nsNode) violate(clause, format string, a ...any) {
	n.mu.Lock()
	n.viol = append(n.viol, nsFailure{clause: clause, detail: fmt.Sprintf("node %d (incarnation %d): ", n.idx, n.incarnation) + fmt.Sprintf(format, a...)})
	n.mu.Unlock()
}

// ---------------------------------------------------------------------------
// Strategy.

type nsStrategy struct {
	n *nsNode

	mu      sync.Mutex
	curH    uint64
	curR    uint32
	expProp gcrypto.PubKey
}

func (s *nsStrategy) EnterRound(ctx context.Context, rv tmconsensus.RoundView, proposalOut chan<- tmconsensus.Proposal) error {
	s.mu.Lock()
	defer s.mu.Unlock()
	atomic.AddInt64(&s.n.stratCalls, 1)
	s.curH, s.curR = rv.Height, rv.Round
	n := s.n
	// The proposer rotation runs over the set the chain prescribes (harness record).
	s.expProp = n.w.pubs[nsProposerIdx(rv.Height, rv.Round, n.w.nVals)]
	// C07: the view the node votes in carries the set the chain prescribes for that height.
	if d := nsSameSet(rv.ValidatorSet, n.w.valsFor(rv.Height)); d != "" {
		n.violate("c07-view-set", "enters height %d round %d with a view whose validator set is not the prescribed one: %s", rv.Height, rv.Round, d)
	}

	n.mu.Lock()
	n.enteredLive = true
	n.enterH, n.enterR = rv.Height, rv.Round
	if rv.Round > n.maxRound {
		n.maxRound = rv.Round
	}
	if n.lock.Hash != "" && n.lock.H != rv.Height {
		n.lock = nsLock{} // a lock is per height
	}
	if n.lock.Hash != "" && rv.Round > n.lock.R {
		n.lockCarried = true
	}
	n.mu.Unlock()

	if proposalOut != nil && s.expProp.Equal(n.signer.PubKey()) {
		select {
		case proposalOut <- tmconsensus.Proposal{DataID: nsDataID(rv.Height, rv.Round, 0)}:
		default:
		}
	}
	return nil
}

func (s *nsStrategy) pick(phs []tmconsensus.ProposedHeader) (string, bool) {
	s.n.mu.Lock()
	lk := s.n.lock
	s.n.mu.Unlock()
	if lk.Hash != "" && lk.H == s.curH {
		return lk.Hash, true // locked: prevote the locked block
	}
	for _, ph := range phs {
		if ph.ProposerPubKey == nil || !ph.ProposerPubKey.Equal(s.expProp) {
			continue
		}
		if ph.Header.Height != s.curH || ph.Round != s.curR {
			continue
		}
		if !nsValidDataID(s.curH, s.curR, ph.Header.DataID) {
			continue
		}
		return string(ph.Header.Hash), true
	}
	return "", false
}

// offered checks the proposals the state machine hands to the strategy against
// the node's own round store: every proposal of the round's proposer that
// carries the prescribed validator sets and this node's own app state hash must
// be among them (C07: voted with the prescribed set; C10: nothing lost by a restart).
// Only evaluated while the mirror's voting round is the machine's round
// (a machine that ran ahead of its mirror gets no view updates).
func (s *nsStrategy) offered(call string, phs []tmconsensus.ProposedHeader) {
	n := s.n
	vh, vr, _, _, err := n.ms.NetworkHeightRound(context.Background())
	if err != nil || vh != s.curH || vr != s.curR {
		return
	}
	stored, _, _, err := n.rs.LoadRoundState(context.Background(), s.curH, s.curR)
	if err != nil {
		return
	}
	var wantApp []byte
	if s.curH == n.w.c.H0 {
		wantApp = nsGenesisAppHash
	} else {
		n.mu.Lock()
		wantApp = n.appHashes[s.curH-1]
		n.mu.Unlock()
		if wantApp == nil {
			return
		}
	}
	for _, ph := range stored {
		if ph.ProposerPubKey == nil || !ph.ProposerPubKey.Equal(s.expProp) || ph.Round != s.curR || ph.Header.Height != s.curH {
			continue
		}
		if ph.ProposerPubKey.Equal(n.signer.PubKey()) {
			// The node's own proposal reaches its round store through the machine's own
			// action, concurrently with a strategy call made for the view before it.
			continue
		}
		if nsSameSet(ph.Header.ValidatorSet, n.w.valsFor(s.curH)) != "" || nsSameSet(ph.Header.NextValidatorSet, n.w.valsFor(s.curH+1)) != "" {
			continue
		}
		if string(ph.Header.PrevAppStateHash) != string(wantApp) {
			continue
		}
		found := false
		for _, g := range phs {
			found = found || string(g.Header.Hash) == string(ph.Header.Hash)
		}
		if !found {
			n.violate("proposals-withheld", "%s at height %d round %d was not offered proposal %s of the round's proposer, which is in the node's round store and carries the prescribed validator sets and app state hash (%d proposals offered)", call, s.curH, s.curR, nsShort(ph.Header.Hash), len(phs))
			return
		}
	}
}

func (s *nsStrategy) decided() {
	n := s.n
	// Only a decision taken while the mirror is in the machine's round counts: the mirror
	// drops the vote of a machine that ran ahead of it (known engine behaviour).
	if vh, vr, _, _, err := n.ms.NetworkHeightRound(context.Background()); err != nil || vh != s.curH || vr != s.curR {
		return
	}
	n.mu.Lock()
	n.prevoteDec = nsDecision{H: s.curH, R: s.curR, Inc: n.incarnation, Set: true}
	if n.x != nil {
		n.prevoteDec.Op = atomic.LoadInt64(&n.x.now)
	}
	n.mu.Unlock()
}

func (s *nsStrategy) ConsiderProposedBlocks(ctx context.Context, phs []tmconsensus.ProposedHeader, _ tmconsensus.ConsiderProposedBlocksReason) (string, error) {
	s.mu.Lock()
	defer s.mu.Unlock()
	atomic.AddInt64(&s.n.stratCalls, 1)
	s.offered("ConsiderProposedBlocks", phs)
	if h, ok := s.pick(phs); ok {
		s.decided()
		return h, nil
	}
	return "", tmconsensus.ErrProposedBlockChoiceNotReady
}

func (s *nsStrategy) ChooseProposedBlock(ctx context.Context, phs []tmconsensus.ProposedHeader) (string, error) {
	s.mu.Lock()
	defer s.mu.Unlock()
	atomic.AddInt64(&s.n.stratCalls, 1)
	s.offered("ChooseProposedBlock", phs)
	s.decided()
	if h, ok := s.pick(phs); ok {
		return h, nil
	}
	return "", nil
}

func (s *nsStrategy) DecidePrecommit(ctx context.Context, vs tmconsensus.VoteSummary) (string, error) {
	s.mu.Lock()
	defer s.mu.Unlock()
	atomic.AddInt64(&s.n.stratCalls, 1)
	// C07: thresholds are taken over the prescribed set's total power.
	if want := nsSum(s.n.w.powersFor(s.curH)); vs.AvailablePower != want {
		s.n.violate("c07-view-set", "DecidePrecommit at height %d round %d reports available power %d, the prescribed set has %d", s.curH, s.curR, vs.AvailablePower, want)
	}
	// Like every strategy in the repository, the threshold comes from the library.
	maj := tmconsensus.ByzantineMajority(vs.AvailablePower)
	best := ""
	for hash, pow := range vs.PrevoteBlockPower {
		if hash == "" || pow < maj {
			continue
		}
		if best == "" || hash < best {
			best = hash
		}
	}
	if best == "" {
		return "", nil
	}
	s.n.mu.Lock()
	s.n.lock = nsLock{H: s.curH, R: s.curR, Hash: best}
	s.n.mu.Unlock()
	return best, nil
}

// ---------------------------------------------------------------------------
// Engine life cycle.

func (n *nsNode) start(parent context.Context) error {
	ctx, cancel := context.WithCancel(parent)
	n.ctx, n.cancel = ctx, cancel
	wd, wctx := gwatchdog.NewNopWatchdog(ctx, nsLog)
	n.wd = wd

	bc := &nsBroadcaster{
		ph: make(chan tmconsensus.ProposedHeader),
		pv: make(chan tmconsensus.PrevoteSparseProof),
		pc: make(chan tmconsensus.PrecommitSparseProof),
	}
	initCh := make(chan tmdriver.InitChainRequest)
	finCh := make(chan tmdriver.FinalizeBlockRequest)
	n.bgDone.Add(2)
	go n.runBroadcaster(ctx, bc)
	go n.runDriver(ctx, initCh, finCh)

	n.gs = tmgossip.NewChattyStrategy(wctx, nsLog, bc)
	strat := &nsStrategy{n: n}

	n.mu.Lock()
	n.enterH, n.enterR = 0, 0
	n.enteredLive = false
	n.errLogsInc = 0
	n.mu.Unlock()
	genDoc := n.w.doc

	e, err := tmengine.New(
		wctx, n.logger(),
		tmengine.WithActionStore(n.as),
		tmengine.WithCommittedHeaderStore(n.chs),
		tmengine.WithFinalizationStore(n.fs),
		tmengine.WithMirrorStore(n.ms),
		tmengine.WithRoundStore(n.rs),
		tmengine.WithStateMachineStore(n.sms),
		tmengine.WithValidatorStore(n.vs),

		tmengine.WithHashScheme(n.w.hs),
		tmengine.WithSignatureScheme(n.w.ss),
		tmengine.WithCommonMessageSignatureProofScheme(gcrypto.SimpleCommonMessageSignatureProofScheme{}),

		tmengine.WithGossipStrategy(n.gs),
		tmengine.WithConsensusStrategy(strat),

		tmengine.WithGenesis(&tmconsensus.ExternalGenesis{
			ChainID:             "netsim",
			InitialHeight:       n.w.c.H0,
			InitialAppState:     strings.NewReader(""),
			GenesisValidatorSet: genDoc,
		}),
		tmengine.WithTimeoutStrategy(wctx, nsTimeouts{x: n.x}),

		tmengine.WithBlockFinalizationChannel(finCh),
		tmengine.WithInitChainChannel(initCh),

		tmengine.WithSigner(tmconsensus.PassthroughSigner{Signer: n.signer, SignatureScheme: n.w.ss}),
		tmengine.WithWatchdog(wd),
	)
	if err != nil {
		cancel()
		if e != nil {
			e.Wait()
		}
		wd.Wait()
		n.bgDone.Wait()
		return fmt.Errorf("tmengine.New node %d: %w", n.idx, err)
	}
	n.eng = e
	n.alive = true
	return nil
}

func (n *nsNode) stop() {
	if !n.alive {
		return
	}
	n.cancel()
	n.eng.Wait()
	n.wd.Wait()
	n.bgDone.Wait()
	n.alive = false
	n.eng = nil
}

// ---------------------------------------------------------------------------
// Contexts for engine calls (DESIGN 2.3): fake-time deadline + poll counting.

type nsPollCtx struct {
	context.Context
	polls  *int64
	limit  int64
	closed chan struct{}
}

func (c nsPollCtx) Done() <-chan struct{} {
	if atomic.AddInt64(c.polls, 1) > c.limit {
		return c.closed
	}
	return c.Context.Done()
}

func (c nsPollCtx) Err() error {
	if atomic.LoadInt64(c.polls) > c.limit {
		return context.Canceled
	}
	return c.Context.Err()
}

const (
	nsPollLimit    = 5000
	nsCallDeadline = 30 * time.Second
)

// callCtx returns a context for one engine call; tripped() tells afterwards
// whether the call ended through the deadline (wedge) or the poll limit (livelock).
func (n *nsNode) callCtx(closed chan struct{}) (ctx context.Context, done func() (wedged, livelock bool)) {
	dctx, cancel := context.WithTimeout(n.ctx, nsCallDeadline)
	polls := new(int64)
	pc := nsPollCtx{Context: dctx, polls: polls, limit: nsPollLimit, closed: closed}
	return pc, func() (bool, bool) {
		w := dctx.Err() == context.DeadlineExceeded
		l := atomic.LoadInt64(polls) > nsPollLimit
		cancel()
		return w, l
	}
}
