package tmengine_test

// netsim (C03): schedule interpreter, Byzantine injection, oracle, generator
// and the test function TestVerifC03Agreement.

import (
	"context"
	"encoding/json"
	"fmt"
	"os"
	"path/filepath"
	"sort"
	"strings"
	"sync/atomic"
	"testing"
	"testing/synctest"
	"time"

	"github.com/gordian-engine/gordian/gcrypto"
	"github.com/gordian-engine/gordian/internal/zzverif/vk"
	"github.com/gordian-engine/gordian/tm/tmconsensus"
	"pgregory.net/rapid"
)

func nsWait() { synctest.Wait() }

const nsRule = "case = validator powers (2-5 correct engines + 0-2 Byzantine keys with < 1/3 power), initial height, optional power rotation, and an op list (deliver/duplicate/drop/partition/advance fake time/restart/Byzantine proposal, vote and split macro) interpreted against real tmengine.Engine instances in one synctest bubble; non-trivial = >= 2 correct nodes finalized >= 2 heights and the executed schedule contained >= 1 fault (reorder across rounds, timeout firing, Byzantine message delivered, restart); distinct = distinct JSON of the case"

// ---------------------------------------------------------------------------
// Interpreter.

func nsNewExec(st *vk.Stats, c nsCase) *nsExec {
	w := nsNewWorld(c)
	x := &nsExec{st: st, c: c, w: w, pendKeys: map[string]struct{}{}, cnt: map[string]int64{}, heldOnce: map[string]struct{}{}, holdCache: map[string]nsPos{}}
	return x
}

func (x *nsExec) aliveNodes() []*nsNode {
	var out []*nsNode
	for _, n := range x.nodes {
		if n.alive {
			out = append(out, n)
		}
	}
	return out
}

// frontier is the highest state-machine position among live correct nodes.
func (x *nsExec) frontier() nsHR {
	best := nsHR{x.c.H0, 0}
	for _, n := range x.aliveNodes() {
		p := x.pos(n)
		if hr := (nsHR{p.SH, p.SR}); best.less(hr) {
			best = hr
		}
	}
	return best
}

func (x *nsExec) deliverSome(max int, want func(nsPend) bool) int {
	done := 0
	for done < max && x.fail == nil {
		progressed := false
		for i := 0; i < len(x.pending) && done < max && x.fail == nil; {
			pe := x.pending[i]
			if want != nil && !want(pe) {
				i++
				continue
			}
			fin, prog := x.deliver(pe, false)
			if prog {
				progressed = true
				done++
			}
			if fin {
				// The entry may have moved: find it again.
				if j := x.findPending(pe); j >= 0 {
					x.removePending(j)
				}
			} else {
				i++
			}
		}
		if !progressed {
			break
		}
	}
	return done
}

func (x *nsExec) findPending(pe nsPend) int {
	for i, q := range x.pending {
		if q.m == pe.m && q.dest == pe.dest {
			return i
		}
	}
	return -1
}

var nsSettleBudget = []int{20, 60, 150, 400}

func (x *nsExec) step(op nsOp) {
	nn := len(x.nodes)
	switch op.K {
	case "d":
		if len(x.pending) == 0 {
			return
		}
		pe := x.pending[op.A%len(x.pending)]
		if fin, _ := x.deliver(pe, false); fin {
			if j := x.findPending(pe); j >= 0 {
				x.removePending(j)
			}
		}
	case "df":
		x.deliverSome(1+op.A%20, nil)
	case "dn":
		d := op.A % nn
		x.deliverSome(1+op.B%20, func(p nsPend) bool { return p.dest == d })
	case "dk":
		d := nn // A >= 32: every node
		if op.A < 32 {
			d = op.A % nn
		}
		mask := 1 + op.B%7
		x.deliverSome(1+op.C%40, func(p nsPend) bool {
			return (d == nn || p.dest == d) && mask&(1<<uint(p.m.kind)) != 0
		})
	case "settle":
		x.deliverSome(nsSettleBudget[op.A%len(nsSettleBudget)], nil)
	case "drop":
		if len(x.pending) == 0 {
			return
		}
		x.removePending(op.A % len(x.pending))
		x.faultDropDup = true
		x.count("op:drop")
	case "dropn":
		d := op.A % nn
		for i := 0; i < len(x.pending); {
			if x.pending[i].dest == d {
				x.removePending(i)
				x.faultDropDup = true
			} else {
				i++
			}
		}
	case "wh":
		// Withhold: drop every pending proposal of the highest height/round on the wire.
		var top nsHR
		for _, p := range x.pending {
			if p.m.kind == nsKindPH && top.less(nsHR{p.m.h, p.m.r}) {
				top = nsHR{p.m.h, p.m.r}
			}
		}
		for i := 0; i < len(x.pending); {
			if p := x.pending[i]; p.m.kind == nsKindPH && (nsHR{p.m.h, p.m.r}) == top {
				x.removePending(i)
				x.count("op:withheld")
			} else {
				i++
			}
		}
	case "dup":
		d := op.A % nn
		if len(x.delivered[d]) == 0 {
			return
		}
		m := x.delivered[d][op.B%len(x.delivered[d])]
		x.count("op:dup")
		x.faultDropDup = true
		x.deliver(nsPend{m: m, dest: d}, true)
	case "part":
		x.part = make([]int, nn)
		for i := range x.part {
			x.part[i] = (op.A >> uint(i)) & 1
		}
		x.count("op:part")
	case "heal":
		x.part = nil
	case "t":
		d := nsTimeSteps[op.A%len(nsTimeSteps)]
		before := x.roundsSnapshot()
		time.Sleep(d)
		x.quiesce()
		if x.roundsSnapshot() != before {
			x.faultTimeout = true
		}
	case "restart":
		n := x.nodes[op.A%nn]
		if !n.alive {
			return
		}
		if id := x.restartAdmit(n); id != "" {
			x.hold(id, fmt.Sprintf("restart>%d@%d", n.idx, x.now))
			x.count("restart-held")
			return
		}
		n.stop()
		x.quiesce()
		x.restartSM[n.idx] = x.restartEntry(n)
		snap := x.snapshotStores(n)
		if p := x.pos(n); true {
			e := x.restartSM[n.idx]
			if p.VH == x.c.H0 {
				x.count("restart:mirror-voting-initial-height")
			}
			if p.CH == x.c.H0 {
				x.count("restart:mirror-committing-initial-height")
			}
			if e.H == x.c.H0 {
				x.count("restart:machine-in-initial-height")
			}
			if x.c.Doc != 0 && (p.VH == x.c.H0 || p.CH == x.c.H0 || e.H == x.c.H0) {
				x.count("restart:initial-height+initchain-override")
			}
		}
		n.mu.Lock()
		n.incarnation++
		n.finsThisInc = 0
		n.mu.Unlock()
		if err := n.start(x.ctx); err != nil {
			x.failf("", "restart", "node %d does not come back on its own stores: %v", n.idx, err)
			return
		}
		x.faultRestart = true
		x.count("op:restart")
		x.quiesce()
		x.compareStores(n, snap)
	case "lc":
		x.lockCarry(op)
	case "bprop":
		x.byzProposal(op)
	case "bvote":
		x.byzVote(op)
	case "split":
		x.byzSplit(op)
	case "bforge":
		x.byzForge(op)
	case "iso":
		x.byzIsolate(op)
	case "bfollow":
		x.byzFollow(op)
	}
}

func (x *nsExec) noteLocks() {
	byH := map[uint64]string{}
	for _, n := range x.nodes {
		n.mu.Lock()
		lk := n.lock
		n.mu.Unlock()
		if lk.Hash == "" {
			continue
		}
		if o, ok := byH[lk.H]; ok && o != lk.Hash {
			x.conflictingLocks = true
		}
		byH[lk.H] = lk.Hash
	}
}

// feedVotes hands node d the single-signature parts of the pending votes of
// (kind, h, r) addressed to it, nil targets first. With capped it stops once
// the node holds > 2/3 of the power in total for that kind and never lets one
// target reach > 2/3 (the node ends up in the "majority present, no majority
// target" situation instead of seeing the polka / the commit).
func (x *nsExec) feedVotes(d int, kind int, h uint64, r uint32, capped bool, signerOK func(vi int) bool) {
	n := x.nodes[d]
	type part struct {
		pkh, target string
		sig         gcrypto.SparseSignature
	}
	var parts []part
	seen := map[string]struct{}{}
	for _, pe := range x.pending {
		if pe.dest != d || pe.m.kind != kind || pe.m.h != h || pe.m.r != r || !x.sameSide(pe.m.from, d) {
			continue
		}
		for target, sigs := range pe.m.proofs {
			for _, sg := range sigs {
				k := nsSigKey(kind, h, r, target, sg)
				if _, dup := seen[k]; dup {
					continue
				}
				seen[k] = struct{}{}
				if _, had := x.seenSig[d][k]; had {
					continue
				}
				if signerOK != nil && (len(sg.KeyID) != 2 || !signerOK(int(sg.KeyID[0])<<8|int(sg.KeyID[1]))) {
					continue
				}
				parts = append(parts, part{pe.m.pkh, target, sg})
			}
		}
	}
	sort.Slice(parts, func(i, j int) bool {
		if parts[i].target != parts[j].target {
			return parts[i].target < parts[j].target // "" (nil) first
		}
		return string(parts[i].sig.KeyID) < string(parts[j].sig.KeyID)
	})
	pows := x.w.powersFor(h)
	maj := nsMaj(nsSum(pows))
	for _, p := range parts {
		if x.fail != nil || !n.alive {
			return
		}
		if capped {
			_, pvc, pcc := x.roundState(n, h, r)
			col := pvc
			if kind == nsKindPrecommit {
				col = pcc
			}
			t := x.tally(col, pows)
			if t.total >= maj {
				return
			}
			t.add(p.target, p.sig.KeyID, pows)
			if t.byHash[p.target] >= maj {
				continue
			}
		}
		x.deliverVotes(n, kind, h, r, p.pkh, map[string][]gcrypto.SparseSignature{p.target: {p.sig}}, false)
	}
}

func bitsSet(m int) int {
	c := 0
	for ; m != 0; m &= m - 1 {
		c++
	}
	return c
}

// prepare brings the network to a clean round start with honest scheduling
// only: heal, deliver everything deliverable, and let a running commit wait elapse.
func (x *nsExec) prepare() {
	x.part = nil
	for i := 0; i < 3 && x.fail == nil; i++ {
		x.deliverSome(400, nil)
		waiting := false
		for _, n := range x.aliveNodes() {
			if p := x.pos(n); p.VH > p.SH {
				waiting = true
			}
		}
		if !waiting {
			break
		}
		time.Sleep(nsCommitWait + time.Millisecond)
		x.quiesce()
	}
}

// lockCarry is an honest-scheduling macro (deliveries and time only): the
// nodes in T get the proposal too late and prevote nil, the nodes in S see the
// polka and lock, everybody else sees > 2/3 prevotes without a polka and
// precommits nil, so the round ends without a commit and S carries its lock
// into the next round.
func (x *nsExec) lockCarry(op nsOp) {
	nn := len(x.nodes)
	all := (1 << uint(nn)) - 1
	x.prepare()
	f := x.frontier()
	h, r := f.H, f.R
	// T: nil prevoters, as many as the chain tolerates (the rest must still form a polka
	// without the Byzantine validators); S: polka seers with less than > 2/3 power.
	pows := x.w.powersFor(h)
	total := nsSum(pows)
	var byzPow uint64
	for _, vi := range x.w.byz {
		byzPow += pows[vi]
	}
	maj := nsMaj(total)
	tmask, smask := 0, 0
	var tp, sp uint64
	for k := 0; k < nn; k++ {
		i := (op.A + k) % nn
		if p := pows[x.w.correct[i]]; tp+p+maj+byzPow <= total && bitsSet(tmask) < 1+(op.A/8)%2 {
			tmask |= 1 << uint(i)
			tp += p
		}
	}
	for k := 0; k < nn; k++ {
		i := (op.B + k) % nn
		if tmask&(1<<uint(i)) != 0 {
			continue
		}
		if p := pows[x.w.correct[i]]; sp+p < maj {
			smask |= 1 << uint(i)
			sp += p
		}
	}
	_ = all
	x.count("op:lc")
	to := nsTimeouts{}
	x.deliverSome(200, func(p nsPend) bool {
		return p.m.kind == nsKindPH && p.m.h == h && p.m.r == r && tmask&(1<<uint(p.dest)) == 0
	})
	time.Sleep(to.ProposalTimeout(h, r) + time.Millisecond)
	x.quiesce()
	for d := 0; d < nn; d++ {
		x.feedVotes(d, nsKindPrevote, h, r, smask&(1<<uint(d)) == 0, nil)
	}
	time.Sleep(to.PrevoteDelayTimeout(h, r) + time.Millisecond)
	x.quiesce()
	x.deliverSome(400, func(p nsPend) bool { return p.m.kind == nsKindPrecommit && p.m.h == h && p.m.r == r })
	x.faultTimeout = true
}

// roundsSnapshot summarizes the positions that only timers move.
func (x *nsExec) roundsSnapshot() string {
	var b strings.Builder
	for _, n := range x.nodes {
		p := x.pos(n)
		fmt.Fprintf(&b, "%d/%d;", p.SH, p.SR)
		fmt.Fprintf(&b, "%d,", atomic.LoadInt64(&n.stratCalls))
	}
	return b.String()
}

// ---------------------------------------------------------------------------
// Byzantine injection (keys the harness owns; no engine).

func (x *nsExec) byzPH(vi int, h uint64, r uint32, variant int) (tmconsensus.ProposedHeader, bool) {
	var hdr tmconsensus.Header
	found := false
	for _, k := range x.knownPH {
		if k.Header.Height == h {
			hdr, found = k.Header, true
			break
		}
	}
	if !found {
		if h == x.c.H0 {
			g := tmconsensus.Genesis{ChainID: "netsim", InitialHeight: x.c.H0, CurrentAppStateHash: nsGenesisAppHash, ValidatorSet: x.w.gen}
			gh, err := g.Header(x.w.hs)
			if err != nil {
				panic(err)
			}
			hdr = tmconsensus.Header{PrevBlockHash: gh.Hash, Height: h, ValidatorSet: x.w.valsFor(h), NextValidatorSet: x.w.valsFor(h + 1), PrevAppStateHash: nsGenesisAppHash}
		} else {
			for _, n := range x.nodes {
				ch, err := n.chs.LoadCommittedHeader(x.ctx, h-1)
				if err != nil {
					continue
				}
				hdr = tmconsensus.Header{
					PrevBlockHash: ch.Header.Hash, Height: h, PrevCommitProof: ch.Proof.Clone(),
					ValidatorSet: x.w.valsFor(h), NextValidatorSet: x.w.valsFor(h + 1),
					PrevAppStateHash: nsAppHash(h-1, ch.Header.DataID),
				}
				found = true
				break
			}
			if !found {
				return tmconsensus.ProposedHeader{}, false
			}
		}
	}
	hdr.DataID = []byte(nsDataID(h, r, variant))
	hash, err := x.w.hs.Block(hdr)
	if err != nil {
		panic(err)
	}
	hdr.Hash = hash
	ph := tmconsensus.ProposedHeader{Header: hdr, Round: r, ProposerPubKey: x.w.pubs[vi]}
	content, err := tmconsensus.ProposalSignBytes(hdr, r, ph.Annotations, x.w.ss)
	if err != nil {
		panic(err)
	}
	ph.Signature, err = x.w.signers[vi].Sign(context.Background(), content)
	if err != nil {
		panic(err)
	}
	return ph, true
}

// inject enqueues a Byzantine message for the masked destinations and tries
// to deliver it at once (still subject to the hold-back rules).
func (x *nsExec) inject(m *nsMsg, dests []int) {
	if len(dests) == 0 {
		return
	}
	x.enqueue(m, dests)
	for _, d := range dests {
		pe := nsPend{m: m, dest: d}
		j := x.findPending(pe)
		if j < 0 {
			continue
		}
		fin, prog := x.deliver(pe, false)
		if prog {
			x.faultByz = true
			x.count("byz:delivered:" + nsKindName(m.kind))
		}
		if fin {
			if j := x.findPending(pe); j >= 0 {
				x.removePending(j)
			}
		}
	}
}

func (x *nsExec) maskDests(mask int) []int {
	var out []int
	for i := range x.nodes {
		if mask&(1<<uint(i)) != 0 {
			out = append(out, i)
		}
	}
	return out
}

func (x *nsExec) byzProposal(op nsOp) {
	if len(x.w.byz) == 0 {
		return
	}
	f := x.frontier()
	r := f.R + uint32((op.C/4)%2)
	vi := x.w.byz[op.A%len(x.w.byz)]
	// Prefer the Byzantine validator that is the proposer of that round, if any.
	if p := nsProposerIdx(f.H, r, x.w.nVals); x.c.Byz[p] {
		vi = p
	}
	ph, ok := x.byzPH(vi, f.H, r, op.C%4)
	if !ok {
		return
	}
	x.rememberPH(ph)
	x.count("op:bprop")
	x.inject(x.newPHMsg(-1, ph), x.maskDests(1+op.B%((1<<uint(len(x.nodes)))-1)))
}

func (x *nsExec) targetsAt(h uint64, r uint32) []string {
	var out []string
	for _, k := range x.knownPH {
		if k.Header.Height == h {
			out = append(out, string(k.Header.Hash))
		}
	}
	sort.Strings(out)
	return out
}

func (x *nsExec) byzVote(op nsOp) {
	if len(x.w.byz) == 0 {
		return
	}
	f := x.frontier()
	kind := nsKindPrevote + op.C%2
	r := f.R + uint32((op.C/8)%2)
	vi := x.w.byz[op.A%len(x.w.byz)]
	target := ""
	if sel := (op.C / 2) % 4; sel > 0 {
		if ts := x.targetsAt(f.H, r); len(ts) > 0 {
			target = ts[(sel-1)%len(ts)]
		} else if sel == 3 {
			target = string(nsAppHash(f.H, []byte("unknown-block")))
		}
	}
	pkh := string(x.w.valsFor(f.H).PubKeyHash)
	sig := x.w.signVote(vi, kind, f.H, r, target)
	m := x.newVoteMsg(-1, kind, f.H, r, pkh, map[string][]gcrypto.SparseSignature{target: {sig}})
	x.count("op:bvote")
	x.inject(m, x.maskDests(1+op.B%((1<<uint(len(x.nodes)))-1)))
}

// forgedVote is a vote carrying the key id of validator vi but signed with a
// Byzantine key: a correct engine must not count it.
func (x *nsExec) forgedVote(vi int, kind int, h uint64, r uint32, hash string) gcrypto.SparseSignature {
	s := x.w.signVote(x.w.byz[0], kind, h, r, hash)
	s.KeyID = nsKeyID(vi)
	return s
}

// byzForge sends votes in the name of correct validators (forged signatures).
func (x *nsExec) byzForge(op nsOp) {
	if len(x.w.byz) == 0 {
		return
	}
	f := x.frontier()
	kind := nsKindPrevote + op.C%2
	target := ""
	if ts := x.targetsAt(f.H, f.R); len(ts) > 0 && (op.C/2)%3 > 0 {
		target = ts[(op.C/2)%len(ts)]
	}
	pkh := string(x.w.valsFor(f.H).PubKeyHash)
	var sigs []gcrypto.SparseSignature
	for _, vi := range x.w.correct {
		if (op.A>>uint(x.w.nodeOf[vi]))&1 == 1 {
			sigs = append(sigs, x.forgedVote(vi, kind, f.H, f.R, target))
		}
	}
	if len(sigs) == 0 {
		return
	}
	x.count("op:bforge")
	x.inject(x.newVoteMsg(-1, kind, f.H, f.R, pkh, map[string][]gcrypto.SparseSignature{target: sigs}), x.maskDests(1+op.B%((1<<uint(len(x.nodes)))-1)))
}

// byzVotesTo makes every Byzantine validator sign a vote of the kind for target
// and hands it to the given nodes.
func (x *nsExec) byzVotesTo(kind int, h uint64, r uint32, target string, dests []int) {
	pkh := string(x.w.valsFor(h).PubKeyHash)
	for _, vi := range x.w.byz {
		m := x.newVoteMsg(-1, kind, h, r, pkh, map[string][]gcrypto.SparseSignature{target: {x.w.signVote(vi, kind, h, r, target)}})
		x.inject(m, dests)
	}
}

// byzFollow: the Byzantine validators behave like honest ones for the current
// round (prevote and precommit the round proposer's proposal, to everybody),
// which lets a network with exactly > 2/3 honest power make progress.
func (x *nsExec) byzFollow(op nsOp) {
	if len(x.w.byz) == 0 {
		return
	}
	f := x.frontier()
	prop := nsProposerIdx(f.H, f.R, x.w.nVals)
	for _, k := range x.knownPH {
		if k.Header.Height == f.H && k.Round == f.R && k.ProposerPubKey.Equal(x.w.pubs[prop]) {
			all := x.maskDests((1 << uint(len(x.nodes))) - 1)
			x.count("op:bfollow")
			x.byzVotesTo(nsKindPrevote, f.H, f.R, string(k.Header.Hash), all)
			if op.A%2 == 0 {
				x.byzVotesTo(nsKindPrecommit, f.H, f.R, string(k.Header.Hash), all)
			}
			return
		}
	}
}

// byzIsolate is the "commit one node alone" attack. In a round with a
// Byzantine proposer, proposal X goes to node x and just enough other nodes,
// proposal Y to the rest; only x gets the Byzantine prevotes and precommits for
// X, so only x sees the polka, locks and precommits X; everybody else sees > 2/3
// prevotes without a polka, precommits nil and (helped by Byzantine nil
// precommits) moves to the next round. On a correct engine x cannot commit.
func (x *nsExec) byzIsolate(op nsOp) {
	if len(x.w.byz) == 0 {
		return
	}
	nn := len(x.nodes)
	to := nsTimeouts{}
	x.prepare()
	// Reach a round with a Byzantine proposer by withholding honest proposals.
	for k := 0; k < x.w.nVals && x.fail == nil; k++ {
		f := x.frontier()
		if x.c.Byz[nsProposerIdx(f.H, f.R, x.w.nVals)] {
			break
		}
		for i := 0; i < len(x.pending); {
			if p := x.pending[i]; p.m.kind == nsKindPH && p.m.h == f.H && p.m.r == f.R {
				x.removePending(i)
			} else {
				i++
			}
		}
		time.Sleep(to.ProposalTimeout(f.H, f.R) + time.Millisecond)
		x.quiesce()
		x.deliverSome(400, nil)
		time.Sleep(to.PrevoteDelayTimeout(f.H, f.R) + to.PrecommitDelayTimeout(f.H, f.R) + time.Millisecond)
		x.quiesce()
		x.deliverSome(400, nil)
		x.faultTimeout = true
	}
	f := x.frontier()
	h, r := f.H, f.R
	prop := nsProposerIdx(h, r, x.w.nVals)
	if !x.c.Byz[prop] {
		return
	}
	phX, okX := x.byzPH(prop, h, r, 1)
	phY, okY := x.byzPH(prop, h, r, 2)
	if !okX || !okY {
		return
	}
	x.count("op:iso")
	pows := x.w.powersFor(h)
	total := nsSum(pows)
	var byzPow uint64
	for _, vi := range x.w.byz {
		byzPow += pows[vi]
	}
	maj := nsMaj(total)
	xi := op.A % nn
	setX := []int{xi}
	px := pows[x.w.correct[xi]]
	for k := 1; k < nn && px+byzPow < maj; k++ {
		i := (xi + k + op.B) % nn
		dup := false
		for _, j := range setX {
			dup = dup || j == i
		}
		if !dup {
			setX = append(setX, i)
			px += pows[x.w.correct[i]]
		}
	}
	var setY, others []int
	for i := 0; i < nn; i++ {
		in := false
		for _, j := range setX {
			in = in || j == i
		}
		if !in {
			setY = append(setY, i)
		}
		if i != xi {
			others = append(others, i)
		}
	}
	x.rememberPH(phX)
	x.rememberPH(phY)
	x.inject(x.newPHMsg(-1, phX), setX)
	x.inject(x.newPHMsg(-1, phY), setY)
	hx, hy := string(phX.Header.Hash), string(phY.Header.Hash)
	// Honest prevotes to everybody; Byzantine prevotes for X to x only, for Y to the others.
	x.byzVotesTo(nsKindPrevote, h, r, hx, []int{xi})
	x.byzVotesTo(nsKindPrevote, h, r, hy, others)
	// (x's own gossip would carry the Byzantine votes it was given: the adversary delays
	// those parts, the others only get votes signed by correct validators.)
	honest := func(vi int) bool { return vi < x.w.nVals && !x.c.Byz[vi] }
	for pass := 0; pass < 2; pass++ {
		x.feedVotes(xi, nsKindPrevote, h, r, false, nil)
		for _, d := range others {
			x.feedVotes(d, nsKindPrevote, h, r, false, honest)
		}
	}
	time.Sleep(to.PrevoteDelayTimeout(h, r) + time.Millisecond)
	x.quiesce()
	// Byzantine precommits: X to x, nil to the others; honest precommits to everybody.
	x.byzVotesTo(nsKindPrecommit, h, r, hx, []int{xi})
	x.byzVotesTo(nsKindPrecommit, h, r, "", others)
	for pass := 0; pass < 2; pass++ {
		x.feedVotes(xi, nsKindPrecommit, h, r, false, nil)
		for _, d := range others {
			x.feedVotes(d, nsKindPrecommit, h, r, false, honest)
		}
	}
	x.faultTimeout = true
}

// byzSplit is the split macro: different proposals and votes to two sets of
// correct nodes. A = nodes that get proposal X (the rest get Y), B = nodes
// that get the Byzantine votes for X (the rest get votes for Y).
func (x *nsExec) byzSplit(op nsOp) {
	if len(x.w.byz) == 0 {
		return
	}
	if (op.C/4)%2 == 1 {
		x.prepare()
		if x.part == nil && (op.C/8)%2 == 1 {
			x.part = make([]int, len(x.nodes))
			for i := range x.part {
				x.part[i] = (op.A >> uint(i)) & 1
			}
		}
	}
	f := x.frontier()
	h, r := f.H, f.R
	prop := nsProposerIdx(h, r, x.w.nVals)
	var phX, phY tmconsensus.ProposedHeader
	haveX, haveY := false, false
	if x.c.Byz[prop] {
		phX, haveX = x.byzPH(prop, h, r, 1)
		phY, haveY = x.byzPH(prop, h, r, 2)
		x.count("split:byz-proposer")
	} else {
		for _, k := range x.knownPH {
			if k.Header.Height == h && k.Round == r && k.ProposerPubKey.Equal(x.w.pubs[prop]) {
				phX, haveX = k, true
				break
			}
		}
		phY, haveY = x.byzPH(x.w.byz[0], h, r, 2)
		x.count("split:honest-proposer")
	}
	if !haveX && !haveY {
		return
	}
	x.count("op:split")
	for _, n := range x.nodes {
		n.mu.Lock()
		if n.lock.Hash != "" && n.lock.H == h {
			x.splitWithLock = true
		}
		n.mu.Unlock()
	}
	all := (1 << uint(len(x.nodes))) - 1
	setA := x.maskDests(op.A & all)
	setNotA := x.maskDests(^op.A & all)
	if haveX {
		x.rememberPH(phX)
		if x.c.Byz[prop] {
			x.inject(x.newPHMsg(-1, phX), setA)
		}
	}
	if haveY {
		x.rememberPH(phY)
		x.inject(x.newPHMsg(-1, phY), setNotA)
	}
	hx, hy := "", ""
	if haveX {
		hx = string(phX.Header.Hash)
	}
	if haveY {
		hy = string(phY.Header.Hash)
	}
	pkh := string(x.w.valsFor(h).PubKeyHash)
	kinds := []int{nsKindPrevote, nsKindPrecommit}
	if op.C%4 == 1 {
		kinds = kinds[:1]
	}
	setV := x.maskDests(op.B & all)
	setNotV := x.maskDests(^op.B & all)
	forge := (op.C/16)%4 == 3
	if forge {
		x.count("split:forged-votes")
	}
	for _, kind := range kinds {
		for _, vi := range x.w.byz {
			mx := x.newVoteMsg(-1, kind, h, r, pkh, map[string][]gcrypto.SparseSignature{hx: {x.w.signVote(vi, kind, h, r, hx)}})
			x.inject(mx, setV)
			if hy != hx {
				my := x.newVoteMsg(-1, kind, h, r, pkh, map[string][]gcrypto.SparseSignature{hy: {x.w.signVote(vi, kind, h, r, hy)}})
				x.inject(my, setNotV)
			}
		}
		if forge {
			// Also vote in the name of every correct validator, with forged signatures.
			var fx, fy []gcrypto.SparseSignature
			for _, vi := range x.w.correct {
				fx = append(fx, x.forgedVote(vi, kind, h, r, hx))
				fy = append(fy, x.forgedVote(vi, kind, h, r, hy))
			}
			x.inject(x.newVoteMsg(-1, kind, h, r, pkh, map[string][]gcrypto.SparseSignature{hx: fx}), setV)
			if hy != hx {
				x.inject(x.newVoteMsg(-1, kind, h, r, pkh, map[string][]gcrypto.SparseSignature{hy: fy}), setNotV)
			}
		}
	}
}

// ---------------------------------------------------------------------------
// Restart: what is durable before the stop must be there, unchanged, afterwards (C10).

type nsStoreSnap struct {
	vh, ch uint64
	vr, cr uint32
	mirror bool
	fins   map[uint64]string // height -> round|hash|apphash|valset hashes
	chs    map[uint64]string // height -> header hash|proof round
}

func (x *nsExec) snapshotStores(n *nsNode) nsStoreSnap {
	var s nsStoreSnap
	s.fins, s.chs = map[uint64]string{}, map[uint64]string{}
	if vh, vr, ch, cr, err := n.ms.NetworkHeightRound(x.ctx); err == nil {
		s.vh, s.vr, s.ch, s.cr, s.mirror = vh, vr, ch, cr, true
	}
	for h := x.c.H0 - 1; ; h++ {
		r, hash, vs, app, err := n.fs.LoadFinalizationByHeight(x.ctx, h)
		if err != nil {
			if h > s.vh+1 {
				break
			}
			continue
		}
		s.fins[h] = fmt.Sprintf("%d|%x|%x|%x|%x", r, hash, app, vs.PubKeyHash, vs.VotePowerHash)
	}
	for h := x.c.H0; h <= s.vh; h++ {
		if c, err := n.chs.LoadCommittedHeader(x.ctx, h); err == nil {
			s.chs[h] = fmt.Sprintf("%x|%d", c.Header.Hash, c.Proof.Round)
		}
	}
	return s
}

func (x *nsExec) compareStores(n *nsNode, before nsStoreSnap) {
	after := x.snapshotStores(n)
	if before.mirror {
		b, a := nsHR{before.vh, before.vr}, nsHR{after.vh, after.vr}
		if !after.mirror || a.less(b) || (nsHR{after.ch, after.cr}).less(nsHR{before.ch, before.cr}) {
			x.failf("", "c10-regression", "node %d: mirror position after restart voting %d/%d committing %d/%d is behind the recorded one (voting %d/%d committing %d/%d)", n.idx, after.vh, after.vr, after.ch, after.cr, before.vh, before.vr, before.ch, before.cr)
		}
	}
	for h, v := range before.fins {
		if after.fins[h] != v {
			x.failf("", "c10-regression", "node %d: stored finalization of height %d changed across the restart", n.idx, h)
		}
	}
	for h, v := range before.chs {
		if after.chs[h] != v {
			x.failf("", "c10-regression", "node %d: committed header of height %d changed across the restart", n.idx, h)
		}
	}
}

// checkParticipation: a node that is a member of the prescribed set, whose
// strategy just decided its prevote for the round both its machine and its
// mirror are in, has that prevote in its own round store at the next
// quiescence point. (Not evaluated when the machine logged an error, e.g. the
// refused double action after a restart inside a round it had already voted in.)
func (x *nsExec) checkParticipation(n *nsNode) {
	n.mu.Lock()
	d, errs, inc := n.prevoteDec, n.errLogsInc, n.incarnation
	n.prevoteDec.Set = false
	n.mu.Unlock()
	if !d.Set || !n.alive || errs > 0 || d.Inc != inc {
		return
	}
	p := x.pos(n)
	if p.SH != d.H || p.SR != d.R || p.VH != d.H || p.VR != d.R {
		return
	}
	_, pvc, _ := x.roundState(n, d.H, d.R)
	want := string(nsKeyID(n.valIdx))
	for _, sigs := range pvc.BlockSignatures {
		for _, sg := range sigs {
			if string(sg.KeyID) == want {
				return
			}
		}
	}
	x.failf("", "participation", "node %d (validator %d of the prescribed set, incarnation %d) decided its prevote for height %d round %d, machine and mirror are both in that round, but no prevote of its key is in its round store", n.idx, n.valIdx, inc, d.H, d.R)
}

// ---------------------------------------------------------------------------
// Oracle.

// nsNoCert (development aid for sensitivity runs) switches the two certificate
// clauses off so that only agreement/contiguity decide.
var nsNoCert = os.Getenv("NS_NOCERT") != ""

type nsAgreed struct {
	hash string
	by   string
}

type nsOracle struct {
	agreed map[uint64]nsAgreed
	certOK map[string]struct{}
}

func (x *nsExec) agree(o *nsOracle, h uint64, hash, who string) {
	a, ok := o.agreed[h]
	if !ok {
		o.agreed[h] = nsAgreed{hash: hash, by: who}
		return
	}
	if a.hash != hash {
		x.failf("", "agreement", "height %d: %s has block %s but %s has block %s", h, a.by, nsShort([]byte(a.hash)), who, nsShort([]byte(hash)))
	}
}

func (x *nsExec) check(o *nsOracle, final bool) {
	for _, n := range x.nodes {
		n.mu.Lock()
		fins := append([]nsFin(nil), n.fins...)
		viol := n.viol
		n.viol = nil
		n.mu.Unlock()
		for _, v := range viol {
			x.failf("", v.clause, "%s", v.detail)
		}
		x.checkParticipation(n)
		for i := range fins {
			f := fins[i]
			if f.checked {
				continue
			}
			who := fmt.Sprintf("node %d finalize request #%d", n.idx, f.Seq)
			// contiguity
			switch {
			case f.H == n.nextFin:
				n.nextFin++
				n.lastFinHash = f.Hash
			case f.H+1 == n.nextFin && f.FirstOfInc && f.Incarnation > 0 && f.Hash == n.lastFinHash:
				x.count("refinalize-after-restart")
			default:
				x.failf("", "contiguous", "%s is for height %d block %s, expected height %d (incarnation %d, first request of it: %v)", who, f.H, nsShort([]byte(f.Hash)), n.nextFin, f.Incarnation, f.FirstOfInc)
			}
			if !x.w.byzPowerOK(f.H) {
				x.failf("", "harness", "Byzantine power is not below 1/3 at height %d", f.H)
			}
			x.agree(o, f.H, f.Hash, who)
			// C01 driver clause: certificate in the node's own stores.
			var sigs []gcrypto.SparseSignature
			_, _, pcc := x.roundState(n, f.H, f.R)
			sigs = append(sigs, pcc.BlockSignatures[f.Hash]...)
			if ch, err := n.chs.LoadCommittedHeader(x.ctx, f.H); err == nil && string(ch.Header.Hash) == f.Hash && ch.Proof.Round == f.R {
				sigs = append(sigs, ch.Proof.Proofs[f.Hash]...)
			}
			got, total, signers := x.w.certPower(f.H, f.R, f.Hash, sigs)
			if !nsIsQuorum(got, total) && !nsNoCert {
				x.failf("", "c01-driver-cert", "%s for height %d round %d block %s is backed by verified precommit power %s of %s (signers %v) in the node's own stores", who, f.H, f.R, nsShort([]byte(f.Hash)), got, total, signers)
			}
			n.mu.Lock()
			n.fins[i].checked = true
			n.mu.Unlock()
		}
		// committed header store
		_, _, ch, _, err := n.ms.NetworkHeightRound(x.ctx)
		if err != nil {
			continue
		}
		lo := x.c.H0
		if !final && ch > lo+2 {
			lo = ch - 2
		}
		for h := lo; h <= ch+1; h++ {
			c, err := n.chs.LoadCommittedHeader(x.ctx, h)
			if err != nil {
				continue
			}
			x.agree(o, h, string(c.Header.Hash), fmt.Sprintf("node %d committed header store", n.idx))
			// C01 on the mirror's own record: the stored commit proof (plus what the round
			// store holds for that round) must be a > 2/3 certificate of the prescribed set.
			ck := fmt.Sprintf("%d|%d|%x|%d", n.idx, h, c.Header.Hash, c.Proof.Round)
			if _, done := o.certOK[ck]; done {
				continue
			}
			hash := string(c.Header.Hash)
			sigs := append([]gcrypto.SparseSignature(nil), c.Proof.Proofs[hash]...)
			_, _, pcc := x.roundState(n, h, c.Proof.Round)
			sigs = append(sigs, pcc.BlockSignatures[hash]...)
			got, total, signers := x.w.certPower(h, c.Proof.Round, hash, sigs)
			if !nsIsQuorum(got, total) && !nsNoCert {
				x.failf("", "c01-store-cert", "node %d committed header store holds height %d round %d block %s backed by verified precommit power %s of %s (signers %v)", n.idx, h, c.Proof.Round, nsShort(c.Header.Hash), got, total, signers)
			} else {
				o.certOK[ck] = struct{}{}
			}
		}
	}
}

// ---------------------------------------------------------------------------
// Case execution.

type nsOutcome struct {
	restartInitial    int64 // restarts executed while the node was still at the initial height
	restartInitialOvr int64 // ... on a chain whose InitChain overrode the genesis document
	fail              *nsFailure
	nontriv           bool
	labels            []string
	cnt               map[string]int64
	heights           int
	finalized         []int
}

func nsRunCase(t *testing.T, st *vk.Stats, c nsCase) nsOutcome {
	var out nsOutcome
	synctest.Test(t, func(t *testing.T) {
		x := nsNewExec(st, c)
		x.ctx, x.cancel = context.WithCancel(context.Background())
		x.closed = make(chan struct{})
		close(x.closed)
		nn := len(x.w.correct)
		x.seenSig = make([]map[string]struct{}, nn)
		x.seenPH = make([]map[string]struct{}, nn)
		x.delivered = make([][]*nsMsg, nn)
		x.restartSM = make([]nsHR, nn)
		x.maxDeliveredHR = make([]nsHR, nn)
		for i := 0; i < nn; i++ {
			x.seenSig[i] = map[string]struct{}{}
			x.seenPH[i] = map[string]struct{}{}
			n := nsNewNode(x.w, i)
			n.x = x
			x.nodes = append(x.nodes, n)
		}
		for h := c.H0; h < c.H0+12; h++ {
			if !x.w.byzPowerOK(h) {
				x.failf("", "harness", "generated Byzantine power is not below 1/3 at height %d", h)
			}
		}
		o := &nsOracle{agreed: map[uint64]nsAgreed{}, certOK: map[string]struct{}{}}
		if x.fail == nil {
			for _, n := range x.nodes {
				if err := n.start(x.ctx); err != nil {
					x.failf("", "harness", "%v", err)
					break
				}
			}
			x.quiesce()
		}
		for _, op := range c.Ops {
			if x.fail != nil {
				break
			}
			atomic.AddInt64(&x.now, 1)
			x.step(op)
			if x.fail == nil {
				x.quiesce()
				x.check(o, false)
			}
			x.noteLocks()
			if nsTraceOn {
				var b strings.Builder
				for _, n := range x.nodes {
					p := x.pos(n)
					n.mu.Lock()
					fmt.Fprintf(&b, " | n%d %s fin=%d lock=%s", n.idx, p, n.nextFin-c.H0, nsShort([]byte(n.lock.Hash)))
					n.mu.Unlock()
				}
				x.trace("%v pending=%d%s", op, len(x.pending), b.String())
				if os.Getenv("NS_TRACE") == "2" {
					for i, pe := range x.pending {
						nsig := 0
						for _, sg := range pe.m.proofs {
							nsig += len(sg)
						}
						x.trace("    pending[%d] from=%d dest=%d %s %d/%d targets=%d sigs=%d", i, pe.m.from, pe.dest, nsKindName(pe.m.kind), pe.m.h, pe.m.r, len(pe.m.proofs), nsig)
					}
				}
			}
		}
		if x.fail == nil {
			x.check(o, true)
		}
		// Classification.
		maxRound := uint32(0)
		lockCarried := false
		for _, n := range x.nodes {
			n.mu.Lock()
			if n.maxRound > maxRound {
				maxRound = n.maxRound
			}
			lockCarried = lockCarried || n.lockCarried
			out.finalized = append(out.finalized, int(n.nextFin-c.H0))
			n.mu.Unlock()
		}
		for _, n := range x.nodes {
			n.mu.Lock()
			for _, m := range n.errLogs {
				x.count("errlog:" + m)
			}
			n.mu.Unlock()
		}
		two := 0
		for _, k := range out.finalized {
			if k >= 2 {
				two++
			}
			if k > out.heights {
				out.heights = k
			}
		}
		if maxRound >= 1 {
			x.faultTimeout = x.faultTimeout || true
		}
		fault := x.faultReorder || x.faultTimeout || x.faultByz || x.faultRestart
		out.nontriv = two >= 2 && fault
		lab := func(b bool, s string) {
			if b {
				out.labels = append(out.labels, s)
			}
		}
		lab(maxRound >= 1, "round>=1")
		lab(maxRound >= 2, "round>=2")
		lab(lockCarried, "lock-carried-across-rounds")
		lab(x.cnt["op:split"] > 0, "split")
		lab(x.splitWithLock, "split-while-locked")
		lab(x.conflictingLocks, "conflicting-locks")
		lab(x.cnt["op:lc"] > 0, "lc-macro")
		lab(x.cnt["op:iso"] > 0, "iso-macro")
		lab(x.cnt["res:ph:Accepted"] > 0 && x.cnt["next-height-ph"] > 0, "next-height-proposal-offered")
		lab(x.cnt["split:byz-proposer"] > 0, "split-byz-proposer")
		lab(x.faultReorder, "fault:reorder-across-rounds")
		lab(x.faultTimeout, "fault:timeout")
		lab(x.faultByz, "fault:byzantine-delivered")
		lab(x.faultRestart, "fault:restart")
		lab(x.faultDropDup, "drop-or-dup")
		lab(x.cnt["op:part"] > 0, "partition")
		lab(c.ValChange > 0, "valchange")
		out.labels = append(out.labels, "doc="+[]string{"same", "other-powers", "subset", "superset", "none"}[c.Doc])
		lab(x.cnt["restart:mirror-voting-initial-height"] > 0, "restart@mirror-voting-initial-height")
		lab(x.cnt["restart:mirror-committing-initial-height"] > 0, "restart@mirror-committing-initial-height")
		lab(x.cnt["restart:machine-in-initial-height"] > 0, "restart@machine-in-initial-height")
		lab(x.cnt["restart:initial-height+initchain-override"] > 0, "restart@initial-height+initchain-override")
		out.restartInitial = x.cnt["restart:mirror-voting-initial-height"] + x.cnt["restart:mirror-committing-initial-height"] + x.cnt["restart:machine-in-initial-height"]
		out.restartInitialOvr = x.cnt["restart:initial-height+initchain-override"]
		lab(two >= 2, "two-nodes-two-heights")
		lab(out.heights == 0, "heights=0")
		lab(out.heights == 1, "heights=1")
		lab(out.heights >= 2 && out.heights < 4, "heights=2-3")
		lab(out.heights >= 4, "heights>=4")
		lab(x.cnt["refinalize-after-restart"] > 0, "refinalize-after-restart")
		out.labels = append(out.labels, fmt.Sprintf("correct=%d", nn), fmt.Sprintf("byz=%d", len(x.w.byz)))
		out.cnt = x.cnt
		out.fail = x.fail

		// Shut everything down so the bubble can end.
		for _, n := range x.nodes {
			n.stop()
		}
		x.cancel()
		nsWait()
	})
	return out
}

// nsMode is what distinguishes the three test functions that share the interpreter.
type nsMode struct {
	prop, test string
	// nontrivial decides the evidence class of an executed case (nil: the C03 rule).
	nontrivial func(c nsCase, out nsOutcome) bool
}

func nsRun(t *testing.T, ft vk.TB, st *vk.Stats, c nsCase) {
	nsRunMode(t, ft, st, c, nsMode{prop: "C03", test: "TestVerifC03Agreement"})
}

func nsRunMode(t *testing.T, ft vk.TB, st *vk.Stats, c nsCase, m nsMode) {
	if msg := nsValidate(c); msg != "" {
		ft.Fatalf("invalid case: %s", msg)
	}
	if st.WantSample() {
		st.Sample(c)
	}
	st.WAL(c)
	if m.prop == "C03" {
		nsWAL(c)
	}
	var out nsOutcome
	st.Guard(ft, c, func() {
		out = nsRunCase(t, st, c)
	})
	nontriv := out.nontriv
	if m.nontrivial != nil {
		nontriv = m.nontrivial(c, out)
	}
	st.Case(nontriv, vk.FP(c), out.labels...)
	for k, v := range out.cnt {
		if strings.HasPrefix(k, "held:") || strings.HasPrefix(k, "reoffer:") || strings.HasPrefix(k, "res:") || strings.HasPrefix(k, "split:") || strings.HasPrefix(k, "op:") || strings.HasPrefix(k, "byz:") || strings.HasPrefix(k, "errlog:") || strings.HasPrefix(k, "restart:") || k == "next-height-ph" {
			st.LabelN("n:"+k, v)
		}
	}
	if out.fail != nil {
		st.Fail(ft, c, out.fail.finding, out.fail.clause, "%s", out.fail.detail)
	}
}

// nsWAL rewrites the write-ahead file of st.WAL with a default attribution:
// the only listed finding whose trigger the harness cannot evaluate is the
// scheduler-dependent StandardRoundTimer race (C03-A21), so a process death is
// attributed to it; the driver still requires the panic text to match that
// finding's site, every other death stays a VIOLATION.
func nsWAL(c nsCase) {
	if vk.OutDir() == "" || !vk.Excluded(nsFA21) {
		return
	}
	cb, err := json.Marshal(c)
	if err != nil {
		return
	}
	f := vk.Failure{Property: "C03", Test: "TestVerifC03Agreement", Clause: "process-death", Finding: nsFA21, Case: cb}
	b, _ := json.Marshal(f)
	_ = os.WriteFile(filepath.Join(vk.OutDir(), fmt.Sprintf("C03-TestVerifC03Agreement-s%d.wal.json", vk.Shard())), b, 0o644)
}

func nsValidate(c nsCase) string {
	if len(c.Powers) != len(c.Byz) || len(c.Powers) < 2 || len(c.Powers) > 8 {
		return "powers/byz length"
	}
	nc := 0
	var tot, bz uint64
	for i, p := range c.Powers {
		if p == 0 || p > 1<<40 {
			return "power out of range"
		}
		tot += p
		if c.Byz[i] {
			bz += p
		} else {
			nc++
		}
	}
	if nc < 2 || nc > 5 {
		return "need 2..5 correct nodes"
	}
	if 3*bz >= tot {
		return "Byzantine power must be < 1/3"
	}
	if c.H0 == 0 {
		return "h0"
	}
	if c.Doc < 0 || c.Doc > 4 || c.DocArg < 0 {
		return "doc"
	}
	return ""
}

// ---------------------------------------------------------------------------
// Generator.

func nsGenConfig(rt *rapid.T) nsCase {
	var c nsCase
	nc := rapid.SampledFrom([]int{2, 3, 4, 4, 5, 5}).Draw(rt, "correct")
	maxByz := 2
	nb := rapid.IntRange(0, maxByz).Draw(rt, "byz")
	if os.Getenv("NS_NOBYZ") != "" {
		nb = 0 // finding hunts: honest schedules only
	}
	class := rapid.IntRange(0, 3).Draw(rt, "powerclass")
	var cp, bp []uint64
	switch class {
	case 0: // equal
		for i := 0; i < nc; i++ {
			cp = append(cp, 1)
		}
		for nb > 0 && 3*nb >= nc+nb {
			nb--
		}
		for i := 0; i < nb; i++ {
			bp = append(bp, 1)
		}
	case 1: // near threshold: Byzantine power is the largest value below 1/3
		tot := uint64(rapid.SampledFrom([]int{10, 31, 100, 100, 1000}).Draw(rt, "total"))
		byzTot := (tot - 1) / 3
		if nb == 0 {
			byzTot = 0
		}
		cp = nsSplitPower(rt, tot-byzTot, nc, "cpow")
		if nb > 0 {
			bp = nsSplitPower(rt, byzTot, nb, "bpow")
		}
	case 2: // one dominant correct validator
		for i := 0; i < nc; i++ {
			cp = append(cp, uint64(rapid.IntRange(1, 5).Draw(rt, "p")))
		}
		cp[rapid.IntRange(0, nc-1).Draw(rt, "dom")] = uint64(rapid.IntRange(30, 80).Draw(rt, "dompow"))
		for i := 0; i < nb; i++ {
			bp = append(bp, uint64(rapid.IntRange(1, 6).Draw(rt, "bp")))
		}
	default:
		for i := 0; i < nc; i++ {
			cp = append(cp, uint64(rapid.IntRange(1, 12).Draw(rt, "p")))
		}
		for i := 0; i < nb; i++ {
			bp = append(bp, uint64(rapid.IntRange(1, 8).Draw(rt, "bp")))
		}
	}
	// Repair: Byzantine power strictly below 1/3 of the total.
	for len(bp) > 0 && 3*nsSum(bp) >= nsSum(cp)+nsSum(bp) {
		i := len(bp) - 1
		if bp[i] > 1 {
			bp[i]--
		} else {
			bp = bp[:i]
		}
	}
	// Positions of the Byzantine validators in the validator order.
	n := len(cp) + len(bp)
	isByz := make([]bool, n)
	for range bp {
		for {
			i := rapid.IntRange(0, n-1).Draw(rt, "byzpos")
			if !isByz[i] {
				isByz[i] = true
				break
			}
		}
	}
	ci, bi := 0, 0
	for i := 0; i < n; i++ {
		if isByz[i] {
			c.Powers = append(c.Powers, bp[bi])
			bi++
		} else {
			c.Powers = append(c.Powers, cp[ci])
			ci++
		}
	}
	c.Byz = isByz
	c.H0 = uint64(rapid.SampledFrom([]int{1, 1, 1, 5}).Draw(rt, "h0"))
	// What the genesis document says about validators (0: the truth; else InitChain overrides it).
	c.Doc = rapid.SampledFrom([]int{0, 0, 0, 0, 1, 2, 3, 4}).Draw(rt, "doc")
	if c.Doc != 0 {
		c.DocArg = rapid.IntRange(0, 7).Draw(rt, "docarg")
	}
	if rapid.IntRange(0, 3).Draw(rt, "valchange") == 0 && os.Getenv("NS_NOVALCHANGE") == "" {
		c.ValChange = rapid.IntRange(1, 2).Draw(rt, "valchangeEvery")
	}
	return c
}

// nsSplitPower splits tot into k positive parts.
func nsSplitPower(rt *rapid.T, tot uint64, k int, label string) []uint64 {
	if uint64(k) > tot {
		k = int(tot)
	}
	out := make([]uint64, k)
	for i := range out {
		out[i] = 1
	}
	rest := tot - uint64(k)
	for i := 0; i < k-1 && rest > 0; i++ {
		x := uint64(rapid.Uint64Range(0, rest).Draw(rt, label))
		if rapid.Bool().Draw(rt, label+"even") {
			x = rest / uint64(k-i)
		}
		out[i] += x
		rest -= x
	}
	out[k-1] += rest
	return out
}

func nsGenOps(rt *rapid.T, maxOps int) []nsOp {
	var ops []nsOp
	small := func(label string) int { return rapid.IntRange(0, 63).Draw(rt, label) }
	nPhr := rapid.IntRange(4, 60).Draw(rt, "phrases")
	for i := 0; i < nPhr && len(ops) < maxOps; i++ {
		switch k := rapid.IntRange(0, 99).Draw(rt, "phrase"); {
		case k < 16: // make progress
			ops = append(ops, nsOp{K: "settle", A: small("a")})
		case k < 26:
			ops = append(ops, nsOp{K: "t", A: small("a")})
		case k < 34: // settle, then let the commit wait / timeouts elapse
			ops = append(ops, nsOp{K: "settle", A: 3}, nsOp{K: "t", A: rapid.IntRange(1, 4).Draw(rt, "a")})
		case k < 43: // fine-grained deliveries
			for j := rapid.IntRange(1, 6).Draw(rt, "n"); j > 0; j-- {
				ops = append(ops, nsOp{K: "d", A: rapid.IntRange(0, 400).Draw(rt, "a")})
			}
		case k < 48:
			ops = append(ops, nsOp{K: "dn", A: small("a"), B: small("b")})
		case k < 54:
			ops = append(ops, nsOp{K: "dk", A: small("a"), B: small("b"), C: small("c")})
		case k < 56:
			ops = append(ops, nsOp{K: "df", A: small("a")})
		case k < 60:
			ops = append(ops, nsOp{K: "drop", A: rapid.IntRange(0, 400).Draw(rt, "a")})
		case k < 62:
			ops = append(ops, nsOp{K: "dropn", A: small("a")})
		case k < 65:
			ops = append(ops, nsOp{K: "dup", A: small("a"), B: rapid.IntRange(0, 400).Draw(rt, "b")})
		case k < 69:
			ops = append(ops, nsOp{K: "part", A: small("a")})
		case k < 72:
			ops = append(ops, nsOp{K: "heal"})
		case k < 76:
			ops = append(ops, nsOp{K: "restart", A: small("a")})
		case k < 79:
			ops = append(ops, nsOp{K: "bprop", A: small("a"), B: small("b"), C: small("c")})
		case k < 80:
			ops = append(ops, nsOp{K: "bvote", A: small("a"), B: small("b"), C: small("c")})
		case k < 81:
			ops = append(ops, nsOp{K: "bfollow", A: small("a")})
		case k < 82:
			ops = append(ops, nsOp{K: "bforge", A: small("a"), B: small("b"), C: small("c")})
		case k < 85: // withhold the proposal, then time out
			ops = append(ops, nsOp{K: "wh"}, nsOp{K: "t", A: 3}, nsOp{K: "settle", A: small("a")})
		case k < 87: // prevotes to one node only, then time out
			d := rapid.IntRange(0, 31).Draw(rt, "node")
			ops = append(ops, nsOp{K: "dk", A: 63, B: 0, C: 39}, nsOp{K: "dk", A: d, B: 1, C: 39}, nsOp{K: "t", A: 2}, nsOp{K: "dk", A: d, B: 3, C: 39}, nsOp{K: "t", A: 2})
		case k < 93: // lock-carry macro; optionally attack the next round while the lock exists
			ops = append(ops, nsOp{K: "lc", A: small("a"), B: small("b")})
			if rapid.Bool().Draw(rt, "thensplit") {
				m := small("mask")
				ops = append(ops, nsOp{K: "split", A: m, B: small("vmask"), C: small("c")})
			}
			ops = append(ops, nsOp{K: "settle", A: small("s")}, nsOp{K: "t", A: rapid.IntRange(1, 3).Draw(rt, "t")}, nsOp{K: "settle", A: 3})
		case k < 95: // isolate one node, then let the rest move on with Byzantine help
			ops = append(ops, nsOp{K: "iso", A: small("a"), B: small("b")}, nsOp{K: "settle", A: 3}, nsOp{K: "t", A: rapid.IntRange(1, 3).Draw(rt, "t")},
				nsOp{K: "settle", A: 3}, nsOp{K: "bfollow", A: small("f")}, nsOp{K: "settle", A: 3}, nsOp{K: "t", A: 1}, nsOp{K: "settle", A: 3})
		default: // the split macro, usually inside the matching partition
			m := small("mask")
			mv := m
			if rapid.IntRange(0, 2).Draw(rt, "samemask") == 0 {
				mv = small("vmask")
			}
			if rapid.IntRange(0, 3).Draw(rt, "withpart") > 0 {
				ops = append(ops, nsOp{K: "part", A: m})
			}
			ops = append(ops, nsOp{K: "split", A: m, B: mv, C: small("c")},
				nsOp{K: "settle", A: small("s")}, nsOp{K: "t", A: rapid.IntRange(1, 3).Draw(rt, "t")},
				nsOp{K: "settle", A: small("s2")})
			if rapid.Bool().Draw(rt, "heal") {
				ops = append(ops, nsOp{K: "heal"}, nsOp{K: "settle", A: 3})
			}
		}
	}
	if len(ops) > maxOps {
		ops = ops[:maxOps]
	}
	return ops
}

func nsGenCase(rt *rapid.T) nsCase {
	c := nsGenConfig(rt)
	c.Ops = nsGenOps(rt, 400)
	return c
}

// nsGenRestartCase generates the schedules of the two engine-restart tests:
// some activity inside the initial height, restarts of one or two nodes while the
// chain is still there (voting it, or committing it right after the first commit),
// then a benign network, optionally followed by more of the general schedule.
func nsGenRestartCase(rt *rapid.T) nsCase {
	c := nsGenConfig(rt)
	// Mostly chains whose real initial set is not the one in the genesis document.
	c.Doc = rapid.SampledFrom([]int{0, 1, 1, 2, 2, 3, 3, 4, 4, 4}).Draw(rt, "doc2")
	c.DocArg = 0
	if c.Doc != 0 {
		c.DocArg = rapid.IntRange(0, 7).Draw(rt, "docarg2")
	}
	small := func(label string) int { return rapid.IntRange(0, 63).Draw(rt, label) }
	var ops []nsOp
	restart := func() {
		ops = append(ops, nsOp{K: "restart", A: small("node")})
	}
	for round := rapid.IntRange(1, 2).Draw(rt, "rounds"); round > 0; round-- {
		switch rapid.IntRange(0, 8).Draw(rt, "before") {
		case 0: // nothing: restart a node that has seen nothing yet
		case 1: // the proposal only
			ops = append(ops, nsOp{K: "dk", A: 63, B: 0, C: 39})
		case 2: // a few messages
			for j := rapid.IntRange(1, 8).Draw(rt, "n"); j > 0; j-- {
				ops = append(ops, nsOp{K: "d", A: rapid.IntRange(0, 60).Draw(rt, "i")})
			}
		case 3: // proposal and prevotes, no precommits
			ops = append(ops, nsOp{K: "dk", A: 63, B: 2, C: 39}, nsOp{K: "dk", A: 63, B: 2, C: 39})
		case 4: // part of a round
			ops = append(ops, nsOp{K: "settle", A: 0})
		case 5: // the first commit: mirrors are committing the initial height, machines wait
			ops = append(ops, nsOp{K: "settle", A: 3})
		case 6: // ... and the machines have entered the second height
			ops = append(ops, nsOp{K: "settle", A: 3}, nsOp{K: "t", A: 1})
		case 7: // proposal withheld: the initial height goes to round 1
			ops = append(ops, nsOp{K: "wh"}, nsOp{K: "t", A: 3}, nsOp{K: "settle", A: small("s")})
		default: // lock carried into round 1 of the initial height
			ops = append(ops, nsOp{K: "lc", A: small("a"), B: small("b")})
		}
		restart()
		if rapid.IntRange(0, 2).Draw(rt, "second") == 0 {
			if rapid.Bool().Draw(rt, "between") {
				ops = append(ops, nsOp{K: "df", A: small("k")})
			}
			restart()
		}
		// benign network afterwards
		for j := rapid.IntRange(1, 4).Draw(rt, "after"); j > 0; j-- {
			ops = append(ops, nsOp{K: "settle", A: 3}, nsOp{K: "t", A: rapid.IntRange(1, 3).Draw(rt, "t")})
		}
		ops = append(ops, nsOp{K: "settle", A: 3})
	}
	if rapid.IntRange(0, 3).Draw(rt, "tail") == 0 {
		ops = append(ops, nsGenOps(rt, 40)...)
	}
	c.Ops = ops
	return c
}

const nsRestartRule = "case = netsim configuration (2-5 real engines, 0-2 Byzantine keys, genesis document that declares the chain's initial validator set / other powers / a subset / a superset / no validators, with the application's InitChain response overriding it) and a schedule of the form: activity inside the initial height, restart of one or two nodes while mirror or state machine are still at the initial height, benign network; non-trivial = at least one such restart was executed and >= 2 correct nodes finalized >= 1 height afterwards; distinct = distinct JSON of the case"

func nsRestartNontrivial(needOverride bool) func(c nsCase, out nsOutcome) bool {
	return func(c nsCase, out nsOutcome) bool {
		n := 0
		for _, k := range out.finalized {
			if k >= 1 {
				n++
			}
		}
		if needOverride {
			return out.restartInitialOvr > 0 && n >= 2
		}
		return out.restartInitial > 0 && n >= 2
	}
}

func nsRestartTest(t *testing.T, m nsMode) {
	st := vk.NewStats(m.prop, m.test, nsRestartRule)
	defer st.Flush()
	var c nsCase
	if ok, err := vk.LoadReplay(m.prop, m.test, &c); err != nil {
		t.Fatal(err)
	} else if ok {
		nsRunMode(t, t, st, c, m)
		return
	} else if vk.Replaying() {
		t.Skip("replay file is for another test")
	}
	rapid.Check(t, func(rt *rapid.T) {
		nsRunMode(t, rt, st, nsGenRestartCase(rt), m)
	})
}

// C07 (engine level): after a restart inside the initial height the node keeps
// validating and voting with the set the chain really started with.
func TestVerifC07EngineRestartSets(t *testing.T) {
	nsRestartTest(t, nsMode{prop: "C07", test: "TestVerifC07EngineRestartSets", nontrivial: nsRestartNontrivial(true)})
}

// C10 (engine level): a restarted engine resumes without loss or regression.
func TestVerifC10EngineRestart(t *testing.T) {
	nsRestartTest(t, nsMode{prop: "C10", test: "TestVerifC10EngineRestart", nontrivial: nsRestartNontrivial(false)})
}

// ---------------------------------------------------------------------------

func TestVerifC03Agreement(t *testing.T) { nsAgreementTest(t, "TestVerifC03Agreement") }

// The same schedules in a build with the data race detector (thorough tier only): whole engines,
// i.e. mirror kernel, state machine, gossip strategy and round timer of each node running together.
func TestVerifC03AgreementDetector(t *testing.T) { nsAgreementTest(t, "TestVerifC03AgreementDetector") }

func nsAgreementTest(t *testing.T, name string) {
	st := vk.NewStats("C03", name, nsRule)
	defer st.Flush()
	var c nsCase
	if ok, err := vk.LoadReplay("C03", name, &c); err != nil {
		t.Fatal(err)
	} else if ok {
		nsRun(t, t, st, c)
		return
	} else if vk.Replaying() {
		t.Skip("replay file is for another test")
	}
	rapid.Check(t, func(rt *rapid.T) {
		c := nsGenCase(rt)
		nsRun(t, rt, st, c)
	})
}
