package tmengine_test

// netsim (C03): the harness-owned network, node positions read from the
// stores, the hold-back rules (DESIGN 3.3 / Appendix A) and message delivery.

import (
	"context"
	"errors"
	"fmt"
	"os"
	"sort"
	"strings"
	"sync/atomic"
	"time"

	"github.com/gordian-engine/gordian/gcrypto"
	"github.com/gordian-engine/gordian/internal/zzverif/vk"
	"github.com/gordian-engine/gordian/tm/tmconsensus"
	"github.com/gordian-engine/gordian/tm/tmstore"
)

// Finding ids (property C03). A rule is active only while its finding is listed.
const (
	nsFA1  = "C03-A1"  // PH round beyond committing round
	nsFA2  = "C03-A2"  // PH round beyond voting round + 1
	nsFA3  = "C03-A3"  // vote for committing height, round beyond committing round
	nsFA4  = "C03-A4"  // PH for voting height + 1 that does not commit voting height: livelock
	nsFA5  = "C03-A5"  // majority precommit for NextRound
	nsFA6  = "C03-A6"  // PH PrevCommitProof key absent from committing view
	nsFA7  = "C03-A7"  // round entrance for a view the mirror left / not reached
	nsFA7b = "C03-A7b" // round entrance above the round in which the mirror committed that height (WrongCommit)
	nsFA15 = "C03-A15" // round entered with majority power present but no majority target
	nsFA16 = "C03-A16" // mirror commits the next height while its machine is stuck above the committing round
	nsFA17 = "C03-A17" // mirror fed next-height traffic while state machine is still on the committing height
	nsFA21 = "C03-A21" // StandardRoundTimer start/cancel race (scheduler dependent, cannot be excluded)
	nsFR1  = "C03-R1"  // restart before the first round change: zero Genesis handed to the state machine
	nsFS1  = "C03-S1"  // replay of a header committed in round > 0: finalize response round mismatch
	nsFS2  = "C03-S2"  // mirror commits round r while its state machine already acts in round r+1
)

type nsMsg struct {
	id     int
	from   int // node index, -1 = Byzantine
	kind   int
	h      uint64
	r      uint32
	ph     tmconsensus.ProposedHeader
	pkh    string
	proofs map[string][]gcrypto.SparseSignature
	key    string
}

type nsPend struct {
	m    *nsMsg
	dest int
}

type nsPos struct {
	SH     uint64
	SR     uint32
	VH, CH uint64
	VR, CR uint32
}

func (p nsPos) String() string {
	return fmt.Sprintf("sm=%d/%d voting=%d/%d committing=%d/%d", p.SH, p.SR, p.VH, p.VR, p.CH, p.CR)
}

type nsFailure struct {
	finding, clause, detail string
}

type nsExec struct {
	st *vk.Stats
	c  nsCase
	w  *nsWorld

	ctx    context.Context
	cancel context.CancelFunc
	closed chan struct{}

	nodes []*nsNode

	nextID   int
	pending  []nsPend
	pendKeys map[string]struct{}
	// per node
	seenSig   []map[string]struct{}
	seenPH    []map[string]struct{}
	delivered [][]*nsMsg
	restartSM []nsHR // state machine store value at last restart (for the finalization bump)
	part      []int  // partition group per node (nil: none)

	knownPH []tmconsensus.ProposedHeader

	fail *nsFailure

	// classification
	cnt              map[string]int64
	heldOnce         map[string]struct{}
	holdCache        map[string]nsPos // pending entry -> node position at which a position-only rule held it
	lastHoldPosOnly  bool
	lastHoldPos      nsPos
	napping          int64 // state machines currently inside a timeout-strategy nap
	faultReorder     bool
	faultTimeout     bool
	faultByz         bool
	faultRestart     bool
	faultDropDup     bool
	splitWithLock    bool
	conflictingLocks bool
	maxDeliveredHR   []nsHR
	now              int64 // op counter
}

type nsHR struct {
	H uint64
	R uint32
}

func (a nsHR) less(b nsHR) bool { return a.H < b.H || (a.H == b.H && a.R < b.R) }

func (x *nsExec) count(k string) { x.cnt[k]++ }

// hold records one rejected step. The same (message part, node, rule) is
// counted once as a rejected step ("held:") however often a later bulk op
// re-offers it; every re-offer is counted under "reoffer:".
func (x *nsExec) hold(id, what string) {
	k := id + "|" + what
	if _, dup := x.heldOnce[k]; dup {
		x.cnt["reoffer:"+id]++
		return
	}
	x.heldOnce[k] = struct{}{}
	x.cnt["held:"+id]++
	x.st.Excluded(id)
}

var nsTraceOn = os.Getenv("NS_TRACE") != ""

func (x *nsExec) trace(format string, a ...any) {
	if nsTraceOn {
		fmt.Fprintf(os.Stderr, "[ns %3d] "+format+"\n", append([]any{x.now}, a...)...)
	}
}

func (x *nsExec) failf(finding, clause, format string, a ...any) {
	if x.fail == nil {
		x.fail = &nsFailure{finding: finding, clause: clause, detail: fmt.Sprintf(format, a...)}
	}
}

// ---------------------------------------------------------------------------
// Positions.

func (x *nsExec) pos(n *nsNode) nsPos {
	var p nsPos
	vh, vr, ch, cr, err := n.ms.NetworkHeightRound(x.ctx)
	if err != nil {
		vh = x.c.H0
	}
	p.VH, p.VR, p.CH, p.CR = vh, vr, ch, cr
	sh, sr, err := n.sms.StateMachineHeightRound(x.ctx)
	if err != nil {
		sh, sr = x.c.H0, 0
	}
	sm := nsHR{sh, sr}
	// After a restart the machine enters the first height without a stored
	// finalization, without writing the store until its next advance.
	if n.incarnation > 0 && sm.less(x.restartSM[n.idx]) {
		sm = x.restartSM[n.idx]
	}
	n.mu.Lock()
	e := nsHR{n.enterH, n.enterR}
	n.mu.Unlock()
	if sm.less(e) {
		sm = e
	}
	p.SH, p.SR = sm.H, sm.R
	return p
}

// restartEntry computes the height/round a restarted state machine would enter:
// the stored height/round (initial height, round 0 when never written), moved past
// every height whose finalization is already stored.
func (x *nsExec) restartEntry(n *nsNode) nsHR {
	sh, sr, err := n.sms.StateMachineHeightRound(x.ctx)
	if err != nil {
		sh, sr = x.c.H0, 0
	}
	for {
		if _, _, _, _, err := n.fs.LoadFinalizationByHeight(x.ctx, sh); err != nil {
			break
		}
		sh, sr = sh+1, 0
	}
	return nsHR{sh, sr}
}

// ---------------------------------------------------------------------------
// Engine-style vote arithmetic on the node's stored round state
// (same arithmetic as tmconsensus.VoteSummary).

type nsTally struct {
	total  uint64
	best   uint64
	byHash map[string]uint64
	have   map[string]struct{} // target|keyid
	keys   map[string]struct{} // targets present
	signer map[int]struct{}    // validators counted in total
}

func (x *nsExec) tally(col tmconsensus.SparseSignatureCollection, pows []uint64) nsTally {
	t := nsTally{byHash: map[string]uint64{}, have: map[string]struct{}{}, keys: map[string]struct{}{}, signer: map[int]struct{}{}}
	for _, target := range nsSortedTargets(col.BlockSignatures) {
		t.keys[target] = struct{}{}
		for _, s := range col.BlockSignatures[target] {
			t.add(target, s.KeyID, pows)
		}
	}
	return t
}

// add merges one signature. Like tmconsensus.VoteSummary (after the union-total
// fix) a validator counts once in the total however many targets it signed,
// and once per target in that target's power.
func (t *nsTally) add(target string, keyID []byte, pows []uint64) {
	k := target + "|" + string(keyID)
	if _, dup := t.have[k]; dup || len(keyID) != 2 {
		return
	}
	i := int(keyID[0])<<8 | int(keyID[1])
	if i >= len(pows) {
		return
	}
	t.have[k] = struct{}{}
	if _, counted := t.signer[i]; !counted {
		t.signer[i] = struct{}{}
		t.total += pows[i]
	}
	t.byHash[target] += pows[i]
	if t.byHash[target] > t.best {
		t.best = t.byHash[target]
	}
}

func nsMaj(n uint64) uint64 { return n*2/3 + 1 }
func nsMin(n uint64) uint64 { return (n + 2) / 3 }

// entryStep mirrors tsi.GetStepFromVoteSummary: "pvDelay"/"pcDelay" are the
// two results the state machine cannot start a round in (A15); "commit" with a
// non-nil target in the next-round view is A5.
func nsEntryStep(avail uint64, pv, pc nsTally) string {
	maj, min := nsMaj(avail), nsMin(avail)
	if pc.total >= maj {
		if pc.best >= maj {
			return "commit"
		}
		return "pcDelay"
	}
	if pc.total >= min {
		return "awaitPrecommits"
	}
	if pv.total >= maj {
		if pv.best >= maj {
			return "awaitPrecommits"
		}
		return "pvDelay"
	}
	return "awaitProposal"
}

func (x *nsExec) roundState(n *nsNode, h uint64, r uint32) (phs []tmconsensus.ProposedHeader, pv, pc tmconsensus.SparseSignatureCollection) {
	phs, pv, pc, err := n.rs.LoadRoundState(x.ctx, h, r)
	if err != nil && !errors.As(err, new(tmconsensus.RoundUnknownError)) {
		panic(err)
	}
	return phs, pv, pc
}

// ---------------------------------------------------------------------------
// Hold-back rules. Each returns "" to admit or the id of the finding whose
// trigger predicate is true for this delivery.

// nsEx reports whether the hold-back rule of a finding is active: normally
// while the finding is listed; NS_ONLY=<id> (development aid) activates every
// rule except that one, NS_ALL activates all.
var nsOnly, nsAll, nsOff = os.Getenv("NS_ONLY"), os.Getenv("NS_ALL") != "", os.Getenv("NS_OFF")

func nsEx(id string) bool {
	if nsOff != "" && strings.Contains(","+nsOff+",", ","+id+",") {
		return false // NS_OFF=<id>,<id>: these rules off, everything else as listed
	}
	if nsOnly != "" {
		return id != nsOnly
	}
	if nsAll {
		return true
	}
	return vk.Excluded(id)
}

func nsExcl(ids ...string) bool {
	for _, id := range ids {
		if nsEx(id) {
			return true
		}
	}
	return false
}

func (x *nsExec) admitVote(n *nsNode, p nsPos, kind int, h uint64, r uint32, target string, sig gcrypto.SparseSignature) string {
	if p.CH > 0 && h == p.CH {
		if r > p.CR && nsEx(nsFA3) {
			return nsFA3
		}
		return ""
	}
	if h != p.VH {
		return "" // stale, or beyond the mirror's voting height (stored as a future vote only)
	}
	if r != p.VR && r != p.VR+1 {
		return "" // stale round, or a future round (stored only)
	}
	// The vote lands in the voting or next-round view: the state after merging it decides.
	_, pvc, pcc := x.roundState(n, h, r)
	pows := x.w.powersFor(h)
	avail := nsSum(pows)
	maj, min := nsMaj(avail), nsMin(avail)
	pv, pc := x.tally(pvc, pows), x.tally(pcc, pows)
	if kind == nsKindPrevote {
		pv.add(target, sig.KeyID, pows)
	} else {
		pc.add(target, sig.KeyID, pows)
	}
	step := nsEntryStep(avail, pv, pc)
	nilDone := pc.byHash[""] >= maj || (pc.total == avail && pc.best < maj) // the round ends without a commit
	// lagging: the machine is still on the committing height (commit wait); its next
	// entrance is round 0 of the mirror's voting height.
	lagging := p.SH < p.VH
	if r == p.VR {
		if lagging {
			if (step == "pvDelay" || step == "pcDelay") && nsEx(nsFA15) {
				return nsFA15 // the machine would enter a round that is already in a delay situation
			}
			if kind == nsKindPrecommit && nilDone && nsEx(nsFA7) {
				return nsFA7 // the mirror would leave the round the machine has yet to enter
			}
			if kind == nsKindPrecommit && target != "" && pc.byHash[target] >= maj {
				if id := commitAhead(p); id != "" {
					return id // the mirror would commit a second height ahead of its machine
				}
			}
		}
		if !lagging && p.SR > p.VR && kind == nsKindPrecommit && target != "" && pc.byHash[target] >= maj && nsEx(nsFS2) {
			return nsFS2
		}
		return ""
	}
	// r == p.VR+1
	if lagging {
		if (pv.total >= min || pc.total >= min) && nsEx(nsFA7) {
			return nsFA7 // the mirror would jump to round 1 before the machine entered round 0
		}
		return ""
	}
	switch step {
	case "commit":
		if nsEx(nsFA5) {
			return nsFA5
		}
		if pc.byHash[""] >= maj && p.SR <= p.VR && nsEx(nsFA7) {
			// The mirror jumps into this round and, finding it nil-committed, advances again
			// in the same step; the machine follows the jump by one round only.
			return nsFA7
		}
	case "pcDelay", "pvDelay":
		if nsEx(nsFA15) {
			return nsFA15
		}
	}
	return ""
}

// commitAhead names the rule that forbids a delivery which makes the mirror commit its
// voting height while the machine is still on the committing height.
func commitAhead(p nsPos) string {
	if p.SH >= p.VH {
		return ""
	}
	if p.SH == p.CH && p.SR > p.CR && nsEx(nsFA16) {
		return nsFA16 // the machine is not in commit wait: it is stuck in a later round of that height
	}
	if nsEx(nsFA17) {
		return nsFA17
	}
	return ""
}

// admitPH returns the finding id that forbids the delivery, or "" and whether
// the precommits of the header's previous-commit proof must be offered first.
func (x *nsExec) admitPH(n *nsNode, p nsPos, ph tmconsensus.ProposedHeader) (string, bool) {
	h, r := ph.Header.Height, ph.Round
	if p.CH > 0 && h == p.CH {
		if r > p.CR && nsEx(nsFA1) {
			return nsFA1, false
		}
		return "", false
	}
	if h == p.VH+1 {
		// Catch-up through the previous-commit proof of a next-height header.
		if nsEx(nsFA4) {
			return nsFA4, false
		}
		if ph.Header.PrevCommitProof.Round == p.VR+1 && nsEx(nsFA5) {
			return nsFA5, false
		}
		if id := commitAhead(p); id != "" {
			return id, false // would commit a second height ahead of the machine
		}
		if p.SH < p.VH && ph.Header.PrevCommitProof.Round == p.VR+1 && nsEx(nsFA7) {
			// The proof's precommits make the mirror jump to its next round. Unless it can
			// commit there at once (it holds the committed header in that round), it stays in a
			// round above the one its machine has yet to enter.
			phs, _, _ := x.roundState(n, p.VH, p.VR+1)
			has := false
			for _, k := range phs {
				has = has || string(k.Header.Hash) == string(ph.Header.PrevBlockHash)
			}
			if !has {
				return nsFA7, false
			}
		}
		x.count("next-height-ph")
		return "", false
	}
	if h != p.VH {
		return "", false // stale or too far in the future: answered without touching a view
	}
	if r > p.VR+1 {
		if nsEx(nsFA2) {
			return nsFA2, false
		}
		return "", false
	}
	if r < p.VR {
		return "", false
	}
	if r == p.VR {
		// A header that arrives after its precommit majority makes the mirror commit.
		_, _, pcc := x.roundState(n, h, r)
		pows := x.w.powersFor(h)
		pc := x.tally(pcc, pows)
		if pc.byHash[string(ph.Header.Hash)] >= nsMaj(nsSum(pows)) {
			if p.SH == p.VH && p.SR > p.VR && nsEx(nsFS2) {
				return nsFS2, false
			}
			if id := commitAhead(p); id != "" {
				return id, false
			}
		}
	}
	if h > x.c.H0 && len(ph.Header.PrevCommitProof.Proofs) > 0 && nsEx(nsFA6) {
		_, _, pcc := x.roundState(n, p.CH, p.CR)
		missing := false
		for k := range ph.Header.PrevCommitProof.Proofs {
			if _, ok := pcc.BlockSignatures[k]; !ok {
				missing = true
			}
		}
		if missing {
			if ph.Header.PrevCommitProof.Round == p.CR && h-1 == p.CH {
				return "", true // offer the precommits of the proof first
			}
			return nsFA6, false
		}
	}
	return "", false
}

// ---------------------------------------------------------------------------
// Network.

func (x *nsExec) sameSide(from, dest int) bool {
	if x.part == nil || from < 0 {
		return true
	}
	return x.part[from] == x.part[dest]
}

func (x *nsExec) enqueue(m *nsMsg, dests []int) {
	for _, d := range dests {
		k := fmt.Sprintf("%s>%d", m.key, d)
		if _, dup := x.pendKeys[k]; dup {
			continue
		}
		x.pendKeys[k] = struct{}{}
		x.pending = append(x.pending, nsPend{m: m, dest: d})
	}
}

func (x *nsExec) newVoteMsg(from, kind int, h uint64, r uint32, pkh string, proofs map[string][]gcrypto.SparseSignature) *nsMsg {
	x.nextID++
	return &nsMsg{id: x.nextID, from: from, kind: kind, h: h, r: r, pkh: pkh, proofs: proofs,
		key: nsVoteKey(kind, h, r, pkh, proofs)}
}

func (x *nsExec) newPHMsg(from int, ph tmconsensus.ProposedHeader) *nsMsg {
	x.nextID++
	return &nsMsg{id: x.nextID, from: from, kind: nsKindPH, h: ph.Header.Height, r: ph.Round, ph: ph,
		key: fmt.Sprintf("ph|%x|%x", ph.Header.Hash, ph.Signature)}
}

func (x *nsExec) rememberPH(ph tmconsensus.ProposedHeader) {
	for _, k := range x.knownPH {
		if string(k.Signature) == string(ph.Signature) {
			return
		}
	}
	x.knownPH = append(x.knownPH, ph)
}

// collect moves every node's outbox into the network, in node order.
func (x *nsExec) collect() {
	for _, n := range x.nodes {
		n.mu.Lock()
		out := n.outbox
		n.outbox = nil
		n.mu.Unlock()
		var dests []int
		for d := range x.nodes {
			if d != n.idx {
				dests = append(dests, d)
			}
		}
		for _, o := range out {
			var m *nsMsg
			switch o.kind {
			case nsKindPH:
				m = x.newPHMsg(n.idx, o.ph)
				x.rememberPH(o.ph)
				if o.ph.ProposerPubKey != nil && o.ph.ProposerPubKey.Equal(n.signer.PubKey()) {
					h := o.ph.Header.Height
					if d := nsSameSet(o.ph.Header.ValidatorSet, x.w.valsFor(h)); d != "" {
						x.failf("", "proposed-sets", "node %d proposed header %s for height %d round %d whose ValidatorSet is not the set prescribed for that height: %s", n.idx, nsShort(o.ph.Header.Hash), h, o.ph.Round, d)
					} else if d := nsSameSet(o.ph.Header.NextValidatorSet, x.w.valsFor(h+1)); d != "" {
						x.failf("", "proposed-sets", "node %d proposed header %s for height %d round %d whose NextValidatorSet is not the set prescribed for height %d: %s", n.idx, nsShort(o.ph.Header.Hash), h, o.ph.Round, h+1, d)
					}
				}
			case nsKindPrevote:
				m = x.newVoteMsg(n.idx, o.kind, o.pv.Height, o.pv.Round, o.pv.PubKeyHash, o.pv.Proofs)
			case nsKindPrecommit:
				m = x.newVoteMsg(n.idx, o.kind, o.pc.Height, o.pc.Round, o.pc.PubKeyHash, o.pc.Proofs)
			}
			x.count("sent:" + nsKindName(o.kind))
			x.enqueue(m, dests)
		}
	}
}

func nsKindName(k int) string {
	switch k {
	case nsKindPH:
		return "ph"
	case nsKindPrevote:
		return "prevote"
	default:
		return "precommit"
	}
}

func (x *nsExec) removePending(i int) {
	p := x.pending[i]
	delete(x.pendKeys, fmt.Sprintf("%s>%d", p.m.key, p.dest))
	x.pending = append(x.pending[:i], x.pending[i+1:]...)
}

// quiesce waits for quiescence and moves new output into the network. A state
// machine inside a timeout-strategy nap (see nsTimeouts) is durably blocked on
// a 1 ns fake timer: let those elapse until nothing naps any more.
func (x *nsExec) quiesce() {
	for {
		nsWait()
		if atomic.LoadInt64(&x.napping) == 0 {
			break
		}
		time.Sleep(time.Nanosecond)
	}
	x.collect()
}

// deliverVotePart delivers one single-signature vote message.
func (x *nsExec) deliverVotePart(n *nsNode, kind int, h uint64, r uint32, pkh, target string, sig gcrypto.SparseSignature) {
	ctx, done := n.callCtx(x.closed)
	proofs := map[string][]gcrypto.SparseSignature{target: {sig}}
	var res tmconsensus.HandleVoteProofsResult
	if kind == nsKindPrevote {
		res = n.eng.HandlePrevoteProofs(ctx, tmconsensus.PrevoteSparseProof{Height: h, Round: r, PubKeyHash: pkh, Proofs: proofs})
	} else {
		res = n.eng.HandlePrecommitProofs(ctx, tmconsensus.PrecommitSparseProof{Height: h, Round: r, PubKeyHash: pkh, Proofs: proofs})
	}
	wedged, livelock := done()
	x.count("res:" + nsKindName(kind) + ":" + res.String())
	if res == tmconsensus.HandleVoteProofsBadPubKeyHash && pkh == string(x.w.valsFor(h).PubKeyHash) {
		x.failf("", "c07-honest-rejected", "node %d (%s) answers BadPubKeyHash to a %s for height %d round %d that names the public key hash of the set prescribed for that height", n.idx, x.pos(n), nsKindName(kind), h, r)
	}
	if livelock {
		x.failf("", "livelock", "Handle%sProofs h=%d r=%d polled its context more than %d times without returning", nsKindName(kind), h, r, nsPollLimit)
	} else if wedged {
		x.failf("", "wedged", "Handle%sProofs h=%d r=%d returned only through the %s fake-time deadline", nsKindName(kind), h, r, nsCallDeadline)
	}
	x.noteDelivered(n, nsHR{h, r})
	x.quiesce()
}

func (x *nsExec) noteDelivered(n *nsNode, hr nsHR) {
	// "reorder across rounds": a message of an earlier height/round is handed to
	// a node after a message of a later one.
	if hr.less(x.maxDeliveredHR[n.idx]) {
		x.faultReorder = true
	} else {
		x.maxDeliveredHR[n.idx] = hr
	}
}

// deliver tries to hand pending entry pe to its destination. done reports
// whether the entry is finished (fully delivered or nothing new in it).
func (x *nsExec) deliver(pe nsPend, force bool) (done bool, progressed bool) {
	n := x.nodes[pe.dest]
	if !n.alive || x.fail != nil {
		return false, false
	}
	if !force && !x.sameSide(pe.m.from, pe.dest) {
		x.cnt["reoffer:partition"]++
		return false, false
	}
	m := pe.m
	ck := fmt.Sprintf("%d>%d", m.id, pe.dest)
	if hp, ok := x.holdCache[ck]; ok && !force {
		if hp == x.pos(n) {
			x.cnt["reoffer:same-position"]++
			return false, false
		}
		delete(x.holdCache, ck)
	}
	if m.kind == nsKindPH {
		sk := string(m.ph.Signature)
		if _, seen := x.seenPH[n.idx][sk]; seen && !force {
			return true, false
		}
		p := x.pos(n)
		id, splitFirst := x.admitPH(n, p, m.ph)
		if id != "" {
			x.hold(id, fmt.Sprintf("ph|%x>%d", m.ph.Signature, n.idx))
			if nsPositionOnly(id) {
				x.holdCache[ck] = p
			}
			return false, false
		}
		if splitFirst {
			pcp := m.ph.Header.PrevCommitProof
			x.count("split:pcp-first")
			if !x.deliverVotes(n, nsKindPrecommit, m.ph.Header.Height-1, pcp.Round, pcp.PubKeyHash, pcp.Proofs, true) {
				return false, true
			}
			// Re-evaluate with the new position.
			if id, again := x.admitPH(n, x.pos(n), m.ph); id != "" || again {
				if id == "" {
					id = nsFA6
				}
				x.hold(id, fmt.Sprintf("ph|%x>%d", m.ph.Signature, n.idx))
				return false, true
			}
		}
		if x.fail != nil || !n.alive {
			return false, true
		}
		ctx, fin := n.callCtx(x.closed)
		res := n.eng.HandleProposedHeader(ctx, m.ph)
		wedged, livelock := fin()
		x.count("res:ph:" + res.String())
		if res == tmconsensus.HandleProposedHeaderSignerUnrecognized {
			for vi, pk := range x.w.pubs {
				if pk.Equal(m.ph.ProposerPubKey) {
					x.failf("", "c07-honest-rejected", "node %d (%s) answers SignerUnrecognized to a proposed header for height %d round %d signed by validator %d of the prescribed set", n.idx, p, m.h, m.r, vi)
				}
			}
		}
		if livelock {
			fid := ""
			if m.ph.Header.Height == p.VH+1 {
				fid = nsFA4
			}
			x.failf(fid, "livelock", "HandleProposedHeader h=%d r=%d (node %s) polled its context more than %d times without returning", m.h, m.r, p, nsPollLimit)
		} else if wedged {
			x.failf("", "wedged", "HandleProposedHeader h=%d r=%d returned only through the fake-time deadline", m.h, m.r)
		}
		x.seenPH[n.idx][sk] = struct{}{}
		x.delivered[n.idx] = append(x.delivered[n.idx], m)
		x.noteDelivered(n, nsHR{m.h, m.r})
		x.quiesce()
		return true, true
	}
	before := x.cnt["votes-delivered"]
	x.lastHoldPosOnly, x.lastHoldPos = false, nsPos{}
	all := x.deliverVotes(n, m.kind, m.h, m.r, m.pkh, m.proofs, force)
	if all {
		x.delivered[n.idx] = append(x.delivered[n.idx], m)
	} else if x.lastHoldPosOnly && x.cnt["votes-delivered"] == before {
		x.holdCache[ck] = x.lastHoldPos
	}
	return all, x.cnt["votes-delivered"] != before || all
}

// nsPositionOnly reports whether the rule of a finding depends only on the
// node position and the message height/round (so the decision cannot change
// while the position is unchanged).
func nsPositionOnly(id string) bool {
	switch id {
	case nsFA1, nsFA2, nsFA3, nsFA4:
		return true
	}
	return false
}

// deliverVotes splits an aggregate into single-signature messages, skips the
// ones this node was already given, and applies the hold-back rules to each.
// It reports whether nothing of the aggregate remains undelivered.
func (x *nsExec) deliverVotes(n *nsNode, kind int, h uint64, r uint32, pkh string, proofs map[string][]gcrypto.SparseSignature, force bool) bool {
	all := true
	for _, target := range nsSortedTargets(proofs) {
		sigs := append([]gcrypto.SparseSignature(nil), proofs[target]...)
		sort.Slice(sigs, func(i, j int) bool { return string(sigs[i].KeyID) < string(sigs[j].KeyID) })
		for _, s := range sigs {
			if x.fail != nil || !n.alive {
				return false
			}
			sk := nsSigKey(kind, h, r, target, s)
			if _, seen := x.seenSig[n.idx][sk]; seen && !force {
				continue
			}
			p := x.pos(n)
			if id := x.admitVote(n, p, kind, h, r, target, s); id != "" {
				x.hold(id, fmt.Sprintf("%s>%d", sk, n.idx))
				if all {
					x.lastHoldPosOnly = true
				}
				x.lastHoldPosOnly = x.lastHoldPosOnly && nsPositionOnly(id)
				x.lastHoldPos = p
				all = false
				continue
			}
			x.cnt["votes-delivered"]++
			x.seenSig[n.idx][sk] = struct{}{}
			x.deliverVotePart(n, kind, h, r, pkh, target, s)
		}
	}
	return all
}

// ---------------------------------------------------------------------------
// Restart.

func (x *nsExec) restartAdmit(n *nsNode) string {
	if _, _, err := n.sms.StateMachineHeightRound(x.ctx); err != nil && x.c.H0 > 1 && nsEx(nsFR1) {
		return nsFR1
	}
	e := x.restartEntry(n)
	vh, vr, ch, cr, err := n.ms.NetworkHeightRound(x.ctx)
	if err != nil {
		if err == tmstore.ErrStoreUninitialized {
			return ""
		}
		panic(err)
	}
	// The kernel re-evaluates the stored voting and next-round votes at start-up (they may
	// include votes that were stored as "future" before the mirror reached this height and
	// that the live mirror never looked at): simulate that to know the voting round f the
	// machine's entrance will meet, or that the height gets committed right away.
	pows := x.w.powersFor(vh)
	avail := nsSum(pows)
	maj, min := nsMaj(avail), nsMin(avail)
	state := func(r uint32) (nilDone, commits, present bool, pv, pc nsTally) {
		phs, pvc, pcc := x.roundState(n, vh, r)
		pv, pc = x.tally(pvc, pows), x.tally(pcc, pows)
		nilDone = pc.byHash[""] >= maj || (pc.total == avail && pc.best < maj)
		for _, ph := range phs {
			if pc.byHash[string(ph.Header.Hash)] >= maj {
				commits = true
			}
		}
		present = pv.total >= min || pc.total >= min
		return
	}
	f, committed := vr, false
	if nilDone, commits, _, _, _ := state(vr); commits {
		committed = true
	} else if nilDone {
		f = vr + 1
	} else if nilDone2, commits2, present2, _, _ := state(vr + 1); present2 {
		f = vr + 1
		if commits2 {
			committed = true
		} else if nilDone2 {
			f = vr + 2
		}
	}
	if e.H < vh && !committed {
		// The machine first replays committed heights and then enters round 0 of the voting height.
		if f > 0 && nsEx(nsFA7) {
			return nsFA7
		}
		if f == 0 {
			_, _, _, pv, pc := state(0)
			switch nsEntryStep(avail, pv, pc) {
			case "pvDelay", "pcDelay":
				if nsEx(nsFA15) {
					return nsFA15
				}
			}
		}
	}
	switch {
	case e.H == vh:
		if committed {
			return "" // entrance meets the committing view, a replay, or (repaired) a later round of it
		}
		if e.R < f || e.R > f+1 {
			if nsEx(nsFA7) {
				return nsFA7
			}
			return ""
		}
		if e.R == f {
			_, _, _, pv, pc := state(f)
			switch nsEntryStep(avail, pv, pc) {
			case "pvDelay", "pcDelay":
				if nsEx(nsFA15) {
					return nsFA15
				}
			}
		}
	case ch > 0 && e.H == ch:
		if e.R > cr && nsEx(nsFA7b) {
			return nsFA7b
		}
		if e.R < cr && nsEx(nsFS1) {
			return nsFS1 // replay of a header committed in a later round than the entered one
		}
	case ch > 0 && e.H < ch:
		// The machine replays e.H .. ch-1 from the header store (entering e.R, then round 0),
		// and ch itself unless it was committed in round 0.
		if nsEx(nsFS1) {
			want := e.R
			for h := e.H; h <= ch; h++ {
				var got uint32
				if h == ch {
					got = cr
				} else if c, err := n.chs.LoadCommittedHeader(x.ctx, h); err == nil {
					got = c.Proof.Round
				}
				if got != want {
					return nsFS1
				}
				want = 0
			}
		}
	case e.H > vh:
		if nsEx(nsFA7) {
			return nsFA7
		}
	}
	return ""
}
