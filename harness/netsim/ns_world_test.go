package tmengine_test

// netsim (C03): N real tmengine.Engine instances on a harness-owned network.
// This file: case representation, validator world, independent crypto oracle.

import (
	"bytes"
	"context"
	"crypto/ed25519"
	"crypto/sha256"
	"encoding/binary"
	"fmt"
	"math/big"
	"sort"
	"sync"
	"sync/atomic"
	"time"

	"github.com/gordian-engine/gordian/gcrypto"
	"github.com/gordian-engine/gordian/gcrypto/gcryptotest"
	"github.com/gordian-engine/gordian/tm/tmconsensus"
	"github.com/gordian-engine/gordian/tm/tmconsensus/tmconsensustest"
)

// nsOp is one schedule step. All state-dependent choices are small integers
// resolved by the interpreter, so every sub-list of ops is a valid schedule.
type nsOp struct {
	K string `json:"k"`
	A int    `json:"a,omitempty"`
	B int    `json:"b,omitempty"`
	C int    `json:"c,omitempty"`
}

// nsCase is the generated case: configuration + schedule.
type nsCase struct {
	// Powers of all validators in validator-set order.
	Powers []uint64 `json:"powers"`
	// Byz[i] is true when validator i is Byzantine (harness-owned key, no engine).
	Byz []bool `json:"byz"`
	// H0 is the initial height.
	H0 uint64 `json:"h0"`
	// ValChange > 0: the application rotates the powers of the correct
	// validators every ValChange heights (Byzantine powers and total unchanged).
	ValChange int `json:"valchange,omitempty"`
	// Doc selects what the external genesis document declares (0: exactly the
	// chain's initial set, InitChain returns no validators; otherwise the
	// application's InitChain response overrides the document with the real set):
	// 1 same keys, other powers; 2 one validator missing; 3 one extra validator;
	// 4 no validators at all. DocArg picks the missing validator / extra power.
	Doc    int `json:"doc,omitempty"`
	DocArg int `json:"docarg,omitempty"`
	// Ops is the schedule.
	Ops []nsOp `json:"ops"`
}

const (
	nsKindPH        = 0
	nsKindPrevote   = 1
	nsKindPrecommit = 2
)

// Timeouts (fake time). The methods run on the state machine goroutine right
// before it asks the StandardRoundTimer for a new timer. While finding C03-A21
// (start/cancel race of that timer, scheduler dependent) is listed, each call
// naps for 1 ns of fake time: inside a synctest bubble the nap ends only when
// every other goroutine is durably blocked, i.e. after the timer goroutine has
// consumed the preceding cancel, which removes the race by construction.
type nsTimeouts struct{ x *nsExec }

const (
	nsProposalTO  = 200 * time.Millisecond
	nsPrevoteTO   = 100 * time.Millisecond
	nsPrecommitTO = 100 * time.Millisecond
	nsCommitWait  = 30 * time.Millisecond
	nsRoundInc    = 20 * time.Millisecond
)

func (t nsTimeouts) nap() {
	if t.x == nil || !nsEx(nsFA21) {
		return
	}
	atomic.AddInt64(&t.x.napping, 1)
	time.Sleep(time.Nanosecond)
	atomic.AddInt64(&t.x.napping, -1)
}

func (t nsTimeouts) ProposalTimeout(_ uint64, r uint32) time.Duration {
	t.nap()
	return nsProposalTO + time.Duration(r)*nsRoundInc
}
func (t nsTimeouts) PrevoteDelayTimeout(_ uint64, r uint32) time.Duration {
	t.nap()
	return nsPrevoteTO + time.Duration(r)*nsRoundInc
}
func (t nsTimeouts) PrecommitDelayTimeout(_ uint64, r uint32) time.Duration {
	t.nap()
	return nsPrecommitTO + time.Duration(r)*nsRoundInc
}
func (t nsTimeouts) CommitWaitTimeout(_ uint64, _ uint32) time.Duration {
	t.nap()
	return nsCommitWait
}

var nsTimeSteps = []time.Duration{
	5 * time.Millisecond, 35 * time.Millisecond, 110 * time.Millisecond,
	230 * time.Millisecond, 700 * time.Millisecond,
}

// nsWorld is the harness's own knowledge of the validator universe.
type nsWorld struct {
	c       nsCase
	nVals   int
	signers []gcrypto.Ed25519Signer
	pubs    []gcrypto.PubKey
	rawPubs []ed25519.PublicKey
	correct []int // validator indices of correct nodes, in node order
	byz     []int // validator indices of Byzantine validators
	nodeOf  []int // validator index -> node index or -1

	hs  tmconsensustest.SimpleHashScheme
	ss  tmconsensustest.SimpleSignatureScheme
	gen tmconsensus.ValidatorSet
	// doc is the validator set written in the external genesis document.
	doc tmconsensus.ValidatorSet

	valMu    sync.Mutex
	valCache map[uint64]tmconsensus.ValidatorSet
}

func nsNewWorld(c nsCase) *nsWorld {
	w := &nsWorld{c: c, nVals: len(c.Powers), valCache: map[uint64]tmconsensus.ValidatorSet{}}
	w.signers = gcryptotest.DeterministicEd25519Signers(w.nVals + 1) // +1: the extra key of a superset document
	w.nodeOf = make([]int, w.nVals)
	for i := 0; i < w.nVals; i++ {
		pk := w.signers[i].PubKey()
		w.pubs = append(w.pubs, pk)
		w.rawPubs = append(w.rawPubs, ed25519.PublicKey(pk.PubKeyBytes()))
		if c.Byz[i] {
			w.nodeOf[i] = -1
			w.byz = append(w.byz, i)
		} else {
			w.nodeOf[i] = len(w.correct)
			w.correct = append(w.correct, i)
		}
	}
	w.gen = w.mkValSet(c.Powers)
	w.doc = w.gen
	docVals := append([]tmconsensus.Validator(nil), w.gen.Validators...)
	switch c.Doc {
	case 1:
		for i := range docVals {
			docVals[i].Power = c.Powers[i] + uint64(1+(i+c.DocArg)%3)
		}
	case 2:
		k := c.DocArg % w.nVals
		docVals = append(docVals[:k:k], docVals[k+1:]...)
	case 3:
		docVals = append(docVals, tmconsensus.Validator{PubKey: w.signers[w.nVals].PubKey(), Power: uint64(1 + c.DocArg%5)})
	case 4:
		docVals = nil
	}
	if c.Doc != 0 {
		if len(docVals) == 0 {
			w.doc = tmconsensus.ValidatorSet{}
		} else {
			vs, err := tmconsensus.NewValidatorSet(docVals, w.hs)
			if err != nil {
				panic(err)
			}
			w.doc = vs
		}
	}
	return w
}

// sameSet compares a validator set a node uses with the prescribed one, field
// by field (keys, powers) and by the declared hashes.
func nsSameSet(got, want tmconsensus.ValidatorSet) string {
	if len(got.Validators) != len(want.Validators) {
		return fmt.Sprintf("%d validators instead of %d", len(got.Validators), len(want.Validators))
	}
	for i := range want.Validators {
		if got.Validators[i].PubKey == nil || !bytes.Equal(got.Validators[i].PubKey.PubKeyBytes(), want.Validators[i].PubKey.PubKeyBytes()) {
			return fmt.Sprintf("validator %d has another key", i)
		}
		if got.Validators[i].Power != want.Validators[i].Power {
			return fmt.Sprintf("validator %d has power %d instead of %d", i, got.Validators[i].Power, want.Validators[i].Power)
		}
	}
	if !bytes.Equal(got.PubKeyHash, want.PubKeyHash) || !bytes.Equal(got.VotePowerHash, want.VotePowerHash) {
		return "declared hashes differ"
	}
	return ""
}

func (w *nsWorld) mkValSet(pows []uint64) tmconsensus.ValidatorSet {
	vals := make([]tmconsensus.Validator, w.nVals)
	for i := range vals {
		vals[i] = tmconsensus.Validator{PubKey: w.pubs[i], Power: pows[i]}
	}
	vs, err := tmconsensus.NewValidatorSet(vals, w.hs)
	if err != nil {
		panic(err)
	}
	return vs
}

// powersFor is the validator power vector the chain prescribes for height h,
// derived from the case configuration only (never from what a node believes).
func (w *nsWorld) powersFor(h uint64) []uint64 {
	if w.c.ValChange <= 0 || h < w.c.H0+2 || len(w.correct) < 2 {
		return w.c.Powers
	}
	// The set in force at h was returned by the application when finalizing h-2.
	shift := int((h-2-w.c.H0)/uint64(w.c.ValChange)+1) % len(w.correct)
	out := append([]uint64(nil), w.c.Powers...)
	for k, vi := range w.correct {
		out[vi] = w.c.Powers[w.correct[(k+shift)%len(w.correct)]]
	}
	return out
}

func (w *nsWorld) valsFor(h uint64) tmconsensus.ValidatorSet {
	w.valMu.Lock() // also called from strategy / driver goroutines
	defer w.valMu.Unlock()
	if vs, ok := w.valCache[h]; ok {
		return vs
	}
	vs := w.mkValSet(w.powersFor(h))
	w.valCache[h] = vs
	return vs
}

func nsSum(p []uint64) uint64 {
	var s uint64
	for _, x := range p {
		s += x
	}
	return s
}

// byzPowerOK re-checks (math/big) that Byzantine power is < 1/3 of the set in force at h.
func (w *nsWorld) byzPowerOK(h uint64) bool {
	p := w.powersFor(h)
	tot, bz := new(big.Int), new(big.Int)
	for i, x := range p {
		tot.Add(tot, new(big.Int).SetUint64(x))
		if w.c.Byz[i] {
			bz.Add(bz, new(big.Int).SetUint64(x))
		}
	}
	return new(big.Int).Mul(bz, big.NewInt(3)).Cmp(tot) < 0
}

// proposerIdx is the deterministic proposer rotation used by the harness strategy.
func nsProposerIdx(h uint64, r uint32, n int) int { return int((h + uint64(r)) % uint64(n)) }

// nsDataID is the deterministic application data of a proposal. Variants > 0 are
// only produced by Byzantine proposers (equivocation); all variants are "valid" data.
func nsDataID(h uint64, r uint32, variant int) string {
	return fmt.Sprintf("ns/%d/%d/%d", h, r, variant)
}

func nsValidDataID(h uint64, r uint32, id []byte) bool {
	for v := 0; v < 4; v++ {
		if string(id) == nsDataID(h, r, v) {
			return true
		}
	}
	return false
}

func nsAppHash(h uint64, dataID []byte) []byte {
	hh := sha256.New()
	var b [8]byte
	binary.BigEndian.PutUint64(b[:], h)
	hh.Write([]byte("nsapp"))
	hh.Write(b[:])
	hh.Write(dataID)
	return hh.Sum(nil)
}

var nsGenesisAppHash = func() []byte { s := sha256.Sum256([]byte("ns-genesis")); return s[:] }()

// ---------------------------------------------------------------------------
// Independent sign bytes (re-implementation of the simple scheme's vote content).

func nsVoteSignBytes(kind int, h uint64, r uint32, hash string) []byte {
	name := "PREVOTE"
	if kind == nsKindPrecommit {
		name = "PRECOMMIT"
	}
	if hash == "" {
		return []byte(fmt.Sprintf("NIL %s:\nHeight=%d\nRound=%d\n", name, h, r))
	}
	return []byte(fmt.Sprintf("%s:\nHeight=%d\nRound=%d\nBlockHash=%x\n", name, h, r, hash))
}

func nsKeyID(i int) []byte { return []byte{byte(i >> 8), byte(i)} }

func (w *nsWorld) signVote(vi int, kind int, h uint64, r uint32, hash string) gcrypto.SparseSignature {
	sig, err := w.signers[vi].Sign(context.Background(), nsVoteSignBytes(kind, h, r, hash))
	if err != nil {
		panic(err)
	}
	return gcrypto.SparseSignature{KeyID: nsKeyID(vi), Sig: sig}
}

// certPower returns, in math/big, the power of the distinct validators of the
// set prescribed for h that have a valid precommit signature for exactly (h, r, hash)
// among sigs, and the total power of that set.
func (w *nsWorld) certPower(h uint64, r uint32, hash string, sigs []gcrypto.SparseSignature) (got, total *big.Int, signers []int) {
	pows := w.powersFor(h)
	msg := nsVoteSignBytes(nsKindPrecommit, h, r, hash)
	seen := make([]bool, w.nVals)
	got, total = new(big.Int), new(big.Int)
	for _, p := range pows {
		total.Add(total, new(big.Int).SetUint64(p))
	}
	for _, s := range sigs {
		if len(s.KeyID) != 2 {
			continue
		}
		i := int(binary.BigEndian.Uint16(s.KeyID))
		if i < 0 || i >= w.nVals || seen[i] {
			continue
		}
		if !ed25519.Verify(w.rawPubs[i], msg, s.Sig) {
			continue
		}
		seen[i] = true
		signers = append(signers, i)
		got.Add(got, new(big.Int).SetUint64(pows[i]))
	}
	return got, total, signers
}

func nsIsQuorum(got, total *big.Int) bool {
	return new(big.Int).Mul(got, big.NewInt(3)).Cmp(new(big.Int).Mul(total, big.NewInt(2))) > 0
}

// ---------------------------------------------------------------------------
// Message fingerprints.

func nsSortedTargets(m map[string][]gcrypto.SparseSignature) []string {
	ks := make([]string, 0, len(m))
	for k := range m {
		ks = append(ks, k)
	}
	sort.Strings(ks)
	return ks
}

func nsVoteKey(kind int, h uint64, r uint32, pkh string, proofs map[string][]gcrypto.SparseSignature) string {
	var b bytes.Buffer
	fmt.Fprintf(&b, "%d|%d|%d|%x", kind, h, r, pkh)
	for _, t := range nsSortedTargets(proofs) {
		sigs := append([]gcrypto.SparseSignature(nil), proofs[t]...)
		sort.Slice(sigs, func(i, j int) bool {
			if c := bytes.Compare(sigs[i].KeyID, sigs[j].KeyID); c != 0 {
				return c < 0
			}
			return bytes.Compare(sigs[i].Sig, sigs[j].Sig) < 0
		})
		fmt.Fprintf(&b, "|%x:", t)
		for _, s := range sigs {
			fmt.Fprintf(&b, "%x=%x,", s.KeyID, s.Sig[:8])
		}
	}
	return b.String()
}

func nsSigKey(kind int, h uint64, r uint32, target string, s gcrypto.SparseSignature) string {
	return fmt.Sprintf("%d|%d|%d|%x|%x|%x", kind, h, r, target, s.KeyID, s.Sig[:min(8, len(s.Sig))])
}

func nsShort(h []byte) string {
	if len(h) == 0 {
		return "nil"
	}
	return fmt.Sprintf("%x", h[:min(4, len(h))])
}
