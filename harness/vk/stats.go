// Package vk is the shared verification kit injected (by build overlay) as
// github.com/gordian-engine/gordian/internal/zzverif/vk. It is never part of
// the repository; it only exists in harness builds made by /verif/check.
package vk

import (
	"encoding/binary"
	"encoding/json"
	"flag"
	"fmt"
	"hash/fnv"
	"os"
	"path/filepath"
	"runtime/debug"
	"sort"
	"sync"
)

var (
	flagOut    = flag.String("verif.out", "", "directory for stats / failure / write-ahead files")
	flagReplay = flag.String("verif.replay", "", "replay file: run this case only, bypassing rapid")
	flagTier   = flag.String("verif.tier", "quick", "quick|thorough")
	flagKnown  = flag.String("verif.known", "", "path of known_findings.json")
	flagShard  = flag.Int("verif.shard", 0, "shard index (for file names)")
	flagN      = flag.Int("verif.n", 0, "case count for non-rapid loops")
	flagSeed   = flag.Uint64("verif.seed", 1, "seed for non-rapid loops")
	flagNoExcl = flag.Bool("verif.noexclude", false, "do not exclude known findings by construction (reproducer mode)")
)

func Tier() string     { return *flagTier }
func Thorough() bool   { return *flagTier == "thorough" }
func N(def int) int    { if *flagN > 0 { return *flagN }; return def }
func Seed() uint64     { return *flagSeed }
func Shard() int       { return *flagShard }
func OutDir() string   { return *flagOut }
func ReplayPath() string { return *flagReplay }

// TB is the subset of testing.TB / *rapid.T used by the kit.
type TB interface {
	Fatalf(format string, args ...any)
	Logf(format string, args ...any)
	Helper()
}

// ---------------------------------------------------------------------------
// known findings

type Finding struct {
	Property string `json:"property"`
	ID       string `json:"id"`
	Kind     string `json:"kind"` // "finding" | "fixed"
	Site     string `json:"site"`
	Trigger  string `json:"trigger"`
	Text     string `json:"text"`
	Commit   string `json:"commit,omitempty"`
	Replay   string `json:"replay,omitempty"`
}

var (
	knownOnce sync.Once
	known     map[string]Finding
)

func loadKnown() {
	known = map[string]Finding{}
	if *flagKnown == "" {
		return
	}
	b, err := os.ReadFile(*flagKnown)
	if err != nil {
		return
	}
	var doc struct {
		Findings []Finding `json:"findings"`
	}
	if err := json.Unmarshal(b, &doc); err != nil {
		panic(fmt.Errorf("vk: bad known findings file: %w", err))
	}
	for _, f := range doc.Findings {
		known[f.ID] = f
	}
}

// Excluded reports whether the finding with this id is listed as an open
// finding (kind=finding) and therefore must be excluded by construction.
// A "fixed" entry excludes nothing.
func Excluded(id string) bool {
	if *flagNoExcl {
		return false
	}
	knownOnce.Do(loadKnown)
	f, ok := known[id]
	return ok && f.Kind == "finding"
}

// ---------------------------------------------------------------------------
// stats

type Stats struct {
	mu       sync.Mutex
	Property string            `json:"property"`
	Test     string            `json:"test"`
	Rule     string            `json:"rule"`
	Evals    int64             `json:"evaluations"`
	Nontriv  int64             `json:"nontrivial_evaluations"`
	Distinct int64             `json:"distinct_nontrivial"`
	Labels   map[string]int64  `json:"labels"`
	Samples  []json.RawMessage `json:"samples"`
	Excl     map[string]int64  `json:"excluded_known"`
	Notes    []string          `json:"notes,omitempty"`
	fps      map[uint64]struct{}
	fpCap    int
	sampleAt int64
}

var (
	allMu    sync.Mutex
	allStats = map[string]*Stats{}
)

// NewStats returns the (process wide) stats collector for a test function.
func NewStats(property, test, rule string) *Stats {
	allMu.Lock()
	defer allMu.Unlock()
	key := property + "/" + test
	if s, ok := allStats[key]; ok {
		return s
	}
	s := &Stats{Property: property, Test: test, Rule: rule,
		Labels: map[string]int64{}, Excl: map[string]int64{},
		fps: map[uint64]struct{}{}, fpCap: 1 << 22, sampleAt: 1}
	allStats[key] = s
	return s
}

// Case records one generated case. nontrivial is decided by the property's
// stated rule; fp is a fingerprint of the case contents (see FP).
func (s *Stats) Case(nontrivial bool, fp uint64, labels ...string) {
	s.mu.Lock()
	defer s.mu.Unlock()
	s.Evals++
	for _, l := range labels {
		s.Labels[l]++
	}
	if nontrivial {
		s.Nontriv++
		if _, ok := s.fps[fp]; !ok && len(s.fps) < s.fpCap {
			s.fps[fp] = struct{}{}
		}
	}
}

func (s *Stats) Label(l string) { s.mu.Lock(); s.Labels[l]++; s.mu.Unlock() }
func (s *Stats) LabelN(l string, n int64) { s.mu.Lock(); s.Labels[l] += n; s.mu.Unlock() }
func (s *Stats) Excluded(id string) { s.mu.Lock(); s.Excl[id]++; s.mu.Unlock() }
func (s *Stats) Note(n string)  { s.mu.Lock(); s.Notes = append(s.Notes, n); s.mu.Unlock() }

// WantSample reports whether the current case (by evaluation count) should be
// kept as a sample: cases 1,2,4,8,... up to 12 samples; deterministic.
func (s *Stats) WantSample() bool {
	s.mu.Lock()
	defer s.mu.Unlock()
	return len(s.Samples) < 12 && s.Evals+1 >= s.sampleAt
}

func (s *Stats) Sample(v any) {
	b, err := json.Marshal(v)
	if err != nil {
		b, _ = json.Marshal(fmt.Sprintf("%+v", v))
	}
	if len(b) > 6000 {
		b, _ = json.Marshal(string(b[:6000]) + "...(truncated)")
	}
	s.mu.Lock()
	defer s.mu.Unlock()
	if len(s.Samples) >= 12 {
		return
	}
	s.Samples = append(s.Samples, b)
	s.sampleAt *= 2
	if s.sampleAt < s.Evals {
		s.sampleAt = s.Evals * 2
	}
}

func (s *Stats) fileBase() string {
	return filepath.Join(*flagOut, fmt.Sprintf("%s-%s-s%d", s.Property, s.Test, *flagShard))
}

// Flush writes <out>/<prop>-<test>-s<shard>.stats.json and .fps (binary
// little-endian uint64 fingerprints, sorted).
func (s *Stats) Flush() {
	if *flagOut == "" {
		return
	}
	s.mu.Lock()
	defer s.mu.Unlock()
	s.Distinct = int64(len(s.fps))
	b, _ := json.MarshalIndent(s, "", " ")
	_ = os.WriteFile(s.fileBase()+".stats.json", b, 0o644)
	fps := make([]uint64, 0, len(s.fps))
	for k := range s.fps {
		fps = append(fps, k)
	}
	sort.Slice(fps, func(i, j int) bool { return fps[i] < fps[j] })
	buf := make([]byte, 8*len(fps))
	for i, v := range fps {
		binary.LittleEndian.PutUint64(buf[8*i:], v)
	}
	_ = os.WriteFile(s.fileBase()+".fps", buf, 0o644)
}

// Failure is the content of a failure / replay file.
type Failure struct {
	Property string          `json:"property"`
	Test     string          `json:"test"`
	Clause   string          `json:"clause"`
	Detail   string          `json:"detail"`
	Finding  string          `json:"finding,omitempty"` // id of the known finding whose trigger matched, if any
	Case     json.RawMessage `json:"case"`
}

// Fail records the failing case in <out>/<prop>-<test>-s<shard>.fail.json
// (overwritten on every call: rapid re-runs the minimal case last) and then
// fails the test.
func (s *Stats) Fail(t TB, c any, finding, clause, format string, args ...any) {
	t.Helper()
	detail := fmt.Sprintf(format, args...)
	s.writeFail(c, finding, clause, detail)
	t.Fatalf("VERIF-FAIL property=%s test=%s clause=%q: %s", s.Property, s.Test, clause, detail)
}

func (s *Stats) writeFail(c any, finding, clause, detail string) {
	if *flagOut == "" {
		return
	}
	cb, err := json.Marshal(c)
	if err != nil {
		cb, _ = json.Marshal(fmt.Sprintf("%+v", c))
	}
	if len(detail) > 8000 {
		detail = detail[:8000] + "...(truncated)"
	}
	f := Failure{Property: s.Property, Test: s.Test, Clause: clause, Detail: detail, Finding: finding, Case: cb}
	b, _ := json.MarshalIndent(f, "", " ")
	_ = os.WriteFile(s.fileBase()+".fail.json", b, 0o644)
}

// Guard runs body and converts a panic on the calling goroutine into a
// recorded failure (clause "panic") before re-raising it as a test failure.
func (s *Stats) Guard(t TB, c any, body func()) {
	t.Helper()
	defer func() {
		if r := recover(); r != nil {
			if isRapidStop(r) {
				panic(r)
			}
			s.Fail(t, c, "", "panic", "%v\n%s", r, debug.Stack())
		}
	}()
	body()
}

// rapid signals failure / skip by panicking with private types; those must
// pass through untouched.
func isRapidStop(r any) bool {
	ty := fmt.Sprintf("%T", r)
	return ty == "rapid.stopTest" || ty == "rapid.invalidData" || ty == "rapid.testError"
}

// WAL writes the case about to be executed to the write-ahead file, so the
// driver can recover it if the process dies.
func (s *Stats) WAL(c any) { s.WALFinding(c, "") }

// WALFinding is WAL with the id of the known finding whose trigger predicate
// holds for the operation about to run (reproducer / no-exclusion mode).
func (s *Stats) WALFinding(c any, finding string) {
	if *flagOut == "" {
		return
	}
	cb, err := json.Marshal(c)
	if err != nil {
		return
	}
	f := Failure{Property: s.Property, Test: s.Test, Clause: "process-death", Finding: finding, Case: cb}
	b, _ := json.Marshal(f)
	_ = os.WriteFile(s.fileBase()+".wal.json", b, 0o644)
}

// LoadReplay reads the case of a replay file into v. ok=false when no replay
// was requested or the file belongs to another test.
func LoadReplay(property, test string, v any) (bool, error) {
	if *flagReplay == "" {
		return false, nil
	}
	b, err := os.ReadFile(*flagReplay)
	if err != nil {
		return false, err
	}
	var f Failure
	if err := json.Unmarshal(b, &f); err != nil {
		return false, err
	}
	if f.Property != property || f.Test != test {
		return false, nil
	}
	return true, json.Unmarshal(f.Case, v)
}

// Replaying reports whether the binary runs in replay mode at all.
func Replaying() bool { return *flagReplay != "" }

// FP fingerprints any JSON-marshalable value (FNV-1a 64 of its JSON).
func FP(v any) uint64 {
	b, _ := json.Marshal(v)
	h := fnv.New64a()
	h.Write(b)
	return h.Sum64()
}

func FPBytes(parts ...[]byte) uint64 {
	h := fnv.New64a()
	for _, p := range parts {
		var l [4]byte
		binary.LittleEndian.PutUint32(l[:], uint32(len(p)))
		h.Write(l[:])
		h.Write(p)
	}
	return h.Sum64()
}

// SplitMix64 is the deterministic PRNG for the few non-rapid bulk loops.
type SplitMix64 struct{ S uint64 }

func (r *SplitMix64) Next() uint64 {
	r.S += 0x9e3779b97f4a7c15
	z := r.S
	z = (z ^ (z >> 30)) * 0xbf58476d1ce4e5b9
	z = (z ^ (z >> 27)) * 0x94d049bb133111eb
	return z ^ (z >> 31)
}
