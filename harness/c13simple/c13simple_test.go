package gcrypto_test

// C13 (simple / ed25519 scheme): signature proofs merge as verified set union
// and round-trip. Stateful property-based test: generated operation lists over
// a small pool of proofs, interpreted against the real
// gcrypto.SimpleCommonMessageSignatureProof with a set-of-signers model.
// Every signature validity used by the oracle is decided with crypto/ed25519
// directly, never through the code under test.

import (
	"bytes"
	"context"
	"crypto/ed25519"
	"encoding/binary"
	"errors"
	"fmt"
	"sort"
	"strings"
	"sync"
	"testing"

	"github.com/bits-and-blooms/bitset"
	"github.com/gordian-engine/gordian/gcrypto"
	"github.com/gordian-engine/gordian/gcrypto/gcryptotest"
	"github.com/gordian-engine/gordian/internal/zzverif/vk"
	"pgregory.net/rapid"
)

const (
	c13sPoolKeys = 24
	c13sNMsgs    = 6
	c13sMaxN     = 17
	c13sMaxSlots = 7
)

// ---------------------------------------------------------------------------
// world: deterministic keys, messages and their (valid) signatures

type c13sWorldT struct {
	pubs  []ed25519.PublicKey // independent view of the public keys
	gpubs []gcrypto.PubKey
	msgs  [][]byte
	sigs  [][][]byte // [key][msg]
}

var (
	c13sOnce  sync.Once
	c13sWorld c13sWorldT
)

func c13sW() *c13sWorldT {
	c13sOnce.Do(func() {
		signers := gcryptotest.DeterministicEd25519Signers(c13sPoolKeys)
		w := &c13sWorld
		for m := 0; m < c13sNMsgs; m++ {
			w.msgs = append(w.msgs, []byte(fmt.Sprintf("c13-sign-content-%d", m)))
		}
		for _, s := range signers {
			pk := s.PubKey()
			w.gpubs = append(w.gpubs, pk)
			w.pubs = append(w.pubs, ed25519.PublicKey(bytes.Clone(pk.PubKeyBytes())))
			var row [][]byte
			for m := 0; m < c13sNMsgs; m++ {
				sig, err := s.Sign(context.Background(), w.msgs[m])
				if err != nil {
					panic(err)
				}
				row = append(row, sig)
			}
			w.sigs = append(w.sigs, row)
		}
	})
	return &c13sWorld
}

// c13sVerify is the independent signature oracle (memoised; pure function).
var (
	c13sVMu    sync.Mutex
	c13sVCache = map[string]bool{}
)

func c13sVerify(key int, msg []byte, sig []byte) bool {
	w := c13sW()
	k := string([]byte{byte(key)}) + string(msg) + "\x00" + string(sig)
	c13sVMu.Lock()
	v, ok := c13sVCache[k]
	c13sVMu.Unlock()
	if ok {
		return v
	}
	v = ed25519.Verify(w.pubs[key], msg, sig)
	c13sVMu.Lock()
	if len(c13sVCache) > 1<<16 {
		c13sVCache = map[string]bool{}
	}
	c13sVCache[k] = v
	c13sVMu.Unlock()
	return v
}

// ---------------------------------------------------------------------------
// case data

type c13sMut struct {
	K int `json:"k"` // corruption kind, see c13sMutNames
	J int `json:"j"` // entry selector (mod len)
	X int `json:"x"` // parameter
}

var c13sMutNames = []string{"flipsig", "oor-id", "dup-id", "badlen-id", "wrong-hash", "otherkey-sig", "garbage-sig", "reverse", "othermsg-sig"}

type c13sOp struct {
	K   string    `json:"k"` // add | merge | sparse | clone | derive | rt
	P   int       `json:"p"`
	Q   int       `json:"q,omitempty"`
	I   int       `json:"i,omitempty"`   // add: signer position (>= n: key not in the set)
	V   int       `json:"v,omitempty"`   // add: variant
	X   int       `json:"x,omitempty"`   // add: parameter
	Src int       `json:"src,omitempty"` // sparse: 0 = AsSparse of slot q, 1 = built by the harness from mask s
	S   uint32    `json:"s,omitempty"`   // sparse: signer mask
	Mut []c13sMut `json:"mut,omitempty"` // sparse: corruptions applied in order
}

type c13sCase struct {
	N       int      `json:"n"`
	Rot     int      `json:"rot"`
	Foreign int      `json:"foreign"` // what is foreign about slot 3: 0 keys shifted, 1 other message, 2 other hash, 3 last key replaced, 4 one key fewer
	Ops     []c13sOp `json:"ops"`
}

var c13sAddVariants = []string{"valid", "flipped", "otherkey", "othermsg", "garbage", "empty"}

// ---------------------------------------------------------------------------
// interpreter

type c13sCtx struct {
	keys []int // pool indices of the candidate keys, in order
	msg  int
	hash string
}

func (c *c13sCtx) same(o *c13sCtx) bool {
	if c.msg != o.msg || c.hash != o.hash || len(c.keys) != len(o.keys) {
		return false
	}
	for i := range c.keys {
		if c.keys[i] != o.keys[i] {
			return false
		}
	}
	return true
}

func (c *c13sCtx) gkeys() []gcrypto.PubKey {
	w := c13sW()
	out := make([]gcrypto.PubKey, len(c.keys))
	for i, k := range c.keys {
		out[i] = w.gpubs[k]
	}
	return out
}

type c13sSlot struct {
	p     gcrypto.CommonMessageSignatureProof
	ctx   *c13sCtx
	model uint32
}

type c13sRun struct {
	t      vk.TB
	st     *vk.Stats
	c      any
	scheme gcrypto.CommonMessageSignatureProofScheme
	slots  []*c13sSlot
	step   int
	opdesc string
	mix    bool // some merge offered both verifying and non-verifying signatures
	labels map[string]bool
}

func (r *c13sRun) fail(clause, format string, args ...any) {
	r.t.Helper()
	if r.st == nil { // native fuzz target: no stats/failure file, the fuzz engine keeps the input
		r.t.Fatalf("VERIF-FAIL property=C13 clause=%q: %s: %s", clause, r.opdesc, fmt.Sprintf(format, args...))
	}
	r.st.Fail(r.t, r.c, "", clause, "step %d (%s): %s", r.step, r.opdesc, fmt.Sprintf(format, args...))
}

func c13sMaskOf(bs *bitset.BitSet) (uint32, bool) {
	var m uint32
	ok := true
	for u, found := bs.NextSet(0); found; u, found = bs.NextSet(u + 1) {
		if u >= 32 {
			ok = false
			break
		}
		m |= 1 << u
	}
	return m, ok
}

func c13sStrictSuperset(a, b uint32) bool { return a&b == b && a != b }

func c13sKeyID(i int) []byte {
	var b [2]byte
	binary.BigEndian.PutUint16(b[:], uint16(i))
	return b[:]
}

func (r *c13sRun) newProof(ctx *c13sCtx) gcrypto.CommonMessageSignatureProof {
	p, err := r.scheme.New(bytes.Clone(c13sW().msgs[ctx.msg]), ctx.gkeys(), ctx.hash)
	if err != nil {
		r.fail("new", "scheme.New: %v", err)
	}
	return p
}

// bits reads the signer set of a proof through SignatureBitSet.
func (r *c13sRun) bits(s *c13sSlot) uint32 {
	var bs bitset.BitSet
	s.p.SignatureBitSet(&bs)
	m, ok := c13sMaskOf(&bs)
	if !ok || m>>uint(len(s.ctx.keys)) != 0 {
		r.fail("bitset-range", "bit set %s has bits beyond the %d candidate keys", bs.String(), len(s.ctx.keys))
	}
	return m
}

// checkAll: every slot's bit set equals its model (this is what makes clones
// and merge sources "unaffected"); the touched slot is also checked through
// AsSparse: every bit is backed by a signature that verifies independently.
func (r *c13sRun) checkAll(touched int) {
	for i, s := range r.slots {
		if got := r.bits(s); got != s.model {
			cl := "bitset-vs-model"
			if i != touched {
				cl = "untouched-proof-changed"
			}
			r.fail(cl, "slot %d: SignatureBitSet=%#x, model (prior set plus independently verified offered signers)=%#x", i, got, s.model)
		}
	}
	if touched >= 0 {
		r.checkSparseBacked(touched)
	}
}

func (r *c13sRun) checkSparseBacked(i int) {
	s := r.slots[i]
	sp := s.p.AsSparse()
	if sp.PubKeyHash != s.ctx.hash {
		r.fail("sparse-hash", "slot %d: AsSparse().PubKeyHash=%q want %q", i, sp.PubKeyHash, s.ctx.hash)
	}
	var m uint32
	msg := c13sW().msgs[s.ctx.msg]
	for _, e := range sp.Signatures {
		if len(e.KeyID) != 2 {
			r.fail("sparse-keyid", "slot %d: AsSparse key id %x is not 2 bytes", i, e.KeyID)
		}
		id := int(binary.BigEndian.Uint16(e.KeyID))
		if id >= len(s.ctx.keys) {
			r.fail("sparse-keyid", "slot %d: AsSparse key id %d out of range", i, id)
		}
		if !c13sVerify(s.ctx.keys[id], msg, e.Sig) {
			r.fail("unverified-signature-held", "slot %d: AsSparse carries a signature for key %d that does not verify (crypto/ed25519)", i, id)
		}
		m |= 1 << uint(id)
	}
	if m != s.model {
		r.fail("sparse-vs-bitset", "slot %d: signers in AsSparse=%#x, bit set/model=%#x", i, m, s.model)
	}
}

func (r *c13sRun) slot(k int) (int, *c13sSlot) {
	if k < 0 {
		k = -k
	}
	i := k % len(r.slots)
	return i, r.slots[i]
}

func (r *c13sRun) addSlot(at int, s *c13sSlot) int {
	if len(r.slots) < c13sMaxSlots {
		r.slots = append(r.slots, s)
		return len(r.slots) - 1
	}
	// Pool is full: overwrite one of the non-initial slots.
	i := 4 + at%(c13sMaxSlots-4)
	r.slots[i] = s
	return i
}

func c13sFlip(b []byte, x int) []byte {
	o := bytes.Clone(b)
	if len(o) == 0 {
		return []byte{1}
	}
	if x < 0 {
		x = -x
	}
	o[(x/8)%len(o)] ^= 1 << uint(x%8)
	return o
}

func c13sGarbage(x int) []byte {
	if x < 0 {
		x = -x
	}
	n := x % 70
	o := make([]byte, n)
	for i := range o {
		o[i] = byte(x + 31*i)
	}
	return o
}

// outsider returns a pool key index not in ctx.keys.
func c13sOutsider(ctx *c13sCtx, x int) int {
	in := map[int]bool{}
	for _, k := range ctx.keys {
		in[k] = true
	}
	var out []int
	for k := 0; k < c13sPoolKeys; k++ {
		if !in[k] {
			out = append(out, k)
		}
	}
	if x < 0 {
		x = -x
	}
	return out[x%len(out)]
}

func (r *c13sRun) opAdd(op c13sOp) {
	w := c13sW()
	pi, s := r.slot(op.P)
	n := len(s.ctx.keys)
	pos := op.I
	if pos < 0 {
		pos = -pos
	}
	pos %= n + 2
	inSet := pos < n
	var key int
	if inSet {
		key = s.ctx.keys[pos]
	} else {
		key = c13sOutsider(s.ctx, op.I+op.X)
	}
	v := op.V
	if v < 0 {
		v = -v
	}
	v %= len(c13sAddVariants)
	x := op.X
	if x < 0 {
		x = -x
	}
	var sig []byte
	switch v {
	case 0:
		sig = bytes.Clone(w.sigs[key][s.ctx.msg])
	case 1:
		sig = c13sFlip(w.sigs[key][s.ctx.msg], x)
	case 2:
		other := s.ctx.keys[(pos+1+x)%n]
		sig = bytes.Clone(w.sigs[other][s.ctx.msg])
	case 3:
		sig = bytes.Clone(w.sigs[key][(s.ctx.msg+1+x%(c13sNMsgs-1))%c13sNMsgs])
	case 4:
		sig = c13sGarbage(x)
	case 5:
		sig = nil
	}
	r.opdesc = fmt.Sprintf("add slot=%d pos=%d inSet=%v variant=%s", pi, pos, inSet, c13sAddVariants[v])
	sigOK := c13sVerify(key, w.msgs[s.ctx.msg], sig)
	want := inSet && sigOK
	r.labels["add:"+c13sAddVariants[v]] = true
	if !inSet {
		r.labels["add:key-not-in-set"] = true
	}
	for rep := 0; rep < 2; rep++ {
		err := s.p.AddSignature(bytes.Clone(sig), w.gpubs[key])
		if (err == nil) != want {
			r.fail("add-result", "AddSignature (repeat %d) err=%v, independently: key in set=%v signature verifies=%v", rep, err, inSet, sigOK)
		}
		// Error identity is part of the compliance suite for this scheme.
		if !inSet && !errors.Is(err, gcrypto.ErrUnknownKey) {
			r.fail("add-error-kind", "AddSignature with a key outside the candidate set returned %v, want ErrUnknownKey", err)
		}
		if inSet && !sigOK && !errors.Is(err, gcrypto.ErrInvalidSignature) {
			r.fail("add-error-kind", "AddSignature with a non-verifying signature returned %v, want ErrInvalidSignature", err)
		}
		if want {
			s.model |= 1 << uint(pos)
		}
		r.checkAll(pi)
	}
}

func (r *c13sRun) checkRes(what string, got gcrypto.SignatureProofMergeResult, allValid, increased bool, wssDefined, wss bool) {
	if got.AllValidSignatures != allValid {
		r.fail("flag-AllValidSignatures", "%s: AllValidSignatures=%v, independently=%v (result %+v)", what, got.AllValidSignatures, allValid, got)
	}
	if got.IncreasedSignatures != increased {
		r.fail("flag-IncreasedSignatures", "%s: IncreasedSignatures=%v, but the signer set grew=%v (result %+v)", what, got.IncreasedSignatures, increased, got)
	}
	if wssDefined && got.WasStrictSuperset != wss {
		r.fail("flag-WasStrictSuperset", "%s: WasStrictSuperset=%v, want %v (result %+v)", what, got.WasStrictSuperset, wss, got)
	}
}

func (r *c13sRun) opMerge(op c13sOp) {
	pi, p := r.slot(op.P)
	qi, q := r.slot(op.Q)
	r.opdesc = fmt.Sprintf("merge slot=%d <- slot=%d", pi, qi)
	match := p.ctx.same(q.ctx)
	if !match {
		r.labels["merge:non-matching"] = true
	}
	for rep := 0; rep < 2; rep++ {
		before := p.model
		offered := q.model
		res := p.p.Merge(q.p)
		what := fmt.Sprintf("Merge (repeat %d) before=%#x offered=%#x", rep, before, offered)
		if !match {
			// Different message, key hash or keys: nothing may be taken over.
			r.checkRes(what+" non-matching proofs", res, false, false, true, false)
		} else {
			after := before | offered
			p.model = after
			// Every signature inside a full proof of the same (message, keys) was
			// verified when it was added, so all are valid.
			// WasStrictSuperset: compliance suite (Merge/"strict superset" and the
			// three non-superset cases); two empty proofs are not covered there.
			wssDef := !(before == 0 && offered == 0)
			r.checkRes(what, res, true, after != before, wssDef, c13sStrictSuperset(offered, before))
			if rep == 1 && res.IncreasedSignatures {
				r.fail("idempotence", "%s: repeating the merge reported IncreasedSignatures", what)
			}
			if after != before {
				r.labels["merge:increased"] = true
			}
		}
		r.checkAll(pi)
	}
}

// evalSparse is the independent oracle for MergeSparse: which entries are
// well formed and verify against ctx.
func c13sEvalSparse(ctx *c13sCtx, sp gcrypto.SparseSignatureProof) (hashOK bool, validSet uint32, nValid, nInvalid int) {
	msg := c13sW().msgs[ctx.msg]
	hashOK = sp.PubKeyHash == ctx.hash
	for _, e := range sp.Signatures {
		ok := false
		if len(e.KeyID) == 2 {
			id := int(binary.BigEndian.Uint16(e.KeyID))
			if id < len(ctx.keys) && c13sVerify(ctx.keys[id], msg, e.Sig) {
				ok = true
				validSet |= 1 << uint(id)
			}
		}
		if ok {
			nValid++
		} else {
			nInvalid++
		}
	}
	return
}

func c13sCloneSparse(sp gcrypto.SparseSignatureProof) gcrypto.SparseSignatureProof {
	o := gcrypto.SparseSignatureProof{PubKeyHash: sp.PubKeyHash}
	for _, e := range sp.Signatures {
		o.Signatures = append(o.Signatures, gcrypto.SparseSignature{KeyID: bytes.Clone(e.KeyID), Sig: bytes.Clone(e.Sig)})
	}
	return o
}

// c13sMutate applies the generated corruptions to a sparse proof meant for ctx.
func c13sMutate(ctx *c13sCtx, sp gcrypto.SparseSignatureProof, muts []c13sMut, labels map[string]bool) gcrypto.SparseSignatureProof {
	w := c13sW()
	n := len(ctx.keys)
	for _, m := range muts {
		k := m.K
		if k < 0 {
			k = -k
		}
		k %= len(c13sMutNames)
		x := m.X
		if x < 0 {
			x = -x
		}
		j := m.J
		if j < 0 {
			j = -j
		}
		labels["corrupt:"+c13sMutNames[k]] = true
		if k == 4 {
			sp.PubKeyHash += "x"
			continue
		}
		if k == 7 {
			for a, b := 0, len(sp.Signatures)-1; a < b; a, b = a+1, b-1 {
				sp.Signatures[a], sp.Signatures[b] = sp.Signatures[b], sp.Signatures[a]
			}
			continue
		}
		if len(sp.Signatures) == 0 {
			// Nothing to corrupt: start from a valid entry of key position j.
			pos := j % n
			sp.Signatures = append(sp.Signatures, gcrypto.SparseSignature{
				KeyID: c13sKeyID(pos), Sig: bytes.Clone(w.sigs[ctx.keys[pos]][ctx.msg]),
			})
		}
		e := &sp.Signatures[j%len(sp.Signatures)]
		switch k {
		case 0:
			e.Sig = c13sFlip(e.Sig, x)
		case 1:
			if x%4 == 0 {
				e.KeyID = []byte{0xff, 0xff}
			} else {
				e.KeyID = c13sKeyID(n + x%4 - 1)
			}
		case 2:
			d := gcrypto.SparseSignature{KeyID: bytes.Clone(e.KeyID), Sig: bytes.Clone(e.Sig)}
			if x%2 == 1 {
				d.Sig = c13sFlip(d.Sig, x)
			}
			sp.Signatures = append(sp.Signatures, d)
		case 3:
			switch x % 3 {
			case 0:
				e.KeyID = nil
			case 1:
				if len(e.KeyID) >= 2 && x%2 == 0 {
					e.KeyID = []byte{e.KeyID[1]}
				} else {
					e.KeyID = []byte{byte(x)}
				}
			case 2:
				e.KeyID = append(bytes.Clone(e.KeyID), byte(x))
				for len(e.KeyID) < 3 {
					e.KeyID = append(e.KeyID, 0)
				}
			}
		case 5:
			e.Sig = bytes.Clone(w.sigs[ctx.keys[(j+1+x)%n]][ctx.msg])
		case 6:
			switch x % 3 {
			case 0:
				e.Sig = nil
			case 1:
				e.Sig = c13sGarbage(x)
			case 2:
				if len(e.Sig) > 0 {
					e.Sig = bytes.Clone(e.Sig[:x%len(e.Sig)])
				}
			}
		case 8:
			if len(e.KeyID) == 2 {
				if id := int(binary.BigEndian.Uint16(e.KeyID)); id < n {
					e.Sig = bytes.Clone(w.sigs[ctx.keys[id]][(ctx.msg+1+x%(c13sNMsgs-1))%c13sNMsgs])
				}
			}
		}
	}
	return sp
}

func (r *c13sRun) opSparse(op c13sOp) {
	w := c13sW()
	pi, p := r.slot(op.P)
	n := len(p.ctx.keys)
	var sp gcrypto.SparseSignatureProof
	if op.Src%2 == 0 {
		qi, q := r.slot(op.Q)
		sp = c13sCloneSparse(q.p.AsSparse())
		r.opdesc = fmt.Sprintf("mergesparse slot=%d <- AsSparse(slot %d) corruptions=%d", pi, qi, len(op.Mut))
		r.labels["sparse:from-proof"] = true
	} else {
		sp.PubKeyHash = p.ctx.hash
		for i := 0; i < n; i++ {
			if op.S&(1<<uint(i)) != 0 {
				sp.Signatures = append(sp.Signatures, gcrypto.SparseSignature{
					KeyID: c13sKeyID(i), Sig: bytes.Clone(w.sigs[p.ctx.keys[i]][p.ctx.msg]),
				})
			}
		}
		r.opdesc = fmt.Sprintf("mergesparse slot=%d <- built mask=%#x corruptions=%d", pi, op.S&(1<<uint(n)-1), len(op.Mut))
		r.labels["sparse:built"] = true
	}
	sp = c13sMutate(p.ctx, sp, op.Mut, r.labels)
	r.mergeSparseChecked(pi, p, sp, true)
}

// mergeSparseChecked merges sp into slot p twice and compares every
// observable with the independent evaluation of sp.
func (r *c13sRun) mergeSparseChecked(pi int, p *c13sSlot, sp gcrypto.SparseSignatureProof, count bool) {
	hashOK, validSet, nValid, nInvalid := c13sEvalSparse(p.ctx, sp)
	if count {
		if hashOK && nValid > 0 && nInvalid > 0 {
			r.mix = true
			r.labels["sparse:mix-valid-invalid"] = true
		}
		if nInvalid == 0 {
			r.labels["sparse:all-valid"] = true
		}
		if nValid == 0 && nInvalid > 0 {
			r.labels["sparse:all-invalid"] = true
		}
	}
	for rep := 0; rep < 2; rep++ {
		before := p.model
		arg := c13sCloneSparse(sp)
		res := p.p.MergeSparse(arg)
		what := fmt.Sprintf("MergeSparse (repeat %d) before=%#x verifying offered=%#x valid entries=%d invalid entries=%d hashOK=%v", rep, before, validSet, nValid, nInvalid, hashOK)
		if !hashOK {
			// compliance suite: "wrong pub key hash causes otherwise recognized signatures to be ignored"
			r.checkRes(what, res, false, false, true, false)
		} else {
			after := before | validSet
			p.model = after
			// WasStrictSuperset per compliance suite: the verifying offered set is a
			// strict superset of what was held; not defined when both are empty.
			wssDef := !(before == 0 && validSet == 0)
			r.checkRes(what, res, nInvalid == 0, after != before, wssDef, c13sStrictSuperset(validSet, before))
			if rep == 1 && res.IncreasedSignatures {
				r.fail("idempotence", "%s: repeating the merge reported IncreasedSignatures", what)
			}
			if after != before {
				r.labels["sparse:increased"] = true
			}
		}
		r.checkAll(pi)
	}
}

func (r *c13sRun) opClone(op c13sOp) {
	pi, p := r.slot(op.P)
	cl := p.p.Clone()
	ni := r.addSlot(op.Q, &c13sSlot{p: cl, ctx: p.ctx, model: p.model})
	r.opdesc = fmt.Sprintf("clone slot=%d -> slot=%d", pi, ni)
	if !p.p.Matches(cl) || !cl.Matches(p.p) {
		r.fail("clone-matches", "a clone does not match its origin")
	}
	r.checkAll(ni)
}

func (r *c13sRun) opDerive(op c13sOp) {
	pi, p := r.slot(op.P)
	d := p.p.Derive()
	ni := r.addSlot(op.Q, &c13sSlot{p: d, ctx: p.ctx, model: 0})
	r.opdesc = fmt.Sprintf("derive slot=%d -> slot=%d", pi, ni)
	if !p.p.Matches(d) {
		r.fail("derive-matches", "a derived proof does not match its origin")
	}
	r.checkAll(ni)
}

func (r *c13sRun) opRoundTrip(op c13sOp) {
	pi, p := r.slot(op.P)
	sp := c13sCloneSparse(p.p.AsSparse())
	want := p.model
	fresh := &c13sSlot{p: r.newProof(p.ctx), ctx: p.ctx}
	ni := r.addSlot(op.Q, fresh)
	r.opdesc = fmt.Sprintf("roundtrip slot=%d -> AsSparse -> new proof slot=%d", pi, ni)
	r.mergeSparseChecked(ni, fresh, sp, false)
	if fresh.model != want {
		r.fail("sparse-roundtrip", "proof rebuilt from its sparse form has signers %#x, origin has %#x", fresh.model, want)
	}
}

func c13sForeignCtx(base *c13sCtx, kind, rot int) *c13sCtx {
	n := len(base.keys)
	f := &c13sCtx{keys: append([]int(nil), base.keys...), msg: base.msg, hash: base.hash}
	switch kind % 5 {
	case 0:
		for i := range f.keys {
			f.keys[i] = (rot + i + 1) % c13sPoolKeys
		}
	case 1:
		f.msg = 1
	case 2:
		f.hash = base.hash + "-other"
	case 3:
		f.keys[n-1] = (rot + n) % c13sPoolKeys
	case 4:
		if n > 1 {
			f.keys = f.keys[:n-1]
		} else {
			f.keys = append(f.keys, (rot+n)%c13sPoolKeys)
		}
	}
	return f
}

func c13sNormCase(c *c13sCase) {
	if c.N < 1 {
		c.N = 1
	}
	if c.N > c13sMaxN {
		c.N = c13sMaxN
	}
	if c.Rot < 0 {
		c.Rot = -c.Rot
	}
	c.Rot %= c13sPoolKeys
	if c.Foreign < 0 {
		c.Foreign = -c.Foreign
	}
}

func c13sRunCase(t vk.TB, st *vk.Stats, c c13sCase) {
	c13sNormCase(&c)
	if st.WantSample() {
		st.Sample(c)
	}
	r := &c13sRun{t: t, st: st, c: c, scheme: gcrypto.SimpleCommonMessageSignatureProofScheme{}, labels: map[string]bool{}}
	defer func() {
		ls := []string{fmt.Sprintf("n=%02d", c.N)}
		for l := range r.labels {
			ls = append(ls, l)
		}
		sort.Strings(ls)
		if r.mix {
			ls = append(ls, "nontrivial")
		}
		st.Case(r.mix, vk.FP(c), ls...)
	}()
	st.Guard(t, c, func() {
		base := &c13sCtx{msg: 0, hash: "c13-keyhash"}
		for i := 0; i < c.N; i++ {
			base.keys = append(base.keys, (c.Rot+i)%c13sPoolKeys)
		}
		for i := 0; i < 3; i++ {
			r.slots = append(r.slots, &c13sSlot{p: r.newProof(base), ctx: base})
		}
		fctx := c13sForeignCtx(base, c.Foreign, c.Rot)
		r.slots = append(r.slots, &c13sSlot{p: r.newProof(fctx), ctx: fctx})
		r.opdesc = "initial"
		r.checkAll(-1)
		for i, op := range c.Ops {
			r.step = i
			r.labels["op:"+op.K] = true
			switch op.K {
			case "add":
				r.opAdd(op)
			case "merge":
				r.opMerge(op)
			case "sparse":
				r.opSparse(op)
			case "clone":
				r.opClone(op)
			case "derive":
				r.opDerive(op)
			case "rt":
				r.opRoundTrip(op)
			default:
				// unknown op kinds are ignored so that hand-edited replays stay valid
			}
		}
		// Final sweep: every slot still backed by verifying signatures.
		r.step = len(c.Ops)
		r.opdesc = "final sweep"
		for i := range r.slots {
			r.checkSparseBacked(i)
		}
	})
}

// ---------------------------------------------------------------------------
// generators

func c13sGenMut(t *rapid.T) c13sMut {
	return c13sMut{
		K: rapid.IntRange(0, len(c13sMutNames)-1).Draw(t, "mk"),
		J: rapid.IntRange(0, 20).Draw(t, "mj"),
		X: rapid.IntRange(0, 600).Draw(t, "mx"),
	}
}

func c13sGenMask(t *rapid.T, n int) uint32 {
	full := uint32(1)<<uint(n) - 1
	switch rapid.IntRange(0, 9).Draw(t, "maskkind") {
	case 0, 1, 2:
		return full
	case 3:
		return 1 << uint(rapid.IntRange(0, n-1).Draw(t, "bit"))
	case 4:
		return 0
	default:
		return rapid.Uint32Range(0, full).Draw(t, "mask")
	}
}

func c13sGenOp(t *rapid.T, n int) c13sOp {
	kind := rapid.SampledFrom([]string{"add", "add", "add", "merge", "merge", "sparse", "sparse", "sparse", "sparse", "clone", "derive", "rt"}).Draw(t, "k")
	op := c13sOp{K: kind, P: rapid.IntRange(0, c13sMaxSlots-1).Draw(t, "p")}
	// slot 3 is the foreign proof: give it signatures and offer it often.
	foreignBias := rapid.IntRange(0, 9).Draw(t, "foreignbias")
	switch kind {
	case "add":
		if foreignBias < 2 {
			op.P = 3
		}
		op.I = rapid.IntRange(0, n+1).Draw(t, "i")
		if rapid.IntRange(0, 9).Draw(t, "validbias") < 6 {
			op.V = 0
			if op.I >= n && rapid.Bool().Draw(t, "inset") {
				op.I = rapid.IntRange(0, n-1).Draw(t, "i2")
			}
		} else {
			op.V = rapid.IntRange(1, len(c13sAddVariants)-1).Draw(t, "v")
		}
		op.X = rapid.IntRange(0, 600).Draw(t, "x")
	case "merge":
		op.Q = rapid.IntRange(0, c13sMaxSlots-1).Draw(t, "q")
		if foreignBias < 2 {
			op.Q = 3
		}
	case "sparse":
		op.Q = rapid.IntRange(0, c13sMaxSlots-1).Draw(t, "q")
		if foreignBias < 2 {
			op.Q = 3
		}
		op.Src = rapid.IntRange(0, 2).Draw(t, "src") // 2/3 of the sparse merges are harness-built
		if op.Src == 2 {
			op.Src = 1
		}
		op.S = c13sGenMask(t, n)
		if rapid.IntRange(0, 9).Draw(t, "corrupt") < 7 {
			op.Mut = rapid.SliceOfN(rapid.Custom(c13sGenMut), 1, 3).Draw(t, "mut")
		}
	case "clone", "derive", "rt":
		op.Q = rapid.IntRange(0, 20).Draw(t, "q")
	}
	return op
}

// key counts, ordered so that rapid's bias towards early elements does not
// favour the degenerate sizes.
var c13sSizes = []int{5, 3, 7, 2, 9, 17, 1, 6, 4, 12, 8, 16, 11, 13, 10, 15, 14}

func c13sGenCase(t *rapid.T) c13sCase {
	n := rapid.SampledFrom(c13sSizes).Draw(t, "n")
	c := c13sCase{
		N:       n,
		Rot:     rapid.IntRange(0, 3).Draw(t, "rot"),
		Foreign: rapid.IntRange(0, 4).Draw(t, "foreign"),
	}
	c.Ops = rapid.SliceOfN(rapid.Custom(func(t *rapid.T) c13sOp { return c13sGenOp(t, n) }), 3, 24).Draw(t, "ops")
	return c
}

const c13sRule = "op lists (1-24 ops: add/merge/sparse/clone/derive/rt) over a pool of 3 proofs for one (message, key set of n=1..17 ed25519 keys, hash) plus one foreign proof; sparse merges are harness-built from any signer mask or taken from another proof's AsSparse and then corrupted (bit-flipped/other-key/other-message/garbage signature, out-of-range, duplicate, 0/1/3-byte key id, wrong hash); non-trivial = at least one MergeSparse offering both verifying and non-verifying signatures; distinct = distinct (n, rot, foreign, op list)"

func TestVerifC13SimpleOps(t *testing.T) {
	st := vk.NewStats("C13", "TestVerifC13SimpleOps", c13sRule)
	defer st.Flush()
	var c c13sCase
	if ok, err := vk.LoadReplay("C13", "TestVerifC13SimpleOps", &c); err != nil {
		t.Fatal(err)
	} else if ok {
		c13sRunCase(t, st, c)
		return
	} else if vk.Replaying() {
		t.Skip("replay file is for another test")
	}
	rapid.Check(t, func(rt *rapid.T) {
		c13sRunCase(rt, st, c13sGenCase(rt))
	})
}

// ---------------------------------------------------------------------------
// Finalize / ValidateFinalizedProof

type c13sFinMut struct {
	K int `json:"k"` // see c13sFinMutNames
	B int `json:"b"` // block selector: 0 main, >0 rest
	J int `json:"j"` // entry selector
	X int `json:"x"`
}

var c13sFinMutNames = []string{"flipsig", "oor-id", "dup-entry", "badlen-id", "garbage-sig", "move-entry", "drop-entries", "othermsg-main", "unknown-rest-block", "wrong-hash", "otherkey-sig"}

type c13sDbl struct {
	I int `json:"i"`
	B int `json:"b"`
}

type c13sFinCase struct {
	N      int          `json:"n"`
	Rot    int          `json:"rot"`
	Assign []int        `json:"assign"` // per signer: 0 absent, 1 main block, 2.. rest blocks
	Dbl    []c13sDbl    `json:"dbl,omitempty"`
	Via    int          `json:"via"`   // 0 AddSignature, 1 MergeSparse
	Order  int          `json:"order"` // rotation of the rest slice
	Mut    []c13sFinMut `json:"mut,omitempty"`
}

const c13sMaxBlocks = 5 // main + 4 rest

func c13sCloneFin(in gcrypto.FinalizedCommonMessageSignatureProof) gcrypto.FinalizedCommonMessageSignatureProof {
	out := gcrypto.FinalizedCommonMessageSignatureProof{
		Keys:        append([]gcrypto.PubKey(nil), in.Keys...),
		PubKeyHash:  in.PubKeyHash,
		MainMessage: bytes.Clone(in.MainMessage),
	}
	cl := func(ss []gcrypto.SparseSignature) []gcrypto.SparseSignature {
		if ss == nil {
			return nil
		}
		o := make([]gcrypto.SparseSignature, len(ss))
		for i, s := range ss {
			o[i] = gcrypto.SparseSignature{KeyID: bytes.Clone(s.KeyID), Sig: bytes.Clone(s.Sig)}
		}
		return o
	}
	out.MainSignatures = cl(in.MainSignatures)
	if in.Rest != nil {
		out.Rest = map[string][]gcrypto.SparseSignature{}
		for k, v := range in.Rest {
			out.Rest[k] = cl(v)
		}
	}
	return out
}

// c13sFinReference is the independent evaluation of a (possibly corrupted)
// finalized proof of the simple scheme: per block every entry must be a
// 2-byte in-range key id with a signature that verifies; the result is the set
// per block, and uniqueness is pairwise disjointness.
func c13sFinReference(keys []int, fin gcrypto.FinalizedCommonMessageSignatureProof) (sets map[string]uint32, valid, unique bool) {
	sets = map[string]uint32{}
	eval := func(content string, ss []gcrypto.SparseSignature) bool {
		var m uint32
		for _, e := range ss {
			if len(e.KeyID) != 2 {
				return false
			}
			id := int(binary.BigEndian.Uint16(e.KeyID))
			if id >= len(keys) || !c13sVerify(keys[id], []byte(content), e.Sig) {
				return false
			}
			m |= 1 << uint(id)
		}
		sets[content] = m
		return true
	}
	if !eval(string(fin.MainMessage), fin.MainSignatures) {
		return nil, false, false
	}
	for c, ss := range fin.Rest {
		if !eval(c, ss) {
			return nil, false, false
		}
	}
	var all uint32
	unique = true
	for _, m := range sets {
		if all&m != 0 {
			unique = false
		}
		all |= m
	}
	return sets, true, unique
}

func c13sRunFin(t vk.TB, st *vk.Stats, c c13sFinCase) {
	if c.N < 1 {
		c.N = 1
	}
	if c.N > c13sMaxN {
		c.N = c13sMaxN
	}
	if c.Rot < 0 {
		c.Rot = -c.Rot
	}
	if st.WantSample() {
		st.Sample(c)
	}
	w := c13sW()
	scheme := gcrypto.SimpleCommonMessageSignatureProofScheme{}
	n := c.N
	keys := make([]int, n)
	gkeys := make([]gcrypto.PubKey, n)
	for i := range keys {
		keys[i] = (c.Rot + i) % c13sPoolKeys
		gkeys[i] = w.gpubs[keys[i]]
	}
	// per-block signer sets
	sets := make([]uint32, c13sMaxBlocks)
	for i := 0; i < n; i++ {
		a := 0
		if i < len(c.Assign) {
			a = c.Assign[i]
		}
		if a < 0 {
			a = -a
		}
		a %= c13sMaxBlocks + 1
		if a > 0 {
			sets[a-1] |= 1 << uint(i)
		}
	}
	if sets[0] == 0 {
		// Every caller finalizes a main block that has signatures.
		sets[0] = 1
		for b := 1; b < c13sMaxBlocks; b++ {
			sets[b] &^= 1
		}
	}
	for _, d := range c.Dbl {
		i, b := d.I, d.B
		if i < 0 {
			i = -i
		}
		if b < 0 {
			b = -b
		}
		sets[b%c13sMaxBlocks] |= 1 << uint(i%n)
	}
	var all uint32
	hasDouble := false
	nBlocks := 0
	for _, m := range sets {
		if m == 0 {
			continue
		}
		nBlocks++
		if all&m != 0 {
			hasDouble = true
		}
		all |= m
	}
	labels := []string{fmt.Sprintf("n=%02d", n), fmt.Sprintf("blocks=%d", nBlocks)}
	if hasDouble {
		labels = append(labels, "double-signer")
	}
	if len(c.Mut) > 0 {
		labels = append(labels, "corrupted")
	} else {
		labels = append(labels, "roundtrip-only")
	}
	nontriv := nBlocks >= 2
	if nontriv {
		labels = append(labels, "nontrivial")
	}
	mutLabels := map[string]bool{}
	defer func() {
		for l := range mutLabels {
			labels = append(labels, l)
		}
		sort.Strings(labels)
		st.Case(nontriv, vk.FP(c), labels...)
	}()

	fail := func(clause, format string, args ...any) {
		t.Helper()
		st.Fail(t, c, "", clause, format, args...)
	}

	st.Guard(t, c, func() {
		const hash = "c13-keyhash"
		build := func(b int) gcrypto.CommonMessageSignatureProof {
			p, err := scheme.New(bytes.Clone(w.msgs[b]), gkeys, hash)
			if err != nil {
				fail("new", "scheme.New: %v", err)
			}
			if c.Via%2 == 0 {
				for i := 0; i < n; i++ {
					if sets[b]&(1<<uint(i)) != 0 {
						if err := p.AddSignature(bytes.Clone(w.sigs[keys[i]][b]), gkeys[i]); err != nil {
							fail("add-result", "AddSignature of a valid signature: %v", err)
						}
					}
				}
			} else {
				sp := gcrypto.SparseSignatureProof{PubKeyHash: hash}
				for i := n - 1; i >= 0; i-- {
					if sets[b]&(1<<uint(i)) != 0 {
						sp.Signatures = append(sp.Signatures, gcrypto.SparseSignature{KeyID: c13sKeyID(i), Sig: bytes.Clone(w.sigs[keys[i]][b])})
					}
				}
				if res := p.MergeSparse(sp); !res.AllValidSignatures || !res.IncreasedSignatures {
					fail("flag-AllValidSignatures", "MergeSparse of valid signatures for block %d: %+v", b, res)
				}
			}
			return p
		}
		main := build(0)
		var rest []gcrypto.CommonMessageSignatureProof
		for b := 1; b < c13sMaxBlocks; b++ {
			if sets[b] != 0 {
				rest = append(rest, build(b))
			}
		}
		if len(rest) > 1 {
			o := c.Order
			if o < 0 {
				o = -o
			}
			o %= len(rest)
			rest = append(append([]gcrypto.CommonMessageSignatureProof(nil), rest[o:]...), rest[:o]...)
			if c.Order%2 == 1 {
				rest[0], rest[len(rest)-1] = rest[len(rest)-1], rest[0]
			}
		}
		hashes := map[string]string{}
		for b := 0; b < c13sMaxBlocks; b++ {
			hashes[string(w.msgs[b])] = fmt.Sprintf("blockhash-%d", b)
		}
		fin := scheme.Finalize(main, rest)

		// Clause 1: validates back to exactly the per-block signer sets.
		out, unique := scheme.ValidateFinalizedProof(c13sCloneFin(fin), hashes)
		if out == nil {
			fail("finalize-roundtrip", "ValidateFinalizedProof(Finalize(...)) returned a nil map (unique=%v) for sets %#x", unique, sets)
		}
		if unique != !hasDouble {
			fail("double-signer-report", "allSignaturesUnique=%v but double signer present=%v (sets %#x)", unique, hasDouble, sets)
		}
		if len(out) != nBlocks {
			fail("finalize-roundtrip", "validated map has %d blocks, built from %d (sets %#x)", len(out), nBlocks, sets)
		}
		for b := 0; b < c13sMaxBlocks; b++ {
			bs, ok := out[fmt.Sprintf("blockhash-%d", b)]
			if sets[b] == 0 {
				if ok {
					fail("finalize-roundtrip", "block %d had no signers but appears in the validated map", b)
				}
				continue
			}
			if !ok || bs == nil {
				fail("finalize-roundtrip", "block %d missing from the validated map (sets %#x)", b, sets)
			}
			got, inRange := c13sMaskOf(bs)
			if !inRange || got != sets[b] {
				fail("finalize-roundtrip", "block %d validated to signers %#x, built from %#x", b, got, sets[b])
			}
		}

		// Clause 2: corrupted finalized proofs never panic and never report
		// signers whose signatures do not verify.
		if len(c.Mut) == 0 {
			return
		}
		mf := c13sCloneFin(fin)
		c13sMutateFin(&mf, keys, c.Mut, hashes, mutLabels)
		c13sCheckFinArbitrary(t, st, c, scheme, keys, mf, hashes)
	})
}

// c13sCheckFinArbitrary validates an arbitrary finalized proof (no panic:
// guarded by the caller) and compares with the independent reference.
func c13sCheckFinArbitrary(t vk.TB, st *vk.Stats, c any, scheme gcrypto.CommonMessageSignatureProofScheme, keys []int,
	mf gcrypto.FinalizedCommonMessageSignatureProof, hashes map[string]string) {
	fail := func(clause, format string, args ...any) {
		t.Helper()
		if st != nil {
			st.Fail(t, c, "", clause, format, args...)
		}
		t.Fatalf("VERIF-FAIL property=C13 clause=%q: %s", clause, fmt.Sprintf(format, args...))
	}
	refSets, refValid, refUnique := c13sFinReference(keys, mf)
	out, unique := scheme.ValidateFinalizedProof(c13sCloneFin(mf), hashes)
	if out == nil && unique {
		fail("corrupt-finalized", "nil map returned together with allSignaturesUnique=true")
	}
	if !refValid {
		if out != nil {
			fail("corrupt-finalized-accepted", "finalized proof with an entry that does not verify (or malformed key id) was accepted: %s", c13sDescribeOut(out))
		}
		return
	}
	if out == nil {
		fail("corrupt-finalized-rejected", "every entry of the finalized proof verifies independently, but validation returned nil")
	}
	if unique != refUnique {
		fail("double-signer-report", "allSignaturesUnique=%v, independent evaluation=%v", unique, refUnique)
	}
	if _, dupContent := mf.Rest[string(mf.MainMessage)]; dupContent {
		return // main content repeated in Rest: the output map cannot hold both
	}
	if len(out) != len(refSets) {
		fail("corrupt-finalized", "validated map has %d blocks, independent evaluation %d", len(out), len(refSets))
	}
	for content, want := range refSets {
		bs := out[hashes[content]]
		if bs == nil {
			fail("corrupt-finalized", "block %q missing in validated map", content)
		}
		if got, ok := c13sMaskOf(bs); !ok || got != want {
			fail("unverified-signer-reported", "block %q validated to %#x, independently %#x", content, got, want)
		}
	}
}

func c13sDescribeOut(out map[string]*bitset.BitSet) string {
	var parts []string
	for k, v := range out {
		parts = append(parts, fmt.Sprintf("%s=%s", k, v.String()))
	}
	sort.Strings(parts)
	return strings.Join(parts, " ")
}

func c13sMutateFin(f *gcrypto.FinalizedCommonMessageSignatureProof, keys []int, muts []c13sFinMut, hashes map[string]string, labels map[string]bool) {
	w := c13sW()
	n := len(keys)
	for _, m := range muts {
		k, b, j, x := m.K, m.B, m.J, m.X
		if k < 0 {
			k = -k
		}
		if b < 0 {
			b = -b
		}
		if j < 0 {
			j = -j
		}
		if x < 0 {
			x = -x
		}
		k %= len(c13sFinMutNames)
		labels["corrupt:"+c13sFinMutNames[k]] = true
		// select the block
		restKeys := make([]string, 0, len(f.Rest))
		for c := range f.Rest {
			restKeys = append(restKeys, c)
		}
		sort.Strings(restKeys)
		sel := b % (1 + len(restKeys))
		get := func() []gcrypto.SparseSignature {
			if sel == 0 {
				return f.MainSignatures
			}
			return f.Rest[restKeys[sel-1]]
		}
		set := func(ss []gcrypto.SparseSignature) {
			if sel == 0 {
				f.MainSignatures = ss
			} else {
				f.Rest[restKeys[sel-1]] = ss
			}
		}
		content := string(f.MainMessage)
		if sel > 0 {
			content = restKeys[sel-1]
		}
		_ = content
		ss := get()
		switch k {
		case 7:
			f.MainMessage = bytes.Clone(w.msgs[(1+x)%c13sNMsgs])
			continue
		case 8:
			if f.Rest == nil {
				f.Rest = map[string][]gcrypto.SparseSignature{}
			}
			c := fmt.Sprintf("c13-unknown-content-%d", x%3)
			pos := j % n
			mi := x % c13sNMsgs
			f.Rest[c] = []gcrypto.SparseSignature{{KeyID: c13sKeyID(pos), Sig: bytes.Clone(w.sigs[keys[pos]][mi])}}
			hashes[c] = "blockhash-" + c
			continue
		case 9:
			f.PubKeyHash += "x"
			continue
		case 6:
			if x%2 == 0 {
				set(nil)
			} else {
				set([]gcrypto.SparseSignature{})
			}
			continue
		}
		if len(ss) == 0 {
			continue
		}
		e := &ss[j%len(ss)]
		switch k {
		case 0:
			e.Sig = c13sFlip(e.Sig, x)
		case 1:
			if x%4 == 0 {
				e.KeyID = []byte{0xff, 0xff}
			} else {
				e.KeyID = c13sKeyID(n + x%4 - 1)
			}
		case 2:
			d := gcrypto.SparseSignature{KeyID: bytes.Clone(e.KeyID), Sig: bytes.Clone(e.Sig)}
			if x%2 == 1 {
				d.Sig = c13sFlip(d.Sig, x)
			}
			set(append(ss, d))
		case 3:
			switch x % 3 {
			case 0:
				e.KeyID = nil
			case 1:
				e.KeyID = []byte{byte(x)}
			case 2:
				e.KeyID = append(bytes.Clone(e.KeyID), byte(x))
			}
		case 4:
			switch x % 3 {
			case 0:
				e.Sig = nil
			case 1:
				e.Sig = c13sGarbage(x)
			case 2:
				if len(e.Sig) > 0 {
					e.Sig = bytes.Clone(e.Sig[:x%len(e.Sig)])
				}
			}
		case 5:
			// move the entry into another block (its signature is for the wrong content there)
			d := gcrypto.SparseSignature{KeyID: bytes.Clone(e.KeyID), Sig: bytes.Clone(e.Sig)}
			if len(restKeys) > 0 {
				tgt := restKeys[x%len(restKeys)]
				f.Rest[tgt] = append(f.Rest[tgt], d)
			} else {
				f.MainSignatures = append(f.MainSignatures, d)
			}
		case 10:
			if len(e.KeyID) == 2 {
				e.Sig = bytes.Clone(w.sigs[keys[(j+1+x)%n]][0])
			}
		}
	}
}

func c13sGenFin(t *rapid.T) c13sFinCase {
	n := rapid.SampledFrom(c13sSizes).Draw(t, "n")
	c := c13sFinCase{N: n, Rot: rapid.IntRange(0, 3).Draw(t, "rot"), Via: rapid.IntRange(0, 1).Draw(t, "via"), Order: rapid.IntRange(0, 7).Draw(t, "order")}
	nb := rapid.IntRange(1, c13sMaxBlocks).Draw(t, "nblocks")
	absent := rapid.IntRange(0, 3).Draw(t, "absentweight")
	c.Assign = make([]int, n)
	for i := range c.Assign {
		a := rapid.IntRange(-absent, nb+2).Draw(t, "a")
		switch {
		case a <= 0:
			c.Assign[i] = 0
		case a > nb:
			c.Assign[i] = 1 // bias towards the main block
		default:
			c.Assign[i] = a
		}
	}
	if rapid.IntRange(0, 9).Draw(t, "dbl") < 3 {
		c.Dbl = rapid.SliceOfN(rapid.Custom(func(t *rapid.T) c13sDbl {
			return c13sDbl{I: rapid.IntRange(0, n-1).Draw(t, "di"), B: rapid.IntRange(0, nb-1).Draw(t, "db")}
		}), 1, 2).Draw(t, "dbls")
	}
	if rapid.IntRange(0, 9).Draw(t, "mutate") < 5 {
		c.Mut = rapid.SliceOfN(rapid.Custom(func(t *rapid.T) c13sFinMut {
			return c13sFinMut{
				K: rapid.IntRange(0, len(c13sFinMutNames)-1).Draw(t, "k"),
				B: rapid.IntRange(0, 4).Draw(t, "b"),
				J: rapid.IntRange(0, 20).Draw(t, "j"),
				X: rapid.IntRange(0, 600).Draw(t, "x"),
			}
		}), 1, 3).Draw(t, "muts")
	}
	return c
}

const c13sFinRule = "n=1..17 ed25519 keys; every signer assigned to absent/main/one of up to 4 rest blocks, optional double signers; proofs built by AddSignature or MergeSparse, rest slice order generated; Finalize then ValidateFinalizedProof must give back exactly the per-block sets and allSignaturesUnique == no double signer; in half of the cases the finalized proof is then corrupted (1-3 generated corruptions) and compared with an independent re-evaluation (crypto/ed25519); non-trivial = at least 2 blocks; distinct = distinct case data"

func TestVerifC13SimpleFinalize(t *testing.T) {
	st := vk.NewStats("C13", "TestVerifC13SimpleFinalize", c13sFinRule)
	defer st.Flush()
	var c c13sFinCase
	if ok, err := vk.LoadReplay("C13", "TestVerifC13SimpleFinalize", &c); err != nil {
		t.Fatal(err)
	} else if ok {
		c13sRunFin(t, st, c)
		return
	} else if vk.Replaying() {
		t.Skip("replay file is for another test")
	}
	rapid.Check(t, func(rt *rapid.T) {
		c13sRunFin(rt, st, c13sGenFin(rt))
	})
}
