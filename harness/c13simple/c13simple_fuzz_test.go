package gcrypto_test

// Native fuzz targets (thorough tier) for C13, simple scheme: arbitrary sparse
// proofs into MergeSparse and arbitrary finalized proofs into
// ValidateFinalizedProof. The semantic oracle is the same independent
// evaluation used by the rapid tests; a panic is a failure by itself.

import (
	"bytes"
	"fmt"
	"testing"

	"github.com/gordian-engine/gordian/gcrypto"
)

type c13sRd struct {
	b []byte
	i int
}

func (r *c13sRd) next() int {
	if r.i >= len(r.b) {
		return 0
	}
	v := r.b[r.i]
	r.i++
	return int(v)
}

func (r *c13sRd) take(n int) []byte {
	out := make([]byte, 0, n)
	for ; n > 0 && r.i < len(r.b); n-- {
		out = append(out, r.b[r.i])
		r.i++
	}
	return out
}

func (r *c13sRd) more() bool { return r.i < len(r.b) }

// entry decodes one sparse signature. Signature selector: 0 = the valid
// signature of the key the id points at, 1 = that signature with one bit
// flipped, 2..25 = valid signature of pool key (sel-2), otherwise raw bytes.
func (r *c13sRd) entry(keys []int, msg int) gcrypto.SparseSignature {
	w := c13sW()
	var e gcrypto.SparseSignature
	e.KeyID = r.take(r.next() & 3)
	sel := r.next()
	pos := -1
	if len(e.KeyID) >= 2 {
		pos = int(e.KeyID[0])<<8 | int(e.KeyID[1])
	} else if len(e.KeyID) == 1 {
		pos = int(e.KeyID[0])
	}
	switch {
	case sel <= 1 && pos >= 0 && pos < len(keys):
		e.Sig = bytes.Clone(w.sigs[keys[pos]][msg%c13sNMsgs])
		if sel == 1 {
			e.Sig = c13sFlip(e.Sig, r.next()+256*r.next())
		}
	case sel >= 2 && sel < 2+c13sPoolKeys:
		e.Sig = bytes.Clone(w.sigs[sel-2][msg%c13sNMsgs])
	default:
		e.Sig = r.take(r.next() % 80)
	}
	return e
}

func c13sFuzzKeys(rd *c13sRd) []int {
	n := 1 + rd.next()%c13sMaxN
	keys := make([]int, n)
	for i := range keys {
		keys[i] = i
	}
	return keys
}

func FuzzVerifC13SimpleSparse(f *testing.F) {
	f.Add([]byte{3, 0, 0, 0, 2, 0, 0, 0, 2, 0, 1, 0})
	f.Add([]byte{3, 0, 5, 0, 2, 0, 2, 1, 9, 9, 2, 0, 3, 4})
	f.Add([]byte{16, 1, 0xff, 0xff, 2, 0, 16, 0})
	f.Add([]byte{0, 0, 0, 0, 3, 0, 0, 7, 0})
	f.Add([]byte{7, 0, 0, 0, 2, 0, 9, 0, 2, 0xff, 0xff, 30, 64, 1, 2, 3})
	f.Fuzz(func(t *testing.T, data []byte) {
		rd := &c13sRd{b: data}
		keys := c13sFuzzKeys(rd)
		flags := rd.next()
		pre := uint32(rd.next()) | uint32(rd.next())<<8
		ctx := &c13sCtx{keys: keys, msg: 0, hash: "c13-keyhash"}
		r := &c13sRun{t: t, scheme: gcrypto.SimpleCommonMessageSignatureProofScheme{}, labels: map[string]bool{}, opdesc: "fuzz"}
		s := &c13sSlot{p: r.newProof(ctx), ctx: ctx}
		r.slots = []*c13sSlot{s}
		w := c13sW()
		for i := range keys {
			if pre&(1<<uint(i)) != 0 {
				if err := s.p.AddSignature(bytes.Clone(w.sigs[keys[i]][0]), w.gpubs[keys[i]]); err != nil {
					t.Fatalf("VERIF-FAIL property=C13 clause=\"add-result\": valid signature rejected: %v", err)
				}
				s.model |= 1 << uint(i)
			}
		}
		sp := gcrypto.SparseSignatureProof{PubKeyHash: ctx.hash}
		if flags&1 != 0 {
			sp.PubKeyHash = "other"
		}
		for n := 0; rd.more() && n < 40; n++ {
			sp.Signatures = append(sp.Signatures, rd.entry(keys, 0))
		}
		r.opdesc = fmt.Sprintf("fuzz MergeSparse n=%d preload=%#x entries=%d", len(keys), s.model, len(sp.Signatures))
		r.mergeSparseChecked(0, s, sp, false)
	})
}

func FuzzVerifC13SimpleFinalized(f *testing.F) {
	f.Add([]byte{3, 0, 2, 2, 0, 0, 0, 2, 0, 1, 0, 1, 1, 1, 2, 0, 2, 0})
	f.Add([]byte{3, 0, 1, 1, 7, 0})
	f.Add([]byte{8, 0, 3, 2, 0, 0, 0, 2, 0, 1, 0, 2, 0, 1, 1, 2, 1, 1, 2, 0, 3, 0, 2, 1, 2, 0, 3, 0})
	f.Add([]byte{0, 6, 1, 3, 0, 0, 9, 0})
	f.Fuzz(func(t *testing.T, data []byte) {
		w := c13sW()
		rd := &c13sRd{b: data}
		keys := c13sFuzzKeys(rd)
		gkeys := make([]gcrypto.PubKey, len(keys))
		for i, k := range keys {
			gkeys[i] = w.gpubs[k]
		}
		hashes := map[string]string{}
		content := func(sel int) (string, int) {
			sel %= c13sNMsgs + 2
			if sel < c13sNMsgs {
				return string(w.msgs[sel]), sel
			}
			return fmt.Sprintf("c13-unknown-content-%d", sel), 0
		}
		fin := gcrypto.FinalizedCommonMessageSignatureProof{Keys: gkeys, PubKeyHash: "c13-keyhash"}
		mc, mi := content(rd.next())
		fin.MainMessage = []byte(mc)
		hashes[mc] = "blockhash-" + mc
		for n := rd.next() % 5; n > 0; n-- {
			fin.MainSignatures = append(fin.MainSignatures, rd.entry(keys, mi))
		}
		for nb := rd.next() % 4; nb > 0; nb-- {
			c, ci := content(rd.next())
			if fin.Rest == nil {
				fin.Rest = map[string][]gcrypto.SparseSignature{}
			}
			hashes[c] = "blockhash-" + c
			var ss []gcrypto.SparseSignature
			for n := rd.next() % 5; n > 0; n-- {
				ss = append(ss, rd.entry(keys, ci))
			}
			fin.Rest[c] = ss
		}
		c13sCheckFinArbitrary(t, nil, nil, gcrypto.SimpleCommonMessageSignatureProofScheme{}, keys, fin, hashes)
	})
}
