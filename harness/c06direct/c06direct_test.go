package tmconsensus_test

import (
	"fmt"
	"math/big"
	"sort"
	"testing"

	"github.com/bits-and-blooms/bitset"
	"github.com/gordian-engine/gordian/gcrypto"
	"github.com/gordian-engine/gordian/internal/zzverif/c06kit"
	"github.com/gordian-engine/gordian/internal/zzverif/vk"
	"github.com/gordian-engine/gordian/tm/tmconsensus"
	"pgregory.net/rapid"
)

// C06 (direct half): vote power accounting counts every validator exactly once.
//
// A case is a validator set, up to three vote families (proof maps for
// prevotes and precommits) and a short script of operations on one
// tmconsensus.VoteSummary. After every operation the summary must equal the
// math/big recomputation from the signer sets (c06kit.KindOracle), for every
// insertion order of the proof maps and on every repetition.

const c06Rule = "validator sets n in [1,12] (small/equal/dominant/near-threshold/huge powers, total < 2^63); 1-3 vote families of 0-6 targets per kind (nil target included) built as honest partition, one equivocator, many equivocators, all-sign-all, or signers restricted to a maximal set below one third; 1-8 operations (SetAvailablePower, SetPrevotePowers, SetPrecommitPowers, SetVotePowers, Reset, ResetForSameHeight, Clone) with shuffled proof-map insertion orders and 1-4 repetitions; non-trivial = some validator signs >= 2 targets of the same kind in a family that an operation evaluates; distinct = distinct case JSON"

type c06Kind struct {
	set bool
	ref c06kit.KindRef
}

type c06Model struct {
	avail *big.Int
	kind  [2]c06Kind
}

type c06Frozen struct {
	vs   tmconsensus.VoteSummary
	m    c06Model
	what string
}

var c06KindName = [2]string{"prevote", "precommit"}
var c06KindTitle = [2]string{"Prevote", "Precommit"}

func c06Fields(vs *tmconsensus.VoteSummary, kind int) (uint64, map[string]uint64, string) {
	if kind == 0 {
		return vs.TotalPrevotePower, vs.PrevoteBlockPower, vs.MostVotedPrevoteHash
	}
	return vs.TotalPrecommitPower, vs.PrecommitBlockPower, vs.MostVotedPrecommitHash
}

func u(x uint64) *big.Int { return new(big.Int).SetUint64(x) }

// c06Compare: exact equality of the reported summary with the model.
func c06Compare(vs *tmconsensus.VoteSummary, m *c06Model) (string, string) {
	if u(vs.AvailablePower).Cmp(m.avail) != 0 {
		return "available-sum", fmt.Sprintf("AvailablePower=%d, sum of validator powers=%s", vs.AvailablePower, m.avail)
	}
	for k := 0; k < 2; k++ {
		tot, blocks, most := c06Fields(vs, k)
		ref := m.kind[k].ref
		if !m.kind[k].set {
			ref = c06kit.KindRef{Total: new(big.Int), Block: map[string]*big.Int{}}
		}
		// per target
		hs := make([]string, 0, len(ref.Block))
		for h := range ref.Block {
			hs = append(hs, h)
		}
		sort.Strings(hs)
		for _, h := range hs {
			if u(blocks[h]).Cmp(ref.Block[h]) != 0 {
				return "block-power-" + c06KindName[k], fmt.Sprintf("target %x: reported %d, power of its distinct signers %s", h, blocks[h], ref.Block[h])
			}
		}
		got := make([]string, 0, len(blocks))
		for h := range blocks {
			got = append(got, h)
		}
		sort.Strings(got)
		for _, h := range got {
			if _, ok := ref.Block[h]; !ok && blocks[h] != 0 {
				return "stale-target-" + c06KindName[k], fmt.Sprintf("target %x reported with power %d but is not in the evaluated proof map", h, blocks[h])
			}
		}
		if u(tot).Cmp(ref.Total) != 0 {
			d := fmt.Sprintf("Total%sPower=%d, power of the union of signers (mask %#x)=%s", c06KindTitle[k], tot, ref.Union, ref.Total)
			if ref.Naive != nil && u(tot).Cmp(ref.Naive) == 0 {
				d += " (equals the sum of the per-target powers: every extra target of a validator is counted again)"
			}
			return "total-union-" + c06KindName[k], d
		}
		if most != ref.Most {
			return "most-voted-" + c06KindName[k], fmt.Sprintf("reported %x, documented rule (smallest hash among the maxima, empty when nil leads or nothing voted) gives %x; powers %v", most, ref.Most, blocks)
		}
	}
	return "", ""
}

// c06Consequence: the direct form of the "consequently" clause. If all
// signers of a kind lie in a set whose power is below one third of the total,
// none of the thresholds a caller compares the totals against can be met.
func c06Consequence(w *c06kit.World, vs *tmconsensus.VoteSummary, m *c06Model) (string, string, bool) {
	if m.avail.Cmp(w.Total) != 0 || vs.AvailablePower == 0 {
		return "", "", false
	}
	evaluated := false
	for k := 0; k < 2; k++ {
		if !m.kind[k].set {
			continue
		}
		ref := m.kind[k].ref
		if ref.Union == 0 || !w.BelowThird(ref.Total) {
			continue
		}
		evaluated = true
		tot, blocks, _ := c06Fields(vs, k)
		min := tmconsensus.ByzantineMinority(vs.AvailablePower)
		maj := tmconsensus.ByzantineMajority(vs.AvailablePower)
		who := fmt.Sprintf("signers %#x hold %s of %s (< 1/3)", ref.Union, ref.Total, w.Total)
		switch {
		case tot == vs.AvailablePower:
			return "consequence-fully-voted-" + c06KindName[k], fmt.Sprintf("%s but Total%sPower == AvailablePower == %d", who, c06KindTitle[k], tot), true
		case tot >= maj:
			return "consequence-majority-" + c06KindName[k], fmt.Sprintf("%s but Total%sPower=%d >= ByzantineMajority=%d", who, c06KindTitle[k], tot, maj), true
		case tot >= min:
			return "consequence-minority-" + c06KindName[k], fmt.Sprintf("%s but Total%sPower=%d >= ByzantineMinority=%d", who, c06KindTitle[k], tot, min), true
		}
		if w.ReachesThird(u(tot)) {
			return "consequence-minority-" + c06KindName[k], fmt.Sprintf("%s but 3*Total%sPower=3*%d >= total", who, c06KindTitle[k], tot), true
		}
		hs := make([]string, 0, len(blocks))
		for h := range blocks {
			hs = append(hs, h)
		}
		sort.Strings(hs)
		for _, h := range hs {
			if blocks[h] >= min {
				return "consequence-target-minority-" + c06KindName[k], fmt.Sprintf("%s but target %x has %d >= ByzantineMinority=%d", who, h, blocks[h], min), true
			}
		}
	}
	return "", "", evaluated
}

func c06InputsIntact(w *c06kit.World, f *c06kit.RFamily, kind int, pm map[string]gcrypto.CommonMessageSignatureProof) string {
	if len(pm) != len(f.Kinds[kind]) {
		return fmt.Sprintf("proof map has %d entries after the call, had %d", len(pm), len(f.Kinds[kind]))
	}
	var bs bitset.BitSet
	for _, t := range f.Kinds[kind] {
		p, ok := pm[t.Hash]
		if !ok {
			return fmt.Sprintf("target %x vanished from the caller's proof map", t.Hash)
		}
		p.SignatureBitSet(&bs)
		var mask uint16
		for i, ok := bs.NextSet(0); ok; i, ok = bs.NextSet(i + 1) {
			if i < 16 {
				mask |= 1 << i
			}
		}
		if mask != t.Mask {
			return fmt.Sprintf("target %x: signer bits %#x after the call, were %#x", t.Hash, mask, t.Mask)
		}
	}
	return ""
}

type c06Class struct {
	nontrivial bool
	labels     []string
}

func c06Classify(c c06kit.Case, w *c06kit.World) c06Class {
	var cl c06Class
	add := func(s string) { cl.labels = append(cl.labels, s) }
	switch {
	case w.N == 1:
		add("n=1")
	case w.N <= 3:
		add("n=2-3")
	case w.N == 4:
		add("n=4")
	case w.N <= 7:
		add("n=5-7")
	default:
		add("n=8-12")
	}
	add("profile=" + c.Profile)
	if w.Real {
		add("proof=real-ed25519")
	} else {
		add("proof=stand-in")
	}
	if w.Total.BitLen() > 53 {
		add("total>2^53")
	}
	for _, p := range w.Powers {
		if p == 0 {
			add("has-zero-power-validator")
			break
		}
	}
	used := map[int]bool{}
	for _, op := range c.Ops {
		switch op.Kind {
		case c06kit.OpSetPrevotes, c06kit.OpSetPrecommits, c06kit.OpSetBoth, c06kit.OpCloneProbe:
			k := op.Fam
			if k < 0 {
				k = -k
			}
			used[k%len(w.Fams)] = true
		}
	}
	maxT, maxE := 0, 0
	var nilT, tie, below, belowEq, emptyTarget bool
	for fi := range w.Fams {
		if !used[fi] {
			continue
		}
		f := &w.Fams[fi]
		for k := 0; k < 2; k++ {
			mt, eq := f.Equivocation(k, w.N)
			if mt > maxT {
				maxT = mt
			}
			if eq > maxE {
				maxE = eq
			}
			ref := w.KindOracle(f, k)
			cnt := 0
			max := new(big.Int)
			for _, p := range ref.Block {
				if p.Cmp(max) > 0 {
					max = p
				}
			}
			for h, p := range ref.Block {
				if h == "" {
					nilT = true
				}
				if p.Sign() == 0 {
					emptyTarget = true
				}
				if p.Sign() > 0 && p.Cmp(max) == 0 {
					cnt++
				}
			}
			if cnt >= 2 {
				tie = true
			}
			if ref.Union != 0 && w.BelowThird(ref.Total) {
				below = true
				if mt >= 2 {
					belowEq = true
				}
			}
		}
	}
	cl.nontrivial = maxT >= 2
	switch {
	case maxE == 0:
		add("equivocators=0")
	case maxE == 1:
		add("equivocators=1")
	default:
		add("equivocators>=2")
	}
	switch {
	case maxT >= 4:
		add("max-targets-per-validator>=4")
	case maxT >= 2:
		add("max-targets-per-validator=2-3")
	}
	if nilT {
		add("nil-target-present")
	}
	if emptyTarget {
		add("target-without-signers")
	}
	if tie {
		add("tie-at-maximum")
	}
	if below {
		add("signers-below-third")
	}
	if belowEq {
		add("signers-below-third+equivocation")
	}
	return cl
}

func c06Run(t vk.TB, st *vk.Stats, c c06kit.Case) {
	w := c06kit.Resolve(c)
	if st.WantSample() {
		st.Sample(c)
	}
	cl := c06Classify(c, w)
	st.Case(cl.nontrivial, vk.FP(c), cl.labels...)
	st.Guard(t, c, func() {
		vs := tmconsensus.NewVoteSummary()
		m := c06Model{avail: new(big.Int)}
		var frozen []c06Frozen

		check := func(step int, what string, vsp *tmconsensus.VoteSummary, mp *c06Model, consequence bool) {
			clause, detail := c06Compare(vsp, mp)
			if consequence {
				if cc, cd, ev := c06Consequence(w, vsp, mp); cc != "" {
					if clause != "" {
						cd += "; accounting: " + clause + ": " + detail
					}
					clause, detail = cc, cd
				} else if ev {
					st.Label("step:consequence-evaluated")
				}
			}
			if clause != "" {
				st.Fail(t, c, "", clause, "op %d (%s): %s", step, what, detail)
			}
		}
		setKind := func(step int, op c06kit.Op, kinds []int, rep int, target *tmconsensus.VoteSummary, tm *c06Model, reuse *[2]map[string]gcrypto.CommonMessageSignatureProof) {
			f := w.Fam(op.Fam)
			var pm [2]map[string]gcrypto.CommonMessageSignatureProof
			for _, k := range kinds {
				if rep%2 == 1 && reuse[k] != nil {
					pm[k] = reuse[k] // re-evaluation on the very same map value
				} else {
					pm[k] = w.ProofMap(f, k, op.Perm+uint32(rep)*0x9e37)
				}
				reuse[k] = pm[k]
				tm.kind[k] = c06Kind{set: true, ref: w.KindOracle(f, k)}
			}
			switch {
			case len(kinds) == 2:
				target.SetVotePowers(w.Vals, pm[0], pm[1])
			case kinds[0] == 0:
				target.SetPrevotePowers(w.Vals, pm[0])
			default:
				target.SetPrecommitPowers(w.Vals, pm[1])
			}
			for _, k := range kinds {
				if d := c06InputsIntact(w, f, k, pm[k]); d != "" {
					st.Fail(t, c, "", "input-mutated", "op %d (%s): %s", step, c06kit.OpNames[op.Kind], d)
				}
			}
		}

		for i, op := range c.Ops {
			kind := op.Kind % c06kit.NumOps
			if kind < 0 {
				kind = -kind
			}
			op.Kind = kind
			reps := op.Reps
			if reps < 1 {
				reps = 1
			}
			if reps > 4 {
				reps = 4
			}
			name := c06kit.OpNames[kind]
			st.Label("op:" + name)
			switch kind {
			case c06kit.OpSetAvail:
				for r := 0; r < reps; r++ {
					vs.SetAvailablePower(w.Vals)
					m.avail = w.Total
					check(i, name, &vs, &m, true)
				}
			case c06kit.OpSetPrevotes, c06kit.OpSetPrecommits, c06kit.OpSetBoth:
				kinds := []int{0, 1}
				if kind == c06kit.OpSetPrevotes {
					kinds = []int{0}
				} else if kind == c06kit.OpSetPrecommits {
					kinds = []int{1}
				}
				var reuse [2]map[string]gcrypto.CommonMessageSignatureProof
				for r := 0; r < reps; r++ {
					setKind(i, op, kinds, r, &vs, &m, &reuse)
					check(i, fmt.Sprintf("%s fam %d rep %d", name, op.Fam, r), &vs, &m, true)
				}
			case c06kit.OpReset:
				vs.Reset()
				m = c06Model{avail: new(big.Int)}
				check(i, name, &vs, &m, false)
			case c06kit.OpResetSameHeight:
				vs.ResetForSameHeight()
				m.kind = [2]c06Kind{}
				check(i, name, &vs, &m, false)
			case c06kit.OpCloneProbe:
				cp := vs.Clone()
				check(i, "clone equals original", &cp, &m, false)
				if len(frozen) < 4 {
					if op.Perm%2 == 1 {
						// continue on the clone, the original is frozen
						frozen = append(frozen, c06Frozen{vs: vs, m: m, what: fmt.Sprintf("original cloned at op %d", i)})
						vs = cp
					} else {
						frozen = append(frozen, c06Frozen{vs: cp, m: m, what: fmt.Sprintf("clone taken at op %d", i)})
					}
				}
				// and the live one immediately takes another family
				var reuse [2]map[string]gcrypto.CommonMessageSignatureProof
				setKind(i, op, []int{0, 1}, 0, &vs, &m, &reuse)
				check(i, name+" then set-both", &vs, &m, true)
			}
			for fi := range frozen {
				fr := &frozen[fi]
				if clause, detail := c06Compare(&fr.vs, &fr.m); clause != "" {
					st.Fail(t, c, "", "clone-independent", "after op %d (%s): %s changed: %s: %s", i, name, fr.what, clause, detail)
				}
			}
		}
	})
}

func c06Floors(t *testing.T, st *vk.Stats, floors map[string]float64) {
	if st.Evals < 3000 {
		return
	}
	for l, f := range floors {
		var got int64
		if l == "nontrivial" {
			got = st.Nontriv
		} else {
			got = st.Labels[l]
		}
		if float64(got) < f*float64(st.Evals) {
			t.Fatalf("VERIF-FAIL property=C06 test=%s clause=\"harness\": class %q is %d of %d cases, floor %.0f%%", st.Test, l, got, st.Evals, f*100)
		}
	}
}

func TestVerifC06Direct(t *testing.T) {
	st := vk.NewStats("C06", "TestVerifC06Direct", c06Rule)
	defer st.Flush()
	var c c06kit.Case
	if ok, err := vk.LoadReplay("C06", "TestVerifC06Direct", &c); err != nil {
		t.Fatal(err)
	} else if ok {
		c06Run(t, st, c)
		return
	} else if vk.Replaying() {
		t.Skip("replay file is for another test")
	}
	rapid.Check(t, func(rt *rapid.T) {
		c06Run(rt, st, c06kit.Gen(rt))
	})
	if !t.Failed() {
		c06Floors(t, st, map[string]float64{
			"nontrivial":                       0.50,
			"signers-below-third+equivocation": 0.08,
			"tie-at-maximum":                   0.05,
			"nil-target-present":               0.10,
			"proof=real-ed25519":               0.03,
		})
	}
}

// The scenarios named in DESIGN.md section 4 C06, as fixed cases through the same
// interpreter (a regression anchor; the generated campaign does not depend on it).
func c06Scenarios() []c06kit.Case {
	set := []c06kit.Op{{Kind: c06kit.OpSetAvail}, {Kind: c06kit.OpSetBoth, Reps: 2}}
	eq4 := []uint64{1, 1, 1, 1}
	return []c06kit.Case{
		// one of four equal validators precommits four targets: must not look fully voted
		{Powers: eq4, Profile: "scenario", Ops: set, Fams: []c06kit.Family{{Precommits: []c06kit.Target{
			{Hash: "", Signers: 1}, {Hash: "61", Signers: 1}, {Hash: "62", Signers: 1}, {Hash: "63", Signers: 1}}}}},
		// ... prevotes two targets: must not reach the minority that makes the mirror jump a round
		{Powers: eq4, Profile: "scenario", Ops: set, Fams: []c06kit.Family{{Prevotes: []c06kit.Target{
			{Hash: "61", Signers: 1}, {Hash: "62", Signers: 1}}}}},
		// probe 8 of DESIGN.md: 99997 of 399994 prevoting two unknown hashes
		{Powers: []uint64{99997, 99999, 99999, 99999}, Profile: "scenario", Ops: set, Fams: []c06kit.Family{{Prevotes: []c06kit.Target{
			{Hash: "756e6b6e6f776e31", Signers: 1}, {Hash: "756e6b6e6f776e32", Signers: 1}}}}},
		// three of ten precommit three targets each: must not look like a majority (delay timer)
		{Powers: []uint64{1, 1, 1, 1, 1, 1, 1, 1, 1, 1}, Profile: "scenario", Ops: set, Fams: []c06kit.Family{{Precommits: []c06kit.Target{
			{Hash: "", Signers: 7}, {Hash: "61", Signers: 7}, {Hash: "62", Signers: 7}}}}},
		// honest tie between two blocks and nil: documented tie rule, real proofs
		{Powers: []uint64{2, 2, 2, 1}, Profile: "scenario", Real: true, Ops: set, Fams: []c06kit.Family{{Prevotes: []c06kit.Target{
			{Hash: "62", Signers: 1}, {Hash: "61", Signers: 2}, {Hash: "", Signers: 8}, {Hash: "6100", Signers: 4}}}}},
	}
}

func TestVerifC06Scenarios(t *testing.T) {
	st := vk.NewStats("C06", "TestVerifC06Scenarios", "fixed cases: the equivocation scenarios of DESIGN.md section 4 C06 (fully voted, round jump, probe 8, false majority) and one honest tie; non-trivial = some validator signs >= 2 targets of the same kind")
	defer st.Flush()
	var c c06kit.Case
	if ok, err := vk.LoadReplay("C06", "TestVerifC06Scenarios", &c); err != nil {
		t.Fatal(err)
	} else if ok {
		c06Run(t, st, c)
		return
	} else if vk.Replaying() {
		t.Skip("replay file is for another test")
	}
	for _, c := range c06Scenarios() {
		c06Run(t, st, c)
	}
}
