package gtxbuf_test

import (
	"fmt"
	"runtime"
	"sort"
	"sync"
	"sync/atomic"
	"testing"

	"github.com/anishathalye/porcupine"
	"github.com/gordian-engine/gordian/internal/zzverif/vk"
	"pgregory.net/rapid"
)

// ---------------------------------------------------------------------------
// (b) concurrent: NG goroutines run their ops against one buffer on the real
// scheduler; the recorded history must linearize against the same reference
// model (porcupine), and every Buffered snapshot must apply in order to some
// base that was current between its call and its return.

// c19COp is one op of the concurrent program. The goroutine that runs it is
// G mod NG; each goroutine runs its ops in list order.
type c19COp struct {
	G int `json:"g"`
	// K: 0 = AddTx (fresh transaction, id = index of the op + 1, type Ty),
	// 1 = Buffered, 2 = Rebase.
	K  int `json:"k"`
	Ty int `json:"ty,omitempty"`
	// Rebase: new base; bit i of Mask reports element i of the snapshot this
	// goroutine got from its latest Buffered call as applied (what a driver
	// does: read the buffer, build a block, rebase); Ref lists op indices whose
	// AddTx transaction is reported applied too, pending or not.
	Base int    `json:"base,omitempty"`
	Mask uint64 `json:"mask,omitempty"`
	Ref  []int  `json:"ref,omitempty"`
	// Y: number of runtime.Gosched calls before the op (schedule perturbation).
	Y int `json:"y,omitempty"`
	// B: this op opens a new round. All goroutines meet at a spinning barrier
	// between rounds, so that the calls of a round start at the same instant on
	// different processors; inside a round the goroutines run freely.
	B bool `json:"b,omitempty"`
}

// c19Ev is one completed call of the recorded history. Call/Ret are ticks of
// a logical clock (an atomic counter bumped immediately before the call and
// immediately after the return), so "a returned before b was called" in real
// time implies a.Ret < b.Call, and nothing depends on the wall clock.
type c19Ev struct {
	G        int     `json:"g"`
	K        int     `json:"k"`
	Call     int64   `json:"call"`
	Ret      int64   `json:"ret"`
	Tx       c19Tx   `json:"tx"`                 // AddTx
	Err      int     `json:"err,omitempty"`      // AddTx error kind
	ErrState int     `json:"errstate,omitempty"` // AddTx: state the refusal refers to
	ErrText  string  `json:"errtext,omitempty"`  // unexpected error text (AddTx kind 3, Rebase)
	Base     int     `json:"base,omitempty"`     // Rebase
	Applied  []c19Tx `json:"applied,omitempty"`  // Rebase
	Out      []c19Tx `json:"out,omitempty"`      // Buffered result / Rebase invalidated
}

type c19ConcCase struct {
	Sem c19Sem `json:"sem"`
	NG  int    `json:"ng"`
	// Slow: Gosched calls made by every addTxFunc / txDeleterFunc invocation.
	Slow int      `json:"slow,omitempty"`
	Ops  []c19COp `json:"ops"`
	// History is filled in when a run fails; the replay tier re-checks it
	// deterministically (and then re-runs the program a number of times).
	History []c19Ev `json:"history,omitempty"`
}

func (c *c19ConcCase) ng() int {
	if c.NG < 1 {
		return 1
	}
	if c.NG > 8 {
		return 8
	}
	return c.NG
}

// c19RunConcOnce executes the program once and returns the history.
func c19RunConcOnce(c *c19ConcCase) ([]c19Ev, error) {
	sem := &c.Sem
	w, buf, ctx, stop, err := c19Start(sem, c.Slow)
	if err != nil {
		return nil, err
	}
	defer stop()
	ng := c.ng()
	abs := func(i int) int {
		if i < 0 {
			return -i
		}
		return i
	}
	txOf := func(i int) c19Tx {
		ty := 0
		if sem.T > 0 {
			ty = abs(c.Ops[i].Ty) % sem.T
		}
		return c19Tx{ID: i + 1, Ty: ty}
	}
	var clock atomic.Int64
	hist := make([][]c19Ev, ng)
	start := make(chan struct{})
	// barrier: the k-th meeting is over when k*ng arrivals were counted. A
	// goroutine spins briefly (simultaneous start on different processors when
	// they are free), then blocks on the meeting's channel, which the last
	// arriver closes (no processor is burnt while others are inside a call).
	nMeet := 1
	for i, op := range c.Ops {
		if op.B && i > 0 {
			nMeet++
		}
	}
	released := make([]chan struct{}, nMeet+1)
	for i := range released {
		released[i] = make(chan struct{})
	}
	var arrived atomic.Int64
	meet := func(k int) {
		target := int64(k * ng)
		if arrived.Add(1) == target {
			close(released[k])
			return
		}
		for spins := 0; spins < 300; spins++ {
			if arrived.Load() >= target {
				return
			}
		}
		<-released[k]
	}
	var wg sync.WaitGroup
	for g := 0; g < ng; g++ {
		wg.Add(1)
		go func(g int) {
			defer wg.Done()
			var snap []c19Tx // latest Buffered result seen by this goroutine
			<-start
			meetings := 1
			meet(meetings)
			for i, op := range c.Ops {
				if op.B && i > 0 {
					meetings++
					meet(meetings)
				}
				if abs(op.G)%ng != g {
					continue
				}
				for y := 0; y < op.Y && y < 4; y++ {
					runtime.Gosched()
				}
				ev := c19Ev{G: g, K: op.K}
				switch op.K {
				case 0:
					ev.Tx = txOf(i)
					ev.Call = clock.Add(1)
					err := buf.AddTx(ctx, ev.Tx)
					ev.Ret = clock.Add(1)
					ev.Err, ev.ErrState, ev.ErrText = c19Classify(err)
				case 1:
					ev.Call = clock.Add(1)
					out := buf.Buffered(ctx, nil)
					ev.Ret = clock.Add(1)
					ev.Out = c19Clone(out)
					snap = c19Clone(out)
					c19Scribble(out)
				case 2:
					ev.Base = sem.st(op.Base)
					for j, tx := range snap {
						if j < 64 && op.Mask&(1<<uint(j)) != 0 {
							ev.Applied = append(ev.Applied, tx)
						}
					}
					for _, r := range op.Ref {
						if k := abs(r) % len(c.Ops); c.Ops[k].K == 0 {
							ev.Applied = append(ev.Applied, txOf(k))
						} else {
							ev.Applied = append(ev.Applied, c19Tx{ID: 1000000 + k, Ty: 0})
						}
					}
					arg := c19Clone(ev.Applied)
					ev.Call = clock.Add(1)
					inv, err := buf.Rebase(ctx, &c19State{V: ev.Base}, arg)
					ev.Ret = clock.Add(1)
					ev.Out = c19Clone(inv)
					if err != nil {
						ev.ErrText = "rebase error: " + err.Error()
					}
					c19Scribble(arg)
					c19Scribble(inv)
				default:
					continue
				}
				hist[g] = append(hist[g], ev)
			}
		}(g)
	}
	close(start)
	wg.Wait()
	var all []c19Ev
	for _, h := range hist {
		all = append(all, h...)
	}
	// one quiescent observation at the end, after every other call returned
	fin := c19Ev{G: 0, K: 1}
	fin.Call = clock.Add(1)
	out := buf.Buffered(ctx, nil)
	fin.Ret = clock.Add(1)
	fin.Out = c19Clone(out)
	all = append(all, fin)
	sort.Slice(all, func(i, j int) bool { return all[i].Call < all[j].Call })
	if n := w.nilState.Load(); n != 0 {
		return all, fmt.Errorf("addTxFunc was called %d times with a nil state", n)
	}
	return all, nil
}

// c19PState is the porcupine state: the reference model, never mutated.
type c19PState struct{ m c19Model }

func c19PorcupineModel(sem *c19Sem) porcupine.Model {
	return porcupine.Model{
		Init: func() interface{} { return c19PState{m: c19Model{base: sem.st(sem.Init)}} },
		Step: func(state, input, output interface{}) (bool, interface{}) {
			s := state.(c19PState)
			ev := input.(*c19Ev)
			switch ev.K {
			case 0:
				kind, st, after := s.m.add(sem, ev.Tx)
				if ev.Err != kind || (kind == c19ErrInvalid && ev.ErrState != st) {
					return false, state
				}
				return true, c19PState{m: after}
			case 1:
				return c19EqTxs(ev.Out, s.m.pend), state
			case 2:
				inv, after := s.m.rebase(sem, ev.Base, ev.Applied)
				if ev.ErrText != "" || !c19EqTxs(ev.Out, inv) {
					return false, state
				}
				return true, c19PState{m: after}
			}
			return false, state
		},
		Equal: func(a, b interface{}) bool {
			x, y := a.(c19PState), b.(c19PState)
			return x.m.base == y.m.base && c19EqTxs(x.m.pend, y.m.pend)
		},
		DescribeOperation: func(input, _ interface{}) string { return fmt.Sprintf("%+v", *input.(*c19Ev)) },
	}
}

// c19CheckHistory is the oracle for a recorded history (deterministic).
func c19CheckHistory(sem *c19Sem, h []c19Ev) (clause, detail string) {
	// 0. no call may fail in an undocumented way
	for i := range h {
		if h[i].ErrText != "" || h[i].Err == c19ErrOther {
			return "conc-unexpected-error", fmt.Sprintf("event %+v", h[i])
		}
		if h[i].Ret <= h[i].Call {
			return "harness", fmt.Sprintf("event %+v has no positive duration", h[i])
		}
	}
	// 1. the invariant, directly: each Buffered snapshot applies in order to
	// some base that was current at some instant between its call and return,
	// and holds only transactions whose AddTx had been called by then and was
	// not refused.
	var rebases []*c19Ev
	added := map[int]*c19Ev{}
	for i := range h {
		switch h[i].K {
		case 2:
			rebases = append(rebases, &h[i])
		case 0:
			added[h[i].Tx.ID] = &h[i]
		}
	}
	for i := range h {
		b := &h[i]
		if b.K != 1 {
			continue
		}
		var cands []int
		overwritten := func(ret int64) bool { // some rebase started after ret and finished before b was called
			for _, r2 := range rebases {
				if ret < r2.Call && r2.Ret < b.Call {
					return true
				}
			}
			return false
		}
		if !overwritten(0) {
			cands = append(cands, sem.st(sem.Init))
		}
		for _, r := range rebases {
			if r.Call < b.Ret && !overwritten(r.Ret) {
				cands = append(cands, r.Base)
			}
		}
		ok := false
		for _, base := range cands {
			if c19Applies(sem, base, b.Out) < 0 {
				ok = true
				break
			}
		}
		if !ok {
			return "conc-buffered-applies", fmt.Sprintf("Buffered [%d,%d] = %v applies in order on none of the bases %v that were current during the call", b.Call, b.Ret, b.Out, cands)
		}
		seen := map[int]bool{}
		for _, tx := range b.Out {
			a := added[tx.ID]
			if a == nil || a.Tx != tx || a.Call > b.Ret || a.Err != c19ErrNone {
				return "conc-buffered-unknown-tx", fmt.Sprintf("Buffered [%d,%d] = %v holds %v, which no accepted AddTx called before the return submitted", b.Call, b.Ret, b.Out, tx)
			}
			if seen[tx.ID] {
				return "conc-buffered-duplicate", fmt.Sprintf("Buffered [%d,%d] = %v holds %v twice although it was submitted once", b.Call, b.Ret, b.Out, tx)
			}
			seen[tx.ID] = true
		}
	}
	// 2. linearizability against the reference model
	ops := make([]porcupine.Operation, len(h))
	for i := range h {
		ops[i] = porcupine.Operation{ClientId: h[i].G, Input: &h[i], Call: h[i].Call, Output: &h[i], Return: h[i].Ret}
	}
	if !porcupine.CheckOperations(c19PorcupineModel(sem), ops) {
		return "conc-linearizable", fmt.Sprintf("no linearization of the %d recorded calls matches the reference model (history in the case file)", len(h))
	}
	return "", ""
}

// c19ConcLabels classifies a history (what happened on this schedule).
func c19ConcLabels(sem *c19Sem, h []c19Ev) (labels []string, nontrivial bool) {
	overlap := 0
	for i := range h {
		for j := i + 1; j < len(h); j++ {
			if h[i].G != h[j].G && h[i].Call < h[j].Ret && h[j].Call < h[i].Ret {
				overlap++
			}
		}
	}
	set := map[string]bool{}
	switch {
	case overlap == 0:
		set["overlap:0"] = true
	case overlap < 4:
		set["overlap:1-3"] = true
	default:
		set["overlap:>=4"] = true
	}
	for i := range h {
		switch h[i].K {
		case 0:
			if h[i].Err == c19ErrInvalid {
				set["add:refused"] = true
				// refused although the tx applies to every base that ever existed:
				// only a pending prefix can be the reason
				every := sem.next(sem.st(sem.Init), h[i].Tx.Ty) >= 0
				for j := range h {
					if h[j].K == 2 && sem.next(h[j].Base, h[i].Tx.Ty) < 0 {
						every = false
					}
				}
				if every {
					set["add:refused-by-prefix"] = true
					nontrivial = true
				}
			} else {
				set["add:accepted"] = true
			}
		case 1:
			if len(h[i].Out) >= 2 {
				set["buffered:len>=2"] = true
			}
		case 2:
			if len(h[i].Out) > 0 {
				set["rebase:invalidates"] = true
			}
			if len(h[i].Applied) > 0 {
				set["rebase:reports-applied"] = true
			}
		}
	}
	// a rebase that invalidated a tx while a tx accepted earlier than the
	// rebase returned... is decided exactly only by the linearization; as a
	// schedule independent proxy: an invalidating rebase after which a later
	// snapshot still holds a tx whose AddTx returned before the rebase was called.
	for i := range h {
		if h[i].K != 2 || len(h[i].Out) == 0 {
			continue
		}
		for j := range h {
			if h[j].K != 1 || h[j].Call < h[i].Ret {
				continue
			}
			for _, tx := range h[j].Out {
				for k := range h {
					if h[k].K == 0 && h[k].Tx.ID == tx.ID && h[k].Ret < h[i].Call {
						set["rebase:invalidates-and-keeps"] = true
						nontrivial = true
					}
				}
			}
		}
	}
	for l := range set {
		labels = append(labels, l)
	}
	sort.Strings(labels)
	return labels, nontrivial
}

func c19RunConc(t vk.TB, st *vk.Stats, wal *c19WAL, c c19ConcCase, reps int) {
	saved := c.History
	c.History = nil
	if st.WantSample() {
		st.Sample(c)
	}
	wal.Write(c)
	st.Guard(t, c, func() {
		if len(saved) > 0 {
			// replay tier: the recorded history is the evidence
			if cl, d := c19CheckHistory(&c.Sem, saved); cl != "" {
				c.History = saved
				st.Fail(t, c, "", cl, "recorded history: %s", d)
			}
		}
		var labels []string
		nontrivial := false
		for r := 0; r < reps; r++ {
			h, err := c19RunConcOnce(&c)
			if err != nil {
				c.History = h
				st.Fail(t, c, "", "conc-callback", "%v", err)
			}
			if cl, d := c19CheckHistory(&c.Sem, h); cl != "" {
				c.History = h
				st.Fail(t, c, "", cl, "%s", d)
			}
			if r == 0 {
				labels, nontrivial = c19ConcLabels(&c.Sem, h)
			}
		}
		// fingerprint = the program (the schedule is not part of the case)
		st.Case(nontrivial, vk.FP(c), labels...)
	})
}

func c19GenConcCase(t *rapid.T) c19ConcCase {
	sem := c19GenSem(t)
	ng := rapid.IntRange(2, 4).Draw(t, "ng")
	opGen := rapid.Custom(func(t *rapid.T) c19COp {
		op := c19COp{G: rapid.IntRange(0, ng-1).Draw(t, "g")}
		if rapid.IntRange(0, 3).Draw(t, "yield") == 0 {
			op.Y = rapid.IntRange(1, 3).Draw(t, "y")
		}
		op.B = rapid.IntRange(0, 2).Draw(t, "round") == 0
		k := rapid.IntRange(0, 9).Draw(t, "kind")
		switch {
		case k <= 4:
			op.K, op.Ty = 0, rapid.IntRange(0, sem.T-1).Draw(t, "ty")
		case k <= 6:
			op.K = 1
		default:
			op.K, op.Base, op.Mask = 2, rapid.IntRange(0, sem.S-1).Draw(t, "base"), c19GenMask(t)
			if rapid.IntRange(0, 2).Draw(t, "hasref") == 0 {
				op.Ref = rapid.SliceOfN(rapid.IntRange(0, 23), 1, 3).Draw(t, "ref")
			}
		}
		return op
	})
	slow := rapid.IntRange(0, 2).Draw(t, "slow")
	return c19ConcCase{Sem: sem, NG: ng, Slow: slow, Ops: rapid.SliceOfN(opGen, rapid.IntRange(2, 14).Draw(t, "minlen"), 24).Draw(t, "ops")}
}

const c19ConcRule = "case = generated transition table + 2-24 ops AddTx/Buffered/Rebase distributed over 2-4 goroutines (real scheduler, generated Gosched points, generated rounds started together from a barrier); each Rebase reports a generated subset of the goroutine's latest Buffered snapshot plus referenced transactions; " +
	"oracle = porcupine linearizability against the reference model + every snapshot applies to a base current during the call; non-trivial = observed history has an AddTx refused although its tx applies to every base, or an invalidating Rebase after which an earlier accepted tx is still buffered; distinct = distinct programs"

func TestVerifC19Concurrent(t *testing.T) {
	st := vk.NewStats("C19", "TestVerifC19Concurrent", c19ConcRule)
	defer st.Flush()
	wal := c19OpenWAL("C19", "TestVerifC19Concurrent")
	defer wal.Close()
	var c c19ConcCase
	if ok, err := vk.LoadReplay("C19", "TestVerifC19Concurrent", &c); err != nil {
		t.Fatal(err)
	} else if ok {
		c19RunConc(t, st, wal, c, 200)
		return
	} else if vk.Replaying() {
		t.Skip("replay file is for another test")
	}
	rapid.Check(t, func(rt *rapid.T) {
		c19RunConc(rt, st, wal, c19GenConcCase(rt), 1)
	})
	if t.Failed() {
		return
	}
	if st.Evals >= 2000 {
		ov := st.Labels["overlap:1-3"] + st.Labels["overlap:>=4"]
		if ov*100 < st.Evals*15 {
			t.Fatalf("VERIF-FAIL property=C19 test=TestVerifC19Concurrent clause=%q: only %d of %d histories had calls of different goroutines overlapping", "harness", ov, st.Evals)
		}
	}
}
