package gtxbuf_test

import (
	"context"
	"errors"
	"fmt"
	"runtime"
	"sort"
	"testing"

	"github.com/gordian-engine/gordian/internal/zzverif/vk"
	"pgregory.net/rapid"
)

// ---------------------------------------------------------------------------
// (a) sequential / stateful: generated op list, every return value compared
// with the reference model after every step.

// c19Op is one operation of a sequential case (plain data; state dependent
// choices are small integers resolved by the interpreter).
type c19Op struct {
	// K: 0 = AddTx, 1 = Buffered, 2 = Rebase
	K int `json:"k"`
	// AddTx: Ty is the type of a fresh transaction (-1 = malformed).
	// Re: 0 = fresh unique id; 1 = re-submit a known transaction that is not
	// pending now (was refused, invalidated or reported applied), index Ix;
	// 2 = submit again a transaction that is pending now, index Ix;
	// 3 = fresh transaction of the Ix-th type that applies to the state after
	// the pending ones (falls back to Ty when none does).
	Ty int `json:"ty,omitempty"`
	Re int `json:"re,omitempty"`
	Ix int `json:"ix,omitempty"`
	// Rebase: new base state; bit i of Mask reports pending[i] as applied;
	// Extra further transactions that are not pending are reported applied as
	// well (the package's own test does that); Rot permutes the applied list.
	Base  int    `json:"base,omitempty"`
	Mask  uint64 `json:"mask,omitempty"`
	Extra int    `json:"extra,omitempty"`
	Rot   int    `json:"rot,omitempty"`
	// Buffered: 0 = nil dst, 1 = empty dst with spare capacity, 2 = dst with a
	// two element prefix and no spare capacity, 3 = prefix and spare capacity.
	Dst int `json:"dst,omitempty"`
	// AddTx, Rebase: CA > 0 = the caller gives up while the buffer works on the call: its own context
	// is cancelled when the addTxFunc runs for the CA-th time within this call (never, if it runs less often).
	CA int `json:"ca,omitempty"`
}

type c19SeqCase struct {
	Sem c19Sem  `json:"sem"`
	Ops []c19Op `json:"ops"`
}

// c19Step is an op resolved against the model: the concrete call and the
// results the property prescribes.
type c19Step struct {
	op       c19Op
	tx       c19Tx   // AddTx
	wantKind int     // AddTx
	wantSt   int     // AddTx, state a refusal must refer to
	base     int     // Rebase
	applied  []c19Tx // Rebase
	wantInv  []c19Tx // Rebase
	after    c19Model
	dupLive  bool // pending held two entries with one id when this step ran or earlier
}

type c19SeqPlan struct {
	steps      []c19Step
	labels     map[string]bool
	nontrivial bool
	excluded   int
}

func c19PlanSeq(c *c19SeqCase, exclDup bool) c19SeqPlan {
	sem := &c.Sem
	p := c19SeqPlan{labels: map[string]bool{}}
	m := c19Model{base: sem.st(sem.Init)}
	var known []c19Tx // every transaction ever submitted, in order of first submission
	nextID := 1
	dupLive := false
	hasDup := func(l []c19Tx) bool {
		seen := map[int]bool{}
		for _, tx := range l {
			if seen[tx.ID] {
				return true
			}
			seen[tx.ID] = true
		}
		return false
	}
	nonPending := func() []c19Tx {
		in := map[int]bool{}
		for _, tx := range m.pend {
			in[tx.ID] = true
		}
		var out []c19Tx
		for _, tx := range known {
			if !in[tx.ID] {
				out = append(out, tx)
			}
		}
		return out
	}
	abs := func(i int) int {
		if i < 0 {
			return -i
		}
		return i
	}
	for oi, op := range c.Ops {
		s := c19Step{op: op}
		switch op.K {
		case 0:
			switch {
			case op.Re == 2 && len(m.pend) > 0:
				if exclDup {
					p.excluded++
					continue
				}
				s.tx = m.pend[abs(op.Ix)%len(m.pend)]
				p.labels["add:again-while-pending"] = true
			case op.Re == 1 && len(nonPending()) > 0:
				np := nonPending()
				s.tx = np[abs(op.Ix)%len(np)]
				p.labels["add:resubmit-nonpending"] = true
			default:
				ty := op.Ty
				if ty < 0 {
					ty = c19Malformed
				} else if sem.T > 0 {
					ty %= sem.T
				}
				if op.Re == 3 {
					cur := m.cur(sem)
					var valid []int
					for x := 0; x < sem.T; x++ {
						if sem.next(cur, x) >= 0 {
							valid = append(valid, x)
						}
					}
					if len(valid) > 0 {
						ty = valid[abs(op.Ix)%len(valid)]
					}
				}
				s.tx = c19Tx{ID: nextID, Ty: ty}
				nextID++
				known = append(known, s.tx)
			}
			onBase := sem.next(m.base, s.tx.Ty) >= 0
			s.wantKind, s.wantSt, s.after = m.add(sem, s.tx)
			switch s.wantKind {
			case c19ErrNone:
				p.labels["add:accepted"] = true
				if !onBase && len(m.pend) > 0 {
					p.labels["add:accepted-only-after-prefix"] = true
				}
			case c19ErrInvalid:
				p.labels["add:refused"] = true
				if onBase && len(m.pend) > 0 {
					// applies to the base, refused because of the pending prefix
					p.labels["add:refused-by-prefix"] = true
					p.nontrivial = true
				}
			case c19ErrMalformed:
				p.labels["add:malformed"] = true
			}
		case 1:
			s.after = m
			switch {
			case len(m.pend) == 0:
				p.labels["buffered:len0"] = true
			case len(m.pend) >= 3:
				p.labels["buffered:len>=3"] = true
			default:
				p.labels["buffered:len1-2"] = true
			}
		case 2:
			s.base = sem.st(op.Base)
			for i, tx := range m.pend {
				if i < 64 && op.Mask&(1<<uint(i)) != 0 {
					s.applied = append(s.applied, tx)
				}
			}
			nMasked := len(s.applied)
			np := nonPending()
			for j := 0; j < op.Extra && j < 4; j++ {
				if len(np) > 0 && j%2 == 0 {
					s.applied = append(s.applied, np[(abs(op.Ix)+j)%len(np)])
				} else {
					// a transaction this buffer has never seen
					ty := 0
					if sem.T > 0 {
						ty = j % sem.T
					}
					s.applied = append(s.applied, c19Tx{ID: 1000000 + oi*8 + j, Ty: ty})
				}
			}
			if n := len(s.applied); n > 1 {
				r := abs(op.Rot)
				if r&1 != 0 { // reverse
					for i, j := 0, n-1; i < j; i, j = i+1, j-1 {
						s.applied[i], s.applied[j] = s.applied[j], s.applied[i]
					}
				}
				k := (r >> 2) % n
				s.applied = append(s.applied[k:len(s.applied):len(s.applied)], s.applied[:k]...)
				if r&2 != 0 { // the same transaction reported twice
					s.applied = append(s.applied, s.applied[0])
				}
			}
			before := m.pend
			s.wantInv, s.after = m.rebase(sem, s.base, s.applied)
			if hasDup(before) {
				dupLive = true
			}
			switch {
			case len(before) == 0:
				p.labels["rebase:empty-pending"] = true
			case nMasked == len(before):
				p.labels["rebase:all-applied"] = true
			case nMasked > 0:
				p.labels["rebase:some-applied"] = true
			default:
				p.labels["rebase:none-applied"] = true
			}
			if len(s.applied) > nMasked {
				p.labels["rebase:applied-has-nonpending"] = true
			}
			if len(s.wantInv) > 0 {
				p.labels["rebase:invalidates"] = true
				// position (in the old pending list) of the first invalidated tx
				first := -1
				for i, tx := range before {
					if tx == s.wantInv[0] {
						first = i
						break
					}
				}
				keptLater := false
				for _, k := range s.after.pend {
					for i := first + 1; i < len(before); i++ {
						if before[i] == k {
							keptLater = true
						}
					}
				}
				if keptLater {
					p.labels["rebase:invalidates-and-keeps-later"] = true
					p.nontrivial = true
				}
				if len(s.wantInv) >= 2 {
					p.labels["rebase:invalidates>=2"] = true
				}
			} else if len(s.after.pend) > 0 {
				p.labels["rebase:all-rest-kept"] = true
			}
		default:
			continue
		}
		s.dupLive = dupLive
		m = s.after
		p.steps = append(p.steps, s)
	}
	return p
}

func c19RunSeq(t vk.TB, st *vk.Stats, wal *c19WAL, c c19SeqCase) {
	plan := c19PlanSeq(&c, vk.Excluded("C19-F1"))
	if st.WantSample() {
		st.Sample(c)
	}
	labels := make([]string, 0, len(plan.labels))
	for l := range plan.labels {
		labels = append(labels, l)
	}
	sort.Strings(labels)
	st.Case(plan.nontrivial, vk.FP(c), labels...)
	for i := 0; i < plan.excluded; i++ {
		st.Excluded("C19-F1")
	}
	wal.Write(c) // the callbacks run on the buffer's kernel goroutine
	st.Guard(t, c, func() {
		sem := &c.Sem
		w, buf, ctx, stop, err := c19Start(sem, 0)
		if err != nil {
			st.Fail(t, c, "", "initialize", "%v", err)
		}
		defer stop()
		base := sem.st(sem.Init)
		var model []c19Tx
		checkBuffered := func(i int, dstKind int, fid string) {
			var dst []c19Tx
			switch dstKind {
			case 1:
				dst = make([]c19Tx, 0, 5)
			case 2:
				dst = []c19Tx{{ID: -1, Ty: 0}, {ID: -2, Ty: 0}}
			case 3:
				dst = append(make([]c19Tx, 0, 6), c19Tx{ID: -1, Ty: 0}, c19Tx{ID: -2, Ty: 0})
			}
			prefix := c19Clone(dst)
			out := buf.Buffered(ctx, dst)
			if len(out) < len(prefix) || !c19EqTxs(out[:len(prefix)], prefix) {
				st.Fail(t, c, fid, "buffered-dst-prefix", "step %d: Buffered(dst=%v) returned %v: dst contents not preserved", i, prefix, out)
			}
			got := out[len(prefix):]
			// the invariant itself, independent of the model's list
			if k := c19Applies(sem, base, got); k >= 0 {
				st.Fail(t, c, fid, "buffered-applies", "step %d: Buffered = %v does not apply in order on the current base %d: element %d (%v) is invalid there", i, got, base, k, got[k])
			}
			if !c19EqTxs(got, model) {
				st.Fail(t, c, fid, "buffered-equals-model", "step %d: Buffered = %v, property prescribes %v (base %d)", i, got, model, base)
			}
			c19Scribble(out) // a copy was promised
		}
		for i, s := range plan.steps {
			fid := ""
			if s.dupLive {
				fid = "C19-F1"
			}
			// the caller of this call; an impatient one has a context of its own that is cancelled from
			// inside the callback. The buffer has taken the request by then and serves it on its own
			// life-cycle context, so the outcome for the buffer is the same; only what the caller gets
			// back may be the cancellation instead of the result (both are ready: either may win).
			cctx, gaveUp := ctx, func() bool { return false }
			if s.op.CA > 0 && (s.op.K == 0 || s.op.K == 2) {
				cc, cancel := context.WithCancel(ctx)
				cf := context.CancelFunc(cancel)
				w.calls.Store(0)
				w.cancelCaller.Store(&cf)
				w.cancelAt.Store(int64(s.op.CA))
				cctx, gaveUp = cc, func() bool { return cc.Err() != nil }
				defer cancel()
			}
			switch s.op.K {
			case 0:
				aerr := buf.AddTx(cctx, s.tx)
				w.cancelAt.Store(0)
				if gaveUp() && errors.Is(aerr, context.Canceled) {
					break // the caller saw its own cancellation; the buffer's state is judged by the next reads
				}
				kind, state, text := c19Classify(aerr)
				if kind != s.wantKind {
					st.Fail(t, c, fid, "addtx-result", "step %d: AddTx(%v) with pending %v on base %d: got %s, want %s %s", i, s.tx, model, base, c19KindName(kind), c19KindName(s.wantKind), text)
				}
				if kind == c19ErrInvalid && state != s.wantSt {
					st.Fail(t, c, fid, "addtx-state", "step %d: AddTx(%v) was refused against state %d; the state after pending %v on base %d is %d", i, s.tx, state, model, base, s.wantSt)
				}
			case 1:
				checkBuffered(i, s.op.Dst, fid)
			case 2:
				applied := c19Clone(s.applied)
				inv, err := buf.Rebase(cctx, &c19State{V: s.base}, applied)
				w.cancelAt.Store(0)
				if gaveUp() && errors.Is(err, context.Canceled) {
					c19Scribble(applied)
					base = s.base
					break
				}
				if err != nil {
					st.Fail(t, c, fid, "rebase-error", "step %d: Rebase(base=%d, applied=%v) with pending %v: unexpected error %v", i, s.base, s.applied, model, err)
				}
				if !c19EqTxs(inv, s.wantInv) {
					st.Fail(t, c, fid, "rebase-invalidated", "step %d: Rebase(base=%d, applied=%v) with pending %v on base %d returned invalidated %v, property prescribes %v (kept %v)", i, s.base, s.applied, model, base, inv, s.wantInv, s.after.pend)
				}
				c19Scribble(applied)
				c19Scribble(inv)
				base = s.base
			}
			model = s.after.pend
			if n := w.nilState.Load(); n != 0 {
				st.Fail(t, c, fid, "callback-nil-state", "step %d: addTxFunc was called %d times with a nil state", i, n)
			}
		}
		// every case ends with an observation of the pending list
		fid := ""
		if n := len(plan.steps); n > 0 && plan.steps[n-1].dupLive {
			fid = "C19-F1"
		}
		checkBuffered(len(plan.steps), 0, fid)
	})
}

func c19KindName(k int) string {
	switch k {
	case c19ErrNone:
		return "accepted"
	case c19ErrInvalid:
		return "TxInvalidError"
	case c19ErrMalformed:
		return "malformed-error"
	}
	return "other-error"
}

func c19GenSem(t *rapid.T) c19Sem {
	S := rapid.IntRange(1, 6).Draw(t, "S")
	T := rapid.IntRange(1, 5).Draw(t, "T")
	sem := c19Sem{S: S, T: T, Table: make([]int, S*T)}
	if rapid.IntRange(0, 7).Draw(t, "style") == 0 {
		// nonce-like chain: type ty applies only in states congruent to ty
		for s := 0; s < S; s++ {
			for ty := 0; ty < T; ty++ {
				if s%T == ty {
					sem.Table[s*T+ty] = (s + 1) % S
				} else {
					sem.Table[s*T+ty] = -1
				}
			}
		}
	} else {
		// density of "invalid": inv/(inv+S) per cell
		inv := rapid.SampledFrom([]int{1, 1, 2, 3}).Draw(t, "inv")
		for i := range sem.Table {
			v := rapid.IntRange(-inv, S-1).Draw(t, "cell")
			if v < 0 {
				v = -1
			}
			sem.Table[i] = v
		}
	}
	sem.Init = rapid.IntRange(0, S-1).Draw(t, "init")
	return sem
}

func c19GenMask(t *rapid.T) uint64 {
	switch rapid.IntRange(0, 9).Draw(t, "maskstyle") {
	case 0, 1, 2:
		return 0
	case 3:
		return ^uint64(0)
	case 4, 5: // a block took a prefix of the pending list
		return (uint64(1) << uint(rapid.IntRange(1, 6).Draw(t, "prefix"))) - 1
	case 6:
		return uint64(1) << uint(rapid.IntRange(0, 7).Draw(t, "single"))
	default:
		return rapid.Uint64Range(0, 1<<12-1).Draw(t, "mask")
	}
}

func c19GenSeqCase(t *rapid.T) c19SeqCase {
	sem := c19GenSem(t)
	opGen := rapid.Custom(func(t *rapid.T) c19Op {
		k := rapid.IntRange(0, 9).Draw(t, "kind")
		switch {
		case k <= 5:
			op := c19Op{K: 0, Ty: rapid.IntRange(0, sem.T-1).Draw(t, "ty")}
			switch r := rapid.IntRange(0, 29).Draw(t, "variant"); {
			case r == 0:
				op.Ty = c19Malformed
			case r <= 2:
				op.Re, op.Ix = 1, rapid.IntRange(0, 15).Draw(t, "ix")
			case r <= 4:
				op.Re, op.Ix = 2, rapid.IntRange(0, 15).Draw(t, "ix")
			case r <= 16:
				op.Re, op.Ix = 3, rapid.IntRange(0, 4).Draw(t, "ix")
			}
			if rapid.IntRange(0, 9).Draw(t, "impatient") == 0 {
				op.CA = 1
			}
			return op
		case k <= 7:
			return c19Op{K: 1, Dst: rapid.IntRange(0, 3).Draw(t, "dst")}
		default:
			op := c19Op{K: 2, Base: rapid.IntRange(0, sem.S-1).Draw(t, "base"), Mask: c19GenMask(t)}
			if rapid.IntRange(0, 3).Draw(t, "hasextra") == 0 {
				op.Extra = rapid.IntRange(1, 3).Draw(t, "extra")
				op.Ix = rapid.IntRange(0, 15).Draw(t, "ix")
			}
			op.Rot = rapid.IntRange(0, 31).Draw(t, "rot")
			if rapid.IntRange(0, 4).Draw(t, "impatient") == 0 {
				op.CA = rapid.IntRange(1, 4).Draw(t, "cancel-at-call")
			}
			return op
		}
	})
	minLen := rapid.IntRange(1, 24).Draw(t, "minlen") // SliceOfN alone favours very short lists
	return c19SeqCase{Sem: sem, Ops: rapid.SliceOfN(opGen, minLen, 40).Draw(t, "ops")}
}

const c19SeqRule = "case = generated transition table (1-6 states x 1-5 tx types, 14-75% invalid cells, or a nonce chain) + 1-40 ops AddTx/Buffered/Rebase resolved against the reference model, some of them made by a caller that gives up (cancels its own context) while the buffer is inside the callback; " +
	"non-trivial = some Rebase invalidates a pending tx while keeping a later one, or some AddTx is refused although it applies to the base (refused because of the pending prefix); distinct = distinct (table, op list)"

func TestVerifC19Sequential(t *testing.T) {
	st := vk.NewStats("C19", "TestVerifC19Sequential", c19SeqRule)
	defer st.Flush()
	wal := c19OpenWAL("C19", "TestVerifC19Sequential")
	defer wal.Close()
	var c c19SeqCase
	if ok, err := vk.LoadReplay("C19", "TestVerifC19Sequential", &c); err != nil {
		t.Fatal(err)
	} else if ok {
		c19RunSeq(t, st, wal, c)
		return
	} else if vk.Replaying() {
		t.Skip("replay file is for another test")
	}
	// One caller and the kernel goroutine: a single P makes every hand-over a
	// goroutine switch instead of a cross-thread wake-up (several times faster,
	// and independent of the load of the machine).
	defer runtime.GOMAXPROCS(runtime.GOMAXPROCS(1))
	rapid.Check(t, func(rt *rapid.T) {
		c19RunSeq(rt, st, wal, c19GenSeqCase(rt))
	})
	if t.Failed() {
		return
	}
	// The check is only meaningful when the order dependent classes are hit.
	// Floors are far below the measured frequencies (see notes/C19.md).
	if st.Evals >= 2000 {
		for _, f := range []struct {
			label string
			pct   int64
		}{
			{"rebase:invalidates-and-keeps-later", 5},
			{"add:refused-by-prefix", 10},
			{"rebase:applied-has-nonpending", 5},
		} {
			if st.Labels[f.label]*100 < st.Evals*f.pct {
				t.Fatalf("VERIF-FAIL property=C19 test=TestVerifC19Sequential clause=%q: class %s in %d of %d cases, floor %d%%", "harness", f.label, st.Labels[f.label], st.Evals, f.pct)
			}
		}
	}
}

var _ = fmt.Sprintf
