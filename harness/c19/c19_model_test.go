package gtxbuf_test

// C19: the transaction buffer's pending list always applies cleanly in order.
//
// This file holds what both tests share: the generated state/transaction
// semantics (a finite transition table), the apply and deleter callbacks
// handed to the real gtxbuf.Buffer, and the reference model (base, pending).
// The model never looks at the buffer; it is a re-statement of the property:
//
//	AddTx(tx)            accepted iff tx applies to fold(base, pending); then pending += tx
//	Buffered()           == pending
//	Rebase(base', appl.) rest = pending minus the txs reported applied;
//	                     walk rest in order from base': a tx that applies is kept
//	                     (state advances), a tx that does not is invalidated;
//	                     pending = kept, result = invalidated, base = base'

import (
	"context"
	"encoding/json"
	"errors"
	"fmt"
	"log/slog"
	"os"
	"path/filepath"
	"runtime"
	"sync/atomic"

	"github.com/gordian-engine/gordian/gdriver/gtxbuf"
	"github.com/gordian-engine/gordian/internal/zzverif/vk"
)

// c19Tx is the transaction type T handed to the buffer. ID identifies the
// transaction (the deleter works by ID), Ty selects the column of the table.
// Ty == c19Malformed is a transaction that addTxFunc refuses in every state
// with a plain (not TxInvalidError) error, like "add 0" in the package's own
// test; it can therefore never become pending.
type c19Tx struct {
	ID int `json:"id"`
	Ty int `json:"ty"`
}

const c19Malformed = -1

// c19State is the chain state type S (a pointer, like the package's own
// CounterState, so that a buffer handing a zero S to addTxFunc is noticed).
type c19State struct{ V int }

// c19Sem is the generated semantics: Table[s*T+ty] is the state after
// applying a transaction of type ty in state s, or -1 when it is invalid there.
type c19Sem struct {
	S     int   `json:"s"`
	T     int   `json:"t"`
	Table []int `json:"table"`
	Init  int   `json:"init"`
}

// The accessors are total, so that any (hand edited, delta-debugged) case
// file is still a well-formed case.
func (m *c19Sem) nS() int {
	if m.S < 1 {
		return 1
	}
	return m.S
}

func (m *c19Sem) st(s int) int {
	if s < 0 {
		s = -s
	}
	return s % m.nS()
}

// next returns the state after applying a tx of type ty in state s, or -1.
func (m *c19Sem) next(s, ty int) int {
	if ty < 0 || ty >= m.T || s < 0 || s >= m.nS() {
		return -1
	}
	i := s*m.T + ty
	if i >= len(m.Table) || m.Table[i] < 0 {
		return -1
	}
	return m.Table[i] % m.nS()
}

var errC19Malformed = errors.New("c19: malformed transaction (plain error, not TxInvalidError)")

// c19InvalidErr is what the apply callback wraps in gtxbuf.TxInvalidError; it
// records against which state the refused application was attempted.
type c19InvalidErr struct {
	State int
	Tx    c19Tx
}

func (e c19InvalidErr) Error() string {
	return fmt.Sprintf("c19: tx %d (type %d) does not apply in state %d", e.Tx.ID, e.Tx.Ty, e.State)
}

// c19World bundles the callbacks of one buffer instance.
type c19World struct {
	sem *c19Sem
	// callback contract violations seen on the kernel goroutine (nil state);
	// reported by the interpreter after the call returns.
	nilState atomic.Int64
	// slow > 0: every callback yields the processor that many times, so that
	// (concurrent test) other goroutines get to issue calls while the kernel
	// goroutine is inside a request, whatever the number of free processors.
	slow int

	// impatient caller (sequential test): when the addTxFunc runs for the cancelAt-th time within
	// the current call, the caller of that call gives up (its own context is cancelled).
	calls, cancelAt atomic.Int64
	cancelCaller    atomic.Pointer[context.CancelFunc]
}

func (w *c19World) apply(ctx context.Context, s *c19State, tx c19Tx) (*c19State, error) {
	for i := 0; i < w.slow; i++ {
		runtime.Gosched()
	}
	if n, ca := w.calls.Add(1), w.cancelAt.Load(); ca > 0 && n == ca {
		if c := w.cancelCaller.Load(); c != nil {
			(*c)()
		}
	}
	// a well-behaved callback honours the context it is given
	// (New's doc: an error that is not a TxInvalidError is fatal for the operation)
	if err := ctx.Err(); err != nil {
		return nil, err
	}
	if s == nil {
		w.nilState.Add(1)
		return nil, gtxbuf.TxInvalidError{Err: c19InvalidErr{State: -1, Tx: tx}}
	}
	if tx.Ty == c19Malformed {
		return nil, errC19Malformed
	}
	n := w.sem.next(s.V, tx.Ty)
	if n < 0 {
		return nil, gtxbuf.TxInvalidError{Err: c19InvalidErr{State: s.V, Tx: tx}}
	}
	return &c19State{V: n}, nil // always a fresh value, as New's doc requires
}

// c19Deleter is the txDeleterFunc: membership of the transaction id in the
// reject list, exactly the shape New's doc comment describes.
func (w *c19World) deleter(ctx context.Context, reject []c19Tx) func(c19Tx) bool {
	for i := 0; i < w.slow; i++ {
		runtime.Gosched()
	}
	return c19Deleter(ctx, reject)
}

func c19Deleter(_ context.Context, reject []c19Tx) func(c19Tx) bool {
	ids := make(map[int]struct{}, len(reject))
	for _, r := range reject {
		ids[r.ID] = struct{}{}
	}
	return func(tx c19Tx) bool {
		_, ok := ids[tx.ID]
		return ok
	}
}

var c19Log = slog.New(slog.DiscardHandler)

type c19Buf = gtxbuf.Buffer[*c19State, c19Tx]

// c19Start builds and initializes a real buffer. stop cancels the kernel's
// context and waits for the kernel goroutine (no goroutine survives a case).
func c19Start(sem *c19Sem, slow int) (w *c19World, buf *c19Buf, ctx context.Context, stop func(), err error) {
	w = &c19World{sem: sem, slow: slow}
	ctx, cancel := context.WithCancel(context.Background())
	buf = gtxbuf.New(ctx, c19Log, w.apply, w.deleter)
	stop = func() {
		cancel()
		buf.Wait()
	}
	// Initialize is the documented first call.
	if !buf.Initialize(ctx, &c19State{V: sem.st(sem.Init)}) {
		stop()
		return nil, nil, nil, nil, errors.New("Initialize returned false on a live context")
	}
	return w, buf, ctx, stop, nil
}

// error kinds of AddTx as seen by the harness
const (
	c19ErrNone      = 0
	c19ErrInvalid   = 1 // gtxbuf.TxInvalidError wrapping c19InvalidErr
	c19ErrMalformed = 2 // errC19Malformed returned directly
	c19ErrOther     = 3
)

// c19Classify maps an AddTx error to (kind, state recorded in the error).
func c19Classify(err error) (kind, state int, text string) {
	if err == nil {
		return c19ErrNone, 0, ""
	}
	if err == errC19Malformed {
		return c19ErrMalformed, 0, ""
	}
	var tie gtxbuf.TxInvalidError
	var ie c19InvalidErr
	if errors.As(err, &tie) && errors.As(err, &ie) {
		return c19ErrInvalid, ie.State, ""
	}
	return c19ErrOther, 0, err.Error()
}

// ---------------------------------------------------------------------------
// reference model (purely functional: methods return new values)

type c19Model struct {
	base int
	pend []c19Tx
}

func (m c19Model) cur(sem *c19Sem) int {
	s := m.base
	for _, tx := range m.pend {
		n := sem.next(s, tx.Ty)
		if n < 0 {
			// cannot happen for a model built through add/rebase
			panic(fmt.Sprintf("c19 model: pending list %v does not apply on base %d", m.pend, m.base))
		}
		s = n
	}
	return s
}

// add returns the expected error kind (and the state the refusal refers to)
// and the model after the call.
func (m c19Model) add(sem *c19Sem, tx c19Tx) (kind, state int, out c19Model) {
	if tx.Ty == c19Malformed {
		return c19ErrMalformed, 0, m
	}
	cur := m.cur(sem)
	if sem.next(cur, tx.Ty) < 0 {
		return c19ErrInvalid, cur, m
	}
	np := make([]c19Tx, len(m.pend), len(m.pend)+1)
	copy(np, m.pend)
	return c19ErrNone, 0, c19Model{base: m.base, pend: append(np, tx)}
}

func (m c19Model) rebase(sem *c19Sem, newBase int, applied []c19Tx) (invalidated []c19Tx, out c19Model) {
	gone := make(map[int]bool, len(applied))
	for _, a := range applied {
		gone[a.ID] = true
	}
	s := newBase
	var kept []c19Tx
	for _, tx := range m.pend {
		if gone[tx.ID] {
			continue
		}
		n := sem.next(s, tx.Ty)
		if n < 0 {
			invalidated = append(invalidated, tx)
			continue
		}
		kept = append(kept, tx)
		s = n
	}
	return invalidated, c19Model{base: newBase, pend: kept}
}

// c19Applies replays txs in order from base using only the table. It returns
// the index of the first transaction that does not apply, or -1.
func c19Applies(sem *c19Sem, base int, txs []c19Tx) int {
	s := base
	for i, tx := range txs {
		n := sem.next(s, tx.Ty)
		if n < 0 {
			return i
		}
		s = n
	}
	return -1
}

func c19EqTxs(a, b []c19Tx) bool {
	if len(a) != len(b) { // nil and empty are the same list
		return false
	}
	for i := range a {
		if a[i] != b[i] {
			return false
		}
	}
	return true
}

func c19Clone(a []c19Tx) []c19Tx {
	if a == nil {
		return nil
	}
	return append(make([]c19Tx, 0, len(a)), a...)
}

// c19WAL is a cheap write-ahead file (same path and format as vk.Stats.WAL,
// which creates a file per case: ~1.5 ms on this sandbox under load, 30x the
// cost of a case). The file stays open; a case is written with one pwrite,
// padded with spaces to the length of the previous one, so the content is
// valid JSON at every instant.
type c19WAL struct {
	f          *os.File
	prev       int
	prop, test string
}

func c19OpenWAL(prop, test string) *c19WAL {
	if vk.OutDir() == "" {
		return nil
	}
	f, err := os.Create(filepath.Join(vk.OutDir(), fmt.Sprintf("%s-%s-s%d.wal.json", prop, test, vk.Shard())))
	if err != nil {
		return nil
	}
	return &c19WAL{f: f, prop: prop, test: test}
}

func (w *c19WAL) Write(c any) {
	if w == nil {
		return
	}
	cb, err := json.Marshal(c)
	if err != nil {
		return
	}
	b, _ := json.Marshal(vk.Failure{Property: w.prop, Test: w.test, Clause: "process-death", Case: cb})
	n := len(b)
	for len(b) < w.prev {
		b = append(b, ' ')
	}
	w.prev = n
	_, _ = w.f.WriteAt(b, 0)
}

// Close removes the file: the test function returned, nothing died.
func (w *c19WAL) Close() {
	if w == nil {
		return
	}
	name := w.f.Name()
	_ = w.f.Close()
	_ = os.Remove(name)
}

var c19Garbage = c19Tx{ID: -777, Ty: -777}

// c19Scribble overwrites a slice the harness owns (a returned copy, or an
// argument after the call returned) up to its capacity. If the buffer kept a
// reference to it, the next observation differs from the model.
func c19Scribble(s []c19Tx) {
	s = s[:cap(s)]
	for i := range s {
		s[i] = c19Garbage
	}
}
