package tmconsensus_test

import (
	"context"
	"fmt"
	"os"
	"path/filepath"
	"regexp"
	"sort"
	"strings"
	"testing"

	"github.com/gordian-engine/gordian/gexchange"
	"github.com/gordian-engine/gordian/internal/zzverif/vk"
	"github.com/gordian-engine/gordian/tm/tmconsensus"
)

// C09 (feedback-mapper part): the shipped feedback mappers translate every
// result the engine can return into a p2p feedback value.
//
// The domain is finite (2 mappers x 3 methods x 256 uint8 values), so the test
// is an exhaustive loop, not a sample.

// Declared constants of tm/tmconsensus/handler.go. There is no sentinel
// constant; the list is cross-checked below against the stringer tables
// (a value is "defined" iff its String() is not the "Type(N)" fallback), so a
// constant added to handler.go without updating this list fails the harness.
var c09PHDeclared = map[tmconsensus.HandleProposedHeaderResult]string{
	tmconsensus.HandleProposedHeaderAccepted:                       "HandleProposedHeaderAccepted",
	tmconsensus.HandleProposedHeaderAlreadyStored:                  "HandleProposedHeaderAlreadyStored",
	tmconsensus.HandleProposedHeaderSignerUnrecognized:             "HandleProposedHeaderSignerUnrecognized",
	tmconsensus.HandleProposedHeaderBadBlockHash:                   "HandleProposedHeaderBadBlockHash",
	tmconsensus.HandleProposedHeaderBadSignature:                   "HandleProposedHeaderBadSignature",
	tmconsensus.HandleProposedHeaderMissingProposerPubKey:          "HandleProposedHeaderMissingProposerPubKey",
	tmconsensus.HandleProposedHeaderBadPrevCommitProofPubKeyHash:   "HandleProposedHeaderBadPrevCommitProofPubKeyHash",
	tmconsensus.HandleProposedHeaderBadPrevCommitProofSignature:    "HandleProposedHeaderBadPrevCommitProofSignature",
	tmconsensus.HandleProposedHeaderBadPrevCommitProofDoubleSigned: "HandleProposedHeaderBadPrevCommitProofDoubleSigned",
	tmconsensus.HandleProposedHeaderBadPrevCommitVoteCount:         "HandleProposedHeaderBadPrevCommitVoteCount",
	tmconsensus.HandleProposedHeaderRoundTooOld:                    "HandleProposedHeaderRoundTooOld",
	tmconsensus.HandleProposedHeaderRoundTooFarInFuture:            "HandleProposedHeaderRoundTooFarInFuture",
	tmconsensus.HandleProposedHeaderInternalError:                  "HandleProposedHeaderInternalError",
}

var c09VoteDeclared = map[tmconsensus.HandleVoteProofsResult]string{
	tmconsensus.HandleVoteProofsAccepted:         "HandleVoteProofsAccepted",
	tmconsensus.HandleVoteProofsNoNewSignatures:  "HandleVoteProofsNoNewSignatures",
	tmconsensus.HandleVoteProofsEmpty:            "HandleVoteProofsEmpty",
	tmconsensus.HandleVoteProofsBadPubKeyHash:    "HandleVoteProofsBadPubKeyHash",
	tmconsensus.HandleVoteProofsRoundTooOld:      "HandleVoteProofsRoundTooOld",
	tmconsensus.HandleVoteProofsBadSignature:     "HandleVoteProofsBadSignature",
	tmconsensus.HandleVoteProofsFutureVerified:   "HandleVoteProofsFutureVerified",
	tmconsensus.HandleVoteProofsFutureUnverified: "HandleVoteProofsFutureUnverified",
	tmconsensus.HandleVoteProofsInternalError:    "HandleVoteProofsInternalError",
}

// Constants that tm/tmengine/internal/tmmirror/mirror.go returns (grep at the
// pinned commit: every declared constant of both types appears in a return
// statement of mirror.go; nothing under internal/tmi mentions them). Used when
// the source file can not be read at run time; otherwise the list is measured.
var c09ReturnedStatic = func() map[string]bool {
	m := map[string]bool{}
	for _, n := range c09PHDeclared {
		m[n] = true
	}
	for _, n := range c09VoteDeclared {
		m[n] = true
	}
	return m
}()

// c09Returned greps the mirror source of the tree under test for
// "return tmconsensus.<Const>" and returns the set of constant names found.
func c09Returned() (map[string]bool, string) {
	repo := os.Getenv("VERIF_REPO")
	if repo == "" {
		repo = "/repo"
	}
	p := filepath.Join(repo, "tm/tmengine/internal/tmmirror/mirror.go")
	b, err := os.ReadFile(p)
	if err != nil {
		return c09ReturnedStatic, "static list (mirror.go unreadable: " + err.Error() + ")"
	}
	re := regexp.MustCompile(`return\s+tmconsensus\.(Handle(?:ProposedHeader|VoteProofs)[A-Za-z]+)`)
	found := map[string]bool{}
	for _, m := range re.FindAllSubmatch(b, -1) {
		found[string(m[1])] = true
	}
	// Union with the static list: a constant that the pinned mirror returned
	// stays in scope even if a refactoring moves the return elsewhere.
	for n := range c09ReturnedStatic {
		found[n] = true
	}
	return found, "grep of " + p + " united with the static list"
}

type c09StubHandler struct {
	ph   tmconsensus.HandleProposedHeaderResult
	vote tmconsensus.HandleVoteProofsResult
}

func (h c09StubHandler) HandleProposedHeader(context.Context, tmconsensus.ProposedHeader) tmconsensus.HandleProposedHeaderResult {
	return h.ph
}
func (h c09StubHandler) HandlePrevoteProofs(context.Context, tmconsensus.PrevoteSparseProof) tmconsensus.HandleVoteProofsResult {
	return h.vote
}
func (h c09StubHandler) HandlePrecommitProofs(context.Context, tmconsensus.PrecommitSparseProof) tmconsensus.HandleVoteProofsResult {
	return h.vote
}

type c09MapCase struct {
	Mapper string `json:"mapper"` // AcceptAllValid | DropDuplicate
	Method string `json:"method"` // ProposedHeader | PrevoteProofs | PrecommitProofs
	Value  uint8  `json:"value"`
}

// c09MapOne runs one (mapper, method, value) triple and reports the feedback
// and the recovered panic text ("" when none).
func c09MapOne(c c09MapCase) (fb gexchange.Feedback, panicked string) {
	defer func() {
		if r := recover(); r != nil {
			panicked = fmt.Sprint(r)
		}
	}()
	stub := c09StubHandler{
		ph:   tmconsensus.HandleProposedHeaderResult(c.Value),
		vote: tmconsensus.HandleVoteProofsResult(c.Value),
	}
	var h tmconsensus.ConsensusHandler
	switch c.Mapper {
	case "AcceptAllValid":
		h = tmconsensus.AcceptAllValidFeedbackMapper{Handler: stub}
	case "DropDuplicate":
		h = tmconsensus.DropDuplicateFeedbackMapper{Handler: stub}
	default:
		panic("harness: unknown mapper " + c.Mapper)
	}
	ctx := context.Background()
	switch c.Method {
	case "ProposedHeader":
		fb = h.HandleProposedHeader(ctx, tmconsensus.ProposedHeader{})
	case "PrevoteProofs":
		fb = h.HandlePrevoteProofs(ctx, tmconsensus.PrevoteSparseProof{})
	case "PrecommitProofs":
		fb = h.HandlePrecommitProofs(ctx, tmconsensus.PrecommitSparseProof{})
	default:
		panic("harness: unknown method " + c.Method)
	}
	return fb, ""
}

func c09FeedbackDefined(fb gexchange.Feedback) bool {
	switch fb {
	case gexchange.FeedbackAccepted, gexchange.FeedbackRejected,
		gexchange.FeedbackIgnored, gexchange.FeedbackRejectAndDisconnect:
		return true
	}
	// FeedbackUnspecified is documented as "returning it is a bug".
	return false
}

// c09MapCheck evaluates the oracle for one triple. clause == "" when it holds.
func c09MapCheck(c c09MapCase, returned map[string]bool) (clause, detail, class string) {
	var name string
	var declared bool
	if c.Method == "ProposedHeader" {
		name, declared = c09PHDeclared[tmconsensus.HandleProposedHeaderResult(c.Value)]
	} else {
		name, declared = c09VoteDeclared[tmconsensus.HandleVoteProofsResult(c.Value)]
	}
	fb, p := c09MapOne(c)
	switch {
	case !declared:
		// handler.go: "Keep zero value invalid"; values beyond the last constant
		// are not results of anything. A panic is acceptable here.
		if p != "" {
			return "", "", "undefined-value:panics"
		}
		return "", "", "undefined-value:mapped-" + fb.String()
	case !returned[name]:
		if p != "" {
			return "", "", "declared-never-returned:panics"
		}
		return "", "", "declared-never-returned:mapped-" + fb.String()
	}
	if p != "" {
		return "mapper-panics", fmt.Sprintf("%sFeedbackMapper.Handle%s panics on %s (=%d), a value mirror.go returns: %s", c.Mapper, c.Method, name, c.Value, p), "returned:panics"
	}
	if !c09FeedbackDefined(fb) {
		return "undefined-feedback", fmt.Sprintf("%sFeedbackMapper.Handle%s maps %s (=%d) to %s, which is not a valid feedback value", c.Mapper, c.Method, name, c.Value, fb), "returned:undefined-feedback"
	}
	return "", "", "returned:mapped-" + fb.String()
}

const c09MapRule = "exhaustive: {AcceptAllValid,DropDuplicate} x {ProposedHeader,PrevoteProofs,PrecommitProofs} x every uint8 result value; non-trivial = the value is a declared constant that mirror.go returns (must map to a defined feedback without panic); undefined values (0, beyond the last constant) may panic; distinct = distinct triple"

func TestVerifC09FeedbackMappers(t *testing.T) {
	st := vk.NewStats("C09", "TestVerifC09FeedbackMappers", c09MapRule)
	defer st.Flush()

	returned, how := c09Returned()

	var c c09MapCase
	if ok, err := vk.LoadReplay("C09", "TestVerifC09FeedbackMappers", &c); err != nil {
		t.Fatal(err)
	} else if ok {
		if cl, d, _ := c09MapCheck(c, returned); cl != "" {
			st.Fail(t, c, "", cl, "%s", d)
		}
		return
	} else if vk.Replaying() {
		t.Skip("replay file is for another test")
	}

	// Harness self-check: the declared lists agree with the stringer tables.
	for v := 0; v < 256; v++ {
		ph := tmconsensus.HandleProposedHeaderResult(v)
		_, decl := c09PHDeclared[ph]
		if def := !strings.HasPrefix(ph.String(), "HandleProposedHeaderResult("); def != decl {
			t.Fatalf("harness: HandleProposedHeaderResult(%d)=%q: stringer says defined=%v, harness list says %v; update c09PHDeclared", v, ph.String(), def, decl)
		}
		vr := tmconsensus.HandleVoteProofsResult(v)
		_, decl = c09VoteDeclared[vr]
		if def := !strings.HasPrefix(vr.String(), "HandleVoteProofsResult("); def != decl {
			t.Fatalf("harness: HandleVoteProofsResult(%d)=%q: stringer says defined=%v, harness list says %v; update c09VoteDeclared", v, vr.String(), def, decl)
		}
	}
	var names []string
	for n := range returned {
		names = append(names, n)
	}
	sort.Strings(names)
	st.Note("results the engine can return (" + how + "): " + strings.Join(names, " "))

	type bad struct {
		c      c09MapCase
		clause string
		detail string
	}
	var bads []bad
	for _, mapper := range []string{"AcceptAllValid", "DropDuplicate"} {
		for _, method := range []string{"ProposedHeader", "PrevoteProofs", "PrecommitProofs"} {
			for v := 0; v < 256; v++ {
				c := c09MapCase{Mapper: mapper, Method: method, Value: uint8(v)}
				cl, d, class := c09MapCheck(c, returned)
				st.Case(strings.HasPrefix(class, "returned:"), vk.FP(c), class, mapper+"/"+method)
				if strings.HasPrefix(class, "returned:") && st.WantSample() {
					st.Sample(map[string]any{"case": c, "class": class})
				}
				if cl != "" {
					bads = append(bads, bad{c, cl, d})
				}
			}
		}
	}
	if len(bads) > 0 {
		var all []string
		for _, b := range bads {
			all = append(all, b.detail)
		}
		st.Fail(t, bads[0].c, "", bads[0].clause, "%d of the (mapper, method, returned value) triples fail; first is the recorded case:\n%s", len(bads), strings.Join(all, "\n"))
	}
}
