package tmlibp2p

// C20 (libp2p part): three real libp2p hosts on loopback in a line A - B - C.
// A publishes, B's consensus handler (installed through the real
// SetConsensusHandler) judges, C observes. Oracle: a message published by A
// reaches C - and is accepted for relay by B's pubsub - only if some handler
// invocation at B returned FeedbackAccepted for it.
//
// Soundness of the line: A and C carry a ConnectionGater that admits B only, so
// neither the DHT nor gossipsub can connect A and C directly. Observation is by
// pubsub RawTracers on B and C (every message that enters a node's pubsub), not
// by the connections under test. The oracle never uses a timeout as evidence:
// a violation is always a positive observation (C or B's pubsub saw m) plus the
// absence of an Accepted record that would have been written before the relay.
// Slowness only produces "inconclusive" counters.

import (
	"bytes"
	"context"
	"crypto/ed25519"
	"fmt"
	"io"
	"log/slog"
	"sort"
	"sync"
	"sync/atomic"
	"testing"
	"time"

	"github.com/gordian-engine/gordian/internal/zzverif/c20msg"
	"github.com/gordian-engine/gordian/internal/zzverif/vk"
	"github.com/gordian-engine/gordian/tm/tmcodec"
	"github.com/gordian-engine/gordian/tm/tmconsensus"
	"github.com/libp2p/go-libp2p"
	dht "github.com/libp2p/go-libp2p-kad-dht"
	pubsub "github.com/libp2p/go-libp2p-pubsub"
	"github.com/libp2p/go-libp2p/core/control"
	"github.com/libp2p/go-libp2p/core/crypto"
	p2phost "github.com/libp2p/go-libp2p/core/host"
	"github.com/libp2p/go-libp2p/core/network"
	"github.com/libp2p/go-libp2p/core/peer"
	"github.com/libp2p/go-libp2p/core/protocol"
	"github.com/libp2p/go-libp2p/core/routing"
	"github.com/libp2p/go-libp2p/p2p/transport/tcp"
	ma "github.com/multiformats/go-multiaddr"
	"pgregory.net/rapid"
)

// c20lF2 names the replacement window of Connection.background (validator
// unregistered, then registered). It only has an effect if it is listed as an
// open finding in known_findings.json; the preferred outcome is the fix in
// /verif/fixes/C20-libp2p-handler-swap-window.diff.
// Trigger: SetConsensusHandler is called on B while a message from A may be
// undecided at B.
const c20lF2 = "C20-F2"

// ---------------------------------------------------------------------------
// case data

type c20lHSpec struct {
	Mode uint8 `json:"mode"` // 0 = nil handler, 1 = per-message verdict table, 2 = constant verdict F
	F    uint8 `json:"f"`
}

type c20lOp struct {
	Op   string      `json:"op"`             // pub | raw | seth | burst | sync
	Spec c20msg.Spec `json:"spec,omitempty"` // pub, burst: content (burst varies kind per message)
	F    []int       `json:"f,omitempty"`    // pub, burst: verdict of a table handler for message i is F[i mod len]
	H    []c20lHSpec `json:"h,omitempty"`    // seth: H[0]; burst: handlers B cycles through while A publishes
	N    int         `json:"n,omitempty"`    // burst: number of messages
	Raw  int         `json:"raw,omitempty"`  // raw: class of undecodable payload
}

type c20lCase struct {
	Ops []c20lOp `json:"ops"`
}

func c20lVerdictGen() *rapid.Generator[int] {
	return rapid.OneOf(
		rapid.Just(int(c20msg.Accepted)), rapid.Just(int(c20msg.Accepted)),
		rapid.Just(2), rapid.Just(3), rapid.Just(4), rapid.Just(0),
		rapid.IntRange(0, 255),
	)
}

func c20lHSpecGen() *rapid.Generator[c20lHSpec] {
	return rapid.Custom(func(t *rapid.T) c20lHSpec {
		switch rapid.IntRange(0, 9).Draw(t, "hmode") {
		case 0, 1, 2:
			return c20lHSpec{Mode: 0}
		case 3, 4, 5:
			return c20lHSpec{Mode: 2, F: uint8(c20lVerdictGen().Draw(t, "hf"))}
		default:
			return c20lHSpec{Mode: 1}
		}
	})
}

func c20lSpecGen(t *rapid.T) c20msg.Spec {
	return c20msg.Spec{
		Kind:  uint8(rapid.IntRange(0, 2).Draw(t, "kind")),
		Round: uint32(rapid.IntRange(0, 3).Draw(t, "round")),
		Salt:  rapid.Uint8().Draw(t, "salt"),
		NSig:  uint8(rapid.IntRange(0, 3).Draw(t, "nsig")),
	}
}

func c20lGen(t *rapid.T) c20lCase {
	var c c20lCase
	k := rapid.IntRange(2, 7).Draw(t, "nops")
	for i := 0; i < k; i++ {
		switch w := rapid.IntRange(0, 99).Draw(t, "opw"); {
		case w < 35:
			c.Ops = append(c.Ops, c20lOp{Op: "pub", Spec: c20lSpecGen(t), F: []int{c20lVerdictGen().Draw(t, "f")}})
		case w < 45:
			c.Ops = append(c.Ops, c20lOp{Op: "raw", Raw: rapid.IntRange(0, 5).Draw(t, "rawclass"), Spec: c20msg.Spec{Salt: rapid.Uint8().Draw(t, "salt")}})
		case w < 70:
			c.Ops = append(c.Ops, c20lOp{Op: "seth", H: []c20lHSpec{c20lHSpecGen().Draw(t, "h")}})
		case w < 92:
			c.Ops = append(c.Ops, c20lOp{Op: "burst", Spec: c20lSpecGen(t),
				N: rapid.IntRange(4, 24).Draw(t, "n"),
				F: rapid.SliceOfN(c20lVerdictGen(), 1, 4).Draw(t, "fs"),
				H: rapid.SliceOfN(c20lHSpecGen(), 2, 4).Draw(t, "hs")})
		default:
			c.Ops = append(c.Ops, c20lOp{Op: "sync"})
		}
	}
	return c
}

func c20lClassify(c c20lCase) (nontrivial bool, labels []string) {
	msgs, sethAfterMsg, swapBetween, nonAccept, burst, raw, nilH := 0, false, false, false, false, false, false
	for _, op := range c.Ops {
		switch op.Op {
		case "pub":
			if sethAfterMsg {
				swapBetween = true
			}
			msgs++
			if len(op.F) > 0 && op.F[0] != int(c20msg.Accepted) {
				nonAccept = true
			}
		case "raw":
			if sethAfterMsg {
				swapBetween = true
			}
			msgs++
			raw, nonAccept = true, true
		case "seth":
			if msgs > 0 {
				sethAfterMsg = true
			}
			if len(op.H) > 0 && op.H[0].Mode%3 == 0 {
				nilH = true
			}
		case "burst":
			burst, swapBetween = true, true
			msgs += op.N
			for _, h := range op.H {
				if h.Mode%3 == 0 {
					nilH = true
				}
			}
		}
	}
	if nonAccept {
		labels = append(labels, "has-non-accepted-message") // always followed by the accepted sentinel of the final settle
	}
	if swapBetween {
		labels = append(labels, "has-swap-between-messages")
	}
	if burst {
		labels = append(labels, "has-swap-while-publishing")
	}
	if raw {
		labels = append(labels, "has-undecodable")
	}
	if nilH {
		labels = append(labels, "has-nil-handler")
	}
	return msgs > 0 && (nonAccept || swapBetween), labels
}

// ---------------------------------------------------------------------------
// observation: raw tracers

type c20lTracer struct {
	env     *c20lEnv
	mu      sync.Mutex
	seen    map[uint64]bool   // entered this node's validation pipeline (arrived from the network, first copy)
	dlv     map[uint64]bool   // accepted by this node's pubsub: delivered locally and relayed
	rej     map[uint64]string // dropped by this node's pubsub, with the reason
	grafted map[peer.ID]bool  // peers that are (or were) in this node's mesh for the topic
	cond    *sync.Cond
}

func newC20lTracer(env *c20lEnv) *c20lTracer {
	tr := &c20lTracer{env: env, seen: map[uint64]bool{}, dlv: map[uint64]bool{}, rej: map[uint64]string{}}
	tr.cond = sync.NewCond(&tr.mu)
	return tr
}

func (tr *c20lTracer) note(msg *pubsub.Message, f func(id uint64)) {
	if msg == nil || msg.Message == nil {
		return
	}
	id, ok := tr.env.identify(msg.Data)
	if !ok {
		return
	}
	tr.mu.Lock()
	f(id)
	tr.cond.Broadcast()
	tr.mu.Unlock()
}

func (tr *c20lTracer) ValidateMessage(msg *pubsub.Message) {
	tr.note(msg, func(id uint64) { tr.seen[id] = true })
}
func (tr *c20lTracer) DeliverMessage(msg *pubsub.Message) {
	tr.note(msg, func(id uint64) { tr.dlv[id] = true })
}
func (tr *c20lTracer) RejectMessage(msg *pubsub.Message, reason string) {
	tr.note(msg, func(id uint64) { tr.rej[id] = reason })
}
func (tr *c20lTracer) AddPeer(peer.ID, protocol.ID) {}
func (tr *c20lTracer) RemovePeer(peer.ID)           {}
func (tr *c20lTracer) Join(string)                  {}
func (tr *c20lTracer) Leave(string)                 {}
func (tr *c20lTracer) Graft(p peer.ID, _ string) {
	tr.mu.Lock()
	if tr.grafted == nil {
		tr.grafted = map[peer.ID]bool{}
	}
	tr.grafted[p] = true
	tr.cond.Broadcast()
	tr.mu.Unlock()
}
func (tr *c20lTracer) Prune(peer.ID, string)                    {}
func (tr *c20lTracer) DuplicateMessage(*pubsub.Message)         {}
func (tr *c20lTracer) ThrottlePeer(peer.ID)                     {}
func (tr *c20lTracer) RecvRPC(*pubsub.RPC)                      {}
func (tr *c20lTracer) SendRPC(*pubsub.RPC, peer.ID)             {}
func (tr *c20lTracer) DropRPC(*pubsub.RPC, peer.ID)             {}
func (tr *c20lTracer) UndeliverableMessage(msg *pubsub.Message) {}

// waitFor blocks until pred (evaluated under the tracer lock) holds or d elapsed.
func (tr *c20lTracer) waitFor(d time.Duration, pred func() bool) bool {
	deadline := time.Now().Add(d)
	tm := time.AfterFunc(d, func() { tr.mu.Lock(); tr.cond.Broadcast(); tr.mu.Unlock() })
	defer tm.Stop()
	tr.mu.Lock()
	defer tr.mu.Unlock()
	for !pred() {
		if !time.Now().Before(deadline) {
			return false
		}
		tr.cond.Wait()
	}
	return true
}

func (tr *c20lTracer) resolved(id uint64) bool { // caller holds tr.mu
	if tr.dlv[id] {
		return true
	}
	_, ok := tr.rej[id]
	return ok
}

// ---------------------------------------------------------------------------
// the line

type c20lGater struct{ allow map[peer.ID]bool }

func (g *c20lGater) InterceptPeerDial(p peer.ID) bool                 { return g.allow[p] }
func (g *c20lGater) InterceptAddrDial(p peer.ID, _ ma.Multiaddr) bool { return g.allow[p] }
func (g *c20lGater) InterceptAccept(network.ConnMultiaddrs) bool      { return true }
func (g *c20lGater) InterceptSecured(_ network.Direction, p peer.ID, _ network.ConnMultiaddrs) bool {
	return g.allow[p]
}
func (g *c20lGater) InterceptUpgraded(network.Conn) (bool, control.DisconnectReason) { return true, 0 }

type c20lEnv struct {
	cancelConnB context.CancelFunc // ends the life cycle of B's connection only (host and pubsub stay up)

	ctx    context.Context
	codec  tmcodec.MarshalCodec
	ids    [3]peer.ID
	hosts  [3]*Host
	conns  [3]*Connection
	trB    *c20lTracer
	trC    *c20lTracer
	log    *c20msg.Log
	nextID atomic.Uint64
	inst   int
	instB  int            // instance number of B's installed handler, -1 = none
	floorB map[uint64]int // id -> lowest instance of B's handlers that may judge it

	verdicts sync.Map // id -> uint8: verdict of table handlers
	payloads sync.Map // string(wire bytes) -> id, for payloads that do not decode

	caseFirstID  uint64
	st           *vk.Stats
	swapInFlight bool            // this case called SetConsensusHandler(B) while a message may have been undecided at B
	curB         c20lHSpec       // model of B's installed handler
	broken       string          // non-empty: the line is unusable (setup or a bounded wait on the control path failed)
	judgedC      map[uint64]bool // ids whose arrival at C has been judged (each id is reported at most once)
	judgedB      map[uint64]bool
	published    []uint64 // since the last settle
	virgin       []uint64 // ids published while B never had a consensus handler
	virginFail   string
}

func (e *c20lEnv) identify(data []byte) (uint64, bool) {
	if v, ok := e.payloads.Load(string(data)); ok {
		return v.(uint64), true
	}
	var cm tmcodec.ConsensusMessage
	defer func() { _ = recover() }()
	if err := e.codec.UnmarshalConsensusMessage(data, &cm); err != nil {
		return 0, false
	}
	switch {
	case cm.ProposedHeader != nil:
		return cm.ProposedHeader.Header.Height, true
	case cm.PrevoteProof != nil:
		return cm.PrevoteProof.Height, true
	case cm.PrecommitProof != nil:
		return cm.PrecommitProof.Height, true
	}
	return 0, false
}

func c20lKey(i int) (crypto.PrivKey, peer.ID, error) {
	seed := bytes.Repeat([]byte{byte(0xA0 + i)}, ed25519.SeedSize)
	priv, pub, err := crypto.GenerateEd25519Key(bytes.NewReader(seed))
	if err != nil {
		return nil, "", err
	}
	id, err := peer.IDFromPublicKey(pub)
	return priv, id, err
}

// c20lNewEnv builds A - B - C. It returns an env whose broken field says why
// the line could not be used, if so (never a property failure).
func c20lNewEnv(t *testing.T, st *vk.Stats) *c20lEnv {
	ctx, cancel := context.WithCancel(context.Background())
	e := &c20lEnv{st: st, ctx: ctx, codec: c20msg.Codec(), log: new(c20msg.Log), judgedC: map[uint64]bool{}, judgedB: map[uint64]bool{}, instB: -1, floorB: map[uint64]int{}}
	e.nextID.Store(1_000_000)
	e.trB, e.trC = newC20lTracer(e), newC20lTracer(e)
	t.Cleanup(func() {
		for _, c := range e.conns {
			if c != nil {
				c.Disconnect()
			}
		}
		cancel()
		for _, c := range e.conns {
			if c != nil {
				c.wg.Wait()
			}
		}
	})

	var privs [3]crypto.PrivKey
	for i := range privs {
		p, id, err := c20lKey(i)
		if err != nil {
			e.broken = "key: " + err.Error()
			return e
		}
		privs[i], e.ids[i] = p, id
	}
	allow := [3]map[peer.ID]bool{
		{e.ids[1]: true},
		{e.ids[0]: true, e.ids[2]: true},
		{e.ids[1]: true},
	}
	// same pubsub timing as tmlibp2ptest.Network
	params := pubsub.DefaultGossipSubParams()
	params.HeartbeatInitialDelay = 8 * time.Millisecond
	params.HeartbeatInterval = 45 * time.Millisecond
	params.DirectConnectInitialDelay = 11 * time.Millisecond
	quiet := slog.New(slog.NewTextHandler(io.Discard, nil))
	for i := range e.hosts {
		psOpts := []pubsub.Option{pubsub.WithGossipSubParams(params)}
		if i == 1 {
			psOpts = append(psOpts, pubsub.WithRawTracer(e.trB))
		}
		if i == 2 {
			psOpts = append(psOpts, pubsub.WithRawTracer(e.trC))
		}
		h, err := NewHost(ctx, HostOptions{
			Options: []libp2p.Option{
				libp2p.Identity(privs[i]),
				libp2p.ListenAddrStrings("/ip4/127.0.0.1/tcp/0"),
				libp2p.Transport(tcp.NewTCPTransport),
				libp2p.ForceReachabilityPublic(),
				libp2p.ConnectionGater(&c20lGater{allow: allow[i]}),
				libp2p.Routing(func(h p2phost.Host) (routing.PeerRouting, error) {
					return dht.New(ctx, h)
				}),
			},
			PubSubOptions: psOpts,
		})
		if err != nil {
			e.broken = "NewHost: " + err.Error()
			return e
		}
		e.hosts[i] = h
	}
	b := e.hosts[1].Libp2pHost()
	bi := peer.AddrInfo{ID: b.ID(), Addrs: b.Addrs()}
	for _, i := range []int{0, 2} {
		cctx, ccancel := context.WithTimeout(ctx, 20*time.Second)
		err := e.hosts[i].Libp2pHost().Connect(cctx, bi)
		ccancel()
		if err != nil {
			e.broken = "connect to B: " + err.Error()
			return e
		}
	}
	for i := range e.conns {
		cctx := ctx
		if i == 1 {
			// B's connection has a context of its own, so that the end-of-run probe can end the
			// connection's life cycle while B's host and pubsub keep running
			cctx, e.cancelConnB = context.WithCancel(ctx)
		}
		c, err := NewConnection(cctx, quiet, e.hosts[i], e.codec)
		if err != nil {
			e.broken = "NewConnection: " + err.Error()
			return e
		}
		e.conns[i] = c
	}
	// A and C accept everything (A must accept its own publishes; C's verdicts do not matter).
	for _, i := range []int{0, 2} {
		if !e.setHandler(i, c20lHSpec{Mode: 2, F: c20msg.Accepted}) {
			return e
		}
	}
	// B has joined the topic but never had a consensus handler: nothing that reaches it now may be
	// relayed. The wait for B's mesh and for B's decision only makes the probe effective; if either
	// does not happen in time the probe is skipped (label), never judged.
	if e.trB.waitFor(12*time.Second, func() bool { return e.trB.grafted[e.ids[0]] && e.trB.grafted[e.ids[2]] }) {
		for k := 0; k < 3 && e.broken == ""; k++ {
			id := e.newID(c20msg.Accepted)
			ok := false
			if k == 1 {
				ok = e.publishRaw(id, 0, uint8(k))
			} else {
				ok = e.publish(id, c20msg.Spec{Kind: uint8(k)})
			}
			if !ok {
				return e
			}
			if e.trB.waitFor(5*time.Second, func() bool { return e.trB.resolved(id) }) {
				e.virgin = append(e.virgin, id)
			}
		}
		st.LabelN("setup:never-had-handler-probes-decided-at-B", int64(len(e.virgin)))
	} else {
		st.Label("setup:never-had-handler-probe-skipped(no mesh at B)")
	}
	e.published = e.published[:0]
	if !e.setHandler(1, c20lHSpec{Mode: 1}) {
		return e
	}
	// Mesh formation: accepted probes until C sees one.
	start := time.Now()
	for n := 0; ; n++ {
		id := e.newID(c20msg.Accepted)
		if !e.publish(id, c20msg.Spec{Kind: uint8(n)}) {
			return e
		}
		if e.trC.waitFor(150*time.Millisecond, func() bool { return e.trC.seen[id] }) {
			st.LabelN("setup:probes-until-mesh", int64(n+1))
			break
		}
		if time.Since(start) > 90*time.Second {
			e.broken = "no probe reached C within 90s (mesh did not form)"
			return e
		}
	}
	e.published = e.published[:0]
	// an accepted probe has reached C through B: anything B relayed before it has arrived too
	e.trC.mu.Lock()
	for _, id := range e.virgin {
		if e.trC.seen[id] {
			e.virginFail = fmt.Sprintf("message %d reached C although it was published while B had joined the topic but never had a consensus handler set (B's pubsub: delivered=%v rejected=%q)", id, e.trB.dlv[id], e.trB.rej[id])
		}
	}
	e.trC.mu.Unlock()
	return e
}

// newID allocates a message id (interpreter goroutine only) and remembers the
// lowest handler instance of B that may legitimately judge it: the one installed
// now (SetConsensusHandler has returned, so B uses it or a later one).
func (e *c20lEnv) newID(tableVerdict uint8) uint64 {
	id := e.nextID.Add(1)
	e.verdicts.Store(id, tableVerdict)
	fl := e.instB
	if fl < 0 {
		fl = e.inst
	}
	e.floorB[id] = fl
	return id
}

// setHandler installs a handler through the real API. node 1 is B.
func (e *c20lEnv) setHandler(node int, spec c20lHSpec) bool {
	if node == 1 && len(e.published) > 0 {
		pending := e.published
		decided := func() bool {
			for _, id := range pending {
				if !e.trB.resolved(id) {
					return false
				}
			}
			return true
		}
		if vk.Excluded(c20lF2) {
			// excluded by construction: swap only when B has decided everything A sent
			if !e.trB.waitFor(5*time.Second, decided) {
				e.st.Excluded(c20lF2)
				return true
			}
		} else if !e.trB.waitFor(0, decided) {
			e.swapInFlight = true
		}
	}
	ctx, cancel := context.WithTimeout(e.ctx, 30*time.Second)
	defer cancel()
	if spec.Mode%3 == 0 {
		e.conns[node].SetConsensusHandler(ctx, nil)
		if node == 1 {
			e.instB = -1
		}
	} else {
		h := &c20msg.Handler{Node: node, Inst: e.inst, Log: e.log, Verdict: func(_ uint8, id uint64) uint8 {
			if spec.Mode%3 == 2 {
				return spec.F
			}
			if v, ok := e.verdicts.Load(id); ok {
				return v.(uint8)
			}
			return 0
		}}
		var ch tmconsensus.ConsensusHandler = h
		e.conns[node].SetConsensusHandler(ctx, ch)
		if node == 1 {
			e.instB = e.inst
		}
		e.inst++
	}
	if ctx.Err() != nil {
		e.broken = "SetConsensusHandler did not return within 30s"
		return false
	}
	if node == 1 {
		e.curB = spec
	}
	return true
}

// publish sends a typed message through A's real outgoing channels.
func (e *c20lEnv) publish(id uint64, s c20msg.Spec) bool {
	ctx, cancel := context.WithTimeout(e.ctx, 30*time.Second)
	defer cancel()
	if !c20msg.Send(e.conns[0], id, s, ctx.Done()) {
		e.broken = "A's outgoing channel not read within 30s"
		return false
	}
	e.published = append(e.published, id)
	return true
}

var c20lRawNames = []string{"garbage", "truncated", "empty-object", "wrong-type", "no-field", "byte-flip"}

// publishRaw puts bytes that are not a well-formed consensus message on the
// topic, as any peer of the network could.
func (e *c20lEnv) publishRaw(id uint64, class int, salt uint8) bool {
	valid, err := c20msg.Encode(e.codec, id, c20msg.Spec{Kind: salt, Salt: salt})
	if err != nil {
		e.broken = "encode: " + err.Error()
		return false
	}
	tag := fmt.Sprintf("c20raw-%d", id)
	var p []byte
	switch class % len(c20lRawNames) {
	case 0:
		p = []byte("\x00\xff" + tag)
	case 1:
		p = append([]byte{}, valid[:len(valid)/2+int(salt)%(len(valid)/2)]...)
	case 2:
		p = []byte("{} " + tag) // trailing garbage: not JSON
	case 3:
		p = []byte(fmt.Sprintf("{\"PrevoteProof\":\"%s\"}", tag))
	case 4:
		p = []byte(fmt.Sprintf("{\"Unknown\":\"%s\"}", tag)) // decodes, no field set
	default:
		p = append([]byte{}, valid...)
		p[0] = '[' // "{" -> "["
	}
	// the harness' own notion of undecodable: the codec yields no message (or fails)
	var cm tmcodec.ConsensusMessage
	if err := e.codec.UnmarshalConsensusMessage(p, &cm); err == nil && (cm.ProposedHeader != nil || cm.PrevoteProof != nil || cm.PrecommitProof != nil) {
		e.broken = "harness: raw payload decodes"
		return false
	}
	e.payloads.Store(string(p), id)
	ctx, cancel := context.WithTimeout(e.ctx, 30*time.Second)
	defer cancel()
	if err := e.conns[0].consensusTopic.Publish(ctx, p); err != nil {
		e.broken = "raw publish: " + err.Error()
		return false
	}
	e.published = append(e.published, id)
	return true
}

// lineIntact: A and C must not be connected (else the oracle is unsound).
func (e *c20lEnv) lineIntact() bool {
	a, c := e.hosts[0].Libp2pHost(), e.hosts[2].Libp2pHost()
	return len(a.Network().ConnsToPeer(e.ids[2])) == 0 && len(c.Network().ConnsToPeer(e.ids[0])) == 0
}

type c20lFailure struct {
	clause, detail, diag string
	unvalidated          bool // the message was relayed without any handler invocation at B
}

// oracle: positive observations only.
func (e *c20lEnv) oracle() *c20lFailure {
	snapshot := func(tr *c20lTracer, m map[uint64]bool) []uint64 {
		tr.mu.Lock()
		defer tr.mu.Unlock()
		ids := make([]uint64, 0, len(m))
		for id := range m {
			ids = append(ids, id)
		}
		sort.Slice(ids, func(i, j int) bool { return ids[i] < ids[j] })
		return ids
	}
	atC := snapshot(e.trC, e.trC.seen)
	relayedByB := snapshot(e.trB, e.trB.dlv)
	// read the log AFTER the observations: a record that justifies a relay was written before the relay
	accepted := map[uint64]bool{}
	consulted := map[uint64][]c20msg.Rec{}
	for _, r := range e.log.Snapshot() {
		if r.Node != 1 {
			continue
		}
		consulted[r.ID] = append(consulted[r.ID], r)
		if fl, ok := e.floorB[r.ID]; r.F == c20msg.Accepted && ok && r.Handler >= fl {
			accepted[r.ID] = true
		}
	}
	// Every new observation is judged exactly once, in this call, even if an
	// earlier one already failed: what is left over would otherwise fail the next
	// (unrelated) case and mislead shrinking.
	var first *c20lFailure
	extra := 0
	flag := func(f *c20lFailure) {
		if first == nil {
			first = f
		} else {
			extra++
		}
	}
	late := func(id uint64) string {
		if id <= e.caseFirstID {
			return " [message of an earlier case, observed late]"
		}
		return ""
	}
	for _, id := range atC {
		if e.judgedC[id] {
			continue
		}
		e.judgedC[id] = true
		if !accepted[id] {
			e.judgedB[id] = true
			flag(&c20lFailure{"relay-only-if-accepted", fmt.Sprintf("C received a message from A that no invocation of a handler installed at B at or after publish time accepted (handler invocations at B for it: %d)%s", len(consulted[id]), late(id)), e.diag(id, consulted[id]), len(consulted[id]) == 0})
		}
	}
	for _, id := range relayedByB {
		if e.judgedB[id] {
			continue
		}
		e.judgedB[id] = true
		if !accepted[id] {
			e.judgedC[id] = true
			flag(&c20lFailure{"relay-only-if-accepted(B)", fmt.Sprintf("B's pubsub accepted a message from A for delivery and relay although no invocation of a handler installed at B at or after publish time accepted it (handler invocations at B for it: %d)%s", len(consulted[id]), late(id)), e.diag(id, consulted[id]), len(consulted[id]) == 0})
		}
	}
	if first != nil && extra > 0 {
		first.diag += fmt.Sprintf("; %d more messages of the same kind in this round", extra)
	}
	return first
}

// diag describes one message for the job log (kept out of the failure text,
// which has to be identical for identical cases).
func (e *c20lEnv) diag(id uint64, recs []c20msg.Rec) string {
	e.trB.mu.Lock()
	bSeen, bDlv := e.trB.seen[id], e.trB.dlv[id]
	bRej, bRejected := e.trB.rej[id]
	e.trB.mu.Unlock()
	v, _ := e.verdicts.Load(id)
	return fmt.Sprintf("message id %d (ids of this case start after %d): table verdict %v; at B: entered validation=%v delivered/relayed=%v rejected=%v(%q); handler invocations at B: %v",
		id, e.caseFirstID, v, bSeen, bDlv, bRejected, bRej, recs)
}

// settle waits (bounded) until B has decided every message published since the
// last settle, then pushes an accepted sentinel through the line; per-link FIFO
// then implies that whatever B relayed before has arrived at C. Returns whether
// the negative observations of this round are conclusive.
func (e *c20lEnv) settle(st *vk.Stats) (conclusive bool) {
	pending := e.published
	e.published = nil
	okB := e.trB.waitFor(5*time.Second, func() bool {
		for _, id := range pending {
			if !e.trB.resolved(id) {
				return false
			}
		}
		return true
	})
	if !okB {
		st.Label("inconclusive:message-not-seen-decided-at-B")
	}
	if e.curB.Mode%3 != 1 {
		if !e.setHandler(1, c20lHSpec{Mode: 1}) {
			return false
		}
	}
	for try := 0; try < 4; try++ {
		id := e.newID(c20msg.Accepted)
		if !e.publish(id, c20msg.Spec{Kind: c20msg.KindPrevote}) {
			return false
		}
		e.published = nil
		if e.trC.waitFor(3*time.Second, func() bool { return e.trC.seen[id] }) {
			return okB
		}
		st.Label("sentinel-retry")
	}
	st.Label("inconclusive:sentinel-did-not-arrive")
	return false
}

func (e *c20lEnv) burst(st *vk.Stats, op c20lOp) bool {
	n := op.N
	if n < 1 {
		n = 1
	}
	if n > 64 {
		n = 64
	}
	ids := make([]uint64, n)
	for i := range ids {
		f := c20msg.Accepted
		if len(op.F) > 0 {
			f = uint8(op.F[i%len(op.F)])
		}
		ids[i] = e.newID(f)
	}
	hs := op.H
	if len(hs) == 0 {
		hs = []c20lHSpec{{Mode: 1}}
	}
	if vk.Excluded(c20lF2) {
		// excluded by construction: same messages and handler sequence, but strictly
		// alternating (setHandler waits until B has decided what was published)
		e.st.Excluded(c20lF2)
		for i, id := range ids {
			s := op.Spec
			s.Kind = uint8(int(s.Kind) + i)
			if !e.publish(id, s) || !e.setHandler(1, hs[i%len(hs)]) {
				return false
			}
		}
		st.LabelN("burst:messages", int64(n))
		return true
	}
	e.swapInFlight = true
	done := make(chan bool, 1)
	go func() {
		ok := true
		for i, id := range ids {
			// pacing: at most 8 messages undecided at B, so no queue overflows
			if i >= 8 {
				prev := ids[i-8]
				e.trB.waitFor(2*time.Second, func() bool { return e.trB.resolved(prev) })
			}
			s := op.Spec
			s.Kind = uint8(int(s.Kind) + i)
			ctx, cancel := context.WithTimeout(e.ctx, 30*time.Second)
			sent := c20msg.Send(e.conns[0], id, s, ctx.Done())
			cancel()
			if !sent {
				ok = false
				break
			}
		}
		done <- ok
	}()
	swaps := 0
	for finished := false; !finished; {
		select {
		case ok := <-done:
			if !ok {
				e.broken = "A's outgoing channel not read within 30s"
				return false
			}
			finished = true
		default:
			if swaps < 400 {
				if !e.setHandler(1, hs[swaps%len(hs)]) {
					<-done
					return false
				}
				swaps++
			} else {
				time.Sleep(time.Millisecond)
			}
		}
	}
	e.published = append(e.published, ids...)
	st.LabelN("burst:messages", int64(n))
	st.LabelN("burst:swaps", int64(swaps))
	return true
}

func c20lExec(st *vk.Stats, e *c20lEnv, c c20lCase) *c20lFailure {
	for _, op := range c.Ops {
		if e.broken != "" {
			return nil
		}
		switch op.Op {
		case "pub":
			f := c20msg.Accepted
			if len(op.F) > 0 {
				f = uint8(op.F[0])
			}
			e.publish(e.newID(f), op.Spec)
			st.Label("msg:" + c20msg.KindName(op.Spec.Kind))
		case "raw":
			e.publishRaw(e.newID(c20msg.Accepted), op.Raw, op.Spec.Salt)
			st.Label("msg:raw-" + c20lRawNames[((op.Raw%len(c20lRawNames))+len(c20lRawNames))%len(c20lRawNames)])
		case "seth":
			h := c20lHSpec{Mode: 1}
			if len(op.H) > 0 {
				h = op.H[0]
			}
			e.setHandler(1, h)
		case "burst":
			e.burst(st, op)
		case "sync":
			if e.settle(st) {
				st.Label("settle:conclusive")
			}
			if f := e.oracle(); f != nil {
				return f
			}
		}
	}
	if e.broken != "" {
		return nil
	}
	if e.settle(st) {
		st.Label("settle:conclusive")
		st.Label("case:conclusive")
	} else {
		st.Label("case:inconclusive")
	}
	if !e.lineIntact() {
		return &c20lFailure{"harness", "A and C became directly connected: the line topology is gone", "", false}
	}
	return e.oracle()
}

const c20lRule = "real libp2p hosts A-B-C on loopback (A and C gated to B only), one line for the whole run; generated op lists: typed messages with a generated verdict (all 256 values), undecodable payloads, SetConsensusHandler(B) to nil / table / constant, bursts of 4-24 messages published while B's handler is swapped through a generated sequence, settle points (accepted sentinel seen at C); non-trivial = a message B must not relay followed by an accepted one, or a handler change between messages; distinct = distinct op list"

func c20lRunCase(rt vk.TB, st *vk.Stats, e *c20lEnv, c c20lCase) {
	if st.WantSample() {
		st.Sample(c)
	}
	nt, labels := c20lClassify(c)
	st.Case(nt, vk.FP(c), labels...)
	if e.broken != "" {
		st.Label("case:skipped-line-unusable")
		return
	}
	var fail *c20lFailure
	e.caseFirstID = e.nextID.Load()
	e.swapInFlight = false
	st.Guard(rt, c, func() { fail = c20lExec(st, e, c) })
	if e.broken != "" {
		st.Note("libp2p line became unusable (not a property failure): " + e.broken)
	}
	if fail != nil {
		rt.Logf("C20 diagnostics: %s", fail.diag)
		st.Note("diagnostics of a failure: " + fail.diag)
		finding := ""
		if e.swapInFlight && fail.unvalidated {
			finding = c20lF2
		}
		st.Fail(rt, c, finding, fail.clause, "%s", fail.detail)
	}
}

func TestVerifC20Libp2pLine(t *testing.T) {
	st := vk.NewStats("C20", "TestVerifC20Libp2pLine", c20lRule)
	defer st.Flush()
	var c c20lCase
	replay, err := vk.LoadReplay("C20", "TestVerifC20Libp2pLine", &c)
	if err != nil {
		t.Fatal(err)
	}
	if !replay && vk.Replaying() {
		t.Skip("replay file is for another test")
	}
	e := c20lNewEnv(t, st)
	if e.broken != "" {
		st.Note("libp2p line could not be built; unit inconclusive: " + e.broken)
		t.Skip("inconclusive: " + e.broken)
	}
	if e.virginFail != "" {
		st.Fail(t, c20lCase{}, "", "relayed-before-first-handler", "%s", e.virginFail)
		return
	}
	if replay {
		// the replacement window is a real-time race: a saved case is re-run until it
		// shows the violation again (bounded); one reproduction suffices
		for i := 0; i < 40 && e.broken == "" && len(c.Ops) > 0; i++ {
			c20lRunCase(t, st, e, c)
		}
		if !t.Failed() && e.broken == "" {
			if d := e.afterLifeProbe(st); d != "" {
				st.Fail(t, c20lCase{}, "", "relayed-after-connection-context-ended", "%s", d)
			}
		}
		return
	}
	rapid.Check(t, func(rt *rapid.T) {
		c20lRunCase(rt, st, e, c20lGen(rt))
	})
	if !t.Failed() && e.broken == "" {
		if d := e.afterLifeProbe(st); d != "" {
			st.Fail(t, c20lCase{}, "", "relayed-after-connection-context-ended", "%s", d)
		}
	}
}

// afterLifeProbe runs once, after the generated cases: B gets a handler that rejects everything,
// then the context of B's *connection* is cancelled while B's host and pubsub keep running (the
// host has its own context; Disconnect is not called). Whatever reaches B afterwards was not
// accepted by any handler, so none of it may arrive at C. The waits only make the probe effective:
// if B's pubsub does not decide a message in time the message is not judged.
func (e *c20lEnv) afterLifeProbe(st *vk.Stats) string {
	if e.cancelConnB == nil || !e.setHandler(1, c20lHSpec{Mode: 2, F: 2 /* rejected */}) {
		return ""
	}
	e.cancelConnB()
	e.conns[1].wg.Wait() // the connection's goroutines have ended
	var ids []uint64
	for k := 0; k < 4 && e.broken == ""; k++ {
		id := e.newID(2)
		if !e.publish(id, c20msg.Spec{Kind: uint8(k % 3), Salt: uint8(200 + k)}) {
			return ""
		}
		if e.trB.waitFor(5*time.Second, func() bool { return e.trB.resolved(id) }) {
			ids = append(ids, id)
		}
	}
	st.LabelN("epilogue:after-life-probes-decided-at-B", int64(len(ids)))
	if len(ids) == 0 {
		st.Label("epilogue:after-life-probe-skipped(B decided nothing)")
		return ""
	}
	leaked := func() bool {
		for _, id := range ids {
			if e.trC.seen[id] {
				return true
			}
		}
		return false
	}
	if e.trC.waitFor(1500*time.Millisecond, leaked) {
		return fmt.Sprintf("after the context of B's connection was cancelled (host and pubsub still running, handler installed: rejects everything) %d messages published by A were decided by B's pubsub and at least one of them arrived at C; no handler accepted them", len(ids))
	}
	return ""
}
