package tmjson_test

// C14: wire codec round-trips every message and never panics on bytes.
//
// This file: case data types (plain JSON-marshalable data), rapid generators,
// builders (case data -> real tmconsensus values) and the field-by-field
// comparers that form the oracle of the round-trip clause.

import (
	"bytes"
	"context"
	"encoding/binary"
	"fmt"
	"sort"
	"sync"

	"github.com/gordian-engine/gordian/gcrypto"
	"github.com/gordian-engine/gordian/gcrypto/gblsminsig"
	"github.com/gordian-engine/gordian/gcrypto/gblsminsig/gblsminsigtest"
	"github.com/gordian-engine/gordian/gcrypto/gcryptotest"
	"github.com/gordian-engine/gordian/tm/tmcodec"
	"github.com/gordian-engine/gordian/tm/tmcodec/tmjson"
	"github.com/gordian-engine/gordian/tm/tmconsensus"
	"github.com/gordian-engine/gordian/tm/tmconsensus/tmconsensustest"
	"pgregory.net/rapid"
)

// ---------------------------------------------------------------------------
// environment: codec under test with both key types registered, and the
// deterministic test keys of the repository.

const (
	c14NEd  = 32
	c14NBLS = 8
)

type c14Env struct {
	reg *gcrypto.Registry
	mc  tmjson.MarshalCodec
	ed  []gcrypto.Ed25519Signer
	bls []gblsminsig.Signer
	hs  tmconsensustest.SimpleHashScheme
	ss  tmconsensustest.SimpleSignatureScheme
}

var c14GetEnv = sync.OnceValue(func() *c14Env {
	reg := new(gcrypto.Registry)
	gcrypto.RegisterEd25519(reg)
	gblsminsig.Register(reg) // name "bls-ms" (6 bytes) fits the 8 byte prefix
	return &c14Env{
		reg: reg,
		mc:  tmjson.MarshalCodec{CryptoRegistry: reg},
		ed:  gcryptotest.DeterministicEd25519Signers(c14NEd),
		bls: gblsminsigtest.DeterministicSigners(c14NBLS),
	}
})

// c14Key names one of the deterministic keys. T: 0 = ed25519, 1 = BLS min-sig.
type c14Key struct {
	T int `json:"t"`
	I int `json:"i"`
}

func c14Mod(i, n int) int {
	i %= n
	if i < 0 {
		i += n
	}
	return i
}

func (e *c14Env) pub(k c14Key) gcrypto.PubKey {
	if c14Mod(k.T, 2) == 1 {
		return e.bls[c14Mod(k.I, c14NBLS)].PubKey()
	}
	return e.ed[c14Mod(k.I, c14NEd)].PubKey()
}

func (e *c14Env) sign(k c14Key, msg []byte) []byte {
	var sig []byte
	var err error
	if c14Mod(k.T, 2) == 1 {
		sig, err = e.bls[c14Mod(k.I, c14NBLS)].Sign(context.Background(), msg)
	} else {
		sig, err = e.ed[c14Mod(k.I, c14NEd)].Sign(context.Background(), msg)
	}
	if err != nil {
		panic(fmt.Errorf("c14 harness: signing failed: %w", err))
	}
	return sig
}

// ---------------------------------------------------------------------------
// case data

// c14Sig is one sparse signature. Signer < 0: KeyID and Sig are used as they
// are. Signer >= 0: a genuine ed25519 signature of deterministic key
// (Signer mod 32) over the vote sign bytes of the entry it belongs to; KeyID is
// the 2-byte big endian index (the form the simple proof scheme produces).
type c14Sig struct {
	KeyID  []byte `json:"key_id"`
	Sig    []byte `json:"sig"`
	Signer int    `json:"signer"`
}

type c14Entry struct {
	Hash []byte   `json:"hash"` // map key; nil or empty = the nil-block entry ""
	Sigs []c14Sig `json:"sigs"` // nil and empty are both generated
}

// c14Proof is the data of a CommitProof (Height unused) or of a
// prevote/precommit sparse proof.
type c14Proof struct {
	Height     uint64     `json:"height"`
	Round      uint32     `json:"round"`
	PubKeyHash []byte     `json:"pub_key_hash"`
	NilMap     bool       `json:"nil_map"` // Proofs == nil instead of an empty map when there are no entries
	Entries    []c14Entry `json:"entries"`
}

type c14Val struct {
	Key   c14Key `json:"key"`
	Power uint64 `json:"power"`
}

type c14VS struct {
	NilVals       bool     `json:"nil_vals"` // Validators/PubKeys nil instead of empty when there are none
	Vals          []c14Val `json:"vals"`
	PubKeyHash    []byte   `json:"pub_key_hash"`
	VotePowerHash []byte   `json:"vote_power_hash"`
	RealHashes    bool     `json:"real_hashes"` // hashes recomputed with SimpleHashScheme (needs >= 1 validator)
}

type c14Header struct {
	Hash             []byte   `json:"hash"`
	PrevBlockHash    []byte   `json:"prev_block_hash"`
	Height           uint64   `json:"height"`
	PrevCommit       c14Proof `json:"prev_commit"`
	VS               c14VS    `json:"vs"`
	NextVS           c14VS    `json:"next_vs"`
	DataID           []byte   `json:"data_id"`
	PrevAppStateHash []byte   `json:"prev_app_state_hash"`
	User             []byte   `json:"user"`
	Driver           []byte   `json:"driver"`
	RealHash         bool     `json:"real_hash"` // Hash = SimpleHashScheme.Block(header)
}

type c14PH struct {
	Round    uint32  `json:"round"`
	Proposer *c14Key `json:"proposer"` // nil = replayed header without proposer and signature
	User     []byte  `json:"user"`
	Driver   []byte  `json:"driver"`
	Sig      []byte  `json:"sig"`
	RealSig  bool    `json:"real_sig"` // Signature = proposer's signature over the proposal sign bytes
}

const (
	c14KHeader = iota
	c14KProposed
	c14KCommitted
	c14KPrevote
	c14KPrecommit
	c14KMsgProposed
	c14KMsgPrevote
	c14KMsgPrecommit
	c14NKinds
)

var c14KindNames = [...]string{"header", "proposed", "committed", "prevote", "precommit", "msg-proposed", "msg-prevote", "msg-precommit"}

type c14Case struct {
	Kind   int       `json:"kind"`
	H      c14Header `json:"h"`
	PH     c14PH     `json:"ph"`
	Commit c14Proof  `json:"commit"` // proof of a committed header
	Vote   c14Proof  `json:"vote"`   // prevote / precommit sparse proof
}

func (c c14Case) usesHeader() bool {
	switch c14Mod(c.Kind, c14NKinds) {
	case c14KHeader, c14KProposed, c14KCommitted, c14KMsgProposed:
		return true
	}
	return false
}

func (c c14Case) usesPH() bool {
	k := c14Mod(c.Kind, c14NKinds)
	return k == c14KProposed || k == c14KMsgProposed
}

func (c c14Case) usesVote() bool {
	switch c14Mod(c.Kind, c14NKinds) {
	case c14KPrevote, c14KPrecommit, c14KMsgPrevote, c14KMsgPrecommit:
		return true
	}
	return false
}

// nontrivial: the value has >= 1 proof entry, or an annotation, or a non-empty PrevCommitProof.
func (c c14Case) nontrivial() bool {
	if c.usesVote() {
		return len(c.Vote.Entries) > 0
	}
	if len(c.H.PrevCommit.Entries) > 0 || c.H.User != nil || c.H.Driver != nil {
		return true
	}
	if c.usesPH() && (c.PH.User != nil || c.PH.Driver != nil) {
		return true
	}
	if c14Mod(c.Kind, c14NKinds) == c14KCommitted && len(c.Commit.Entries) > 0 {
		return true
	}
	return false
}

// ---------------------------------------------------------------------------
// generators

func c14Pick(t *rapid.T, label string, weights ...int) int {
	sum := 0
	for _, w := range weights {
		sum += w
	}
	x := rapid.IntRange(0, sum-1).Draw(t, label)
	for i, w := range weights {
		if x < w {
			return i
		}
		x -= w
	}
	return len(weights) - 1
}

func c14FixedBytes(t *rapid.T, label string, n int) []byte {
	return rapid.SliceOfN(rapid.Byte(), n, n).Draw(t, label)
}

// c14GenBytes: nil, empty, short, hash sized and long byte strings.
func c14GenBytes(t *rapid.T, label string) []byte {
	switch c14Pick(t, label+"?", 3, 3, 4, 8, 2) {
	case 0:
		return nil
	case 1:
		return []byte{}
	case 2:
		return c14FixedBytes(t, label, rapid.IntRange(1, 8).Draw(t, label+"#"))
	case 3:
		return c14FixedBytes(t, label, 32)
	default:
		return c14FixedBytes(t, label, rapid.IntRange(33, 150).Draw(t, label+"#"))
	}
}

func c14GenAnnotation(t *rapid.T, label string) []byte {
	switch c14Pick(t, label+"?", 4, 2, 3, 1) {
	case 0:
		return nil
	case 1:
		return []byte{}
	case 2:
		return c14FixedBytes(t, label, rapid.IntRange(1, 24).Draw(t, label+"#"))
	default:
		return c14FixedBytes(t, label, rapid.IntRange(25, 300).Draw(t, label+"#"))
	}
}

var c14U64Anchors = []uint64{0, 1, 2, 1 << 31, 1<<32 - 1, 1 << 32, 1 << 53, 1<<53 + 1, 1<<63 - 1, 1 << 63, ^uint64(0) - 1, ^uint64(0)}
var c14U32Anchors = []uint32{0, 1, 2, 1<<31 - 1, 1 << 31, ^uint32(0) - 1, ^uint32(0)}

func c14GenU64(t *rapid.T, label string) uint64 {
	switch c14Pick(t, label+"?", 3, 3, 2) {
	case 0:
		return rapid.Uint64Range(0, 100).Draw(t, label)
	case 1:
		return rapid.SampledFrom(c14U64Anchors).Draw(t, label)
	default:
		return rapid.Uint64().Draw(t, label)
	}
}

func c14GenU32(t *rapid.T, label string) uint32 {
	switch c14Pick(t, label+"?", 4, 2, 2) {
	case 0:
		return rapid.Uint32Range(0, 5).Draw(t, label)
	case 1:
		return rapid.SampledFrom(c14U32Anchors).Draw(t, label)
	default:
		return rapid.Uint32().Draw(t, label)
	}
}

func c14GenSig(t *rapid.T) c14Sig {
	if c14Pick(t, "sig-genuine?", 2, 3) == 0 {
		return c14Sig{Signer: rapid.IntRange(0, c14NEd-1).Draw(t, "signer")}
	}
	s := c14Sig{Signer: -1}
	switch c14Pick(t, "keyid?", 1, 1, 5, 1, 1) {
	case 0:
		s.KeyID = nil
	case 1:
		s.KeyID = []byte{}
	case 2:
		s.KeyID = c14FixedBytes(t, "keyid", 2)
	case 3:
		s.KeyID = c14FixedBytes(t, "keyid", 1)
	default:
		s.KeyID = c14FixedBytes(t, "keyid", rapid.IntRange(3, 20).Draw(t, "keyid#"))
	}
	switch c14Pick(t, "sigbytes?", 1, 1, 5, 2, 1) {
	case 0:
		s.Sig = nil
	case 1:
		s.Sig = []byte{}
	case 2:
		s.Sig = c14FixedBytes(t, "sigbytes", 64)
	case 3:
		s.Sig = c14FixedBytes(t, "sigbytes", 48) // compressed BLS signature size
	default:
		s.Sig = c14FixedBytes(t, "sigbytes", rapid.IntRange(1, 100).Draw(t, "sigbytes#"))
	}
	return s
}

func c14GenEntries(t *rapid.T) []c14Entry {
	var n int
	switch c14Pick(t, "entries?", 4, 6, 5, 5) {
	case 0:
		n = 0
	case 1:
		n = 1
	case 2:
		n = 2
	default:
		n = rapid.IntRange(1, 7).Draw(t, "entries#")
	}
	if n == 0 {
		if rapid.Bool().Draw(t, "entries-nil") {
			return nil
		}
		return []c14Entry{}
	}
	out := make([]c14Entry, n)
	for i := range out {
		switch c14Pick(t, "entry-hash?", 2, 1, 6, 1, 1) {
		case 0:
			out[i].Hash = nil
		case 1:
			out[i].Hash = []byte{}
		case 2:
			out[i].Hash = c14FixedBytes(t, "entry-hash", 32)
		case 3:
			out[i].Hash = c14FixedBytes(t, "entry-hash", rapid.IntRange(1, 8).Draw(t, "entry-hash#"))
		default:
			out[i].Hash = c14FixedBytes(t, "entry-hash", rapid.IntRange(33, 80).Draw(t, "entry-hash#"))
		}
		switch c14Pick(t, "sigs?", 1, 1, 6, 2) {
		case 0:
			out[i].Sigs = nil
		case 1:
			out[i].Sigs = []c14Sig{}
		case 2:
			m := rapid.IntRange(1, 4).Draw(t, "sigs#")
			for j := 0; j < m; j++ {
				out[i].Sigs = append(out[i].Sigs, c14GenSig(t))
			}
		default:
			m := rapid.IntRange(1, 24).Draw(t, "sigs#")
			for j := 0; j < m; j++ {
				out[i].Sigs = append(out[i].Sigs, c14GenSig(t))
			}
		}
	}
	return out
}

func c14GenProof(t *rapid.T, withHeight bool) c14Proof {
	var p c14Proof
	if withHeight {
		p.Height = c14GenU64(t, "proof-height")
	}
	p.Round = c14GenU32(t, "proof-round")
	p.PubKeyHash = c14GenBytes(t, "proof-pkh")
	p.Entries = c14GenEntries(t)
	if len(p.Entries) == 0 {
		p.NilMap = rapid.Bool().Draw(t, "nil-map")
	}
	return p
}

func c14GenVS(t *rapid.T, label string) c14VS {
	var vs c14VS
	var n int
	// nested ranges (all starting low) so that rapid can shrink the count inside any class
	switch c14Pick(t, label+"-n?", 2, 9, 6, 2) {
	case 0:
		n = 0
	case 1:
		n = rapid.IntRange(1, 4).Draw(t, label+"-n")
	case 2:
		n = rapid.IntRange(1, 12).Draw(t, label+"-n")
	default:
		n = rapid.IntRange(1, 48).Draw(t, label+"-n")
	}
	if n == 0 {
		vs.NilVals = rapid.Bool().Draw(t, label+"-nilvals")
	}
	keyMode := c14Pick(t, label+"-keys?", 11, 5, 4) // all ed25519 | all BLS | mixed
	for i := 0; i < n; i++ {
		var k c14Key
		switch keyMode {
		case 0:
			k.T = 0
		case 1:
			k.T = 1
		default:
			k.T = rapid.IntRange(0, 1).Draw(t, label+"-kt")
		}
		if k.T == 1 {
			k.I = rapid.IntRange(0, c14NBLS-1).Draw(t, label+"-ki")
		} else {
			k.I = rapid.IntRange(0, c14NEd-1).Draw(t, label+"-ki")
		}
		vs.Vals = append(vs.Vals, c14Val{Key: k, Power: c14GenU64(t, label+"-pow")})
	}
	if n > 0 && c14Pick(t, label+"-realhash?", 1, 1) == 0 {
		vs.RealHashes = true
	} else {
		vs.PubKeyHash = c14GenBytes(t, label+"-pkh")
		vs.VotePowerHash = c14GenBytes(t, label+"-vph")
	}
	return vs
}

func c14GenHeader(t *rapid.T) c14Header {
	var h c14Header
	h.Height = c14GenU64(t, "height")
	h.PrevBlockHash = c14GenBytes(t, "prev-block-hash")
	switch c14Pick(t, "prev-commit?", 3, 7) {
	case 0:
		// zero value, as at the initial height
	default:
		h.PrevCommit = c14GenProof(t, false)
	}
	h.VS = c14GenVS(t, "vs")
	if c14Pick(t, "next-same?", 1, 2) == 0 {
		h.NextVS = h.VS
	} else {
		h.NextVS = c14GenVS(t, "nvs")
	}
	h.DataID = c14GenBytes(t, "data-id")
	h.PrevAppStateHash = c14GenBytes(t, "prev-app-state-hash")
	h.User = c14GenAnnotation(t, "h-user")
	h.Driver = c14GenAnnotation(t, "h-driver")
	if c14Pick(t, "real-hash?", 1, 1) == 0 {
		h.RealHash = true
	} else {
		h.Hash = c14GenBytes(t, "hash")
	}
	return h
}

func c14GenPH(t *rapid.T) c14PH {
	var p c14PH
	p.Round = c14GenU32(t, "ph-round")
	p.User = c14GenAnnotation(t, "ph-user")
	p.Driver = c14GenAnnotation(t, "ph-driver")
	switch c14Pick(t, "proposer?", 2, 5, 3) {
	case 0:
		// replayed: no proposer; signature normally nil, sometimes stray bytes
		if c14Pick(t, "replayed-sig?", 4, 1) == 1 {
			p.Sig = c14GenBytes(t, "ph-sig")
		}
	case 1:
		p.Proposer = &c14Key{T: 0, I: rapid.IntRange(0, c14NEd-1).Draw(t, "proposer-i")}
	default:
		p.Proposer = &c14Key{T: 1, I: rapid.IntRange(0, c14NBLS-1).Draw(t, "proposer-i")}
	}
	if p.Proposer != nil {
		if c14Pick(t, "real-sig?", 1, 1) == 0 {
			p.RealSig = true
		} else {
			p.Sig = c14GenBytes(t, "ph-sig")
		}
	}
	return p
}

func c14GenCase(t *rapid.T) c14Case {
	var c c14Case
	c.Kind = c14Pick(t, "kind", 3, 4, 3, 2, 2, 3, 2, 2)
	if c.usesHeader() {
		c.H = c14GenHeader(t)
	}
	if c.usesPH() {
		c.PH = c14GenPH(t)
	}
	if c.Kind == c14KCommitted {
		c.Commit = c14GenProof(t, false)
	}
	if c.usesVote() {
		c.Vote = c14GenProof(t, true)
	}
	return c
}

// ---------------------------------------------------------------------------
// builders: case data -> real values. Every call returns fresh, unshared memory.

func c14Clone(b []byte) []byte {
	if b == nil {
		return nil
	}
	out := make([]byte, len(b))
	copy(out, b)
	return out
}

type c14VoteKind int

const (
	c14Prevote c14VoteKind = iota
	c14Precommit
)

func (e *c14Env) voteSignBytes(kind c14VoteKind, height uint64, round uint32, blockHash string) []byte {
	var buf bytes.Buffer
	vt := tmconsensus.VoteTarget{Height: height, Round: round, BlockHash: blockHash}
	var err error
	if kind == c14Prevote {
		_, err = e.ss.WritePrevoteSigningContent(&buf, vt)
	} else {
		_, err = e.ss.WritePrecommitSigningContent(&buf, vt)
	}
	if err != nil {
		panic(err)
	}
	return buf.Bytes()
}

func (e *c14Env) buildProofMap(p c14Proof, kind c14VoteKind, height uint64) map[string][]gcrypto.SparseSignature {
	if len(p.Entries) == 0 {
		if p.NilMap {
			return nil
		}
		return map[string][]gcrypto.SparseSignature{}
	}
	m := make(map[string][]gcrypto.SparseSignature, len(p.Entries))
	for _, en := range p.Entries {
		key := string(en.Hash)
		var sigs []gcrypto.SparseSignature
		if en.Sigs != nil {
			sigs = make([]gcrypto.SparseSignature, 0, len(en.Sigs))
		}
		var msg []byte
		for _, s := range en.Sigs {
			if s.Signer >= 0 {
				if msg == nil {
					msg = e.voteSignBytes(kind, height, p.Round, key)
				}
				idx := c14Mod(s.Signer, c14NEd)
				var id [2]byte
				binary.BigEndian.PutUint16(id[:], uint16(idx))
				sigs = append(sigs, gcrypto.SparseSignature{KeyID: id[:], Sig: e.sign(c14Key{T: 0, I: idx}, msg)})
			} else {
				sigs = append(sigs, gcrypto.SparseSignature{KeyID: c14Clone(s.KeyID), Sig: c14Clone(s.Sig)})
			}
		}
		m[key] = sigs // a later entry with the same hash replaces an earlier one
	}
	return m
}

func (e *c14Env) buildCommitProof(p c14Proof, height uint64) tmconsensus.CommitProof {
	return tmconsensus.CommitProof{
		Round:      p.Round,
		PubKeyHash: string(p.PubKeyHash),
		Proofs:     e.buildProofMap(p, c14Precommit, height),
	}
}

func (e *c14Env) buildVS(v c14VS) tmconsensus.ValidatorSet {
	var vs tmconsensus.ValidatorSet
	if len(v.Vals) == 0 && !v.NilVals {
		vs.Validators = []tmconsensus.Validator{}
		vs.PubKeys = []gcrypto.PubKey{}
	}
	for _, cv := range v.Vals {
		pk := e.pub(cv.Key)
		vs.Validators = append(vs.Validators, tmconsensus.Validator{PubKey: pk, Power: cv.Power})
		vs.PubKeys = append(vs.PubKeys, pk)
	}
	if v.RealHashes && len(v.Vals) > 0 {
		var err error
		if vs.PubKeyHash, err = e.hs.PubKeys(vs.PubKeys); err != nil {
			panic(err)
		}
		if vs.VotePowerHash, err = e.hs.VotePowers(tmconsensus.ValidatorsToVotePowers(vs.Validators)); err != nil {
			panic(err)
		}
	} else {
		vs.PubKeyHash = c14Clone(v.PubKeyHash)
		vs.VotePowerHash = c14Clone(v.VotePowerHash)
	}
	return vs
}

func (e *c14Env) buildHeader(h c14Header) tmconsensus.Header {
	out := tmconsensus.Header{
		Hash:             c14Clone(h.Hash),
		PrevBlockHash:    c14Clone(h.PrevBlockHash),
		Height:           h.Height,
		PrevCommitProof:  e.buildCommitProof(h.PrevCommit, h.Height-1),
		ValidatorSet:     e.buildVS(h.VS),
		NextValidatorSet: e.buildVS(h.NextVS),
		DataID:           c14Clone(h.DataID),
		PrevAppStateHash: c14Clone(h.PrevAppStateHash),
		Annotations:      tmconsensus.Annotations{User: c14Clone(h.User), Driver: c14Clone(h.Driver)},
	}
	if h.RealHash {
		hash, err := e.hs.Block(out)
		if err != nil {
			panic(err)
		}
		out.Hash = hash
	}
	return out
}

func (e *c14Env) proposalSignBytes(h tmconsensus.Header, round uint32, a tmconsensus.Annotations) []byte {
	var buf bytes.Buffer
	if _, err := e.ss.WriteProposalSigningContent(&buf, h, round, a); err != nil {
		panic(err)
	}
	return buf.Bytes()
}

func (e *c14Env) buildPH(h c14Header, p c14PH) tmconsensus.ProposedHeader {
	out := tmconsensus.ProposedHeader{
		Header:      e.buildHeader(h),
		Round:       p.Round,
		Annotations: tmconsensus.Annotations{User: c14Clone(p.User), Driver: c14Clone(p.Driver)},
		Signature:   c14Clone(p.Sig),
	}
	if p.Proposer != nil {
		out.ProposerPubKey = e.pub(*p.Proposer)
		if p.RealSig {
			out.Signature = e.sign(*p.Proposer, e.proposalSignBytes(out.Header, out.Round, out.Annotations))
		}
	}
	return out
}

func (e *c14Env) buildCommitted(c c14Case) tmconsensus.CommittedHeader {
	return tmconsensus.CommittedHeader{
		Header: e.buildHeader(c.H),
		Proof:  e.buildCommitProof(c.Commit, c.H.Height),
	}
}

func (e *c14Env) buildPrevote(p c14Proof) tmconsensus.PrevoteSparseProof {
	return tmconsensus.PrevoteSparseProof{
		Height: p.Height, Round: p.Round, PubKeyHash: string(p.PubKeyHash),
		Proofs: e.buildProofMap(p, c14Prevote, p.Height),
	}
}

func (e *c14Env) buildPrecommit(p c14Proof) tmconsensus.PrecommitSparseProof {
	return tmconsensus.PrecommitSparseProof{
		Height: p.Height, Round: p.Round, PubKeyHash: string(p.PubKeyHash),
		Proofs: e.buildProofMap(p, c14Precommit, p.Height),
	}
}

func (e *c14Env) buildMsg(c c14Case) tmcodec.ConsensusMessage {
	var m tmcodec.ConsensusMessage
	switch c14Mod(c.Kind, c14NKinds) {
	case c14KMsgProposed:
		ph := e.buildPH(c.H, c.PH)
		m.ProposedHeader = &ph
	case c14KMsgPrevote:
		p := e.buildPrevote(c.Vote)
		m.PrevoteProof = &p
	case c14KMsgPrecommit:
		p := e.buildPrecommit(c.Vote)
		m.PrecommitProof = &p
	}
	return m
}

// ---------------------------------------------------------------------------
// comparers. Each returns "" when want and got agree in every consensus
// relevant field, else a description of the first difference.
//
// nil-vs-empty policy:
//   - Annotations (header and proposal): nil and empty are DIFFERENT. Both the
//     hash scheme and the proposal sign bytes test "!= nil", so a codec turning
//     nil into empty (or back) changes the block hash / invalidates the signature.
//   - every other byte string (hashes, ids, signatures, key ids): nil ≅ empty;
//     they are only ever compared or formatted by content.
//   - Proofs maps, signature lists, validator lists: nil ≅ empty (no engine code
//     distinguishes them; both mean "no entries").

func c14EqBytes(path string, want, got []byte, strict bool) string {
	if !bytes.Equal(want, got) {
		return fmt.Sprintf("%s: want %x got %x", path, want, got)
	}
	if strict && (want == nil) != (got == nil) {
		return fmt.Sprintf("%s: nil-ness changed: want nil=%v got nil=%v", path, want == nil, got == nil)
	}
	return ""
}

func c14EqKey(path string, want, got gcrypto.PubKey) string {
	if want == nil || got == nil {
		if want != nil || got != nil {
			return fmt.Sprintf("%s: want nil=%v got nil=%v", path, want == nil, got == nil)
		}
		return ""
	}
	if want.TypeName() != got.TypeName() {
		return fmt.Sprintf("%s: key type want %q got %q", path, want.TypeName(), got.TypeName())
	}
	if !bytes.Equal(want.PubKeyBytes(), got.PubKeyBytes()) {
		return fmt.Sprintf("%s: key bytes want %x got %x", path, want.PubKeyBytes(), got.PubKeyBytes())
	}
	if !want.Equal(got) || !got.Equal(want) {
		return fmt.Sprintf("%s: PubKey.Equal reports a difference for identical type and bytes", path)
	}
	return ""
}

func c14SortedKeys(m map[string][]gcrypto.SparseSignature) []string {
	ks := make([]string, 0, len(m))
	for k := range m {
		ks = append(ks, k)
	}
	sort.Strings(ks)
	return ks
}

func c14EqProofMap(path string, want, got map[string][]gcrypto.SparseSignature) string {
	if len(want) != len(got) {
		return fmt.Sprintf("%s: want %d entries got %d", path, len(want), len(got))
	}
	for _, k := range c14SortedKeys(want) {
		ws := want[k]
		gs, ok := got[k]
		if !ok {
			return fmt.Sprintf("%s[%x]: entry missing", path, k)
		}
		if len(ws) != len(gs) {
			return fmt.Sprintf("%s[%x]: want %d signatures got %d", path, k, len(ws), len(gs))
		}
		for i := range ws {
			if d := c14EqBytes(fmt.Sprintf("%s[%x][%d].KeyID", path, k, i), ws[i].KeyID, gs[i].KeyID, false); d != "" {
				return d
			}
			if d := c14EqBytes(fmt.Sprintf("%s[%x][%d].Sig", path, k, i), ws[i].Sig, gs[i].Sig, false); d != "" {
				return d
			}
		}
	}
	return ""
}

func c14EqCommitProof(path string, want, got tmconsensus.CommitProof) string {
	if want.Round != got.Round {
		return fmt.Sprintf("%s.Round: want %d got %d", path, want.Round, got.Round)
	}
	if want.PubKeyHash != got.PubKeyHash {
		return fmt.Sprintf("%s.PubKeyHash: want %x got %x", path, want.PubKeyHash, got.PubKeyHash)
	}
	return c14EqProofMap(path+".Proofs", want.Proofs, got.Proofs)
}

func c14EqVS(path string, want, got tmconsensus.ValidatorSet) string {
	if len(want.Validators) != len(got.Validators) {
		return fmt.Sprintf("%s.Validators: want %d got %d", path, len(want.Validators), len(got.Validators))
	}
	if len(got.PubKeys) != len(got.Validators) {
		return fmt.Sprintf("%s.PubKeys: %d keys for %d validators", path, len(got.PubKeys), len(got.Validators))
	}
	for i := range want.Validators {
		if want.Validators[i].Power != got.Validators[i].Power {
			return fmt.Sprintf("%s.Validators[%d].Power: want %d got %d", path, i, want.Validators[i].Power, got.Validators[i].Power)
		}
		if d := c14EqKey(fmt.Sprintf("%s.Validators[%d].PubKey", path, i), want.Validators[i].PubKey, got.Validators[i].PubKey); d != "" {
			return d
		}
		if d := c14EqKey(fmt.Sprintf("%s.PubKeys[%d]", path, i), want.Validators[i].PubKey, got.PubKeys[i]); d != "" {
			return d
		}
	}
	if d := c14EqBytes(path+".PubKeyHash", want.PubKeyHash, got.PubKeyHash, false); d != "" {
		return d
	}
	return c14EqBytes(path+".VotePowerHash", want.VotePowerHash, got.VotePowerHash, false)
}

func c14EqAnnotations(path string, want, got tmconsensus.Annotations) string {
	if d := c14EqBytes(path+".User", want.User, got.User, true); d != "" {
		return d
	}
	return c14EqBytes(path+".Driver", want.Driver, got.Driver, true)
}

func c14EqHeader(path string, want, got tmconsensus.Header) string {
	if d := c14EqBytes(path+".Hash", want.Hash, got.Hash, false); d != "" {
		return d
	}
	if d := c14EqBytes(path+".PrevBlockHash", want.PrevBlockHash, got.PrevBlockHash, false); d != "" {
		return d
	}
	if want.Height != got.Height {
		return fmt.Sprintf("%s.Height: want %d got %d", path, want.Height, got.Height)
	}
	if d := c14EqCommitProof(path+".PrevCommitProof", want.PrevCommitProof, got.PrevCommitProof); d != "" {
		return d
	}
	if d := c14EqVS(path+".ValidatorSet", want.ValidatorSet, got.ValidatorSet); d != "" {
		return d
	}
	if d := c14EqVS(path+".NextValidatorSet", want.NextValidatorSet, got.NextValidatorSet); d != "" {
		return d
	}
	if d := c14EqBytes(path+".DataID", want.DataID, got.DataID, false); d != "" {
		return d
	}
	if d := c14EqBytes(path+".PrevAppStateHash", want.PrevAppStateHash, got.PrevAppStateHash, false); d != "" {
		return d
	}
	return c14EqAnnotations(path+".Annotations", want.Annotations, got.Annotations)
}

func c14EqPH(path string, want, got tmconsensus.ProposedHeader) string {
	if d := c14EqHeader(path+".Header", want.Header, got.Header); d != "" {
		return d
	}
	if want.Round != got.Round {
		return fmt.Sprintf("%s.Round: want %d got %d", path, want.Round, got.Round)
	}
	if d := c14EqKey(path+".ProposerPubKey", want.ProposerPubKey, got.ProposerPubKey); d != "" {
		return d
	}
	if d := c14EqAnnotations(path+".Annotations", want.Annotations, got.Annotations); d != "" {
		return d
	}
	return c14EqBytes(path+".Signature", want.Signature, got.Signature, false)
}

func c14EqCommitted(path string, want, got tmconsensus.CommittedHeader) string {
	if d := c14EqHeader(path+".Header", want.Header, got.Header); d != "" {
		return d
	}
	return c14EqCommitProof(path+".Proof", want.Proof, got.Proof)
}

func c14EqPrevote(path string, want, got tmconsensus.PrevoteSparseProof) string {
	if want.Height != got.Height {
		return fmt.Sprintf("%s.Height: want %d got %d", path, want.Height, got.Height)
	}
	if want.Round != got.Round {
		return fmt.Sprintf("%s.Round: want %d got %d", path, want.Round, got.Round)
	}
	if want.PubKeyHash != got.PubKeyHash {
		return fmt.Sprintf("%s.PubKeyHash: want %x got %x", path, want.PubKeyHash, got.PubKeyHash)
	}
	return c14EqProofMap(path+".Proofs", want.Proofs, got.Proofs)
}

func c14EqPrecommit(path string, want, got tmconsensus.PrecommitSparseProof) string {
	return c14EqPrevote(path, tmconsensus.PrevoteSparseProof(want), tmconsensus.PrevoteSparseProof(got))
}

func c14MsgVariant(m tmcodec.ConsensusMessage) string {
	s := ""
	if m.ProposedHeader != nil {
		s += "+proposed"
	}
	if m.PrevoteProof != nil {
		s += "+prevote"
	}
	if m.PrecommitProof != nil {
		s += "+precommit"
	}
	if s == "" {
		return "none"
	}
	return s[1:]
}

func c14EqMsg(path string, want, got tmcodec.ConsensusMessage) string {
	if wv, gv := c14MsgVariant(want), c14MsgVariant(got); wv != gv {
		return fmt.Sprintf("%s: variant want %s got %s", path, wv, gv)
	}
	if want.ProposedHeader != nil {
		if d := c14EqPH(path+".ProposedHeader", *want.ProposedHeader, *got.ProposedHeader); d != "" {
			return d
		}
	}
	if want.PrevoteProof != nil {
		if d := c14EqPrevote(path+".PrevoteProof", *want.PrevoteProof, *got.PrevoteProof); d != "" {
			return d
		}
	}
	if want.PrecommitProof != nil {
		if d := c14EqPrecommit(path+".PrecommitProof", *want.PrecommitProof, *got.PrecommitProof); d != "" {
			return d
		}
	}
	return ""
}
