package tmjson_test

// C14 clause (a): Unmarshal(Marshal(x)) equals x in every consensus-relevant
// field, for every kind of message, and a ConsensusMessage keeps its variant.

import (
	"bytes"
	"fmt"
	"testing"

	"github.com/gordian-engine/gordian/gcrypto"
	"github.com/gordian-engine/gordian/internal/zzverif/vk"
	"github.com/gordian-engine/gordian/tm/tmcodec"
	"github.com/gordian-engine/gordian/tm/tmcodec/tmjson"
	"github.com/gordian-engine/gordian/tm/tmconsensus"
	"pgregory.net/rapid"
)

type c14Failure struct{ clause, detail string }

func c14F(clause, format string, args ...any) *c14Failure {
	return &c14Failure{clause, fmt.Sprintf(format, args...)}
}

// verifyGenuine re-verifies, on the DECODED proof, every signature the builder
// produced with a real key: sign bytes are recomputed from the decoded
// height/round/block hash, the key is the harness' own copy.
func (e *c14Env) verifyGenuine(path string, p c14Proof, kind c14VoteKind, gotHeight uint64, gotRound uint32, got map[string][]gcrypto.SparseSignature) string {
	last := map[string]int{}
	for i, en := range p.Entries {
		last[string(en.Hash)] = i
	}
	for i, en := range p.Entries {
		key := string(en.Hash)
		if last[key] != i {
			continue
		}
		gs := got[key]
		var msg []byte
		for j, s := range en.Sigs {
			if s.Signer < 0 {
				continue
			}
			if j >= len(gs) {
				return fmt.Sprintf("%s[%x]: signature %d missing", path, key, j)
			}
			if msg == nil {
				msg = e.voteSignBytes(kind, gotHeight, gotRound, key)
			}
			if !e.pub(c14Key{T: 0, I: s.Signer}).Verify(msg, gs[j].Sig) {
				return fmt.Sprintf("%s[%x][%d]: genuine signature of key %d no longer verifies against the decoded target", path, key, j, c14Mod(s.Signer, c14NEd))
			}
		}
	}
	return ""
}

func (e *c14Env) voteSignBytesAgree(path string, kind c14VoteKind, wh uint64, wr uint32, want map[string][]gcrypto.SparseSignature, gh uint64, gr uint32, got map[string][]gcrypto.SparseSignature) string {
	for _, k := range c14SortedKeys(want) {
		if !bytes.Equal(e.voteSignBytes(kind, wh, wr, k), e.voteSignBytes(kind, gh, gr, k)) {
			return fmt.Sprintf("%s[%x]: vote sign bytes differ before/after", path, k)
		}
	}
	for _, k := range c14SortedKeys(got) {
		if _, ok := want[k]; !ok {
			return fmt.Sprintf("%s[%x]: decoded proof has a vote target the original lacks", path, k)
		}
	}
	return ""
}

func (e *c14Env) headerSemantics(path string, d c14Header, want, got tmconsensus.Header) *c14Failure {
	wb, err1 := e.hs.Block(want)
	gb, err2 := e.hs.Block(got)
	if err1 != nil || err2 != nil {
		return c14F("harness", "hash scheme error %v %v", err1, err2)
	}
	if !bytes.Equal(wb, gb) {
		return c14F("block-hash", "%s: HashScheme.Block differs before/after: %x vs %x", path, wb, gb)
	}
	if d.RealHash && !bytes.Equal(gb, got.Hash) {
		return c14F("block-hash", "%s: decoded header no longer hashes to its own Hash field", path)
	}
	for i, pair := range []struct {
		d   c14VS
		got tmconsensus.ValidatorSet
	}{{d.VS, got.ValidatorSet}, {d.NextVS, got.NextValidatorSet}} {
		if !pair.d.RealHashes || len(pair.d.Vals) == 0 || len(pair.got.PubKeys) == 0 {
			continue
		}
		pk, err := e.hs.PubKeys(pair.got.PubKeys)
		if err != nil {
			return c14F("harness", "PubKeys: %v", err)
		}
		vp, err := e.hs.VotePowers(tmconsensus.ValidatorsToVotePowers(pair.got.Validators))
		if err != nil {
			return c14F("harness", "VotePowers: %v", err)
		}
		if !bytes.Equal(pk, pair.got.PubKeyHash) || !bytes.Equal(vp, pair.got.VotePowerHash) {
			return c14F("validator-hash", "%s: decoded validator set %d no longer hashes to its own PubKeyHash/VotePowerHash", path, i)
		}
	}
	if s := e.voteSignBytesAgree(path+".PrevCommitProof", c14Precommit, want.Height-1, want.PrevCommitProof.Round, want.PrevCommitProof.Proofs,
		got.Height-1, got.PrevCommitProof.Round, got.PrevCommitProof.Proofs); s != "" {
		return c14F("sign-bytes", "%s", s)
	}
	if s := e.verifyGenuine(path+".PrevCommitProof", d.PrevCommit, c14Precommit, got.Height-1, got.PrevCommitProof.Round, got.PrevCommitProof.Proofs); s != "" {
		return c14F("signature", "%s", s)
	}
	return nil
}

func (e *c14Env) phSemantics(path string, c c14Case, want, got tmconsensus.ProposedHeader) *c14Failure {
	if f := e.headerSemantics(path+".Header", c.H, want.Header, got.Header); f != nil {
		return f
	}
	ws := e.proposalSignBytes(want.Header, want.Round, want.Annotations)
	gs := e.proposalSignBytes(got.Header, got.Round, got.Annotations)
	if !bytes.Equal(ws, gs) {
		return c14F("sign-bytes", "%s: proposal sign bytes differ before/after:\n%s\n--- vs ---\n%s", path, ws, gs)
	}
	if want.ProposerPubKey != nil && got.ProposerPubKey != nil {
		wv := want.ProposerPubKey.Verify(ws, want.Signature)
		gv := got.ProposerPubKey.Verify(gs, got.Signature)
		if wv != gv {
			return c14F("signature", "%s: proposer signature verified=%v before, %v after", path, wv, gv)
		}
		if c.PH.RealSig && !gv {
			return c14F("signature", "%s: genuine proposer signature does not verify on the decoded proposal", path)
		}
	}
	return nil
}

func (e *c14Env) voteSemantics(path string, p c14Proof, kind c14VoteKind, want, got tmconsensus.PrevoteSparseProof) *c14Failure {
	if s := e.voteSignBytesAgree(path, kind, want.Height, want.Round, want.Proofs, got.Height, got.Round, got.Proofs); s != "" {
		return c14F("sign-bytes", "%s", s)
	}
	if s := e.verifyGenuine(path, p, kind, got.Height, got.Round, got.Proofs); s != "" {
		return c14F("signature", "%s", s)
	}
	return nil
}

// c14RoundTrip runs the real codec on the value described by c and evaluates
// the oracle. pristine values are built a second time from the case data so
// that an encoder modifying its argument is noticed too.
func c14RoundTrip(c c14Case) *c14Failure {
	f := c14RoundTripInner(c)
	if f == nil {
		// encodings handed out earlier (this case and the previous ones of this process)
		// are values: later calls of the codec must not change them
		if d := c14Retained.verify(); d != "" {
			return c14F("encoder-output-changed-later", "%s", d)
		}
	}
	return f
}

// c14Retain keeps the last encoder outputs together with a private copy.
type c14Retain struct {
	out, snap [][]byte
	what      []string
}

var c14Retained c14Retain

func (r *c14Retain) keep(what string, b []byte) {
	const capN = 24
	if len(r.out) >= capN {
		r.out, r.snap, r.what = r.out[1:], r.snap[1:], r.what[1:]
	}
	r.out, r.snap, r.what = append(r.out, b), append(r.snap, bytes.Clone(b)), append(r.what, what)
}

func (r *c14Retain) verify() string {
	for i := range r.out {
		if !bytes.Equal(r.out[i], r.snap[i]) {
			d := fmt.Sprintf("the %s encoding returned %d calls ago changed after later codec calls:\nwas %s\nnow %s", r.what[i], len(r.out)-i, r.snap[i], r.out[i])
			r.out, r.snap, r.what = nil, nil, nil
			return d
		}
	}
	return ""
}

// c14RetainCodec records every encoding the codec hands out.
type c14RetainCodec struct{ tmjson.MarshalCodec }

func (m c14RetainCodec) MarshalHeader(h tmconsensus.Header) ([]byte, error) {
	b, err := m.MarshalCodec.MarshalHeader(h)
	if err == nil {
		c14Retained.keep("header", b)
	}
	return b, err
}

func (m c14RetainCodec) MarshalProposedHeader(ph tmconsensus.ProposedHeader) ([]byte, error) {
	b, err := m.MarshalCodec.MarshalProposedHeader(ph)
	if err == nil {
		c14Retained.keep("proposed header", b)
	}
	return b, err
}

func (m c14RetainCodec) MarshalCommittedHeader(ch tmconsensus.CommittedHeader) ([]byte, error) {
	b, err := m.MarshalCodec.MarshalCommittedHeader(ch)
	if err == nil {
		c14Retained.keep("committed header", b)
	}
	return b, err
}

func (m c14RetainCodec) MarshalPrevoteProof(p tmconsensus.PrevoteSparseProof) ([]byte, error) {
	b, err := m.MarshalCodec.MarshalPrevoteProof(p)
	if err == nil {
		c14Retained.keep("prevote proof", b)
	}
	return b, err
}

func (m c14RetainCodec) MarshalPrecommitProof(p tmconsensus.PrecommitSparseProof) ([]byte, error) {
	b, err := m.MarshalCodec.MarshalPrecommitProof(p)
	if err == nil {
		c14Retained.keep("precommit proof", b)
	}
	return b, err
}

func (m c14RetainCodec) MarshalConsensusMessage(cm tmcodec.ConsensusMessage) ([]byte, error) {
	b, err := m.MarshalCodec.MarshalConsensusMessage(cm)
	if err == nil {
		c14Retained.keep("consensus message", b)
	}
	return b, err
}

func c14RoundTripInner(c c14Case) *c14Failure {
	e := c14GetEnv()
	mc := c14RetainCodec{e.mc}
	switch c14Mod(c.Kind, c14NKinds) {
	case c14KHeader:
		in, want := e.buildHeader(c.H), e.buildHeader(c.H)
		b, err := mc.MarshalHeader(in)
		if err != nil {
			return c14F("marshal-error", "MarshalHeader: %v", err)
		}
		if d := c14EqHeader("input", want, in); d != "" {
			return c14F("encoder-mutated-input", "%s", d)
		}
		var got tmconsensus.Header
		if err := mc.UnmarshalHeader(b, &got); err != nil {
			return c14F("unmarshal-error", "UnmarshalHeader of encoder output: %v\n%s", err, b)
		}
		if d := c14EqHeader("Header", want, got); d != "" {
			return c14F("field", "%s", d)
		}
		if f := e.headerSemantics("Header", c.H, want, got); f != nil {
			return f
		}
		b2, err := mc.MarshalHeader(got)
		if err != nil {
			return c14F("marshal-error", "MarshalHeader(decoded): %v", err)
		}
		var got2 tmconsensus.Header
		if err := mc.UnmarshalHeader(b2, &got2); err != nil {
			return c14F("unmarshal-error", "second generation: %v", err)
		}
		if d := c14EqHeader("Header(2nd generation)", want, got2); d != "" {
			return c14F("second-generation", "%s", d)
		}
	case c14KProposed:
		in, want := e.buildPH(c.H, c.PH), e.buildPH(c.H, c.PH)
		b, err := mc.MarshalProposedHeader(in)
		if err != nil {
			return c14F("marshal-error", "MarshalProposedHeader: %v", err)
		}
		if d := c14EqPH("input", want, in); d != "" {
			return c14F("encoder-mutated-input", "%s", d)
		}
		var got tmconsensus.ProposedHeader
		if err := mc.UnmarshalProposedHeader(b, &got); err != nil {
			return c14F("unmarshal-error", "UnmarshalProposedHeader of encoder output: %v\n%s", err, b)
		}
		if d := c14EqPH("ProposedHeader", want, got); d != "" {
			return c14F("field", "%s", d)
		}
		if f := e.phSemantics("ProposedHeader", c, want, got); f != nil {
			return f
		}
		b2, err := mc.MarshalProposedHeader(got)
		if err != nil {
			return c14F("marshal-error", "MarshalProposedHeader(decoded): %v", err)
		}
		var got2 tmconsensus.ProposedHeader
		if err := mc.UnmarshalProposedHeader(b2, &got2); err != nil {
			return c14F("unmarshal-error", "second generation: %v", err)
		}
		if d := c14EqPH("ProposedHeader(2nd generation)", want, got2); d != "" {
			return c14F("second-generation", "%s", d)
		}
	case c14KCommitted:
		in, want := e.buildCommitted(c), e.buildCommitted(c)
		b, err := mc.MarshalCommittedHeader(in)
		if err != nil {
			return c14F("marshal-error", "MarshalCommittedHeader: %v", err)
		}
		if d := c14EqCommitted("input", want, in); d != "" {
			return c14F("encoder-mutated-input", "%s", d)
		}
		var got tmconsensus.CommittedHeader
		if err := mc.UnmarshalCommittedHeader(b, &got); err != nil {
			return c14F("unmarshal-error", "UnmarshalCommittedHeader of encoder output: %v\n%s", err, b)
		}
		if d := c14EqCommitted("CommittedHeader", want, got); d != "" {
			return c14F("field", "%s", d)
		}
		if f := e.headerSemantics("CommittedHeader.Header", c.H, want.Header, got.Header); f != nil {
			return f
		}
		if s := e.voteSignBytesAgree("CommittedHeader.Proof", c14Precommit, want.Header.Height, want.Proof.Round, want.Proof.Proofs,
			got.Header.Height, got.Proof.Round, got.Proof.Proofs); s != "" {
			return c14F("sign-bytes", "%s", s)
		}
		if s := e.verifyGenuine("CommittedHeader.Proof", c.Commit, c14Precommit, got.Header.Height, got.Proof.Round, got.Proof.Proofs); s != "" {
			return c14F("signature", "%s", s)
		}
		b2, err := mc.MarshalCommittedHeader(got)
		if err != nil {
			return c14F("marshal-error", "MarshalCommittedHeader(decoded): %v", err)
		}
		var got2 tmconsensus.CommittedHeader
		if err := mc.UnmarshalCommittedHeader(b2, &got2); err != nil {
			return c14F("unmarshal-error", "second generation: %v", err)
		}
		if d := c14EqCommitted("CommittedHeader(2nd generation)", want, got2); d != "" {
			return c14F("second-generation", "%s", d)
		}
	case c14KPrevote:
		in, want := e.buildPrevote(c.Vote), e.buildPrevote(c.Vote)
		b, err := mc.MarshalPrevoteProof(in)
		if err != nil {
			return c14F("marshal-error", "MarshalPrevoteProof: %v", err)
		}
		if d := c14EqPrevote("input", want, in); d != "" {
			return c14F("encoder-mutated-input", "%s", d)
		}
		var got tmconsensus.PrevoteSparseProof
		if err := mc.UnmarshalPrevoteProof(b, &got); err != nil {
			return c14F("unmarshal-error", "UnmarshalPrevoteProof of encoder output: %v\n%s", err, b)
		}
		if d := c14EqPrevote("PrevoteSparseProof", want, got); d != "" {
			return c14F("field", "%s", d)
		}
		if f := e.voteSemantics("PrevoteSparseProof", c.Vote, c14Prevote, want, got); f != nil {
			return f
		}
		// The wire forms of the two vote kinds are identical; what keeps them apart
		// is the entry point (or the ConsensusMessage field). Sign bytes must differ.
		for _, k := range c14SortedKeys(got.Proofs) {
			if bytes.Equal(e.voteSignBytes(c14Prevote, got.Height, got.Round, k), e.voteSignBytes(c14Precommit, got.Height, got.Round, k)) {
				return c14F("harness", "prevote and precommit sign bytes coincide")
			}
		}
	case c14KPrecommit:
		in, want := e.buildPrecommit(c.Vote), e.buildPrecommit(c.Vote)
		b, err := mc.MarshalPrecommitProof(in)
		if err != nil {
			return c14F("marshal-error", "MarshalPrecommitProof: %v", err)
		}
		if d := c14EqPrecommit("input", want, in); d != "" {
			return c14F("encoder-mutated-input", "%s", d)
		}
		var got tmconsensus.PrecommitSparseProof
		if err := mc.UnmarshalPrecommitProof(b, &got); err != nil {
			return c14F("unmarshal-error", "UnmarshalPrecommitProof of encoder output: %v\n%s", err, b)
		}
		if d := c14EqPrecommit("PrecommitSparseProof", want, got); d != "" {
			return c14F("field", "%s", d)
		}
		if f := e.voteSemantics("PrecommitSparseProof", c.Vote, c14Precommit, tmconsensus.PrevoteSparseProof(want), tmconsensus.PrevoteSparseProof(got)); f != nil {
			return f
		}
	default: // consensus message, one variant set
		in, want := e.buildMsg(c), e.buildMsg(c)
		b, err := mc.MarshalConsensusMessage(in)
		if err != nil {
			return c14F("marshal-error", "MarshalConsensusMessage: %v", err)
		}
		if d := c14EqMsg("input", want, in); d != "" {
			return c14F("encoder-mutated-input", "%s", d)
		}
		var got tmcodec.ConsensusMessage
		if err := mc.UnmarshalConsensusMessage(b, &got); err != nil {
			return c14F("unmarshal-error", "UnmarshalConsensusMessage of encoder output: %v\n%s", err, b)
		}
		if wv, gv := c14MsgVariant(want), c14MsgVariant(got); wv != gv {
			return c14F("variant", "encoded as %s, decoded as %s", wv, gv)
		}
		if d := c14EqMsg("ConsensusMessage", want, got); d != "" {
			return c14F("field", "%s", d)
		}
		switch {
		case want.ProposedHeader != nil:
			if f := e.phSemantics("ConsensusMessage.ProposedHeader", c, *want.ProposedHeader, *got.ProposedHeader); f != nil {
				return f
			}
		case want.PrevoteProof != nil:
			if f := e.voteSemantics("ConsensusMessage.PrevoteProof", c.Vote, c14Prevote, *want.PrevoteProof, *got.PrevoteProof); f != nil {
				return f
			}
		case want.PrecommitProof != nil:
			if f := e.voteSemantics("ConsensusMessage.PrecommitProof", c.Vote, c14Precommit,
				tmconsensus.PrevoteSparseProof(*want.PrecommitProof), tmconsensus.PrevoteSparseProof(*got.PrecommitProof)); f != nil {
				return f
			}
		}
		// The inner encoding must be what the dedicated entry point produces and accepts
		// (libp2p sends the wrapper; stores and other transports use the plain forms).
		b2, err := mc.MarshalConsensusMessage(got)
		if err != nil {
			return c14F("marshal-error", "MarshalConsensusMessage(decoded): %v", err)
		}
		var got2 tmcodec.ConsensusMessage
		if err := mc.UnmarshalConsensusMessage(b2, &got2); err != nil {
			return c14F("unmarshal-error", "second generation: %v", err)
		}
		if d := c14EqMsg("ConsensusMessage(2nd generation)", want, got2); d != "" {
			return c14F("second-generation", "%s", d)
		}
	}
	return nil
}

func c14AnnLabel(b []byte) string {
	switch {
	case b == nil:
		return "nil"
	case len(b) == 0:
		return "empty"
	}
	return "set"
}

func c14ProofLabels(prefix string, p c14Proof, out []string) []string {
	switch {
	case len(p.Entries) == 0 && p.NilMap:
		out = append(out, prefix+"=nil-map")
	case len(p.Entries) == 0:
		out = append(out, prefix+"=empty-map")
	case len(p.Entries) == 1:
		out = append(out, prefix+"=1-entry")
	default:
		out = append(out, prefix+"=2+entries")
	}
	var nilBlock, nilSigs, emptySigs, genuine, manySigs bool
	for _, en := range p.Entries {
		if len(en.Hash) == 0 {
			nilBlock = true
		}
		if en.Sigs == nil {
			nilSigs = true
		} else if len(en.Sigs) == 0 {
			emptySigs = true
		}
		if len(en.Sigs) >= 5 {
			manySigs = true
		}
		for _, s := range en.Sigs {
			if s.Signer >= 0 {
				genuine = true
			}
		}
	}
	for _, x := range []struct {
		b bool
		s string
	}{{nilBlock, "nil-block-entry"}, {nilSigs, "nil-sigs"}, {emptySigs, "empty-sigs"}, {genuine, "genuine-sig"}, {manySigs, "5+sigs"}} {
		if x.b {
			out = append(out, prefix+":"+x.s)
		}
	}
	return out
}

func c14Labels(c c14Case) []string {
	out := []string{"kind=" + c14KindNames[c14Mod(c.Kind, c14NKinds)]}
	if c.usesHeader() {
		ed, bls := 0, 0
		for _, vs := range []c14VS{c.H.VS, c.H.NextVS} {
			for _, v := range vs.Vals {
				if c14Mod(v.Key.T, 2) == 1 {
					bls++
				} else {
					ed++
				}
			}
		}
		switch {
		case ed == 0 && bls == 0:
			out = append(out, "valkeys=none")
		case bls == 0:
			out = append(out, "valkeys=ed25519")
		case ed == 0:
			out = append(out, "valkeys=bls")
		default:
			out = append(out, "valkeys=mixed")
		}
		n := len(c.H.VS.Vals)
		switch {
		case n == 0:
			out = append(out, "vals=0")
		case n <= 4:
			out = append(out, "vals=1-4")
		case n <= 12:
			out = append(out, "vals=5-12")
		default:
			out = append(out, "vals=13+")
		}
		out = append(out, "h-user="+c14AnnLabel(c.H.User), "h-driver="+c14AnnLabel(c.H.Driver))
		out = c14ProofLabels("prevcommit", c.H.PrevCommit, out)
		if c.H.RealHash {
			out = append(out, "real-block-hash")
		}
	}
	if c.usesPH() {
		out = append(out, "ph-user="+c14AnnLabel(c.PH.User), "ph-driver="+c14AnnLabel(c.PH.Driver))
		switch {
		case c.PH.Proposer == nil:
			out = append(out, "proposer=nil")
		case c14Mod(c.PH.Proposer.T, 2) == 1:
			out = append(out, "proposer=bls")
		default:
			out = append(out, "proposer=ed25519")
		}
		if c.PH.Proposer != nil && c.PH.RealSig {
			out = append(out, "real-proposer-sig")
		}
	}
	if c14Mod(c.Kind, c14NKinds) == c14KCommitted {
		out = c14ProofLabels("commit", c.Commit, out)
	}
	if c.usesVote() {
		out = c14ProofLabels("vote", c.Vote, out)
	}
	return out
}

const c14RoundTripRule = "rapid-generated Header / ProposedHeader / CommittedHeader / Prevote- and PrecommitSparseProof / ConsensusMessage (3 variants): 0..48 validators per set with ed25519, BLS or mixed keys, nil/empty/short/32-byte/long byte strings, nil/empty/set annotations, 0..7 proof entries with nil/empty/1..24 signatures (raw or genuine), extreme heights/rounds/powers; non-trivial = value has >= 1 proof entry or an annotation or a non-empty PrevCommitProof; distinct = distinct case data (FNV-64 of its JSON)"

func c14RunRoundTrip(t vk.TB, st *vk.Stats, c c14Case) {
	if st.WantSample() {
		st.Sample(c)
	}
	st.Case(c.nontrivial(), vk.FP(c), c14Labels(c)...)
	st.Guard(t, c, func() {
		if f := c14Guarded("round trip of "+c14KindNames[c14Mod(c.Kind, c14NKinds)], func() *c14Failure { return c14RoundTrip(c) }); f != nil {
			st.Fail(t, c, "", f.clause, "%s", f.detail)
		}
	})
}

func TestVerifC14RoundTrip(t *testing.T) {
	st := vk.NewStats("C14", "TestVerifC14RoundTrip", c14RoundTripRule)
	defer st.Flush()
	var c c14Case
	if ok, err := vk.LoadReplay("C14", "TestVerifC14RoundTrip", &c); err != nil {
		t.Fatal(err)
	} else if ok {
		c14RunRoundTrip(t, st, c)
		return
	} else if vk.Replaying() {
		t.Skip("replay file is for another test")
	}
	c14GetEnv()
	rapid.Check(t, func(rt *rapid.T) {
		c14RunRoundTrip(rt, st, c14GenCase(rt))
	})
	if !t.Failed() {
		c14Floors(t, st, 2000, map[string]float64{
			"kind=header": 0.05, "kind=proposed": 0.08, "kind=committed": 0.05, "kind=prevote": 0.03, "kind=precommit": 0.03,
			"kind=msg-proposed": 0.05, "kind=msg-prevote": 0.03, "kind=msg-precommit": 0.03,
			"valkeys=bls": 0.03, "valkeys=mixed": 0.05, "valkeys=ed25519": 0.08,
			"prevcommit=2+entries": 0.08, "prevcommit=nil-map": 0.05, "vote=2+entries": 0.05,
			"h-user=nil": 0.08, "h-user=empty": 0.04, "h-user=set": 0.08,
			"ph-driver=empty": 0.02, "proposer=bls": 0.02, "proposer=nil": 0.02, "real-proposer-sig": 0.03,
			"prevcommit:genuine-sig": 0.05, "prevcommit:nil-block-entry": 0.05,
		})
	}
}
