package tmjson_test

// C14 clause (b): every Unmarshal* method returns (value | error) and never
// panics. Inputs are valid encodings mutated on the JSON tree (still valid
// JSON, so field decoding is reached) and on the byte level.
//
// The same oracle (c14CheckEntry) is used by the native fuzz targets.

import (
	"bytes"
	"encoding/base64"
	"encoding/json"
	"fmt"
	"runtime/debug"
	"sort"
	"strings"
	"testing"

	"github.com/gordian-engine/gordian/gcrypto"
	"github.com/gordian-engine/gordian/internal/zzverif/vk"
	"github.com/gordian-engine/gordian/tm/tmcodec"
	"github.com/gordian-engine/gordian/tm/tmconsensus"
	"pgregory.net/rapid"
)

// ---------------------------------------------------------------------------
// entry points and the byte-level oracle

const (
	c14EPHeader = iota
	c14EPProposed
	c14EPCommitted
	c14EPPrevote
	c14EPPrecommit
	c14EPMessage
	c14NEP
)

var c14EPNames = [...]string{"UnmarshalHeader", "UnmarshalProposedHeader", "UnmarshalCommittedHeader", "UnmarshalPrevoteProof", "UnmarshalPrecommitProof", "UnmarshalConsensusMessage"}

// the entry point that matches a message kind
func c14EPOfKind(kind int) int {
	switch c14Mod(kind, c14NKinds) {
	case c14KHeader:
		return c14EPHeader
	case c14KProposed:
		return c14EPProposed
	case c14KCommitted:
		return c14EPCommitted
	case c14KPrevote:
		return c14EPPrevote
	case c14KPrecommit:
		return c14EPPrecommit
	}
	return c14EPMessage
}

type c14Decoded struct {
	ok  bool // decode returned nil error
	err error
	obs []string // observations that are not violations of C14 (counted as labels)
}

// c14ObserveKeys notes accepted ed25519 keys whose length is not 32: the
// decoder returns them as values (NewEd25519PubKey does not validate), but
// Verify on such a key panics inside crypto/ed25519. Outside the statement of
// C14 (decoding itself is total), recorded for the notes.
func c14ObserveKeys(res *c14Decoded, h tmconsensus.Header, proposer gcrypto.PubKey) {
	bad := false
	chk := func(k gcrypto.PubKey) {
		if k != nil && k.TypeName() == "ed25519" && len(k.PubKeyBytes()) != 32 {
			bad = true
		}
	}
	for _, k := range h.ValidatorSet.PubKeys {
		chk(k)
	}
	for _, k := range h.NextValidatorSet.PubKeys {
		chk(k)
	}
	chk(proposer)
	if bad {
		res.obs = append(res.obs, "obs:accepted-ed25519-key-with-length!=32")
	}
}

func c14Guarded(what string, fn func() *c14Failure) (f *c14Failure) {
	defer func() {
		if r := recover(); r != nil {
			f = c14F("panic", "%s panicked: %v\n%s", what, r, c14Stack())
		}
	}()
	return fn()
}

// c14Stack is debug.Stack() reduced to function names and file:line, i.e.
// without goroutine ids, argument values and pc offsets: rapid only shrinks
// failures whose message is identical when the same case is run twice.
func c14Stack() string {
	var out []string
	skipFile := false
	for _, ln := range strings.Split(string(debug.Stack()), "\n") {
		switch {
		case ln == "" || strings.HasPrefix(ln, "goroutine "):
			continue
		case strings.HasPrefix(ln, "\t"):
			if skipFile {
				skipFile = false
				continue
			}
			if i := strings.LastIndex(ln, " +0x"); i >= 0 {
				ln = ln[:i]
			}
		default:
			if i := strings.LastIndex(ln, "("); i >= 0 {
				ln = ln[:i]
			}
			// frames of rapid / testing differ between the search, reproduce and shrink phases
			if strings.HasPrefix(ln, "pgregory.net/rapid.") || strings.HasPrefix(ln, "testing.") || strings.HasPrefix(ln, "created by ") {
				return strings.Join(out, "\n")
			}
		}
		out = append(out, ln)
		if ln == "panic" {
			out = out[:0] // drop the frames of the recover machinery itself
			skipFile = true
		}
		if len(out) >= 40 {
			break
		}
	}
	return strings.Join(out, "\n")
}

// c14CheckEntry offers b to one Unmarshal method. Oracle: no panic; and if the
// decoder accepts b, the accepted value survives encode -> decode unchanged
// (field-by-field), with the same message variant.
func c14CheckEntry(ep int, b []byte) (res c14Decoded, f *c14Failure) {
	e := c14GetEnv()
	mc := e.mc
	name := c14EPNames[ep]
	// Each decode gets its own copy: decoded keys may retain the input.
	in := func() []byte { return bytes.Clone(b) }
	f = c14Guarded(name, func() *c14Failure {
		switch ep {
		case c14EPHeader:
			var v tmconsensus.Header
			if res.err = mc.UnmarshalHeader(in(), &v); res.err != nil {
				return nil
			}
			res.ok = true
			c14ObserveKeys(&res, v, nil)
			return c14Guarded("re-encode/decode after "+name, func() *c14Failure {
				b2, err := mc.MarshalHeader(v)
				if err != nil {
					return c14F("reencode-error", "value accepted by %s can not be marshalled: %v", name, err)
				}
				var v2 tmconsensus.Header
				if err := mc.UnmarshalHeader(b2, &v2); err != nil {
					return c14F("redecode-error", "%s rejects the re-encoding of a value it accepted: %v", name, err)
				}
				if d := c14EqHeader("Header", v, v2); d != "" {
					return c14F("unstable", "%s", d)
				}
				return nil
			})
		case c14EPProposed:
			var v tmconsensus.ProposedHeader
			if res.err = mc.UnmarshalProposedHeader(in(), &v); res.err != nil {
				return nil
			}
			res.ok = true
			c14ObserveKeys(&res, v.Header, v.ProposerPubKey)
			return c14Guarded("re-encode/decode after "+name, func() *c14Failure {
				b2, err := mc.MarshalProposedHeader(v)
				if err != nil {
					return c14F("reencode-error", "value accepted by %s can not be marshalled: %v", name, err)
				}
				var v2 tmconsensus.ProposedHeader
				if err := mc.UnmarshalProposedHeader(b2, &v2); err != nil {
					return c14F("redecode-error", "%s rejects the re-encoding of a value it accepted: %v", name, err)
				}
				if d := c14EqPH("ProposedHeader", v, v2); d != "" {
					return c14F("unstable", "%s", d)
				}
				return nil
			})
		case c14EPCommitted:
			var v tmconsensus.CommittedHeader
			if res.err = mc.UnmarshalCommittedHeader(in(), &v); res.err != nil {
				return nil
			}
			res.ok = true
			c14ObserveKeys(&res, v.Header, nil)
			return c14Guarded("re-encode/decode after "+name, func() *c14Failure {
				b2, err := mc.MarshalCommittedHeader(v)
				if err != nil {
					return c14F("reencode-error", "value accepted by %s can not be marshalled: %v", name, err)
				}
				var v2 tmconsensus.CommittedHeader
				if err := mc.UnmarshalCommittedHeader(b2, &v2); err != nil {
					return c14F("redecode-error", "%s rejects the re-encoding of a value it accepted: %v", name, err)
				}
				if d := c14EqCommitted("CommittedHeader", v, v2); d != "" {
					return c14F("unstable", "%s", d)
				}
				return nil
			})
		case c14EPPrevote:
			var v tmconsensus.PrevoteSparseProof
			if res.err = mc.UnmarshalPrevoteProof(in(), &v); res.err != nil {
				return nil
			}
			res.ok = true
			return c14Guarded("re-encode/decode after "+name, func() *c14Failure {
				b2, err := mc.MarshalPrevoteProof(v)
				if err != nil {
					return c14F("reencode-error", "value accepted by %s can not be marshalled: %v", name, err)
				}
				var v2 tmconsensus.PrevoteSparseProof
				if err := mc.UnmarshalPrevoteProof(b2, &v2); err != nil {
					return c14F("redecode-error", "%s rejects the re-encoding of a value it accepted: %v", name, err)
				}
				if d := c14EqPrevote("PrevoteSparseProof", v, v2); d != "" {
					return c14F("unstable", "%s", d)
				}
				return nil
			})
		case c14EPPrecommit:
			var v tmconsensus.PrecommitSparseProof
			if res.err = mc.UnmarshalPrecommitProof(in(), &v); res.err != nil {
				return nil
			}
			res.ok = true
			return c14Guarded("re-encode/decode after "+name, func() *c14Failure {
				b2, err := mc.MarshalPrecommitProof(v)
				if err != nil {
					return c14F("reencode-error", "value accepted by %s can not be marshalled: %v", name, err)
				}
				var v2 tmconsensus.PrecommitSparseProof
				if err := mc.UnmarshalPrecommitProof(b2, &v2); err != nil {
					return c14F("redecode-error", "%s rejects the re-encoding of a value it accepted: %v", name, err)
				}
				if d := c14EqPrecommit("PrecommitSparseProof", v, v2); d != "" {
					return c14F("unstable", "%s", d)
				}
				return nil
			})
		default:
			var v tmcodec.ConsensusMessage
			if res.err = mc.UnmarshalConsensusMessage(in(), &v); res.err != nil {
				return nil
			}
			res.ok = true
			return c14Guarded("re-encode/decode after "+name, func() *c14Failure {
				if strings.Contains(c14MsgVariant(v), "+") {
					return c14F("variant", "%s produced a message with several variants set: %s", name, c14MsgVariant(v))
				}
				b2, err := mc.MarshalConsensusMessage(v)
				if err != nil {
					return c14F("reencode-error", "value accepted by %s can not be marshalled: %v", name, err)
				}
				var v2 tmcodec.ConsensusMessage
				if err := mc.UnmarshalConsensusMessage(b2, &v2); err != nil {
					return c14F("redecode-error", "%s rejects the re-encoding of a value it accepted: %v", name, err)
				}
				if d := c14EqMsg("ConsensusMessage", v, v2); d != "" {
					return c14F("unstable", "%s", d)
				}
				return nil
			})
		}
	})
	return res, f
}

// ---------------------------------------------------------------------------
// order- and duplicate-preserving JSON tree

type c14Node struct {
	K     byte       // 'o' object, 'a' array, 's' string, 'n' number literal, 't', 'f', 'z' null
	S     string     // string value / number literal
	Keys  []string   // object
	Elems []*c14Node // object values or array elements
}

func c14ParseJSON(b []byte) (*c14Node, error) {
	dec := json.NewDecoder(bytes.NewReader(b))
	dec.UseNumber()
	n, err := c14ParseValue(dec)
	if err != nil {
		return nil, err
	}
	return n, nil
}

func c14ParseValue(dec *json.Decoder) (*c14Node, error) {
	tok, err := dec.Token()
	if err != nil {
		return nil, err
	}
	switch v := tok.(type) {
	case json.Delim:
		switch v {
		case '{':
			n := &c14Node{K: 'o'}
			for dec.More() {
				kt, err := dec.Token()
				if err != nil {
					return nil, err
				}
				ks, ok := kt.(string)
				if !ok {
					return nil, fmt.Errorf("non-string key %v", kt)
				}
				val, err := c14ParseValue(dec)
				if err != nil {
					return nil, err
				}
				n.Keys = append(n.Keys, ks)
				n.Elems = append(n.Elems, val)
			}
			_, err := dec.Token()
			return n, err
		case '[':
			n := &c14Node{K: 'a'}
			for dec.More() {
				val, err := c14ParseValue(dec)
				if err != nil {
					return nil, err
				}
				n.Elems = append(n.Elems, val)
			}
			_, err := dec.Token()
			return n, err
		}
		return nil, fmt.Errorf("unexpected delimiter %v", v)
	case string:
		return &c14Node{K: 's', S: v}, nil
	case json.Number:
		return &c14Node{K: 'n', S: v.String()}, nil
	case bool:
		if v {
			return &c14Node{K: 't'}, nil
		}
		return &c14Node{K: 'f'}, nil
	case nil:
		return &c14Node{K: 'z'}, nil
	}
	return nil, fmt.Errorf("unexpected token %v", tok)
}

func (n *c14Node) write(buf *bytes.Buffer) {
	switch n.K {
	case 'o':
		buf.WriteByte('{')
		for i, k := range n.Keys {
			if i > 0 {
				buf.WriteByte(',')
			}
			kb, _ := json.Marshal(k)
			buf.Write(kb)
			buf.WriteByte(':')
			n.Elems[i].write(buf)
		}
		buf.WriteByte('}')
	case 'a':
		buf.WriteByte('[')
		for i, el := range n.Elems {
			if i > 0 {
				buf.WriteByte(',')
			}
			el.write(buf)
		}
		buf.WriteByte(']')
	case 's':
		sb, _ := json.Marshal(n.S)
		buf.Write(sb)
	case 'n':
		buf.WriteString(n.S)
	case 't':
		buf.WriteString("true")
	case 'f':
		buf.WriteString("false")
	default:
		buf.WriteString("null")
	}
}

func (n *c14Node) clone() *c14Node {
	c := &c14Node{K: n.K, S: n.S}
	if n.Keys != nil {
		c.Keys = append([]string(nil), n.Keys...)
	}
	for _, el := range n.Elems {
		c.Elems = append(c.Elems, el.clone())
	}
	return c
}

func (n *c14Node) get(key string) *c14Node {
	if n.K != 'o' {
		return nil
	}
	for i, k := range n.Keys {
		if k == key {
			return n.Elems[i]
		}
	}
	return nil
}

// The encoder emits commit proofs of headers in map iteration order. Sorting
// them makes node addressing (and therefore replay) deterministic.
func (n *c14Node) canonicalize() {
	for i, el := range n.Elems {
		el.canonicalize()
		if n.K == 'o' && n.Keys[i] == "Commits" && el.K == 'a' {
			sort.SliceStable(el.Elems, func(a, b int) bool {
				ha, hb := el.Elems[a].get("BlockHash"), el.Elems[b].get("BlockHash")
				if ha == nil || hb == nil {
					return false
				}
				return ha.S < hb.S
			})
		}
	}
}

type c14Slot struct {
	parent *c14Node // nil for the root
	idx    int
	node   *c14Node
}

func c14Slots(root *c14Node) []c14Slot {
	var out []c14Slot
	var walk func(p *c14Node, i int, n *c14Node)
	walk = func(p *c14Node, i int, n *c14Node) {
		out = append(out, c14Slot{p, i, n})
		for j, el := range n.Elems {
			walk(n, j, el)
		}
	}
	walk(nil, 0, root)
	return out
}

// ---------------------------------------------------------------------------
// mutations (data; interpreted against the encoding of the base value)

type c14Mut struct {
	Op  int    `json:"op"`
	At  int    `json:"at"`  // node (tree ops) or byte offset (byte ops), taken modulo the size
	Arg int    `json:"arg"` // op specific selector
	Raw []byte `json:"raw"` // bytes for insert / replace ops
}

const (
	c14MDelete = iota
	c14MNull
	c14MTypeSwap
	c14MDupKey
	c14MB64Resize
	c14MB64Break
	c14MKeyShape
	c14MNumber
	c14MGrow
	c14MRenameKey
	c14MSwapNodes
	c14MWrap
	c14MAddField
	c14NTreeOps
)

const (
	c14MTruncate = 100 + iota
	c14MFlip
	c14MCut
	c14MInsert
	c14MReplace
)

var c14MutNames = map[int]string{
	c14MDelete: "delete", c14MNull: "null", c14MTypeSwap: "type-swap", c14MDupKey: "dup-key", c14MB64Resize: "b64-resize",
	c14MB64Break: "b64-break", c14MKeyShape: "key-shape", c14MNumber: "number", c14MGrow: "grow", c14MRenameKey: "rename-key",
	c14MSwapNodes: "swap-nodes", c14MWrap: "wrap", c14MAddField: "add-field",
	c14MTruncate: "truncate", c14MFlip: "flip", c14MCut: "cut", c14MInsert: "insert", c14MReplace: "replace",
}

func c14Str(s string) *c14Node { return &c14Node{K: 's', S: s} }
func c14Num(s string) *c14Node { return &c14Node{K: 'n', S: s} }

func c14Alternatives(n *c14Node) []*c14Node {
	return []*c14Node{
		c14Str(""), c14Str("AA=="), c14Str("x"), c14Str("null"), c14Str("AAAAAAAAAAA="),
		c14Num("0"), c14Num("-1"), c14Num("1.5"), c14Num("1e400"), c14Num("18446744073709551616"), c14Num("4294967296"),
		{K: 't'}, {K: 'f'}, {K: 'z'},
		{K: 'a'}, {K: 'o'},
		{K: 'a', Elems: []*c14Node{n.clone()}},
		{K: 'o', Keys: []string{"PubKey"}, Elems: []*c14Node{n.clone()}},
		{K: 'a', Elems: []*c14Node{{K: 'z'}}},
		{K: 'a', Elems: []*c14Node{{K: 'o'}}},
		{K: 'o', Keys: []string{"Validators"}, Elems: []*c14Node{{K: 'a', Elems: []*c14Node{{K: 'o'}}}}},
	}
}

var c14Numbers = []string{"0", "1", "2", "4294967295", "4294967296", "9223372036854775807", "9223372036854775808",
	"18446744073709551615", "18446744073709551616", "-1", "-0", "0.5", "1e3", "1E+2", "1e-1", "1e400",
	"123456789012345678901234567890123456789012345678901234567890", "0.0000000000000000000000000000001"}

func (e *c14Env) keyShapes() [][]byte {
	pre := func(name string, rest []byte) []byte {
		var p [8]byte
		copy(p[:], name)
		return append(p[:], rest...)
	}
	edKey := e.ed[0].PubKey().PubKeyBytes()
	blsKey := e.bls[0].PubKey().PubKeyBytes()
	ff := bytes.Repeat([]byte{0xff}, 96)
	zero96 := make([]byte, 96)
	inf := make([]byte, 96)
	inf[0] = 0xc0 // compressed point at infinity
	return [][]byte{
		{},                         // no prefix at all
		[]byte("ed25519"),          // 7 bytes: one short of the prefix
		[]byte("e"),                // 1 byte
		pre("ed25519", nil),        // exactly the prefix, empty key
		make([]byte, 8),            // all-zero prefix
		pre("ed25519", edKey[:31]), // key one byte short
		pre("ed25519", append(bytes.Clone(edKey), 0)), // key one byte long
		pre("ed25519", edKey),                         // valid
		pre("bls-ms", nil),                            // BLS prefix only
		pre("bls-ms", zero96),                         // not a point
		pre("bls-ms", ff),                             // not a point
		pre("bls-ms", inf),                            // infinity: must fail key validation
		pre("bls-ms", blsKey[:95]),                    // one byte short
		pre("bls-ms", blsKey),                         // valid
		pre("unknown", edKey),                         // unregistered type
		pre("ed25519x", edKey),                        // 8-byte name that is not registered
		pre("bls-ms", edKey),                          // ed25519 bytes under the BLS prefix
		pre("ed25519", blsKey),                        // BLS bytes under the ed25519 prefix
		[]byte("ed25519\x00"),                         // same as prefix only
		[]byte("\x00\x00\x00\x00\x00\x00\x00"),        // 7 zero bytes
	}
}

// applyTree applies one tree mutation; returns the (possibly new) root.
func (e *c14Env) applyTree(root *c14Node, m c14Mut) *c14Node {
	all := c14Slots(root)
	// Ops that need a node of a certain type choose among the nodes of that type;
	// rapid draws small integers far more often than large ones, so selectors are
	// spread with a fixed mixing function (still a pure function of the case data).
	// Selectors below 64 address directly, which lets rapid shrink a failing case
	// towards the first nodes / first alternatives.
	at := c14Spread(m.At)
	m.Arg = c14Spread(m.Arg)
	want := func(sl c14Slot) bool { return true }
	switch m.Op {
	case c14MB64Resize, c14MB64Break:
		want = func(sl c14Slot) bool { return sl.node.K == 's' }
	case c14MKeyShape:
		want = func(sl c14Slot) bool { return sl.node.K == 's' }
		if at%4 != 0 { // mostly aim at fields that really hold public keys
			want = func(sl c14Slot) bool {
				return sl.node.K == 's' && sl.parent != nil && sl.parent.K == 'o' &&
					(sl.parent.Keys[sl.idx] == "PubKey" || sl.parent.Keys[sl.idx] == "ProposerPubKey")
			}
		}
	case c14MNumber:
		want = func(sl c14Slot) bool { return sl.node.K == 'n' }
	case c14MGrow:
		want = func(sl c14Slot) bool { return sl.node.K == 'a' }
	case c14MAddField:
		want = func(sl c14Slot) bool { return sl.node.K == 'o' }
	case c14MDelete, c14MDupKey, c14MRenameKey:
		want = func(sl c14Slot) bool { return sl.parent != nil }
	}
	var slots []c14Slot
	for _, sl := range all {
		if want(sl) {
			slots = append(slots, sl)
		}
	}
	if len(slots) == 0 {
		slots = all
	}
	sl := slots[c14Mod(at, len(slots))]
	n, p := sl.node, sl.parent
	replace := func(nn *c14Node) {
		if p == nil {
			root = nn
		} else {
			p.Elems[sl.idx] = nn
		}
	}
	switch m.Op {
	case c14MDelete:
		if p == nil {
			return root
		}
		p.Elems = append(p.Elems[:sl.idx:sl.idx], p.Elems[sl.idx+1:]...)
		if p.K == 'o' {
			p.Keys = append(p.Keys[:sl.idx:sl.idx], p.Keys[sl.idx+1:]...)
		}
	case c14MNull:
		replace(&c14Node{K: 'z'})
	case c14MTypeSwap:
		alts := c14Alternatives(n)
		replace(alts[c14Mod(m.Arg, len(alts))])
	case c14MDupKey:
		if p == nil || p.K != 'o' {
			return root
		}
		alts := append(c14Alternatives(n), n.clone())
		p.Keys = append(p.Keys, p.Keys[sl.idx])
		p.Elems = append(p.Elems, alts[c14Mod(m.Arg, len(alts))])
	case c14MB64Resize:
		if n.K != 's' {
			return root
		}
		raw, err := base64.StdEncoding.DecodeString(n.S)
		if err != nil {
			raw = []byte(n.S)
		}
		var size int
		switch a := c14Mod(m.Arg, 20); {
		case a < 13:
			size = a // 0..12 bytes: around the 8 byte prefix
		case a == 13:
			size = len(raw) - 1
		case a == 14:
			size = len(raw) + 1
		case a == 15:
			size = len(raw) / 2
		case a == 16:
			size = 8 + 31
		case a == 17:
			size = 8 + 33
		case a == 18:
			size = 8 + 95
		default:
			size = 8 + 97
		}
		if size < 0 {
			size = 0
		}
		out := make([]byte, size)
		copy(out, raw)
		replace(c14Str(base64.StdEncoding.EncodeToString(out)))
	case c14MB64Break:
		if n.K != 's' {
			return root
		}
		s := n.S
		switch c14Mod(m.Arg, 7) {
		case 0:
			if len(s) > 0 {
				s = s[:len(s)-1] // odd length
			}
		case 1:
			s += "="
		case 2:
			if len(s) > 0 {
				s = "*" + s[1:]
			} else {
				s = "*"
			}
		case 3:
			s = strings.NewReplacer("+", "-", "/", "_").Replace(s) + "-_"
		case 4:
			s = strings.TrimRight(s, "=") // raw (unpadded) base64
		case 5:
			s = s + s
		default:
			s = " " + s + "\n"
		}
		replace(c14Str(s))
	case c14MKeyShape:
		if n.K != 's' {
			return root
		}
		shapes := e.keyShapes()
		replace(c14Str(base64.StdEncoding.EncodeToString(shapes[c14Mod(m.Arg, len(shapes))])))
	case c14MNumber:
		if n.K != 'n' {
			return root
		}
		replace(c14Num(c14Numbers[c14Mod(m.Arg, len(c14Numbers))]))
	case c14MGrow:
		if n.K != 'a' {
			return root
		}
		counts := []int{2, 17, 300, 2000}
		want := counts[c14Mod(m.Arg, len(counts))]
		var proto *c14Node
		if len(n.Elems) > 0 {
			proto = n.Elems[0]
		} else if c14Mod(m.Arg/4, 2) == 0 {
			proto = &c14Node{K: 'o'}
		} else {
			proto = &c14Node{K: 'z'}
		}
		for len(n.Elems) < want {
			n.Elems = append(n.Elems, proto.clone())
		}
	case c14MRenameKey:
		if p == nil || p.K != 'o' {
			return root
		}
		k := p.Keys[sl.idx]
		switch c14Mod(m.Arg, 5) {
		case 0:
			k = strings.ToLower(k) // encoding/json matches keys case-insensitively
		case 1:
			k = strings.ToUpper(k)
		case 2:
			k += "X"
		case 3:
			k = ""
		default:
			// U+017F and U+212A fold to 's' and 'k': encoding/json still matches the field
			k = strings.NewReplacer("s", "\u017f", "S", "\u017f", "k", "\u212a", "K", "\u212a").Replace(k)
		}
		p.Keys[sl.idx] = k
	case c14MSwapNodes:
		other := all[c14Mod(m.Arg, len(all))]
		if other.parent == nil || p == nil || other.node == n {
			return root
		}
		a, b := n.clone(), other.node.clone()
		p.Elems[sl.idx] = b
		other.parent.Elems[other.idx] = a
	case c14MWrap:
		fields := [][]string{{"ProposedHeader"}, {"PrevoteProof"}, {"PrecommitProof"}, {"ProposedHeader", "PrevoteProof"},
			{"PrevoteProof", "PrecommitProof"}, {"ProposedHeader", "PrevoteProof", "PrecommitProof"}, {"Header"}, {"Proof"}, {"proposedheader"}}
		fs := fields[c14Mod(m.Arg, len(fields))]
		w := &c14Node{K: 'o'}
		for _, f := range fs {
			w.Keys = append(w.Keys, f)
			w.Elems = append(w.Elems, root.clone())
		}
		return w
	case c14MAddField:
		if n.K != 'o' {
			return root
		}
		names := []string{"PubKey", "Power", "Validators", "PubKeyHash", "Commits", "Proofs", "Signatures", "BlockHash", "KeyID", "Sig",
			"Header", "Proof", "PrevCommitProof", "ProposerPubKey", "Round", "Height", "Unknown", "ValidatorSet", "UserAnnotation"}
		alts := c14Alternatives(n)
		n.Keys = append(n.Keys, names[c14Mod(m.Arg, len(names))])
		n.Elems = append(n.Elems, alts[c14Mod(m.Arg/len(names), len(alts))])
	}
	return root
}

// c14Spread maps a (small-biased) selector to a well spread non-negative int.
func c14Spread(x int) int {
	if x >= 0 && x < 64 {
		return x
	}
	r := vk.SplitMix64{S: uint64(x)}
	return int(r.Next() >> 34)
}

func c14ApplyBytes(b []byte, m c14Mut) []byte {
	if m.Op == c14MTruncate || m.Op == c14MFlip || m.Op == c14MCut || m.Op == c14MInsert {
		m.At = c14Spread(m.At)
	}
	switch m.Op {
	case c14MTruncate:
		return b[:c14Mod(m.At, len(b)+1)]
	case c14MFlip:
		if len(b) == 0 {
			return b
		}
		out := bytes.Clone(b)
		out[c14Mod(m.At, len(b))] ^= byte(1 << uint(c14Mod(m.Arg, 8)))
		return out
	case c14MCut:
		if len(b) == 0 {
			return b
		}
		from := c14Mod(m.At, len(b))
		n := 1 + c14Mod(m.Arg, 16)
		if from+n > len(b) {
			n = len(b) - from
		}
		return append(bytes.Clone(b[:from]), b[from+n:]...)
	case c14MInsert:
		at := c14Mod(m.At, len(b)+1)
		out := append(bytes.Clone(b[:at]), m.Raw...)
		return append(out, b[at:]...)
	case c14MReplace:
		return bytes.Clone(m.Raw)
	}
	return b
}

type c14TotCase struct {
	Base c14Case  `json:"base"`
	Muts []c14Mut `json:"muts"`
}

// encodeBase marshals the base value with the real encoder.
func (e *c14Env) encodeBase(c c14Case) ([]byte, error) {
	switch c14Mod(c.Kind, c14NKinds) {
	case c14KHeader:
		return e.mc.MarshalHeader(e.buildHeader(c.H))
	case c14KProposed:
		return e.mc.MarshalProposedHeader(e.buildPH(c.H, c.PH))
	case c14KCommitted:
		return e.mc.MarshalCommittedHeader(e.buildCommitted(c))
	case c14KPrevote:
		return e.mc.MarshalPrevoteProof(e.buildPrevote(c.Vote))
	case c14KPrecommit:
		return e.mc.MarshalPrecommitProof(e.buildPrecommit(c.Vote))
	}
	return e.mc.MarshalConsensusMessage(e.buildMsg(c))
}

// c14MutatedInput interprets the case: encoding of the base value, tree
// mutations in order (on the canonicalized tree), then byte mutations.
func (e *c14Env) mutatedInput(c c14TotCase) ([]byte, error) {
	b, err := e.encodeBase(c.Base)
	if err != nil {
		return nil, fmt.Errorf("encoding base value: %w", err)
	}
	root, err := c14ParseJSON(b)
	if err != nil {
		return nil, fmt.Errorf("encoder output is not parseable JSON: %w", err)
	}
	root.canonicalize()
	for _, m := range c.Muts {
		if m.Op < 100 {
			root = e.applyTree(root, m)
		}
	}
	var buf bytes.Buffer
	root.write(&buf)
	out := buf.Bytes()
	for _, m := range c.Muts {
		if m.Op >= 100 {
			out = c14ApplyBytes(out, m)
		}
	}
	return out, nil
}

func c14GenMut(t *rapid.T) c14Mut {
	var m c14Mut
	if c14Pick(t, "mut-level", 5, 1) == 0 {
		m.Op = c14Pick(t, "tree-op", 4, 3, 5, 2, 6, 3, 6, 3, 2, 2, 3, 1, 2)
	} else {
		m.Op = c14MTruncate + c14Pick(t, "byte-op", 4, 3, 2, 2, 1)
	}
	m.At = rapid.IntRange(0, 1<<20).Draw(t, "at")
	m.Arg = rapid.IntRange(0, 1<<20).Draw(t, "arg")
	if m.Op == c14MInsert || m.Op == c14MReplace {
		if c14Pick(t, "raw?", 1, 1) == 0 {
			m.Raw = []byte(rapid.SampledFrom([]string{"", "null", "{}", "[]", "0", "\"\"", "{\"ProposedHeader\":null}", "{\"Header\":{\"ValidatorSet\":{\"Validators\":[{}]}}}",
				"{\"ProposedHeader\":{\"ProposerPubKey\":\"\"}}", "{\"PrevoteProof\":{\"Proofs\":[null]}}", "{\"Proofs\":[{\"Signatures\":[null]}]}", "\xff\xfe", "{\"a\":", "[[[[[[[["}).Draw(t, "raw"))
		} else {
			m.Raw = rapid.SliceOfN(rapid.Byte(), 0, 24).Draw(t, "raw")
		}
	}
	return m
}

func c14GenTotCase(t *rapid.T) c14TotCase {
	var c c14TotCase
	c.Base = c14GenCase(t)
	n := 1
	switch c14Pick(t, "muts?", 1, 10, 5, 3) {
	case 0:
		n = 0 // unmutated valid encoding offered to all six entry points
	case 1:
		n = 1
	case 2:
		n = 2
	default:
		n = rapid.IntRange(3, 6).Draw(t, "muts#")
	}
	for i := 0; i < n; i++ {
		c.Muts = append(c.Muts, c14GenMut(t))
	}
	return c
}

const c14TotalityRule = "encoding of a rapid-generated message, mutated by 0..6 operations on the order/duplicate-preserving JSON tree (delete field, null, type swap, duplicate key, base64 resize around the 8-byte key prefix, broken base64, hostile key encodings for both key types, extreme numbers, arrays grown to 2000, key renaming, node swaps, wrapping, extra fields) or on the bytes (truncate, flip, cut, insert, replace); the result is offered to all six Unmarshal methods; non-trivial = mutated (>= 1 mutation) and still valid JSON, i.e. reaches field decoding; distinct = distinct case data"

func c14RunTotality(t vk.TB, st *vk.Stats, c c14TotCase) {
	e := c14GetEnv()
	if st.WantSample() {
		st.Sample(c)
	}
	var input []byte
	var ierr error
	st.Guard(t, c, func() { input, ierr = e.mutatedInput(c) })
	if ierr != nil {
		st.Case(false, vk.FP(c), "base-encode-failed")
		st.Fail(t, c, "", "marshal-error", "%v", ierr)
		return
	}
	valid := json.Valid(input)
	labels := []string{"base=" + c14KindNames[c14Mod(c.Base.Kind, c14NKinds)]}
	if valid {
		labels = append(labels, "input=valid-json")
	} else {
		labels = append(labels, "input=invalid-json")
	}
	seen := map[int]bool{}
	for _, m := range c.Muts {
		if !seen[m.Op] {
			seen[m.Op] = true
			labels = append(labels, "op="+c14MutNames[m.Op])
		}
	}
	if len(c.Muts) == 0 {
		labels = append(labels, "op=none")
	}
	st.Case(valid && len(c.Muts) > 0, vk.FP(c), labels...)
	match := c14EPOfKind(c.Base.Kind)
	for ep := 0; ep < c14NEP; ep++ {
		res, f := c14CheckEntry(ep, input)
		if f != nil {
			in := input
			if len(in) > 1500 {
				in = append(bytes.Clone(in[:1500]), "...(truncated)"...)
			}
			st.Fail(t, c, "", f.clause, "%s on input %q: %s", c14EPNames[ep], in, f.detail)
			return
		}
		for _, o := range res.obs {
			st.Label(o)
		}
		if ep == match {
			switch {
			case res.ok:
				st.Label("matching-entry=accepted")
			case valid:
				st.Label("matching-entry=rejected-in-field-decoding")
				msg := res.err.Error()
				switch {
				case strings.Contains(msg, "public key") || strings.Contains(msg, "pubkey") || strings.Contains(msg, "compressed bytes") || strings.Contains(msg, "decompress"):
					st.Label("reject=key")
				case strings.Contains(msg, "base64"):
					st.Label("reject=base64")
				case strings.Contains(msg, "cannot unmarshal"):
					st.Label("reject=json-type")
				default:
					st.Label("reject=other")
				}
			default:
				st.Label("matching-entry=rejected-syntax")
			}
			if len(c.Muts) == 0 && !res.ok {
				st.Fail(t, c, "", "unmarshal-error", "%s rejects the unmutated encoder output: %v", c14EPNames[ep], res.err)
				return
			}
		} else if res.ok {
			st.Label("foreign-entry=accepted")
		}
	}
}

func TestVerifC14Totality(t *testing.T) {
	st := vk.NewStats("C14", "TestVerifC14Totality", c14TotalityRule)
	defer st.Flush()
	var c c14TotCase
	if ok, err := vk.LoadReplay("C14", "TestVerifC14Totality", &c); err != nil {
		t.Fatal(err)
	} else if ok {
		c14RunTotality(t, st, c)
		return
	} else if vk.Replaying() {
		t.Skip("replay file is for another test")
	}
	c14GetEnv()
	rapid.Check(t, func(rt *rapid.T) {
		c14RunTotality(rt, st, c14GenTotCase(rt))
	})
	if !t.Failed() {
		c14Floors(t, st, 2000, map[string]float64{
			"input=valid-json": 0.5, "input=invalid-json": 0.05,
			"matching-entry=accepted": 0.15, "matching-entry=rejected-in-field-decoding": 0.15,
			"reject=key": 0.03, "reject=base64": 0.01, "reject=json-type": 0.03,
			"op=key-shape": 0.05, "op=b64-resize": 0.05, "op=delete": 0.05, "op=type-swap": 0.05, "op=grow": 0.02, "op=dup-key": 0.02, "op=truncate": 0.03,
		})
	}
}

// c14Floors fails the test (clause "harness") when a class of cases that makes
// the check meaningful is under-represented. Floors are far below the
// generator's expectation so that they hold for every seed.
func c14Floors(t *testing.T, st *vk.Stats, minEvals int64, floors map[string]float64) {
	if st.Evals < minEvals {
		return
	}
	keys := make([]string, 0, len(floors))
	for k := range floors {
		keys = append(keys, k)
	}
	sort.Strings(keys)
	for _, k := range keys {
		if got := float64(st.Labels[k]); got < floors[k]*float64(st.Evals) {
			t.Fatalf("harness: generator class %q has %d of %d cases, below the floor of %.1f%%", k, st.Labels[k], st.Evals, 100*floors[k])
		}
	}
}
