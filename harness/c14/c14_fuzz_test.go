package tmjson_test

// C14 clause (b), thorough tier: native coverage-guided fuzzing, one target per
// Unmarshal entry point, seeded with valid encodings of generated values.
// Oracle (inside the target, shared with the rapid test): no panic, and a value
// the decoder accepts survives encode -> decode unchanged.

import (
	"testing"

	"pgregory.net/rapid"
)

const c14FuzzSeeds = 40

// c14SeedEncodings returns valid encodings (real encoder output) of
// deterministic generator examples whose kind matches the entry point; for the
// plain entry points the encodings of the wrapped kinds are unwrapped forms too.
func c14SeedEncodings(ep int) [][]byte {
	e := c14GetEnv()
	gen := rapid.Custom(c14GenCase)
	var out [][]byte
	for i := 0; i < 4000 && len(out) < c14FuzzSeeds; i++ {
		c := gen.Example(i)
		switch ep {
		case c14EPProposed:
			if c.Kind == c14KMsgProposed {
				c.Kind = c14KProposed
			}
		case c14EPPrevote:
			if c.Kind == c14KMsgPrevote {
				c.Kind = c14KPrevote
			}
		case c14EPPrecommit:
			if c.Kind == c14KMsgPrecommit {
				c.Kind = c14KPrecommit
			}
		}
		if c14EPOfKind(c.Kind) != ep {
			continue
		}
		b, err := e.encodeBase(c)
		if err != nil {
			panic(err)
		}
		out = append(out, b)
	}
	return out
}

func c14Fuzz(f *testing.F, ep int, name string) {
	for _, b := range c14SeedEncodings(ep) {
		f.Add(b)
	}
	f.Fuzz(func(t *testing.T, b []byte) {
		if _, fail := c14CheckEntry(ep, b); fail != nil {
			in := b
			if len(in) > 3000 {
				in = in[:3000]
			}
			t.Fatalf("VERIF-FAIL property=C14 test=%s clause=%q: %s on input %q: %s", name, fail.clause, c14EPNames[ep], in, fail.detail)
		}
	})
}

func FuzzVerifC14UnmarshalHeader(f *testing.F) {
	c14Fuzz(f, c14EPHeader, "FuzzVerifC14UnmarshalHeader")
}

func FuzzVerifC14UnmarshalProposedHeader(f *testing.F) {
	c14Fuzz(f, c14EPProposed, "FuzzVerifC14UnmarshalProposedHeader")
}

func FuzzVerifC14UnmarshalCommittedHeader(f *testing.F) {
	c14Fuzz(f, c14EPCommitted, "FuzzVerifC14UnmarshalCommittedHeader")
}

func FuzzVerifC14UnmarshalPrevoteProof(f *testing.F) {
	c14Fuzz(f, c14EPPrevote, "FuzzVerifC14UnmarshalPrevoteProof")
}

func FuzzVerifC14UnmarshalPrecommitProof(f *testing.F) {
	c14Fuzz(f, c14EPPrecommit, "FuzzVerifC14UnmarshalPrecommitProof")
}

func FuzzVerifC14UnmarshalConsensusMessage(f *testing.F) {
	c14Fuzz(f, c14EPMessage, "FuzzVerifC14UnmarshalConsensusMessage")
}
