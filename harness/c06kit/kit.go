// Package c06kit holds what the C06 harnesses share: the case representation
// (plain data), its generator, the stand-in and real signature proofs, and the
// math/big oracle. It is injected by build overlay as
// github.com/gordian-engine/gordian/internal/zzverif/c06kit and never part of
// the repository. Nothing in here calls the code under test except for
// building real gcrypto proofs (the input side).
package c06kit

import (
	"context"
	"encoding/hex"
	"fmt"
	"math/big"
	"sort"
	"sync"

	"github.com/bits-and-blooms/bitset"
	"github.com/gordian-engine/gordian/gcrypto"
	"github.com/gordian-engine/gordian/gcrypto/gcryptotest"
	"github.com/gordian-engine/gordian/internal/zzverif/vk"
	"github.com/gordian-engine/gordian/tm/tmconsensus"
)

const MaxVals = 12

// ---------------------------------------------------------------------------
// case = data

// Target is one entry of a proof map: a block hash (hex; "" = nil vote) and
// the set of validators that signed for it (bit i = validator i).
type Target struct {
	Hash    string `json:"hash"`
	Signers uint16 `json:"signers"`
}

// Family is the content of a round view's two proof maps at one moment.
type Family struct {
	Prevotes   []Target `json:"prevotes"`
	Precommits []Target `json:"precommits"`
}

const (
	OpSetAvail = iota
	OpSetPrevotes
	OpSetPrecommits
	OpSetBoth
	OpReset
	OpResetSameHeight
	OpCloneProbe
	NumOps
)

var OpNames = [...]string{"set-avail", "set-prevotes", "set-precommits", "set-both", "reset", "reset-same-height", "clone-probe"}

// Op is one step on a VoteSummary. Fam selects the family (mod len), Perm the
// insertion order of the proof map (seed of a Fisher-Yates shuffle), Reps how
// often the evaluation is repeated on freshly built maps.
type Op struct {
	Kind int    `json:"kind"`
	Fam  int    `json:"fam"`
	Perm uint32 `json:"perm"`
	Reps int    `json:"reps"`
}

type Case struct {
	Powers []uint64 `json:"powers"`
	Fams   []Family `json:"fams"`
	Ops    []Op     `json:"ops"`
	// Real: build gcrypto.SimpleCommonMessageSignatureProof values from real
	// ed25519 signatures instead of the stand-in proof.
	Real bool `json:"real"`
	// Profile is informational (which power generator produced Powers).
	Profile string `json:"profile,omitempty"`
}

// ---------------------------------------------------------------------------
// normalisation: every JSON value is a valid case

// RTarget is a resolved target: raw hash bytes as string, mask limited to n bits.
type RTarget struct {
	Hash string
	Mask uint16
}

type RFamily struct {
	Kinds [2][]RTarget // 0 = prevotes, 1 = precommits; distinct hashes, list order = base insertion order
}

type World struct {
	N      int
	Powers []uint64
	Total  *big.Int
	Vals   []tmconsensus.Validator
	Keys   []gcrypto.PubKey
	Fams   []RFamily
	Real   bool

	realCache map[string]gcrypto.CommonMessageSignatureProof
}

var two63 = new(big.Int).Lsh(big.NewInt(1), 63)

func resolveTargets(ts []Target, nmask uint16) []RTarget {
	var out []RTarget
	idx := map[string]int{}
	for _, t := range ts {
		hb, err := hex.DecodeString(t.Hash)
		if err != nil {
			hb = []byte(t.Hash) // hand written files: take it literally
		}
		h := string(hb)
		if i, ok := idx[h]; ok {
			out[i].Mask |= t.Signers & nmask
			continue
		}
		idx[h] = len(out)
		out = append(out, RTarget{Hash: h, Mask: t.Signers & nmask})
		if len(out) == 16 {
			break
		}
	}
	return out
}

// Resolve turns a case into a world. It never fails: out-of-range parts are
// clamped so that every sub-value produced by shrinking is a sound input
// (1..12 validators, 1 <= total power < 2^63).
func Resolve(c Case) *World {
	w := &World{Real: c.Real}
	p := append([]uint64(nil), c.Powers...)
	if len(p) == 0 {
		p = []uint64{1}
	}
	if len(p) > MaxVals {
		p = p[:MaxVals]
	}
	for {
		tot := new(big.Int)
		for _, x := range p {
			tot.Add(tot, new(big.Int).SetUint64(x))
		}
		if tot.Sign() == 0 {
			p[0] = 1
			continue
		}
		if tot.Cmp(two63) >= 0 {
			for i := range p {
				p[i] /= 2
			}
			continue
		}
		w.Total = tot
		break
	}
	w.N = len(p)
	w.Powers = p
	signers := Signers()
	w.Vals = make([]tmconsensus.Validator, w.N)
	w.Keys = make([]gcrypto.PubKey, w.N)
	for i := range p {
		w.Keys[i] = signers[i].PubKey()
		w.Vals[i] = tmconsensus.Validator{PubKey: w.Keys[i], Power: p[i]}
	}
	nmask := uint16(1)<<uint(w.N) - 1
	fams := c.Fams
	if len(fams) == 0 {
		fams = []Family{{}}
	}
	for _, f := range fams {
		w.Fams = append(w.Fams, RFamily{Kinds: [2][]RTarget{resolveTargets(f.Prevotes, nmask), resolveTargets(f.Precommits, nmask)}})
	}
	return w
}

func (w *World) Fam(k int) *RFamily {
	if k < 0 {
		k = -k
	}
	return &w.Fams[k%len(w.Fams)]
}

// ---------------------------------------------------------------------------
// proofs (input side)

var (
	signersOnce sync.Once
	signers     []gcrypto.Ed25519Signer
	sigMu       sync.Mutex
	sigCache    = map[string][]byte{}
)

func Signers() []gcrypto.Ed25519Signer {
	signersOnce.Do(func() { signers = gcryptotest.DeterministicEd25519Signers(MaxVals) })
	return signers
}

// FakeProof is the stand-in proof: exactly the part of the
// CommonMessageSignatureProof contract a vote summary may rely on (the
// signature bit set over the candidate keys, plus the read-only accessors).
// Anything that would mutate or cryptographically inspect a proof panics.
type FakeProof struct {
	msg  []byte
	n    int
	bits *bitset.BitSet
}

func NewFakeProof(msg []byte, n int, mask uint16) FakeProof {
	bs := bitset.New(uint(n))
	for i := 0; i < n; i++ {
		if mask&(1<<uint(i)) != 0 {
			bs.Set(uint(i))
		}
	}
	return FakeProof{msg: msg, n: n, bits: bs}
}

func (p FakeProof) Message() []byte    { return p.msg }
func (p FakeProof) PubKeyHash() []byte { return []byte("c06-pubkeyhash") }
func (p FakeProof) AddSignature(sig []byte, key gcrypto.PubKey) error {
	panic("c06kit.FakeProof: AddSignature called by a vote summary")
}
func (p FakeProof) Matches(other gcrypto.CommonMessageSignatureProof) bool {
	panic("c06kit.FakeProof: Matches called by a vote summary")
}
func (p FakeProof) Merge(other gcrypto.CommonMessageSignatureProof) gcrypto.SignatureProofMergeResult {
	panic("c06kit.FakeProof: Merge called by a vote summary")
}
func (p FakeProof) MergeSparse(gcrypto.SparseSignatureProof) gcrypto.SignatureProofMergeResult {
	panic("c06kit.FakeProof: MergeSparse called by a vote summary")
}
func (p FakeProof) HasSparseKeyID(keyID []byte) (has, valid bool) {
	panic("c06kit.FakeProof: HasSparseKeyID called by a vote summary")
}
func (p FakeProof) Clone() gcrypto.CommonMessageSignatureProof {
	return FakeProof{msg: p.msg, n: p.n, bits: p.bits.Clone()}
}
func (p FakeProof) Derive() gcrypto.CommonMessageSignatureProof {
	return FakeProof{msg: p.msg, n: p.n, bits: bitset.New(uint(p.n))}
}
func (p FakeProof) SignatureBitSet(dst *bitset.BitSet) { p.bits.CopyFull(dst) }
func (p FakeProof) AsSparse() gcrypto.SparseSignatureProof {
	panic("c06kit.FakeProof: AsSparse called by a vote summary")
}

var _ gcrypto.CommonMessageSignatureProof = FakeProof{}

func signCached(msg []byte, i int) []byte {
	k := fmt.Sprintf("%d|%s", i, msg)
	sigMu.Lock()
	defer sigMu.Unlock()
	if s, ok := sigCache[k]; ok {
		return s
	}
	s, err := Signers()[i].Sign(context.Background(), msg)
	if err != nil {
		panic(err)
	}
	sigCache[k] = s
	return s
}

func (w *World) proof(kind int, t RTarget) gcrypto.CommonMessageSignatureProof {
	msg := append([]byte{"PC"[kind], '|'}, t.Hash...)
	if !w.Real {
		return NewFakeProof(msg, w.N, t.Mask)
	}
	// Signature verification dominates the cost of a real proof: build each
	// distinct (kind, target, signer set) once per case and hand out clones.
	ck := fmt.Sprintf("%d|%d|%s", kind, t.Mask, t.Hash)
	if c, ok := w.realCache[ck]; ok {
		return c.Clone()
	}
	p, err := gcrypto.NewSimpleCommonMessageSignatureProof(msg, w.Keys, "c06-pubkeyhash")
	if err != nil {
		panic(err)
	}
	for i := 0; i < w.N; i++ {
		if t.Mask&(1<<uint(i)) != 0 {
			if err := p.AddSignature(signCached(msg, i), w.Keys[i]); err != nil {
				panic(fmt.Errorf("c06kit: real proof refused a genuine signature: %w", err))
			}
		}
	}
	if w.realCache == nil {
		w.realCache = map[string]gcrypto.CommonMessageSignatureProof{}
	}
	w.realCache[ck] = p
	return p.Clone()
}

// Perm returns the permutation of [0,n) selected by seed (Fisher-Yates driven
// by SplitMix64): pure function of its arguments.
func Perm(n int, seed uint32) []int {
	p := make([]int, n)
	for i := range p {
		p[i] = i
	}
	r := vk.SplitMix64{S: uint64(seed)*0x9e3779b97f4a7c15 + 1}
	for i := n - 1; i > 0; i-- {
		j := int(r.Next() % uint64(i+1))
		p[i], p[j] = p[j], p[i]
	}
	return p
}

// ProofMap builds a fresh proof map for one kind of one family; entries are
// inserted in the order selected by perm.
func (w *World) ProofMap(f *RFamily, kind int, perm uint32) map[string]gcrypto.CommonMessageSignatureProof {
	ts := f.Kinds[kind]
	m := make(map[string]gcrypto.CommonMessageSignatureProof)
	for _, i := range Perm(len(ts), perm) {
		m[ts[i].Hash] = w.proof(kind, ts[i])
	}
	return m
}

// ---------------------------------------------------------------------------
// oracle: independent recomputation in math/big

type KindRef struct {
	Total *big.Int            // power of the UNION of signers
	Block map[string]*big.Int // per target: power of its distinct signers
	Most  string              // lexicographically smallest hash among the maxima; "" if no votes
	Union uint16
	// Naive is the sum of the per-target powers (what a per-target
	// accumulation yields); differs from Total exactly when someone equivocates.
	Naive *big.Int
}

func (w *World) maskPower(mask uint16) *big.Int {
	s := new(big.Int)
	for i := 0; i < w.N; i++ {
		if mask&(1<<uint(i)) != 0 {
			s.Add(s, new(big.Int).SetUint64(w.Powers[i]))
		}
	}
	return s
}

func (w *World) KindOracle(f *RFamily, kind int) KindRef {
	r := KindRef{Block: map[string]*big.Int{}, Naive: new(big.Int)}
	hashes := make([]string, 0, len(f.Kinds[kind]))
	for _, t := range f.Kinds[kind] {
		r.Union |= t.Mask
		p := w.maskPower(t.Mask)
		r.Block[t.Hash] = p
		r.Naive.Add(r.Naive, p)
		hashes = append(hashes, t.Hash)
	}
	r.Total = w.maskPower(r.Union)
	// Documented rule (votesummary.go): empty if nothing has any votes or nil
	// has the most votes; on a tie the lexicographically earlier hash. The nil
	// vote is the empty hash, which sorts first, so one rule covers all three.
	sort.Strings(hashes)
	max := new(big.Int)
	for _, h := range hashes {
		if r.Block[h].Cmp(max) > 0 {
			max = r.Block[h]
		}
	}
	if max.Sign() > 0 {
		for _, h := range hashes {
			if r.Block[h].Cmp(max) == 0 {
				r.Most = h
				break
			}
		}
	}
	return r
}

// BelowThird reports 3*x < total, i.e. x is below the least value reaching a
// third of the total (independent of tmconsensus.ByzantineMinority).
func (w *World) BelowThird(x *big.Int) bool {
	return new(big.Int).Mul(big.NewInt(3), x).Cmp(w.Total) < 0
}

// ReachesThird: 3x >= total. AboveTwoThirds: 3x > 2*total.
func (w *World) ReachesThird(x *big.Int) bool { return !w.BelowThird(x) }
func (w *World) AboveTwoThirds(x *big.Int) bool {
	return new(big.Int).Mul(big.NewInt(3), x).Cmp(new(big.Int).Lsh(w.Total, 1)) > 0
}

// ---------------------------------------------------------------------------
// classification

// MaxTargetsPerValidator returns, for one kind, the largest number of targets
// any single validator signed, and how many validators signed at least two.
func (f *RFamily) Equivocation(kind, n int) (maxTargets, equivocators int) {
	for i := 0; i < n; i++ {
		c := 0
		for _, t := range f.Kinds[kind] {
			if t.Mask&(1<<uint(i)) != 0 {
				c++
			}
		}
		if c > maxTargets {
			maxTargets = c
		}
		if c >= 2 {
			equivocators++
		}
	}
	return
}

func HexU(b *big.Int) string { return b.String() }
