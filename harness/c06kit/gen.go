package c06kit

import (
	"encoding/hex"
	"math/big"

	"pgregory.net/rapid"
)

// Block hashes: nil vote (""), very short ones, shared prefixes (so that the
// lexicographic tie rule is exercised on every byte position) and 32-byte ones.
var hashPool = func() []string {
	h32 := func(fill, last byte) string {
		b := make([]byte, 32)
		for i := range b {
			b[i] = fill
		}
		b[31] = last
		return string(b)
	}
	return []string{
		"", "\x00", "\x00\x00", "a", "aa", "ab", "b", "\xff", "some_block",
		h32(0x11, 0x01), h32(0x11, 0x02), h32(0xfe, 0xfe), h32(0x00, 0x00),
	}
}()

var Profiles = []string{"small", "equal", "dominant", "near", "huge", "huge-near"}

const maxTotal = uint64(1)<<63 - 1

func split(rt *rapid.T, total uint64, k int, label string) []uint64 {
	// stick breaking: k non-negative parts summing to total
	out := make([]uint64, k)
	rest := total
	for i := 0; i < k-1; i++ {
		var x uint64
		switch rapid.IntRange(0, 3).Draw(rt, label+"-how") {
		case 0:
			x = rest / uint64(k-i) // even share
		case 1:
			x = rapid.Uint64Range(0, rest).Draw(rt, label+"-part")
		case 2:
			if rest > 0 {
				x = 1
			}
		default:
			x = rest / 2
		}
		out[i] = x
		rest -= x
	}
	out[k-1] = rest
	return out
}

func genPowers(rt *rapid.T, n int, profile string) []uint64 {
	p := make([]uint64, n)
	switch profile {
	case "small":
		for i := range p {
			p[i] = uint64(rapid.IntRange(0, 10).Draw(rt, "pow"))
			if p[i] == 0 && rapid.IntRange(0, 3).Draw(rt, "keepzero") != 0 {
				p[i] = 1 // zero-power validators stay rare
			}
		}
	case "equal":
		v := rapid.SampledFrom([]uint64{1, 1, 2, 3, 7, 100, 99997, 1 << 40, maxTotal / 12}).Draw(rt, "eq")
		for i := range p {
			p[i] = v
		}
	case "dominant":
		var s uint64
		for i := range p {
			p[i] = uint64(rapid.IntRange(1, 10).Draw(rt, "pow"))
			s += p[i]
		}
		d := rapid.IntRange(0, n-1).Draw(rt, "dom")
		s -= p[d]
		if s == 0 {
			s = 1
		}
		// s/2 -> a third of the total, 2s -> two thirds of the total
		base := rapid.SampledFrom([]uint64{s / 2, s / 2, 2 * s, 2 * s, 100 * s, s}).Draw(rt, "dombase")
		delta := rapid.IntRange(-1, 1).Draw(rt, "domdelta")
		v := int64(base) + int64(delta)
		if v < 1 {
			v = 1
		}
		p[d] = uint64(v)
	case "near", "huge-near":
		var total uint64
		if profile == "near" {
			total = uint64(rapid.IntRange(1, 3000).Draw(rt, "total"))
		} else {
			total = maxTotal - rapid.Uint64Range(0, 1<<20).Draw(rt, "totaldown")
		}
		if n == 1 {
			p[0] = total
			break
		}
		k := rapid.IntRange(1, n-1).Draw(rt, "groupsize")
		third := (total + 2) / 3 // least value reaching a third
		twoth := 2*(total/3) + 1 // least value exceeding two thirds ...
		if total%3 == 2 {
			twoth++
		}
		anchor := rapid.SampledFrom([]uint64{third - 1, third - 1, third, twoth - 1, twoth}).Draw(rt, "anchor")
		delta := rapid.IntRange(-1, 1).Draw(rt, "anchordelta")
		g := int64(anchor) + int64(delta)
		if profile == "huge-near" && delta != 0 {
			g = int64(anchor) // keep exactness where it matters most
		}
		if g < 0 {
			g = 0
		}
		if uint64(g) > total {
			g = int64(total)
		}
		copy(p[:k], split(rt, uint64(g), k, "grp"))
		copy(p[k:], split(rt, total-uint64(g), n-k, "rest"))
	case "huge":
		lim := maxTotal / uint64(n)
		for i := range p {
			if rapid.Bool().Draw(rt, "top") {
				p[i] = lim - rapid.Uint64Range(0, 1000).Draw(rt, "down")
			} else {
				p[i] = rapid.Uint64Range(0, lim).Draw(rt, "pow")
			}
		}
	}
	var any bool
	for _, x := range p {
		any = any || x != 0
	}
	if !any {
		p[0] = 1
	}
	return p
}

func genHashes(rt *rapid.T, k int, label string) []string {
	if k > len(hashPool) {
		k = len(hashPool)
	}
	seen := map[string]bool{}
	var out []string
	for len(out) < k {
		var h string
		if rapid.IntRange(0, 9).Draw(rt, label+"-rnd") == 0 {
			h = string(rapid.SliceOfN(rapid.Byte(), 1, 32).Draw(rt, label+"-bytes"))
		} else {
			h = hashPool[rapid.IntRange(0, len(hashPool)-1).Draw(rt, label+"-pool")]
		}
		if seen[h] {
			// deterministic fallback: next unused pool entry
			for _, c := range hashPool {
				if !seen[c] {
					h = c
					break
				}
			}
		}
		seen[h] = true
		out = append(out, h)
	}
	return out
}

// greedy maximal set below a third of the total, scanning validators in the
// order selected by seed (or index order).
func belowThirdSet(powers []uint64, order []int) uint16 {
	total := new(big.Int)
	for _, x := range powers {
		total.Add(total, new(big.Int).SetUint64(x))
	}
	var mask uint16
	acc := new(big.Int)
	for _, i := range order {
		nx := new(big.Int).Add(acc, new(big.Int).SetUint64(powers[i]))
		if new(big.Int).Mul(big.NewInt(3), nx).Cmp(total) < 0 {
			acc = nx
			mask |= 1 << uint(i)
		}
	}
	return mask
}

var FamModes = []string{"partition", "one-equivocator", "one-equivocator", "many-equivocators", "all-sign-all", "restricted", "restricted", "restricted"}

func genTargets(rt *rapid.T, powers []uint64, mode string, label string) []Target {
	n := len(powers)
	nmask := uint16(1)<<uint(n) - 1
	lo := 0
	if mode != "partition" {
		lo = 2
	}
	k := rapid.IntRange(lo, 6).Draw(rt, label+"-ntargets")
	if k == 0 {
		return nil
	}
	hs := genHashes(rt, k, label)
	ts := make([]Target, len(hs))
	for i, h := range hs {
		ts[i].Hash = hex.EncodeToString([]byte(h))
	}
	k = len(ts)
	partition := func() {
		for v := 0; v < n; v++ {
			c := rapid.IntRange(-1, k-1).Draw(rt, label+"-choice")
			if c >= 0 {
				ts[c].Signers |= 1 << uint(v)
			}
		}
	}
	switch mode {
	case "partition":
		partition()
	case "one-equivocator":
		partition()
		e := rapid.IntRange(0, n-1).Draw(rt, label+"-equivocator")
		extra := rapid.IntRange(2, k).Draw(rt, label+"-extra")
		start := rapid.IntRange(0, k-1).Draw(rt, label+"-start")
		for j := 0; j < extra; j++ {
			ts[(start+j)%k].Signers |= 1 << uint(e)
		}
	case "many-equivocators":
		for i := range ts {
			ts[i].Signers = rapid.Uint16Range(0, nmask).Draw(rt, label+"-mask")
		}
		// make sure at least one validator is in two targets
		e := rapid.IntRange(0, n-1).Draw(rt, label+"-equivocator")
		ts[0].Signers |= 1 << uint(e)
		ts[1].Signers |= 1 << uint(e)
	case "all-sign-all":
		for i := range ts {
			ts[i].Signers = nmask
		}
	case "restricted":
		var order []int
		if rapid.Bool().Draw(rt, label+"-indexorder") {
			for i := 0; i < n; i++ {
				order = append(order, i)
			}
		} else {
			order = Perm(n, rapid.Uint32().Draw(rt, label+"-forder"))
		}
		f := belowThirdSet(powers, order)
		all := rapid.IntRange(0, 2).Draw(rt, label+"-fall") != 0
		for i := range ts {
			if all {
				ts[i].Signers = f // every member of F signs every target
			} else {
				ts[i].Signers = f & rapid.Uint16Range(0, nmask).Draw(rt, label+"-mask")
			}
		}
	}
	return ts
}

func grow(rt *rapid.T, base []Target, nmask uint16, label string) []Target {
	out := append([]Target(nil), base...)
	for i := range out {
		if rapid.Bool().Draw(rt, label+"-growbit") {
			out[i].Signers |= rapid.Uint16Range(0, nmask).Draw(rt, label+"-growmask")
		}
	}
	if rapid.Bool().Draw(rt, label+"-growtarget") {
		h := hashPool[rapid.IntRange(0, len(hashPool)-1).Draw(rt, label+"-growhash")]
		out = append(out, Target{Hash: hex.EncodeToString([]byte(h)), Signers: rapid.Uint16Range(0, nmask).Draw(rt, label+"-growmask2")})
	}
	return out
}

var opWeights = []int{OpSetAvail, OpSetPrevotes, OpSetPrevotes, OpSetPrecommits, OpSetPrecommits, OpSetBoth, OpSetBoth, OpSetBoth, OpReset, OpResetSameHeight, OpCloneProbe, OpCloneProbe}

// Gen draws one case; every random choice is a rapid draw.
func Gen(rt *rapid.T) Case {
	var c Case
	n := rapid.IntRange(1, MaxVals).Draw(rt, "n")
	if rapid.IntRange(0, 4).Draw(rt, "n4") == 4 {
		n = 4 // the classic 3f+1
	}
	c.Profile = rapid.SampledFrom(Profiles).Draw(rt, "profile")
	c.Powers = genPowers(rt, n, c.Profile)
	nmask := uint16(1)<<uint(n) - 1
	c.Real = rapid.IntRange(0, 15).Draw(rt, "real") == 15

	nf := rapid.IntRange(1, 3).Draw(rt, "nfams")
	for i := 0; i < nf; i++ {
		var f Family
		if i > 0 && rapid.Bool().Draw(rt, "grow") {
			f.Prevotes = grow(rt, c.Fams[i-1].Prevotes, nmask, "gpv")
			f.Precommits = grow(rt, c.Fams[i-1].Precommits, nmask, "gpc")
		} else {
			m1 := rapid.SampledFrom(FamModes).Draw(rt, "pvmode")
			m2 := m1
			if rapid.IntRange(0, 2).Draw(rt, "samemode") == 0 {
				m2 = rapid.SampledFrom(FamModes).Draw(rt, "pcmode")
			}
			f.Prevotes = genTargets(rt, c.Powers, m1, "pv")
			f.Precommits = genTargets(rt, c.Powers, m2, "pc")
		}
		c.Fams = append(c.Fams, f)
	}

	if rapid.IntRange(0, 3).Draw(rt, "prologue") != 0 {
		c.Ops = append(c.Ops, Op{Kind: OpSetAvail}, Op{Kind: OpSetBoth, Fam: 0, Perm: rapid.Uint32().Draw(rt, "perm0"), Reps: rapid.IntRange(1, 4).Draw(rt, "reps0")})
	}
	nops := rapid.IntRange(0, 6).Draw(rt, "nops")
	for i := 0; i < nops; i++ {
		c.Ops = append(c.Ops, Op{
			Kind: rapid.SampledFrom(opWeights).Draw(rt, "opkind"),
			Fam:  rapid.IntRange(0, nf-1).Draw(rt, "opfam"),
			Perm: rapid.Uint32().Draw(rt, "perm"),
			Reps: rapid.IntRange(1, 4).Draw(rt, "reps"),
		})
	}
	if len(c.Ops) == 0 {
		c.Ops = []Op{{Kind: OpSetAvail}, {Kind: OpSetBoth, Reps: 2}}
	}
	return c
}
