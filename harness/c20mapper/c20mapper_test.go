package tmconsensus_test

import (
	"context"
	"fmt"
	"strings"
	"testing"

	"github.com/gordian-engine/gordian/gexchange"
	"github.com/gordian-engine/gordian/internal/zzverif/vk"
	"github.com/gordian-engine/gordian/tm/tmconsensus"
)

// C20 (feedback-mapper part): the two shipped mappers are the "local consensus
// handler" a node plugs into its p2p connection, so what they answer decides
// what is relayed. The domain is finite (2 mappers x 3 methods x the declared
// result values), so the test is an exhaustive loop.
//
// The oracle is the doc comments of feedbackmapper.go and handler.go:
//   - AcceptAllValidFeedbackMapper: "accepting any valid input, even if the
//     input was already known";
//   - DropDuplicateFeedbackMapper: "ignores proposed block messages if we
//     already have the proposed block and ignores vote messages if they do not
//     increase existing vote knowledge";
//   - a result that says the message is invalid (Bad*, Empty, unrecognised or
//     missing signer) or that its signatures were not verified is never
//     answered with Accepted (an accepted message is relayed);
//   - a result that says the message was valid and new is Accepted;
//   - prevote and precommit proofs share one result type and one meaning, so
//     both methods map every value alike.

type c20mStub struct {
	ph   tmconsensus.HandleProposedHeaderResult
	vote tmconsensus.HandleVoteProofsResult
}

func (h c20mStub) HandleProposedHeader(context.Context, tmconsensus.ProposedHeader) tmconsensus.HandleProposedHeaderResult {
	return h.ph
}
func (h c20mStub) HandlePrevoteProofs(context.Context, tmconsensus.PrevoteSparseProof) tmconsensus.HandleVoteProofsResult {
	return h.vote
}
func (h c20mStub) HandlePrecommitProofs(context.Context, tmconsensus.PrecommitSparseProof) tmconsensus.HandleVoteProofsResult {
	return h.vote
}

type c20mCase struct {
	Mapper string `json:"mapper"` // AcceptAllValid | DropDuplicate
	Method string `json:"method"` // ProposedHeader | PrevoteProofs | PrecommitProofs
	Value  uint8  `json:"value"`
}

// what the result says about the message
const (
	c20mNew        = "valid-and-new"
	c20mKnown      = "valid-already-known"
	c20mInvalid    = "invalid"
	c20mUnverified = "not-verified"
	c20mOther      = "other" // too old, too far in the future: nothing demanded beyond "defined"
)

var c20mPH = map[tmconsensus.HandleProposedHeaderResult]string{
	tmconsensus.HandleProposedHeaderAccepted:                       c20mNew,
	tmconsensus.HandleProposedHeaderAlreadyStored:                  c20mKnown,
	tmconsensus.HandleProposedHeaderSignerUnrecognized:             c20mInvalid,
	tmconsensus.HandleProposedHeaderBadBlockHash:                   c20mInvalid,
	tmconsensus.HandleProposedHeaderBadSignature:                   c20mInvalid,
	tmconsensus.HandleProposedHeaderMissingProposerPubKey:          c20mInvalid,
	tmconsensus.HandleProposedHeaderBadPrevCommitProofPubKeyHash:   c20mInvalid,
	tmconsensus.HandleProposedHeaderBadPrevCommitProofSignature:    c20mInvalid,
	tmconsensus.HandleProposedHeaderBadPrevCommitProofDoubleSigned: c20mInvalid,
	tmconsensus.HandleProposedHeaderBadPrevCommitVoteCount:         c20mInvalid,
	tmconsensus.HandleProposedHeaderRoundTooOld:                    c20mOther,
	tmconsensus.HandleProposedHeaderRoundTooFarInFuture:            c20mOther,
	tmconsensus.HandleProposedHeaderInternalError:                  c20mUnverified,
}

var c20mVote = map[tmconsensus.HandleVoteProofsResult]string{
	tmconsensus.HandleVoteProofsAccepted:         c20mNew,
	tmconsensus.HandleVoteProofsFutureVerified:   c20mNew,
	tmconsensus.HandleVoteProofsNoNewSignatures:  c20mKnown,
	tmconsensus.HandleVoteProofsEmpty:            c20mInvalid,
	tmconsensus.HandleVoteProofsBadPubKeyHash:    c20mInvalid,
	tmconsensus.HandleVoteProofsBadSignature:     c20mInvalid,
	tmconsensus.HandleVoteProofsRoundTooOld:      c20mOther,
	tmconsensus.HandleVoteProofsFutureUnverified: c20mUnverified,
	tmconsensus.HandleVoteProofsInternalError:    c20mUnverified,
}

func c20mRun(c c20mCase) (fb gexchange.Feedback, panicked string) {
	defer func() {
		if r := recover(); r != nil {
			panicked = fmt.Sprint(r)
		}
	}()
	stub := c20mStub{ph: tmconsensus.HandleProposedHeaderResult(c.Value), vote: tmconsensus.HandleVoteProofsResult(c.Value)}
	var h tmconsensus.ConsensusHandler
	if c.Mapper == "AcceptAllValid" {
		h = tmconsensus.AcceptAllValidFeedbackMapper{Handler: stub}
	} else {
		h = tmconsensus.DropDuplicateFeedbackMapper{Handler: stub}
	}
	ctx := context.Background()
	switch c.Method {
	case "ProposedHeader":
		fb = h.HandleProposedHeader(ctx, tmconsensus.ProposedHeader{})
	case "PrevoteProofs":
		fb = h.HandlePrevoteProofs(ctx, tmconsensus.PrevoteSparseProof{})
	default:
		fb = h.HandlePrecommitProofs(ctx, tmconsensus.PrecommitSparseProof{})
	}
	return fb, ""
}

func c20mMeaning(c c20mCase) (name, meaning string, declared bool) {
	if c.Method == "ProposedHeader" {
		v := tmconsensus.HandleProposedHeaderResult(c.Value)
		meaning, declared = c20mPH[v]
		return v.String(), meaning, declared
	}
	v := tmconsensus.HandleVoteProofsResult(c.Value)
	meaning, declared = c20mVote[v]
	return v.String(), meaning, declared
}

// c20mCheck evaluates the oracle for one triple; clause == "" when it holds.
func c20mCheck(c c20mCase) (clause, detail, class string) {
	name, meaning, declared := c20mMeaning(c)
	if !declared {
		return "", "", "undeclared-value"
	}
	fb, p := c20mRun(c)
	if p != "" {
		// a panic on a declared value is C09's subject; nothing is relayed by a panic
		return "", "", meaning + ":panics"
	}
	who := fmt.Sprintf("%sFeedbackMapper.Handle%s(%s)", c.Mapper, c.Method, name)
	class = meaning + ":" + fb.String()
	switch meaning {
	case c20mInvalid, c20mUnverified:
		if fb == gexchange.FeedbackAccepted {
			return "relays-what-was-not-accepted", who + " answers Accepted: the message would be relayed although the engine reported it as " + meaning, class
		}
	case c20mNew:
		if fb != gexchange.FeedbackAccepted {
			return "valid-new-message-not-accepted", who + " answers " + fb.String() + " for a message the engine verified and found new", class
		}
	case c20mKnown:
		if c.Mapper == "DropDuplicate" && fb == gexchange.FeedbackAccepted {
			return "duplicate-relayed", who + " answers Accepted although this mapper is documented to ignore messages that add nothing (the duplicate would be relayed)", class
		}
		if c.Mapper == "AcceptAllValid" && fb != gexchange.FeedbackAccepted {
			return "known-valid-not-accepted", who + " answers " + fb.String() + " although this mapper is documented to accept valid input even if already known", class
		}
	}
	if c.Method != "ProposedHeader" {
		// one result type, one meaning: both vote kinds are mapped alike
		o := c
		if c.Method == "PrevoteProofs" {
			o.Method = "PrecommitProofs"
		} else {
			o.Method = "PrevoteProofs"
		}
		if ofb, op := c20mRun(o); op == "" && ofb != fb {
			return "vote-kinds-mapped-differently", fmt.Sprintf("%s answers %s, the same mapper's Handle%s answers %s for the same result", who, fb, o.Method, ofb), class
		}
	}
	return "", "", class
}

const c20mRule = "exhaustive: {AcceptAllValid,DropDuplicate} x {ProposedHeader,PrevoteProofs,PrecommitProofs} x every uint8 result value; non-trivial = the value is a declared result constant; distinct = distinct triple"

func TestVerifC20MapperSemantics(t *testing.T) {
	st := vk.NewStats("C20", "TestVerifC20MapperSemantics", c20mRule)
	defer st.Flush()

	var c c20mCase
	if ok, err := vk.LoadReplay("C20", "TestVerifC20MapperSemantics", &c); err != nil {
		t.Fatal(err)
	} else if ok {
		if cl, d, _ := c20mCheck(c); cl != "" {
			st.Fail(t, c, "", cl, "%s", d)
		}
		return
	} else if vk.Replaying() {
		t.Skip("replay file is for another test")
	}

	// Harness self-check: every value with a name in the stringer tables has a meaning here.
	for v := 0; v < 256; v++ {
		ph := tmconsensus.HandleProposedHeaderResult(v)
		if _, ok := c20mPH[ph]; ok == strings.HasPrefix(ph.String(), "HandleProposedHeaderResult(") {
			t.Fatalf("harness: HandleProposedHeaderResult(%d)=%q and the harness table disagree; update c20mPH", v, ph.String())
		}
		vr := tmconsensus.HandleVoteProofsResult(v)
		if _, ok := c20mVote[vr]; ok == strings.HasPrefix(vr.String(), "HandleVoteProofsResult(") {
			t.Fatalf("harness: HandleVoteProofsResult(%d)=%q and the harness table disagree; update c20mVote", v, vr.String())
		}
	}

	type bad struct {
		c              c20mCase
		clause, detail string
	}
	var bads []bad
	for _, mapper := range []string{"AcceptAllValid", "DropDuplicate"} {
		for _, method := range []string{"ProposedHeader", "PrevoteProofs", "PrecommitProofs"} {
			for v := 0; v < 256; v++ {
				c := c20mCase{Mapper: mapper, Method: method, Value: uint8(v)}
				cl, d, class := c20mCheck(c)
				nt := class != "undeclared-value"
				st.Case(nt, vk.FP(c), class, mapper+"/"+method)
				if nt && st.WantSample() {
					st.Sample(map[string]any{"case": c, "class": class})
				}
				if cl != "" {
					bads = append(bads, bad{c, cl, d})
				}
			}
		}
	}
	if len(bads) > 0 {
		var all []string
		for _, b := range bads {
			all = append(all, b.detail)
		}
		st.Fail(t, bads[0].c, "", bads[0].clause, "%d of the (mapper, method, result) triples fail; the first is the recorded case:\n%s", len(bads), strings.Join(all, "\n"))
	}
}
