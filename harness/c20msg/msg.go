// Package c20msg builds the consensus messages used by the C20 harnesses
// (table, daisy chain, libp2p line). It is injected by build overlay as
// github.com/gordian-engine/gordian/internal/zzverif/c20msg and is never
// part of the repository.
//
// Every message carries a caller-chosen identifier in its Height field, so a
// recording handler or a pubsub tracer can tell which generated message it is
// looking at without trusting any code under test.
package c20msg

import (
	"context"
	"fmt"
	"sync"

	"github.com/gordian-engine/gordian/gcrypto"
	"github.com/gordian-engine/gordian/gexchange"
	"github.com/gordian-engine/gordian/tm/tmcodec"
	"github.com/gordian-engine/gordian/tm/tmcodec/tmjson"
	"github.com/gordian-engine/gordian/tm/tmconsensus"
	"github.com/gordian-engine/gordian/tm/tmconsensus/tmconsensustest"
)

const (
	KindPH        = 0
	KindPrevote   = 1
	KindPrecommit = 2
	NKinds        = 3
)

func KindName(k uint8) string {
	switch k % NKinds {
	case KindPH:
		return "ph"
	case KindPrevote:
		return "prevote"
	default:
		return "precommit"
	}
}

// Spec is the generated content of one message (plain data).
type Spec struct {
	Kind  uint8  `json:"k"` // mod 3: proposed header, prevote proof, precommit proof
	Round uint32 `json:"r"`
	Salt  uint8  `json:"s"` // varies data id / block hashes / signature bytes
	NSig  uint8  `json:"n"` // mod 4 (+1): validators in the header, signatures in a proof
}

var (
	fxMu sync.Mutex
	fxs  = map[int]*tmconsensustest.Fixture{}
	tpls = map[int]tmconsensus.ProposedHeader{}
)

func fixture(n int) (*tmconsensustest.Fixture, tmconsensus.ProposedHeader) {
	fxMu.Lock()
	defer fxMu.Unlock()
	if fx, ok := fxs[n]; ok {
		return fx, tpls[n]
	}
	fx := tmconsensustest.NewEd25519Fixture(n)
	ph := fx.NextProposedHeader([]byte("c20"), 0)
	fx.SignProposal(context.Background(), &ph, 0)
	fxs[n] = fx
	tpls[n] = ph
	return fx, ph
}

// Codec is the codec the libp2p connections of the harness use.
func Codec() tmcodec.MarshalCodec {
	reg := new(gcrypto.Registry)
	gcrypto.RegisterEd25519(reg)
	return tmjson.MarshalCodec{CryptoRegistry: reg}
}

func PH(id uint64, s Spec) tmconsensus.ProposedHeader {
	_, ph := fixture(int(s.NSig%4) + 1)
	ph.Header.Height = id
	ph.Round = s.Round
	ph.Header.DataID = []byte(fmt.Sprintf("data-%d-%d", id, s.Salt))
	ph.Header.Hash = []byte(fmt.Sprintf("hash-%d-%d-0123456789abcdef", id, s.Salt))
	ph.Signature = []byte(fmt.Sprintf("sig-%d-%d", id, s.Salt))
	return ph
}

func proofs(id uint64, s Spec) (string, map[string][]gcrypto.SparseSignature) {
	n := int(s.NSig%4) + 1
	m := map[string][]gcrypto.SparseSignature{}
	for i := 0; i < n; i++ {
		bh := ""
		if (int(s.Salt)+i)%3 != 0 {
			bh = fmt.Sprintf("block-%d-%d", s.Salt, i%2)
		}
		m[bh] = append(m[bh], gcrypto.SparseSignature{
			KeyID: []byte{byte(i), byte(i >> 8)},
			Sig:   []byte(fmt.Sprintf("sig-%d-%d-%d", id, s.Salt, i)),
		})
	}
	return fmt.Sprintf("pubkeyhash-%d", s.Salt%5), m
}

func Prevote(id uint64, s Spec) tmconsensus.PrevoteSparseProof {
	pkh, m := proofs(id, s)
	return tmconsensus.PrevoteSparseProof{Height: id, Round: s.Round, PubKeyHash: pkh, Proofs: m}
}

func Precommit(id uint64, s Spec) tmconsensus.PrecommitSparseProof {
	pkh, m := proofs(id, s)
	return tmconsensus.PrecommitSparseProof{Height: id, Round: s.Round, PubKeyHash: pkh, Proofs: m}
}

// Message returns the consensus message for (id, s).
func Message(id uint64, s Spec) tmcodec.ConsensusMessage {
	switch s.Kind % NKinds {
	case KindPH:
		ph := PH(id, s)
		return tmcodec.ConsensusMessage{ProposedHeader: &ph}
	case KindPrevote:
		p := Prevote(id, s)
		return tmcodec.ConsensusMessage{PrevoteProof: &p}
	default:
		p := Precommit(id, s)
		return tmcodec.ConsensusMessage{PrecommitProof: &p}
	}
}

// Encode returns the wire bytes of (id, s) under c.
func Encode(c tmcodec.MarshalCodec, id uint64, s Spec) ([]byte, error) {
	return c.MarshalConsensusMessage(Message(id, s))
}

// Send puts (id, s) on the matching outgoing channel of a broadcaster.
// It reports false when stop is closed / fires first.
func Send(b interface {
	OutgoingProposedHeaders() chan<- tmconsensus.ProposedHeader
	OutgoingPrevoteProofs() chan<- tmconsensus.PrevoteSparseProof
	OutgoingPrecommitProofs() chan<- tmconsensus.PrecommitSparseProof
}, id uint64, s Spec, stop <-chan struct{}) bool {
	switch s.Kind % NKinds {
	case KindPH:
		select {
		case b.OutgoingProposedHeaders() <- PH(id, s):
			return true
		case <-stop:
			return false
		}
	case KindPrevote:
		select {
		case b.OutgoingPrevoteProofs() <- Prevote(id, s):
			return true
		case <-stop:
			return false
		}
	default:
		select {
		case b.OutgoingPrecommitProofs() <- Precommit(id, s):
			return true
		case <-stop:
			return false
		}
	}
}

// Rec is one handler invocation.
type Rec struct {
	Node    int    `json:"node"`
	Handler int    `json:"handler"` // handler instance number (0 = first handler installed)
	Kind    uint8  `json:"kind"`
	ID      uint64 `json:"id"`
	F       uint8  `json:"f"` // feedback value the handler returned
}

// Log is the shared, append-only record of handler invocations.
type Log struct {
	mu   sync.Mutex
	recs []Rec
}

func (l *Log) add(r Rec) {
	l.mu.Lock()
	l.recs = append(l.recs, r)
	l.mu.Unlock()
}

func (l *Log) Snapshot() []Rec {
	l.mu.Lock()
	defer l.mu.Unlock()
	return append([]Rec(nil), l.recs...)
}

func (l *Log) Len() int {
	l.mu.Lock()
	defer l.mu.Unlock()
	return len(l.recs)
}

// Handler is a recording tmconsensus.ConsensusHandler. Its verdict for a
// message is Verdict(kind, id); it records the invocation BEFORE returning,
// so any relay caused by the return value happens after the record exists.
type Handler struct {
	Node, Inst int
	Log        *Log
	Verdict    func(kind uint8, id uint64) uint8
	// Keep makes the handler retain the most recent argument of each method in
	// Last* (table harness only; single goroutine).
	Keep          bool
	LastPH        *tmconsensus.ProposedHeader
	LastPrevote   *tmconsensus.PrevoteSparseProof
	LastPrecommit *tmconsensus.PrecommitSparseProof
}

func (h *Handler) HandleProposedHeader(_ context.Context, ph tmconsensus.ProposedHeader) gexchange.Feedback {
	f := h.Verdict(KindPH, ph.Header.Height)
	if h.Keep {
		h.LastPH = &ph
	}
	h.Log.add(Rec{Node: h.Node, Handler: h.Inst, Kind: KindPH, ID: ph.Header.Height, F: f})
	return gexchange.Feedback(f)
}

func (h *Handler) HandlePrevoteProofs(_ context.Context, p tmconsensus.PrevoteSparseProof) gexchange.Feedback {
	f := h.Verdict(KindPrevote, p.Height)
	if h.Keep {
		h.LastPrevote = &p
	}
	h.Log.add(Rec{Node: h.Node, Handler: h.Inst, Kind: KindPrevote, ID: p.Height, F: f})
	return gexchange.Feedback(f)
}

func (h *Handler) HandlePrecommitProofs(_ context.Context, p tmconsensus.PrecommitSparseProof) gexchange.Feedback {
	f := h.Verdict(KindPrecommit, p.Height)
	if h.Keep {
		h.LastPrecommit = &p
	}
	h.Log.add(Rec{Node: h.Node, Handler: h.Inst, Kind: KindPrecommit, ID: p.Height, F: f})
	return gexchange.Feedback(f)
}

// Accepted is the numeric value of gexchange.FeedbackAccepted, spelled out so
// that the oracle does not depend on the constant staying where it is: the
// statement of the property names "accepted", and the exported constant is the
// contract between handler and connection.
const Accepted = uint8(gexchange.FeedbackAccepted)
