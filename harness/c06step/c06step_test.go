package tsi_test

import (
	"fmt"
	"math/big"
	"testing"

	"github.com/gordian-engine/gordian/internal/zzverif/c06kit"
	"github.com/gordian-engine/gordian/internal/zzverif/vk"
	"github.com/gordian-engine/gordian/tm/tmconsensus"
	"github.com/gordian-engine/gordian/tm/tmengine/internal/tmstate/internal/tsi"
	"pgregory.net/rapid"
)

// C06 (direct half, consequence at the state machine's entry point): the step
// tsi.GetStepFromVoteSummary derives from a summary filled by the real setters
// must be the step that the documented rule yields on the numbers recomputed
// from the signer sets (each validator once). In particular signers holding
// less than a third of the power leave the machine in StepAwaitingProposal:
// no delay timer, no precommit wait, no commit wait.

const c06StepRule = "same generator as TestVerifC06Direct (validator sets n in [1,12], vote families incl. equivocation and signers restricted below one third); every family of the case is loaded into a fresh VoteSummary with SetAvailablePower+SetVotePowers and classified by GetStepFromVoteSummary; non-trivial = some validator signs >= 2 targets of the same kind in the family; distinct = distinct (powers, family)"

func c06MaxBlock(r c06kit.KindRef) *big.Int {
	max := new(big.Int)
	for _, p := range r.Block {
		if p.Cmp(max) > 0 {
			max = p
		}
	}
	return max
}

// c06RefStep applies the rule documented on GetStepFromVoteSummary to the
// recomputed numbers, with thirds decided in math/big.
func c06RefStep(w *c06kit.World, pv, pc c06kit.KindRef) tsi.Step {
	if w.AboveTwoThirds(pc.Total) {
		if w.AboveTwoThirds(c06MaxBlock(pc)) {
			return tsi.StepCommitWait
		}
		return tsi.StepPrecommitDelay
	}
	if w.ReachesThird(pc.Total) {
		return tsi.StepAwaitingPrecommits
	}
	if w.AboveTwoThirds(pv.Total) {
		if w.AboveTwoThirds(c06MaxBlock(pv)) {
			return tsi.StepAwaitingPrecommits
		}
		return tsi.StepPrevoteDelay
	}
	return tsi.StepAwaitingProposal
}

type c06StepFP struct {
	P []uint64
	F []c06kit.Family
}

func c06StepRun(t vk.TB, st *vk.Stats, c c06kit.Case) {
	w := c06kit.Resolve(c)
	if st.WantSample() {
		st.Sample(c)
	}
	// one Case() per case; the family loop adds labels
	nontrivial := false
	for fi := range w.Fams {
		for k := 0; k < 2; k++ {
			if mt, _ := w.Fams[fi].Equivocation(k, w.N); mt >= 2 {
				nontrivial = true
			}
		}
	}
	lab := "proof=stand-in"
	if w.Real {
		lab = "proof=real-ed25519"
	}
	st.Case(nontrivial, vk.FP(c06StepFP{w.Powers, c.Fams}), "profile="+c.Profile, lab)
	st.Guard(t, c, func() {
		for fi := range w.Fams {
			f := &w.Fams[fi]
			pv, pc := w.KindOracle(f, 0), w.KindOracle(f, 1)
			want := c06RefStep(w, pv, pc)
			below := w.BelowThird(pv.Total) && w.BelowThird(pc.Total) && (pv.Union|pc.Union) != 0
			mtv, _ := f.Equivocation(0, w.N)
			mtc, _ := f.Equivocation(1, w.N)
			st.Label("family:expected=" + want.String())
			if below {
				st.Label("family:signers-below-third")
				if mtv >= 2 || mtc >= 2 {
					st.Label("family:signers-below-third+equivocation")
				}
			}
			for rep := 0; rep < 2; rep++ {
				vs := tmconsensus.NewVoteSummary()
				vs.SetAvailablePower(w.Vals)
				vs.SetVotePowers(w.Vals, w.ProofMap(f, 0, uint32(fi*7+rep)), w.ProofMap(f, 1, uint32(fi*13+rep*5)))
				got := tsi.GetStepFromVoteSummary(vs)
				if got == want {
					continue
				}
				detail := fmt.Sprintf("family %d: GetStepFromVoteSummary=%s; the rule on the recomputed numbers gives %s (total %s; prevotes: union %#x power %s, best target %s; precommits: union %#x power %s, best target %s; reported TotalPrevotePower=%d TotalPrecommitPower=%d AvailablePower=%d)",
					fi, got, want, w.Total, pv.Union, pv.Total, c06MaxBlock(pv), pc.Union, pc.Total, c06MaxBlock(pc), vs.TotalPrevotePower, vs.TotalPrecommitPower, vs.AvailablePower)
				if below {
					st.Fail(t, c, "", "consequence-step", "signers below one third moved the step: %s", detail)
				}
				st.Fail(t, c, "", "step-from-summary", "%s", detail)
			}
		}
	})
}

func TestVerifC06Step(t *testing.T) {
	st := vk.NewStats("C06", "TestVerifC06Step", c06StepRule)
	defer st.Flush()
	var c c06kit.Case
	if ok, err := vk.LoadReplay("C06", "TestVerifC06Step", &c); err != nil {
		t.Fatal(err)
	} else if ok {
		c06StepRun(t, st, c)
		return
	} else if vk.Replaying() {
		t.Skip("replay file is for another test")
	}
	rapid.Check(t, func(rt *rapid.T) {
		c06StepRun(rt, st, c06kit.Gen(rt))
	})
	if !t.Failed() && st.Evals >= 3000 {
		fam := int64(0)
		for _, s := range []tsi.Step{tsi.StepAwaitingProposal, tsi.StepPrevoteDelay, tsi.StepAwaitingPrecommits, tsi.StepPrecommitDelay, tsi.StepCommitWait} {
			n := st.Labels["family:expected="+s.String()]
			fam += n
			if n == 0 {
				t.Fatalf("VERIF-FAIL property=C06 test=TestVerifC06Step clause=\"harness\": no family with expected step %s", s)
			}
		}
		if b := st.Labels["family:signers-below-third+equivocation"]; b*20 < fam {
			t.Fatalf("VERIF-FAIL property=C06 test=TestVerifC06Step clause=\"harness\": only %d of %d families have equivocating signers below one third", b, fam)
		}
	}
}
