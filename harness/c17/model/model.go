// Package c17model is the generator-side model for property C17.
//
// It is injected (build overlay) as
// github.com/gordian-engine/gordian/internal/zzverif/c17model and shared by
//   - the C17 check proper (tm/tmgossip, external test package), which feeds the
//     NetworkViewUpdates produced here to a real ChattyStrategy, and
//   - the generator-soundness check (tm/tmengine/internal/tmmirror), which drives
//     a real Mirror with the very same operations and demands that the real
//     kernel emits the same updates as this model.
//
// The model is a sequential re-statement of the gossip-facing part of the
// mirror kernel (tmi/kernel.go, kstate.go, gossipviewmanager.go): one Op is one
// kernel event (a proposed header or a vote message accepted by the mirror) or
// one receive by the gossip strategy ("read"). Vote powers are computed with
// the repository's own tmconsensus.VoteSummary so that view shifts happen
// exactly when the kernel makes them. Nothing of tm/tmgossip is used here.
package c17model

import (
	"bytes"
	"context"
	"encoding/binary"
	"fmt"
	"sort"
	"strings"
	"sync"

	"github.com/bits-and-blooms/bitset"
	"github.com/gordian-engine/gordian/gcrypto"
	"github.com/gordian-engine/gordian/tm/tmconsensus"
	"github.com/gordian-engine/gordian/tm/tmconsensus/tmconsensustest"
	"github.com/gordian-engine/gordian/tm/tmengine/tmelink"
)

// ---------------------------------------------------------------------------
// Case data

// ND is the number of canonical block candidates per (height, round).
const ND = 2

// MaxN is the largest validator count generated.
const MaxN = 6

// Slot selectors of an Op.
const (
	SlotVoting     = 0
	SlotNextRound  = 1
	SlotCommitting = 2
)

// Tgt is one vote target inside a vote message.
type Tgt struct {
	// B selects the block: 0 = nil; 1..ND = canonical candidate B-1 of the
	// view's (height, round) (whether or not it was proposed); larger values
	// select proposed header (B-ND-1) mod len(proposals) of the view.
	B int `json:"b"`
	// M is the signer mask; bit i = validator i (bits >= n are ignored).
	M uint `json:"m"`
}

// Op is one step of a case.
//
//	"ph":   a proposed header for the selected view arrives (proposer P, data D,
//	        X = validators whose precommit for the committed block is in the
//	        header's PrevCommitProof in addition to those the node already has).
//	"vote": one prevote (PC=false) or precommit (PC=true) message for the
//	        selected view with one signature list per target.
//	"read": the gossip strategy receives the pending NetworkViewUpdate, if any.
type Op struct {
	K  string `json:"k"`
	V  int    `json:"v,omitempty"`
	P  int    `json:"p,omitempty"`
	D  int    `json:"d,omitempty"`
	X  uint   `json:"x,omitempty"`
	PC bool   `json:"pc,omitempty"`
	T  []Tgt  `json:"t,omitempty"`
}

// Case is a whole generated history.
type Case struct {
	N   int      `json:"n"`
	Pow []uint64 `json:"pow,omitempty"` // per validator power; empty = fixture default (100000-i)
	Ops []Op     `json:"ops"`
}

// Normalize makes any decoded/shrunk case well formed.
func (c *Case) Normalize() {
	if c.N < 1 {
		c.N = 1
	}
	if c.N > MaxN {
		c.N = MaxN
	}
	if len(c.Pow) != 0 {
		p := make([]uint64, c.N)
		for i := range p {
			p[i] = 1
			if i < len(c.Pow) && c.Pow[i] > 0 && c.Pow[i] < 1<<40 {
				p[i] = c.Pow[i]
			}
		}
		c.Pow = p
	}
}

// ---------------------------------------------------------------------------
// Kit: keys, validator set, signature cache (shared by all cases with the same
// validator configuration; everything in it is deterministic).

type Kit struct {
	N      int
	Fx     *tmconsensustest.Fixture
	Vals   []tmconsensus.Validator
	VS     tmconsensus.ValidatorSet
	PKHash string

	mu   sync.Mutex
	sigs map[string][]byte
	phs  map[string]tmconsensus.ProposedHeader
}

var (
	kitMu sync.Mutex
	kits  = map[string]*Kit{}
)

func GetKit(n int, pow []uint64) *Kit {
	key := fmt.Sprint(n, pow)
	kitMu.Lock()
	defer kitMu.Unlock()
	if k, ok := kits[key]; ok {
		return k
	}
	fx := tmconsensustest.NewEd25519Fixture(n)
	for i := range fx.PrivVals {
		if len(pow) == n {
			fx.PrivVals[i].Val.Power = pow[i]
		}
	}
	vs := fx.ValSet()
	k := &Kit{
		N: n, Fx: fx, Vals: vs.Validators, VS: vs, PKHash: string(vs.PubKeyHash),
		sigs: map[string][]byte{}, phs: map[string]tmconsensus.ProposedHeader{},
	}
	kits[key] = k
	return k
}

const (
	KindPrevote   = "prevote"
	KindPrecommit = "precommit"
)

func (k *Kit) signBytes(kind string, h uint64, r uint32, hash string) []byte {
	vt := tmconsensus.VoteTarget{Height: h, Round: r, BlockHash: hash}
	var b []byte
	var err error
	if kind == KindPrevote {
		b, err = tmconsensus.PrevoteSignBytes(vt, k.Fx.SignatureScheme)
	} else {
		b, err = tmconsensus.PrecommitSignBytes(vt, k.Fx.SignatureScheme)
	}
	if err != nil {
		panic(err)
	}
	return b
}

// VoteSig is the harness' own signature of validator i for the vote.
func (k *Kit) VoteSig(kind string, h uint64, r uint32, hash string, i int) []byte {
	key := fmt.Sprintf("%s|%d|%d|%x|%d", kind, h, r, hash, i)
	k.mu.Lock()
	if s, ok := k.sigs[key]; ok {
		k.mu.Unlock()
		return s
	}
	k.mu.Unlock()
	s, err := k.Fx.PrivVals[i].Signer.Sign(context.Background(), k.signBytes(kind, h, r, hash))
	if err != nil {
		panic(err)
	}
	k.mu.Lock()
	k.sigs[key] = s
	k.mu.Unlock()
	return s
}

func KeyID(i int) []byte {
	var b [2]byte
	binary.BigEndian.PutUint16(b[:], uint16(i))
	return b[:]
}

func (k *Kit) sparse(kind string, h uint64, r uint32, hash string, signers []int) []gcrypto.SparseSignature {
	out := make([]gcrypto.SparseSignature, 0, len(signers))
	for _, i := range signers {
		out = append(out, gcrypto.SparseSignature{KeyID: KeyID(i), Sig: k.VoteSig(kind, h, r, hash, i)})
	}
	return out
}

func (k *Kit) newProof(kind string, h uint64, r uint32, hash string) gcrypto.CommonMessageSignatureProof {
	p, err := k.Fx.CommonMessageSignatureProofScheme.New(k.signBytes(kind, h, r, hash), k.VS.PubKeys, k.PKHash)
	if err != nil {
		panic(err)
	}
	return p
}

func maskBits(m uint, n int) []int {
	var out []int
	for i := 0; i < n; i++ {
		if m&(1<<uint(i)) != 0 {
			out = append(out, i)
		}
	}
	return out
}

func proofSigners(p gcrypto.CommonMessageSignatureProof, n int) []int {
	var bs bitset.BitSet
	p.SignatureBitSet(&bs)
	var out []int
	for i, ok := bs.NextSet(0); ok && int(i) < n; i, ok = bs.NextSet(i + 1) {
		out = append(out, int(i))
	}
	return out
}

// ---------------------------------------------------------------------------
// Facts: plain-data description of what a view contains, used by the oracle.

// PHDigest is a canonical rendering of every field of a proposed header.
func PHDigest(ph tmconsensus.ProposedHeader) string {
	var b strings.Builder
	h := ph.Header
	var pk []byte
	if ph.ProposerPubKey != nil {
		pk = ph.ProposerPubKey.PubKeyBytes()
	}
	fmt.Fprintf(&b, "h=%d r=%d hash=%x prev=%x data=%x app=%x vs=%x.%x nvs=%x.%x nv=%d nnv=%d pk=%x sig=%x ann=%x/%x hann=%x/%x pcp=%d/%x[",
		h.Height, ph.Round, h.Hash, h.PrevBlockHash, h.DataID, h.PrevAppStateHash,
		h.ValidatorSet.PubKeyHash, h.ValidatorSet.VotePowerHash,
		h.NextValidatorSet.PubKeyHash, h.NextValidatorSet.VotePowerHash,
		len(h.ValidatorSet.Validators), len(h.NextValidatorSet.Validators),
		pk, ph.Signature, ph.Annotations.User, ph.Annotations.Driver,
		h.Annotations.User, h.Annotations.Driver,
		h.PrevCommitProof.Round, h.PrevCommitProof.PubKeyHash)
	keys := make([]string, 0, len(h.PrevCommitProof.Proofs))
	for k := range h.PrevCommitProof.Proofs {
		keys = append(keys, k)
	}
	sort.Strings(keys)
	for _, k := range keys {
		fmt.Fprintf(&b, "%x:", k)
		sigs := h.PrevCommitProof.Proofs[k]
		ss := make([]string, len(sigs))
		for i, s := range sigs {
			ss[i] = fmt.Sprintf("%x=%x", s.KeyID, s.Sig)
		}
		sort.Strings(ss)
		b.WriteString(strings.Join(ss, ","))
		b.WriteByte(';')
	}
	b.WriteByte(']')
	return b.String()
}

func PHFact(ph tmconsensus.ProposedHeader) string {
	return "PH|" + PHDigest(ph)
}

func VoteFact(kind string, h uint64, r uint32, hash string, keyID, sig []byte) string {
	return fmt.Sprintf("V|%s|%d|%d|%x|%x|%x", kind, h, r, hash, keyID, sig)
}

// logEntry is one thing the model put into the view of (H,R).
type logEntry struct {
	H    uint64
	R    uint32
	Kind string // "ph" | KindPrevote | KindPrecommit
	Fact string
}

// Expect is what one NetworkViewUpdate obliges / permits the strategy to offer.
type Expect struct {
	// Required: every proposed header and vote signature of the Committing,
	// Voting and NextRound views in the update, and the precommits of the
	// NilVotedRound view.
	Required []string
	// AllowedOnly: proposed headers and prevotes of the NilVotedRound view
	// (contained in a view handed over, but deliberately not re-broadcast).
	AllowedOnly []string
	// Views: "slot h/r" of every view in the update (diagnostics, labels).
	Views []string
}

// ---------------------------------------------------------------------------
// Sim: the kernel model

type VRV = tmconsensus.VersionedRoundView

type outView struct {
	SentH uint64
	SentR uint32
	SentV uint32
	VRV   VRV
}

func (o outView) hasBeenSent() bool {
	return o.SentH == o.VRV.Height && o.SentR == o.VRV.Round && o.SentV == o.VRV.Version
}

type hr struct {
	H uint64
	R uint32
}

// Counters describe what happened in a case (labels, non-triviality).
type Counters struct {
	Events, Reads, Updates, EmptyUpdates, Coalesced int
	PHAccepted, PHDup, VoteAccepted, VoteNoNew      int
	Commits, NilAdvances, Jumps, Backfills, Stuck   int
	Equivocations                                   int // a validator gained a vote of a kind for a second target in one (h,r)
	UnknownHashVotes                                int
	NilVotedSent, NilVotedOverwritten               int
	NilVotedExtra                                   int // nil-voted views handed over carrying proposals/prevotes nobody is obliged to broadcast
	SameCountDiff                                   int // consecutive same-(h,r) views of one slot: union signer count equal, content grew
	EqualSizeDifferentSets                          int // consecutive same-slot views: equal union size, different union sets (across a round/height switch)
	FirstHasCommitting, FirstHasContent             int
	CommittingLateVote, CommittingLatePH            int
	SkippedA5, SkippedFirstNil, SkippedSlot         int
}

type Sim struct {
	K       *Kit
	Initial uint64

	Committing, Voting, NextRound VRV
	CommittingHeader               tmconsensus.Header

	// gossip view manager
	out        [3]outView // indexed by Slot*
	nilVoted   *VRV
	pendingRSC []tmelink.RoundSessionChange
	inGrace    map[hr]struct{}

	genesisHash []byte
	log         []logEntry
	voted       map[string]map[string]bool // kind|h|r|signer -> set of targets
	lastSent    [3]*sentInfo               // per slot: last view handed over (for labels only)
	reads       int
	eventsSince int
	// facts of every view the strategy was obliged to broadcast so far (labels only)
	everRequired []string

	C Counters
}

type sentInfo struct {
	H       uint64
	R       uint32
	PVUnion uint
	PCUnion uint
	PVCount int
	PCCount int
	PVFacts int
	PCFacts int
	PHFacts int
}

// fixMaps makes the vote maps of a cloned view non-nil again
// (RoundView.Clone turns empty maps into nil ones; the kernel's long-lived
// views always have allocated maps).
func fixMaps(v *VRV) {
	if v.PrevoteProofs == nil {
		v.PrevoteProofs = map[string]gcrypto.CommonMessageSignatureProof{}
	}
	if v.PrecommitProofs == nil {
		v.PrecommitProofs = map[string]gcrypto.CommonMessageSignatureProof{}
	}
	if v.VoteSummary.PrevoteBlockPower == nil {
		v.VoteSummary.PrevoteBlockPower = map[string]uint64{}
	}
	if v.VoteSummary.PrecommitBlockPower == nil {
		v.VoteSummary.PrecommitBlockPower = map[string]uint64{}
	}
}

func NewSim(k *Kit) *Sim {
	s := &Sim{K: k, Initial: 1, inGrace: map[hr]struct{}{}, voted: map[string]map[string]bool{},
		genesisHash: []byte("c17-genesis-block-hash-0000000000")}
	empty := tmconsensus.CommitProof{Proofs: map[string][]gcrypto.SparseSignature{}}
	s.Voting = s.newView(1, 0, empty)
	s.markVoting()
	s.NextRound = s.newView(1, 1, empty.Clone())
	s.markNextRound()
	s.activate(1, 0)
	s.activate(1, 1)
	return s
}

func (s *Sim) newView(h uint64, r uint32, pcp tmconsensus.CommitProof) VRV {
	v := VRV{
		RoundView: tmconsensus.RoundView{
			Height: h, Round: r,
			ValidatorSet:    s.K.VS,
			PrevCommitProof: pcp,
			PrevoteProofs:   map[string]gcrypto.CommonMessageSignatureProof{},
			PrecommitProofs: map[string]gcrypto.CommonMessageSignatureProof{},
			VoteSummary:     tmconsensus.NewVoteSummary(),
		},
		PrevoteVersion: 1, PrecommitVersion: 1,
	}
	v.VoteSummary.SetAvailablePower(s.K.Vals)
	return v
}

// clone returns a deep copy good enough for a trial step.
func (s *Sim) clone() *Sim {
	t := *s
	t.Committing = s.Committing.Clone()
	t.Voting = s.Voting.Clone()
	t.NextRound = s.NextRound.Clone()
	fixMaps(&t.Committing)
	fixMaps(&t.Voting)
	fixMaps(&t.NextRound)
	for i := range t.out {
		t.out[i].VRV = s.out[i].VRV.Clone()
	}
	if s.nilVoted != nil {
		c := s.nilVoted.Clone()
		t.nilVoted = &c
	}
	t.pendingRSC = append([]tmelink.RoundSessionChange(nil), s.pendingRSC...)
	t.inGrace = make(map[hr]struct{}, len(s.inGrace))
	for k := range s.inGrace {
		t.inGrace[k] = struct{}{}
	}
	t.log = append([]logEntry(nil), s.log...)
	t.voted = make(map[string]map[string]bool, len(s.voted))
	for k, m := range s.voted {
		mm := make(map[string]bool, len(m))
		for x := range m {
			mm[x] = true
		}
		t.voted[k] = mm
	}
	return &t
}

func (s *Sim) view(slot int) *VRV {
	switch slot {
	case SlotVoting:
		return &s.Voting
	case SlotNextRound:
		return &s.NextRound
	default:
		return &s.Committing
	}
}

func (s *Sim) markCommitting() {
	s.Committing.Version++
	s.out[SlotCommitting].VRV = s.Committing.Clone()
}
func (s *Sim) markVoting() {
	s.Voting.Version++
	s.out[SlotVoting].VRV = s.Voting.Clone()
}
func (s *Sim) markNextRound() {
	s.NextRound.Version++
	s.out[SlotNextRound].VRV = s.NextRound.Clone()
}
func (s *Sim) mark(slot int) {
	switch slot {
	case SlotVoting:
		s.markVoting()
	case SlotNextRound:
		s.markNextRound()
	default:
		s.markCommitting()
	}
}

func (s *Sim) grace(h uint64, r uint32) {
	s.pendingRSC = append(s.pendingRSC, tmelink.RoundSessionChange{Height: h, Round: r, State: tmelink.RoundSessionStateGrace})
	s.inGrace[hr{h, r}] = struct{}{}
}
func (s *Sim) activate(h uint64, r uint32) {
	s.pendingRSC = append(s.pendingRSC, tmelink.RoundSessionChange{Height: h, Round: r, State: tmelink.RoundSessionStateActive})
}
func (s *Sim) expire(h uint64, r uint32) {
	s.pendingRSC = append(s.pendingRSC, tmelink.RoundSessionChange{Height: h, Round: r, State: tmelink.RoundSessionStateExpired})
}

// ---------------------------------------------------------------------------
// Steps

// Outcome of one op.
type Outcome struct {
	Skipped string // non-empty: the op was not executed (reason)
	Result  string // "accepted" | "dup" | "nonew" | "read" | "noread"
	Update  *tmelink.NetworkViewUpdate
	Expect  *Expect
	// Message is what a peer would send to make the node take this step
	// (used by the mirror conformance test).
	PH        *tmconsensus.ProposedHeader
	Prevote   *tmconsensus.PrevoteSparseProof
	Precommit *tmconsensus.PrecommitSparseProof
}

// Step executes one op.
func (s *Sim) Step(op Op) Outcome {
	switch op.K {
	case "read":
		return s.read()
	case "ph", "vote":
		slot := ((op.V % 3) + 3) % 3
		if slot == SlotCommitting && s.Committing.Height == 0 {
			s.C.SkippedSlot++
			return Outcome{Skipped: "no committing view yet"}
		}
		t := s.clone()
		var out Outcome
		var forbidden string
		if op.K == "ph" {
			out, forbidden = t.applyPH(slot, op)
		} else {
			out, forbidden = t.applyVote(slot, op)
		}
		if forbidden != "" {
			switch forbidden {
			case "A5":
				s.C.SkippedA5++
			case "first-nil":
				s.C.SkippedFirstNil++
			default:
				s.C.SkippedSlot++
			}
			return Outcome{Skipped: forbidden}
		}
		*s = *t
		if out.Result == "accepted" {
			s.C.Events++
			s.eventsSince++
		}
		return out
	default:
		return Outcome{Skipped: "unknown op"}
	}
}

func (s *Sim) prevHashFor(h uint64) []byte {
	if h == s.Initial {
		return s.genesisHash
	}
	return s.CommittingHeader.Hash
}

// candidateHeader builds the header of block candidate d for the view in slot
// with the given PrevCommitProof.
func (s *Sim) candidateHeader(v *VRV, d int, pcp tmconsensus.CommitProof) tmconsensus.Header {
	h := tmconsensus.Header{
		Height:           v.Height,
		PrevBlockHash:    bytes.Clone(s.prevHashFor(v.Height)),
		PrevCommitProof:  pcp,
		ValidatorSet:     s.K.VS,
		NextValidatorSet: s.K.VS,
		DataID:           []byte(fmt.Sprintf("data-%d-%d-%d", v.Height, v.Round, d)),
		PrevAppStateHash: []byte(fmt.Sprintf("app-%d", v.Height-1)),
	}
	hash, err := s.K.Fx.HashScheme.Block(h)
	if err != nil {
		panic(err)
	}
	h.Hash = hash
	return h
}

// pcpFor builds the PrevCommitProof a proposer of a header for view v would
// embed: the precommits for the committed block known to this node plus those
// of the validators in extra. Only the committed block's entry is included, as
// the mirror rejects proofs in which a validator signed two targets.
func (s *Sim) pcpFor(v *VRV, extra uint) tmconsensus.CommitProof {
	if v.Height == s.Initial {
		return tmconsensus.CommitProof{Proofs: map[string][]gcrypto.SparseSignature{}}
	}
	main := string(s.CommittingHeader.Hash)
	have := proofSigners(s.Committing.PrecommitProofs[main], s.K.N)
	set := map[int]bool{}
	for _, i := range have {
		set[i] = true
	}
	for _, i := range maskBits(extra, s.K.N) {
		set[i] = true
	}
	signers := make([]int, 0, len(set))
	for i := range set {
		signers = append(signers, i)
	}
	sort.Ints(signers)
	return tmconsensus.CommitProof{
		Round:      s.Committing.Round,
		PubKeyHash: s.K.PKHash,
		Proofs: map[string][]gcrypto.SparseSignature{
			main: s.K.sparse(KindPrecommit, s.Committing.Height, s.Committing.Round, main, signers),
		},
	}
}

func (s *Sim) buildPH(slot int, op Op) tmconsensus.ProposedHeader {
	v := s.view(slot)
	n := s.K.N
	p := ((op.P % n) + n) % n
	d := ((op.D % ND) + ND) % ND
	var pcp tmconsensus.CommitProof
	if slot == SlotCommitting {
		// only generated at the initial height (see applyPH)
		pcp = tmconsensus.CommitProof{Proofs: map[string][]gcrypto.SparseSignature{}}
	} else {
		pcp = s.pcpFor(v, op.X)
	}
	hdr := s.candidateHeader(v, d, pcp)
	key := fmt.Sprintf("%d|%d|%x|%d", p, v.Round, hdr.Hash, pcp.Round)
	for _, sigs := range pcp.Proofs {
		for _, sg := range sigs {
			key += fmt.Sprintf("|%x", sg.KeyID)
		}
	}
	s.K.mu.Lock()
	ph, ok := s.K.phs[key]
	s.K.mu.Unlock()
	if ok {
		return ph
	}
	ph = tmconsensus.ProposedHeader{Header: hdr, Round: v.Round}
	sb, err := tmconsensus.ProposalSignBytes(ph.Header, ph.Round, ph.Annotations, s.K.Fx.SignatureScheme)
	if err != nil {
		panic(err)
	}
	ph.Signature, err = s.K.Fx.PrivVals[p].Signer.Sign(context.Background(), sb)
	if err != nil {
		panic(err)
	}
	ph.ProposerPubKey = s.K.Fx.PrivVals[p].Val.PubKey
	s.K.mu.Lock()
	s.K.phs[key] = ph
	s.K.mu.Unlock()
	return ph
}

func (s *Sim) applyPH(slot int, op Op) (Outcome, string) {
	v := s.view(slot)
	if slot == SlotCommitting && v.Height != s.Initial {
		// The mirror (setPHCheckStatus, "TODO: this needs to set
		// resp.PrevValidatorSet") rejects late proposals for a committing view
		// above the initial height, so the kernel never adds one there.
		return Outcome{}, "committing-ph-above-initial"
	}
	ph := s.buildPH(slot, op)
	out := Outcome{PH: &ph}

	for _, have := range v.ProposedHeaders {
		if bytes.Equal(have.Signature, ph.Signature) {
			s.C.PHDup++
			out.Result = "dup"
			return out, ""
		}
	}
	v.ProposedHeaders = append(v.ProposedHeaders, ph)
	s.log = append(s.log, logEntry{H: v.Height, R: v.Round, Kind: "ph", Fact: PHFact(ph)})
	s.mark(slot)
	s.C.PHAccepted++
	out.Result = "accepted"
	if slot == SlotCommitting {
		s.C.CommittingLatePH++
		return out, ""
	}

	// Backfill the committing view's precommits from the header's PrevCommitProof.
	if s.K.Fx.CommonMessageSignatureProofScheme.CanMergeFinalizedProofs() {
		merged := false
		for blockHash, sigs := range ph.Header.PrevCommitProof.Proofs {
			target := s.Committing.PrecommitProofs[blockHash]
			if target == nil {
				panic("model: PrevCommitProof names a block unknown to the committing view (A6 must be unreachable by construction)")
			}
			before := proofSigners(target, s.K.N)
			res := target.MergeSparse(gcrypto.SparseSignatureProof{PubKeyHash: ph.Header.PrevCommitProof.PubKeyHash, Signatures: sigs})
			if res.IncreasedSignatures {
				merged = true
				was := map[int]bool{}
				for _, i := range before {
					was[i] = true
				}
				for _, sg := range sigs {
					i := int(binary.BigEndian.Uint16(sg.KeyID))
					if !was[i] {
						s.noteVote(KindPrecommit, s.Committing.Height, s.Committing.Round, blockHash, i)
					}
				}
			}
		}
		if merged {
			s.C.Backfills++
			s.markCommitting()
		}
	}

	if slot == SlotVoting {
		if _, ok := s.Voting.PrecommitProofs[string(ph.Header.Hash)]; ok {
			if f := s.checkVotingPrecommitViewShift(); f != "" {
				return out, f
			}
		}
	}
	return out, ""
}

// noteVote records that validator i's vote entered the view of (h,r).
func (s *Sim) noteVote(kind string, h uint64, r uint32, hash string, i int) {
	s.log = append(s.log, logEntry{H: h, R: r, Kind: kind, Fact: VoteFact(kind, h, r, hash, KeyID(i), s.K.VoteSig(kind, h, r, hash, i))})
	key := fmt.Sprintf("%s|%d|%d|%d", kind, h, r, i)
	m := s.voted[key]
	if m == nil {
		m = map[string]bool{}
		s.voted[key] = m
	}
	if !m[hash] && len(m) > 0 {
		s.C.Equivocations++
	}
	m[hash] = true
}

func (s *Sim) targetHash(v *VRV, b int) (string, bool) {
	if b < 0 {
		b = -b
	}
	if b == 0 {
		return "", true
	}
	if b > ND && len(v.ProposedHeaders) > 0 {
		return string(v.ProposedHeaders[(b-ND-1)%len(v.ProposedHeaders)].Header.Hash), true
	}
	d := (b - 1) % ND
	// canonical candidate: the header a "ph" op with x=0 would carry right now
	var pcp tmconsensus.CommitProof
	if v.Height == s.Initial {
		pcp = tmconsensus.CommitProof{Proofs: map[string][]gcrypto.SparseSignature{}}
	} else if v.Height == s.Voting.Height {
		pcp = s.pcpFor(v, 0)
	} else {
		// committing view above the initial height: no canonical candidates;
		// fall back to the committed block itself
		return string(s.CommittingHeader.Hash), true
	}
	return string(s.candidateHeader(v, d, pcp).Hash), false
}

func (s *Sim) applyVote(slot int, op Op) (Outcome, string) {
	v := s.view(slot)
	kind := KindPrevote
	if op.PC {
		kind = KindPrecommit
	}
	h, r := v.Height, v.Round

	// Build the message: target hash -> signers.
	msg := map[string][]int{}
	var order []string
	for _, t := range op.T {
		hash, _ := s.targetHash(v, t.B)
		bits := maskBits(t.M, s.K.N)
		if len(bits) == 0 {
			continue
		}
		if _, ok := msg[hash]; !ok {
			order = append(order, hash)
		}
		set := map[int]bool{}
		for _, i := range msg[hash] {
			set[i] = true
		}
		for _, i := range bits {
			set[i] = true
		}
		var l []int
		for i := range set {
			l = append(l, i)
		}
		sort.Ints(l)
		msg[hash] = l
	}
	if len(msg) == 0 {
		return Outcome{}, "empty vote message"
	}
	sp := make(map[string][]gcrypto.SparseSignature, len(msg))
	for hash, signers := range msg {
		sp[hash] = s.K.sparse(kind, h, r, hash, signers)
	}
	var out Outcome
	if op.PC {
		out.Precommit = &tmconsensus.PrecommitSparseProof{Height: h, Round: r, PubKeyHash: s.K.PKHash, Proofs: sp}
	} else {
		out.Prevote = &tmconsensus.PrevoteSparseProof{Height: h, Round: r, PubKeyHash: s.K.PKHash, Proofs: sp}
	}

	proofs := v.PrevoteProofs
	versions := &v.PrevoteBlockVersions
	if op.PC {
		proofs = v.PrecommitProofs
		versions = &v.PrecommitBlockVersions
	}
	any := false
	sort.Strings(order)
	for _, hash := range order {
		cur := proofs[hash]
		var have map[int]bool
		if cur != nil {
			have = map[int]bool{}
			for _, i := range proofSigners(cur, s.K.N) {
				have[i] = true
			}
		}
		var add []int
		for _, i := range msg[hash] {
			if !have[i] {
				add = append(add, i)
			}
		}
		if len(add) == 0 {
			continue
		}
		var np gcrypto.CommonMessageSignatureProof
		if cur == nil {
			np = s.K.newProof(kind, h, r, hash)
		} else {
			np = cur.Clone()
		}
		res := np.MergeSparse(gcrypto.SparseSignatureProof{PubKeyHash: s.K.PKHash, Signatures: s.K.sparse(kind, h, r, hash, add)})
		if !res.AllValidSignatures || !res.IncreasedSignatures {
			panic(fmt.Sprintf("model: own signatures did not merge: %+v", res))
		}
		proofs[hash] = np
		if *versions == nil {
			*versions = map[string]uint32{}
		}
		(*versions)[hash]++
		for _, i := range add {
			s.noteVote(kind, h, r, hash, i)
		}
		if hash != "" {
			known := false
			for _, ph := range v.ProposedHeaders {
				if string(ph.Header.Hash) == hash {
					known = true
				}
			}
			if !known {
				s.C.UnknownHashVotes++
			}
		}
		any = true
	}
	if !any {
		s.C.VoteNoNew++
		out.Result = "nonew"
		return out, ""
	}
	out.Result = "accepted"
	s.C.VoteAccepted++
	if slot == SlotCommitting {
		s.C.CommittingLateVote++
	}
	if op.PC {
		v.VoteSummary.SetPrecommitPowers(v.ValidatorSet.Validators, v.PrecommitProofs)
	} else {
		v.VoteSummary.SetPrevotePowers(v.ValidatorSet.Validators, v.PrevoteProofs)
	}
	s.mark(slot)

	if !op.PC {
		if slot == SlotNextRound {
			vs := s.NextRound.VoteSummary
			if vs.TotalPrevotePower >= tmconsensus.ByzantineMinority(vs.AvailablePower) {
				s.jumpVotingRound()
			}
		}
		return out, ""
	}
	switch slot {
	case SlotVoting:
		if f := s.checkVotingPrecommitViewShift(); f != "" {
			return out, f
		}
	case SlotNextRound:
		vs := s.NextRound.VoteSummary
		min := tmconsensus.ByzantineMinority(vs.AvailablePower)
		if vs.TotalPrecommitPower >= min {
			s.jumpVotingRound()
			// kernel (since fix d02baf8): the round jumped to is evaluated like any voting round
			if f := s.checkVotingPrecommitViewShift(); f != "" {
				return out, f
			}
		}
	}
	return out, ""
}

func (s *Sim) checkVotingPrecommitViewShift() string {
	vrv := &s.Voting
	vs := vrv.VoteSummary
	maj := tmconsensus.ByzantineMajority(vs.AvailablePower)
	committingHash := vs.MostVotedPrecommitHash
	if vs.PrecommitBlockPower[committingHash] < maj {
		if vs.TotalPrecommitPower == vs.AvailablePower {
			return s.advanceVotingRound()
		}
		return ""
	}
	if committingHash == "" {
		return s.advanceVotingRound()
	}
	var voted *tmconsensus.Header
	for i := range vrv.ProposedHeaders {
		if string(vrv.ProposedHeaders[i].Header.Hash) == committingHash {
			voted = &vrv.ProposedHeaders[i].Header
			break
		}
	}
	if voted == nil {
		s.C.Stuck++
		return ""
	}
	s.shiftVotingToCommitting(*voted)
	return ""
}

func (s *Sim) advanceVotingRound() string {
	if s.reads == 0 {
		// The shipped wiring (tmengine.New: gs.Start right after the mirror is
		// built, handler installed later) hands the first update to the
		// strategy before any network message can complete a nil round, so a
		// first update that carries a NilVotedRound is not generated.
		return "first-nil"
	}
	if s.nilVoted != nil {
		s.C.NilVotedOverwritten++
	}
	c := s.Voting.Clone()
	s.nilVoted = &c
	s.incrementVotingRound()
	s.grace(s.Voting.Height, s.Voting.Round-1)
	s.activate(s.Voting.Height, s.Voting.Round+1)
	s.C.NilAdvances++
	return ""
}

func (s *Sim) jumpVotingRound() {
	s.incrementVotingRound()
	s.C.Jumps++
}

func (s *Sim) incrementVotingRound() {
	s.Voting, s.NextRound = s.NextRound, s.Voting
	s.markVoting()
	s.NextRound.ResetForSameHeight()
	s.NextRound.Round = s.Voting.Round + 1
	s.markNextRound()
}

func (s *Sim) shiftVotingToCommitting(voted tmconsensus.Header) {
	if s.Committing.Height != 0 {
		s.grace(s.Committing.Height, s.Committing.Round)
	}
	s.Committing = s.Voting
	s.markCommitting()
	s.expire(s.NextRound.Height, s.NextRound.Round)

	newHeight := s.Voting.Height + 1
	commitProofs := make(map[string][]gcrypto.SparseSignature, len(s.Committing.PrecommitProofs))
	for hash, proof := range s.Committing.PrecommitProofs {
		commitProofs[hash] = proof.AsSparse().Signatures
	}
	s.Voting = s.newView(newHeight, 0, tmconsensus.CommitProof{
		Round:      s.Committing.Round,
		PubKeyHash: string(s.Committing.ValidatorSet.PubKeyHash),
		Proofs:     commitProofs,
	})
	s.Voting.ValidatorSet = voted.NextValidatorSet
	s.markVoting()
	s.activate(newHeight, 0)

	s.NextRound.Reset()
	s.NextRound.Height = newHeight
	s.NextRound.Round = 1
	s.NextRound.ValidatorSet = voted.NextValidatorSet
	s.NextRound.PrevCommitProof = s.Voting.PrevCommitProof.Clone()
	s.NextRound.PrevoteVersion = 1
	s.NextRound.PrecommitVersion = 1
	s.NextRound.VoteSummary.AvailablePower = s.Voting.VoteSummary.AvailablePower
	if s.NextRound.PrevoteProofs == nil {
		s.NextRound.PrevoteProofs = map[string]gcrypto.CommonMessageSignatureProof{}
	}
	if s.NextRound.PrecommitProofs == nil {
		s.NextRound.PrecommitProofs = map[string]gcrypto.CommonMessageSignatureProof{}
	}
	s.markNextRound()
	s.activate(newHeight, 1)

	s.CommittingHeader = voted
	s.C.Commits++
}

// ---------------------------------------------------------------------------
// read: gossipViewManager.Output + MarkSent

func (s *Sim) factsOf(h uint64, r uint32) (phs, pv, pc []string) {
	for _, e := range s.log {
		if e.H != h || e.R != r {
			continue
		}
		switch e.Kind {
		case "ph":
			phs = append(phs, e.Fact)
		case KindPrevote:
			pv = append(pv, e.Fact)
		default:
			pc = append(pc, e.Fact)
		}
	}
	return
}

var slotNames = [3]string{"voting", "nextround", "committing"}

func (s *Sim) read() Outcome {
	var u tmelink.NetworkViewUpdate
	var exp Expect
	send := false

	add := func(slot int, dst **VRV) {
		if s.out[slot].hasBeenSent() {
			return
		}
		send = true
		val := s.out[slot].VRV.Clone()
		*dst = &val
		phs, pv, pc := s.factsOf(val.Height, val.Round)
		exp.Required = append(exp.Required, phs...)
		exp.Required = append(exp.Required, pv...)
		exp.Required = append(exp.Required, pc...)
		exp.Views = append(exp.Views, fmt.Sprintf("%s %d/%d v%d", slotNames[slot], val.Height, val.Round, val.Version))
		s.noteSent(slot, &val, len(phs), len(pv), len(pc))
	}
	add(SlotCommitting, &u.Committing)
	add(SlotVoting, &u.Voting)
	add(SlotNextRound, &u.NextRound)

	if s.nilVoted != nil {
		send = true
		u.NilVotedRound = s.nilVoted
		phs, pv, pc := s.factsOf(s.nilVoted.Height, s.nilVoted.Round)
		exp.Required = append(exp.Required, pc...)
		exp.AllowedOnly = append(exp.AllowedOnly, phs...)
		exp.AllowedOnly = append(exp.AllowedOnly, pv...)
		exp.Views = append(exp.Views, fmt.Sprintf("nilvoted %d/%d v%d", s.nilVoted.Height, s.nilVoted.Round, s.nilVoted.Version))
		s.C.NilVotedSent++
	}
	if len(s.pendingRSC) > 0 {
		send = true
		u.RoundSessionChanges = s.pendingRSC
	}
	s.C.Reads++
	if !send {
		return Outcome{Result: "noread"}
	}

	// MarkSent
	var committingHeight uint64
	if u.Committing != nil {
		committingHeight = s.out[SlotCommitting].VRV.Height
		o := &s.out[SlotCommitting]
		o.SentH, o.SentR, o.SentV = o.VRV.Height, o.VRV.Round, o.VRV.Version
	}
	if u.Voting != nil {
		o := &s.out[SlotVoting]
		o.SentH, o.SentR, o.SentV = o.VRV.Height, o.VRV.Round, o.VRV.Version
	}
	if u.NextRound != nil {
		o := &s.out[SlotNextRound]
		o.SentH, o.SentR, o.SentV = o.VRV.Height, o.VRV.Round, o.VRV.Version
	}
	s.pendingRSC = nil
	const graceHeightCount = 2
	if committingHeight > graceHeightCount {
		var ks []hr
		for k := range s.inGrace {
			if k.H < committingHeight-graceHeightCount {
				ks = append(ks, k)
			}
		}
		sort.Slice(ks, func(i, j int) bool {
			if ks[i].H != ks[j].H {
				return ks[i].H < ks[j].H
			}
			return ks[i].R < ks[j].R
		})
		for _, k := range ks {
			delete(s.inGrace, k)
			s.expire(k.H, k.R)
		}
	}
	s.nilVoted = nil

	s.C.Updates++
	if u.Committing == nil && u.Voting == nil && u.NextRound == nil && u.NilVotedRound == nil {
		s.C.EmptyUpdates++
	}
	if s.eventsSince > 1 {
		s.C.Coalesced++
	}
	if s.reads == 0 {
		if u.Committing != nil {
			s.C.FirstHasCommitting++
		}
		if len(exp.Required) > 0 {
			s.C.FirstHasContent++
		}
	}
	if u.NilVotedRound != nil && len(exp.AllowedOnly) > 0 {
		// proposals / prevotes of the nil-voted view that were never part of a
		// view the strategy is obliged to broadcast
		req := map[string]bool{}
		for _, f := range s.everRequired {
			req[f] = true
		}
		for _, f := range exp.Required {
			req[f] = true
		}
		for _, f := range exp.AllowedOnly {
			if !req[f] {
				s.C.NilVotedExtra++
				break
			}
		}
	}
	s.everRequired = append(s.everRequired, exp.Required...)
	s.reads++
	s.eventsSince = 0
	return Outcome{Result: "read", Update: &u, Expect: &exp}
}

func unionMask(m map[string]gcrypto.CommonMessageSignatureProof, n int) uint {
	var u uint
	for _, p := range m {
		for _, i := range proofSigners(p, n) {
			u |= 1 << uint(i)
		}
	}
	return u
}

func popcount(u uint) int {
	c := 0
	for ; u != 0; u &= u - 1 {
		c++
	}
	return c
}

// noteSent classifies the pair (previous view of the slot, this view).
func (s *Sim) noteSent(slot int, v *VRV, nph, npv, npc int) {
	cur := &sentInfo{H: v.Height, R: v.Round, PHFacts: nph, PVFacts: npv, PCFacts: npc,
		PVUnion: unionMask(v.PrevoteProofs, s.K.N), PCUnion: unionMask(v.PrecommitProofs, s.K.N)}
	cur.PVCount, cur.PCCount = popcount(cur.PVUnion), popcount(cur.PCUnion)
	if prev := s.lastSent[slot]; prev != nil {
		if prev.H == cur.H && prev.R == cur.R {
			if (prev.PVCount == cur.PVCount && prev.PVFacts != cur.PVFacts) ||
				(prev.PCCount == cur.PCCount && prev.PCFacts != cur.PCFacts) {
				s.C.SameCountDiff++
			}
		} else {
			if (prev.PVCount == cur.PVCount && prev.PVCount > 0 && prev.PVUnion != cur.PVUnion) ||
				(prev.PCCount == cur.PCCount && prev.PCCount > 0 && prev.PCUnion != cur.PCUnion) {
				s.C.EqualSizeDifferentSets++
			}
		}
	}
	s.lastSent[slot] = cur
}

// ---------------------------------------------------------------------------
// Extraction of facts from real values (self-check of the model bookkeeping,
// and decoding of what the broadcaster received).

func ViewFacts(v *VRV) (phs, pv, pc []string) {
	for _, ph := range v.ProposedHeaders {
		phs = append(phs, PHFact(ph))
	}
	for hash, p := range v.PrevoteProofs {
		for _, sg := range p.AsSparse().Signatures {
			pv = append(pv, VoteFact(KindPrevote, v.Height, v.Round, hash, sg.KeyID, sg.Sig))
		}
	}
	for hash, p := range v.PrecommitProofs {
		for _, sg := range p.AsSparse().Signatures {
			pc = append(pc, VoteFact(KindPrecommit, v.Height, v.Round, hash, sg.KeyID, sg.Sig))
		}
	}
	return
}

func SparseFacts(kind string, h uint64, r uint32, proofs map[string][]gcrypto.SparseSignature) []string {
	var out []string
	for hash, sigs := range proofs {
		for _, sg := range sigs {
			out = append(out, VoteFact(kind, h, r, hash, sg.KeyID, sg.Sig))
		}
	}
	return out
}
