package c17model

import (
	"encoding/json"
	"fmt"
	"os"
	"path/filepath"
	"sync"

	"github.com/gordian-engine/gordian/internal/zzverif/vk"
)

// WAL is vk.Stats.WAL (same file name and content) without re-creating the
// file for every case: one descriptor per test, overwrite + truncate. Creating
// a file per case costs more than running a case of this property.
var (
	walMu    sync.Mutex
	walFiles = map[string]*os.File{}
)

func WAL(property, test string, c any) {
	if vk.OutDir() == "" {
		return
	}
	walMu.Lock()
	defer walMu.Unlock()
	f, ok := walFiles[test]
	if !ok {
		name := filepath.Join(vk.OutDir(), fmt.Sprintf("%s-%s-s%d.wal.json", property, test, vk.Shard()))
		f, _ = os.OpenFile(name, os.O_CREATE|os.O_WRONLY|os.O_TRUNC, 0o644)
		walFiles[test] = f
	}
	if f == nil {
		return
	}
	cb, err := json.Marshal(c)
	if err != nil {
		return
	}
	b, _ := json.Marshal(vk.Failure{Property: property, Test: test, Clause: "process-death", Case: cb})
	if _, err := f.WriteAt(b, 0); err == nil {
		_ = f.Truncate(int64(len(b)))
	}
}
