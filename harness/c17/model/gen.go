package c17model

import (
	"pgregory.net/rapid"
)

// All random choices of a case are rapid draws; a case is plain data.

func genMask(n int) *rapid.Generator[uint] {
	all := uint(1)<<uint(n) - 1
	return rapid.Custom(func(t *rapid.T) uint {
		switch rapid.IntRange(0, 9).Draw(t, "maskKind") {
		case 0, 1, 2, 3: // a single validator
			return 1 << uint(rapid.IntRange(0, n-1).Draw(t, "bit"))
		case 4: // everybody
			return all
		case 5: // everybody but one
			return all &^ (1 << uint(rapid.IntRange(0, n-1).Draw(t, "bit")))
		default:
			m := rapid.UintRange(1, all).Draw(t, "mask")
			return m
		}
	})
}

func genTgt(n int) *rapid.Generator[Tgt] {
	return rapid.Custom(func(t *rapid.T) Tgt {
		var b int
		switch rapid.IntRange(0, 9).Draw(t, "tgtKind") {
		case 0, 1, 2:
			b = 0 // nil
		case 3, 4, 5, 6:
			b = rapid.IntRange(1, ND).Draw(t, "cand")
		default:
			b = ND + 1 + rapid.IntRange(0, 3).Draw(t, "prop")
		}
		return Tgt{B: b, M: genMask(n).Draw(t, "m")}
	})
}

func genOp(n int) *rapid.Generator[Op] {
	return rapid.Custom(func(t *rapid.T) Op {
		k := rapid.IntRange(0, 99).Draw(t, "opKind")
		slot := SlotVoting
		switch s := rapid.IntRange(0, 9).Draw(t, "slot"); {
		case s >= 8:
			slot = SlotCommitting
		case s >= 6:
			slot = SlotNextRound
		}
		switch {
		case k < 30:
			return Op{K: "read"}
		case k < 48:
			op := Op{K: "ph", V: slot, P: rapid.IntRange(0, n-1).Draw(t, "p"), D: rapid.IntRange(0, ND-1).Draw(t, "d")}
			if rapid.IntRange(0, 2).Draw(t, "hasExtra") == 0 {
				op.X = genMask(n).Draw(t, "x")
			}
			return op
		default:
			return Op{K: "vote", V: slot, PC: rapid.Bool().Draw(t, "pc"),
				T: rapid.SliceOfN(genTgt(n), 1, 3).Draw(t, "t")}
		}
	})
}

// genFragment yields either one free op or a short scripted sequence that
// makes the rarer kernel transitions (commit, nil round, split round, jump,
// backfill, late votes for the committing view) likely. The case itself stays
// a flat op list; every sub-list is a valid case.
func genFragment(n int) *rapid.Generator[[]Op] {
	all := uint(1)<<uint(n) - 1
	return rapid.Custom(func(t *rapid.T) []Op {
		maybeRead := func(ops []Op, label string) []Op {
			if rapid.IntRange(0, 2).Draw(t, label) == 0 {
				return append(ops, Op{K: "read"})
			}
			return ops
		}
		bit := func(label string) uint { return 1 << uint(rapid.IntRange(0, n-1).Draw(t, label)) }
		first := ND + 1 // first proposed header of the view
		switch k := rapid.IntRange(0, 99).Draw(t, "fragKind"); {
		case k < 50:
			return []Op{genOp(n).Draw(t, "op")}
		case k < 55: // the same validators vote for the same target again in the next round
			// (offline proposer: the same nil / unproposed-hash prevotes round after round)
			tg := Tgt{B: rapid.SampledFrom([]int{0, 0, 1, 2}).Draw(t, "echoTarget"), M: genMask(n).Draw(t, "echoMask")}
			ops := []Op{{K: "vote", V: SlotVoting, T: []Tgt{tg}}, {K: "read"}}
			if rapid.Bool().Draw(t, "echoPrecommits") {
				ops = append(ops, Op{K: "vote", V: SlotVoting, PC: true, T: []Tgt{{B: 0, M: all}}})
			} else {
				// leave the round through votes for the next one
				ops = append(ops, Op{K: "vote", V: SlotNextRound, T: []Tgt{{B: tg.B, M: all}}})
			}
			ops = maybeRead(ops, "echoRead")
			ops = append(ops, Op{K: "vote", V: SlotVoting, T: []Tgt{tg}})
			return append(ops, Op{K: "read"})
		case k < 70: // a round that commits the first proposal of the voting view
			ops := []Op{{K: "ph", V: SlotVoting, P: rapid.IntRange(0, n-1).Draw(t, "p"), D: rapid.IntRange(0, ND-1).Draw(t, "d")}}
			if rapid.IntRange(0, 2).Draw(t, "hasExtra") == 0 {
				ops[0].X = genMask(n).Draw(t, "x")
			}
			ops = maybeRead(ops, "r1")
			if rapid.Bool().Draw(t, "withPrevotes") {
				ops = append(ops, Op{K: "vote", V: SlotVoting, T: []Tgt{{B: first, M: genMask(n).Draw(t, "pvm")}}})
				ops = maybeRead(ops, "r2")
			}
			mk := all
			if n > 3 && rapid.Bool().Draw(t, "butOne") {
				mk = all &^ bit("missing")
			}
			if rapid.IntRange(0, 3).Draw(t, "split") == 0 && n > 1 {
				// the certificate arrives in two messages
				part := genMask(n).Draw(t, "part") & mk
				if part != 0 {
					ops = append(ops, Op{K: "vote", V: SlotVoting, PC: true, T: []Tgt{{B: first, M: part}}})
					ops = maybeRead(ops, "r3")
				}
			}
			ops = append(ops, Op{K: "vote", V: SlotVoting, PC: true, T: []Tgt{{B: first, M: mk}}})
			ops = maybeRead(ops, "r4")
			if rapid.IntRange(0, 2).Draw(t, "nextProposal") == 0 {
				// the next height's proposer saw the complete certificate
				ops = append(ops, Op{K: "ph", V: SlotVoting, P: rapid.IntRange(0, n-1).Draw(t, "p2"), D: rapid.IntRange(0, ND-1).Draw(t, "d2"), X: all})
				ops = maybeRead(ops, "r5")
			}
			return ops
		case k < 77: // nil round
			ops := []Op{{K: "vote", V: SlotVoting, PC: true, T: []Tgt{{B: 0, M: all}}}}
			return maybeRead(ops, "r1")
		case k < 82: // everybody precommitted, no majority
			lo := genMask(n).Draw(t, "lo")
			ops := []Op{{K: "vote", V: SlotVoting, PC: true, T: []Tgt{{B: 0, M: lo}, {B: rapid.IntRange(1, ND).Draw(t, "cand"), M: all &^ lo}}}}
			return maybeRead(ops, "r1")
		case k < 87: // votes for the next round (may make the node jump)
			ops := []Op{{K: "vote", V: SlotNextRound, PC: rapid.IntRange(0, 3).Draw(t, "pc") == 0,
				T: []Tgt{{B: rapid.IntRange(0, ND).Draw(t, "b"), M: genMask(n).Draw(t, "m")}}}}
			return maybeRead(ops, "r1")
		case k < 94: // a validator votes a second target after the first was handed over
			slot := rapid.SampledFrom([]int{SlotVoting, SlotVoting, SlotNextRound, SlotCommitting}).Draw(t, "slot")
			pc := rapid.Bool().Draw(t, "pc")
			a := rapid.IntRange(0, ND+2).Draw(t, "a")
			b := rapid.IntRange(0, ND+2).Draw(t, "b")
			mk := bit("who")
			return []Op{
				{K: "vote", V: slot, PC: pc, T: []Tgt{{B: a, M: mk}}},
				{K: "read"},
				{K: "vote", V: slot, PC: pc, T: []Tgt{{B: b, M: mk}}},
				{K: "read"},
			}
		default: // late traffic for the committing view
			ops := []Op{{K: "vote", V: SlotCommitting, PC: rapid.IntRange(0, 3).Draw(t, "pc") != 0,
				T: []Tgt{{B: rapid.SampledFrom([]int{0, first, first, first + 1}).Draw(t, "b"), M: genMask(n).Draw(t, "m")}}}}
			return maybeRead(ops, "r1")
		}
	})
}

// GenCase generates a whole history of at most maxOps ops.
func GenCase(maxOps int) *rapid.Generator[Case] {
	return rapid.Custom(func(t *rapid.T) Case {
		n := rapid.SampledFrom([]int{1, 2, 3, 4, 4, 4, 4, 5, 6}).Draw(t, "n")
		c := Case{N: n}
		switch rapid.IntRange(0, 5).Draw(t, "powKind") {
		case 0: // one dominant validator
			c.Pow = make([]uint64, n)
			for i := range c.Pow {
				c.Pow[i] = 1
			}
			c.Pow[rapid.IntRange(0, n-1).Draw(t, "dom")] = uint64(rapid.IntRange(1, 2*n+1).Draw(t, "domPow"))
		case 1: // small varied powers
			c.Pow = make([]uint64, n)
			for i := range c.Pow {
				c.Pow[i] = uint64(rapid.IntRange(1, 5).Draw(t, "pow"))
			}
		default: // fixture default: 100000-i
		}
		frags := rapid.SliceOfN(genFragment(n), 1, maxOps/2).Draw(t, "frags")
		for _, f := range frags {
			if len(c.Ops)+len(f) > maxOps {
				break
			}
			c.Ops = append(c.Ops, f...)
		}
		return c
	})
}
