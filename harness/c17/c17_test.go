package tmgossip_test

import (
	"context"
	"fmt"
	"log/slog"
	"sort"
	"strings"
	"sync"
	"testing"
	"testing/synctest"

	"github.com/gordian-engine/gordian/gcrypto"
	m "github.com/gordian-engine/gordian/internal/zzverif/c17model"
	"github.com/gordian-engine/gordian/internal/zzverif/vk"
	"github.com/gordian-engine/gordian/tm/tmconsensus"
	"github.com/gordian-engine/gordian/tm/tmengine/tmelink"
	"github.com/gordian-engine/gordian/tm/tmgossip"
	"pgregory.net/rapid"
)

// C17: the shipped gossip strategy offers to the broadcaster everything that is
// in the views the engine hands it, and nothing else.
//
// A case is an operation list interpreted by the kernel model in c17model
// (proposed headers / vote messages reaching the mirror kernel, and "read" =
// the strategy receives the pending NetworkViewUpdate). Every update produced
// by the model is sent to a real tmgossip.ChattyStrategy on an unbuffered
// channel inside a testing/synctest bubble; synctest.Wait gives the exact
// point at which the strategy has finished with the update, and the oracle is
// evaluated there, after every update:
//
//	required(1..i) ⊆ offered(1..i) ⊆ allowed(1..i)
//
// where required = proposed headers + prevote/precommit signatures of every
// Committing / Voting / NextRound view handed over so far plus the precommit
// signatures of every NilVotedRound view, and allowed = required plus the
// proposed headers and prevotes of the NilVotedRound views.

const c17Rule = "rapid-generated op lists (1..40 ops: proposed header / prevote / precommit message for the voting, next-round or committing view, with 1-3 targets per message incl. nil, unproposed and proposed hashes and arbitrary signer masks; 'read' = strategy receives the coalesced update) over 1-6 validators with default, dominant or varied powers, interpreted by a kernel model whose view shifts use the repository's VoteSummary; non-trivial = the strategy was handed a nil-voted round, an equivocating second vote, a same-(h,r) view whose union signer count is unchanged although its content grew, or consecutive views of a slot with equal-size but different signer sets; distinct = distinct op lists (FNV of the JSON case)"

// recorder is the recording tmp2p.ConsensusBroadcaster.
type recorder struct {
	ph chan tmconsensus.ProposedHeader
	pv chan tmconsensus.PrevoteSparseProof
	pc chan tmconsensus.PrecommitSparseProof

	stop, done chan struct{}

	mu      sync.Mutex
	offered map[string]int
	nMsgs   int
	bad     []string // protocol-level problems of an offered message
	pkHash  string
}

func newRecorder(pkHash string) *recorder {
	r := &recorder{
		ph:      make(chan tmconsensus.ProposedHeader),
		pv:      make(chan tmconsensus.PrevoteSparseProof),
		pc:      make(chan tmconsensus.PrecommitSparseProof),
		stop:    make(chan struct{}),
		done:    make(chan struct{}),
		offered: map[string]int{},
		pkHash:  pkHash,
	}
	go r.run()
	return r
}

func (r *recorder) OutgoingProposedHeaders() chan<- tmconsensus.ProposedHeader     { return r.ph }
func (r *recorder) OutgoingPrevoteProofs() chan<- tmconsensus.PrevoteSparseProof   { return r.pv }
func (r *recorder) OutgoingPrecommitProofs() chan<- tmconsensus.PrecommitSparseProof { return r.pc }

func (r *recorder) run() {
	defer close(r.done)
	for {
		select {
		case <-r.stop:
			return
		case ph := <-r.ph:
			r.mu.Lock()
			r.nMsgs++
			r.offered[m.PHFact(ph)]++
			r.mu.Unlock()
		case p := <-r.pv:
			r.vote(m.KindPrevote, p.Height, p.Round, p.PubKeyHash, p.Proofs)
		case p := <-r.pc:
			r.vote(m.KindPrecommit, p.Height, p.Round, p.PubKeyHash, p.Proofs)
		}
	}
}

func (r *recorder) vote(kind string, h uint64, rd uint32, pkHash string, proofs map[string][]gcrypto.SparseSignature) {
	r.mu.Lock()
	defer r.mu.Unlock()
	r.nMsgs++
	if pkHash != r.pkHash {
		r.bad = append(r.bad, fmt.Sprintf("%s message for %d/%d carries public key hash %x, the views' validator set has %x", kind, h, rd, pkHash, r.pkHash))
	}
	if len(proofs) == 0 {
		r.bad = append(r.bad, fmt.Sprintf("%s message for %d/%d without any proof", kind, h, rd))
	}
	for hash, sigs := range proofs {
		if len(sigs) == 0 {
			r.bad = append(r.bad, fmt.Sprintf("%s message for %d/%d: target %x without signatures", kind, h, rd, hash))
		}
	}
	for _, f := range m.SparseFacts(kind, h, rd, proofs) {
		r.offered[f]++
	}
}

type c17Failure struct {
	clause, detail string
}

func short(f string) string {
	if len(f) > 150 {
		return f[:150] + "..."
	}
	return f
}

func clauseForMissing(f string, nilVotedOnly bool) string {
	switch {
	case strings.HasPrefix(f, "PH|"):
		return "missing-proposed-header"
	case strings.HasPrefix(f, "V|"+m.KindPrevote):
		return "missing-prevote"
	case nilVotedOnly:
		return "missing-nilvoted-precommit"
	default:
		return "missing-precommit"
	}
}

func sameSet(a, b []string) (string, bool) {
	x := append([]string(nil), a...)
	y := append([]string(nil), b...)
	sort.Strings(x)
	sort.Strings(y)
	if len(x) != len(y) {
		return fmt.Sprintf("sizes %d vs %d", len(x), len(y)), false
	}
	for i := range x {
		if x[i] != y[i] {
			return fmt.Sprintf("%s vs %s", short(x[i]), short(y[i])), false
		}
	}
	return "", true
}

// selfCheck: the plain-data expectation kept by the model equals what the real
// views handed over contain.
func selfCheck(u *tmelink.NetworkViewUpdate, e *m.Expect) string {
	var req, allowed []string
	for _, v := range []*tmconsensus.VersionedRoundView{u.Committing, u.Voting, u.NextRound} {
		if v == nil {
			continue
		}
		a, b, c := m.ViewFacts(v)
		req = append(req, a...)
		req = append(req, b...)
		req = append(req, c...)
	}
	if v := u.NilVotedRound; v != nil {
		a, b, c := m.ViewFacts(v)
		req = append(req, c...)
		allowed = append(allowed, a...)
		allowed = append(allowed, b...)
	}
	if d, ok := sameSet(req, e.Required); !ok {
		return "required facts: " + d
	}
	if d, ok := sameSet(allowed, e.AllowedOnly); !ok {
		return "allowed-only facts: " + d
	}
	return ""
}

var c17Log = slog.New(slog.DiscardHandler)

// c17Run interprets one case. It returns the first failure, if any.
func c17Run(tt *testing.T, c m.Case) (fail *c17Failure, cnt m.Counters) {
	c.Normalize()
	kit := m.GetKit(c.N, c.Pow)
	sim := m.NewSim(kit)

	// The model runs first (outside the bubble): it yields the update sequence.
	type upd struct {
		u   *tmelink.NetworkViewUpdate
		e   *m.Expect
		idx int
	}
	var upds []upd
	ops := append(append([]m.Op(nil), c.Ops...), m.Op{K: "read"}) // implicit final read
	for i, op := range ops {
		o := sim.Step(op)
		if o.Update != nil {
			upds = append(upds, upd{o.Update, o.Expect, i})
		}
	}
	cnt = sim.C
	if len(upds) == 0 {
		return nil, cnt
	}
	if upds[0].u.Voting == nil {
		return &c17Failure{"harness-model", "first update without a voting view"}, cnt
	}
	for _, x := range upds {
		if d := selfCheck(x.u, x.e); d != "" {
			return &c17Failure{"harness-model", fmt.Sprintf("update produced at op %d: %s", x.idx, d)}, cnt
		}
	}

	synctest.Test(tt, func(*testing.T) {
		ctx, cancel := context.WithCancel(context.Background())
		defer cancel()
		rec := newRecorder(kit.PKHash)
		strat := tmgossip.NewChattyStrategy(ctx, c17Log, rec)
		ch := make(chan tmelink.NetworkViewUpdate)
		strat.Start(ch)
		stopped := make(chan struct{})
		go func() { strat.Wait(); close(stopped) }()
		defer func() {
			cancel()
			<-stopped
			close(rec.stop)
			<-rec.done
		}()

		required := map[string]bool{}
		nilVotedOnly := map[string]bool{} // required only because of a NilVotedRound
		allowed := map[string]bool{}
		var views []string

		for k, x := range upds {
			select {
			case ch <- *x.u:
			case <-stopped:
				fail = &c17Failure{"strategy-stopped", fmt.Sprintf("the strategy goroutine ended before update %d (op %d) could be handed over; views so far: %v", k, x.idx, views)}
				return
			}
			synctest.Wait()
			select {
			case <-stopped:
				fail = &c17Failure{"strategy-stopped", fmt.Sprintf("the strategy goroutine ended while handling update %d (op %d, views %v)", k, x.idx, x.e.Views)}
				return
			default:
			}
			views = append(views, fmt.Sprintf("#%d%v", k, x.e.Views))

			inNil := map[string]bool{}
			if x.u.NilVotedRound != nil {
				_, _, pc := m.ViewFacts(x.u.NilVotedRound)
				for _, f := range pc {
					inNil[f] = true
				}
			}
			for _, f := range x.e.Required {
				if !required[f] && inNil[f] {
					nilVotedOnly[f] = true
				}
				required[f] = true
				allowed[f] = true
			}
			// a fact also required through a regular view is not nil-voted-only
			for _, v := range []*tmconsensus.VersionedRoundView{x.u.Committing, x.u.Voting, x.u.NextRound} {
				if v == nil {
					continue
				}
				_, _, pc := m.ViewFacts(v)
				for _, f := range pc {
					delete(nilVotedOnly, f)
				}
			}
			for _, f := range x.e.AllowedOnly {
				allowed[f] = true
			}

			rec.mu.Lock()
			bad := append([]string(nil), rec.bad...)
			var extra, missing []string
			for f := range rec.offered {
				if !allowed[f] {
					extra = append(extra, f)
				}
			}
			for f := range required {
				if rec.offered[f] == 0 {
					missing = append(missing, f)
				}
			}
			nMsgs := rec.nMsgs
			rec.mu.Unlock()

			where := fmt.Sprintf("after update %d (op %d of %d, views %v; %d messages offered so far; all updates: %v)", k, x.idx, len(ops), x.e.Views, nMsgs, views)
			if len(bad) > 0 {
				fail = &c17Failure{"malformed-broadcast", bad[0] + " " + where}
				return
			}
			if len(extra) > 0 {
				sort.Strings(extra)
				fail = &c17Failure{"not-in-any-view", fmt.Sprintf("%d offered item(s) are in no view handed over, e.g. %s %s", len(extra), short(extra[0]), where)}
				return
			}
			if len(missing) > 0 {
				sort.Strings(missing)
				fail = &c17Failure{clauseForMissing(missing[0], nilVotedOnly[missing[0]]),
					fmt.Sprintf("%d item(s) contained in the views handed over were never offered to the broadcaster, e.g. %s %s", len(missing), short(missing[0]), where)}
				return
			}
		}
	})
	return fail, cnt
}

func c17Labels(c m.Case, cnt m.Counters) []string {
	l := []string{fmt.Sprintf("n=%d", c.N)}
	add := func(name string, v int) {
		if v > 0 {
			l = append(l, name)
		}
	}
	add("has-update", cnt.Updates)
	add("updates>=5", cnt.Updates/5)
	add("empty-update", cnt.EmptyUpdates)
	add("coalesced-update", cnt.Coalesced)
	add("commit", cnt.Commits)
	add("commits>=2", cnt.Commits/2)
	add("nil-advance", cnt.NilAdvances)
	add("nilvoted-sent", cnt.NilVotedSent)
	add("nilvoted-overwritten", cnt.NilVotedOverwritten)
	add("nilvoted-extra-unbroadcast", cnt.NilVotedExtra)
	add("jump", cnt.Jumps)
	add("backfill", cnt.Backfills)
	add("stuck-unknown-block", cnt.Stuck)
	add("equivocation", cnt.Equivocations)
	add("same-count-diff", cnt.SameCountDiff)
	add("equal-size-different-sets", cnt.EqualSizeDifferentSets)
	add("unknown-hash-vote", cnt.UnknownHashVotes)
	add("first-has-committing", cnt.FirstHasCommitting)
	add("first-has-content", cnt.FirstHasContent)
	add("committing-late-vote", cnt.CommittingLateVote)
	add("committing-late-ph", cnt.CommittingLatePH)
	add("ph-dup", cnt.PHDup)
	add("vote-nonew", cnt.VoteNoNew)
	add("skipped-A5", cnt.SkippedA5)
	add("skipped-first-nil", cnt.SkippedFirstNil)
	if len(c.Pow) > 0 {
		l = append(l, "custom-powers")
	}
	return l
}

func c17Nontrivial(cnt m.Counters) bool {
	if cnt.Updates == 0 {
		return false
	}
	return cnt.NilVotedSent > 0 || cnt.Equivocations > 0 || cnt.SameCountDiff > 0 || cnt.EqualSizeDifferentSets > 0
}

func c17Case(t vk.TB, tt *testing.T, st *vk.Stats, c m.Case) {
	if st.WantSample() {
		st.Sample(c)
	}
	m.WAL("C17", "TestVerifC17Gossip", c) // a panic on the strategy's goroutine kills the process
	var fail *c17Failure
	var cnt m.Counters
	st.Guard(t, c, func() {
		fail, cnt = c17Run(tt, c)
	})
	st.Case(c17Nontrivial(cnt), vk.FP(c), c17Labels(c, cnt)...)
	if fail != nil {
		st.Fail(t, c, "", fail.clause, "%s", fail.detail)
	}
}

func TestVerifC17Gossip(t *testing.T) {
	st := vk.NewStats("C17", "TestVerifC17Gossip", c17Rule)
	defer st.Flush()
	var c m.Case
	if ok, err := vk.LoadReplay("C17", "TestVerifC17Gossip", &c); err != nil {
		t.Fatal(err)
	} else if ok {
		c17Case(t, t, st, c)
		return
	} else if vk.Replaying() {
		t.Skip("replay file is for another test")
	}
	g := m.GenCase(40)
	rapid.Check(t, func(rt *rapid.T) {
		c17Case(rt, t, st, g.Draw(rt, "case"))
	})
	// Generator coverage floors (reached only when no case failed): the classes
	// that make the check meaningful must not silently disappear. Measured
	// shares are 10-35 %; the floors are 1 %.
	if st.Evals >= 1000 {
		for _, l := range []string{"same-count-diff", "equivocation", "nilvoted-sent", "commit", "jump", "coalesced-update", "first-has-committing", "committing-late-vote"} {
			if st.Labels[l]*100 < st.Evals {
				t.Fatalf("harness: generator coverage floor: only %d of %d cases have label %q", st.Labels[l], st.Evals, l)
			}
		}
	}
}
