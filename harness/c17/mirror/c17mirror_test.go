package tmmirror_test

import (
	"context"
	"fmt"
	"log/slog"
	"sort"
	"strings"
	"testing"
	"testing/synctest"

	"github.com/gordian-engine/gordian/gassert/gasserttest"
	"github.com/gordian-engine/gordian/gwatchdog"
	m "github.com/gordian-engine/gordian/internal/zzverif/c17model"
	"github.com/gordian-engine/gordian/internal/zzverif/vk"
	"github.com/gordian-engine/gordian/tm/tmconsensus"
	"github.com/gordian-engine/gordian/tm/tmengine/internal/tmeil"
	"github.com/gordian-engine/gordian/tm/tmengine/internal/tmmirror"
	"github.com/gordian-engine/gordian/tm/tmengine/tmelink"
	"github.com/gordian-engine/gordian/tm/tmengine/tmelink/tmelinktest"
	"github.com/gordian-engine/gordian/tm/tmstore/tmmemstore"
	"pgregory.net/rapid"
)

// C17, generator soundness: the update sequences the C17 check feeds to the
// gossip strategy come from the kernel model in c17model. This test drives a
// REAL tmmirror.Mirror with the network messages of the very same generated
// cases (the harness plays the peers and the gossip strategy's receive side)
// and demands that, at every "read", the real kernel offers exactly the
// NetworkViewUpdate the model produced: same views present, same height /
// round / version, same proposed headers, same prevote and precommit
// signatures, same previous commit proof, same round session changes; and that
// the mirror answers every message the way the model predicts (accepted /
// already stored / no new signatures).
//
// A divergence means the C17 generator could produce a sequence the engine
// cannot (or miss one it can) and is reported with clause "model-conformance".

const c17mRule = "same generator as TestVerifC17Gossip; each case is replayed against a real Mirror inside a synctest bubble and the NetworkViewUpdates it emits are compared with the model's; non-trivial = at least 3 updates compared and at least one view shift (commit, nil round or jump); distinct = distinct op lists"

var c17mLog = slog.New(slog.DiscardHandler)

func viewDiff(name string, want, got *tmconsensus.VersionedRoundView) string {
	if (want == nil) != (got == nil) {
		return fmt.Sprintf("%s: model has view=%t, kernel has view=%t", name, want != nil, got != nil)
	}
	if want == nil {
		return ""
	}
	if want.Height != got.Height || want.Round != got.Round {
		return fmt.Sprintf("%s: model %d/%d, kernel %d/%d", name, want.Height, want.Round, got.Height, got.Round)
	}
	if want.Version != got.Version {
		return fmt.Sprintf("%s %d/%d: model version %d, kernel version %d", name, want.Height, want.Round, want.Version, got.Version)
	}
	if want.PrevoteVersion != got.PrevoteVersion || want.PrecommitVersion != got.PrecommitVersion {
		return fmt.Sprintf("%s %d/%d: vote versions model %d/%d kernel %d/%d", name, want.Height, want.Round,
			want.PrevoteVersion, want.PrecommitVersion, got.PrevoteVersion, got.PrecommitVersion)
	}
	wp, wv, wc := m.ViewFacts(want)
	gp, gv, gc := m.ViewFacts(got)
	// proposed headers: same order too (the strategy sends them in slice order)
	if strings.Join(wp, "\n") != strings.Join(gp, "\n") {
		return fmt.Sprintf("%s %d/%d: proposed headers differ: model %d, kernel %d", name, want.Height, want.Round, len(wp), len(gp))
	}
	if d := setDiff(wv, gv); d != "" {
		return fmt.Sprintf("%s %d/%d: prevotes differ: %s", name, want.Height, want.Round, d)
	}
	if d := setDiff(wc, gc); d != "" {
		return fmt.Sprintf("%s %d/%d: precommits differ: %s", name, want.Height, want.Round, d)
	}
	if a, b := pcpString(want.PrevCommitProof), pcpString(got.PrevCommitProof); a != b {
		return fmt.Sprintf("%s %d/%d: previous commit proof differs:\n model  %s\n kernel %s", name, want.Height, want.Round, a, b)
	}
	if string(want.ValidatorSet.PubKeyHash) != string(got.ValidatorSet.PubKeyHash) ||
		string(want.ValidatorSet.VotePowerHash) != string(got.ValidatorSet.VotePowerHash) {
		return fmt.Sprintf("%s %d/%d: validator set differs", name, want.Height, want.Round)
	}
	if a, b := versionsString(want.PrevoteBlockVersions), versionsString(got.PrevoteBlockVersions); a != b {
		return fmt.Sprintf("%s %d/%d: prevote block versions model %s kernel %s", name, want.Height, want.Round, a, b)
	}
	if a, b := versionsString(want.PrecommitBlockVersions), versionsString(got.PrecommitBlockVersions); a != b {
		return fmt.Sprintf("%s %d/%d: precommit block versions model %s kernel %s", name, want.Height, want.Round, a, b)
	}
	ws, gs := want.VoteSummary, got.VoteSummary
	if ws.AvailablePower != gs.AvailablePower || ws.TotalPrevotePower != gs.TotalPrevotePower || ws.TotalPrecommitPower != gs.TotalPrecommitPower ||
		ws.MostVotedPrevoteHash != gs.MostVotedPrevoteHash || ws.MostVotedPrecommitHash != gs.MostVotedPrecommitHash {
		return fmt.Sprintf("%s %d/%d: vote summary differs: model %+v kernel %+v", name, want.Height, want.Round, ws, gs)
	}
	return ""
}

func versionsString(v map[string]uint32) string {
	var l []string
	for k, n := range v {
		if n != 0 {
			l = append(l, fmt.Sprintf("%x=%d", k, n))
		}
	}
	sort.Strings(l)
	return strings.Join(l, ",")
}

func pcpString(p tmconsensus.CommitProof) string {
	var l []string
	for k, sigs := range p.Proofs {
		var ss []string
		for _, s := range sigs {
			ss = append(ss, fmt.Sprintf("%x=%x", s.KeyID, s.Sig))
		}
		sort.Strings(ss)
		l = append(l, fmt.Sprintf("%x:[%s]", k, strings.Join(ss, ",")))
	}
	sort.Strings(l)
	return fmt.Sprintf("r=%d pk=%x %s", p.Round, p.PubKeyHash, strings.Join(l, ";"))
}

func setDiff(want, got []string) string {
	w := map[string]bool{}
	for _, x := range want {
		w[x] = true
	}
	g := map[string]bool{}
	for _, x := range got {
		g[x] = true
	}
	for x := range w {
		if !g[x] {
			return "kernel lacks " + x
		}
	}
	for x := range g {
		if !w[x] {
			return "model lacks " + x
		}
	}
	if len(want) != len(got) {
		return fmt.Sprintf("multiplicity: model %d kernel %d", len(want), len(got))
	}
	return ""
}

func rscString(l []tmelink.RoundSessionChange) string {
	var s []string
	for _, c := range l {
		s = append(s, fmt.Sprintf("%d/%d:%d", c.Height, c.Round, c.State))
	}
	sort.Strings(s)
	return strings.Join(s, " ")
}

func updateDiff(want, got *tmelink.NetworkViewUpdate) string {
	for _, x := range []struct {
		n    string
		w, g *tmconsensus.VersionedRoundView
	}{
		{"committing", want.Committing, got.Committing},
		{"voting", want.Voting, got.Voting},
		{"nextround", want.NextRound, got.NextRound},
		{"nilvoted", want.NilVotedRound, got.NilVotedRound},
	} {
		if d := viewDiff(x.n, x.w, x.g); d != "" {
			return d
		}
	}
	if a, b := rscString(want.RoundSessionChanges), rscString(got.RoundSessionChanges); a != b {
		return fmt.Sprintf("round session changes: model [%s] kernel [%s]", a, b)
	}
	return ""
}

type c17mFailure struct{ clause, detail string }

func c17mRun(tt *testing.T, c m.Case) (fail *c17mFailure, cnt m.Counters, compared int) {
	c.Normalize()
	kit := m.GetKit(c.N, c.Pow)
	sim := m.NewSim(kit)

	synctest.Test(tt, func(*testing.T) {
		ctx, cancel := context.WithCancel(context.Background())
		defer cancel()

		gso := make(chan tmelink.NetworkViewUpdate)
		wd, wctx := gwatchdog.NewNopWatchdog(ctx, c17mLog)
		cfg := tmmirror.MirrorConfig{
			Store:                tmmemstore.NewMirrorStore(),
			CommittedHeaderStore: tmmemstore.NewCommittedHeaderStore(),
			RoundStore:           tmmemstore.NewRoundStore(),
			ValidatorStore:       tmmemstore.NewValidatorStore(kit.Fx.HashScheme),

			InitialHeight:       1,
			InitialValidatorSet: kit.VS,

			HashScheme:                        kit.Fx.HashScheme,
			SignatureScheme:                   kit.Fx.SignatureScheme,
			CommonMessageSignatureProofScheme: kit.Fx.CommonMessageSignatureProofScheme,

			ProposedHeaderFetcher: tmelinktest.NewPHFetcher(64, 1).ProposedHeaderFetcher(),

			GossipStrategyOut: gso,
			LagStateOut:       make(chan tmelink.LagState),

			StateMachineRoundViewOut:    make(chan tmeil.StateMachineRoundView),
			StateMachineRoundEntranceIn: make(chan tmeil.StateMachineRoundEntrance, 1),
			ReplayedHeadersIn:           make(chan tmelink.ReplayedHeaderRequest),

			Watchdog:  wd,
			AssertEnv: gasserttest.DefaultEnv(),
		}
		mir, err := tmmirror.NewMirror(wctx, c17mLog, cfg)
		if err != nil {
			fail = &c17mFailure{"harness", "NewMirror: " + err.Error()}
			cancel()
			wd.Wait()
			return
		}
		defer func() {
			cancel()
			mir.Wait()
			wd.Wait()
		}()
		synctest.Wait()

		ops := append(append([]m.Op(nil), c.Ops...), m.Op{K: "read"})
		for i, op := range ops {
			o := sim.Step(op)
			if o.Skipped != "" {
				continue
			}
			where := fmt.Sprintf("op %d of %d (%+v)", i, len(ops), op)
			switch {
			case o.PH != nil:
				res := mir.HandleProposedHeader(ctx, *o.PH)
				want := tmconsensus.HandleProposedHeaderAccepted
				if o.Result == "dup" {
					want = tmconsensus.HandleProposedHeaderAlreadyStored
				}
				if res != want {
					fail = &c17mFailure{"model-conformance", fmt.Sprintf("%s: mirror answered %v to the proposed header, model predicted %v", where, res, want)}
					return
				}
			case o.Prevote != nil || o.Precommit != nil:
				var res tmconsensus.HandleVoteProofsResult
				if o.Prevote != nil {
					res = mir.HandlePrevoteProofs(ctx, *o.Prevote)
				} else {
					res = mir.HandlePrecommitProofs(ctx, *o.Precommit)
				}
				want := tmconsensus.HandleVoteProofsAccepted
				if o.Result == "nonew" {
					want = tmconsensus.HandleVoteProofsNoNewSignatures
				}
				if res != want {
					fail = &c17mFailure{"model-conformance", fmt.Sprintf("%s: mirror answered %v to the vote message, model predicted %v", where, res, want)}
					return
				}
			}
			synctest.Wait()
			if op.K != "read" {
				continue
			}
			var got *tmelink.NetworkViewUpdate
			select {
			case u := <-gso:
				got = &u
			default:
			}
			synctest.Wait()
			if (got == nil) != (o.Update == nil) {
				fail = &c17mFailure{"model-conformance", fmt.Sprintf("%s: kernel has an update pending=%t, model=%t", where, got != nil, o.Update != nil)}
				return
			}
			if got == nil {
				continue
			}
			if d := updateDiff(o.Update, got); d != "" {
				fail = &c17mFailure{"model-conformance", fmt.Sprintf("%s: update #%d differs: %s (model views %v)", where, compared, d, o.Expect.Views)}
				return
			}
			compared++
		}
	})
	return fail, sim.C, compared
}

func c17mCase(t vk.TB, tt *testing.T, st *vk.Stats, c m.Case) {
	if st.WantSample() {
		st.Sample(c)
	}
	m.WAL("C17", "TestVerifC17ModelMatchesMirror", c) // kernel goroutine panics kill the process
	var fail *c17mFailure
	var cnt m.Counters
	var compared int
	st.Guard(t, c, func() {
		fail, cnt, compared = c17mRun(tt, c)
	})
	shifts := cnt.Commits + cnt.NilAdvances + cnt.Jumps
	labels := []string{fmt.Sprintf("n=%d", c.N)}
	add := func(n string, v int) {
		if v > 0 {
			labels = append(labels, n)
		}
	}
	add("commit", cnt.Commits)
	add("commits>=3", cnt.Commits/3)
	add("nil-advance", cnt.NilAdvances)
	add("jump", cnt.Jumps)
	add("backfill", cnt.Backfills)
	add("equivocation", cnt.Equivocations)
	add("committing-late-vote", cnt.CommittingLateVote)
	add("committing-late-ph", cnt.CommittingLatePH)
	add("empty-update", cnt.EmptyUpdates)
	add("stuck-unknown-block", cnt.Stuck)
	add("ph-dup", cnt.PHDup)
	add("vote-nonew", cnt.VoteNoNew)
	add("updates-compared>=3", compared/3)
	st.Case(compared >= 3 && shifts > 0, vk.FP(c), labels...)
	if fail != nil {
		st.Fail(t, c, "", fail.clause, "%s", fail.detail)
	}
}

func TestVerifC17ModelMatchesMirror(t *testing.T) {
	st := vk.NewStats("C17", "TestVerifC17ModelMatchesMirror", c17mRule)
	defer st.Flush()
	var c m.Case
	if ok, err := vk.LoadReplay("C17", "TestVerifC17ModelMatchesMirror", &c); err != nil {
		t.Fatal(err)
	} else if ok {
		c17mCase(t, t, st, c)
		return
	} else if vk.Replaying() {
		t.Skip("replay file is for another test")
	}
	g := m.GenCase(40)
	rapid.Check(t, func(rt *rapid.T) {
		c17mCase(rt, t, st, g.Draw(rt, "case"))
	})
}
