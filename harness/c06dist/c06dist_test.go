package tmi

import (
	"fmt"
	"math/big"
	"sort"
	"testing"

	"github.com/gordian-engine/gordian/internal/zzverif/c06kit"
	"github.com/gordian-engine/gordian/internal/zzverif/vk"
	"pgregory.net/rapid"
)

// C06 (direct half, the mirror kernel's own tally): newVoteDistribution is what the kernel
// uses to decide which missing proposed headers to fetch and which block a restarted node
// treats as committing. Its per-target powers must be the recomputation from the signer
// sets: each target gets the power of the distinct validators who signed for it (a
// validator who signed two targets counts in both, as in VoteSummary), the available power
// is the sum of the set, and the result does not depend on map iteration order.
// (VotePowerPresent is not judged: no caller reads it.)

const c06DistRule = "same generator as TestVerifC06Direct (validator sets n in [1,12], vote families incl. equivocation); every family and kind is tallied by the kernel's newVoteDistribution from proof maps built in three insertion orders and compared with the math/big recomputation per target; non-trivial = some validator signs >= 2 targets of the same kind in the family; distinct = distinct (powers, family)"

type c06DistFP struct {
	P []uint64
	F []c06kit.Family
}

func c06DistRun(t vk.TB, st *vk.Stats, c c06kit.Case) {
	w := c06kit.Resolve(c)
	if st.WantSample() {
		st.Sample(c)
	}
	nontrivial := false
	for fi := range w.Fams {
		for k := 0; k < 2; k++ {
			if mt, _ := w.Fams[fi].Equivocation(k, w.N); mt >= 2 {
				nontrivial = true
			}
		}
	}
	lab := "proof=stand-in"
	if w.Real {
		lab = "proof=real-ed25519"
	}
	st.Case(nontrivial, vk.FP(c06DistFP{w.Powers, c.Fams}), "profile="+c.Profile, lab)
	u := func(x uint64) *big.Int { return new(big.Int).SetUint64(x) }
	st.Guard(t, c, func() {
		for fi := range w.Fams {
			f := &w.Fams[fi]
			for kind := 0; kind < 2; kind++ {
				ref := w.KindOracle(f, kind)
				for rep := 0; rep < 3; rep++ {
					d := newVoteDistribution(w.ProofMap(f, kind, uint32(fi*11+kind*5+rep*3)), w.Vals)
					if u(d.AvailableVotePower).Cmp(w.Total) != 0 {
						st.Fail(t, c, "", "distribution-available-power", "family %d kind %d: AvailableVotePower %d, the set's total is %s", fi, kind, d.AvailableVotePower, w.Total)
					}
					for hash, want := range ref.Block {
						if u(d.BlockVotePower[hash]).Cmp(want) != 0 {
							st.Fail(t, c, "", "distribution-block-power", "family %d kind %d (insertion order %d): newVoteDistribution reports power %d for target %x, its distinct signers hold %s (all targets: %s)", fi, kind, rep, d.BlockVotePower[hash], hash, want, c06DistShow(d.BlockVotePower))
						}
					}
					for hash, got := range d.BlockVotePower {
						if _, ok := ref.Block[hash]; !ok && got != 0 {
							st.Fail(t, c, "", "distribution-block-power", "family %d kind %d: power %d reported for target %x that has no proof", fi, kind, got, hash)
						}
					}
				}
			}
		}
	})
}

func c06DistShow(m map[string]uint64) string {
	keys := make([]string, 0, len(m))
	for k := range m {
		keys = append(keys, k)
	}
	sort.Strings(keys)
	out := ""
	for _, k := range keys {
		out += fmt.Sprintf("%x=%d ", k, m[k])
	}
	return out
}

func TestVerifC06Distribution(t *testing.T) {
	st := vk.NewStats("C06", "TestVerifC06Distribution", c06DistRule)
	defer st.Flush()
	var c c06kit.Case
	if ok, err := vk.LoadReplay("C06", "TestVerifC06Distribution", &c); err != nil {
		t.Fatal(err)
	} else if ok {
		c06DistRun(t, st, c)
		return
	} else if vk.Replaying() {
		t.Skip("replay file is for another test")
	}
	rapid.Check(t, func(rt *rapid.T) {
		c06DistRun(rt, st, c06kit.Gen(rt))
	})
}
