package tmmirror_test

import (
	"os"
	"bytes"
	"context"
	"crypto/ed25519"
	"fmt"
	"math/big"
	"testing/synctest"

	"github.com/gordian-engine/gordian/gcrypto"
	"github.com/gordian-engine/gordian/internal/zzverif/vk"
	"github.com/gordian-engine/gordian/tm/tmconsensus"
	"github.com/gordian-engine/gordian/tm/tmengine/internal/tmeil"
	"github.com/gordian-engine/gordian/tm/tmengine/tmelink"
)

// ---------------------------------------------------------------------------
// helpers

func sign(key int, msg []byte) []byte { return ed25519.Sign(msPriv[key], msg) }

func flip(b []byte) []byte {
	c := bytes.Clone(b)
	if len(c) > 0 {
		c[len(c)/2] ^= 0x40
	}
	return c
}

func maskIdx(mask uint32, n int) []int {
	var out []int
	for i := 0; i < n; i++ {
		if mask&(1<<uint(i)) != 0 {
			out = append(out, i)
		}
	}
	return out
}

func fullMask(n int) uint32 { return (1 << uint(n)) - 1 }

// committedHeader returns the header the node recorded as committed at h.
func (s *sim) committedHeader(h uint64) (tmconsensus.CommittedHeader, bool) {
	ch, err := s.d.chs.LoadCommittedHeader(context.Background(), h)
	return ch, err == nil
}

// knownAt returns the self-consistent proposals the harness built for height h.
func (s *sim) knownAt(h uint64) []tmconsensus.ProposedHeader { return s.w.known[h] }

func (s *sim) targetHash(h uint64, t int) string {
	if t == -1 {
		return ""
	}
	if t >= 100 {
		return string(s.w.unknownHashes[(t-100)%len(s.w.unknownHashes)])
	}
	k := s.knownAt(h)
	if len(k) == 0 {
		return string(s.w.unknownHashes[t%len(s.w.unknownHashes)])
	}
	if t == 50 {
		// the proposal of that height built most recently
		return string(k[len(k)-1].Header.Hash)
	}
	return string(k[t%len(k)].Header.Hash)
}

// inViewProposal reports whether the node's current voting view holds a proposal with this hash.
func (s *sim) inVotingView(hash string) bool {
	for _, ph := range s.vv.ProposedHeaders {
		if string(ph.Header.Hash) == hash {
			return true
		}
	}
	return false
}

// inVotingViewAfterRefresh re-reads the voting view before looking for the hash.
func (s *sim) inVotingViewAfterRefresh(hash string) bool {
	s.drainAll()
	s.observe()
	return s.inVotingView(hash)
}

func powerOfMask(v vset, mask uint32) *big.Int {
	t := new(big.Int)
	for _, i := range maskIdx(mask, len(v.Keys)) {
		t.Add(t, new(big.Int).SetUint64(v.Powers[i]))
	}
	return t
}

// skipKnown handles an op whose trigger predicate for a listed finding holds:
// while the finding is open the op is excluded by construction (true); in
// reproducer mode the op runs with the finding id attached to any failure.
func (s *sim) skipKnown(id string) bool {
	if id == "" {
		return false
	}
	if vk.Excluded(id) {
		s.excluded[id]++
		return true
	}
	s.pendingFinding = id
	if s.wal != nil {
		s.wal(id)
	}
	return false
}

// ---------------------------------------------------------------------------
// previous commit proofs

// basePCP builds the honest previous-commit proof a proposer of height h would use.
// lateParent: predecessor and commit round of the block committed at h-1, for a header at the committing height h.
func (s *sim) lateParent(h uint64, hash *[]byte, round *uint32) bool {
	cur, ok := s.committedHeader(h)
	if !ok {
		return false
	}
	prev, ok := s.committedHeader(h - 1)
	if !ok || string(prev.Header.Hash) != string(cur.Header.PrevBlockHash) {
		return false
	}
	*hash, *round = prev.Header.Hash, prev.Proof.Round
	return true
}

func (s *sim) basePCP(h uint64, parentHash string, parentRound uint32) (tmconsensus.CommitProof, vset) {
	if h <= s.w.init {
		return tmconsensus.CommitProof{Proofs: map[string][]gcrypto.SparseSignature{}}, s.w.genesis
	}
	prevSet := s.setFor(h - 1)
	if h == s.vv.Height && s.cv.Height == h-1 {
		// copy what the node itself holds for its committing round
		// (an honest proposer can not include a validator twice: the mirror rejects
		// double signers, so equivocators are kept in the parent's entry only)
		p := tmconsensus.CommitProof{Round: s.cv.Round, PubKeyHash: string(s.cv.ValidatorSet.PubKeyHash), Proofs: map[string][]gcrypto.SparseSignature{}}
		used := map[string]bool{}
		order := append([]string{parentHash}, sortedKeys(s.cv.PrecommitProofs)...)
		for _, hash := range order {
			proof, ok := s.cv.PrecommitProofs[hash]
			if !ok || p.Proofs[hash] != nil {
				continue
			}
			for _, sg := range proof.AsSparse().Signatures {
				if used[string(sg.KeyID)] {
					continue
				}
				used[string(sg.KeyID)] = true
				p.Proofs[hash] = append(p.Proofs[hash], sg)
			}
		}
		return p, prevSet
	}
	// otherwise: the harness signs a full certificate for the parent with the previous height's set
	p := tmconsensus.CommitProof{Round: parentRound, PubKeyHash: string(prevSet.VS.PubKeyHash), Proofs: map[string][]gcrypto.SparseSignature{}}
	msg := precommitBytes(h-1, parentRound, parentHash)
	for i, k := range prevSet.Keys {
		p.Proofs[parentHash] = append(p.Proofs[parentHash], gcrypto.SparseSignature{KeyID: keyID(i), Sig: sign(k, msg)})
	}
	return p, prevSet
}

const (
	pcpExact = iota
	pcpBelowQuorum
	pcpExtraNil
	pcpCorruptSig
	pcpDoubleSigner
	pcpWrongRound
	pcpWrongPKH
	pcpUnknownKey
	pcpKeyIDLen1
	pcpKeyIDLen0
	pcpKeyIDLen3
	pcpEmptyPKH
	pcpOtherRoundCert // a genuine certificate for the same parent from a later round, plus one nil precommit of that round
	pcpForgedSide     // exact certificate plus a nil entry whose signature is the validator's nil PREVOTE of that round
	pcpOwnSet         // "certificate" for the parent signed by the validator set of the header's own height, under that set's key hash
	pcpVariants
)

func (s *sim) mutatePCP(p tmconsensus.CommitProof, prevSet vset, h uint64, parentHash string, variant int) tmconsensus.CommitProof {
	p = p.Clone()
	main := p.Proofs[parentHash]
	switch variant {
	case pcpBelowQuorum:
		// keep a prefix of signers whose power does not exceed 2/3
		var keep []gcrypto.SparseSignature
		acc := map[int]bool{}
		for _, sg := range main {
			ok, _ := validSigners(prevSet, precommitBytes(h-1, p.Round, parentHash), []gcrypto.SparseSignature{sg})
			for i := range ok {
				acc[i] = true
			}
			if exceedsTwoThirds(powerOf(prevSet, acc), prevSet.total()) {
				break
			}
			keep = append(keep, sg)
		}
		if len(keep) == 0 {
			delete(p.Proofs, parentHash)
		} else {
			p.Proofs[parentHash] = keep
		}
	case pcpOwnSet:
		own := s.setFor(h)
		if string(own.VS.PubKeyHash) == string(prevSet.VS.PubKeyHash) {
			return p // same set at both heights: nothing to confuse
		}
		q := tmconsensus.CommitProof{Round: p.Round, PubKeyHash: string(own.VS.PubKeyHash), Proofs: map[string][]gcrypto.SparseSignature{}}
		msg := precommitBytes(h-1, p.Round, parentHash)
		for i, k := range own.Keys {
			q.Proofs[parentHash] = append(q.Proofs[parentHash], gcrypto.SparseSignature{KeyID: keyID(i), Sig: sign(k, msg)})
		}
		return q
	case pcpForgedSide:
		signed := map[int]bool{}
		for _, sigs := range p.Proofs {
			for _, sg := range sigs {
				if len(sg.KeyID) == 2 {
					signed[int(sg.KeyID[0])<<8|int(sg.KeyID[1])] = true
				}
			}
		}
		who := 0
		for i := range prevSet.Keys {
			if !signed[i] {
				who = i // prefer a validator without a precommit in the proof (no double signer involved)
				break
			}
		}
		p.Proofs[""] = append(p.Proofs[""], gcrypto.SparseSignature{KeyID: keyID(who), Sig: sign(prevSet.Keys[who], prevoteBytes(h-1, p.Round, ""))})
	case pcpExtraNil, pcpUnknownKey, pcpDoubleSigner:
		target := ""
		if variant == pcpUnknownKey {
			target = string(s.w.unknownHashes[0])
		}
		signed := map[int]bool{}
		for _, sigs := range p.Proofs {
			for _, sg := range sigs {
				if len(sg.KeyID) == 2 {
					signed[int(sg.KeyID[0])<<8|int(sg.KeyID[1])] = true
				}
			}
		}
		who := -1
		for i := range prevSet.Keys {
			if signed[i] == (variant == pcpDoubleSigner) {
				who = i
				break
			}
		}
		if who >= 0 {
			msg := precommitBytes(h-1, p.Round, target)
			p.Proofs[target] = append(p.Proofs[target], gcrypto.SparseSignature{KeyID: keyID(who), Sig: sign(prevSet.Keys[who], msg)})
		}
	case pcpOtherRoundCert:
		// validators may have precommitted the same block again in a later round: a certificate
		// the node does not hold, for another round than the one it committed in
		r2 := p.Round + 1
		q := tmconsensus.CommitProof{Round: r2, PubKeyHash: p.PubKeyHash, Proofs: map[string][]gcrypto.SparseSignature{}}
		n := len(prevSet.Keys)
		for i, k := range prevSet.Keys {
			if i == n-1 && n > 3 {
				// the last validator precommitted nil in that round (still > 2/3 for the block when n > 3 and powers allow)
				q.Proofs[""] = append(q.Proofs[""], gcrypto.SparseSignature{KeyID: keyID(i), Sig: sign(k, precommitBytes(h-1, r2, ""))})
				continue
			}
			q.Proofs[parentHash] = append(q.Proofs[parentHash], gcrypto.SparseSignature{KeyID: keyID(i), Sig: sign(k, precommitBytes(h-1, r2, parentHash))})
		}
		return q
	case pcpCorruptSig:
		if len(main) > 0 {
			main[0].Sig = flip(main[0].Sig)
		}
	case pcpWrongRound:
		p.Round++
	case pcpWrongPKH:
		p.PubKeyHash = string(flip([]byte(p.PubKeyHash + "x")))
	case pcpEmptyPKH:
		p.PubKeyHash = ""
	case pcpKeyIDLen1:
		if len(main) > 0 {
			main[0].KeyID = main[0].KeyID[:1]
		}
	case pcpKeyIDLen0:
		if len(main) > 0 {
			main[0].KeyID = nil
		}
	case pcpKeyIDLen3:
		if len(main) > 0 {
			main[0].KeyID = append(bytes.Clone(main[0].KeyID), 0)
		}
	}
	return p
}

// ---------------------------------------------------------------------------
// proposed headers

const (
	phFresh = iota
	phAltNext
	phForgedNext
	phForgedCur
	phBadHash
	phBadSig
	phWrongPrev
	phOtherSigner
	phAnnotated
	phForgedNextPowers
	phForgedNextPubKeysOnly // only the PubKeys slice is foreign; Validators, hashes, block hash, signature untouched
	phForgedCurPubKeysOnly
	phVariants
)

type builtPH struct {
	PH         tmconsensus.ProposedHeader
	H          uint64
	R          uint32
	Consistent bool // lists match hashes, hash and signature right
	Forged     bool
	Variant    int
	PCP        int
	ProposerOK bool
	ParentHash string
}

func (s *sim) buildPH(op Op) builtPH {
	h, r := s.resolve(op)
	set := s.setFor(h)
	n := len(set.Keys)

	// forged copies start from a known proposal of that height
	if (op.V == phForgedNext || op.V == phForgedCur || op.V == phForgedNextPowers || op.V == phForgedNextPubKeysOnly || op.V == phForgedCurPubKeysOnly) && len(s.knownAt(h)) > 0 {
		k := s.knownAt(h)
		orig := k[op.D%len(k)]
		ph := orig
		switch op.V {
		case phForgedNext:
			nx, _ := s.w.lookup(orig.Header.NextValidatorSet.PubKeyHash, orig.Header.NextValidatorSet.VotePowerHash)
			ph.Header.NextValidatorSet = s.w.forgedList(nx, false)
		case phForgedNextPowers:
			nx, _ := s.w.lookup(orig.Header.NextValidatorSet.PubKeyHash, orig.Header.NextValidatorSet.VotePowerHash)
			ph.Header.NextValidatorSet = s.w.forgedList(nx, true)
		case phForgedCur:
			cur, _ := s.w.lookup(orig.Header.ValidatorSet.PubKeyHash, orig.Header.ValidatorSet.VotePowerHash)
			ph.Header.ValidatorSet = s.w.forgedList(cur, false)
		case phForgedNextPubKeysOnly:
			nx, _ := s.w.lookup(orig.Header.NextValidatorSet.PubKeyHash, orig.Header.NextValidatorSet.VotePowerHash)
			f := s.w.forgedList(nx, false)
			vs := orig.Header.NextValidatorSet
			vs.PubKeys = f.PubKeys
			ph.Header.NextValidatorSet = vs
		case phForgedCurPubKeysOnly:
			cur, _ := s.w.lookup(orig.Header.ValidatorSet.PubKeyHash, orig.Header.ValidatorSet.VotePowerHash)
			f := s.w.forgedList(cur, false)
			vs := orig.Header.ValidatorSet
			vs.PubKeys = f.PubKeys
			ph.Header.ValidatorSet = vs
		}
		return builtPH{PH: ph, H: h, R: orig.Round, Forged: true, Variant: op.V, ProposerOK: true, ParentHash: string(orig.Header.PrevBlockHash)}
	}

	// parent
	var parentHash []byte
	var parentRound uint32
	switch {
	case h <= s.w.init:
		parentHash = []byte("genesis-prev-hash")
	case h == s.vv.Height && s.cv.Height == h-1:
		if ch, ok := s.committedHeader(h - 1); ok {
			parentHash = ch.Header.Hash
		} else {
			parentHash = s.w.unknownHashes[1]
		}
		parentRound = s.cv.Round
	case h == s.cv.Height && h > s.w.init && s.lateParent(h, &parentHash, &parentRound):
		// a late proposal for the committing height builds on the block committed below it (the mirror
		// turns down any other predecessor before it looks at the previous-commit proof)
	case h == s.vv.Height+1:
		// parent is a proposal of the voting height, preferably one the node holds in the voting round
		parentRound = s.vv.Round
		var cands []tmconsensus.ProposedHeader
		for _, ph := range s.knownAt(h - 1) {
			if ph.Round == s.vv.Round && s.inVotingView(string(ph.Header.Hash)) {
				cands = append(cands, ph)
			}
		}
		if len(cands) == 0 {
			cands = s.knownAt(h - 1)
		}
		if len(cands) > 0 {
			parent := cands[op.D%len(cands)]
			parentHash = parent.Header.Hash
			// an honest proposer of h builds on its parent: the validator set of h is the parent's next set
			if v, ok := s.w.lookup(parent.Header.NextValidatorSet.PubKeyHash, parent.Header.NextValidatorSet.VotePowerHash); ok {
				set = v
				n = len(set.Keys)
			}
		} else {
			parentHash = s.w.unknownHashes[2]
		}
	default:
		parentHash = s.w.unknownHashes[3]
	}
	if op.V == phWrongPrev {
		parentHash = flip(parentHash)
	}

	pcp, prevSet := s.basePCP(h, string(parentHash), parentRound)
	if op.V == phWrongPrev && h > s.w.init {
		// a well-signed certificate for the wrong predecessor (the harness owns all keys)
		pcp = tmconsensus.CommitProof{Round: parentRound, PubKeyHash: string(prevSet.VS.PubKeyHash), Proofs: map[string][]gcrypto.SparseSignature{}}
		msg := precommitBytes(h-1, parentRound, string(parentHash))
		for i, k := range prevSet.Keys {
			pcp.Proofs[string(parentHash)] = append(pcp.Proofs[string(parentHash)], gcrypto.SparseSignature{KeyID: keyID(i), Sig: sign(k, msg)})
		}
	}
	pcpVariant := op.PCP % pcpVariants
	if h <= s.w.init {
		pcpVariant = pcpExact
	}
	mainKey := string(parentHash)
	pcp = s.mutatePCP(pcp, prevSet, h, mainKey, pcpVariant)

	next := s.w.plan(h + 1)
	if op.V == phAltNext {
		next = s.w.altSet(h + 1)
	}
	hd := tmconsensus.Header{
		PrevBlockHash:    parentHash,
		Height:           h,
		PrevCommitProof:  pcp,
		ValidatorSet:     set.VS,
		NextValidatorSet: next.VS,
		DataID:           []byte(fmt.Sprintf("data-%d-%d-%d", h, r, op.D)),
		PrevAppStateHash: []byte(fmt.Sprintf("app-%d", h-1)),
	}
	var ann tmconsensus.Annotations
	if op.V == phAnnotated {
		hd.Annotations = tmconsensus.Annotations{User: []byte("hu"), Driver: []byte{}}
		ann = tmconsensus.Annotations{User: []byte{}, Driver: []byte("pd")}
	}
	hash, err := msHS.Block(hd)
	if err != nil {
		panic(err)
	}
	hd.Hash = hash

	ph := tmconsensus.ProposedHeader{Header: hd, Round: r, Annotations: ann}
	b := builtPH{PH: ph, H: h, R: r, Consistent: true, Variant: op.V, PCP: pcpVariant, ParentHash: string(parentHash)}

	// proposer
	signKey := -1
	switch {
	case op.P < 0:
		// nil pubkey
	case op.P%(n+2) < n:
		i := op.P % (n + 2)
		signKey = set.Keys[i]
		b.PH.ProposerPubKey = msPub[signKey]
		b.ProposerOK = true
	default:
		signKey = 9 + (op.P % 3) // outsider
		b.PH.ProposerPubKey = msPub[signKey]
	}
	if signKey >= 0 {
		k := signKey
		if op.V == phOtherSigner {
			k = (signKey + 1) % msKeyPool
			b.Consistent = false
		}
		b.PH.Signature = sign(k, proposalBytes(hd, r, ann))
	}
	switch op.V {
	case phBadHash:
		b.PH.Header.Hash = flip(b.PH.Header.Hash)
		b.Consistent = false
	case phBadSig:
		b.PH.Signature = flip(b.PH.Signature)
		b.Consistent = false
	}
	if signKey < 0 || !b.ProposerOK {
		b.Consistent = false
	}
	return b
}

func (s *sim) rememberPH(b builtPH) {
	if b.Forged {
		s.w.forged[string(b.PH.Header.Hash)+"|"+string(b.PH.Signature)] = true
		return
	}
	if b.Consistent {
		for _, k := range s.w.known[b.H] {
			if bytes.Equal(k.Header.Hash, b.PH.Header.Hash) && k.Round == b.PH.Round {
				return
			}
		}
		s.w.known[b.H] = append(s.w.known[b.H], b.PH)
	}
}

// phTrigger evaluates the trigger predicates of the known crash / livelock
// findings for a proposed header against the position observed before the op.
func (s *sim) phTrigger(b builtPH) string { return pickOpen(s.phTriggers(b)) }

func (s *sim) phTriggers(b builtPH) (out []string) {
	h, r := b.H, b.PH.Round
	if b.PH.ProposerPubKey == nil {
		return nil
	}
	if h == s.cv.Height && r > s.cv.Round {
		out = append(out, "C09-A1")
	}
	if h == s.vv.Height && r > s.vv.Round+1 {
		out = append(out, "C09-A2")
	}
	if s.inConc && h == s.vv.Height+2 && b.PH.Header.PrevCommitProof.Round >= 1 {
		// a sibling may commit the voting height first: this header's certificate then is a
		// precommit message for a later round of the new voting height
		pcp := b.PH.Header.PrevCommitProof
		set := s.setFor(h - 1)
		for hash, sigs := range pcp.Proofs {
			ok, _ := validSigners(set, precommitBytes(h-1, pcp.Round, hash), sigs)
			if atLeastOneThird(powerOf(set, ok), set.total()) {
				out = append(out, "C09-A5")
			}
		}
	}
	if h == s.vv.Height+1 {
		// a certificate for the round after the voting round is handled like a next-round precommit message
		// (inside a concurrent group a sibling may advance the round first: any later round)
		if pcp := b.PH.Header.PrevCommitProof; (pcp.Round == s.vv.Round+1 || (s.inConc && pcp.Round > s.vv.Round+1)) && pcp.PubKeyHash == string(s.vv.ValidatorSet.PubKeyHash) {
			set := s.setFor(s.vv.Height)
			for hash, sigs := range pcp.Proofs {
				ok, _ := validSigners(set, precommitBytes(s.vv.Height, pcp.Round, hash), sigs)
				if atLeastOneThird(powerOf(set, ok), set.total()) {
					out = append(out, "C09-A5")
				}
			}
		}
		// the embedded certificate must make the node commit the voting height, else the call never returns
		good := b.PCP == pcpExact && s.inVotingView(b.ParentHash) && b.PH.Header.PrevCommitProof.Round == s.vv.Round &&
			(b.Variant != phWrongPrev)
		if good {
			for _, ph := range s.vv.ProposedHeaders {
				if string(ph.Header.Hash) == b.ParentHash && ph.Round != s.vv.Round {
					good = false
				}
			}
		}
		if !good {
			out = append(out, "C09-A4")
		}
		// the node commits the voting height and then looks at the header again from (h, round 0)
		if r > 1 {
			out = append(out, "C09-A2")
		}
		return out
	}
	acceptable := b.ProposerOK && (b.Variant == phFresh || b.Variant == phAltNext || b.Variant == phForgedNext || b.Variant == phForgedCur ||
		b.Variant == phForgedNextPowers || b.Variant == phForgedNextPubKeysOnly || b.Variant == phForgedCurPubKeysOnly || b.Variant == phWrongPrev || b.Variant == phAnnotated)
	if h == s.vv.Height && (r == s.vv.Round || r == s.vv.Round+1) && h > s.w.init && acceptable {
		switch b.PCP {
		case pcpKeyIDLen1, pcpKeyIDLen0:
			out = append(out, "C09-A13")
		}
		// any block key of the embedded certificate that the committing view lacks
		// (over-approximation: the certificate may still be rejected before the backfill);
		// a header naming another predecessor is rejected before the backfill
		for key := range b.PH.Header.PrevCommitProof.Proofs {
			if b.Variant == phWrongPrev {
				break
			}
			if _, ok := s.cv.PrecommitProofs[key]; !ok {
				out = append(out, "C09-A6")
			}
		}
	}
	if h == s.cv.Height && r == s.cv.Round && h > s.w.init && acceptable {
		// late proposal for the committing round: the mirror has no previous validator set for it
		if b.PH.Header.PrevCommitProof.PubKeyHash == "" {
			out = append(out, "C09-A24")
		}
	}
	return out
}

func (s *sim) execPH(op Op) {
	if !s.alive {
		return
	}
	b := s.buildPH(op)
	if s.skipKnown(s.phTrigger(b)) {
		return
	}
	s.rememberPH(b)
	if op.NS {
		s.label("ph-not-sent")
		return
	}
	if b.Variant == phAltNext {
		s.altUsed = true
	}
	if b.PCP == pcpBelowQuorum || b.PCP == pcpCorruptSig || b.PCP == pcpWrongRound || b.PCP == pcpWrongPKH || b.PCP == pcpForgedSide || b.PCP == pcpOwnSet {
		s.label("must-reject-offered")
	}
	res := s.deliverPH(b.PH)
	s.lastPHRes = append(s.lastPHRes, res...)
	s.label(fmt.Sprintf("ph:v%d", b.Variant))
	for _, r := range res {
		s.label("phres:" + phResName(r))
	}
	if op.Dup {
		s.lastPHRes = append(s.lastPHRes, s.deliverPH(b.PH)...)
	}
}

// deliverPH calls HandleProposedHeader and classifies how the call ended.
type phLogEntry struct {
	Step int
	PH   tmconsensus.ProposedHeader
	Res  tmconsensus.HandleProposedHeaderResult
}

// delivery is one message as it went over the wire (C10 replays the same
// absolute messages in the crash run).
type delivery struct {
	PH     *tmconsensus.ProposedHeader
	Vote   *builtVote
	Replay *builtReplay
}

func (s *sim) deliverPH(ph tmconsensus.ProposedHeader) []tmconsensus.HandleProposedHeaderResult {
	if s.recorder != nil {
		p := ph
		s.recorder(delivery{PH: &p})
	}
	var res tmconsensus.HandleProposedHeaderResult
	var pan any
	cr := s.call(func(ctx context.Context) {
		defer func() { pan = recover() }()
		res = s.n.m.HandleProposedHeader(ctx, ph)
	})
	s.settle(cr)
	if !s.callOutcome(cr, pan, "HandleProposedHeader", fmt.Sprintf("h=%d r=%d", ph.Header.Height, ph.Round)) {
		return nil
	}
	s.phLog = append(s.phLog, phLogEntry{Step: s.step, PH: ph, Res: res})
	// precommits travelling inside the previous-commit proof are votes the validators cast
	if h := ph.Header.Height; h > s.w.init {
		pcp := ph.Header.PrevCommitProof
		s.recordSigned(builtVote{Kind: 1, H: h - 1, R: pcp.Round, Set: s.setFor(h - 1), Proofs: pcp.Proofs})
	}
	return []tmconsensus.HandleProposedHeaderResult{res}
}

// callOutcome turns panics, livelocks and wedges of a call into failures (when
// the test owns liveness) or aborts; true means the call returned normally.
func (s *sim) callOutcome(cr *callResult, pan any, name, what string) bool {
	if cr.crashed {
		return false
	}
	if pan != nil {
		if s.own.liveness {
			s.failf(s.pendingFinding, "panic-in-call", "%s(%s) panicked: %v", name, what, pan)
		} else {
			s.abort = "panic in " + name
		}
		return false
	}
	if cr.livelock() {
		if s.own.liveness {
			s.failf(s.pendingFinding, "livelock", "%s(%s) polled its context more than %d times without returning", name, what, pollLimit)
		} else {
			s.abort = "livelock in " + name
		}
		return false
	}
	if cr.wedged || !cr.done.Load() {
		if s.own.liveness {
			s.failf(s.pendingFinding, "wedged", "%s(%s) returned only through its %s fake-time deadline (done=%v)", name, what, callDeadline, cr.done.Load())
		} else {
			s.abort = "wedged in " + name
		}
		return false
	}
	return true
}

// ---------------------------------------------------------------------------
// votes

const (
	vcNone = iota
	vcFlip
	vcOtherKey
	vcOtherKind
	vcOtherRound
	vcOtherHeight
	vcKeyIDRange
	vcKeyIDLen0
	vcKeyIDLen1
	vcKeyIDLen3
	vcOutsider
	vcOtherTarget
	vcVariants
)

type builtVote struct {
	NamesPastSet bool // the message names (and is signed by) the validator set of the height below
	Kind   int
	H      uint64
	R      uint32
	PKH    string
	Proofs map[string][]gcrypto.SparseSignature
	Set    vset
}

func (s *sim) buildVote(op Op) builtVote {
	h, r := s.resolve(op)
	set := s.setFor(h)
	n := len(set.Keys)
	b := builtVote{Kind: op.Kind, H: h, R: r, Set: set, Proofs: map[string][]gcrypto.SparseSignature{}}
	switch op.PKH {
	case 1:
		b.PKH = string(flip(set.VS.PubKeyHash))
	case 2:
		b.PKH = ""
	default:
		b.PKH = string(set.VS.PubKeyHash)
	}
	signSet := set
	if op.PKH == 3 && h > s.w.init {
		// a validator set of the past keeps voting: the message names the set of the height below and is
		// signed with that set's keys (the node must judge it by the set of the vote's own height)
		signSet = s.setFor(h - 1)
		b.PKH = string(signSet.VS.PubKeyHash)
		b.NamesPastSet = string(signSet.VS.PubKeyHash) != string(set.VS.PubKeyHash)
		n = len(signSet.Keys)
	}
	for _, t := range op.T {
		hash := s.targetHash(h, t.T)
		msg := voteBytes(op.Kind, h, r, hash)
		for _, i := range maskIdx(t.S, n) {
			key := signSet.Keys[i]
			kid := keyID(i)
			m := msg
			c := vcNone
			if t.CM&(1<<uint(i)) != 0 {
				c = t.C % vcVariants
			}
			var sig []byte
			switch c {
			case vcOtherKey:
				key = signSet.Keys[(i+1)%n]
				if n == 1 {
					key = 10
				}
			case vcOtherKind:
				m = voteBytes(1-op.Kind, h, r, hash)
			case vcOtherRound:
				m = voteBytes(op.Kind, h, r+1, hash)
			case vcOtherHeight:
				m = voteBytes(op.Kind, h+1, r, hash)
			case vcKeyIDRange:
				kid = keyID(n + i)
			case vcKeyIDLen0:
				kid = nil
			case vcKeyIDLen1:
				kid = kid[1:]
			case vcKeyIDLen3:
				kid = append(kid, 0)
			case vcOutsider:
				key = 9 + i%3
			case vcOtherTarget:
				m = voteBytes(op.Kind, h, r, string(s.w.unknownHashes[5]))
			}
			sig = sign(key, m)
			if c == vcFlip {
				sig = flip(sig)
			}
			b.Proofs[hash] = append(b.Proofs[hash], gcrypto.SparseSignature{KeyID: kid, Sig: sig})
		}
	}
	return b
}

// authentic counts (target, signer) pairs of the message that verify for the
// target they are filed under, under the prescribed set; short holds whether
// any key id is not exactly two bytes.
func (b builtVote) authentic() (pairs int, perTarget map[string]map[int]bool, short bool) {
	perTarget = map[string]map[int]bool{}
	for hash, sigs := range b.Proofs {
		for _, sg := range sigs {
			if len(sg.KeyID) < 2 {
				short = true
			}
		}
		ok, _ := validSigners(b.Set, voteBytes(b.Kind, b.H, b.R, hash), sigs)
		perTarget[hash] = ok
		pairs += len(ok)
	}
	return
}

// voteTrigger returns the listed finding whose trigger predicate holds for the vote message:
// an open one (excluded by construction) if any, else the first that holds (fixed entries
// exclude nothing; the name then only labels a process death in the write-ahead file).
func (s *sim) voteTrigger(b builtVote) string { return pickOpen(s.voteTriggers(b)) }

func pickOpen(ids []string) string {
	for _, id := range ids {
		if vk.Excluded(id) {
			return id
		}
	}
	if len(ids) > 0 {
		return ids[0]
	}
	return ""
}

func (s *sim) voteTriggers(b builtVote) (out []string) {
	h, r := b.H, b.R
	if len(b.Proofs) == 0 {
		return nil
	}
	if (h == s.cv.Height && r > s.cv.Round) || (s.cv.Height == 0 && h > 0 && h < s.vv.Height) {
		out = append(out, "C09-A3")
	}
	future := h > s.vv.Height || (h == s.vv.Height && r > s.vv.Round+1)
	pairs, per, short := b.authentic()
	if s.c10 && h > s.vv.Height && pairs > 0 {
		// stored as FutureVerified, but a view shift into that height starts from an empty view
		out = append(out, "C10-F2")
	}
	if h > s.vv.Height && b.NamesPastSet {
		// the same site reached directly: the message names a set the store knows (the one of the height
		// below) that is not the set of the vote's height
		out = append(out, "C09-A26")
	}
	if h > s.vv.Height && pairs > 0 && (s.altUsed || s.caseHasAlt()) {
		// verified against the set its PubKeyHash names and stored for a height whose set may differ:
		// only a Byzantine-but-consistent alternative next set can make the chain's set for that height
		// differ from the one the harness signs with (the application's plan is a function of the height)
		out = append(out, "C09-A26")
	}
	if future && short {
		// reaches MergeSparse without the key-id filter (only when the pubkeys can be found)
		out = append(out, "C09-A13")
	}
	nextRound := r == s.vv.Round+1
	if s.inConc {
		// a sibling may advance the round first: any later round can become the next round
		nextRound = r >= s.vv.Round+1
	}
	cand := h == s.vv.Height && nextRound && b.PKH == string(s.vv.ValidatorSet.PubKeyHash)
	if s.inConc && h == s.vv.Height+1 && r >= 1 && b.PKH == string(b.Set.VS.PubKeyHash) {
		// a sibling (next-height header with a certificate) may commit the voting height first:
		// the vote then meets the next-round view of the new voting height
		cand = true
	}
	if b.Kind == 1 && cand {
		for _, ok := range per {
			if atLeastOneThird(powerOf(b.Set, ok), b.Set.total()) {
				out = append(out, "C09-A5")
			}
		}
	}
	return out
}

// fMaskFor sanitizes the configured candidate set F for the validator set of
// height h: members are dropped (highest index first) until 3*power(F) < total.
func (s *sim) fMaskFor(h uint64) uint32 {
	set := s.setFor(h)
	m := s.c.Cfg.F & fullMask(len(set.Keys))
	for i := len(set.Keys) - 1; i >= 0 && m != 0; i-- {
		if new(big.Int).Mul(big.NewInt(3), powerOfMask(set, m)).Cmp(set.total()) < 0 {
			break
		}
		m &^= 1 << uint(i)
	}
	if new(big.Int).Mul(big.NewInt(3), powerOfMask(set, m)).Cmp(set.total()) >= 0 {
		m = 0
	}
	return m
}

func (s *sim) execVote(op Op) {
	if !s.alive {
		return
	}
	if s.fOnly {
		if !s.fPhase {
			s.fPhase = true
			s.fStart = [2]uint64{s.vv.Height, uint64(s.vv.Round)}
		}
		op.T = append([]VT(nil), op.T...)
		hh, _ := s.resolve(op)
		s.fMask = s.fMaskFor(hh)
		for i := range op.T {
			op.T[i].S &= s.fMask
		}
	}
	b := s.buildVote(op)
	if s.skipKnown(s.voteTrigger(b)) {
		return
	}
	pairs, perT, _ := b.authentic()
	s.classifyVote(b, pairs)
	sv := sentVote{Step: s.step, Kind: b.Kind, H: b.H, R: b.R, Authentic: pairs, Targets: len(b.Proofs), Per: perT}
	n := 1
	if op.Dup {
		n = 2
	}
	for i := 0; i < n && !s.stopped(); i++ {
		if res, ok := s.deliverVote(b); ok {
			if res == tmconsensus.HandleVoteProofsFutureVerified {
				if s.futureStored == nil {
					s.futureStored = map[string]bool{}
				}
				s.futureStored[fmt.Sprintf("%d/%d", b.H, b.R)] = true
			}
			sv.Results = append(sv.Results, res)
			s.lastVoteRes = append(s.lastVoteRes, res)
			s.label("voteres:" + voteResName(res))
		}
	}
	s.sentVotes = append(s.sentVotes, sv)
}

// recordSigned remembers which target each validator authentically signed per (kind, h, r).
func (s *sim) recordSigned(b builtVote) {
	if s.signed == nil {
		s.signed = map[string]map[string]bool{}
	}
	_, per, _ := b.authentic()
	for hash, ok := range per {
		for i := range ok {
			k := fmt.Sprintf("%d/%d/%d/%d", b.Kind, b.H, b.R, i)
			if s.signed[k] == nil {
				s.signed[k] = map[string]bool{}
			}
			s.signed[k][hash] = true
		}
	}
}

// honestMask drops the validators that already signed another target of that kind in (h, r):
// honest validators (round macro) and real certificates (replays) never contain such a second vote.
func (s *sim) honestMask(kind int, h uint64, r uint32, hash string, mask uint32, n int) uint32 {
	for _, i := range maskIdx(mask, n) {
		for other := range s.signed[fmt.Sprintf("%d/%d/%d/%d", kind, h, r, i)] {
			if other != hash {
				mask &^= 1 << uint(i)
			}
		}
	}
	return mask
}

func (s *sim) classifyVote(b builtVote, pairs int) {
	s.recordSigned(b)
	if s.fOnly {
		if s.fSigned == nil {
			s.fSigned = map[string]string{}
		}
		_, per, _ := b.authentic()
		for hash, ok := range per {
			for i := range ok {
				k := fmt.Sprintf("%d/%d/%d/%d", b.H, b.R, b.Kind, i)
				if prev, seen := s.fSigned[k]; seen && prev != hash {
					s.label("f-equivocation")
				}
				s.fSigned[k] = hash
			}
		}
	}
	total := 0
	unknown := false
	for hash, sigs := range b.Proofs {
		total += len(sigs)
		if hash != "" && !s.inVotingView(hash) {
			unknown = true
		}
	}
	switch {
	case pairs > 0 && pairs < total:
		s.label("vote-mixed")
	case pairs == 0 && unknown:
		s.label("vote-allinvalid-unknown")
	case pairs == 0:
		s.label("vote-allinvalid")
	default:
		s.label("vote-allvalid")
	}
	if len(b.Proofs) > 1 {
		s.label("vote-multitarget")
	}
	switch {
	case b.H == s.vv.Height && b.R == s.vv.Round:
		s.label("vote@voting")
	case b.H == s.vv.Height && b.R == s.vv.Round+1:
		s.label("vote@nextround")
	case b.H == s.cv.Height && s.cv.Height > 0:
		s.label("vote@committing")
	case b.H > s.vv.Height || (b.H == s.vv.Height && b.R > s.vv.Round):
		s.label("vote@future")
	default:
		s.label("vote@old")
	}
}

func (s *sim) deliverVote(b builtVote) (tmconsensus.HandleVoteProofsResult, bool) {
	if s.recorder != nil {
		v := b
		s.recorder(delivery{Vote: &v})
	}
	var res tmconsensus.HandleVoteProofsResult
	var pan any
	cr := s.call(func(ctx context.Context) {
		defer func() { pan = recover() }()
		if b.Kind == 0 {
			res = s.n.m.HandlePrevoteProofs(ctx, tmconsensus.PrevoteSparseProof{Height: b.H, Round: b.R, PubKeyHash: b.PKH, Proofs: b.Proofs})
		} else {
			res = s.n.m.HandlePrecommitProofs(ctx, tmconsensus.PrecommitSparseProof{Height: b.H, Round: b.R, PubKeyHash: b.PKH, Proofs: b.Proofs})
		}
	})
	s.settle(cr)
	name := "HandlePrevoteProofs"
	if b.Kind == 1 {
		name = "HandlePrecommitProofs"
	}
	if !s.callOutcome(cr, pan, name, fmt.Sprintf("h=%d r=%d", b.H, b.R)) {
		return 0, false
	}
	return res, true
}

// ---------------------------------------------------------------------------
// round macro: honest proposal + prevotes + precommits at the voting position

func (s *sim) execRound(op Op) {
	if !s.alive || s.fPhase {
		return
	}
	h, r := s.vv.Height, s.vv.Round
	set := s.setFor(h)
	n := len(set.Keys)
	hash := ""
	if !op.Nil {
		b := s.buildPH(Op{K: "ph", P: op.P % n, D: op.D, V: phFresh})
		if s.skipKnown(s.phTrigger(b)) {
			return
		}
		s.rememberPH(b)
		res := s.deliverPH(b.PH)
		s.lastPHRes = append(s.lastPHRes, res...)
		if s.stopped() {
			return
		}
		if len(res) == 0 || (res[0] != tmconsensus.HandleProposedHeaderAccepted && res[0] != tmconsensus.HandleProposedHeaderAlreadyStored) {
			// honest validators do not vote for a header their own mirror rejected
			s.label("macro-round-ph-rejected")
			if len(res) > 0 {
				s.macroRejected = append(s.macroRejected, fmt.Sprintf("step %d: honest proposal for %d/%d by validator %d building on %s was answered with result %d", s.step, h, r, op.P%n, hx(b.PH.Header.PrevBlockHash), res[0]))
			}
			return
		}
		if res[0] == tmconsensus.HandleProposedHeaderAlreadyStored && !s.inVotingViewAfterRefresh(string(b.PH.Header.Hash)) {
			// same signature as a stored proposal but another block hash: not this header
			s.label("macro-round-ph-shadowed")
			return
		}
		hash = string(b.PH.Header.Hash)
	}
	ps, pc := op.PS, op.S
	if ps == 0 {
		ps = fullMask(n)
	}
	if pc == 0 {
		pc = fullMask(n)
	}
	if !exceedsTwoThirds(powerOfMask(set, pc), set.total()) {
		s.label("must-reject-offered")
	}
	for kind, mask := range []uint32{ps, pc} {
		mask = s.honestMask(kind, h, r, hash, mask, n)
		msg := voteBytes(kind, h, r, hash)
		b := builtVote{Kind: kind, H: h, R: r, Set: set, PKH: string(set.VS.PubKeyHash), Proofs: map[string][]gcrypto.SparseSignature{}}
		for _, i := range maskIdx(mask, n) {
			b.Proofs[hash] = append(b.Proofs[hash], gcrypto.SparseSignature{KeyID: keyID(i), Sig: sign(set.Keys[i], msg)})
		}
		if len(b.Proofs) == 0 {
			continue
		}
		s.recordSigned(b)
		if res, ok := s.deliverVote(b); ok {
			s.lastVoteRes = append(s.lastVoteRes, res)
		}
		if s.stopped() {
			return
		}
		// the voting position may have moved after the prevotes (it must not); keep h, r
	}
	s.label("macro-round")
}

// ---------------------------------------------------------------------------
// replayed headers

const (
	rvHonest = iota
	rvForeignSet
	rvWrongPrev
	rvBadHash
	rvBelowQuorum
	rvBadSig
	rvOtherHeight
	rvEmptyValSet
	rvExtraNil
	rvForeignPowers
	rvForeignPubKeysOnly // genuine Validators list and hashes, foreign PubKeys slice, certificate signed by those keys
	rvForgedNext         // genuine certificate; the NextValidatorSet lists are foreign under the genuine hashes
	rvVariants
)

type builtReplay struct {
	Header  tmconsensus.Header
	Proof   tmconsensus.CommitProof
	Variant int
	H       uint64
	R       uint32
	// expected validity under the prescribed set, decided by construction (the oracle re-verifies independently)
}

func (s *sim) buildReplay(op Op) builtReplay {
	h := s.vv.Height
	variant := op.V % rvVariants
	if variant == rvOtherHeight {
		hh := int64(h) + int64(op.DH)
		if op.DH == 0 {
			hh = int64(h) + 1
		}
		if hh < 0 {
			hh = 0
		}
		h = uint64(hh)
	}
	r := uint32(max(0, int(s.vv.Round)+op.DR))
	set := s.setFor(h)
	n := len(set.Keys)

	// header: a known proposal of the height, or a fresh honest one
	var hd tmconsensus.Header
	if k := s.knownAt(h); len(k) > 0 && op.D%2 == 0 && variant != rvWrongPrev {
		hd = k[(op.D/2)%len(k)].Header
	} else {
		v := phFresh
		if variant == rvWrongPrev {
			v = phWrongPrev
		}
		b := s.buildPH(Op{K: "ph", DH: int(int64(h) - int64(s.vv.Height)), DR: op.DR, P: op.P % n, D: 40 + op.D, V: v})
		if variant != rvWrongPrev {
			s.rememberPH(b)
		}
		hd = b.PH.Header
	}
	signers := set
	switch variant {
	case rvForeignSet, rvForeignPowers:
		hd.ValidatorSet = s.w.forgedList(set, variant == rvForeignPowers)
		if variant == rvForeignSet {
			// certificate signed by the foreign keys
			keys := make([]int, n)
			for i := range keys {
				keys[i] = (7 + i) % msKeyPool
			}
			signers = vset{Keys: keys, Powers: set.Powers}
		}
	case rvForeignPubKeysOnly:
		keys := make([]int, n)
		pks := make([]gcrypto.PubKey, n)
		for i := range keys {
			keys[i] = (7 + i) % msKeyPool
			pks[i] = msPub[keys[i]]
		}
		hd.ValidatorSet.Validators = append([]tmconsensus.Validator(nil), hd.ValidatorSet.Validators...)
		hd.ValidatorSet.PubKeys = pks
		signers = vset{Keys: keys, Powers: set.Powers}
	case rvForgedNext:
		if nv, ok := s.w.lookup(hd.NextValidatorSet.PubKeyHash, hd.NextValidatorSet.VotePowerHash); ok {
			hd.NextValidatorSet = s.w.forgedList(nv, op.D%2 == 1)
		}
	case rvBadHash:
		hd.Hash = flip(hd.Hash)
	case rvEmptyValSet:
		hd.ValidatorSet.Validators = nil
		hd.ValidatorSet.PubKeys = nil
	}
	hash := string(hd.Hash)
	proof := tmconsensus.CommitProof{Round: r, PubKeyHash: string(set.VS.PubKeyHash), Proofs: map[string][]gcrypto.SparseSignature{}}
	mask := op.S
	if mask == 0 {
		mask = fullMask(n)
	}
	if variant == rvBelowQuorum {
		// largest prefix of signers not exceeding two thirds
		mask = 0
		for i := 0; i < n; i++ {
			if exceedsTwoThirds(powerOfMask(set, mask|1<<uint(i)), set.total()) {
				break
			}
			mask |= 1 << uint(i)
		}
	}
	if variant == rvForeignPowers {
		// only the validator whose forged power is largest signs: quorum under the forged powers only
		mask = 1
	}
	if s.realCertificates && (variant == rvHonest || variant == rvBadSig || variant == rvBelowQuorum || variant == rvExtraNil || variant == rvWrongPrev) {
		// a certificate from the real chain holds no second precommit of a validator for that round
		mask = s.honestMask(1, h, r, hash, mask, n)
	}
	msg := precommitBytes(h, r, hash)
	for _, i := range maskIdx(mask, n) {
		proof.Proofs[hash] = append(proof.Proofs[hash], gcrypto.SparseSignature{KeyID: keyID(i), Sig: sign(signers.Keys[i], msg)})
	}
	if variant == rvBadSig && len(proof.Proofs[hash]) > 0 {
		proof.Proofs[hash][0].Sig = flip(proof.Proofs[hash][0].Sig)
	}
	if variant == rvExtraNil {
		// last validator additionally... no: a validator outside the mask precommits nil
		for i := 0; i < n; i++ {
			if mask&(1<<uint(i)) == 0 {
				proof.Proofs[""] = append(proof.Proofs[""], gcrypto.SparseSignature{KeyID: keyID(i), Sig: sign(set.Keys[i], precommitBytes(h, r, ""))})
				break
			}
		}
	}
	return builtReplay{Header: hd, Proof: proof, Variant: variant, H: h, R: r}
}

func (s *sim) replayTrigger(b builtReplay) string { return pickOpen(s.replayTriggers(b)) }

func (s *sim) replayTriggers(b builtReplay) (out []string) {
	if b.H != s.vv.Height {
		return nil
	}
	// replays that the kernel turns down before it looks at the round (other predecessor, validator
	// set or lists that are not the expected ones) reach none of the sites below
	switch b.Variant {
	case rvForeignSet, rvForeignPowers, rvForeignPubKeysOnly, rvForgedNext, rvEmptyValSet:
		return nil
	case rvWrongPrev:
		if s.cv.Height > 0 {
			return nil
		}
	}
	if b.R < s.vv.Round {
		out = append(out, "C09-A9")
	}
	if b.R >= s.vv.Round+2 {
		out = append(out, "C09-A25")
	}
	// A11: the replay passes validation (hash, signatures, > 2/3), its header is not in the view it lands in,
	// and the round store already holds that hash as a proposed header of another round of the height
	if b.Variant == rvHonest || b.Variant == rvExtraNil || b.Variant == rvBelowQuorum {
		set := s.setFor(b.H)
		hash := string(b.Header.Hash)
		ok, bad := checkSigs(set, 1, b.H, b.R, hash, b.Proof.Proofs[hash])
		// the offered signatures are merged into what the node already holds for that round
		if _, _, pc, err := s.d.rs.LoadRoundState(context.Background(), b.H, b.R); err == nil {
			have, _ := checkSigs(set, 1, b.H, b.R, hash, pc.BlockSignatures[hash])
			for i := range have {
				ok[i] = true
			}
		}
		if bad == "" && exceedsTwoThirds(powerOf(set, ok), set.total()) {
			here, elsewhere := false, false
			for r := uint32(0); r <= s.vv.Round+3 || r <= b.R; r++ {
				phs, _, _, err := s.d.rs.LoadRoundState(context.Background(), b.H, r)
				if err != nil {
					continue
				}
				for _, ph := range phs {
					if string(ph.Header.Hash) == hash && len(ph.Signature) > 0 {
						if r == b.R {
							here = true
						} else {
							elsewhere = true
						}
					}
				}
			}
			if elsewhere && !here {
				out = append(out, "C09-A11")
			}
		}
	}
	return out
}

type replayOutcome struct {
	Step int
	B    builtReplay
	Err  error
	Done bool
}

func (s *sim) execReplay(op Op) {
	if !s.alive {
		return
	}
	b := s.buildReplay(op)
	if s.skipKnown(s.replayTrigger(b)) {
		return
	}
	if s.c10 {
		// crash/restart unit: a replayed header stands for block sync on a chain with less than one third
		// of faulty power, where a height has one certificate. The free vote ops of that profile may have
		// made validators precommit other blocks of this height (any round); with a second certificate in
		// play the block a node commits depends on the order in which it evaluates its votes, and a
		// restart legitimately changes that order. Such replays are not generated.
		hash := string(b.Header.Hash)
		for k, targets := range s.signed {
			var kind int
			var hh uint64
			var rr, vi int
			if n, _ := fmt.Sscanf(k, "%d/%d/%d/%d", &kind, &hh, &rr, &vi); n != 4 || kind != 1 || hh != b.H {
				continue
			}
			for t := range targets {
				if t != hash && t != "" {
					s.label("replay-skipped:other-block-precommitted")
					return
				}
			}
		}
	}
	if s.recorder != nil {
		rb := b
		s.recorder(delivery{Replay: &rb})
	}
	if s.realCertificates {
		// the precommits of a certificate from the real chain are votes those validators cast:
		// honest actors (round macro, later replays) never sign a second target for that round
		s.recordSigned(builtVote{Kind: 1, H: b.H, R: b.R, Set: s.setFor(b.H), Proofs: b.Proof.Proofs})
	}
	resp := make(chan tmelink.ReplayedHeaderResponse, 1)
	var out tmelink.ReplayedHeaderResponse
	got := false
	cr := s.call(func(ctx context.Context) {
		select {
		case s.n.replayIn <- tmelink.ReplayedHeaderRequest{Header: b.Header, Proof: b.Proof, Resp: resp}:
		case <-ctx.Done():
			return
		}
		select {
		case out = <-resp:
			got = true
		case <-ctx.Done():
		}
	})
	s.settle(cr)
	if !s.callOutcome(cr, nil, "ReplayedHeader", fmt.Sprintf("h=%d r=%d v=%d", b.H, b.R, b.Variant)) {
		return
	}
	if b.Variant != rvHonest && b.Variant != rvExtraNil {
		s.label("must-reject-offered")
	}
	s.lastReplay = append(s.lastReplay, replayOutcome{Step: s.step, B: b, Err: out.Err, Done: got})
	s.label(fmt.Sprintf("replay:v%d:ok=%v", b.Variant, got && out.Err == nil))
}

// ---------------------------------------------------------------------------
// the harness as local state machine

func (s *sim) localKey(h uint64) (int, int) {
	if s.c.Cfg.Local < 0 {
		return -1, -1
	}
	set := s.setFor(h)
	i := s.c.Cfg.Local % len(set.Keys)
	return i, set.Keys[i]
}

func (s *sim) execSMEnter(op Op) {
	if !s.alive {
		return
	}
	h, r := s.resolve(op)
	if h < s.w.init {
		h = s.w.init
	}
	// sound generator: a state machine never goes backwards
	if s.n.entered && (h < s.n.entH || (h == s.n.entH && r <= s.n.entR)) {
		s.label("sment-skipped-not-forward")
		return
	}
	// A7: the mirror has no view for that round (orphaned or future)
	found := (h == s.vv.Height && (r == s.vv.Round || r == s.vv.Round+1)) ||
		(s.cv.Height > 0 && h == s.cv.Height) || (s.cv.Height > 0 && h < s.cv.Height)
	if !found && s.skipKnown("C09-A7") {
		return
	}
	re := tmeil.StateMachineRoundEntrance{
		H: h, R: r,
		Actions:  make(chan tmeil.StateMachineRoundAction, 3),
		Response: make(chan tmeil.RoundEntranceResponse, 1),
	}
	if !s.n.entered || s.n.entH != h {
		s.n.heightCom = make(chan struct{})
	}
	re.HeightCommitted = s.n.heightCom
	if _, k := s.localKey(h); k >= 0 {
		re.PubKey = msPub[k]
	}
	var resp tmeil.RoundEntranceResponse
	got := false
	cr := s.call(func(ctx context.Context) {
		select {
		case s.n.smIn <- re:
		case <-ctx.Done():
			return
		}
		select {
		case resp = <-re.Response:
			got = true
		case <-ctx.Done():
		}
	})
	s.settle(cr)
	if !s.callOutcome(cr, nil, "StateMachineRoundEntrance", fmt.Sprintf("h=%d r=%d", h, r)) {
		return
	}
	if !got {
		return
	}
	if s.cv.Height > 0 && h == s.cv.Height && r > s.cv.Round {
		// the machine left the committing round by a timeout before the mirror committed it: that height is decided
		if !resp.IsCH() || string(resp.CH.Header.Hash) != s.committingHash() {
			s.failf("", "entrance-beyond-committing-round", "entrance %d/%d while the mirror commits %d/%d was not answered with the committed header %s (is committed header: %v)", h, r, s.cv.Height, s.cv.Round, hx([]byte(s.committingHash())), resp.IsCH())
			return
		}
		s.label("sment:beyond-committing-round")
	}
	s.n.entered, s.n.entH, s.n.entR, s.n.actions = true, h, r, re.Actions
	s.smRecv = append(s.smRecv, smRec{Step: s.step, Entrance: true, H: h, R: r,
		V: tmeil.StateMachineRoundView{VRV: resp.VRV, CH: chPtr(resp)}, Digest: digestVRV(&resp.VRV)})
	s.label(fmt.Sprintf("sment:vrv=%v", resp.IsVRV()))
}

func chPtr(r tmeil.RoundEntranceResponse) *tmconsensus.CommittedHeader {
	if r.IsCH() {
		ch := r.CH
		return &ch
	}
	return nil
}

func (s *sim) execSMAct(op Op) {
	if !s.alive || !s.n.entered || s.n.actions == nil {
		return
	}
	h, r := s.n.entH, s.n.entR
	i, k := s.localKey(h)
	if k < 0 {
		return
	}
	if h == s.cv.Height && r > s.cv.Round && s.skipKnown("C09-A3") {
		// the state machine went one round ahead (precommit delay) and the mirror then committed the earlier round
		return
	}
	var act tmeil.StateMachineRoundAction
	switch op.Kind % 3 {
	case 0:
		if h != s.vv.Height {
			return
		}
		b := s.buildPH(Op{K: "ph", DH: int(int64(h) - int64(s.vv.Height)), DR: int(int64(r) - int64(s.vv.Round)), P: i, D: 80 + op.D, V: phFresh})
		s.rememberPH(b)
		act.PH = b.PH
	case 1:
		hash := s.targetHash(h, firstT(op))
		m := prevoteBytes(h, r, hash)
		act.Prevote = tmeil.ScopedSignature{TargetHash: hash, SignContent: m, Sig: sign(k, m)}
		if op.V == 1 {
			act.Prevote.Sig = flip(act.Prevote.Sig)
		}
	case 2:
		hash := s.targetHash(h, firstT(op))
		m := precommitBytes(h, r, hash)
		act.Precommit = tmeil.ScopedSignature{TargetHash: hash, SignContent: m, Sig: sign(k, m)}
		if op.V == 1 {
			act.Precommit.Sig = flip(act.Precommit.Sig)
		}
	}
	ch := s.n.actions
	cr := s.call(func(ctx context.Context) {
		select {
		case ch <- act:
		case <-ctx.Done():
		}
	})
	s.settle(cr)
	s.label(fmt.Sprintf("smact:%d", op.Kind%3))
}

func firstT(op Op) int {
	if len(op.T) > 0 {
		return op.T[0].T
	}
	return op.D % 3
}

// ---------------------------------------------------------------------------
// proposed header fetcher (a driver component the engine trusts to return the
// header with the requested hash): answers a pending fetch request honestly.

func (s *sim) execFetch(op Op) {
	if !s.alive || len(s.fetchReqs) == 0 {
		return
	}
	i := op.D % len(s.fetchReqs)
	if op.D == 99 {
		i = len(s.fetchReqs) - 1 // the latest request
	}
	fr := s.fetchReqs[i]
	s.fetchReqs = append(s.fetchReqs[:i], s.fetchReqs[i+1:]...)
	for _, ph := range s.knownAt(fr.H) {
		if string(ph.Header.Hash) == fr.Hash {
			// a fetcher matches on height and hash (its documented contract); the peer it asked may have
			// sent lists that differ from what the hashes inside the header stand for
			switch op.V {
			case 1:
				if nv, ok := s.w.lookup(ph.Header.NextValidatorSet.PubKeyHash, ph.Header.NextValidatorSet.VotePowerHash); ok {
					ph.Header.NextValidatorSet = s.w.forgedList(nv, false)
					s.w.forged[string(ph.Header.Hash)+"|"+string(ph.Signature)] = true
					s.label("fetch-answer-forged-next-list")
				}
			case 2:
				if cv, ok := s.w.lookup(ph.Header.ValidatorSet.PubKeyHash, ph.Header.ValidatorSet.VotePowerHash); ok {
					f := s.w.forgedList(cv, false)
					ph.Header.ValidatorSet.Validators = append([]tmconsensus.Validator(nil), ph.Header.ValidatorSet.Validators...)
					ph.Header.ValidatorSet.PubKeys = f.PubKeys
					s.w.forged[string(ph.Header.Hash)+"|"+string(ph.Signature)] = true
					s.label("fetch-answer-foreign-pubkeys")
				}
			case 3:
				// the requested hash and the genuine validator sets, but other content under them
				ph.Header.DataID = append(append([]byte(nil), ph.Header.DataID...), []byte("-altered")...)
				s.w.forged[string(ph.Header.Hash)+"|"+string(ph.Signature)] = true
				s.label("fetch-answer-altered-content")
			}
			select {
			case s.n.fetch.FetchedCh <- ph:
				s.label("fetch-answered")
				for j, o := range s.fetchOpen {
					if o.H == fr.H && o.Hash == fr.Hash && o.Ctx == fr.Ctx {
						s.fetchOpen = append(s.fetchOpen[:j], s.fetchOpen[j+1:]...)
						break
					}
				}
			default:
			}
			synctest.Wait()
			return
		}
	}
	s.label("fetch-unknown-hash")
}

// ---------------------------------------------------------------------------
// concurrent delivery: sub-ops are built against the same observed position
// and delivered from separate goroutines.

func (s *sim) execConc(op Op) {
	if !s.alive {
		return
	}
	type pending struct {
		cr   *callResult
		pan  *any
		name string
		fin  func()
	}
	var ps []pending
	if op.N == 1 {
		s.label("race-pair")
	}
	s.inConc = true
	defer func() { s.inConc = false }()
	for _, sub := range op.Sub {
		switch sub.K {
		case "ph":
			b := s.buildPH(sub)
			if traceOn {
				fmt.Fprintf(os.Stderr, "TRACE    conc ph h=%d r=%d pcpround=%d trigger=%q\n", b.H, b.R, b.PH.Header.PrevCommitProof.Round, s.phTrigger(b))
			}
			if id := s.phTrigger(b); id != "" && vk.Excluded(id) {
				s.excluded[id]++
				continue
			}
			if b.H > s.vv.Height && vk.Excluded("C09-A8") {
				// a next-height header commits while other messages are in flight
				s.excluded["C09-A8"]++
				continue
			}
			s.rememberPH(b)
			if sub.NS {
				continue
			}
			var res tmconsensus.HandleProposedHeaderResult
			var pan any
			cr := s.call(func(ctx context.Context) {
				defer func() { pan = recover() }()
				res = s.n.m.HandleProposedHeader(ctx, b.PH)
			})
			ps = append(ps, pending{cr: cr, pan: &pan, name: "HandleProposedHeader", fin: func() { s.lastPHRes = append(s.lastPHRes, res) }})
		case "vote":
			b := s.buildVote(sub)
			if traceOn {
				fmt.Fprintf(os.Stderr, "TRACE    conc vote h=%d r=%d kind=%d targets=%d trigger=%q\n", b.H, b.R, b.Kind, len(b.Proofs), s.voteTrigger(b))
			}
			if id := s.voteTrigger(b); id != "" && vk.Excluded(id) {
				s.excluded[id]++
				continue
			}
			// votes that are not for the voting round itself can be overtaken by a view shift
			// caused by a sibling (A8 and the FindView race); keep them out while that finding is open
			if (b.H != s.vv.Height || b.R != s.vv.Round) && vk.Excluded("C09-A8") {
				s.excluded["C09-A8"]++
				continue
			}
			var res tmconsensus.HandleVoteProofsResult
			var pan any
			bb := b
			cr := s.call(func(ctx context.Context) {
				defer func() { pan = recover() }()
				if bb.Kind == 0 {
					res = s.n.m.HandlePrevoteProofs(ctx, tmconsensus.PrevoteSparseProof{Height: bb.H, Round: bb.R, PubKeyHash: bb.PKH, Proofs: bb.Proofs})
				} else {
					res = s.n.m.HandlePrecommitProofs(ctx, tmconsensus.PrecommitSparseProof{Height: bb.H, Round: bb.R, PubKeyHash: bb.PKH, Proofs: bb.Proofs})
				}
			})
			pairs, perT, _ := b.authentic()
			s.classifyVote(b, pairs)
			step := s.step
			ps = append(ps, pending{cr: cr, pan: &pan, name: "HandleVoteProofs", fin: func() {
				if res == tmconsensus.HandleVoteProofsFutureVerified {
					if s.futureStored == nil {
						s.futureStored = map[string]bool{}
					}
					s.futureStored[fmt.Sprintf("%d/%d", bb.H, bb.R)] = true
				}
				s.lastVoteRes = append(s.lastVoteRes, res)
				s.sentVotes = append(s.sentVotes, sentVote{Step: step, Kind: bb.Kind, H: bb.H, R: bb.R, Authentic: pairs, Targets: len(bb.Proofs), Per: perT, Results: []tmconsensus.HandleVoteProofsResult{res}})
			}})
		}
	}
	var crs []*callResult
	for _, p := range ps {
		crs = append(crs, p.cr)
	}
	s.settle(crs...)
	for _, p := range ps {
		if s.callOutcome(p.cr, *p.pan, p.name, "concurrent") {
			p.fin()
		}
	}
	s.concurrentStep[s.step] = true
	s.label("conc")
}

// ---------------------------------------------------------------------------
// crash / restart

func (s *sim) execCrash(op Op) {
	// implemented by the C10 test through start(crashAt); a plain crash op
	// stops the process right now (after the previous operation).
	if !s.alive {
		return
	}
	s.stop()
	s.label("crash-now")
}

// caseHasAlt: some proposed header of this case declares an alternative next validator set
// (the op list is data, so the interpreter may look ahead).
func (s *sim) caseHasAlt() bool {
	if s.hasAlt == 0 {
		s.hasAlt = 1
		var scan func(ops []Op)
		scan = func(ops []Op) {
			for _, op := range ops {
				if op.K == "ph" && op.V == phAltNext {
					s.hasAlt = 2
				}
				scan(op.Sub)
			}
		}
		scan(s.c.Ops)
	}
	return s.hasAlt == 2
}

// restartTrigger: findings that a restart on the current store contents would hit.
func (s *sim) restartTrigger() string {
	if s.alive && s.cv.Height > 0 {
		// the committed block no longer holds the strictly largest precommit power of the
		// committing round (tie or overtaken by late conflicting precommits: needs >= 1/3 double signers)
		_, _, per, _, _ := recomputeSummary(s.setFor(s.cv.Height), nil, s.cv.PrecommitProofs)
		committed := s.committingHash()
		cp := per[committed]
		for hash, p := range per {
			if hash != committed && (cp == nil || p.Cmp(cp) >= 0) {
				return "C09-A27"
			}
		}
	}
	return ""
}

func (s *sim) execRestart(op Op) {
	if s.skipKnown(s.restartTrigger()) {
		return
	}
	if s.alive {
		s.stop()
	}
	s.start(0)
	s.restarts++
	s.label("restart")
}

func phResName(r tmconsensus.HandleProposedHeaderResult) string { return fmt.Sprintf("%d", r) }
func voteResName(r tmconsensus.HandleVoteProofsResult) string   { return fmt.Sprintf("%d", r) }
