package tmmirror_test

import (
	"context"
	"crypto/ed25519"
	"encoding/binary"
	"fmt"
	"math/big"
	"sort"
	"strings"

	"github.com/bits-and-blooms/bitset"
	"github.com/gordian-engine/gordian/gcrypto"
	"github.com/gordian-engine/gordian/tm/tmconsensus"
	"github.com/gordian-engine/gordian/tm/tmengine/internal/tmeil"
	"github.com/gordian-engine/gordian/tm/tmengine/tmelink"
)

// ---------------------------------------------------------------------------
// cached independent signature verification (crypto/ed25519 directly)

type vkey struct {
	key int
	msg string
	sig string
}

var verifyCache = map[vkey]bool{}

func verifyWith(key int, msg, sig []byte) bool {
	k := vkey{key, string(msg), string(sig)}
	if v, ok := verifyCache[k]; ok {
		return v
	}
	v := ed25519.Verify(msPriv[key].Public().(ed25519.PublicKey), msg, sig)
	if len(verifyCache) > 200000 {
		verifyCache = map[vkey]bool{}
	}
	verifyCache[k] = v
	return v
}

// checkSigs verifies every sparse signature for (kind,h,r,hash) under set;
// returns verified indices and a description of the first bad entry.
func checkSigs(set vset, kind int, h uint64, r uint32, hash string, sigs []gcrypto.SparseSignature) (map[int]bool, string) {
	ok := map[int]bool{}
	msg := voteBytes(kind, h, r, hash)
	for _, sg := range sigs {
		if len(sg.KeyID) != 2 {
			return ok, fmt.Sprintf("key id %x has length %d", sg.KeyID, len(sg.KeyID))
		}
		i := int(binary.BigEndian.Uint16(sg.KeyID))
		if i >= len(set.Keys) {
			return ok, fmt.Sprintf("key id %d out of range (n=%d)", i, len(set.Keys))
		}
		if !verifyWith(set.Keys[i], msg, sg.Sig) {
			return ok, fmt.Sprintf("signature filed under validator %d for kind=%d h=%d r=%d hash=%s does not verify", i, kind, h, r, hx([]byte(hash)))
		}
		ok[i] = true
	}
	return ok, ""
}

// ---------------------------------------------------------------------------
// digests (content only; version counters are excluded on purpose)

func digestProofMap(m map[string]gcrypto.CommonMessageSignatureProof) string {
	var sb strings.Builder
	for _, k := range sortedKeys(m) {
		fmt.Fprintf(&sb, "[%x:", k)
		sp := m[k].AsSparse()
		var parts []string
		for _, sg := range sp.Signatures {
			parts = append(parts, fmt.Sprintf("%x=%x", sg.KeyID, sg.Sig))
		}
		sort.Strings(parts)
		sb.WriteString(strings.Join(parts, ","))
		sb.WriteString("]")
	}
	return sb.String()
}

func digestSparseMap(m map[string][]gcrypto.SparseSignature) string {
	var sb strings.Builder
	for _, k := range sortedKeys(m) {
		fmt.Fprintf(&sb, "[%x:", k)
		var parts []string
		for _, sg := range m[k] {
			parts = append(parts, fmt.Sprintf("%x=%x", sg.KeyID, sg.Sig))
		}
		sort.Strings(parts)
		sb.WriteString(strings.Join(parts, ","))
		sb.WriteString("]")
	}
	return sb.String()
}

func digestValSet(v tmconsensus.ValidatorSet) string {
	var sb strings.Builder
	fmt.Fprintf(&sb, "vs(%x.%x", v.PubKeyHash, v.VotePowerHash)
	for _, val := range v.Validators {
		fmt.Fprintf(&sb, "|%x:%d", val.PubKey.PubKeyBytes()[:4], val.Power)
	}
	sb.WriteString(")")
	return sb.String()
}

func digestHeader(h tmconsensus.Header) string {
	return fmt.Sprintf("hdr(%d %x prev=%x pcp=%d/%x/%s vs=%s nvs=%s d=%x a=%x ann=%x/%x)", h.Height, h.Hash, h.PrevBlockHash,
		h.PrevCommitProof.Round, h.PrevCommitProof.PubKeyHash, digestSparseMap(h.PrevCommitProof.Proofs),
		digestValSet(h.ValidatorSet), digestValSet(h.NextValidatorSet), h.DataID, h.PrevAppStateHash, h.Annotations.User, h.Annotations.Driver)
}

func digestVRVContent(v *tmconsensus.VersionedRoundView) string {
	var sb strings.Builder
	fmt.Fprintf(&sb, "view(%d/%d %s pcp=%d/%x/%s phs=", v.Height, v.Round, digestValSet(v.ValidatorSet), v.PrevCommitProof.Round, v.PrevCommitProof.PubKeyHash, digestSparseMap(v.PrevCommitProof.Proofs))
	for _, ph := range v.ProposedHeaders {
		fmt.Fprintf(&sb, "{%s r=%d sig=%x}", digestHeader(ph.Header), ph.Round, ph.Signature)
	}
	fmt.Fprintf(&sb, " pv=%s pc=%s)", digestProofMap(v.PrevoteProofs), digestProofMap(v.PrecommitProofs))
	return sb.String()
}

func digestVRV(v *tmconsensus.VersionedRoundView) string {
	return fmt.Sprintf("v%d:%s sum=%s", v.Version, digestVRVContent(v), digestSummary(v.VoteSummary))
}

func digestSummary(vs tmconsensus.VoteSummary) string {
	var sb strings.Builder
	fmt.Fprintf(&sb, "avail=%d tpv=%d tpc=%d mpv=%x mpc=%x pv{", vs.AvailablePower, vs.TotalPrevotePower, vs.TotalPrecommitPower, vs.MostVotedPrevoteHash, vs.MostVotedPrecommitHash)
	for _, k := range sortedKeys(vs.PrevoteBlockPower) {
		fmt.Fprintf(&sb, "%x=%d,", k, vs.PrevoteBlockPower[k])
	}
	sb.WriteString("} pc{")
	for _, k := range sortedKeys(vs.PrecommitBlockPower) {
		fmt.Fprintf(&sb, "%x=%d,", k, vs.PrecommitBlockPower[k])
	}
	sb.WriteString("}")
	return sb.String()
}

func digestSMView(v tmeil.StateMachineRoundView) string {
	s := digestVRV(&v.VRV)
	if v.JumpAheadRoundView != nil {
		s += " JUMP:" + digestVRV(v.JumpAheadRoundView)
	}
	if v.CH != nil {
		s += " CH:" + digestHeader(v.CH.Header)
	}
	return s
}

func digestGossip(u tmelink.NetworkViewUpdate) string {
	var parts []string
	for i, v := range []*tmconsensus.VersionedRoundView{u.Committing, u.Voting, u.NextRound, u.NilVotedRound} {
		if v != nil {
			parts = append(parts, fmt.Sprintf("%d=%s", i, digestVRV(v)))
		}
	}
	return strings.Join(parts, " || ")
}

// touchedRounds lists the (h, r) pairs whose round-store state the oracles read.
func (s *sim) touchedRounds() [][2]uint64 {
	seen := map[[2]uint64]bool{}
	add := func(h uint64, r uint32) { seen[[2]uint64{h, uint64(r)}] = true }
	add(s.vv.Height, s.vv.Round)
	add(s.vv.Height, s.vv.Round+1)
	if s.cv.Height > 0 {
		add(s.cv.Height, s.cv.Round)
	}
	for _, v := range s.sentVotes {
		add(v.H, v.R)
	}
	for _, in := range s.incs {
		for _, w := range in.writes {
			if w.Kind == "pv" || w.Kind == "pc" || w.Kind == "ph" {
				add(w.H, w.R)
			}
		}
	}
	out := make([][2]uint64, 0, len(seen))
	for k := range seen {
		out = append(out, k)
	}
	sort.Slice(out, func(i, j int) bool {
		if out[i][0] != out[j][0] {
			return out[i][0] < out[j][0]
		}
		return out[i][1] < out[j][1]
	})
	return out
}

// stateDigest is the content digest of views and stores used for "unchanged".
func (s *sim) stateDigest() string {
	var sb strings.Builder
	sb.WriteString(digestVRVContent(&s.vv))
	sb.WriteString(digestVRVContent(&s.cv))
	ctx := context.Background()
	vh, vr, ch, cr, _ := s.d.ms.NetworkHeightRound(ctx)
	fmt.Fprintf(&sb, " nhr=%d/%d/%d/%d", vh, vr, ch, cr)
	for _, hr := range s.touchedRounds() {
		phs, pv, pc, err := s.d.rs.LoadRoundState(ctx, hr[0], uint32(hr[1]))
		if err != nil {
			continue
		}
		var hs []string
		for _, ph := range phs {
			hs = append(hs, fmt.Sprintf("%x", ph.Header.Hash))
		}
		sort.Strings(hs)
		fmt.Fprintf(&sb, " rs(%d/%d phs=%v pv=%x:%s pc=%x:%s)", hr[0], hr[1], hs, pv.PubKeyHash, digestSparseMap(pv.BlockSignatures), pc.PubKeyHash, digestSparseMap(pc.BlockSignatures))
	}
	for h := s.w.init; h <= s.vv.Height; h++ {
		if c, err := s.d.chs.LoadCommittedHeader(ctx, h); err == nil {
			fmt.Fprintf(&sb, " ch(%d %x %d %s)", h, c.Header.Hash, c.Proof.Round, digestSparseMap(c.Proof.Proofs))
		}
	}
	return sb.String()
}

// ---------------------------------------------------------------------------
// vote summary recomputation (C06)

func recomputeSummary(set vset, pv, pc map[string]gcrypto.CommonMessageSignatureProof) (avail *big.Int, perPV, perPC map[string]*big.Int, totPV, totPC *big.Int) {
	avail = set.total()
	one := func(m map[string]gcrypto.CommonMessageSignatureProof) (map[string]*big.Int, *big.Int) {
		per := map[string]*big.Int{}
		union := map[int]bool{}
		for hash, p := range m {
			var bs bitset.BitSet
			p.SignatureBitSet(&bs)
			t := new(big.Int)
			for i, ok := bs.NextSet(0); ok; i, ok = bs.NextSet(i + 1) {
				if int(i) < len(set.Powers) {
					t.Add(t, new(big.Int).SetUint64(set.Powers[i]))
					union[int(i)] = true
				}
			}
			per[hash] = t
		}
		return per, powerOf(set, union)
	}
	perPV, totPV = one(pv)
	perPC, totPC = one(pc)
	return
}

func mostVoted(per map[string]*big.Int) string {
	// documented rule: highest power; ties broken by the lexicographically smallest hash
	best := ""
	var bp *big.Int
	for _, k := range sortedKeys(per) {
		if per[k].Sign() == 0 {
			continue
		}
		if bp == nil || per[k].Cmp(bp) > 0 {
			best, bp = k, per[k]
		}
	}
	return best
}
