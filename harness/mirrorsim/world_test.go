package tmmirror_test

// World model for mirrorsim: the harness owns every private key, builds honest,
// Byzantine and forged messages, and keeps the registry that maps validator
// hashes to the real validator lists (independent of what the node believes).

import (
	"bytes"
	"crypto/ed25519"
	"crypto/sha256"
	"encoding/binary"
	"fmt"
	"math/big"
	"sort"
	"strings"

	"github.com/gordian-engine/gordian/gcrypto"
	"github.com/gordian-engine/gordian/tm/tmconsensus"
	"github.com/gordian-engine/gordian/tm/tmconsensus/tmconsensustest"
	"golang.org/x/crypto/blake2b"
)

const msKeyPool = 12 // 0..6 can be validators, 7..11 are spare / outsider keys

var (
	msPriv [msKeyPool]ed25519.PrivateKey
	msPub  [msKeyPool]gcrypto.PubKey
)

func init() {
	for i := range msPriv {
		seed := sha256.Sum256([]byte(fmt.Sprintf("verif-mirrorsim-key-%d", i)))
		msPriv[i] = ed25519.NewKeyFromSeed(seed[:])
		msPub[i] = gcrypto.Ed25519PubKey(msPriv[i].Public().(ed25519.PublicKey))
	}
}

var (
	msHS = tmconsensustest.SimpleHashScheme{}
	msSS = tmconsensustest.SimpleSignatureScheme{}
)

// vset is a validator list as the harness knows it: key pool indices + powers.
type vset struct {
	Keys   []int
	Powers []uint64
	VS     tmconsensus.ValidatorSet // list + hashes built through the scheme
}

func (v vset) total() *big.Int {
	t := new(big.Int)
	for _, p := range v.Powers {
		t.Add(t, new(big.Int).SetUint64(p))
	}
	return t
}

// indexOfKey returns the position of pool key k in the set, or -1.
func (v vset) indexOfKey(k int) int {
	for i, x := range v.Keys {
		if x == k {
			return i
		}
	}
	return -1
}

// Independent re-implementation of the shipped simple hash scheme for
// validator lists (BLAKE2b-256 over hex keys joined by \n / decimal powers
// joined by ','). Used by oracles only.
func refPubKeyHash(keys []gcrypto.PubKey) []byte {
	parts := make([]string, len(keys))
	for i, k := range keys {
		parts[i] = fmt.Sprintf("%x", k.PubKeyBytes())
	}
	h := blake2b.Sum256([]byte(strings.Join(parts, "\n")))
	return h[:]
}

func refPowerHash(pows []uint64) []byte {
	parts := make([]string, len(pows))
	for i, p := range pows {
		parts[i] = fmt.Sprintf("%d", p)
	}
	h := blake2b.Sum256([]byte(strings.Join(parts, ",")))
	return h[:]
}

func mkVset(keys []int, powers []uint64) vset {
	vals := make([]tmconsensus.Validator, len(keys))
	for i, k := range keys {
		vals[i] = tmconsensus.Validator{PubKey: msPub[k], Power: powers[i]}
	}
	vs, err := tmconsensus.NewValidatorSet(vals, msHS)
	if err != nil {
		panic(err)
	}
	return vset{Keys: append([]int(nil), keys...), Powers: append([]uint64(nil), powers...), VS: vs}
}

type hashPair struct{ pk, pow string }

// world is rebuilt for every case.
type world struct {
	cfg  simCfg
	init uint64

	genesis vset

	// registry: validator hashes -> the real list (only lists the harness built
	// consistently are registered; forged lists never are).
	reg map[hashPair]vset

	// every proposed header the harness ever built, by height.
	known map[uint64][]tmconsensus.ProposedHeader
	// headers that are forged copies (list != hashes), by block hash.
	forged map[string]bool

	unknownHashes [][]byte
}

func newWorld(cfg simCfg) *world {
	w := &world{cfg: cfg, init: cfg.Init, reg: map[hashPair]vset{}, known: map[uint64][]tmconsensus.ProposedHeader{}, forged: map[string]bool{}}
	keys := make([]int, cfg.N)
	for i := range keys {
		keys[i] = i
	}
	w.genesis = w.register(mkVset(keys, cfg.Powers))
	for j := 0; j < 6; j++ {
		h := sha256.Sum256([]byte(fmt.Sprintf("unknown-block-%d", j)))
		w.unknownHashes = append(w.unknownHashes, h[:])
	}
	return w
}

func (w *world) register(v vset) vset {
	w.reg[hashPair{string(v.VS.PubKeyHash), string(v.VS.VotePowerHash)}] = v
	return v
}

func (w *world) lookup(pkh, powh []byte) (vset, bool) {
	v, ok := w.reg[hashPair{string(pkh), string(powh)}]
	return v, ok
}

// plan is the validator set the application intends for height h
// (what an honest proposer puts into headers when nothing else is committed).
func (w *world) plan(h uint64) vset {
	// The application's answer when finalizing h takes effect at h+2, so the
	// genesis set covers the initial height and the one after it.
	if h <= w.init+1 || w.cfg.ValChange == 0 {
		return w.genesis
	}
	d := int((h - w.init - 1) % 5)
	n := w.cfg.N
	if w.cfg.ValChange == 3 {
		// total power and set size change from height to height
		if d%2 == 1 && n < 7 {
			n++
		} else if d%3 == 2 && n > 1 {
			n--
		}
	}
	keys := make([]int, n)
	pows := make([]uint64, n)
	for i := 0; i < n; i++ {
		base := w.cfg.Powers[i%w.cfg.N]
		switch w.cfg.ValChange {
		case 1: // powers rotate, keys stay
			keys[i] = i
			pows[i] = w.cfg.Powers[(i+d)%w.cfg.N]
		case 4: // keys stay, powers scale: same public key hash, different power hash and total
			keys[i] = i
			if base < 1<<40 {
				pows[i] = base * uint64(d+1+i%2)
			} else {
				pows[i] = base / uint64(d+1+i%2)
			}
			if pows[i] == 0 {
				pows[i] = 1
			}
		case 3: // keys shift, powers scale (total changes), size changes
			keys[i] = (i + d) % 9
			if base < 1<<40 {
				pows[i] = base * uint64(d+1)
			} else {
				pows[i] = base / uint64(d+1)
			}
			if pows[i] == 0 {
				pows[i] = 1
			}
		default: // keys shift through the pool (sets differ at every height), powers rotate
			keys[i] = (i + d) % 9
			pows[i] = w.cfg.Powers[(i+2*d)%w.cfg.N]
		}
	}
	return w.register(mkVset(keys, pows))
}

// altSet is a consistent (registered) validator set that differs from plan(h):
// a Byzantine proposer may legitimately propose it.
func (w *world) altSet(h uint64) vset {
	n := w.cfg.N
	keys := make([]int, n)
	pows := make([]uint64, n)
	for i := 0; i < n; i++ {
		keys[i] = (i + 3 + int(h%3)) % msKeyPool
		pows[i] = w.cfg.Powers[i]
		if w.cfg.Powers[i] < 1<<40 {
			pows[i] = w.cfg.Powers[i]*2 + uint64(i)
		}
	}
	return w.register(mkVset(keys, pows))
}

// forgedList returns a ValidatorSet whose hashes are those of v but whose
// lists are foreign (keys 7.. of the pool, same powers or altered powers).
func (w *world) forgedList(v vset, alterPowers bool) tmconsensus.ValidatorSet {
	n := len(v.Keys)
	vals := make([]tmconsensus.Validator, n)
	for i := 0; i < n; i++ {
		p := v.Powers[i]
		if alterPowers {
			p = p*3 + 1
		}
		vals[i] = tmconsensus.Validator{PubKey: msPub[(7+i)%msKeyPool], Power: p}
	}
	if alterPowers {
		// keep keys, alter powers only
		for i := 0; i < n; i++ {
			vals[i].PubKey = msPub[v.Keys[i]]
		}
	}
	return tmconsensus.ValidatorSet{
		Validators:    vals,
		PubKeys:       tmconsensus.ValidatorsToPubKeys(vals),
		PubKeyHash:    v.VS.PubKeyHash,
		VotePowerHash: v.VS.VotePowerHash,
	}
}

// ---------------------------------------------------------------------------
// sign bytes through the pluggable scheme (trusted component handed to the node)

func prevoteBytes(h uint64, r uint32, hash string) []byte {
	var b bytes.Buffer
	if _, err := msSS.WritePrevoteSigningContent(&b, tmconsensus.VoteTarget{Height: h, Round: r, BlockHash: hash}); err != nil {
		panic(err)
	}
	return b.Bytes()
}

func precommitBytes(h uint64, r uint32, hash string) []byte {
	var b bytes.Buffer
	if _, err := msSS.WritePrecommitSigningContent(&b, tmconsensus.VoteTarget{Height: h, Round: r, BlockHash: hash}); err != nil {
		panic(err)
	}
	return b.Bytes()
}

func voteBytes(kind int, h uint64, r uint32, hash string) []byte {
	if kind == 0 {
		return prevoteBytes(h, r, hash)
	}
	return precommitBytes(h, r, hash)
}

func proposalBytes(hd tmconsensus.Header, round uint32, ann tmconsensus.Annotations) []byte {
	var b bytes.Buffer
	if _, err := msSS.WriteProposalSigningContent(&b, hd, round, ann); err != nil {
		panic(err)
	}
	return b.Bytes()
}

func keyID(i int) []byte {
	var b [2]byte
	binary.BigEndian.PutUint16(b[:], uint16(i))
	return b[:]
}

// validSigners returns the set of validator indices (of v) for which some
// (key id, sig) of sigs verifies, with crypto/ed25519 directly, over msg.
// bad collects the entries that do not verify under the key at their index.
func validSigners(v vset, msg []byte, sigs []gcrypto.SparseSignature) (ok map[int]bool, bad []string) {
	ok = map[int]bool{}
	for _, s := range sigs {
		if len(s.KeyID) != 2 {
			bad = append(bad, fmt.Sprintf("keyid=%x (length %d)", s.KeyID, len(s.KeyID)))
			continue
		}
		i := int(binary.BigEndian.Uint16(s.KeyID))
		if i >= len(v.Keys) {
			bad = append(bad, fmt.Sprintf("keyid=%d out of range (n=%d)", i, len(v.Keys)))
			continue
		}
		if !ed25519.Verify(msPriv[v.Keys[i]].Public().(ed25519.PublicKey), msg, s.Sig) {
			bad = append(bad, fmt.Sprintf("keyid=%d sig=%x.. does not verify", i, s.Sig[:min(6, len(s.Sig))]))
			continue
		}
		ok[i] = true
	}
	return ok, bad
}

func powerOf(v vset, idx map[int]bool) *big.Int {
	t := new(big.Int)
	for i := range idx {
		t.Add(t, new(big.Int).SetUint64(v.Powers[i]))
	}
	return t
}

// exceedsTwoThirds: 3*p > 2*total
func exceedsTwoThirds(p, total *big.Int) bool {
	return new(big.Int).Mul(big.NewInt(3), p).Cmp(new(big.Int).Mul(big.NewInt(2), total)) > 0
}

// atLeastOneThird: 3*p >= total
func atLeastOneThird(p, total *big.Int) bool {
	return new(big.Int).Mul(big.NewInt(3), p).Cmp(total) >= 0
}

func sortedKeys[V any](m map[string]V) []string {
	out := make([]string, 0, len(m))
	for k := range m {
		out = append(out, k)
	}
	sort.Strings(out)
	return out
}

func hx(b []byte) string {
	if len(b) > 6 {
		return fmt.Sprintf("%x..", b[:6])
	}
	return fmt.Sprintf("%x", b)
}
