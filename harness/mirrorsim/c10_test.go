package tmmirror_test

// C10: restart on the same stores resumes without loss or regression.
//
// A case is an op list plus a crash point (op index, write index inside that
// op). The reference run executes the ops without a crash and records the
// absolute messages; the crash run replays exactly those messages on a fresh
// disk, stops the process after the chosen store write (the kernel goroutine is
// parked inside the write, nothing later reaches the disk), restarts on the
// same disk, redelivers the interrupted op's messages and continues.

import (
	"github.com/gordian-engine/gordian/tm/tmengine/tmelink"
	"os"
	"context"
	"fmt"
	"math/big"
	"sort"
	"testing"
	"testing/synctest"

	"github.com/gordian-engine/gordian/gcrypto"
	"github.com/gordian-engine/gordian/internal/zzverif/vk"
	"github.com/gordian-engine/gordian/tm/tmconsensus"
	"pgregory.net/rapid"
)

type c10Case struct {
	Cfg     simCfg `json:"cfg"`
	Ops     []Op   `json:"ops"`
	CrashOp int    `json:"crash_op"` // index into ops (mod len)
	CrashW  int    `json:"crash_w"`  // 0: after the op completed; k>0: after its k-th store write (mod writes+1)
	All     bool   `json:"all,omitempty"` // thorough: enumerate every crash point of the history
}

type c10Ref struct {
	deliveries [][]delivery // per op
	writes     [][]writeRec // per op
	chain      map[uint64]string
	vh         uint64
	vr         uint32
	world      *world
	aborted    string
	excluded   map[string]int
}

func c10Reference(t *testing.T, c simCase) *c10Ref {
	ref := &c10Ref{chain: map[uint64]string{}}
	cur := -1
	var wmark int
	s := runSim(t, c, ownership{}, func(s *sim) {
		s.c10 = true
		s.realCertificates = true // replayed headers come from the real chain: no validator signs two blocks of a round
		s.recorder = func(d delivery) {
			if cur >= 0 {
				ref.deliveries[cur] = append(ref.deliveries[cur], d)
			}
		}
		s.beforeOp = func(s *sim, idx int) {
			cur = idx
			for len(ref.deliveries) <= idx {
				ref.deliveries = append(ref.deliveries, nil)
				ref.writes = append(ref.writes, nil)
			}
			wmark = len(s.n.inc.writes)
		}
		s.afterOp = func(s *sim, op Op, idx int) {
			if idx >= 0 && idx < len(ref.writes) && s.n != nil {
				ref.writes[idx] = append([]writeRec(nil), s.n.inc.writes[wmark:]...)
			}
			cur = -1
		}
	})
	ref.world = s.w
	ref.excluded = s.excluded
	if s.fail != nil {
		ref.aborted = "reference run failed: " + s.fail.clause + ": " + s.fail.detail
		return ref
	}
	if s.abort != "" {
		ref.aborted = "reference run aborted: " + s.abort
		return ref
	}
	for len(ref.deliveries) < len(c.Ops) {
		ref.deliveries = append(ref.deliveries, nil)
		ref.writes = append(ref.writes, nil)
	}
	for h := s.w.init; h <= s.vv.Height; h++ {
		if ch, ok := s.committedHeader(h); ok {
			ref.chain[h] = string(ch.Header.Hash)
		}
	}
	ref.vh, ref.vr = s.vv.Height, s.vv.Round
	return ref
}

// insideShift: the crash falls between the vote write that triggers a view
// shift and the write of the new network height/round (finding C10-F1).
func insideShift(ws []writeRec, w int) bool {
	if w <= 0 || w >= len(ws) {
		return false
	}
	prev, next := ws[w-1].Kind, ws[w].Kind
	return (prev == "pc" || prev == "pv" || prev == "ch" || prev == "rh") && (next == "ch" || next == "nhr")
}

type c10Outcome struct {
	fail     *failure
	labels   []string
	excluded map[string]int
}

func (s *sim) replayDeliveries(ds []delivery) {
	for _, d := range ds {
		if s.stopped() || !s.alive {
			return
		}
		// the restarted node may be at another position than the reference run was:
		// re-evaluate the known crash findings for the absolute message
		if s.alive {
			s.drainAll()
			s.observe()
			if s.stopped() {
				return
			}
		}
		if id := s.absTrigger(d); id != "" {
			if vk.Excluded(id) {
				s.excluded[id]++
				s.abort = "excluded " + id
				return
			}
			s.pendingFinding = id
		}
		switch {
		case d.PH != nil:
			cr := s.deliverPHRaw(*d.PH)
			if cr.crashed || s.n.inc.dead {
				s.alive = false
				return
			}
		case d.Vote != nil:
			cr := s.deliverVoteRaw(*d.Vote)
			if cr.crashed || s.n.inc.dead {
				s.alive = false
				return
			}
		case d.Replay != nil:
			cr := s.deliverReplayRaw(*d.Replay)
			if cr.crashed || s.n.inc.dead {
				s.alive = false
				return
			}
		}
		if s.n.inc.dead {
			s.alive = false
			return
		}
	}
}

// absTrigger evaluates the crash-finding predicates for an absolute message.
func (s *sim) absTrigger(d delivery) string {
	if d.PH != nil {
		ph := d.PH
		h, r := ph.Header.Height, ph.Round
		if ph.ProposerPubKey == nil {
			return ""
		}
		switch {
		case h == s.cv.Height && r > s.cv.Round:
			return "C09-A1"
		case h == s.vv.Height && r > s.vv.Round+1:
			return "C09-A2"
		case h == s.vv.Height+1:
			if pcp := ph.Header.PrevCommitProof; pcp.Round == s.vv.Round+1 && pcp.PubKeyHash == string(s.vv.ValidatorSet.PubKeyHash) {
				set := s.setFor(s.vv.Height)
				for hash, sigs := range pcp.Proofs {
					ok, _ := validSigners(set, precommitBytes(s.vv.Height, pcp.Round, hash), sigs)
					if atLeastOneThird(powerOf(set, ok), set.total()) {
						return "C09-A5"
					}
				}
			}
			if !s.inVotingView(string(ph.Header.PrevBlockHash)) || ph.Header.PrevCommitProof.Round != s.vv.Round {
				return "C09-A4"
			}
			for _, have := range s.vv.ProposedHeaders {
				if string(have.Header.Hash) == string(ph.Header.PrevBlockHash) && have.Round != s.vv.Round {
					return "C09-A4"
				}
			}
			set := s.setFor(s.vv.Height)
			ok, _ := checkSigs(set, 1, s.vv.Height, s.vv.Round, string(ph.Header.PrevBlockHash), ph.Header.PrevCommitProof.Proofs[string(ph.Header.PrevBlockHash)])
			if !exceedsTwoThirds(powerOf(set, ok), set.total()) || len(ph.Header.PrevCommitProof.Proofs) != 1 {
				return "C09-A4"
			}
			if r > 1 {
				return "C09-A2"
			}
		case h == s.vv.Height && h > s.w.init:
			for key := range ph.Header.PrevCommitProof.Proofs {
				if _, ok := s.cv.PrecommitProofs[key]; !ok {
					return "C09-A6"
				}
			}
		}
		return ""
	}
	if d.Vote != nil {
		return s.voteTrigger(*d.Vote)
	}
	if d.Replay != nil {
		return s.replayTrigger(*d.Replay)
	}
	return ""
}

func (s *sim) deliverReplayRaw(b builtReplay) *callResult {
	resp := make(chan tmelink.ReplayedHeaderResponse, 1)
	cr := s.call(func(ctx context.Context) {
		select {
		case s.n.replayIn <- tmelink.ReplayedHeaderRequest{Header: b.Header, Proof: b.Proof, Resp: resp}:
		case <-ctx.Done():
			return
		}
		select {
		case <-resp:
		case <-ctx.Done():
		}
	})
	s.settle(cr)
	return cr
}

func (s *sim) deliverPHRaw(ph tmconsensus.ProposedHeader) *callResult {
	var pan any
	cr := s.call(func(ctx context.Context) {
		defer func() { pan = recover() }()
		s.n.m.HandleProposedHeader(ctx, ph)
	})
	s.settle(cr)
	if pan != nil {
		s.abort = fmt.Sprint("panic in HandleProposedHeader: ", pan)
	}
	return cr
}

func (s *sim) deliverVoteRaw(b builtVote) *callResult {
	var pan any
	cr := s.call(func(ctx context.Context) {
		defer func() { pan = recover() }()
		if b.Kind == 0 {
			s.n.m.HandlePrevoteProofs(ctx, tmconsensus.PrevoteSparseProof{Height: b.H, Round: b.R, PubKeyHash: b.PKH, Proofs: b.Proofs})
		} else {
			s.n.m.HandlePrecommitProofs(ctx, tmconsensus.PrecommitSparseProof{Height: b.H, Round: b.R, PubKeyHash: b.PKH, Proofs: b.Proofs})
		}
	})
	s.settle(cr)
	if pan != nil {
		s.abort = fmt.Sprint("panic in HandleVoteProofs: ", pan)
	}
	return cr
}

// diskSnapshot is what was durably recorded at the moment of the crash.
type diskSnapshot struct {
	vh, ch uint64
	vr, cr uint32
	chain  map[uint64]string
}

func (s *sim) snapshotDisk() diskSnapshot {
	ctx := context.Background()
	var d diskSnapshot
	d.vh, d.vr, d.ch, d.cr, _ = s.d.ms.NetworkHeightRound(ctx)
	d.chain = map[uint64]string{}
	for h := s.w.init; h <= d.vh+1; h++ {
		if c, err := s.d.chs.LoadCommittedHeader(ctx, h); err == nil {
			d.chain[h] = string(c.Header.Hash)
		}
	}
	return d
}

// checkResumed: positions not behind the disk, chain intact, persisted
// proposals and votes of the resumed rounds present and authentic.
func (s *sim) checkResumed(d diskSnapshot) {
	if s.vv.Height < d.vh || (s.vv.Height == d.vh && s.vv.Round < d.vr) {
		s.failf("", "voting-position-behind-disk", "restarted at voting %d/%d, the mirror store had recorded %d/%d", s.vv.Height, s.vv.Round, d.vh, d.vr)
		return
	}
	if s.cv.Height < d.ch {
		s.failf("", "committing-position-behind-disk", "restarted with committing height %d, the mirror store had recorded %d", s.cv.Height, d.ch)
		return
	}
	ctx := context.Background()
	for h, hash := range d.chain {
		c, err := s.d.chs.LoadCommittedHeader(ctx, h)
		if err != nil || string(c.Header.Hash) != hash {
			s.failf("", "committed-chain-changed", "height %d was recorded as committed with %s before the stop; after restart: %v / %s", h, hx([]byte(hash)), err, hx(c.Header.Hash))
			return
		}
	}
	// the previous-commit proof of the resumed voting view is the certificate of the committed block below it
	if s.vv.Height > s.w.init && s.cv.Height == s.vv.Height-1 {
		if ch, ok := s.committedHeader(s.cv.Height); ok {
			set := s.setFor(s.cv.Height)
			pcp := s.vv.PrevCommitProof
			hash := string(ch.Header.Hash)
			for _, target := range sortedKeys(pcp.Proofs) {
				if _, bad := checkSigs(set, 1, s.cv.Height, pcp.Round, target, pcp.Proofs[target]); bad != "" {
					s.failf("", "resumed-prev-commit-proof-invalid", "restarted voting view %d/%d carries a previous commit proof (round %d) whose content is not for height %d: %s", s.vv.Height, s.vv.Round, pcp.Round, s.cv.Height, bad)
					return
				}
			}
			okSet, _ := checkSigs(set, 1, s.cv.Height, pcp.Round, hash, pcp.Proofs[hash])
			if !exceedsTwoThirds(powerOf(set, okSet), set.total()) {
				s.failf("", "resumed-prev-commit-proof-insufficient", "restarted voting view %d/%d: its previous commit proof holds power %s of %s for the committed block %s of height %d", s.vv.Height, s.vv.Round, powerOf(set, okSet), set.total(), hx([]byte(hash)), s.cv.Height)
				return
			}
		}
	}
	for _, v := range []*tmconsensus.VersionedRoundView{&s.vv, &s.cv} {
		if v.Height == 0 {
			continue
		}
		phs, pv, pc, err := s.d.rs.LoadRoundState(ctx, v.Height, v.Round)
		if err != nil {
			continue
		}
		have := map[string]bool{}
		for _, ph := range v.ProposedHeaders {
			have[string(ph.Header.Hash)] = true
		}
		for _, ph := range phs {
			if !have[string(ph.Header.Hash)] {
				s.failf("", "persisted-proposal-missing", "round store holds proposed header %s for %d/%d, the restarted view does not", hx(ph.Header.Hash), v.Height, v.Round)
				return
			}
		}
		set := s.setFor(v.Height)
		for kind, col := range []tmconsensus.SparseSignatureCollection{pv, pc} {
			m := v.PrevoteProofs
			if kind == 1 {
				m = v.PrecommitProofs
			}
			for _, hash := range sortedKeys(col.BlockSignatures) {
				stored, bad := checkSigs(set, kind, v.Height, v.Round, hash, col.BlockSignatures[hash])
				if bad != "" {
					continue // unauthentic stored data is C05's business
				}
				var inView map[int]bool
				if p, ok := m[hash]; ok {
					var bad2 string
					inView, bad2 = checkSigs(set, kind, v.Height, v.Round, hash, p.AsSparse().Signatures)
					if bad2 != "" {
						s.failf("", "resumed-vote-unauthentic", "restarted view %d/%d: %s", v.Height, v.Round, bad2)
						return
					}
				}
				for i := range stored {
					if !inView[i] {
						s.failf("", "persisted-vote-missing", "round store holds the kind=%d vote of validator %d for %s at %d/%d, the restarted view does not", kind, i, hx([]byte(hash)), v.Height, v.Round)
						return
					}
				}
			}
		}
	}
}

// diskRestartTrigger: known findings a restart on this disk content would hit.
func (s *sim) diskRestartTrigger(d diskSnapshot) string {
	if d.ch == 0 {
		return ""
	}
	_, _, pc, err := s.d.rs.LoadRoundState(context.Background(), d.ch, d.cr)
	if err != nil {
		return ""
	}
	set := s.setFor(d.ch)
	committed := d.chain[d.ch]
	per := map[string]*big.Int{}
	for hash, sigs := range pc.BlockSignatures {
		ok, _ := checkSigs(set, 1, d.ch, d.cr, hash, sigs)
		per[hash] = powerOf(set, ok)
	}
	if committed == "" {
		// the header of the committing height is not on record (the process stopped before it was
		// written): the kernel picks the block with the largest precommit power; only a tie is the finding
		var best *big.Int
		ties := 0
		for hash, p := range per {
			if hash == "" {
				continue
			}
			switch {
			case best == nil || p.Cmp(best) > 0:
				best, ties = p, 1
			case p.Cmp(best) == 0:
				ties++
			}
		}
		if ties > 1 {
			return "C09-A27"
		}
		return ""
	}
	cp := per[committed]
	for hash, p := range per {
		if hash != committed && (cp == nil || p.Cmp(cp) >= 0) {
			return "C09-A27"
		}
	}
	return ""
}

// c10CrashRun executes one crash point.
func c10CrashRun(t *testing.T, c simCase, ref *c10Ref, k, w int) (out c10Outcome) {
	s := &sim{c: c, labels: map[string]int{}, excluded: map[string]int{}, concurrentStep: map[int]bool{}, crashMode: true, c10: true}
	s.log = discardLogger()
	s.w = ref.world
	s.d = newDisk()
	ws := ref.writes[k]
	finding := ""
	if insideShift(ws, w) {
		if vk.Excluded("C10-F1") {
			out.excluded = map[string]int{"C10-F1": 1}
			return out
		}
		finding = "C10-F1"
	}
	defer func() {
		if r := recover(); r != nil {
			s.failf("", "harness-or-deadlock", "panic leaving the bubble: %v", r)
		}
		out.fail = s.fail
		for id, n := range s.excluded {
			if out.excluded == nil {
				out.excluded = map[string]int{}
			}
			out.excluded[id] += n
		}
		if out.fail != nil && out.fail.finding == "" {
			out.fail.finding = finding
		}
		for l := range s.labels {
			out.labels = append(out.labels, l)
		}
		sort.Strings(out.labels)
	}()
	synctest.Test(t, func(t *testing.T) {
		defer s.teardown()
		s.start(0)
		if s.stopped() {
			return
		}
		s.drainAll()
		s.observe()
		for i := range c.Ops {
			if s.stopped() {
				return
			}
			s.step = i
			if i == k && w > 0 {
				s.n.inc.crashAt = len(s.n.inc.writes) + w
			}
			s.replayDeliveries(ref.deliveries[i])
			if s.stopped() {
				return
			}
			if i == k {
				if w > 0 && !s.n.inc.dead {
					// the op wrote less than in the reference run (can not happen: same messages, same disk)
					s.label("crash-point-not-reached")
					s.n.inc.crashAt = 0
				}
				// the process stops here (w == 0: right after the op)
				disk := s.snapshotDisk()
				s.stop()
				if id := s.diskRestartTrigger(disk); id != "" {
					if vk.Excluded(id) {
						s.excluded[id]++
						s.abort = "excluded " + id
						return
					}
					finding = id
				}
				s.start(0)
				if s.stopped() {
					if s.fail != nil && s.fail.clause == "start-panic" {
						s.fail.clause = "restart-panic"
					}
					return
				}
				s.restarts++
				s.drainAll()
				s.observe()
				if s.stopped() {
					return
				}
				s.checkResumed(disk)
				if s.stopped() {
					return
				}
				// the messages in flight when it stopped are delivered again
				s.replayDeliveries(ref.deliveries[i])
				if s.stopped() {
					return
				}
			}
			if s.alive {
				s.drainAll()
				s.observe()
			}
		}
		if s.stopped() || !s.alive {
			return
		}
		if traceOn {
			for i, in := range s.incs {
				fmt.Fprintf(os.Stderr, "TRACE crash(k=%d,w=%d) incarnation %d writes %v\n", k, w, i, in.writes)
			}
			fmt.Fprintf(os.Stderr, "TRACE ref.chain=%d heights, ws=%v\n", len(ref.chain), ws)
		}
		// same committed chain and voting position as the crash-free run
		for h, hash := range ref.chain {
			ch, ok := s.committedHeader(h)
			if !ok || string(ch.Header.Hash) != hash {
				s.failf("", "diverged-from-crash-free-run", "crash after write %d of op %d (%v): the crash-free run committed %s at height %d, the restarted run has %v %s", w, k, ws, hx([]byte(hash)), h, ok, hx(ch.Header.Hash))
				return
			}
		}
		if s.vv.Height != ref.vh || s.vv.Round != ref.vr {
			s.failf("", "diverged-from-crash-free-run", "crash after write %d of op %d (writes of that op: %v): the crash-free run ends at voting %d/%d, the restarted run at %d/%d", w, k, ws, ref.vh, ref.vr, s.vv.Height, s.vv.Round)
			return
		}
		for h := range ref.chain {
			_ = h
		}
	})
	return out
}

func c10Profile() genProfile {
	return genProfile{
		w:              map[string]int{"ph": 4, "vote": 10, "round": 8, "replay": 3},
		phVariants:     []int{phFresh, phFresh, phAltNext},
		pcpVariants:    []int{pcpExact},
		voteCorr:       []int{vcNone, vcNone, vcNone, vcFlip},
		replayVariants: []int{rvHonest},
		minOps:         2, maxOps: 25,
		dh: []int{0, 0, 0, 1}, dr: []int{0, 0, 0, 1},
		multiTarget: true,
		nilRounds:   true,
	}
}

const c10Rule = "histories of 2-25 ops (honest macro rounds incl. nil and partial rounds, proposals incl. next-height headers that backfill a commit, honest replayed headers (block sync), vote messages for voting / next round, a few corrupted signatures) x a crash point (op index, store-write index inside that op; 0 = after the op); quick draws one crash point per history, thorough enumerates every store write of every op; the crash-free run of the same absolute messages is the reference; non-trivial = the crash lies strictly between two store writes of one operation, or in a round that holds persisted votes; distinct = fingerprint of (config, op list, crash point)"

func TestVerifC10CrashRestart(t *testing.T) {
	st := vk.NewStats("C10", "TestVerifC10CrashRestart", c10Rule)
	defer st.Flush()
	one := func(tb vk.TB, c c10Case) {
		st.WAL(c)
		sc := simCase{Cfg: c.Cfg, Ops: c.Ops}
		if len(c.Ops) == 0 {
			st.Case(false, vk.FP(c), "empty")
			return
		}
		var ref *c10Ref
		st.Guard(tb, c, func() { ref = c10Reference(t, sc) })
		for id, n := range ref.excluded {
			for i := 0; i < n; i++ {
				st.Excluded(id)
			}
		}
		if ref.aborted != "" {
			st.Case(false, vk.FP(c), "reference-aborted")
			return
		}
		type pt struct{ k, w int }
		var pts []pt
		if c.All {
			for k := range c.Ops {
				for w := 0; w <= len(ref.writes[k]); w++ {
					pts = append(pts, pt{k, w})
				}
			}
		} else {
			k := ((c.CrashOp % len(c.Ops)) + len(c.Ops)) % len(c.Ops)
			w := ((c.CrashW % (len(ref.writes[k]) + 1)) + len(ref.writes[k]) + 1) % (len(ref.writes[k]) + 1)
			pts = append(pts, pt{k, w})
			// plus one stop strictly between two store writes of one operation (where the
			// write order matters), chosen by the same drawn numbers
			var mid []pt
			for kk := range c.Ops {
				for ww := 1; ww < len(ref.writes[kk]); ww++ {
					if kk != k || ww != w {
						mid = append(mid, pt{kk, ww})
					}
				}
			}
			if len(mid) > 0 {
				pts = append(pts, mid[(c.CrashOp*7+c.CrashW)%len(mid)])
			}
		}
		nt := false
		labels := []string{}
		for _, p := range pts {
			ws := ref.writes[p.k]
			between := p.w > 0 && p.w < len(ws)
			persisted := false
			for i := 0; i <= p.k; i++ {
				for _, wr := range ref.writes[i] {
					if wr.Kind == "pv" || wr.Kind == "pc" {
						persisted = true
					}
				}
			}
			if between || persisted {
				nt = true
			}
			if between {
				labels = append(labels, "crash-between-writes")
			}
			if p.w == 0 {
				labels = append(labels, "crash-after-op")
			}
			if insideShift(ws, p.w) {
				labels = append(labels, "crash-inside-shift")
			}
			var out c10Outcome
			st.Guard(tb, c, func() { out = c10CrashRun(t, sc, ref, p.k, p.w) })
			for id, n := range out.excluded {
				for i := 0; i < n; i++ {
					st.Excluded(id)
				}
			}
			if out.fail != nil {
				cc := c
				cc.All, cc.CrashOp, cc.CrashW = false, p.k, p.w
				st.Case(nt, vk.FP(cc), labels...)
				st.Fail(tb, cc, out.fail.finding, out.fail.clause, "%s", out.fail.detail)
			}
		}
		if st.WantSample() {
			st.Sample(c)
		}
		st.LabelN("crash-points", int64(len(pts)))
		st.Case(nt, vk.FP(c), labels...)
	}
	var c c10Case
	if ok, err := vk.LoadReplay("C10", "TestVerifC10CrashRestart", &c); err != nil {
		t.Fatal(err)
	} else if ok {
		one(t, c)
		return
	} else if vk.Replaying() {
		t.Skip("replay file is for another test")
	}
	p := c10Profile()
	rapid.Check(t, func(rt *rapid.T) {
		sc := genCase(rt, p)
		c := c10Case{Cfg: sc.Cfg, Ops: sc.Ops,
			CrashOp: rapid.IntRange(0, 40).Draw(rt, "crash_op"),
			CrashW:  rapid.IntRange(0, 6).Draw(rt, "crash_w"),
			All:     vk.Thorough()}
		one(rt, c)
	})
}

var _ = gcrypto.SparseSignature{}
