package tmmirror_test

import (
	"context"
	"fmt"
	"math/big"
	"testing"

	"github.com/bits-and-blooms/bitset"
	"github.com/gordian-engine/gordian/gcrypto"
	"github.com/gordian-engine/gordian/internal/zzverif/vk"
	"github.com/gordian-engine/gordian/tm/tmconsensus"
	"pgregory.net/rapid"
)

// propSpec wires one property's generator profile, ownership and oracle.
type propSpec struct {
	prop, test, rule string
	profile          genProfile
	own              ownership
	setup            func(s *sim)
	oracle           func(s *sim, op Op, idx int)
	nontrivial       func(s *sim) bool
	classify         func(s *sim) []string
	floors           map[string]float64 // label -> minimal fraction of cases (checked at the end of a full run)
	final            func(s *sim)
}

func runProp(t *testing.T, sp propSpec) {
	st := vk.NewStats(sp.prop, sp.test, sp.rule)
	defer st.Flush()
	one := func(tb vk.TB, c simCase) {
		st.WAL(c)
		var s *sim
		st.Guard(tb, c, func() {
			s = runSim(t, c, sp.own, func(s *sim) {
				s.afterOp = sp.oracle
				s.final = sp.final
				s.wal = func(f string) { st.WALFinding(c, f) }
				if sp.setup != nil {
					sp.setup(s)
				}
			})
		})
		labels := []string{}
		for l := range s.labels {
			labels = append(labels, "has:"+l)
		}
		if s.abort != "" {
			labels = append(labels, "aborted:"+s.abort)
		}
		if sp.classify != nil {
			labels = append(labels, sp.classify(s)...)
		}
		nt := sp.nontrivial != nil && sp.nontrivial(s)
		if nt {
			labels = append(labels, "nontrivial")
		}
		if st.WantSample() && (nt || len(c.Ops) < 12) {
			st.Sample(c)
		}
		st.Case(nt, vk.FP(c), labels...)
		for id, n := range s.excluded {
			for i := 0; i < n; i++ {
				st.Excluded(id)
			}
		}
		if s.fail != nil {
			st.Fail(tb, c, s.fail.finding, s.fail.clause, "%s", s.fail.detail)
		}
	}
	var c simCase
	if ok, err := vk.LoadReplay(sp.prop, sp.test, &c); err != nil {
		t.Fatal(err)
	} else if ok {
		one(t, c)
		return
	} else if vk.Replaying() {
		t.Skip("replay file is for another test")
	}
	rapid.Check(t, func(rt *rapid.T) {
		one(rt, genCase(rt, sp.profile))
	})
}

// ---------------------------------------------------------------------------
// C05: only authentic votes enter views, stores and gossip

func bitCount(p gcrypto.CommonMessageSignatureProof) int {
	var bs bitset.BitSet
	p.SignatureBitSet(&bs)
	return int(bs.Count())
}

func c05Oracle(s *sim, op Op, idx int) {
	if !s.alive {
		return
	}
	ctx := context.Background()
	checkView := func(where string, v *tmconsensus.VersionedRoundView) {
		if v == nil || v.Height == 0 {
			return
		}
		set := s.setFor(v.Height)
		for kind, m := range []map[string]gcrypto.CommonMessageSignatureProof{v.PrevoteProofs, v.PrecommitProofs} {
			for _, hash := range sortedKeys(m) {
				p := m[hash]
				ok, bad := checkSigs(set, kind, v.Height, v.Round, hash, p.AsSparse().Signatures)
				if bad != "" {
					s.failf("", "unauthentic-signature", "%s view %d/%d: %s", where, v.Height, v.Round, bad)
					return
				}
				if n := bitCount(p); n != len(ok) {
					s.failf("", "bitset-not-verified", "%s view %d/%d kind=%d hash=%s: %d bits set but %d verified signers", where, v.Height, v.Round, kind, hx([]byte(hash)), n, len(ok))
					return
				}
			}
		}
		if v.Height > s.w.init {
			// the commit proofs inside the proposed headers the view holds are stored and gossiped with them
			pset := s.setFor(v.Height - 1)
			for _, ph := range v.ProposedHeaders {
				pcp := ph.Header.PrevCommitProof
				for _, hash := range sortedKeys(pcp.Proofs) {
					if _, bad := checkSigs(pset, 1, v.Height-1, pcp.Round, hash, pcp.Proofs[hash]); bad != "" {
						s.failf("", "unauthentic-signature", "%s view %d/%d, previous commit proof of proposed header %s: %s", where, v.Height, v.Round, hx(ph.Header.Hash), bad)
						return
					}
				}
			}
		}
		if v.Height > s.w.init && len(v.PrevCommitProof.Proofs) > 0 {
			pset := s.setFor(v.Height - 1)
			for _, hash := range sortedKeys(v.PrevCommitProof.Proofs) {
				if _, bad := checkSigs(pset, 1, v.Height-1, v.PrevCommitProof.Round, hash, v.PrevCommitProof.Proofs[hash]); bad != "" {
					s.failf("", "unauthentic-signature", "%s view %d/%d previous commit proof: %s", where, v.Height, v.Round, bad)
					return
				}
			}
		}
	}
	checkView("voting", &s.vv)
	checkView("committing", &s.cv)
	for i := len(s.gsRecv) - 1; i >= 0 && s.gsRecv[i].Step == s.step; i-- {
		u := s.gsRecv[i].U
		checkView("gossip.committing", u.Committing)
		checkView("gossip.voting", u.Voting)
		checkView("gossip.nextround", u.NextRound)
		checkView("gossip.nilvoted", u.NilVotedRound)
	}
	for i := len(s.smRecv) - 1; i >= 0 && s.smRecv[i].Step == s.step; i-- {
		v := s.smRecv[i].V
		checkView("statemachine", &v.VRV)
		checkView("statemachine.jumpahead", v.JumpAheadRoundView)
	}
	if s.fail != nil {
		return
	}
	// round store and committed headers
	for _, hr := range s.touchedRounds() {
		h, r := hr[0], uint32(hr[1])
		_, pv, pc, err := s.d.rs.LoadRoundState(ctx, h, r)
		if err != nil {
			continue
		}
		set := s.setFor(h)
		for kind, col := range []tmconsensus.SparseSignatureCollection{pv, pc} {
			for _, hash := range sortedKeys(col.BlockSignatures) {
				if _, bad := checkSigs(set, kind, h, r, hash, col.BlockSignatures[hash]); bad != "" {
					s.failf("", "unauthentic-signature", "round store %d/%d: %s", h, r, bad)
					return
				}
			}
		}
	}
	for h := s.w.init; h <= s.cv.Height; h++ {
		ch, ok := s.committedHeader(h)
		if !ok {
			continue
		}
		set := s.setFor(h)
		for _, hash := range sortedKeys(ch.Proof.Proofs) {
			if _, bad := checkSigs(set, 1, h, ch.Proof.Round, hash, ch.Proof.Proofs[hash]); bad != "" {
				s.failf("", "unauthentic-signature", "committed header store height %d proof: %s", h, bad)
				return
			}
		}
	}
	// all-invalid messages: nothing changes and the result is not "accepted"
	d := s.stateDigest()
	if op.K == "vote" || op.K == "conc" {
		allInvalid, any := true, false
		for _, sv := range s.sentVotes {
			if sv.Step != s.step {
				continue
			}
			any = true
			if sv.Authentic > 0 {
				allInvalid = false
			}
			if sv.Authentic == 0 {
				for _, r := range sv.Results {
					if r == tmconsensus.HandleVoteProofsAccepted || r == tmconsensus.HandleVoteProofsFutureVerified {
						s.failf("", "all-invalid-accepted", "vote message kind=%d h=%d r=%d with %d targets and no authentic signature returned result %d", sv.Kind, sv.H, sv.R, sv.Targets, r)
						return
					}
				}
			}
		}
		// only votes were delivered in this step? (a conc group may hold proposed headers)
		onlyVotes := op.K == "vote"
		if op.K == "conc" {
			onlyVotes = true
			for _, sub := range op.Sub {
				if sub.K != "vote" {
					onlyVotes = false
				}
			}
		}
		if any && allInvalid && onlyVotes && d != s.prevDigest {
			s.failf("", "all-invalid-changed-state", "vote message(s) without any authentic signature changed views/stores:\nbefore: %s\nafter:  %s", trunc(s.prevDigest, 1500), trunc(d, 1500))
			return
		}
	}
	s.prevDigest = d
}

func trunc(s string, n int) string {
	if len(s) > n {
		return s[:n] + "..."
	}
	return s
}

func c05Spec() propSpec {
	return propSpec{
		prop: "C05", test: "TestVerifC05AuthenticVotes",
		rule: "histories of 3-40 ops against one real Mirror (rounds macros, proposed headers, vote messages with per-signature corruption for committing/voting/next/future rounds, votes cast by the previous height's validator set under its own key hash, duplicates, concurrent groups, state machine entrances/actions, consumer stalls); non-trivial = some vote message mixed >=1 authentic with >=1 unauthentic signature, or was all-invalid for a hash the node had not seen; distinct = fingerprint of (config, op list)",
		profile: genProfile{
			w:              map[string]int{"ph": 3, "vote": 12, "round": 3, "sment": 1, "smact": 1, "stall": 1, "read": 1, "conc": 2},
			phVariants:     []int{phFresh, phFresh, phAltNext, phBadSig, phAnnotated},
			pcpVariants:    []int{pcpExact, pcpExact, pcpExact, pcpCorruptSig, pcpBelowQuorum, pcpWrongPKH, pcpOtherRoundCert, pcpOtherRoundCert, pcpExtraNil, pcpForgedSide, pcpForgedSide, pcpOwnSet, pcpOwnSet},
			voteCorr:       allVariants(vcVariants),
			replayVariants: []int{rvHonest},
			pkhVariants:    []int{0, 0, 0, 0, 0, 1, 2, 3, 3},
			minOps:         3, maxOps: 40,
			dh: []int{0, 0, 0, 0, -1, 1, 2, -2}, dr: []int{0, 0, 0, 1, 1, 2, 3, -1},
			multiTarget: true,
		},
		oracle: c05Oracle,
		nontrivial: func(s *sim) bool {
			return s.labels["vote-mixed"] > 0 || s.labels["vote-allinvalid-unknown"] > 0
		},
	}
}

func TestVerifC05AuthenticVotes(t *testing.T) { runProp(t, c05Spec()) }

var _ = fmt.Sprintf

// ---------------------------------------------------------------------------
// C09 (mirror part): no message, replay, entrance or consumer schedule crashes or wedges the mirror

var definedPHResults = map[tmconsensus.HandleProposedHeaderResult]bool{}
var definedVoteResults = map[tmconsensus.HandleVoteProofsResult]bool{}

func init() {
	for r := tmconsensus.HandleProposedHeaderAccepted; r <= tmconsensus.HandleProposedHeaderInternalError; r++ {
		definedPHResults[r] = true
	}
	for r := tmconsensus.HandleVoteProofsAccepted; r <= tmconsensus.HandleVoteProofsInternalError; r++ {
		definedVoteResults[r] = true
	}
}

type fixedHandler struct {
	ph tmconsensus.HandleProposedHeaderResult
	v  tmconsensus.HandleVoteProofsResult
}

func (f fixedHandler) HandleProposedHeader(context.Context, tmconsensus.ProposedHeader) tmconsensus.HandleProposedHeaderResult {
	return f.ph
}
func (f fixedHandler) HandlePrevoteProofs(context.Context, tmconsensus.PrevoteSparseProof) tmconsensus.HandleVoteProofsResult {
	return f.v
}
func (f fixedHandler) HandlePrecommitProofs(context.Context, tmconsensus.PrecommitSparseProof) tmconsensus.HandleVoteProofsResult {
	return f.v
}

// mapperTotal reports a panic text if one of the shipped mappers can not translate the result.
func mapperTotal(ph tmconsensus.HandleProposedHeaderResult, v tmconsensus.HandleVoteProofsResult) (msg string) {
	defer func() {
		if r := recover(); r != nil {
			msg = fmt.Sprint(r)
		}
	}()
	ctx := context.Background()
	h := fixedHandler{ph: ph, v: v}
	if ph != 0 {
		tmconsensus.AcceptAllValidFeedbackMapper{Handler: h}.HandleProposedHeader(ctx, tmconsensus.ProposedHeader{})
		tmconsensus.DropDuplicateFeedbackMapper{Handler: h}.HandleProposedHeader(ctx, tmconsensus.ProposedHeader{})
	}
	if v != 0 {
		tmconsensus.AcceptAllValidFeedbackMapper{Handler: h}.HandlePrevoteProofs(ctx, tmconsensus.PrevoteSparseProof{})
		tmconsensus.DropDuplicateFeedbackMapper{Handler: h}.HandlePrecommitProofs(ctx, tmconsensus.PrecommitSparseProof{})
	}
	return ""
}

// checkFetchRequested: after a vote message for the voting round was accepted and the node stayed
// in that round, every block that holds at least 1/3 of the power in the votes of that kind and
// whose header the view lacks must have a fetch request the node still waits for (requested, not
// cancelled, not answered) - otherwise the node can sit in the round with all votes and never commit.
func checkFetchRequested(s *sim, op Op, before viewKey) {
	if op.K != "vote" || op.DH != 0 || op.DR != 0 || !s.alive || s.fail != nil || s.fetchBusy {
		// (while the fetcher's queue is full the node cannot place a request; it has to try again later)
		return
	}
	if before.H != s.vv.Height || before.R != s.vv.Round || len(s.lastVoteRes) == 0 {
		return
	}
	if s.lastVoteRes[len(s.lastVoteRes)-1] != tmconsensus.HandleVoteProofsAccepted {
		return
	}
	proofs := s.vv.PrevoteProofs
	if op.Kind == 1 {
		proofs = s.vv.PrecommitProofs
	}
	set := s.setFor(s.vv.Height)
	_, per, _, _, _ := recomputeSummary(set, proofs, nil)
	have := map[string]bool{}
	for _, ph := range s.vv.ProposedHeaders {
		have[string(ph.Header.Hash)] = true
	}
	for hash, pow := range per {
		if hash == "" || have[hash] || !atLeastOneThird(pow, set.total()) {
			continue
		}
		live := false
		for _, o := range s.fetchOpen {
			// the node tracks in-flight fetches by block hash only; a request made for the same hash at an
			// earlier height (possible for bogus hashes only: a block hash covers its height) still counts
			if o.Hash == hash && o.Ctx.Err() == nil {
				live = true
			}
		}
		if !live {
			s.failf("", "missing-header-not-requested", "voting view %d/%d holds %s of %s power for block %s without its header, a vote for that round was just accepted, and the node has no fetch request for it that it still waits for", s.vv.Height, s.vv.Round, pow, set.total(), hx([]byte(hash)))
			return
		}
		s.label("missing-header-fetch-live")
	}
}

// checkAcceptedVotesKept: a vote message for the voting round that the mirror answered with Accepted
// has been added; while the node stays in that round every authentic (target, signer) pair of it is
// in the voting view (a later update built on an older snapshot must not replace it).
func checkAcceptedVotesKept(s *sim, before viewKey) {
	if !s.alive || s.fail != nil || before.H != s.vv.Height || before.R != s.vv.Round {
		return
	}
	for i := len(s.sentVotes) - 1; i >= 0 && s.sentVotes[i].Step == s.step; i-- {
		sv := s.sentVotes[i]
		if sv.H != s.vv.Height || sv.R != s.vv.Round || len(sv.Results) == 0 {
			continue
		}
		accepted := false
		for _, r := range sv.Results {
			if r == tmconsensus.HandleVoteProofsAccepted {
				accepted = true
			}
		}
		if !accepted {
			continue
		}
		proofs := s.vv.PrevoteProofs
		if sv.Kind == 1 {
			proofs = s.vv.PrecommitProofs
		}
		for _, target := range sortedKeys(sv.Per) {
			var bs bitset.BitSet
			if p, ok := proofs[target]; ok {
				p.SignatureBitSet(&bs)
			}
			for vi := range sv.Per[target] {
				if !bs.Test(uint(vi)) {
					s.failf("", "accepted-vote-lost", "the mirror answered Accepted to a vote message (kind %d) for the voting round %d/%d carrying validator %d's signature for target %s, the node is still in that round, but the voting view does not hold that signature", sv.Kind, sv.H, sv.R, vi, hx([]byte(target)))
					return
				}
			}
		}
		s.label("accepted-votes-checked")
	}
}

func c09Oracle(s *sim, op Op, idx int) {
	checkFetchRequested(s, op, s.posBeforeOp)
	for _, r := range s.lastPHRes {
		if !definedPHResults[r] {
			s.failf("", "undefined-result", "HandleProposedHeader returned undefined result %d", r)
		}
		if r == tmconsensus.HandleProposedHeaderInternalError {
			s.label("ph-internal-error")
		}
		if m := mapperTotal(r, 0); m != "" {
			f := ""
			if vk.Excluded("C09-A12") || true {
				f = "C09-A12"
			}
			s.failf(f, "mapper-panic", "feedback mapper panicked on HandleProposedHeaderResult %d returned by the mirror: %s", r, m)
		}
	}
	for _, r := range s.lastVoteRes {
		if !definedVoteResults[r] {
			s.failf("", "undefined-result", "HandleVoteProofs returned undefined result %d", r)
		}
		if m := mapperTotal(0, r); m != "" {
			s.failf("C09-A12", "mapper-panic", "feedback mapper panicked on HandleVoteProofsResult %d returned by the mirror: %s", r, m)
		}
	}
	s.lastPHRes, s.lastVoteRes = s.lastPHRes[:0], s.lastVoteRes[:0]
}

func c09Spec() propSpec {
	return propSpec{
		prop: "C09", test: "TestVerifC09MirrorHostile",
		rule: "histories of 3-40 ops against one real Mirror: proposed headers / votes at relative heights -2..+3 and rounds -1..+3 with every content, commit-proof and signature corruption variant, replayed headers of every variant, state machine entrances and actions, stalled consumers, concurrent groups, clean restarts; one proposed-header / vote call in six is made by an impatient caller whose context reports cancellation from a generated poll on (i.e. at a generated point inside the call); every call has a fake-time deadline and a poll-counting context; non-trivial = some input outside the (voting height, voting round) window or malformed; distinct = fingerprint of (config, op list)",
		profile: genProfile{
			w:              map[string]int{"ph": 8, "vote": 10, "round": 4, "replay": 3, "sment": 2, "smact": 2, "stall": 1, "read": 1, "conc": 2, "restart": 1, "time": 1, "fetch": 2, "fbusy": 1},
			phVariants:     allVariants(phVariants),
			pcpVariants:    allVariants(pcpVariants),
			voteCorr:       allVariants(vcVariants),
			replayVariants: allVariants(rvVariants),
			pkhVariants:    []int{0, 0, 0, 0, 1, 2},
			minOps:         3, maxOps: 40,
			dh: []int{0, 0, 0, 0, -1, -1, 1, 1, 2, 3, -2}, dr: []int{0, 0, 0, 1, 1, 2, 3, -1},
			multiTarget: true,
			lostHeader:  true,
			impatient:   true,
		},
		own:    ownership{liveness: true},
		oracle: c09Oracle,
		nontrivial: func(s *sim) bool {
			for _, op := range s.c.Ops {
				if (op.K == "ph" || op.K == "vote") && (op.DH != 0 || op.DR != 0 || op.V != 0 || op.PCP != 0 || op.PKH != 0) {
					return true
				}
				if op.K == "replay" && op.V != 0 {
					return true
				}
			}
			return false
		},
	}
}

func TestVerifC09MirrorHostile(t *testing.T) { runProp(t, c09Spec()) }

// The hostile histories under the data race detector (thorough tier only).
func TestVerifC09MirrorHostileDetector(t *testing.T) {
	sp := c09Spec()
	sp.test = "TestVerifC09MirrorHostileDetector"
	runProp(t, sp)
}

// ---------------------------------------------------------------------------
// C01: committed only on a valid >2/3 precommit certificate

type commitEvent struct {
	H    uint64
	Hash string
	Via  string
	Hdr  *tmconsensus.Header // the header the node treats as committed, where the event shows it
}

// contentHash recomputes the block hash of a header the node holds from its content
// (the shipped scheme itself is C15's subject and trusted here).
func contentHash(h tmconsensus.Header) string {
	b, err := msHS.Block(h)
	if err != nil {
		return "error: " + err.Error()
	}
	return string(b)
}

// detectCommits compares the observable commit state with the previous step.
func (s *sim) detectCommits() []commitEvent {
	var evs []commitEvent
	ctx := context.Background()
	// committed-header store: every height newly present
	for h := s.w.init; h <= s.vv.Height+1; h++ {
		ch, err := s.d.chs.LoadCommittedHeader(ctx, h)
		if err != nil {
			continue
		}
		if _, seen := s.seenCommitted[h]; !seen {
			s.seenCommitted[h] = string(ch.Header.Hash)
			hd := ch.Header
			evs = append(evs, commitEvent{H: h, Hash: string(ch.Header.Hash), Via: "committed-header-store", Hdr: &hd})
		}
	}
	// committing view
	if s.cv.Height > 0 {
		hash := s.committingHash()
		key := fmt.Sprintf("%d/%x", s.cv.Height, hash)
		if !s.seenCommitting[key] {
			s.seenCommitting[key] = true
			evs = append(evs, commitEvent{H: s.cv.Height, Hash: hash, Via: "committing-view"})
		}
	}
	// replay accepted in this step
	for _, ro := range s.lastReplay {
		if ro.Step == s.step && ro.Done && ro.Err == nil {
			hd := ro.B.Header
			evs = append(evs, commitEvent{H: ro.B.H, Hash: string(ro.B.Header.Hash), Via: "replay-accepted", Hdr: &hd})
		}
	}
	// committed header handed to the state machine
	for i := len(s.smRecv) - 1; i >= 0 && s.smRecv[i].Step == s.step; i-- {
		if ch := s.smRecv[i].V.CH; ch != nil {
			hd := ch.Header
			evs = append(evs, commitEvent{H: ch.Header.Height, Hash: string(ch.Header.Hash), Via: "handed-to-state-machine", Hdr: &hd})
		}
	}
	return evs
}

// committingHash is the block the committing view commits: the precommit
// target holding the most verified power (the view does not name it).
func (s *sim) committingHash() string {
	if ch, ok := s.committedHeader(s.cv.Height); ok {
		return string(ch.Header.Hash)
	}
	return s.cv.VoteSummary.MostVotedPrecommitHash
}

// certificatePower collects every precommit signature the node holds for
// (h, hash), per round, and returns the best verified power under the
// prescribed set for h.
func (s *sim) certificatePower(h uint64, hash string) (best *big.Int, total *big.Int, detail string) {
	set := s.setFor(h)
	total = set.total()
	ctx := context.Background()
	byRound := map[uint32][]gcrypto.SparseSignature{}
	if s.cv.Height == h {
		if p, ok := s.cv.PrecommitProofs[hash]; ok {
			byRound[s.cv.Round] = append(byRound[s.cv.Round], p.AsSparse().Signatures...)
		}
	}
	if s.vv.Height == h+1 {
		byRound[s.vv.PrevCommitProof.Round] = append(byRound[s.vv.PrevCommitProof.Round], s.vv.PrevCommitProof.Proofs[hash]...)
	}
	if ch, err := s.d.chs.LoadCommittedHeader(ctx, h); err == nil && string(ch.Header.Hash) == hash {
		byRound[ch.Proof.Round] = append(byRound[ch.Proof.Round], ch.Proof.Proofs[hash]...)
	}
	rounds := map[uint32]bool{}
	for r := range byRound {
		rounds[r] = true
	}
	for _, hr := range s.touchedRounds() {
		if hr[0] == h {
			rounds[uint32(hr[1])] = true
		}
	}
	for r := range rounds {
		if _, _, pc, err := s.d.rs.LoadRoundState(ctx, h, r); err == nil {
			byRound[r] = append(byRound[r], pc.BlockSignatures[hash]...)
		}
	}
	best = new(big.Int)
	for r, sigs := range byRound {
		ok := map[int]bool{}
		msg := precommitBytes(h, r, hash)
		for _, sg := range sigs {
			if len(sg.KeyID) != 2 {
				continue
			}
			i := int(sg.KeyID[0])<<8 | int(sg.KeyID[1])
			if i < len(set.Keys) && verifyWith(set.Keys[i], msg, sg.Sig) {
				ok[i] = true
			}
		}
		p := powerOf(set, ok)
		detail += fmt.Sprintf(" round %d: %d held signatures, %d distinct verified signers, power %s;", r, len(sigs), len(ok), p)
		if p.Cmp(best) > 0 {
			best = p
		}
	}
	return best, total, detail
}

func c01Oracle(s *sim, op Op, idx int) {
	if !s.alive {
		return
	}
	// an accepted proposed header vouches for its parent with its previous-commit proof:
	// that certificate must exceed two thirds for exactly (h-1, proof round, parent hash)
	for ; s.c01PHSeen < len(s.phLog); s.c01PHSeen++ {
		e := s.phLog[s.c01PHSeen]
		h := e.PH.Header.Height
		if e.Res != tmconsensus.HandleProposedHeaderAccepted || h <= s.w.init {
			continue
		}
		set := s.setFor(h - 1)
		pcp := e.PH.Header.PrevCommitProof
		parent := string(e.PH.Header.PrevBlockHash)
		ok, _ := validSigners(set, precommitBytes(h-1, pcp.Round, parent), pcp.Proofs[parent])
		s.label("accepted-header-with-certificate")
		if !exceedsTwoThirds(powerOf(set, ok), set.total()) {
			s.failf("", "accepted-header-with-weak-certificate", "proposed header %d/%d was accepted although its previous-commit proof holds valid precommits for (%d, round %d, %s) with power %s of %s (need > 2/3)",
				h, e.PH.Round, h-1, pcp.Round, hx([]byte(parent)), powerOf(set, ok), set.total())
			return
		}
	}
	for _, ev := range s.detectCommits() {
		s.label("commit-event:" + ev.Via)
		if ev.Hash == "" {
			s.failf("", "nil-committed", "commit event (%s) at height %d for the nil hash", ev.Via, ev.H)
			return
		}
		if ev.Hdr != nil {
			// the certificate is for a block hash: the header committed under it must be that block
			if got := contentHash(*ev.Hdr); got != ev.Hash {
				s.failf("", "committed-content-not-the-certified-block", "height %d: the header treated as committed (%s) claims hash %s, its content hashes to %s - the precommits the node holds certify another block",
					ev.H, ev.Via, hx([]byte(ev.Hash)), hx([]byte(got)))
				return
			}
		}
		best, total, detail := s.certificatePower(ev.H, ev.Hash)
		if !exceedsTwoThirds(best, total) {
			s.failf("", "commit-without-certificate", "height %d hash %s treated as committed (%s) but the node holds valid precommits for exactly that height/round/hash from prescribed validators with power %s of %s (need > 2/3):%s",
				ev.H, hx([]byte(ev.Hash)), ev.Via, best, total, detail)
			return
		}
	}
}

func c01Spec() propSpec {
	return propSpec{
		prop: "C01", test: "TestVerifC01CommitCertificate",
		rule: "histories of 3-40 ops against one real Mirror weighted towards certificates: honest round macros with partial signer masks (below / at / above quorum), precommit messages with corruption, proposed headers with every previous-commit-proof variant (next-height headers that backfill a commit included), replayed headers of every variant (foreign validator list, forged powers, below quorum, bad signature, other height, extra nil entry), state machine entrances, concurrent groups, fetch answers (genuine, forged validator lists, altered content under the requested hash) incl. the sequence lost proposal - votes - fetch - commit; at every commit event (committing view, committed-header store, accepted replay, header handed to the state machine) the committed header's content must hash to the certified block hash and the held precommits are re-verified with crypto/ed25519 under the prescribed set and summed in math/big; non-trivial = >=1 commit event and >=1 certificate that must be rejected was offered; distinct = fingerprint of (config, op list)",
		profile: genProfile{
			w:              map[string]int{"ph": 5, "vote": 8, "round": 6, "replay": 6, "sment": 1, "smact": 1, "conc": 1, "fetch": 2},
			phVariants:     []int{phFresh, phFresh, phFresh, phAltNext, phBadSig, phWrongPrev, phForgedNext, phForgedCur},
			pcpVariants:    allVariants(pcpVariants),
			voteCorr:       []int{vcNone, vcFlip, vcOtherKey, vcOtherKind, vcOtherRound, vcOtherHeight, vcOutsider, vcOtherTarget},
			replayVariants: allVariants(rvVariants),
			pkhVariants:    []int{0, 0, 0, 0, 1},
			minOps:         3, maxOps: 40,
			dh: []int{0, 0, 0, 0, 1, 1, -1}, dr: []int{0, 0, 0, 1},
			multiTarget:  true,
			hostileFetch: true,
		},
		setup:  func(s *sim) { s.seenCommitted = map[uint64]string{}; s.seenCommitting = map[string]bool{} },
		oracle: c01Oracle,
		nontrivial: func(s *sim) bool {
			commits := 0
			for l, n := range s.labels {
				if len(l) > 13 && l[:13] == "commit-event:" {
					commits += n
				}
			}
			return commits > 0 && s.labels["must-reject-offered"] > 0
		},
	}
}

func TestVerifC01CommitCertificate(t *testing.T) { runProp(t, c01Spec()) }

// ---------------------------------------------------------------------------
// C07: the validator set used at each height is the one the chain committed

func valSetMatches(got tmconsensus.ValidatorSet, want vset) string {
	if len(got.Validators) != len(want.Keys) || len(got.PubKeys) != len(want.Keys) {
		return fmt.Sprintf("has %d validators / %d pubkeys, prescribed set has %d", len(got.Validators), len(got.PubKeys), len(want.Keys))
	}
	for i := range want.Keys {
		if !got.Validators[i].PubKey.Equal(msPub[want.Keys[i]]) || !got.PubKeys[i].Equal(msPub[want.Keys[i]]) {
			return fmt.Sprintf("validator %d has key %x.., prescribed %x..", i, got.Validators[i].PubKey.PubKeyBytes()[:4], msPub[want.Keys[i]].PubKeyBytes()[:4])
		}
		if got.Validators[i].Power != want.Powers[i] {
			return fmt.Sprintf("validator %d has power %d, prescribed %d", i, got.Validators[i].Power, want.Powers[i])
		}
	}
	if string(got.PubKeyHash) != string(want.VS.PubKeyHash) || string(got.VotePowerHash) != string(want.VS.VotePowerHash) {
		return "hashes differ from the prescribed set's"
	}
	return ""
}

func listMatchesHashes(v tmconsensus.ValidatorSet) string {
	if len(v.Validators) == 0 {
		return "empty validator list"
	}
	if string(refPubKeyHash(tmconsensus.ValidatorsToPubKeys(v.Validators))) != string(v.PubKeyHash) {
		return "public keys do not hash to PubKeyHash"
	}
	if string(refPubKeyHash(v.PubKeys)) != string(v.PubKeyHash) {
		return "PubKeys slice does not hash to PubKeyHash"
	}
	if string(refPowerHash(tmconsensus.ValidatorsToVotePowers(v.Validators))) != string(v.VotePowerHash) {
		return "powers do not hash to VotePowerHash"
	}
	return ""
}

func c07Oracle(s *sim, op Op, idx int) {
	if !s.alive {
		return
	}
	if m := valSetMatches(s.vv.ValidatorSet, s.setFor(s.vv.Height)); m != "" {
		s.failf("", "voting-set-not-prescribed", "voting view at height %d (after %d restarts): %s", s.vv.Height, s.restarts, m)
		return
	}
	if m := listMatchesHashes(s.vv.ValidatorSet); m != "" {
		s.failf("", "set-contents-vs-hashes", "voting view at height %d: %s", s.vv.Height, m)
		return
	}
	if s.cv.Height > 0 {
		if m := valSetMatches(s.cv.ValidatorSet, s.setFor(s.cv.Height)); m != "" {
			s.failf("", "committing-set-not-prescribed", "committing view at height %d (after %d restarts): %s", s.cv.Height, s.restarts, m)
			return
		}
	}
	for h := s.w.init; h <= s.cv.Height; h++ {
		ch, ok := s.committedHeader(h)
		if !ok {
			continue
		}
		if m := listMatchesHashes(ch.Header.NextValidatorSet); m != "" {
			s.failf("", "committed-next-set-vs-hashes", "committed header %d NextValidatorSet: %s", h, m)
			return
		}
		if m := listMatchesHashes(ch.Header.ValidatorSet); m != "" {
			s.failf("", "committed-set-vs-hashes", "committed header %d ValidatorSet: %s", h, m)
			return
		}
		if m := valSetMatches(ch.Header.ValidatorSet, s.setFor(h)); m != "" {
			s.failf("", "committed-set-not-prescribed", "committed header %d ValidatorSet: %s", h, m)
			return
		}
	}
	if s.cv.Height >= s.w.init+2 {
		s.label("reached-changed-sets")
	}
}

func c07Spec() propSpec {
	return propSpec{
		prop: "C07", test: "TestVerifC07ValidatorSets",
		rule: "histories of 3-30 ops on chains whose application changes validator keys and powers at every height (from initial+2 on): honest round macros, proposed headers that are copies with altered ValidatorSet / NextValidatorSet lists (hashes, block hash and signature untouched) delivered before or after the original, Byzantine-but-consistent alternative next sets, next-height headers, replays (incl. foreign list / forged powers), restarts; after every step the voting and committing validator sets must equal the prescribed set (keys, powers, hashes) and every committed header's lists must hash (independent BLAKE2b re-implementation) to its hashes; non-trivial = validator set differs between two consecutive committed heights and a forged-list message was delivered; distinct = fingerprint of (config, op list)",
		profile: genProfile{
			w:              map[string]int{"ph": 8, "vote": 3, "round": 10, "replay": 3, "restart": 2, "sment": 1, "fetch": 1},
			hostileFetch:   true,
			phVariants:     []int{phFresh, phFresh, phForgedNext, phForgedNext, phForgedCur, phForgedNextPowers, phForgedNextPubKeysOnly, phForgedNextPubKeysOnly, phForgedCurPubKeysOnly, phAltNext},
			pcpVariants:    []int{pcpExact},
			voteCorr:       []int{vcNone},
			replayVariants: []int{rvHonest, rvForeignSet, rvForeignPowers, rvForeignPubKeysOnly, rvForgedNext, rvForgedNext},
			minOps:         3, maxOps: 30,
			dh: []int{0, 0, 0, 1}, dr: []int{0, 0, 0, 1},
			valChange: []int{1, 2, 2, 3, 4},
			inits:     []uint64{1, 1, 5},
		},
		oracle: c07Oracle,
		nontrivial: func(s *sim) bool {
			forged := s.labels["ph:v2"]+s.labels["ph:v3"]+s.labels["ph:v9"]+s.labels["ph:v10"]+s.labels["ph:v11"]+s.labels["replay:v1:ok=false"]+s.labels["replay:v1:ok=true"]+s.labels["replay:v9:ok=false"]+s.labels["replay:v9:ok=true"] > 0
			return s.labels["reached-changed-sets"] > 0 && forged
		},
	}
}

func TestVerifC07ValidatorSets(t *testing.T) { runProp(t, c07Spec()) }

// ---------------------------------------------------------------------------
// C04: the committed chain is immutable, gap-free and hash-linked

func c04Oracle(s *sim, op Op, idx int) {
	ctx := context.Background()
	// the node must keep building on the block it recorded as committed: an honest proposal for the
	// voting round on top of the recorded committed header (certificate copied from the node's own
	// committing view) is never turned away
	if len(s.macroRejected) > 0 {
		s.failf("", "honest-child-rejected", "%s", s.macroRejected[0])
		return
	}
	// (a) + (b): heights present are exactly initial..committing, hashes never change
	top := uint64(0)
	for h := s.w.init; h <= s.vv.Height+2; h++ {
		ch, err := s.d.chs.LoadCommittedHeader(ctx, h)
		if err != nil {
			continue
		}
		if ch.Header.Height != h {
			s.failf("", "stored-under-wrong-height", "committed header store returns height %d for height %d", ch.Header.Height, h)
			return
		}
		if old, ok := s.c04Hash[h]; ok && old != string(ch.Header.Hash) {
			s.failf("", "committed-hash-changed", "height %d was committed with hash %s and is now %s", h, hx([]byte(old)), hx(ch.Header.Hash))
			return
		}
		s.c04Hash[h] = string(ch.Header.Hash)
		top = h
	}
	for h := range s.c04Hash {
		if _, err := s.d.chs.LoadCommittedHeader(ctx, h); err != nil {
			s.failf("", "committed-header-lost", "height %d was committed and can no longer be loaded: %v", h, err)
			return
		}
	}
	for h := s.w.init; h < top; h++ {
		if _, ok := s.c04Hash[h]; !ok {
			s.failf("", "gap", "height %d is committed but height %d is not", top, h)
			return
		}
	}
	// (d) hash link
	for h := s.w.init + 1; h <= top; h++ {
		cur, _ := s.d.chs.LoadCommittedHeader(ctx, h)
		if string(cur.Header.PrevBlockHash) != s.c04Hash[h-1] {
			s.failf("", "broken-hash-link", "committed header %d names predecessor %s but height %d is committed with hash %s", h, hx(cur.Header.PrevBlockHash), h-1, hx([]byte(s.c04Hash[h-1])))
			return
		}
	}
	// (c) positions
	vh, vr, chh, chr, err := s.d.ms.NetworkHeightRound(ctx)
	if err == nil {
		if vh < s.c04NHR[0] || (vh == s.c04NHR[0] && vr < uint32(s.c04NHR[1])) {
			s.failf("", "stored-position-regressed", "mirror store voting position went from %d/%d to %d/%d", s.c04NHR[0], s.c04NHR[1], vh, vr)
			return
		}
		if chh < s.c04NHR[2] {
			s.failf("", "stored-position-regressed", "mirror store committing height went from %d to %d", s.c04NHR[2], chh)
			return
		}
		s.c04NHR = [4]uint64{vh, uint64(vr), chh, uint64(chr)}
		if !(chh == 0 && vh == s.w.init) && chh+1 != vh {
			s.failf("", "voting-not-committing-plus-one", "mirror store: voting height %d, committing height %d", vh, chh)
			return
		}
	}
	if !s.alive {
		return
	}
	if s.vv.Height < s.c04View[0] || (s.vv.Height == s.c04View[0] && uint64(s.vv.Round) < s.c04View[1]) {
		s.failf("", "view-position-regressed", "voting view went from %d/%d to %d/%d", s.c04View[0], s.c04View[1], s.vv.Height, s.vv.Round)
		return
	}
	s.c04View = [2]uint64{s.vv.Height, uint64(s.vv.Round)}
	if !(s.cv.Height == 0 && s.vv.Height == s.w.init) && s.cv.Height+1 != s.vv.Height {
		s.failf("", "voting-not-committing-plus-one", "views: voting height %d, committing height %d", s.vv.Height, s.cv.Height)
		return
	}
	if err == nil && (vh != s.vv.Height || vr != s.vv.Round || chh != s.cv.Height || (s.cv.Height > 0 && chr != s.cv.Round)) {
		s.failf("", "stored-position-stale", "at quiescence the mirror store records voting %d/%d committing %d/%d but the views are at voting %d/%d committing %d/%d", vh, vr, chh, chr, s.vv.Height, s.vv.Round, s.cv.Height, s.cv.Round)
		return
	}
	if s.cv.Height > 0 && top != s.cv.Height {
		s.failf("", "store-vs-view", "committing view is at height %d but the committed-header store ends at %d", s.cv.Height, top)
		return
	}
	if top >= s.w.init+1 {
		s.label("two-commits")
	}
}

func c04Spec() propSpec {
	return propSpec{
		prop: "C04", test: "TestVerifC04CommittedChain",
		rule: "histories of 4-45 ops over several heights: honest round macros, late / duplicated / conflicting but well-signed certificates aimed at committed heights (the harness owns all keys), proposed headers and replays whose PrevBlockHash does not match the committed predecessor, replays at old / current / future heights, next-height headers, fetch answers (incl. a lost proposal with a wrong predecessor that is fetched while its votes are incomplete and then gets its quorum), concurrent groups, clean restarts; after every step: committed hash per height never changes, heights are contiguous from the initial height, stored and viewed voting positions never go backwards, voting height = committing height + 1, every stored header names the stored predecessor's hash; non-trivial = >=2 commits and >=1 input aimed at a committed height or carrying a mismatching PrevBlockHash; distinct = fingerprint of (config, op list)",
		profile: genProfile{
			w:              map[string]int{"ph": 6, "vote": 6, "round": 10, "replay": 5, "restart": 2, "conc": 1, "sment": 1, "fetch": 2},
			phVariants:     []int{phFresh, phFresh, phWrongPrev, phWrongPrev, phAltNext},
			pcpVariants:    []int{pcpExact, pcpExact, pcpExact, pcpBelowQuorum, pcpWrongRound},
			voteCorr:       []int{vcNone, vcNone, vcFlip},
			replayVariants: []int{rvHonest, rvHonest, rvWrongPrev, rvWrongPrev, rvOtherHeight, rvBelowQuorum, rvExtraNil},
			minOps:         4, maxOps: 45,
			dh: []int{0, 0, 0, -1, -1, -2, 1}, dr: []int{0, 0, 0, 1},
			multiTarget:  true,
			hostileFetch: true,
		},
		setup:  func(s *sim) { s.c04Hash = map[uint64]string{} },
		oracle: c04Oracle,
		nontrivial: func(s *sim) bool {
			aimed := s.labels["vote@committing"]+s.labels["vote@old"]+s.labels["ph:v6"]+s.labels["replay:v2:ok=true"]+s.labels["replay:v2:ok=false"]+s.labels["replay:v6:ok=false"] > 0
			return s.labels["two-commits"] > 0 && aimed
		},
	}
}

func TestVerifC04CommittedChain(t *testing.T) { runProp(t, c04Spec()) }

// ---------------------------------------------------------------------------
// C06 (mirror part): summaries equal recomputation; < 1/3 of the power can not move the node

func checkSummary(s *sim, where string, v *tmconsensus.VersionedRoundView) {
	if v == nil || v.Height == 0 {
		return
	}
	set := s.setFor(v.Height)
	avail, perPV, perPC, totPV, totPC := recomputeSummary(set, v.PrevoteProofs, v.PrecommitProofs)
	vs := v.VoteSummary
	u := func(x uint64) *big.Int { return new(big.Int).SetUint64(x) }
	if u(vs.AvailablePower).Cmp(avail) != 0 {
		s.failf("", "available-power", "%s view %d/%d: AvailablePower %d, recomputed %s", where, v.Height, v.Round, vs.AvailablePower, avail)
		return
	}
	if u(vs.TotalPrevotePower).Cmp(totPV) != 0 {
		s.failf("", "total-prevote-power", "%s view %d/%d: TotalPrevotePower %d, recomputed over distinct signers %s", where, v.Height, v.Round, vs.TotalPrevotePower, totPV)
		return
	}
	if u(vs.TotalPrecommitPower).Cmp(totPC) != 0 {
		s.failf("", "total-precommit-power", "%s view %d/%d: TotalPrecommitPower %d, recomputed over distinct signers %s", where, v.Height, v.Round, vs.TotalPrecommitPower, totPC)
		return
	}
	for kind, pair := range []struct {
		got map[string]uint64
		want map[string]*big.Int
		most string
	}{{vs.PrevoteBlockPower, perPV, vs.MostVotedPrevoteHash}, {vs.PrecommitBlockPower, perPC, vs.MostVotedPrecommitHash}} {
		for hash, w := range pair.want {
			if u(pair.got[hash]).Cmp(w) != 0 {
				s.failf("", "block-power", "%s view %d/%d kind=%d hash=%s: power %d, recomputed %s", where, v.Height, v.Round, kind, hx([]byte(hash)), pair.got[hash], w)
				return
			}
		}
		for hash, g := range pair.got {
			if _, ok := pair.want[hash]; !ok && g != 0 {
				s.failf("", "block-power", "%s view %d/%d kind=%d: power %d reported for hash %s without any proof", where, v.Height, v.Round, kind, g, hx([]byte(hash)))
				return
			}
		}
		if want := mostVoted(pair.want); want != pair.most {
			s.failf("", "most-voted", "%s view %d/%d kind=%d: most voted %s, recomputed %s", where, v.Height, v.Round, kind, hx([]byte(pair.most)), hx([]byte(want)))
			return
		}
	}
}

func c06Oracle(s *sim, op Op, idx int) {
	if !s.alive {
		return
	}
	checkSummary(s, "voting", &s.vv)
	checkSummary(s, "committing", &s.cv)
	for i := len(s.gsRecv) - 1; i >= 0 && s.gsRecv[i].Step == s.step; i-- {
		u := s.gsRecv[i].U
		checkSummary(s, "gossip.voting", u.Voting)
		checkSummary(s, "gossip.nextround", u.NextRound)
		checkSummary(s, "gossip.committing", u.Committing)
		checkSummary(s, "gossip.nilvoted", u.NilVotedRound)
	}
	for i := len(s.smRecv) - 1; i >= 0 && s.smRecv[i].Step == s.step; i-- {
		checkSummary(s, "statemachine", &s.smRecv[i].V.VRV)
		checkSummary(s, "statemachine.jumpahead", s.smRecv[i].V.JumpAheadRoundView)
	}
	if s.fail != nil {
		return
	}
	// a round may only be left on authentic votes of DISTINCT validators: nil precommits > 2/3, all
	// precommits present, or >= 1/3 of the power voting in the next round (the members of F alone never suffice)
	if s.vv.Height == s.c06Prev[0] && uint64(s.vv.Round) > s.c06Prev[1] {
		h, r := s.vv.Height, uint32(s.c06Prev[1])
		set := s.setFor(h)
		distinct := func(rr uint32, kind int) (union map[int]bool, nilSet map[int]bool) {
			union, nilSet = map[int]bool{}, map[int]bool{}
			_, pv, pc, err := s.d.rs.LoadRoundState(context.Background(), h, rr)
			if err != nil {
				return
			}
			col := pv
			if kind == 1 {
				col = pc
			}
			for hash, sigs := range col.BlockSignatures {
				ok, _ := checkSigs(set, kind, h, rr, hash, sigs)
				for i := range ok {
					union[i] = true
					if hash == "" {
						nilSet[i] = true
					}
				}
			}
			return
		}
		pcAll, pcNil := distinct(r, 1)
		pvNext, _ := distinct(r+1, 0)
		pcNext, _ := distinct(r+1, 1)
		justified := exceedsTwoThirds(powerOf(set, pcNil), set.total()) ||
			powerOf(set, pcAll).Cmp(set.total()) == 0 ||
			atLeastOneThird(powerOf(set, pvNext), set.total()) || atLeastOneThird(powerOf(set, pcNext), set.total()) ||
			uint64(s.vv.Round) > s.c06Prev[1]+1 // more than one round in one step: judged round by round is not possible here
		if !justified {
			s.failf("", "unjustified-round-change", "voting round went from %d/%d to %d/%d although distinct validators hold: nil precommits %s, all precommits %s, next-round prevotes %s, next-round precommits %s of total %s",
				h, r, s.vv.Height, s.vv.Round, powerOf(set, pcNil), powerOf(set, pcAll), powerOf(set, pvNext), powerOf(set, pcNext), set.total())
			return
		}
		s.label("round-change-justified")
	}
	s.c06Prev = [2]uint64{s.vv.Height, uint64(s.vv.Round)}
	if !s.fPhase {
		return
	}
	// when every signer in the voting view belongs to F, no total may reach one third
	set := s.setFor(s.vv.Height)
	onlyF := true
	for _, m := range []map[string]gcrypto.CommonMessageSignatureProof{s.vv.PrevoteProofs, s.vv.PrecommitProofs} {
		for _, p := range m {
			var bs bitset.BitSet
			p.SignatureBitSet(&bs)
			for i, ok := bs.NextSet(0); ok; i, ok = bs.NextSet(i + 1) {
				if s.fMask&(1<<i) == 0 {
					onlyF = false
				}
			}
		}
	}
	third := func(x uint64) bool { return atLeastOneThird(new(big.Int).SetUint64(x), set.total()) }
	if onlyF && (third(s.vv.VoteSummary.TotalPrevotePower) || third(s.vv.VoteSummary.TotalPrecommitPower)) {
		s.failf("", "minority-reaches-threshold", "validators below one third of the power produced TotalPrevotePower=%d TotalPrecommitPower=%d of %s", s.vv.VoteSummary.TotalPrevotePower, s.vv.VoteSummary.TotalPrecommitPower, set.total())
	}
}

func c06Spec() propSpec {
	return propSpec{
		prop: "C06", test: "TestVerifC06MirrorMinority",
		rule: "histories against one real Mirror: 0-3 honest macro rounds, then only a set F holding < 1/3 of the power votes (prevotes and precommits, nil / known / unknown targets, several targets per message and across messages, voting round, next round and later rounds, late votes for the committing height, duplicates) interleaved with proposals, state machine entrances and clean restarts (the start-up re-evaluation of the stored votes must not move the node either); after every step every VoteSummary (views, gossip and state machine outputs) is recomputed from the signer bitsets over distinct validators in math/big and the voting position must not have moved since F started voting; non-trivial = some member of F signed >= 2 targets of one kind in one round; distinct = fingerprint of (config, op list)",
		profile: genProfile{
			w:              map[string]int{"ph": 2, "vote": 14, "round": 3, "sment": 1, "read": 1, "stall": 1, "restart": 1},
			phVariants:     []int{phFresh},
			pcpVariants:    []int{pcpExact},
			voteCorr:       []int{vcNone},
			replayVariants: []int{rvHonest},
			minOps:         4, maxOps: 40,
			dh: []int{0, 0, 0, 0, -1}, dr: []int{0, 0, 0, 1, 1, 2},
			valChange:   []int{0, 0, 3, 4},
			multiTarget: true,
			fOnly:       true,
		},
		setup: func(s *sim) {
			s.fOnly = true
			s.fMask = 0
		},
		oracle: c06Oracle,
		nontrivial: func(s *sim) bool { return s.labels["f-equivocation"] > 0 },
	}
}

func TestVerifC06MirrorMinority(t *testing.T) { runProp(t, c06Spec()) }

// ---------------------------------------------------------------------------
// C11: consumers see strictly newer, growing views and end up current

type viewKey struct {
	H uint64
	R uint32
}

type viewTrack struct {
	lastContent string
	lastVersion uint32
	phs         map[string]bool
	signers     [2]map[string]map[int]bool
	seen        bool
}

func newViewTrack() *viewTrack {
	return &viewTrack{phs: map[string]bool{}, signers: [2]map[string]map[int]bool{{}, {}}}
}

// observeView checks one received view against what the same consumer got before for that round.
func (s *sim) c11Observe(consumer string, tracks map[viewKey]*viewTrack, v *tmconsensus.VersionedRoundView, strictVersion bool) {
	if v == nil || v.Height == 0 || s.fail != nil {
		return
	}
	k := viewKey{v.Height, v.Round}
	tr := tracks[k]
	if tr == nil {
		tr = newViewTrack()
		tracks[k] = tr
	}
	if tr.seen {
		if strictVersion && v.Version <= tr.lastVersion {
			s.failf("", "version-not-increasing", "%s received view %d/%d with version %d after version %d", consumer, v.Height, v.Round, v.Version, tr.lastVersion)
			return
		}
		if !strictVersion && v.Version < tr.lastVersion {
			s.failf("", "version-regressed", "%s received view %d/%d with version %d after version %d", consumer, v.Height, v.Round, v.Version, tr.lastVersion)
			return
		}
	}
	now := map[string]bool{}
	for _, ph := range v.ProposedHeaders {
		now[string(ph.Header.Hash)+"|"+string(ph.Signature)] = true
	}
	for ph := range tr.phs {
		if !now[ph] {
			s.failf("", "proposal-disappeared", "%s: view %d/%d version %d lacks a proposed header that version %d had", consumer, v.Height, v.Round, v.Version, tr.lastVersion)
			return
		}
	}
	for kind, m := range []map[string]gcrypto.CommonMessageSignatureProof{v.PrevoteProofs, v.PrecommitProofs} {
		cur := map[string]map[int]bool{}
		for hash, p := range m {
			var bs bitset.BitSet
			p.SignatureBitSet(&bs)
			set := map[int]bool{}
			for i, ok := bs.NextSet(0); ok; i, ok = bs.NextSet(i + 1) {
				set[int(i)] = true
			}
			cur[hash] = set
		}
		for hash, old := range tr.signers[kind] {
			for i := range old {
				if !cur[hash][i] {
					s.failf("", "vote-disappeared", "%s: view %d/%d version %d lost the kind=%d vote of validator %d for %s that version %d had", consumer, v.Height, v.Round, v.Version, kind, i, hx([]byte(hash)), tr.lastVersion)
					return
				}
			}
		}
		tr.signers[kind] = cur
	}
	tr.phs = now
	tr.lastVersion = v.Version
	tr.lastContent = digestVRVContent(v)
	tr.seen = true
}

func c11Oracle(s *sim, op Op, idx int) {
	checkAcceptedVotesKept(s, s.posBeforeOp)
	if s.c11 == nil {
		s.c11 = &c11State{gs: map[viewKey]*viewTrack{}, sm: map[viewKey]*viewTrack{}, byVersion: map[string]string{}}
	}
	st := s.c11
	if op.K == "restart" || op.K == "start" {
		// version counters restart with the process
		st.gs, st.sm = map[viewKey]*viewTrack{}, map[viewKey]*viewTrack{}
		st.gsSeen, st.smSeen = s.incStartGS, s.incStartSM
		st.nilVoted, st.pendingNil, st.prevVoting, st.prevJust = nil, nil, viewKey{}, ""
		st.byVersion = map[string]string{}
	}
	for ; st.gsSeen < len(s.gsRecv); st.gsSeen++ {
		u := s.gsRecv[st.gsSeen].U
		// one update never carries the same round twice with different content; every view must be newer
		s.c11Observe("gossip", st.gs, u.Committing, true)
		s.c11Observe("gossip", st.gs, u.Voting, true)
		s.c11Observe("gossip", st.gs, u.NextRound, true)
		if u.NilVotedRound != nil {
			st.nilVoted = append(st.nilVoted, u.NilVotedRound)
			s.label("gossip-nilvoted")
		}
	}
	for ; st.smSeen < len(s.smRecv); st.smSeen++ {
		r := s.smRecv[st.smSeen]
		if r.Entrance {
			// a new round: the state machine starts a fresh sequence for it
			delete(st.sm, viewKey{r.H, r.R})
			st.smEnt = viewKey{r.H, r.R}
			st.smJump = false
			if r.V.VRV.Height > 0 {
				s.c11Observe("state machine (entrance response)", st.sm, &r.V.VRV, true)
			}
			continue
		}
		if r.V.VRV.Height > 0 {
			if (viewKey{r.V.VRV.Height, r.V.VRV.Round}) != st.smEnt {
				s.failf("", "view-for-other-round", "state machine is on %d/%d and received a view for %d/%d", st.smEnt.H, st.smEnt.R, r.V.VRV.Height, r.V.VRV.Round)
				return
			}
			s.c11Observe("state machine", st.sm, &r.V.VRV, true)
		}
		if j := r.V.JumpAheadRoundView; j != nil {
			st.smJump = true
			s.label("sm-jumpahead")
			if j.Height < st.smEnt.H || (j.Height == st.smEnt.H && j.Round <= st.smEnt.R) {
				s.failf("", "jumpahead-not-ahead", "state machine on %d/%d received a jump-ahead view for %d/%d", st.smEnt.H, st.smEnt.R, j.Height, j.Round)
				return
			}
		}
	}
	if s.fail != nil || !s.alive {
		return
	}
	// the mirror's own views: one (height, round, version) names one content, otherwise
	// consumers that hold that version are never told about the difference
	for _, v := range []*tmconsensus.VersionedRoundView{&s.vv, &s.cv} {
		if v.Height == 0 {
			continue
		}
		k := fmt.Sprintf("%d/%d/%d", v.Height, v.Round, v.Version)
		c := digestVRVContent(v)
		if old, ok := st.byVersion[k]; ok && old != c {
			s.failf("", "content-changed-without-version", "the mirror's view %d/%d changed its content while its version stayed %d:\nbefore: %s\nafter:  %s", v.Height, v.Round, v.Version, trunc(old, 1000), trunc(c, 1000))
			return
		}
		st.byVersion[k] = c
	}
	// this step left rounds of the previous voting height and then committed a later round of it: if one
	// of those rounds was left by a nil commit / full vote while the gossip reader was stalled, that
	// advance overwrote the single NilVotedRound slot (trigger of C11-F1)
	if st.prevVoting.H != 0 && s.vv.Height > st.prevVoting.H && s.cv.Height == st.prevVoting.H && s.cv.Round > st.prevVoting.R && s.gsStalled {
		for r := st.prevVoting.R; r < s.cv.Round; r++ {
			if s.roundLeftJustification(st.prevVoting.H, r) != "" {
				for i := range st.pendingNil {
					st.pendingNil[i].Overwritten = true
				}
				break
			}
		}
	}
	// the round left by a nil commit / full vote: its justification must reach gossip (when the reader is not stalled)
	if st.prevVoting.H == s.vv.Height && s.vv.Round > st.prevVoting.R && st.prevVoting.H != 0 {
		s.label("round-advanced")
		if j := s.roundLeftJustification(st.prevVoting.H, st.prevVoting.R); j != "" && st.prevJust != "" {
			// the nil majority / full vote was already there before this step and the mirror stayed
			// (it is only evaluated when a vote for that round arrives): what made it leave now is
			// this step's input for a later round (skip), which the new voting view itself carries
			s.label("round-left-by-skip-although-fully-voted")
		} else if j != "" {
			// more than one round left within this step: the reader had no chance to take the
			// first NilVotedRound before the second advance overwrote the single slot (trigger of C11-F1)
			st.pendingNil = append(st.pendingNil, pendingNil{K: st.prevVoting, Why: j, Step: s.step, Fresh: true, Overwritten: s.vv.Round > st.prevVoting.R+1})
		}
		if s.gsStalled {
			// the single NilVotedRound slot is overwritten by any later round advance
			// while the reader has not taken the previous one
			for i := range st.pendingNil {
				if !st.pendingNil[i].Fresh {
					st.pendingNil[i].Overwritten = true
				}
			}
		}
		for i := range st.pendingNil {
			st.pendingNil[i].Fresh = false
		}
	}
	st.prevVoting = viewKey{s.vv.Height, s.vv.Round}
	st.prevJust = s.roundLeftJustification(s.vv.Height, s.vv.Round)
	if !s.gsStalled {
		for _, p := range st.pendingNil {
			found := false
			for _, nv := range st.nilVoted {
				if nv.Height == p.K.H && nv.Round == p.K.R && s.viewJustifies(nv) {
					found = true
				}
			}
			if !found && p.Overwritten {
				if vk.Excluded("C11-F1") {
					s.excluded["C11-F1"]++
					continue
				}
				s.failf("C11-F1", "nil-round-votes-not-gossiped", "voting round left %d/%d at step %d (%s) while the gossip reader was stalled and a later round was left before it resumed: the earlier round's votes were never handed to gossip", p.K.H, p.K.R, p.Step, p.Why)
				return
			}
			if !found {
				s.failf("", "nil-round-votes-not-gossiped", "voting round left %d/%d at step %d (%s) but the gossip strategy, fully drained, never received that round's view with the justifying precommits", p.K.H, p.K.R, p.Step, p.Why)
				return
			}
		}
		st.pendingNil = nil
		// drained gossip reader holds the mirror's current views
		if g := st.gs[viewKey{s.vv.Height, s.vv.Round}]; g == nil || g.lastVersion != s.vv.Version {
			have := uint32(0)
			if g != nil {
				have = g.lastVersion
			}
			s.failf("", "gossip-not-current", "gossip reader is drained but its latest voting view %d/%d has version %d, the mirror's has %d", s.vv.Height, s.vv.Round, have, s.vv.Version)
			return
		} else if c := digestVRVContent(&s.vv); c != g.lastContent {
			s.failf("", "gossip-not-current", "gossip reader is drained and holds voting view %d/%d version %d, but its content differs from the mirror's view of the same version:\nconsumer: %s\nmirror:   %s", s.vv.Height, s.vv.Round, s.vv.Version, trunc(g.lastContent, 1200), trunc(c, 1200))
			return
		}
		if s.cv.Height > 0 {
			if g := st.gs[viewKey{s.cv.Height, s.cv.Round}]; g == nil || g.lastVersion != s.cv.Version {
				s.failf("", "gossip-not-current", "gossip reader is drained but lacks the mirror's committing view %d/%d version %d", s.cv.Height, s.cv.Round, s.cv.Version)
				return
			}
		}
	}
	if !s.smStalled && s.n.entered {
		e := viewKey{s.n.entH, s.n.entR}
		switch {
		case e == viewKey{s.vv.Height, s.vv.Round}:
			if g := st.sm[e]; g == nil || g.lastVersion != s.vv.Version {
				have := uint32(0)
				if g != nil {
					have = g.lastVersion
				}
				s.failf("", "state-machine-not-current", "state machine reader is drained on voting round %d/%d with version %d, the mirror's view has %d", e.H, e.R, have, s.vv.Version)
				return
			} else if c := digestVRVContent(&s.vv); c != g.lastContent {
				s.failf("", "state-machine-not-current", "state machine reader is drained and holds view %d/%d version %d, but its content differs from the mirror's view of the same version", e.H, e.R, s.vv.Version)
				return
			}
		case e.H == s.vv.Height && e.R < s.vv.Round:
			// the mirror left the state machine's round: it must have been told why
			g := st.sm[e]
			last := s.lastSMView(e)
			if !(st.smJump || (g != nil && last != nil && s.viewJustifies(last))) {
				s.failf("", "state-machine-left-behind", "mirror voting round is %d/%d, the state machine (drained) is still on %d/%d and received neither a view with the votes that ended the round nor a jump-ahead", s.vv.Height, s.vv.Round, e.H, e.R)
				return
			}
		}
	}
}

type pendingNil struct {
	K           viewKey
	Why         string
	Step        int
	Overwritten bool
	Fresh       bool
}

type c11State struct {
	byVersion      map[string]string
	gs, sm         map[viewKey]*viewTrack
	gsSeen, smSeen int
	nilVoted       []*tmconsensus.VersionedRoundView
	pendingNil     []pendingNil
	prevVoting     viewKey
	prevJust       string // justification for leaving prevVoting that already held at the end of the previous step
	smEnt          viewKey
	smJump         bool
}

// roundLeftJustification: the votes stored for (h, r) that make leaving the round a nil commit / full vote ("" when it was a skip).
func (s *sim) roundLeftJustification(h uint64, r uint32) string {
	if s.futureStored[fmt.Sprintf("%d/%d", h, r)] {
		// the store holds votes the live view never had (finding C10-F2): the store says nothing about why the round was left
		return ""
	}
	_, _, pc, err := s.d.rs.LoadRoundState(context.Background(), h, r)
	if err != nil {
		return ""
	}
	set := s.setFor(h)
	union := map[int]bool{}
	nilPow := new(big.Int)
	blockMajority := false
	for hash, sigs := range pc.BlockSignatures {
		ok, _ := checkSigs(set, 1, h, r, hash, sigs)
		for i := range ok {
			union[i] = true
		}
		if hash == "" {
			nilPow = powerOf(set, ok)
		} else if exceedsTwoThirds(powerOf(set, ok), set.total()) {
			blockMajority = true
		}
	}
	if blockMajority {
		// (only with >= 1/3 double signers) the mirror waits for that block; it can only be skipped
		return ""
	}
	if exceedsTwoThirds(nilPow, set.total()) {
		return "nil precommit majority"
	}
	if powerOf(set, union).Cmp(set.total()) == 0 {
		return "all precommits present without a majority"
	}
	return ""
}

func (s *sim) viewJustifies(v *tmconsensus.VersionedRoundView) bool {
	set := s.setFor(v.Height)
	_, _, per, _, tot := recomputeSummary(set, nil, v.PrecommitProofs)
	if n, ok := per[""]; ok && exceedsTwoThirds(n, set.total()) {
		return true
	}
	for hash, p := range per {
		if hash != "" && exceedsTwoThirds(p, set.total()) {
			return false
		}
	}
	return tot.Cmp(set.total()) == 0
}

func (s *sim) lastSMView(k viewKey) *tmconsensus.VersionedRoundView {
	for i := len(s.smRecv) - 1; i >= 0; i-- {
		r := s.smRecv[i]
		if r.V.VRV.Height == k.H && r.V.VRV.Round == k.R {
			v := r.V.VRV
			return &v
		}
		if r.Entrance {
			break
		}
	}
	return nil
}

// c11Final: received views were never modified after receipt (aliasing).
func c11Final(s *sim) {
	for _, r := range s.gsRecv {
		if d := digestGossip(r.U); d != r.Digest {
			s.failf("", "received-view-mutated", "a gossip update received at step %d changed after receipt", r.Step)
			return
		}
	}
	for _, r := range s.smRecv {
		d := digestSMView(r.V)
		if r.Entrance {
			d = digestVRV(&r.V.VRV)
		}
		if d != r.Digest {
			s.failf("", "received-view-mutated", "a state machine view received at step %d changed after receipt", r.Step)
			return
		}
	}
}

func c11Spec() propSpec {
	return propSpec{
		prop: "C11", test: "TestVerifC11ConsumerViews",
		rule: "histories of 4-45 ops against one real Mirror with explicit consumer schedules: both output channels are drained only when an op says so (stall / resume / read n), state machine entrances race with view shifts, honest macro rounds incl. nil rounds and partial votes, next-round votes that make the mirror skip, proposals, concurrent groups; per consumer and round: versions strictly increase, proposals and signer sets only grow, received values never change after receipt, a drained consumer holds the mirror's current view, and a round left by nil commit / full vote / skip is explained to the state machine (votes or jump-ahead) and to gossip (NilVotedRound); non-trivial = a view shift (commit or round change) happened while a consumer was stalled with an update pending; distinct = fingerprint of (config, op list)",
		profile: genProfile{
			w:              map[string]int{"ph": 3, "vote": 8, "round": 8, "sment": 4, "smact": 2, "stall": 4, "read": 4, "conc": 5, "replay": 3, "fetch": 2},
			phVariants:     []int{phFresh, phFresh, phAltNext, phBadSig},
			pcpVariants:    []int{pcpExact, pcpExact, pcpExtraNil},
			voteCorr:       []int{vcNone, vcNone, vcFlip},
			replayVariants: []int{rvHonest, rvBadSig, rvBadSig, rvBelowQuorum, rvExtraNil},
			minOps:         4, maxOps: 45,
			dh: []int{0, 0, 0, 0, -1, 1}, dr: []int{0, 0, 0, 1, 1},
			multiTarget: true,
			nilRounds:   true,
			concVoting:  true,
			stallFirst:  true,
		},
		setup:  func(s *sim) { s.realCertificates = true },
		oracle: c11Oracle,
		final:  c11Final,
		nontrivial: func(s *sim) bool { return s.labels["shift-while-stalled"] > 0 },
	}
}

func TestVerifC11ConsumerViews(t *testing.T) { runProp(t, c11Spec()) }

// c11ConcSpec: same oracles, histories dominated by concurrent Handle* callers that
// collide on one block hash (lookup / merge / add / conflict / retry interleavings).
func c11ConcSpec() propSpec {
	sp := c11Spec()
	sp.test = "TestVerifC11ConcurrentCallers"
	sp.rule = "histories of 3-14 ops dominated by concurrent groups of Handle* callers for the voting round, two thirds of them a light (one signer) and a heavy (all other signers, optionally a second target) caller for the same block hash so that the heavy caller's update conflicts with the light one's and is retried; same per-consumer invariants as TestVerifC11ConsumerViews (versions strictly increase, content only grows, one (height, round, version) names one content, a drained consumer holds the mirror's current view); non-trivial = at least two such colliding pairs ran; distinct = fingerprint of (config, op list)"
	sp.profile.w = map[string]int{"ph": 2, "vote": 2, "round": 3, "stall": 1, "read": 1, "conc": 12}
	sp.profile.minOps, sp.profile.maxOps = 3, 14
	sp.profile.racePairs = true
	sp.profile.stallFirst = false
	sp.profile.dh, sp.profile.dr = []int{0}, []int{0, 0, 0, 1}
	sp.nontrivial = func(s *sim) bool { return s.labels["race-pair"] >= 2 }
	return sp
}

func TestVerifC11ConcurrentCallers(t *testing.T) { runProp(t, c11ConcSpec()) }

// The same unit under the data race detector (thorough tier only): a view, proof or header that the
// kernel hands to a caller or consumer without a private copy is reported by the detector as soon as
// both sides touch it, whether or not the contents happen to differ at an observation point.
func TestVerifC11ConcurrentCallersDetector(t *testing.T) {
	sp := c11ConcSpec()
	sp.test = "TestVerifC11ConcurrentCallersDetector"
	runProp(t, sp)
}
