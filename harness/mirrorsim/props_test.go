package tmmirror_test

import (
	"context"
	"fmt"
	"testing"

	"github.com/bits-and-blooms/bitset"
	"github.com/gordian-engine/gordian/gcrypto"
	"github.com/gordian-engine/gordian/internal/zzverif/vk"
	"github.com/gordian-engine/gordian/tm/tmconsensus"
	"pgregory.net/rapid"
)

// propSpec wires one property's generator profile, ownership and oracle.
type propSpec struct {
	prop, test, rule string
	profile          genProfile
	own              ownership
	setup            func(s *sim)
	oracle           func(s *sim, op Op, idx int)
	nontrivial       func(s *sim) bool
	classify         func(s *sim) []string
	floors           map[string]float64 // label -> minimal fraction of cases (checked at the end of a full run)
}

func runProp(t *testing.T, sp propSpec) {
	st := vk.NewStats(sp.prop, sp.test, sp.rule)
	defer st.Flush()
	one := func(tb vk.TB, c simCase) {
		st.WAL(c)
		var s *sim
		st.Guard(tb, c, func() {
			s = runSim(t, c, sp.own, func(s *sim) {
				s.afterOp = sp.oracle
				s.wal = func(f string) { st.WALFinding(c, f) }
				if sp.setup != nil {
					sp.setup(s)
				}
			})
		})
		labels := []string{}
		for l := range s.labels {
			labels = append(labels, "has:"+l)
		}
		if s.abort != "" {
			labels = append(labels, "aborted:"+s.abort)
		}
		if sp.classify != nil {
			labels = append(labels, sp.classify(s)...)
		}
		nt := sp.nontrivial != nil && sp.nontrivial(s)
		if nt {
			labels = append(labels, "nontrivial")
		}
		if st.WantSample() && (nt || len(c.Ops) < 12) {
			st.Sample(c)
		}
		st.Case(nt, vk.FP(c), labels...)
		for id, n := range s.excluded {
			for i := 0; i < n; i++ {
				st.Excluded(id)
			}
		}
		if s.fail != nil {
			st.Fail(tb, c, s.fail.finding, s.fail.clause, "%s", s.fail.detail)
		}
	}
	var c simCase
	if ok, err := vk.LoadReplay(sp.prop, sp.test, &c); err != nil {
		t.Fatal(err)
	} else if ok {
		one(t, c)
		return
	} else if vk.Replaying() {
		t.Skip("replay file is for another test")
	}
	rapid.Check(t, func(rt *rapid.T) {
		one(rt, genCase(rt, sp.profile))
	})
}

// ---------------------------------------------------------------------------
// C05: only authentic votes enter views, stores and gossip

func bitCount(p gcrypto.CommonMessageSignatureProof) int {
	var bs bitset.BitSet
	p.SignatureBitSet(&bs)
	return int(bs.Count())
}

func c05Oracle(s *sim, op Op, idx int) {
	if !s.alive {
		return
	}
	ctx := context.Background()
	checkView := func(where string, v *tmconsensus.VersionedRoundView) {
		if v == nil || v.Height == 0 {
			return
		}
		set := s.setFor(v.Height)
		for kind, m := range []map[string]gcrypto.CommonMessageSignatureProof{v.PrevoteProofs, v.PrecommitProofs} {
			for _, hash := range sortedKeys(m) {
				p := m[hash]
				ok, bad := checkSigs(set, kind, v.Height, v.Round, hash, p.AsSparse().Signatures)
				if bad != "" {
					s.failf("", "unauthentic-signature", "%s view %d/%d: %s", where, v.Height, v.Round, bad)
					return
				}
				if n := bitCount(p); n != len(ok) {
					s.failf("", "bitset-not-verified", "%s view %d/%d kind=%d hash=%s: %d bits set but %d verified signers", where, v.Height, v.Round, kind, hx([]byte(hash)), n, len(ok))
					return
				}
			}
		}
		if v.Height > s.w.init && len(v.PrevCommitProof.Proofs) > 0 {
			pset := s.setFor(v.Height - 1)
			for _, hash := range sortedKeys(v.PrevCommitProof.Proofs) {
				if _, bad := checkSigs(pset, 1, v.Height-1, v.PrevCommitProof.Round, hash, v.PrevCommitProof.Proofs[hash]); bad != "" {
					s.failf("", "unauthentic-signature", "%s view %d/%d previous commit proof: %s", where, v.Height, v.Round, bad)
					return
				}
			}
		}
	}
	checkView("voting", &s.vv)
	checkView("committing", &s.cv)
	for i := len(s.gsRecv) - 1; i >= 0 && s.gsRecv[i].Step == s.step; i-- {
		u := s.gsRecv[i].U
		checkView("gossip.committing", u.Committing)
		checkView("gossip.voting", u.Voting)
		checkView("gossip.nextround", u.NextRound)
		checkView("gossip.nilvoted", u.NilVotedRound)
	}
	for i := len(s.smRecv) - 1; i >= 0 && s.smRecv[i].Step == s.step; i-- {
		v := s.smRecv[i].V
		checkView("statemachine", &v.VRV)
		checkView("statemachine.jumpahead", v.JumpAheadRoundView)
	}
	if s.fail != nil {
		return
	}
	// round store and committed headers
	for _, hr := range s.touchedRounds() {
		h, r := hr[0], uint32(hr[1])
		_, pv, pc, err := s.d.rs.LoadRoundState(ctx, h, r)
		if err != nil {
			continue
		}
		set := s.setFor(h)
		for kind, col := range []tmconsensus.SparseSignatureCollection{pv, pc} {
			for _, hash := range sortedKeys(col.BlockSignatures) {
				if _, bad := checkSigs(set, kind, h, r, hash, col.BlockSignatures[hash]); bad != "" {
					s.failf("", "unauthentic-signature", "round store %d/%d: %s", h, r, bad)
					return
				}
			}
		}
	}
	for h := s.w.init; h <= s.cv.Height; h++ {
		ch, ok := s.committedHeader(h)
		if !ok {
			continue
		}
		set := s.setFor(h)
		for _, hash := range sortedKeys(ch.Proof.Proofs) {
			if _, bad := checkSigs(set, 1, h, ch.Proof.Round, hash, ch.Proof.Proofs[hash]); bad != "" {
				s.failf("", "unauthentic-signature", "committed header store height %d proof: %s", h, bad)
				return
			}
		}
	}
	// all-invalid messages: nothing changes and the result is not "accepted"
	d := s.stateDigest()
	if op.K == "vote" || op.K == "conc" {
		allInvalid, any := true, false
		for _, sv := range s.sentVotes {
			if sv.Step != s.step {
				continue
			}
			any = true
			if sv.Authentic > 0 {
				allInvalid = false
			}
			if sv.Authentic == 0 {
				for _, r := range sv.Results {
					if r == tmconsensus.HandleVoteProofsAccepted || r == tmconsensus.HandleVoteProofsFutureVerified {
						s.failf("", "all-invalid-accepted", "vote message kind=%d h=%d r=%d with %d targets and no authentic signature returned result %d", sv.Kind, sv.H, sv.R, sv.Targets, r)
						return
					}
				}
			}
		}
		// only votes were delivered in this step? (a conc group may hold proposed headers)
		onlyVotes := op.K == "vote"
		if op.K == "conc" {
			onlyVotes = true
			for _, sub := range op.Sub {
				if sub.K != "vote" {
					onlyVotes = false
				}
			}
		}
		if any && allInvalid && onlyVotes && d != s.prevDigest {
			s.failf("", "all-invalid-changed-state", "vote message(s) without any authentic signature changed views/stores:\nbefore: %s\nafter:  %s", trunc(s.prevDigest, 1500), trunc(d, 1500))
			return
		}
	}
	s.prevDigest = d
}

func trunc(s string, n int) string {
	if len(s) > n {
		return s[:n] + "..."
	}
	return s
}

func c05Spec() propSpec {
	return propSpec{
		prop: "C05", test: "TestVerifC05AuthenticVotes",
		rule: "histories of 3-40 ops against one real Mirror (rounds macros, proposed headers, vote messages with per-signature corruption for committing/voting/next/future rounds, duplicates, concurrent groups, state machine entrances/actions, consumer stalls); non-trivial = some vote message mixed >=1 authentic with >=1 unauthentic signature, or was all-invalid for a hash the node had not seen; distinct = fingerprint of (config, op list)",
		profile: genProfile{
			w:              map[string]int{"ph": 3, "vote": 12, "round": 3, "sment": 1, "smact": 1, "stall": 1, "read": 1, "conc": 2},
			phVariants:     []int{phFresh, phFresh, phAltNext, phBadSig, phAnnotated},
			pcpVariants:    []int{pcpExact, pcpExact, pcpExact, pcpCorruptSig, pcpBelowQuorum, pcpWrongPKH},
			voteCorr:       allVariants(vcVariants),
			replayVariants: []int{rvHonest},
			pkhVariants:    []int{0, 0, 0, 0, 0, 1, 2},
			minOps:         3, maxOps: 40,
			dh: []int{0, 0, 0, 0, -1, 1, 2, -2}, dr: []int{0, 0, 0, 1, 1, 2, 3, -1},
			multiTarget: true,
		},
		oracle: c05Oracle,
		nontrivial: func(s *sim) bool {
			return s.labels["vote-mixed"] > 0 || s.labels["vote-allinvalid-unknown"] > 0
		},
	}
}

func TestVerifC05AuthenticVotes(t *testing.T) { runProp(t, c05Spec()) }

var _ = fmt.Sprintf

// ---------------------------------------------------------------------------
// C09 (mirror part): no message, replay, entrance or consumer schedule crashes or wedges the mirror

var definedPHResults = map[tmconsensus.HandleProposedHeaderResult]bool{}
var definedVoteResults = map[tmconsensus.HandleVoteProofsResult]bool{}

func init() {
	for r := tmconsensus.HandleProposedHeaderAccepted; r <= tmconsensus.HandleProposedHeaderInternalError; r++ {
		definedPHResults[r] = true
	}
	for r := tmconsensus.HandleVoteProofsAccepted; r <= tmconsensus.HandleVoteProofsInternalError; r++ {
		definedVoteResults[r] = true
	}
}

type fixedHandler struct {
	ph tmconsensus.HandleProposedHeaderResult
	v  tmconsensus.HandleVoteProofsResult
}

func (f fixedHandler) HandleProposedHeader(context.Context, tmconsensus.ProposedHeader) tmconsensus.HandleProposedHeaderResult {
	return f.ph
}
func (f fixedHandler) HandlePrevoteProofs(context.Context, tmconsensus.PrevoteSparseProof) tmconsensus.HandleVoteProofsResult {
	return f.v
}
func (f fixedHandler) HandlePrecommitProofs(context.Context, tmconsensus.PrecommitSparseProof) tmconsensus.HandleVoteProofsResult {
	return f.v
}

// mapperTotal reports a panic text if one of the shipped mappers can not translate the result.
func mapperTotal(ph tmconsensus.HandleProposedHeaderResult, v tmconsensus.HandleVoteProofsResult) (msg string) {
	defer func() {
		if r := recover(); r != nil {
			msg = fmt.Sprint(r)
		}
	}()
	ctx := context.Background()
	h := fixedHandler{ph: ph, v: v}
	if ph != 0 {
		tmconsensus.AcceptAllValidFeedbackMapper{Handler: h}.HandleProposedHeader(ctx, tmconsensus.ProposedHeader{})
		tmconsensus.DropDuplicateFeedbackMapper{Handler: h}.HandleProposedHeader(ctx, tmconsensus.ProposedHeader{})
	}
	if v != 0 {
		tmconsensus.AcceptAllValidFeedbackMapper{Handler: h}.HandlePrevoteProofs(ctx, tmconsensus.PrevoteSparseProof{})
		tmconsensus.DropDuplicateFeedbackMapper{Handler: h}.HandlePrecommitProofs(ctx, tmconsensus.PrecommitSparseProof{})
	}
	return ""
}

func c09Oracle(s *sim, op Op, idx int) {
	for _, r := range s.lastPHRes {
		if !definedPHResults[r] {
			s.failf("", "undefined-result", "HandleProposedHeader returned undefined result %d", r)
		}
		if r == tmconsensus.HandleProposedHeaderInternalError {
			s.label("ph-internal-error")
		}
		if m := mapperTotal(r, 0); m != "" {
			f := ""
			if vk.Excluded("C09-A12") || true {
				f = "C09-A12"
			}
			s.failf(f, "mapper-panic", "feedback mapper panicked on HandleProposedHeaderResult %d returned by the mirror: %s", r, m)
		}
	}
	for _, r := range s.lastVoteRes {
		if !definedVoteResults[r] {
			s.failf("", "undefined-result", "HandleVoteProofs returned undefined result %d", r)
		}
		if m := mapperTotal(0, r); m != "" {
			s.failf("C09-A12", "mapper-panic", "feedback mapper panicked on HandleVoteProofsResult %d returned by the mirror: %s", r, m)
		}
	}
	s.lastPHRes, s.lastVoteRes = s.lastPHRes[:0], s.lastVoteRes[:0]
}

func c09Spec() propSpec {
	return propSpec{
		prop: "C09", test: "TestVerifC09MirrorHostile",
		rule: "histories of 3-40 ops against one real Mirror: proposed headers / votes at relative heights -2..+3 and rounds -1..+3 with every content, commit-proof and signature corruption variant, replayed headers of every variant, state machine entrances and actions, stalled consumers, concurrent groups, clean restarts; every call has a fake-time deadline and a poll-counting context; non-trivial = some input outside the (voting height, voting round) window or malformed; distinct = fingerprint of (config, op list)",
		profile: genProfile{
			w:              map[string]int{"ph": 8, "vote": 10, "round": 4, "replay": 3, "sment": 2, "smact": 2, "stall": 1, "read": 1, "conc": 2, "restart": 1, "time": 1},
			phVariants:     allVariants(phVariants),
			pcpVariants:    allVariants(pcpVariants),
			voteCorr:       allVariants(vcVariants),
			replayVariants: allVariants(rvVariants),
			pkhVariants:    []int{0, 0, 0, 0, 1, 2},
			minOps:         3, maxOps: 40,
			dh: []int{0, 0, 0, 0, -1, -1, 1, 1, 2, 3, -2}, dr: []int{0, 0, 0, 1, 1, 2, 3, -1},
			multiTarget: true,
		},
		own:    ownership{liveness: true},
		oracle: c09Oracle,
		nontrivial: func(s *sim) bool {
			for _, op := range s.c.Ops {
				if (op.K == "ph" || op.K == "vote") && (op.DH != 0 || op.DR != 0 || op.V != 0 || op.PCP != 0 || op.PKH != 0) {
					return true
				}
				if op.K == "replay" && op.V != 0 {
					return true
				}
			}
			return false
		},
	}
}

func TestVerifC09MirrorHostile(t *testing.T) { runProp(t, c09Spec()) }
