package tmmirror_test

import (
	"pgregory.net/rapid"
)

// genProfile selects which operations / variants a property's test function draws.
type genProfile struct {
	w map[string]int // op kind -> weight

	phVariants     []int
	pcpVariants    []int
	voteCorr       []int
	replayVariants []int
	pkhVariants    []int // 0 right (repeat for weight), 1 wrong, 2 empty

	minOps, maxOps int
	dh             []int // allowed relative heights for ph/vote
	dr             []int
	valChange      []int
	inits          []uint64
	maxN           int
	multiTarget    bool
	fOnly          bool
	impatient      bool // one ph / vote op in six is made by a caller that gives up at a generated context poll
	nilRounds      bool
	stallFirst     bool // half of the cases begin with a stalled consumer
	concVoting     bool // concurrent groups: mostly overlapping multi-target votes at the voting round
	racePairs      bool // most concurrent groups are a light and a heavy caller for the same block hash
	hostileFetch   bool // fetch answers may carry validator lists that differ from the hashes in the header
	lostHeader     bool // one case in eight contains: a proposal lost in transit, votes for it, a nil round, the fetch answer, votes for it again
}

func weighted[T any](t *rapid.T, label string, items []T, weights []int) T {
	tot := 0
	for _, w := range weights {
		tot += w
	}
	x := rapid.IntRange(0, tot-1).Draw(t, label)
	for i, w := range weights {
		if x < w {
			return items[i]
		}
		x -= w
	}
	return items[len(items)-1]
}

func genCfg(t *rapid.T, p genProfile) simCfg {
	maxN := p.maxN
	if maxN == 0 {
		maxN = 7
	}
	n := weighted(t, "n", []int{1, 2, 3, 4, 5, 6, 7}, []int{1, 1, 2, 6, 2, 1, 2})
	if n > maxN {
		n = maxN
	}
	pows := make([]uint64, n)
	switch rapid.IntRange(0, 5).Draw(t, "powshape") {
	case 0:
		for i := range pows {
			pows[i] = 1
		}
	case 1:
		for i := range pows {
			pows[i] = uint64(100000 - i)
		}
	case 2: // one dominant
		for i := range pows {
			pows[i] = 10
		}
		pows[rapid.IntRange(0, n-1).Draw(t, "dom")] = uint64(rapid.IntRange(10, 30*n).Draw(t, "domp"))
	case 3: // near-threshold splits: small integers
		for i := range pows {
			pows[i] = uint64(rapid.IntRange(1, 4).Draw(t, "p"))
		}
	case 4: // large values, total < 2^63
		for i := range pows {
			pows[i] = uint64(1)<<58 + uint64(rapid.IntRange(0, 1000).Draw(t, "p"))
		}
	default:
		for i := range pows {
			pows[i] = uint64(rapid.IntRange(1, 1000).Draw(t, "p"))
		}
	}
	inits := p.inits
	if len(inits) == 0 {
		inits = []uint64{1, 1, 1, 5}
	}
	vcs := p.valChange
	if len(vcs) == 0 {
		vcs = []int{0, 0, 1, 2, 3, 4}
	}
	var f uint32
	if p.fOnly {
		f = uint32(rapid.IntRange(1, int(fullMask(n))).Draw(t, "fmask"))
	}
	return simCfg{
		F: f,
		N: n, Powers: pows,
		Init:      rapid.SampledFrom(inits).Draw(t, "init"),
		ValChange: rapid.SampledFrom(vcs).Draw(t, "valchange"),
		Local:     rapid.IntRange(-1, n-1).Draw(t, "local"),
	}
}

func genMask(t *rapid.T, n int, label string) uint32 {
	switch rapid.IntRange(0, 4).Draw(t, label+"-shape") {
	case 0:
		return fullMask(n)
	case 1:
		return 1 << uint(rapid.IntRange(0, n-1).Draw(t, label+"-one"))
	default:
		return uint32(rapid.IntRange(1, int(fullMask(n))).Draw(t, label))
	}
}

func genVT(t *rapid.T, n int, p genProfile) VT {
	vt := VT{
		T: weighted(t, "target", []int{-1, 0, 1, 2, 100, 101}, []int{3, 6, 3, 1, 2, 1}),
		S: genMask(t, n, "signers"),
	}
	if len(p.voteCorr) > 0 && rapid.IntRange(0, 2).Draw(t, "corrupt?") > 0 {
		vt.C = rapid.SampledFrom(p.voteCorr).Draw(t, "corr")
		if vt.C != vcNone {
			if rapid.Bool().Draw(t, "corr-all") {
				vt.CM = vt.S
			} else {
				vt.CM = uint32(rapid.IntRange(1, int(fullMask(n))).Draw(t, "corrmask"))
			}
		}
	}
	return vt
}

func genOp(t *rapid.T, cfg simCfg, p genProfile, depth int) Op {
	kinds := make([]string, 0, len(p.w))
	weights := make([]int, 0, len(p.w))
	for _, k := range []string{"ph", "vote", "round", "replay", "sment", "smact", "stall", "read", "conc", "restart", "time", "fetch", "fbusy"} {
		if w := p.w[k]; w > 0 && !(depth > 0 && k != "ph" && k != "vote") {
			kinds = append(kinds, k)
			weights = append(weights, w)
		}
	}
	k := weighted(t, "kind", kinds, weights)
	n := cfg.N
	op := Op{K: k}
	dhs, drs := p.dh, p.dr
	if len(dhs) == 0 {
		dhs = []int{0}
	}
	if len(drs) == 0 {
		drs = []int{0}
	}
	switch k {
	case "ph":
		op.DH = rapid.SampledFrom(dhs).Draw(t, "dh")
		op.DR = rapid.SampledFrom(drs).Draw(t, "dr")
		op.P = weighted(t, "proposer", []int{0, 1, 2, 3, n, n + 1, -1}, []int{6, 3, 2, 1, 1, 1, 1})
		op.V = rapid.SampledFrom(p.phVariants).Draw(t, "phv")
		op.D = rapid.IntRange(0, 3).Draw(t, "data")
		op.PCP = rapid.SampledFrom(p.pcpVariants).Draw(t, "pcp")
		op.Dup = rapid.IntRange(0, 9).Draw(t, "dup") == 0
		op.NS = (op.V == phFresh || op.V == phAltNext) && rapid.IntRange(0, 7).Draw(t, "lost") == 0
	case "vote":
		op.DH = rapid.SampledFrom(dhs).Draw(t, "dh")
		op.DR = rapid.SampledFrom(drs).Draw(t, "dr")
		op.Kind = rapid.IntRange(0, 1).Draw(t, "votekind")
		nt := 1
		if p.multiTarget {
			nt = weighted(t, "ntargets", []int{1, 2, 3, 4}, []int{6, 3, 1, 1})
		}
		if p.fOnly {
			nt = weighted(t, "ntargets", []int{1, 2, 3, 4}, []int{2, 4, 2, 2})
		}
		for i := 0; i < nt; i++ {
			op.T = append(op.T, genVT(t, n, p))
		}
		pk := p.pkhVariants
		if len(pk) == 0 {
			pk = []int{0}
		}
		op.PKH = rapid.SampledFrom(pk).Draw(t, "pkh")
		op.Dup = rapid.IntRange(0, 9).Draw(t, "dup") == 0
	case "round":
		op.P = rapid.IntRange(0, n-1).Draw(t, "proposer")
		op.D = rapid.IntRange(0, 3).Draw(t, "data")
		op.Nil = rapid.IntRange(0, 5).Draw(t, "nilround") == 0
		if p.nilRounds {
			op.Nil = rapid.IntRange(0, 2).Draw(t, "nilround2") == 0
		}
		if rapid.IntRange(0, 3).Draw(t, "partial") == 0 {
			op.S = genMask(t, n, "pcmask")
			op.PS = genMask(t, n, "pvmask")
		}
	case "replay":
		op.V = rapid.SampledFrom(p.replayVariants).Draw(t, "rv")
		op.DR = weighted(t, "rdr", []int{0, 1, 2, -1}, []int{8, 2, 1, 1})
		op.DH = rapid.SampledFrom([]int{-1, 1, 2}).Draw(t, "rdh")
		op.D = rapid.IntRange(0, 5).Draw(t, "data")
		op.P = rapid.IntRange(0, n-1).Draw(t, "proposer")
		if rapid.IntRange(0, 4).Draw(t, "rmask?") == 0 {
			op.S = genMask(t, n, "rmask")
		}
	case "sment":
		op.DH = weighted(t, "sdh", []int{0, -1, -2, 1}, []int{8, 2, 1, 1})
		op.DR = weighted(t, "sdr", []int{0, 1, -1, 2}, []int{8, 2, 1, 1})
	case "smact":
		op.Kind = rapid.IntRange(0, 2).Draw(t, "actkind")
		op.D = rapid.IntRange(0, 3).Draw(t, "data")
		op.T = []VT{{T: weighted(t, "target", []int{-1, 0, 1, 100}, []int{2, 6, 2, 1})}}
		if rapid.IntRange(0, 9).Draw(t, "badsig") == 0 {
			op.V = 1
		}
	case "stall":
		op.Who = rapid.IntRange(0, 1).Draw(t, "who")
		op.On = rapid.Bool().Draw(t, "on")
	case "read":
		op.Who = rapid.IntRange(0, 1).Draw(t, "who")
		op.N = rapid.IntRange(1, 3).Draw(t, "nread")
	case "conc":
		if rp := rapid.IntRange(0, 2).Draw(t, "race-pair"); p.concVoting && n >= 2 && (rp == 0 || (p.racePairs && rp == 1)) {
			// a light and a heavy caller for the same block hash of the voting round: the heavy
			// one is still verifying when the light one's update has been applied, so its own
			// update conflicts and is retried
			kind := rapid.IntRange(0, 1).Draw(t, "votekind")
			tgt := weighted(t, "target", []int{-1, 0, 1}, []int{2, 6, 1})
			one := uint32(1) << uint(rapid.IntRange(0, n-1).Draw(t, "light-signer"))
			light := Op{K: "vote", Kind: kind, T: []VT{{T: tgt, S: one}}}
			heavy := Op{K: "vote", Kind: kind, T: []VT{{T: tgt, S: fullMask(n) &^ one}}}
			if rapid.Bool().Draw(t, "heavy-second-target") {
				heavy.T = append(heavy.T, VT{T: weighted(t, "target2", []int{-1, 0, 1, 100}, []int{2, 2, 2, 1}), S: genMask(t, n, "signers2")})
			}
			op.N = 1 // marks the group as a race pair (label only)
			op.Sub = []Op{light, heavy}
			if rapid.Bool().Draw(t, "heavy-first") {
				op.Sub = []Op{heavy, light}
			}
			return op
		}
		k := rapid.IntRange(2, 4).Draw(t, "nsub")
		for i := 0; i < k; i++ {
			sub := genOp(t, cfg, p, depth+1)
			if p.concVoting && sub.K == "vote" && rapid.IntRange(0, 3).Draw(t, "conc-voting") > 0 {
				// overlapping gossip for the voting round: same kind, several targets, overlapping signers
				sub.DH, sub.DR, sub.PKH = 0, 0, 0
				sub.Kind = 1
				for len(sub.T) < 2 {
					sub.T = append(sub.T, genVT(t, cfg.N, p))
				}
			}
			op.Sub = append(op.Sub, sub)
		}
	case "fetch":
		op.D = rapid.IntRange(0, 3).Draw(t, "fetchidx")
		if p.hostileFetch {
			op.V = weighted(t, "fetchvariant", []int{0, 1, 2, 3}, []int{2, 2, 1, 1})
		}
	case "time":
		op.N = rapid.IntRange(1, 50).Draw(t, "ticks")
	case "fbusy":
		op.On = rapid.Bool().Draw(t, "busy")
	}
	if p.impatient && (k == "ph" || k == "vote") && rapid.IntRange(0, 5).Draw(t, "impatient") == 0 {
		op.CA = rapid.IntRange(1, 12).Draw(t, "cancel-at-poll")
	}
	return op
}

func genCase(t *rapid.T, p genProfile) simCase {
	cfg := genCfg(t, p)
	ops := rapid.SliceOfN(rapid.Custom(func(t *rapid.T) Op { return genOp(t, cfg, p, 0) }), p.minOps, p.maxOps).Draw(t, "ops")
	if p.lostHeader && rapid.IntRange(0, 7).Draw(t, "lost-header-macro") == 0 {
		full := fullMask(cfg.N)
		kind := rapid.IntRange(0, 1).Draw(t, "lost-votekind")
		seq := []Op{
			{K: "ph", NS: true, P: rapid.IntRange(0, cfg.N-1).Draw(t, "lost-proposer"), D: rapid.IntRange(0, 3).Draw(t, "lost-data")},
			{K: "vote", Kind: kind, T: []VT{{T: 50, S: genMask(t, cfg.N, "lost-signers")}}},
			{K: "vote", Kind: 1, T: []VT{{T: -1, S: full}}},
			{K: "fetch", D: 99},
			{K: "vote", Kind: kind, T: []VT{{T: 50, S: full}}},
		}
		if rapid.IntRange(0, 2).Draw(t, "lost-fetcher-busy") == 0 {
			// the fetcher's queue is full when the block crosses the threshold and is served again later
			seq = []Op{seq[0], {K: "fbusy", On: true}, seq[1], {K: "fbusy"}, seq[1], seq[2], seq[3], seq[4]}
		}
		at := rapid.IntRange(0, len(ops)).Draw(t, "lost-at")
		ops = append(ops[:at:at], append(seq, ops[at:]...)...)
	}
	if p.hostileFetch && rapid.IntRange(0, 3).Draw(t, "fetch-commit-macro") == 0 {
		// a proposal lost in transit gets votes, is fetched (possibly with forged lists) and committed
		full := fullMask(cfg.N)
		seq := []Op{
			{K: "ph", NS: true, P: rapid.IntRange(0, cfg.N-1).Draw(t, "fc-proposer"), D: rapid.IntRange(0, 3).Draw(t, "fc-data"), V: rapid.SampledFrom([]int{phFresh, phFresh, phAltNext, phWrongPrev}).Draw(t, "fc-phv")},
			{K: "vote", Kind: 0, T: []VT{{T: 50, S: full}}},
			{K: "fetch", D: 99, V: weighted(t, "fc-variant", []int{0, 1, 2, 3}, []int{2, 3, 2, 2})},
			{K: "vote", Kind: 1, T: []VT{{T: 50, S: full}}},
		}
		at := rapid.IntRange(0, len(ops)).Draw(t, "fc-at")
		ops = append(ops[:at:at], append(seq, ops[at:]...)...)
	}
	if p.fOnly {
		// the minority phase starts at the first vote op: give most cases committed heights below it
		// (a committing view, changed validator sets) by putting honest macro rounds in front
		nr := weighted(t, "f-prefix-rounds", []int{0, 1, 2, 3}, []int{3, 3, 3, 1})
		pre := make([]Op, 0, nr)
		for i := 0; i < nr; i++ {
			o := Op{K: "round", P: rapid.IntRange(0, cfg.N-1).Draw(t, "f-prefix-proposer"), D: rapid.IntRange(0, 3).Draw(t, "f-prefix-data")}
			if rapid.IntRange(0, 1).Draw(t, "f-prefix-partial") == 0 {
				// some validators stay silent, so that a late vote for the committed height can be new
				o.S = genMask(t, cfg.N, "f-prefix-pcmask")
				o.PS = genMask(t, cfg.N, "f-prefix-pvmask")
			}
			pre = append(pre, o)
		}
		ops = append(pre, ops...)
	}
	if p.stallFirst {
		switch rapid.IntRange(0, 3).Draw(t, "stallfirst") {
		case 0:
			ops = append([]Op{{K: "stall", Who: 0, On: true}}, ops...)
		case 1:
			ops = append([]Op{{K: "stall", Who: 1, On: true}}, ops...)
		}
	}
	return simCase{Cfg: cfg, Ops: ops}
}

func allVariants(n int) []int {
	out := make([]int, n)
	for i := range out {
		out[i] = i
	}
	return out
}
