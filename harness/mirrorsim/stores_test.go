package tmmirror_test

// Store wrappers: the harness owns the memory stores ("disk"), the node gets
// wrappers that log every write and can stop the process at a chosen write.

import (
	"context"
	"fmt"

	"github.com/gordian-engine/gordian/gcrypto"
	"github.com/gordian-engine/gordian/tm/tmconsensus"
	"github.com/gordian-engine/gordian/tm/tmstore/tmmemstore"
)

type disk struct {
	ms  *tmmemstore.MirrorStore
	chs *tmmemstore.CommittedHeaderStore
	rs  *tmmemstore.RoundStore
	vs  *tmmemstore.ValidatorStore
}

func newDisk() *disk {
	return &disk{
		ms:  tmmemstore.NewMirrorStore(),
		chs: tmmemstore.NewCommittedHeaderStore(),
		rs:  tmmemstore.NewRoundStore(),
		vs:  tmmemstore.NewValidatorStore(msHS),
	}
}

type writeRec struct {
	Kind string
	H    uint64
	R    uint32
	Hash string // committed header hash for SaveCommittedHeader
}

// incarnation is the per-process view of the disk. After the crash point the
// calling goroutine is parked until the case is torn down, and nothing written
// afterwards reaches the disk.
type incarnation struct {
	d       *disk
	writes  []writeRec
	crashAt int // die after this many writes (0 = never)
	dead    bool
	release chan struct{} // closed at teardown
	diedCh  chan struct{} // closed when the crash point is hit
}

func newIncarnation(d *disk) *incarnation {
	return &incarnation{d: d, release: make(chan struct{}), diedCh: make(chan struct{})}
}

// before is called ahead of a write; false means the process is already dead
// (zombie after teardown): skip the write and report success.
func (in *incarnation) before() bool {
	return !in.dead
}

// after is called once the write reached the disk.
func (in *incarnation) after(w writeRec) {
	in.writes = append(in.writes, w)
	if in.crashAt > 0 && len(in.writes) == in.crashAt {
		in.dead = true
		close(in.diedCh)
		<-in.release // the process is dead: park until teardown
	}
}

type wMirrorStore struct{ in *incarnation }

func (s wMirrorStore) SetNetworkHeightRound(ctx context.Context, vh uint64, vr uint32, ch uint64, cr uint32) error {
	if !s.in.before() {
		return nil
	}
	err := s.in.d.ms.SetNetworkHeightRound(ctx, vh, vr, ch, cr)
	s.in.after(writeRec{Kind: "nhr", H: vh, R: vr})
	return err
}

func (s wMirrorStore) NetworkHeightRound(ctx context.Context) (uint64, uint32, uint64, uint32, error) {
	return s.in.d.ms.NetworkHeightRound(ctx)
}

type wCHStore struct{ in *incarnation }

func (s wCHStore) SaveCommittedHeader(ctx context.Context, ch tmconsensus.CommittedHeader) error {
	if !s.in.before() {
		return nil
	}
	err := s.in.d.chs.SaveCommittedHeader(ctx, ch)
	s.in.after(writeRec{Kind: "ch", H: ch.Header.Height, R: ch.Proof.Round, Hash: string(ch.Header.Hash)})
	return err
}

func (s wCHStore) LoadCommittedHeader(ctx context.Context, h uint64) (tmconsensus.CommittedHeader, error) {
	return s.in.d.chs.LoadCommittedHeader(ctx, h)
}

type wRoundStore struct{ in *incarnation }

func (s wRoundStore) SaveRoundProposedHeader(ctx context.Context, ph tmconsensus.ProposedHeader) error {
	if !s.in.before() {
		return nil
	}
	err := s.in.d.rs.SaveRoundProposedHeader(ctx, ph)
	s.in.after(writeRec{Kind: "ph", H: ph.Header.Height, R: ph.Round, Hash: string(ph.Header.Hash)})
	return err
}

func (s wRoundStore) SaveRoundReplayedHeader(ctx context.Context, h tmconsensus.Header) error {
	if !s.in.before() {
		return nil
	}
	err := s.in.d.rs.SaveRoundReplayedHeader(ctx, h)
	s.in.after(writeRec{Kind: "rh", H: h.Height, Hash: string(h.Hash)})
	return err
}

func (s wRoundStore) OverwriteRoundPrevoteProofs(ctx context.Context, h uint64, r uint32, p tmconsensus.SparseSignatureCollection) error {
	if !s.in.before() {
		return nil
	}
	err := s.in.d.rs.OverwriteRoundPrevoteProofs(ctx, h, r, p)
	s.in.after(writeRec{Kind: "pv", H: h, R: r})
	return err
}

func (s wRoundStore) OverwriteRoundPrecommitProofs(ctx context.Context, h uint64, r uint32, p tmconsensus.SparseSignatureCollection) error {
	if !s.in.before() {
		return nil
	}
	err := s.in.d.rs.OverwriteRoundPrecommitProofs(ctx, h, r, p)
	s.in.after(writeRec{Kind: "pc", H: h, R: r})
	return err
}

func (s wRoundStore) LoadRoundState(ctx context.Context, h uint64, r uint32) ([]tmconsensus.ProposedHeader, tmconsensus.SparseSignatureCollection, tmconsensus.SparseSignatureCollection, error) {
	return s.in.d.rs.LoadRoundState(ctx, h, r)
}

type wValStore struct{ in *incarnation }

func (s wValStore) SavePubKeys(ctx context.Context, k []gcrypto.PubKey) (string, error) {
	if !s.in.before() {
		return "", nil
	}
	h, err := s.in.d.vs.SavePubKeys(ctx, k)
	s.in.after(writeRec{Kind: "vk"})
	return h, err
}

func (s wValStore) SaveVotePowers(ctx context.Context, p []uint64) (string, error) {
	if !s.in.before() {
		return "", nil
	}
	h, err := s.in.d.vs.SaveVotePowers(ctx, p)
	s.in.after(writeRec{Kind: "vp"})
	return h, err
}

func (s wValStore) LoadPubKeys(ctx context.Context, h string) ([]gcrypto.PubKey, error) {
	return s.in.d.vs.LoadPubKeys(ctx, h)
}

func (s wValStore) LoadVotePowers(ctx context.Context, h string) ([]uint64, error) {
	return s.in.d.vs.LoadVotePowers(ctx, h)
}

func (s wValStore) LoadValidators(ctx context.Context, kh, ph string) ([]tmconsensus.Validator, error) {
	return s.in.d.vs.LoadValidators(ctx, kh, ph)
}

func (w writeRec) String() string {
	return fmt.Sprintf("%s(%d/%d %s)", w.Kind, w.H, w.R, hx([]byte(w.Hash)))
}
