package tmmirror_test

import (
	"context"
	"fmt"
	"io"
	"log/slog"
	"os"
	"strings"
	"sync/atomic"
	"testing"
	"testing/synctest"
	"time"

	"github.com/bits-and-blooms/bitset"
	"github.com/gordian-engine/gordian/gassert/gasserttest"
	"github.com/gordian-engine/gordian/gcrypto"
	"github.com/gordian-engine/gordian/gwatchdog"
	"github.com/gordian-engine/gordian/tm/tmconsensus"
	"github.com/gordian-engine/gordian/tm/tmengine/internal/tmeil"
	"github.com/gordian-engine/gordian/tm/tmengine/internal/tmmirror"
	"github.com/gordian-engine/gordian/tm/tmengine/tmelink"
	"github.com/gordian-engine/gordian/tm/tmengine/tmelink/tmelinktest"
)

var traceOn = os.Getenv("VERIF_TRACE") != ""

// ---------------------------------------------------------------------------
// case representation (plain data)

type simCfg struct {
	N         int      `json:"n"`
	Powers    []uint64 `json:"powers"`
	Init      uint64   `json:"init"`
	ValChange int      `json:"valchange"` // 0 none, 1 powers change each height, 2 keys and powers change
	Local     int      `json:"local"`     // validator index the local state machine signs with (-1: none)
	F         uint32   `json:"f,omitempty"` // C06: candidate set of validators that may vote in the restricted phase
}

// VT is one vote target inside a vote message.
type VT struct {
	T  int    `json:"t"`            // -1 nil; 0..49 known proposal (mod count, unknown hash if none); 100+j unknown hash j
	S  uint32 `json:"s"`            // signer bitmask over validator indices of the round's set
	C  int    `json:"c,omitempty"`  // corruption kind applied to signers in CM
	CM uint32 `json:"cm,omitempty"` // which signers (bitmask) carry the corruption
}

type Op struct {
	K  string `json:"k"`
	DH int    `json:"dh,omitempty"` // height relative to the voting height
	DR int    `json:"dr,omitempty"` // round relative to the voting round (or absolute for committing height ops)

	// proposed header / replay / round macro
	P   int `json:"p,omitempty"`   // proposer selector
	V   int `json:"v,omitempty"`   // content variant
	D   int `json:"d,omitempty"`   // data salt / known-proposal selector
	PCP int `json:"pcp,omitempty"` // previous commit proof variant

	// votes
	Kind int  `json:"kind,omitempty"` // 0 prevote, 1 precommit
	T    []VT `json:"t,omitempty"`
	PKH  int  `json:"pkh,omitempty"` // 0 right pubkey hash, 1 wrong, 2 empty
	Dup  bool `json:"dup,omitempty"`
	NS   bool `json:"ns,omitempty"` // proposed header is built (and known to the world) but lost in transit

	// round macro
	S   uint32 `json:"s,omitempty"`   // precommit signer mask (0 = everyone)
	PS  uint32 `json:"ps,omitempty"`  // prevote signer mask (0 = everyone)
	Nil bool   `json:"nil,omitempty"` // nil round

	// concurrent group
	Sub []Op `json:"sub,omitempty"`

	// consumers: who 0 = state machine, 1 = gossip
	Who int  `json:"who,omitempty"`
	On  bool `json:"on,omitempty"`
	N   int  `json:"n,omitempty"`

	// crash: die after the W-th store write from now (0: right now, i.e. after the previous op)
	W int `json:"w,omitempty"`

	// impatient caller (ph, vote): the context of the call reports cancellation from its CA-th poll on
	// (0 = patient). Polls are the callee's own Done()/Err() reads, so the cancellation lands at a
	// generated point inside the call: before the request is handed to the kernel, or after it and
	// before the answer is read.
	CA int `json:"ca,omitempty"`
}

type simCase struct {
	Cfg simCfg `json:"cfg"`
	Ops []Op   `json:"ops"`
}

// ---------------------------------------------------------------------------
// node = one incarnation of the mirror

type node struct {
	ctx    context.Context
	cancel context.CancelFunc
	m      *tmmirror.Mirror
	wd     *gwatchdog.Watchdog
	inc    *incarnation

	smOut    chan tmeil.StateMachineRoundView
	gsOut    chan tmelink.NetworkViewUpdate
	lagOut   chan tmelink.LagState
	smIn     chan tmeil.StateMachineRoundEntrance
	replayIn chan tmelink.ReplayedHeaderRequest
	fetch    tmelinktest.PHFetcher

	// state machine side
	entered   bool
	entH      uint64
	entR      uint32
	actions   chan tmeil.StateMachineRoundAction
	heightCom chan struct{}
}

type smRec struct {
	Step int
	V    tmeil.StateMachineRoundView
	// for entrance responses
	Entrance bool
	H        uint64
	R        uint32
	Digest   string
}

type gsRec struct {
	Step   int
	U      tmelink.NetworkViewUpdate
	Digest string
}

type fetchReq struct {
	H    uint64
	Hash string
	Ctx  context.Context // the kernel cancels it when it no longer wants the header
	Step int
}

type failure struct {
	finding, clause, detail string
}

// sim interprets one case.
type sim struct {
	c    simCase
	w    *world
	d    *disk
	n    *node
	log  *slog.Logger
	step int

	// last observation
	alive bool
	vv    tmconsensus.VersionedRoundView
	cv    tmconsensus.VersionedRoundView

	smStalled, gsStalled bool
	smRecv               []smRec
	gsRecv               []gsRec

	incs []*incarnation // all incarnations (released at teardown)

	fail     *failure
	abort    string // non-violating reason to stop the case (e.g. node wedged in a test that does not own that clause)
	labels   map[string]int
	excluded map[string]int

	// per-op results
	lastRes     []string
	lastPHRes   []tmconsensus.HandleProposedHeaderResult
	lastVoteRes []tmconsensus.HandleVoteProofsResult

	// what the harness sent, for oracles
	sentVotes []sentVote

	// hooks
	afterOp  func(s *sim, op Op, idx int)
	beforeOp func(s *sim, idx int)

	own ownership

	pendingFinding string // finding id whose trigger predicate holds for the op being executed (reproducer mode)
	lastReplay     []replayOutcome
	concurrentStep map[int]bool
	restarts       int
	opLog          []string
	wal            func(finding string)
	prevDigest     string
	seenCommitted  map[uint64]string
	seenCommitting map[string]bool
	c01PHSeen      int
	c04Hash        map[uint64]string
	c04NHR         [4]uint64
	c04View        [2]uint64
	altUsed        bool
	hasAlt         int
	inConc         bool
	cancelAt       int    // the running op's caller gives up at this context poll (0 = patient)
	fOnly          bool   // C06: after the first vote op only members of fMask sign, macro rounds are skipped
	fPhase         bool
	fMask          uint32 // sanitized: power(fMask) < 1/3 of every set's total
	fStart         [2]uint64
	c06Prev        [2]uint64
	fSigned        map[string]string
	signed         map[string]map[string]bool
	phLog          []phLogEntry
	macroRejected  []string
	posBeforeOp    viewKey // voting position observed before the current op
	fetchReqs      []fetchReq
	fetchBusy      bool       // the fetcher's request queue is full (filled by the harness) and is not being read
	fetchOpen      []fetchReq // requests the harness has not answered with a header (the kernel still waits for them unless it cancelled)
	futureStored   map[string]bool // rounds for which votes were stored while the round was still in the future
	realCertificates bool // replays carry certificates consistent with what validators signed before
	incStartGS     int
	incStartSM     int
	recorder       func(d delivery) // C10: record every message delivered (reference run)
	crashMode      bool
	c10            bool
	c11            *c11State
	final          func(s *sim)
}

// ownership says which liveness clauses the running test function owns; in
// other tests such events abort the case (counted) instead of failing it.
type ownership struct {
	liveness bool // C09: wedge / livelock / undefined result
}

type sentVote struct {
	Step      int
	Kind      int
	H         uint64
	R         uint32
	Authentic int // number of (target, signer) pairs that verify for their filed target under the prescribed set
	Targets   int
	Per       map[string]map[int]bool // target -> validator indices whose signature verifies for it
	Results   []tmconsensus.HandleVoteProofsResult
}

func (s *sim) failf(finding, clause, format string, args ...any) {
	if s.fail == nil {
		s.fail = &failure{finding: finding, clause: clause, detail: fmt.Sprintf("step %d: ", s.step) + fmt.Sprintf(format, args...)}
	}
}

func (s *sim) label(l string) { s.labels[l]++ }

func (s *sim) stopped() bool { return s.fail != nil || s.abort != "" }

// ---------------------------------------------------------------------------
// poll-counting context: detects livelock (a spinning callee never lets fake
// time advance) and bounds every call by a fake-time deadline.

type pollCtx struct {
	context.Context
	polls     atomic.Int64
	limit     int64
	tripped   atomic.Bool
	cancelAt  int64 // > 0: the caller gives up at this poll
	cancelled atomic.Bool
}

var closedCh = func() chan struct{} { c := make(chan struct{}); close(c); return c }()

func (p *pollCtx) Done() <-chan struct{} {
	n := p.polls.Add(1)
	if n > p.limit {
		p.tripped.Store(true)
		return closedCh
	}
	if p.cancelAt > 0 && n >= p.cancelAt {
		p.cancelled.Store(true)
		return closedCh
	}
	return p.Context.Done()
}

func (p *pollCtx) Err() error {
	if p.tripped.Load() {
		return context.DeadlineExceeded
	}
	if p.cancelled.Load() {
		return context.Canceled
	}
	return p.Context.Err()
}

const (
	callDeadline = 30 * time.Second
	pollLimit    = 5000
)

// call runs f on its own goroutine inside the bubble with a bounded context
// and reports how it ended.
type callResult struct {
	done   atomic.Bool
	pc     *pollCtx
	wedged bool // could only end through its fake-time deadline (or not at all)
	crashed bool // the incarnation died (crash point) while the call was pending
}

func (r *callResult) livelock() bool { return r.pc.tripped.Load() }

func (s *sim) call(f func(ctx context.Context)) *callResult {
	base, cancel := context.WithTimeout(s.n.ctx, callDeadline)
	pc := &pollCtx{Context: base, limit: pollLimit, cancelAt: int64(s.cancelAt)}
	res := &callResult{pc: pc}
	go func() {
		defer cancel()
		f(pc)
		res.done.Store(true)
	}()
	return res
}

// settle waits for quiescence; calls that can only end by their deadline are wedged.
func (s *sim) settle(rs ...*callResult) {
	synctest.Wait()
	var pending []*callResult
	for _, r := range rs {
		if !r.done.Load() {
			pending = append(pending, r)
		}
	}
	if len(pending) > 0 && s.crashMode && s.n != nil && s.n.inc.dead {
		// the process died at the chosen store write: nothing of it survives
		s.n.cancel()
		synctest.Wait()
		for _, r := range pending {
			r.crashed = true
		}
		return
	}
	if len(pending) > 0 {
		time.Sleep(callDeadline + time.Second)
		synctest.Wait()
		for _, r := range pending {
			r.wedged = true
		}
	}
}

// ---------------------------------------------------------------------------
// life cycle

func (s *sim) start(crashAt int) {
	s.incStartGS, s.incStartSM = len(s.gsRecv), len(s.smRecv)
	s.fetchReqs, s.fetchOpen = nil, nil // fetch requests die with the process
	s.fetchBusy = false
	inc := newIncarnation(s.d)
	if crashAt > 0 {
		inc.crashAt = crashAt
	}
	s.incs = append(s.incs, inc)
	ctx, cancel := context.WithCancel(context.Background())
	wd, wctx := gwatchdog.NewNopWatchdog(ctx, s.log)
	n := &node{
		ctx: wctx, cancel: cancel, wd: wd, inc: inc,
		smOut:    make(chan tmeil.StateMachineRoundView),
		gsOut:    make(chan tmelink.NetworkViewUpdate),
		lagOut:   make(chan tmelink.LagState),
		smIn:     make(chan tmeil.StateMachineRoundEntrance, 1),
		replayIn: make(chan tmelink.ReplayedHeaderRequest),
		fetch:    tmelinktest.NewPHFetcher(16, 16),
	}
	cfg := tmmirror.MirrorConfig{
		Store:                wMirrorStore{inc},
		CommittedHeaderStore: wCHStore{inc},
		RoundStore:           wRoundStore{inc},
		ValidatorStore:       wValStore{inc},

		InitialHeight:       s.w.init,
		InitialValidatorSet: s.w.genesis.VS,

		HashScheme:                        msHS,
		SignatureScheme:                   msSS,
		CommonMessageSignatureProofScheme: gcrypto.SimpleCommonMessageSignatureProofScheme{},

		ProposedHeaderFetcher: n.fetch.ProposedHeaderFetcher(),

		ReplayedHeadersIn: n.replayIn,
		GossipStrategyOut: n.gsOut,
		LagStateOut:       n.lagOut,

		StateMachineRoundEntranceIn: n.smIn,
		StateMachineRoundViewOut:    n.smOut,

		Watchdog:  wd,
		AssertEnv: gasserttest.DefaultEnv(),
	}
	s.n = n
	// Construction writes to the stores, so it may hit the crash point: run it
	// on its own goroutine.
	var built atomic.Bool
	var berr error
	var bpanic any
	go func() {
		defer func() {
			if r := recover(); r != nil {
				bpanic = r
				built.Store(true)
			}
		}()
		m, err := tmmirror.NewMirror(wctx, s.log, cfg)
		n.m, berr = m, err
		built.Store(true)
	}()
	synctest.Wait()
	s.alive = false
	if !built.Load() {
		// died inside the constructor at the crash point
		s.label("crash-in-constructor")
		return
	}
	if bpanic != nil {
		s.failf(s.restartFinding(fmt.Sprint(bpanic)), "start-panic", "NewMirror panicked: %v", bpanic)
		return
	}
	if berr != nil {
		s.failf("", "start-error", "NewMirror returned error: %v", berr)
		return
	}
	s.alive = true
}

// restartFinding may be overridden by tests that know restart findings.
func (s *sim) restartFinding(msg string) string { return "" }

func (s *sim) stop() {
	if s.n == nil {
		return
	}
	s.n.cancel()
	synctest.Wait()
	s.alive = false
}

func (s *sim) teardown() {
	if s.n != nil {
		s.n.cancel()
	}
	for _, inc := range s.incs {
		inc.dead = true
		select {
		case <-inc.release:
		default:
			close(inc.release)
		}
	}
	synctest.Wait()
}

// ---------------------------------------------------------------------------
// consumers: the harness main goroutine drains the two output channels at
// quiescence, so consumer speed is exactly the op sequence.

func (s *sim) drain(who int, max int) int {
	n := 0
	for max < 0 || n < max {
		synctest.Wait()
		got := false
		if who == 0 {
			select {
			case v := <-s.n.smOut:
				s.smRecv = append(s.smRecv, smRec{Step: s.step, V: v, Digest: digestSMView(v)})
				got = true
			default:
			}
		} else {
			select {
			case u := <-s.n.gsOut:
				s.gsRecv = append(s.gsRecv, gsRec{Step: s.step, U: u, Digest: digestGossip(u)})
				got = true
			default:
			}
		}
		if !got {
			break
		}
		n++
		if n >= 3000 {
			// no input is pending, yet the kernel keeps producing output
			last := ""
			if who == 0 && len(s.smRecv) >= 2 {
				last = fmt.Sprintf("; the last two are identical: %v", s.smRecv[len(s.smRecv)-1].Digest == s.smRecv[len(s.smRecv)-2].Digest)
			} else if who == 1 && len(s.gsRecv) >= 2 {
				last = fmt.Sprintf("; the last two are identical: %v", s.gsRecv[len(s.gsRecv)-1].Digest == s.gsRecv[len(s.gsRecv)-2].Digest)
			}
			s.failf("", "output-never-quiescent", "with no input pending, consumer %d (0 state machine, 1 gossip) received %d successive views%s", who, n, last)
			break
		}
	}
	return n
}

// fetchReqCh is the fetcher's request queue, or nil (never ready) while the fetcher is busy.
func (s *sim) fetchReqCh() chan tmelink.ProposedHeaderFetchRequest {
	if s.fetchBusy {
		return nil
	}
	return s.n.fetch.ReqCh
}

const fetchDummy = "\x00fetcher-busy"

// execFetchBusy: a fetcher has "an upper limit on the number of outstanding fetch requests" (its doc);
// on = its queue is full of other work and nobody reads it, off = the queue is served again.
func (s *sim) execFetchBusy(on bool) {
	if !s.alive || on == s.fetchBusy {
		return
	}
	if on {
		s.drainAll()
		for full := false; !full; {
			select {
			case s.n.fetch.ReqCh <- tmelink.ProposedHeaderFetchRequest{Ctx: context.Background(), Height: 0, BlockHash: fetchDummy}:
			default:
				full = true
			}
		}
		s.fetchBusy = true
		s.label("fetcher-busy")
		return
	}
	s.fetchBusy = false
	for empty := false; !empty; {
		select {
		case fr := <-s.n.fetch.ReqCh:
			if fr.BlockHash != fetchDummy {
				s.fetchReqs = append(s.fetchReqs, fetchReq{H: fr.Height, Hash: fr.BlockHash, Ctx: fr.Ctx, Step: s.step})
				s.fetchOpen = append(s.fetchOpen, fetchReq{H: fr.Height, Hash: fr.BlockHash, Ctx: fr.Ctx, Step: s.step})
			}
		default:
			empty = true
		}
	}
}

func (s *sim) drainAll() {
	// lag channel is always drained (driver side; not under test here)
	for {
		synctest.Wait()
		progressed := false
		select {
		case <-s.n.lagOut:
			progressed = true
		default:
		}
		select {
		case fr := <-s.fetchReqCh():
			s.fetchReqs = append(s.fetchReqs, fetchReq{H: fr.Height, Hash: fr.BlockHash, Ctx: fr.Ctx, Step: s.step})
			s.fetchOpen = append(s.fetchOpen, fetchReq{H: fr.Height, Hash: fr.BlockHash, Ctx: fr.Ctx, Step: s.step})
			s.label("fetch-requested")
			progressed = true
		default:
		}
		if !s.smStalled && s.drain(0, -1) > 0 {
			progressed = true
		}
		if !s.gsStalled && s.drain(1, -1) > 0 {
			progressed = true
		}
		if !progressed || s.fail != nil {
			return
		}
	}
}

// observe refreshes the voting / committing views through the public API.
func (s *sim) observe() {
	if !s.alive {
		return
	}
	var vv, cv tmconsensus.VersionedRoundView
	var e1, e2 error
	r1 := s.call(func(ctx context.Context) { e1 = s.n.m.VotingView(ctx, &vv) })
	s.settle(r1)
	r2 := s.call(func(ctx context.Context) { e2 = s.n.m.CommittingView(ctx, &cv) })
	s.settle(r2)
	if !r1.done.Load() || !r2.done.Load() || e1 != nil || e2 != nil || r1.wedged || r2.wedged {
		if s.own.liveness {
			s.failf("", "stopped-serving", "VotingView/CommittingView no longer answer (err %v / %v, wedged %v/%v)", e1, e2, r1.wedged, r2.wedged)
		} else {
			s.abort = "node stopped serving views"
		}
		return
	}
	if (s.smStalled || s.gsStalled) && s.vv.Height != 0 && (vv.Height != s.vv.Height || vv.Round != s.vv.Round) {
		s.label("shift-while-stalled")
	}
	s.vv, s.cv = vv, cv
}

// ---------------------------------------------------------------------------
// run

func runSim(t *testing.T, c simCase, own ownership, setup func(s *sim)) (out *sim) {
	s := &sim{c: c, labels: map[string]int{}, excluded: map[string]int{}, own: own, concurrentStep: map[int]bool{}}
	s.log = discardLogger()
	s.w = newWorld(c.Cfg)
	s.d = newDisk()
	if setup != nil {
		setup(s)
	}
	defer func() {
		if r := recover(); r != nil {
			// synctest deadlock or a harness panic on the main bubble goroutine
			s.failf("", "harness-or-deadlock", "panic leaving the bubble: %v", r)
			out = s
		}
	}()
	synctest.Test(t, func(t *testing.T) {
		defer s.teardown()
		s.start(0)
		if s.stopped() {
			return
		}
		s.drainAll()
		s.observe()
		if s.afterOp != nil {
			s.afterOp(s, Op{K: "start"}, -1)
		}
		for i, op := range c.Ops {
			if s.stopped() {
				return
			}
			s.step = i
			if s.beforeOp != nil {
				s.beforeOp(s, i)
			}
			s.posBeforeOp = viewKey{s.vv.Height, s.vv.Round}
			s.exec(op)
			if s.stopped() {
				return
			}
			if s.alive {
				s.drainAll()
				s.observe()
			}
			if s.stopped() {
				return
			}
			if traceOn {
				fmt.Fprintf(os.Stderr, "TRACE    view pv=%s pc=%s\n", traceProofs(s.vv.PrevoteProofs), traceProofs(s.vv.PrecommitProofs))
				if _, pv, pc, err := s.d.rs.LoadRoundState(context.Background(), s.vv.Height, s.vv.Round); err == nil {
					fmt.Fprintf(os.Stderr, "TRACE    store pv=%s pc=%s\n", traceSparse(pv.BlockSignatures), traceSparse(pc.BlockSignatures))
				}
				fmt.Fprintf(os.Stderr, "TRACE step %d op=%+v -> voting %d/%d (v%d, %d phs) committing %d/%d phres=%v voteres=%v excl=%v alive=%v\n", i, op, s.vv.Height, s.vv.Round, s.vv.Version, len(s.vv.ProposedHeaders), s.cv.Height, s.cv.Round, s.lastPHRes, s.lastVoteRes, s.excluded, s.alive)
			}
			if s.afterOp != nil {
				s.afterOp(s, op, i)
			}
		}
		if s.stopped() {
			return
		}
		// inputs stop: consumers resume and drain everything
		s.step = len(c.Ops)
		s.smStalled, s.gsStalled = false, false
		if s.alive {
			s.drainAll()
			s.observe()
		}
		if s.stopped() {
			return
		}
		if s.afterOp != nil {
			s.afterOp(s, Op{K: "end"}, len(c.Ops))
		}
		if s.final != nil && !s.stopped() {
			s.final(s)
		}
	})
	return s
}

func discardLogger() *slog.Logger {
	return slog.New(slog.NewTextHandler(io.Discard, &slog.HandlerOptions{Level: slog.Level(100)}))
}

// resolve turns the relative height / round of an op into absolute values.
func (s *sim) resolve(op Op) (uint64, uint32) {
	h := int64(s.vv.Height) + int64(op.DH)
	if h < 0 {
		h = 0
	}
	r := int64(s.vv.Round) + int64(op.DR)
	if op.DH == -1 && s.cv.Height > 0 {
		// ops aimed at the committing height are relative to the committing round
		r = int64(s.cv.Round) + int64(op.DR)
	}
	if r < 0 {
		r = 0
	}
	return uint64(h), uint32(r)
}

// setFor is the validator set the chain prescribes for height h: genesis at
// the initial height, else the registered list behind the NextValidatorSet
// hashes of the header the node committed at h-1; for heights not yet
// determined, the application's plan.
func (s *sim) setFor(h uint64) vset {
	if h <= s.w.init {
		return s.w.genesis
	}
	if ch, err := s.d.chs.LoadCommittedHeader(context.Background(), h-1); err == nil {
		if v, ok := s.w.lookup(ch.Header.NextValidatorSet.PubKeyHash, ch.Header.NextValidatorSet.VotePowerHash); ok {
			return v
		}
	}
	return s.w.plan(h)
}

func (s *sim) exec(op Op) {
	s.pendingFinding = ""
	s.cancelAt = 0
	if op.CA > 0 && (op.K == "ph" || op.K == "vote") {
		s.cancelAt = op.CA
		s.label("impatient-caller")
		defer func() { s.cancelAt = 0 }()
	}
	switch op.K {
	case "ph":
		s.execPH(op)
	case "vote":
		s.execVote(op)
	case "round":
		s.execRound(op)
	case "replay":
		s.execReplay(op)
	case "sment":
		s.execSMEnter(op)
	case "smact":
		s.execSMAct(op)
	case "stall":
		if op.Who == 0 {
			s.smStalled = op.On
		} else {
			s.gsStalled = op.On
		}
	case "read":
		if s.alive {
			s.drain(op.Who, max(1, op.N))
		}
	case "conc":
		s.execConc(op)
	case "crash":
		s.execCrash(op)
	case "restart":
		s.execRestart(op)
	case "fetch":
		s.execFetch(op)
	case "fbusy":
		s.execFetchBusy(op.On)
	case "time":
		time.Sleep(time.Duration(max(1, op.N)) * 100 * time.Millisecond)
	default:
		panic("unknown op kind " + op.K)
	}
}

func traceProofs(m map[string]gcrypto.CommonMessageSignatureProof) string {
	var sb strings.Builder
	for _, k := range sortedKeys(m) {
		var bs bitset.BitSet
		m[k].SignatureBitSet(&bs)
		fmt.Fprintf(&sb, "[%s:%s]", hx([]byte(k)), bs.String())
	}
	return sb.String()
}

func traceSparse(m map[string][]gcrypto.SparseSignature) string {
	var sb strings.Builder
	for _, k := range sortedKeys(m) {
		fmt.Fprintf(&sb, "[%s:", hx([]byte(k)))
		for _, sg := range m[k] {
			fmt.Fprintf(&sb, "%x ", sg.KeyID)
		}
		sb.WriteString("]")
	}
	return sb.String()
}
