package tmstate_test

// smsim: one real tmstate.StateMachine per case inside a synctest bubble; the
// harness plays the mirror, the driver, the consensus strategy, the signer, the
// round timer and the stores.  This file holds the static world (validators,
// chain, signatures) and the recording components handed to the machine.

import (
	"context"
	"errors"
	"fmt"
	"os"
	"sort"
	"strings"
	"sync"

	"github.com/gordian-engine/gordian/gcrypto"
	"github.com/gordian-engine/gordian/internal/zzverif/vk"
	"github.com/gordian-engine/gordian/tm/tmconsensus"
	"github.com/gordian-engine/gordian/tm/tmconsensus/tmconsensustest"
	"github.com/gordian-engine/gordian/tm/tmdriver"
	"github.com/gordian-engine/gordian/tm/tmengine/internal/tmeil"
	"github.com/gordian-engine/gordian/tm/tmstore"
	"github.com/gordian-engine/gordian/tm/tmstore/tmmemstore"
)

const (
	smMaxVals  = 6
	smMaxCands = 3 // acceptable candidate blocks per (height, round)
)

// ---------------------------------------------------------------------------
// case data

type smCfg struct {
	N        int  `json:"n"`        // validators in the universe, 1..smMaxVals
	Pow      int  `json:"pow"`      // power profile
	ValMode  int  `json:"valmode"`  // how the application changes validators
	InitH    int  `json:"inith"`    // genesis initial height, 1..3
	Follower bool `json:"follower"` // machine runs without a signer
}

type smOp struct {
	K string `json:"k"`
	A int    `json:"a,omitempty"`
	B int    `json:"b,omitempty"`
	C int    `json:"c,omitempty"`
}

type smCase struct {
	Cfg smCfg  `json:"cfg"`
	Ops []smOp `json:"ops"`
	// Crash: the process "dies" after the Crash-th eligible store write of the
	// state machine (0 = never). Used by the C10 / C07 state-machine units.
	Crash int `json:"crash,omitempty"`
}

// ---------------------------------------------------------------------------
// static universe shared by all cases of a process (plain data, no channels)

var (
	smUniOnce sync.Once
	smFx      *tmconsensustest.Fixture
	smSigMu   sync.Mutex
	smSigs    = map[string][]byte{}
)

func smUniverse() *tmconsensustest.Fixture {
	smUniOnce.Do(func() {
		smFx = tmconsensustest.NewEd25519Fixture(smMaxVals + 1) // last key: outsider used for "wrong validator set" proposals
	})
	return smFx
}

func smPowers(cfg smCfg) []uint64 {
	n := cfg.N
	p := make([]uint64, n)
	for i := range p {
		switch cfg.Pow % 6 {
		case 0:
			p[i] = 1
		case 1:
			p[i] = uint64(100000 - i)
		case 2: // validator 1 (not the machine) dominant
			p[i] = 1
			if i == 1%n {
				p[i] = uint64(2 * n)
			}
		case 3: // near thirds
			p[i] = 33
			if i == 0 {
				p[i] = 34
			}
		case 4: // the machine's validator is tiny
			p[i] = 10
			if i == 0 {
				p[i] = 1
			}
		case 5: // the machine's validator holds just under a third
			p[i] = 7
			if i == 0 {
				p[i] = uint64(3*(n-1)) + 1
			}
		}
	}
	return p
}

// valInfo: a validator set at some height, as positions into the universe.
type valInfo struct {
	idx   []int // universe index per position
	pow   []uint64
	total uint64
	set   tmconsensus.ValidatorSet
	self  int // position of the machine's key, -1 when absent
}

func (v *valInfo) maj(p uint64) bool { return 3*p > 2*v.total }
func (v *valInfo) min(p uint64) bool { return 3*p >= v.total }
func (v *valInfo) power(mask uint64) uint64 {
	var s uint64
	for i := range v.idx {
		if mask&(1<<uint(i)) != 0 {
			s += v.pow[i]
		}
	}
	return s
}

// ---------------------------------------------------------------------------
// world: everything of one case

type candidate struct {
	ph   tmconsensus.ProposedHeader
	hash string
	ok   bool // acceptable to an honest machine at this height
	own  bool // proposed by the machine itself
}

type hrKey struct {
	H uint64
	R uint32
}

type world struct {
	cfg        smCfg
	fx         *tmconsensustest.Fixture
	initH      uint64
	gen        tmconsensus.Genesis
	genHdrHash string

	vals map[uint64]*valInfo

	cands map[hrKey][]*candidate // acceptable candidates (index = k), own proposals appended
	bads  map[hrKey][]*candidate // unacceptable proposals created so far

	// certified: per height the first block for which some round held more than 2/3 precommit power
	// (the block every honest validator is then locked on), and the round of that certificate
	certified map[uint64]string
	certRound map[uint64]uint32
	reprop    map[hrKey]*candidate  // the certified block re-proposed in a later round
	twoBlocks bool                  // a second certificate for a different block of the same height appeared (needs >= 1/3 faulty power)
	committed map[uint64]*candidate // block the network committed per height
	commitRnd map[uint64]uint32

	mu  sync.Mutex
	log []smEvent
	seq int

	// current incarnation
	inc       int
	epoch     int // index into entrances of the machine's latest entrance request, -1 before
	closing   bool
	strat     *hStrat
	timer     *hTimer
	entrances []*entranceRec

	flags []string // discipline violations detected inside components (e.g. two timers)

	// crash point: the machine's goroutine parks inside the crashAt-th eligible store write
	crashAt       int
	writes        int // eligible store writes so far (whole case)
	crashed       bool
	crashKind     string
	midTransition bool // the write the process died in was followed by another write in the crash-free run of the same handler
}

type smEvent struct {
	Seq   int
	Inc   int
	Epoch int
	Kind  string
	H     uint64
	R     uint32
	S     string // hash / kind detail
	B     []byte // sign content (signer events) or signature (store / action events)
	G     []byte // signature (signer events)
	Err   string
	Elig  int // ordinal of this store write among the eligible crash points (0 = not one)
}

func (e smEvent) String() string {
	s := fmt.Sprintf("#%d i%d e%d %s %d/%d", e.Seq, e.Inc, e.Epoch, e.Kind, e.H, e.R)
	if e.S != "" {
		s += " " + short(e.S)
	}
	if e.Err != "" {
		s += " err=" + e.Err
	}
	return s
}

func short(s string) string {
	if s == "" {
		return "nil"
	}
	printable := true
	for _, c := range s {
		if c < 32 || c > 126 {
			printable = false
			break
		}
	}
	if printable {
		return s
	}
	if len(s) > 4 {
		s = s[:4]
	}
	return fmt.Sprintf("%x", s)
}

func (w *world) ev(kind string, h uint64, r uint32, s string, b []byte, err error) {
	w.mu.Lock()
	defer w.mu.Unlock()
	w.evLocked(kind, h, r, s, b, err)
}

func (w *world) evLocked(kind string, h uint64, r uint32, s string, b []byte, err error) {
	e := smEvent{Seq: w.seq, Inc: w.inc, Epoch: w.epoch, Kind: kind, H: h, R: r, S: s, B: b}
	if err != nil {
		e.Err = err.Error()
	}
	w.seq++
	w.log = append(w.log, e)
	if smTrace {
		fmt.Fprintln(os.Stderr, "  "+e.String())
	}
}

// smTrace: print events as they happen (replay mode; the only way to see the
// history of a case that ends in a kernel panic).
var smTrace = false

func (w *world) tail(n int) string {
	w.mu.Lock()
	defer w.mu.Unlock()
	from := len(w.log) - n
	if from < 0 {
		from = 0
	}
	var sb strings.Builder
	for _, e := range w.log[from:] {
		sb.WriteString(e.String())
		sb.WriteString("\n")
	}
	return sb.String()
}

func newWorld(cfg smCfg) *world {
	if cfg.N < 1 {
		cfg.N = 1
	}
	if cfg.N > smMaxVals {
		cfg.N = smMaxVals
	}
	if cfg.InitH < 1 {
		cfg.InitH = 1
	}
	if cfg.InitH > 3 {
		cfg.InitH = 3
	}
	w := &world{
		cfg: cfg, fx: smUniverse(), initH: uint64(cfg.InitH),
		vals:      map[uint64]*valInfo{},
		cands:     map[hrKey][]*candidate{},
		bads:      map[hrKey][]*candidate{},
		certified: map[uint64]string{}, certRound: map[uint64]uint32{}, reprop: map[hrKey]*candidate{},
		committed: map[uint64]*candidate{},
		commitRnd: map[uint64]uint32{},
		epoch:     -1,
	}
	w.gen = tmconsensus.Genesis{
		ChainID:             "smsim",
		InitialHeight:       w.initH,
		CurrentAppStateHash: []byte("app-genesis"),
		ValidatorSet:        w.valsAt(w.initH).set,
	}
	gh, err := w.gen.Header(w.fx.HashScheme)
	if err != nil {
		panic(err)
	}
	w.genHdrHash = string(gh.Hash)
	return w
}

// valsAt is the validator set the chain prescribes for height h. It is a pure
// function of the case configuration: the harness driver answers finalization
// of h with valsAt(h+2), exactly what the network's headers carry.
func (w *world) valsAt(h uint64) *valInfo {
	if v, ok := w.vals[h]; ok {
		return v
	}
	n := w.cfg.N
	base := smPowers(w.cfg)
	vi := &valInfo{self: -1}
	changed := h > w.initH+1
	for i := 0; i < n; i++ {
		p := base[i]
		if changed {
			switch w.cfg.ValMode % 5 {
			case 4: // keys and powers change at every height: one member (rotating, may be the machine) is out, powers shift
				if n >= 3 && (i+int(h))%n == 0 {
					continue
				}
				p = base[(i+int(h))%n] + h%3
			case 1: // powers rotate
				p = base[(i+int(h))%n]
			case 2: // one validator (rotating, may be the machine) is dropped
				if n >= 3 && i == int(h)%n {
					continue
				}
			case 3: // the machine is not a validator at odd heights
				if n >= 2 && i == 0 && h%2 == 1 {
					continue
				}
			}
		}
		vi.idx = append(vi.idx, i)
		vi.pow = append(vi.pow, p)
		vi.total += p
	}
	vs := make([]tmconsensus.Validator, len(vi.idx))
	for pos, ui := range vi.idx {
		vs[pos] = tmconsensus.Validator{PubKey: w.fx.PrivVals[ui].Val.PubKey, Power: vi.pow[pos]}
		if ui == 0 {
			vi.self = pos
		}
	}
	set, err := tmconsensus.NewValidatorSet(vs, w.fx.HashScheme)
	if err != nil {
		panic(err)
	}
	vi.set = set
	w.vals[h] = vi
	return vi
}

func (w *world) appHash(h uint64) []byte {
	if h < w.initH {
		return []byte("app-genesis")
	}
	return []byte(fmt.Sprintf("app-%d", h))
}

func (w *world) prevBlockHash(h uint64) string {
	if h == w.initH {
		return w.genHdrHash
	}
	return w.committed[h-1].hash
}

// sig returns validator ui's signature over content (cached process-wide).
func (w *world) sig(ui int, content []byte) []byte {
	key := fmt.Sprintf("%d|%s", ui, content)
	smSigMu.Lock()
	s, ok := smSigs[key]
	smSigMu.Unlock()
	if ok {
		return s
	}
	s, err := w.fx.PrivVals[ui].Signer.Sign(context.Background(), content)
	if err != nil {
		panic(err)
	}
	smSigMu.Lock()
	smSigs[key] = s
	smSigMu.Unlock()
	return s
}

func (w *world) voteContent(precommit bool, h uint64, r uint32, hash string) []byte {
	vt := tmconsensus.VoteTarget{Height: h, Round: r, BlockHash: hash}
	var b []byte
	var err error
	if precommit {
		b, err = tmconsensus.PrecommitSignBytes(vt, w.fx.SignatureScheme)
	} else {
		b, err = tmconsensus.PrevoteSignBytes(vt, w.fx.SignatureScheme)
	}
	if err != nil {
		panic(err)
	}
	return b
}

// proof builds a real signature proof for (kind,h,r,hash) signed by the
// positions in mask. ownSigs supplies the machine's own signature (the harness
// never forges it).
func (w *world) proof(precommit bool, h uint64, r uint32, hash string, mask uint64, ownSig []byte) gcrypto.CommonMessageSignatureProof {
	vi := w.valsAt(h)
	content := w.voteContent(precommit, h, r, hash)
	p, err := w.fx.CommonMessageSignatureProofScheme.New(content, vi.set.PubKeys, string(vi.set.PubKeyHash))
	if err != nil {
		panic(err)
	}
	for pos, ui := range vi.idx {
		if mask&(1<<uint(pos)) == 0 {
			continue
		}
		var s []byte
		if ui == 0 {
			s = ownSig
			if s == nil {
				panic("smsim: harness asked to forge the machine's signature")
			}
		} else {
			s = w.sig(ui, content)
		}
		if err := p.AddSignature(s, w.fx.PrivVals[ui].Val.PubKey); err != nil {
			panic(fmt.Errorf("smsim: AddSignature: %w", err))
		}
	}
	return p
}

// cand returns acceptable candidate k for (h,r), creating candidates lazily.
// prevCommit is the commit proof the proposer would embed.
func (w *world) cand(h uint64, r uint32, k int, prevCommit tmconsensus.CommitProof) *candidate {
	key := hrKey{h, r}
	for len(w.cands[key]) <= k {
		i := len(w.cands[key])
		w.cands[key] = append(w.cands[key], w.makeCand(h, r, fmt.Sprintf("d-%d-%d-%d", h, r, i), 0, prevCommit))
	}
	return w.cands[key][k]
}

// reproposal: in a round after the one that certified a block, honest proposers re-propose that
// block (same header, same hash; new round and signature). Returns nil when there is none.
func (w *world) reproposal(h uint64, r uint32) *candidate {
	hash, ok := w.certified[h]
	if !ok || w.certRound[h] >= r {
		return nil
	}
	key := hrKey{h, r}
	if c := w.reprop[key]; c != nil && c.hash == hash {
		return c
	}
	var orig *candidate
	for k, cs := range w.cands {
		if k.H != h {
			continue
		}
		for _, c := range cs {
			if c.hash == hash {
				orig = c
			}
		}
	}
	if orig == nil {
		return nil
	}
	prop := w.otherProposer(h, int(r))
	if prop < 0 {
		return nil
	}
	ph := orig.ph
	ph.Round = r
	ph.ProposerPubKey = w.fx.PrivVals[prop].Val.PubKey
	sc, err := tmconsensus.ProposalSignBytes(ph.Header, ph.Round, ph.Annotations, w.fx.SignatureScheme)
	if err != nil {
		panic(err)
	}
	ph.Signature = w.sig(prop, sc)
	c := &candidate{ph: ph, hash: hash, ok: orig.ok}
	w.reprop[key] = c
	return c
}

func (w *world) otherProposer(h uint64, salt int) int {
	vi := w.valsAt(h)
	var others []int
	for _, ui := range vi.idx {
		if ui != 0 {
			others = append(others, ui)
		}
	}
	if len(others) == 0 {
		return -1
	}
	return others[salt%len(others)]
}

// makeCand builds a signed proposed header. variant 0 = acceptable; 1 = wrong
// previous app state hash; 2 = other validator set; 3 = other next validator set.
func (w *world) makeCand(h uint64, r uint32, dataID string, variant int, prevCommit tmconsensus.CommitProof) *candidate {
	prop := w.otherProposer(h, int(r)+len(dataID))
	if prop < 0 {
		prop = smMaxVals // outsider key; only for single-validator chains where nobody else can propose
	}
	hdr := tmconsensus.Header{
		PrevBlockHash:    []byte(w.prevBlockHash(h)),
		Height:           h,
		PrevCommitProof:  prevCommit,
		ValidatorSet:     w.valsAt(h).set,
		NextValidatorSet: w.valsAt(h + 1).set,
		DataID:           []byte(dataID),
		PrevAppStateHash: w.appHash(h - 1),
	}
	switch variant {
	case 1:
		hdr.PrevAppStateHash = []byte("wrong-app-state")
	case 2, 3:
		vi := w.valsAt(h)
		vs := make([]tmconsensus.Validator, 0, len(vi.idx)+1)
		vs = append(vs, vi.set.Validators...)
		vs = append(vs, tmconsensus.Validator{PubKey: w.fx.PrivVals[smMaxVals].Val.PubKey, Power: 1})
		set, err := tmconsensus.NewValidatorSet(vs, w.fx.HashScheme)
		if err != nil {
			panic(err)
		}
		if variant == 2 {
			hdr.ValidatorSet = set
		} else {
			hdr.NextValidatorSet = set
		}
	}
	hash, err := w.fx.HashScheme.Block(hdr)
	if err != nil {
		panic(err)
	}
	hdr.Hash = hash
	ph := tmconsensus.ProposedHeader{Header: hdr, Round: r, ProposerPubKey: w.fx.PrivVals[prop].Val.PubKey}
	sc, err := tmconsensus.ProposalSignBytes(ph.Header, ph.Round, ph.Annotations, w.fx.SignatureScheme)
	if err != nil {
		panic(err)
	}
	ph.Signature = w.sig(prop, sc)
	return &candidate{ph: ph, hash: string(hash), ok: variant == 0}
}

// ---------------------------------------------------------------------------
// recording signer

type hSigner struct {
	w     *world
	inner tmconsensus.PassthroughSigner
}

func (s *hSigner) Prevote(ctx context.Context, vt tmconsensus.VoteTarget) ([]byte, []byte, error) {
	c, sig, err := s.inner.Prevote(ctx, vt)
	s.w.mu.Lock()
	s.w.evLocked("sign-prevote", vt.Height, vt.Round, vt.BlockHash, c, err)
	s.w.log[len(s.w.log)-1].G = sig
	s.w.mu.Unlock()
	return c, sig, err
}

func (s *hSigner) Precommit(ctx context.Context, vt tmconsensus.VoteTarget) ([]byte, []byte, error) {
	c, sig, err := s.inner.Precommit(ctx, vt)
	s.w.mu.Lock()
	s.w.evLocked("sign-precommit", vt.Height, vt.Round, vt.BlockHash, c, err)
	s.w.log[len(s.w.log)-1].G = sig
	s.w.mu.Unlock()
	return c, sig, err
}

func (s *hSigner) SignProposedHeader(ctx context.Context, ph *tmconsensus.ProposedHeader) error {
	c, cerr := tmconsensus.ProposalSignBytes(ph.Header, ph.Round, ph.Annotations, s.inner.SignatureScheme)
	if cerr != nil {
		return cerr
	}
	err := s.inner.SignProposedHeader(ctx, ph)
	s.w.mu.Lock()
	s.w.evLocked("sign-proposal", ph.Header.Height, ph.Round, string(ph.Header.Hash), c, err)
	s.w.log[len(s.w.log)-1].G = ph.Signature
	s.w.mu.Unlock()
	return err
}

func (s *hSigner) PubKey() gcrypto.PubKey { return s.inner.PubKey() }

// ---------------------------------------------------------------------------
// wrapped stores (memstores underneath; survive restarts)

type hActionStore struct {
	w     *world
	inner *tmmemstore.ActionStore
}

// storeWrite is called by the store wrappers after a write persisted. When the
// write is the chosen crash point the calling goroutine (the machine's kernel)
// parks until the incarnation is torn down: nothing later reaches the stores.
func (w *world) storeWrite(ctx context.Context, kind string, err error, eligible bool) error {
	if err != nil || !eligible {
		return err
	}
	w.mu.Lock()
	w.writes++
	w.log[len(w.log)-1].Elig = w.writes
	die := w.crashAt > 0 && w.writes == w.crashAt && !w.crashed
	if die {
		w.crashed = true
		w.crashKind = kind
		w.evLocked("crash-after-"+kind, 0, 0, "", nil, nil)
	}
	w.mu.Unlock()
	if die {
		<-ctx.Done()
		return ctx.Err()
	}
	return nil
}

// peekActions takes whatever the machine has already emitted, so that an
// action emitted before its save shows up earlier in the event order.
func (s *hActionStore) peekActions() {
	s.w.mu.Lock()
	s.w.drainActionsLocked()
	s.w.mu.Unlock()
}

func (s *hActionStore) SaveProposedHeaderAction(ctx context.Context, ph tmconsensus.ProposedHeader) error {
	s.peekActions()
	// A restart in a round that already holds a recorded vote is the known finding
	// C02-RESIGN: such a write is not an eligible crash point.
	ra, lerr := s.inner.LoadActions(ctx, ph.Header.Height, ph.Round)
	eligible := lerr != nil || (ra.PrevoteSignature == "" && ra.PrecommitSignature == "") || !vk.Excluded("C02-RESIGN")
	err := s.inner.SaveProposedHeaderAction(ctx, ph)
	s.w.ev("save-proposal", ph.Header.Height, ph.Round, string(ph.Header.Hash), ph.Signature, err)
	return s.w.storeWrite(ctx, "save-proposal", err, eligible)
}

func (s *hActionStore) SavePrevoteAction(ctx context.Context, pk gcrypto.PubKey, vt tmconsensus.VoteTarget, sig []byte) error {
	s.peekActions()
	err := s.inner.SavePrevoteAction(ctx, pk, vt, sig)
	s.w.ev("save-prevote", vt.Height, vt.Round, vt.BlockHash, sig, err)
	// a crash point only when a restart in a round with a recorded vote is not the open finding C02-RESIGN
	return s.w.storeWrite(ctx, "save-prevote", err, !vk.Excluded("C02-RESIGN"))
}

func (s *hActionStore) SavePrecommitAction(ctx context.Context, pk gcrypto.PubKey, vt tmconsensus.VoteTarget, sig []byte) error {
	s.peekActions()
	err := s.inner.SavePrecommitAction(ctx, pk, vt, sig)
	s.w.ev("save-precommit", vt.Height, vt.Round, vt.BlockHash, sig, err)
	// a crash point only when a restart in a round with a recorded vote is not the open finding C02-RESIGN
	return s.w.storeWrite(ctx, "save-precommit", err, !vk.Excluded("C02-RESIGN"))
}

func (s *hActionStore) LoadActions(ctx context.Context, h uint64, r uint32) (tmstore.RoundActions, error) {
	ra, err := s.inner.LoadActions(ctx, h, r)
	s.w.ev("load-actions", h, r, "", nil, err)
	return ra, err
}

type hFinStore struct {
	w     *world
	inner *tmmemstore.FinalizationStore
}

func (s *hFinStore) SaveFinalization(ctx context.Context, h uint64, r uint32, blockHash string, vs tmconsensus.ValidatorSet, app string) error {
	err := s.inner.SaveFinalization(ctx, h, r, blockHash, vs, app)
	s.w.ev("save-fin", h, r, blockHash, nil, err)
	return s.w.storeWrite(ctx, "save-fin", err, true)
}

func (s *hFinStore) LoadFinalizationByHeight(ctx context.Context, h uint64) (uint32, string, tmconsensus.ValidatorSet, string, error) {
	r, bh, vs, app, err := s.inner.LoadFinalizationByHeight(ctx, h)
	s.w.ev("load-fin", h, r, bh, nil, err)
	return r, bh, vs, app, err
}

type hSMStore struct {
	w     *world
	inner *tmmemstore.StateMachineStore
}

func (s *hSMStore) SetStateMachineHeightRound(ctx context.Context, h uint64, r uint32) error {
	err := s.inner.SetStateMachineHeightRound(ctx, h, r)
	s.w.ev("set-hr", h, r, "", nil, err)
	return s.w.storeWrite(ctx, "set-hr", err, true)
}

func (s *hSMStore) StateMachineHeightRound(ctx context.Context) (uint64, uint32, error) {
	h, r, err := s.inner.StateMachineHeightRound(ctx)
	s.w.ev("get-hr", h, r, "", nil, err)
	return h, r, err
}

// ---------------------------------------------------------------------------
// harness round timer: records, fires on command

const (
	tkNone = iota
	tkProposal
	tkPrevoteDelay
	tkPrecommitDelay
	tkCommitWait
)

var tkNames = []string{"none", "proposal", "prevoteDelay", "precommitDelay", "commitWait"}

const (
	tsOutstanding = iota
	tsCancelled
	tsFired
)

type timerRec struct {
	kind    int
	h       uint64
	r       uint32
	ch      chan struct{}
	state   int
	closed  bool
	cancels int
}

type hTimer struct {
	w    *world
	recs []*timerRec
}

func (t *hTimer) outstanding() *timerRec {
	for i := len(t.recs) - 1; i >= 0; i-- {
		if t.recs[i].state == tsOutstanding {
			return t.recs[i]
		}
	}
	return nil
}

func (t *hTimer) lastCancelled() *timerRec {
	for i := len(t.recs) - 1; i >= 0; i-- {
		if t.recs[i].state == tsCancelled && !t.recs[i].closed {
			return t.recs[i]
		}
	}
	return nil
}

func (t *hTimer) start(kind int, h uint64, r uint32) (<-chan struct{}, func()) {
	t.w.mu.Lock()
	defer t.w.mu.Unlock()
	if o := t.outstanding(); o != nil {
		t.w.flags = append(t.w.flags, fmt.Sprintf("two-timers: %s %d/%d started while %s %d/%d outstanding",
			tkNames[kind], h, r, tkNames[o.kind], o.h, o.r))
	}
	rec := &timerRec{kind: kind, h: h, r: r, ch: make(chan struct{})}
	t.recs = append(t.recs, rec)
	t.w.evLocked("timer-start", h, r, tkNames[kind], nil, nil)
	return rec.ch, func() {
		t.w.mu.Lock()
		defer t.w.mu.Unlock()
		rec.cancels++
		if rec.state == tsOutstanding {
			rec.state = tsCancelled
		}
		t.w.evLocked("timer-cancel", rec.h, rec.r, tkNames[rec.kind], nil, nil)
	}
}

func (t *hTimer) ProposalTimer(_ context.Context, h uint64, r uint32) (<-chan struct{}, func()) {
	return t.start(tkProposal, h, r)
}
func (t *hTimer) PrevoteDelayTimer(_ context.Context, h uint64, r uint32) (<-chan struct{}, func()) {
	return t.start(tkPrevoteDelay, h, r)
}
func (t *hTimer) PrecommitDelayTimer(_ context.Context, h uint64, r uint32) (<-chan struct{}, func()) {
	return t.start(tkPrecommitDelay, h, r)
}
func (t *hTimer) CommitWaitTimer(_ context.Context, h uint64, r uint32) (<-chan struct{}, func()) {
	return t.start(tkCommitWait, h, r)
}

// ---------------------------------------------------------------------------
// harness consensus strategy: every answer is an op

const (
	scEnter = iota
	scConsider
	scChoose
	scDecide
)

var scNames = []string{"EnterRound", "Consider", "Choose", "Decide"}

type stratAns struct {
	hash     string
	notReady bool
	err      error
}

type stratCall struct {
	seq     int
	kind    int
	inc     int
	epoch   int
	h       uint64 // EnterRound arguments
	r       uint32
	phs     []tmconsensus.ProposedHeader
	reason  tmconsensus.ConsiderProposedBlocksReason
	vs      tmconsensus.VoteSummary
	propOut chan<- tmconsensus.Proposal
	release chan stratAns
	done    bool
	ans     stratAns
}

type hStrat struct {
	w     *world
	calls []*stratCall
}

var errSmTeardown = errors.New("smsim: teardown")

func (s *hStrat) pending() *stratCall {
	for i := len(s.calls) - 1; i >= 0; i-- {
		c := s.calls[i]
		if c.kind != scEnter && !c.done {
			return c
		}
	}
	return nil
}

func (s *hStrat) record(c *stratCall) (closing bool) {
	s.w.mu.Lock()
	defer s.w.mu.Unlock()
	c.seq = s.w.seq
	c.inc = s.w.inc
	c.epoch = s.w.epoch
	s.calls = append(s.calls, c)
	s.w.evLocked("strat-"+scNames[c.kind], c.h, c.r, "", nil, nil)
	return s.w.closing
}

func (s *hStrat) wait(ctx context.Context, c *stratCall) stratAns {
	select {
	case a := <-c.release:
		return a
	case <-ctx.Done():
		return stratAns{err: ctx.Err()}
	}
}

func (s *hStrat) EnterRound(ctx context.Context, rv tmconsensus.RoundView, proposalOut chan<- tmconsensus.Proposal) error {
	c := &stratCall{kind: scEnter, h: rv.Height, r: rv.Round, propOut: proposalOut, done: true,
		phs: rv.ProposedHeaders, vs: rv.VoteSummary}
	s.record(c)
	return nil
}

func (s *hStrat) ConsiderProposedBlocks(ctx context.Context, phs []tmconsensus.ProposedHeader, reason tmconsensus.ConsiderProposedBlocksReason) (string, error) {
	c := &stratCall{kind: scConsider, phs: phs, reason: reason, release: make(chan stratAns, 1)}
	if s.record(c) {
		return "", errSmTeardown
	}
	a := s.wait(ctx, c)
	if a.notReady {
		return "", tmconsensus.ErrProposedBlockChoiceNotReady
	}
	return a.hash, a.err
}

func (s *hStrat) ChooseProposedBlock(ctx context.Context, phs []tmconsensus.ProposedHeader) (string, error) {
	c := &stratCall{kind: scChoose, phs: phs, release: make(chan stratAns, 1)}
	if s.record(c) {
		return "", errSmTeardown
	}
	a := s.wait(ctx, c)
	return a.hash, a.err
}

func (s *hStrat) DecidePrecommit(ctx context.Context, vs tmconsensus.VoteSummary) (string, error) {
	c := &stratCall{kind: scDecide, vs: vs.Clone(), release: make(chan stratAns, 1)}
	if s.record(c) {
		return "", errSmTeardown
	}
	a := s.wait(ctx, c)
	return a.hash, a.err
}

// ---------------------------------------------------------------------------
// records of the machine's outputs towards mirror and driver

type entranceRec struct {
	idx      int
	inc      int
	seq      int
	re       tmeil.StateMachineRoundEntrance
	answered bool
	ansVRV   bool // answered with a view (else committed header)
	chHash   string
	hcClosed bool
	actions  []tmeil.StateMachineRoundAction
	applied  int // actions already applied to the harness mirror
}

type finReqRec struct {
	seq       int
	epoch     int
	req       tmdriver.FinalizeBlockRequest
	responded bool
}

func vsDigest(vs tmconsensus.VoteSummary) string {
	var sb strings.Builder
	fmt.Fprintf(&sb, "a%d p%d c%d mp%x mc%x|", vs.AvailablePower, vs.TotalPrevotePower, vs.TotalPrecommitPower, vs.MostVotedPrevoteHash, vs.MostVotedPrecommitHash)
	for _, m := range []map[string]uint64{vs.PrevoteBlockPower, vs.PrecommitBlockPower} {
		keys := make([]string, 0, len(m))
		for k := range m {
			keys = append(keys, k)
		}
		sort.Strings(keys)
		for _, k := range keys {
			if m[k] == 0 {
				continue // a zero entry and an absent entry mean the same
			}
			fmt.Fprintf(&sb, "%x=%d,", k, m[k])
		}
		sb.WriteString("|")
	}
	return sb.String()
}
