package tmstate_test

// Reference model of the round rules (DESIGN.md Appendix B) and the trace
// oracles of C08 (round rules), C02 (no double sign) and C12 (timer
// discipline).  The model is advanced on every harness-visible event and
// compared with what the machine did at every quiescence point.

import (
	"bytes"
	"fmt"

	"github.com/gordian-engine/gordian/tm/tmconsensus"
)

const (
	phBoot     = iota // incarnation started, first entrance not yet seen
	phEntrance        // entrance requested, not answered
	phLive
	phReplay  // answered with a committed header; waiting for the finalization
	phStopped // the machine is expected to have exited
)

const (
	stNone = iota
	stAwaitProposal
	stAwaitPrevotes
	stPrevoteDelay
	stAwaitPrecommits
	stPrecommitDelay
	stCommitWait
	stAwaitFin
)

var stNames = []string{"none", "awaitProposal", "awaitPrevotes", "prevoteDelay", "awaitPrecommits", "precommitDelay", "commitWait", "awaitFinalization"}

type smFailure struct {
	prop    string // property owning the clause: C08, C02, C12, or "harness"
	clause  string
	detail  string
	finding string
}

type hr struct {
	H uint64
	R uint32
}

// epochState: what the model knows about one entered round (one entrance).
type epochState struct {
	H   uint64
	R   uint32
	vrv bool // answered with a view

	// shown to the machine in this round
	shownVS map[string]bool // VoteSummary digests
	lastOK  map[string]bool // acceptable proposal hashes of the latest view shown
	okPH    map[string]bool // acceptable proposal hashes
	allPH   map[string]bool
	maxPrec map[string]uint64 // per block hash, max precommit power shown
	total   uint64
	chHash  string // catch-up header hash

	trigPrevoteMaj   bool // (i) majority prevote power for one target shown
	trigPrevoteDelay bool // (ii) prevote delay timer fired
	trigPrecSplit    bool // (iii) majority precommit power without majority target shown
	permPrecMin      bool // >= 1/3 precommit power shown

	nilQuorum, fullNoQuorum, precDelayFired, jumped bool

	// counts observed
	enterCalls, considerCalls, chooseCalls, decideCalls int
	signPrevote, signPrecommit, signProposal            int
	finReqs                                             int
	proposalsSent                                       int // proposals the strategy put on this round's channel

	prevoteAnswers, decideAnswers []string // strategy answers given to calls of this round, in order

	// votes of this round that the action store already held when the incarnation started in it
	recPrevote, recPrecommit       recordedVote
	reemitPrevote, reemitPrecommit int
	hasActions                     bool
	unreadPrevote, unreadDecide    bool // a result was produced after the machine left the round (stays in the channel)
}

type recordedVote struct {
	present bool
	target  string
	sig     string
}

func newEpoch(h uint64, r uint32) *epochState {
	return &epochState{H: h, R: r, shownVS: map[string]bool{}, okPH: map[string]bool{}, allPH: map[string]bool{}, maxPrec: map[string]uint64{}}
}

type rmodel struct {
	w *world

	phase int
	H     uint64
	R     uint32
	step  int
	timer int // kind that must be outstanding at quiescence

	// expectations (exact counts) for the current round
	expDecide, expChoose, expFinReq int
	prevoteTaken, precommitTaken    bool
	commitHash                      string
	finalized                       bool // SaveFinalization(H) is expected to have happened
	replayMayAdvance                bool

	expectEntrance *hr

	p16 bool // trigger of finding C08-NODECIDE holds for this round

	epochs map[int]*epochState // by entrance index
	cur    *epochState

	lastEntered *hr // latest entrance of this incarnation
	lastEverH   uint64
	lastEverR   uint32
	haveEver    bool
	finSaved    map[uint64]bool   // SaveFinalization returned nil (any incarnation)
	finReqRound map[uint64]uint32 // round named by the latest finalize request per height
	storedHR    *hr               // last successful SetStateMachineHeightRound
	bootExpect  hr

	// C02
	signed        map[string]map[string]bool // kind|h|r -> distinct sign contents
	resign        int                        // identical re-signs (counted, not a violation)
	saved         map[string]bool            // kind|h|r|sig saved successfully
	ownPH         map[string]bool            // hashes of proposals the machine recorded itself
	resignTrigger map[string]bool            // kind|h|r for which the C02-RESIGN trigger holds

	logCursor int

	fails []smFailure
}

func newModel(w *world) *rmodel {
	return &rmodel{w: w, phase: phBoot, epochs: map[int]*epochState{}, finSaved: map[uint64]bool{}, finReqRound: map[uint64]uint32{},
		signed: map[string]map[string]bool{}, saved: map[string]bool{}, ownPH: map[string]bool{}, resignTrigger: map[string]bool{},
		bootExpect: hr{w.initH, 0}}
}

func (m *rmodel) failf(prop, clause, finding, format string, a ...any) {
	m.fails = append(m.fails, smFailure{prop: prop, clause: clause, finding: finding, detail: fmt.Sprintf(format, a...)})
}

func (m *rmodel) where() string {
	return fmt.Sprintf("model %d/%d phase=%d step=%s timer=%s", m.H, m.R, m.phase, stNames[m.step], tkNames[m.timer])
}

// ---------------------------------------------------------------------------
// events

func (m *rmodel) onBoot() {
	m.phase = phBoot
	m.step = stNone
	m.timer = tkNone
	m.expectEntrance = nil
	m.cur = nil
	m.lastEntered = nil
	// Where must a restarted machine enter?
	h, r := m.w.initH, uint32(0)
	if m.storedHR != nil {
		h, r = m.storedHR.H, m.storedHR.R
	}
	for m.finSaved[h] { // every height whose finalization is stored is behind the machine
		h, r = h+1, 0
	}
	m.bootExpect = hr{h, r}
}

func (m *rmodel) resetRound(h uint64, r uint32) {
	m.H, m.R = h, r
	m.step = stNone
	m.timer = tkNone
	m.expDecide, m.expChoose, m.expFinReq = 0, 0, 0
	m.prevoteTaken, m.precommitTaken = false, false
	m.commitHash = ""
	m.finalized = m.finSaved[h]
	m.replayMayAdvance = false
	m.p16 = false
}

func (m *rmodel) onEntranceReq(idx int, h uint64, r uint32, hasActions bool) {
	// C07: participation (Actions channel present) matches membership in the set the chain prescribes for h.
	want := !m.w.cfg.Follower && m.w.valsAt(h).self >= 0
	if hasActions != want {
		m.failf("C07", "participation", "", "entrance %d/%d: actions channel present=%v, machine's key member of the validator set of height %d: %v", h, r, hasActions, h, want)
	}
	// C08: entered (h,r) strictly increasing, leave reasons, finalization stored.
	if m.lastEntered != nil {
		if m.storedHR == nil || *m.storedHR != (hr{h, r}) {
			m.failf("C10", "position-not-recorded", "", "entered %d/%d without SetStateMachineHeightRound(%d,%d) having been written (stored: %v)", h, r, h, r, m.storedHR)
		}
		p := *m.lastEntered
		switch {
		case h == p.H && r == p.R+1:
			e := m.cur
			if e == nil || !(e.nilQuorum || e.fullNoQuorum || e.precDelayFired || e.jumped) {
				m.failf("C08", "leave-round-reason", "", "entered %d/%d from %d/%d without nil quorum, fully voted round, precommit-delay timeout or jump-ahead", h, r, p.H, p.R)
			}
		case h == p.H+1 && r == 0:
			if !m.finSaved[p.H] {
				m.failf("C08", "next-height-before-finalization-stored", "", "entered %d/0 but SaveFinalization(%d) has not returned", h, p.H)
			}
		default:
			m.failf("C08", "entrance-not-increasing", "", "entrance %d/%d after %d/%d", h, r, p.H, p.R)
		}
	} else {
		if (hr{h, r}) != m.bootExpect {
			m.failf("C08", "boot-entrance", "", "incarnation entered %d/%d, stores prescribe %d/%d", h, r, m.bootExpect.H, m.bootExpect.R)
			m.failf("C10", "boot-entrance", "", "incarnation entered %d/%d, the durable state (stored position %v, stored finalizations) prescribes %d/%d", h, r, m.storedHR, m.bootExpect.H, m.bootExpect.R)
		}
		if s := m.storedHR; s != nil && (h < s.H || (h == s.H && r < s.R)) {
			m.failf("C10", "boot-behind-stored-position", "", "incarnation entered %d/%d, stored position is %d/%d", h, r, s.H, s.R)
		}
		if h > m.w.initH && !m.finSaved[h-1] {
			m.failf("C08", "next-height-before-finalization-stored", "", "booted into %d/%d without stored finalization of %d", h, r, h-1)
		}
	}
	if m.expectEntrance != nil {
		if *m.expectEntrance != (hr{h, r}) {
			m.failf("C08", "model-entrance", "", "machine entered %d/%d, model expected %d/%d", h, r, m.expectEntrance.H, m.expectEntrance.R)
		}
	} else if m.phase == phLive {
		m.failf("C08", "model-entrance", "", "machine entered %d/%d, model expected it to stay (%s)", h, r, m.where())
	} else if m.phase == phReplay && !(m.replayMayAdvance && h == m.H+1 && r == 0) {
		m.failf("C08", "model-entrance", "", "machine entered %d/%d during catch-up of %d (%s)", h, r, m.H, m.where())
	}
	m.expectEntrance = nil
	m.lastEntered = &hr{h, r}
	m.phase = phEntrance
	m.resetRound(h, r)
	m.cur = newEpoch(h, r)
	m.cur.hasActions = hasActions
	m.epochs[idx] = m.cur
}

func (m *rmodel) show(f viewFacts) {
	e := m.cur
	e.shownVS[f.vsDigest] = true
	e.total = f.Total
	e.lastOK = map[string]bool{}
	for k := range f.okPH {
		e.lastOK[k] = true
	}
	for k := range f.okPH {
		e.okPH[k] = true
	}
	for k := range f.allPH {
		e.allPH[k] = true
	}
	for k, p := range f.precPow {
		if p > e.maxPrec[k] {
			e.maxPrec[k] = p
		}
	}
	vi := m.w.valsAt(f.H)
	if vi.maj(f.PrevBest) {
		e.trigPrevoteMaj = true
	}
	if vi.maj(f.PrecTot) && !f.PrecMajTarget {
		e.trigPrecSplit = true
	}
	if vi.min(f.PrecTot) {
		e.permPrecMin = true
	}
	if f.PrecMajNil {
		e.nilQuorum = true
	}
	if !f.PrecMajTarget && f.PrecTot == f.Total {
		e.fullNoQuorum = true
	}
}

// decideDue: the model demands one more DecidePrecommit request -- unless the precommit of this
// round was already recorded before a restart: then the choice is made, and asking again is forbidden.
func (m *rmodel) decideDue() {
	if m.cur != nil && m.cur.recPrecommit.present {
		return
	}
	m.expDecide++
}

func (m *rmodel) leave() {
	m.expectEntrance = &hr{m.H, m.R + 1}
	m.timer = tkNone
	m.step = stNone
}

func (m *rmodel) commit(f viewFacts) {
	m.step = stCommitWait
	m.timer = tkCommitWait
	m.commitHash = f.PrecBestHash
	if f.allPH[m.commitHash] {
		m.expFinReq++
	}
}

// a15 reports whether a view is of the shape the machine can not start a round from.
func (m *rmodel) a15(f viewFacts) bool {
	vi := m.w.valsAt(f.H)
	if vi.maj(f.PrecTot) {
		return !f.PrecMajTarget
	}
	if vi.min(f.PrecTot) {
		return false
	}
	return vi.maj(f.PrevTot) && !f.PrevMajTarget
}

func (m *rmodel) onEntranceVRV(f viewFacts) {
	m.phase = phLive
	m.cur.vrv = true
	m.show(f)
	vi := m.w.valsAt(f.H)
	switch {
	case vi.maj(f.PrecTot):
		switch {
		case f.PrecMajNil:
			m.leave()
		case f.PrecMajTarget:
			m.commit(f)
		default: // A15
			m.step, m.timer = stPrecommitDelay, tkPrecommitDelay
			m.decideDue()
		}
	case vi.min(f.PrecTot):
		m.step = stAwaitPrecommits
		m.decideDue()
	case vi.maj(f.PrevTot):
		if f.PrevMajTarget {
			m.step = stAwaitPrecommits
			m.decideDue()
		} else { // A15
			m.step, m.timer = stPrevoteDelay, tkPrevoteDelay
		}
	default:
		m.step, m.timer = stAwaitProposal, tkProposal
		if m.cur.recPrevote.present {
			// restarted in a round whose prevote is recorded: where recording the prevote left the machine
			m.step, m.timer = stAwaitPrevotes, tkNone
		}
	}
	if m.cur.recPrevote.present {
		m.prevoteTaken = true
	}
	if m.cur.recPrecommit.present {
		m.precommitTaken = true
	}
}

func (m *rmodel) onEntranceCH(hash string) {
	m.phase = phReplay
	m.cur.chHash = hash
	m.step = stNone
	m.timer = tkNone
	m.expFinReq++
}

// p16Trigger: delivering f now makes the machine see a prevote quorum for one
// target while it is still awaiting a proposal.
func (m *rmodel) p16Trigger(f viewFacts) bool {
	if m.phase != phLive || m.step != stAwaitProposal {
		return false
	}
	vi := m.w.valsAt(f.H)
	return !vi.min(f.PrecTot) && vi.maj(f.PrevTot) && f.PrevMajTarget
}

// viewEndsRound: the machine leaves its round on seeing f (nil precommit
// quorum, or a fully voted round without quorum while awaiting precommits).
func (m *rmodel) viewEndsRound(f viewFacts) bool {
	if m.phase != phLive {
		return false
	}
	vi := m.w.valsAt(f.H)
	if !vi.maj(f.PrecTot) {
		return false
	}
	if f.PrecMajNil {
		return m.step != stCommitWait && m.step != stAwaitFin
	}
	return !f.PrecMajTarget && f.PrecTot == f.Total && (m.step == stAwaitPrecommits || m.step == stPrecommitDelay)
}

func (m *rmodel) onView(f *viewFacts, jump bool) {
	if f != nil && m.phase == phLive {
		m.show(*f)
		vi := m.w.valsAt(f.H)
		precMaj := func() bool {
			if !vi.maj(f.PrecTot) {
				return false
			}
			switch {
			case f.PrecMajNil:
				m.leave()
			case f.PrecMajTarget:
				m.commit(*f)
			default:
				m.step, m.timer = stPrecommitDelay, tkPrecommitDelay
				m.decideDue()
			}
			return true
		}
		switch m.step {
		case stAwaitProposal:
			switch {
			case precMaj():
			case vi.min(f.PrecTot):
				m.step, m.timer = stAwaitPrecommits, tkNone
				m.decideDue()
			case vi.maj(f.PrevTot):
				if f.PrevMajTarget {
					m.step, m.timer = stAwaitPrecommits, tkNone
					m.expChoose++
					m.decideDue() // the statement: precommit decision is due once a prevote quorum is visible
					m.p16 = true
				} else {
					m.step, m.timer = stPrevoteDelay, tkPrevoteDelay
				}
			}
		case stAwaitPrevotes, stPrevoteDelay:
			switch {
			case precMaj():
			case vi.maj(f.PrevTot):
				if f.PrevMajTarget {
					m.step, m.timer = stAwaitPrecommits, tkNone
					m.decideDue()
				} else if m.step == stAwaitPrevotes {
					m.step, m.timer = stPrevoteDelay, tkPrevoteDelay
				}
			}
		case stAwaitPrecommits, stPrecommitDelay:
			if vi.maj(f.PrecTot) {
				switch {
				case f.PrecMajNil:
					m.leave()
				case f.PrecMajTarget:
					m.commit(*f)
				case f.PrecTot == f.Total:
					m.leave()
				default:
					if m.step == stAwaitPrecommits {
						m.step, m.timer = stPrecommitDelay, tkPrecommitDelay
					}
				}
			}
		case stCommitWait, stAwaitFin:
			if m.expFinReq == 0 && !m.finalized && f.allPH[m.commitHash] {
				m.expFinReq++
			}
		}
	}
	if jump {
		if m.expectEntrance != nil {
			m.failf("harness", "jump-after-leave", "", "jump-ahead delivered together with a view that already ends the round (%s)", m.where())
			return
		}
		if m.cur != nil {
			m.cur.jumped = true
		}
		m.leave()
	}
}

func (m *rmodel) onTimerFired(kind int) {
	if m.phase != phLive {
		m.failf("harness", "timer-fired-outside-live", "", "%s", m.where())
		return
	}
	switch m.step {
	case stAwaitProposal:
		m.expChoose++
		m.step, m.timer = stAwaitPrevotes, tkNone
	case stPrevoteDelay:
		m.cur.trigPrevoteDelay = true
		m.decideDue()
		m.step, m.timer = stAwaitPrecommits, tkNone
	case stPrecommitDelay:
		m.cur.precDelayFired = true
		m.leave()
	case stCommitWait:
		m.timer = tkNone
		if m.finalized {
			m.expectEntrance = &hr{m.H + 1, 0}
			m.step = stNone
		} else {
			m.step = stAwaitFin
		}
	default:
		m.failf("harness", "timer-fired-in-untimed-step", "", "%s kind=%s", m.where(), tkNames[kind])
	}
}

// hcUnhandled: a HeightCommitted signal now finds the machine outside commit wait (A16).
func (m *rmodel) hcUnhandled() bool {
	// A replaying machine does not listen to the signal at all.
	return m.phase == phLive && !(m.step == stCommitWait || m.step == stAwaitFin)
}

func (m *rmodel) onHeightCommitted() {
	if m.phase != phLive {
		return
	}
	switch m.step {
	case stCommitWait:
		m.timer = tkNone
		if m.finalized {
			m.expectEntrance = &hr{m.H + 1, 0}
			m.step = stNone
		} else {
			m.step = stAwaitFin
		}
	case stAwaitFin:
	}
}

func (m *rmodel) onPrevoteAnswer(hash string) {
	if m.phase != phLive || m.prevoteTaken {
		return
	}
	m.prevoteTaken = true
	if m.step == stAwaitProposal {
		m.step, m.timer = stAwaitPrevotes, tkNone
	}
}

func (m *rmodel) onDecideAnswer(hash string) {
	if m.phase != phLive || m.precommitTaken {
		return
	}
	m.precommitTaken = true
}

func (m *rmodel) onFinResp() {
	m.finalized = true
	switch m.phase {
	case phLive:
		if m.step == stAwaitFin {
			m.expectEntrance = &hr{m.H + 1, 0}
			m.step = stNone
		}
	case phReplay:
		// Appendix B: after the response is stored, next height.
		m.replayMayAdvance = true
		m.expectEntrance = &hr{m.H + 1, 0}
	}
}

// ---------------------------------------------------------------------------
// quiescence comparison (only when the machine's kernel is idle)

type smObs struct {
	timer *timerRec
	flags []string
}

func (m *rmodel) compare(o smObs) {
	if m.expectEntrance != nil {
		m.failf("C08", "model-entrance", "", "model expects entrance %d/%d, machine did not request it (%s)", m.expectEntrance.H, m.expectEntrance.R, m.where())
		return
	}
	if m.phase != phLive && m.phase != phReplay {
		if o.timer != nil {
			m.failf("C12", "timer-outside-round", "", "%s timer %d/%d outstanding while no round is live (%s)", tkNames[o.timer.kind], o.timer.h, o.timer.r, m.where())
		}
		return
	}
	// C12: exactly the timer of the step, none otherwise.
	switch {
	case m.timer == tkNone && o.timer != nil:
		m.failf("C12", "timer-armed-in-untimed-step", "", "%s timer %d/%d outstanding, model expects none (%s)", tkNames[o.timer.kind], o.timer.h, o.timer.r, m.where())
	case m.timer != tkNone && o.timer == nil:
		m.failf("C12", "timer-missing", "", "no timer outstanding, model expects %s (%s)", tkNames[m.timer], m.where())
	case m.timer != tkNone && (o.timer.kind != m.timer || o.timer.h != m.H || o.timer.r != m.R):
		m.failf("C12", "timer-wrong", "", "%s timer %d/%d outstanding, model expects %s (%s)", tkNames[o.timer.kind], o.timer.h, o.timer.r, tkNames[m.timer], m.where())
	}
	e := m.cur
	if e == nil {
		return
	}
	if e.decideCalls != m.expDecide {
		fid := ""
		if m.p16 && e.decideCalls == m.expDecide-1 {
			fid = "C08-NODECIDE"
		}
		m.failf("C08", "decide-precommit-due", fid, "DecidePrecommit requested %d times in %d/%d, model expects %d (%s; triggers: prevoteMaj=%v prevoteDelay=%v precSplit=%v)",
			e.decideCalls, m.H, m.R, m.expDecide, m.where(), e.trigPrevoteMaj, e.trigPrevoteDelay, e.trigPrecSplit)
	}
	if e.chooseCalls != m.expChoose {
		m.failf("C08", "choose-count", "", "ChooseProposedBlock requested %d times in %d/%d, model expects %d (%s)", e.chooseCalls, m.H, m.R, m.expChoose, m.where())
	}
	if e.finReqs != m.expFinReq {
		m.failf("C08", "finalize-request-count", "", "%d finalize requests in %d/%d, model expects %d (%s)", e.finReqs, m.H, m.R, m.expFinReq, m.where())
	}
	if e.vrv && e.hasActions {
		if e.recPrevote.present && e.reemitPrevote != 1 {
			m.failf("C02", "recorded-vote-not-re-emitted", "", "prevote recorded for %d/%d before the restart was sent to the mirror %d times", e.H, e.R, e.reemitPrevote)
		}
		if e.recPrecommit.present && e.reemitPrecommit != 1 {
			m.failf("C02", "recorded-vote-not-re-emitted", "", "precommit recorded for %d/%d before the restart was sent to the mirror %d times", e.H, e.R, e.reemitPrecommit)
		}
	}
	if e.vrv && e.enterCalls != 1 {
		m.failf("C08", "enter-round-count", "", "EnterRound called %d times for %d/%d", e.enterCalls, m.H, m.R)
	}
	if !e.vrv && m.phase == phReplay && e.enterCalls != 0 {
		m.failf("C08", "enter-round-in-catchup", "", "EnterRound called during catch-up of %d", m.H)
	}
}

// ---------------------------------------------------------------------------
// trace invariants, evaluated over new log events

func (m *rmodel) scan() {
	w := m.w
	w.mu.Lock()
	log := w.log[m.logCursor:]
	m.logCursor = len(w.log)
	flags := w.flags
	w.flags = nil
	w.mu.Unlock()

	for _, f := range flags {
		m.failf("C12", "two-timers", "", "%s", f)
	}

	for _, ev := range log {
		e := m.epochs[ev.Epoch]
		if ev.Epoch < 0 || ev.Epoch >= len(w.entrances) || w.entrances[ev.Epoch].inc != ev.Inc {
			e = nil // before the incarnation's first entrance
		}
		inRound := e != nil && ev.H == e.H && ev.R == e.R
		switch ev.Kind {
		case "sign-prevote", "sign-precommit", "sign-proposal":
			kind := ev.Kind[5:]
			key := fmt.Sprintf("%s|%d|%d", kind, ev.H, ev.R)
			set := m.signed[key]
			if set == nil {
				set = map[string]bool{}
				m.signed[key] = set
			}
			if set[string(ev.B)] {
				m.resign++
			} else {
				set[string(ev.B)] = true
				if len(set) > 1 {
					fid := ""
					if m.resignTrigger[fmt.Sprintf("%d|%d", ev.H, ev.R)] {
						fid = "C02-RESIGN"
					}
					m.failf("C02", "double-sign", fid, "second distinct %s signed for %d/%d (target %s)", kind, ev.H, ev.R, short(ev.S))
				}
			}
			if !inRound {
				m.failf("C08", "vote-round", "", "%s for %d/%d while machine is in %v", ev.Kind, ev.H, ev.R, m.lastEntered)
				continue
			}
			if (kind == "prevote" && e.recPrevote.present) || (kind == "precommit" && e.recPrecommit.present) {
				m.failf("C02", "signer-called-for-recorded-vote", "", "Signer.%s called for %d/%d although that vote was recorded before the restart", kind, e.H, e.R)
			}
			switch kind {
			case "prevote":
				e.signPrevote++
				if e.signPrevote > 1 {
					m.failf("C08", "prevote-once", "", "second prevote signed in %d/%d", e.H, e.R)
				}
				if len(e.prevoteAnswers) == 0 || e.prevoteAnswers[0] != ev.S {
					m.failf("C08", "vote-target-from-strategy", "", "prevote for %s in %d/%d; strategy answers of this round: %v", short(ev.S), e.H, e.R, shorts(e.prevoteAnswers))
					m.failf("C02", "target-equals-strategy-answer", "", "prevote for %s in %d/%d; strategy answers of this round: %v", short(ev.S), e.H, e.R, shorts(e.prevoteAnswers))
				}
			case "precommit":
				e.signPrecommit++
				if e.signPrecommit > 1 {
					m.failf("C08", "precommit-once", "", "second precommit signed in %d/%d", e.H, e.R)
				}
				if len(e.decideAnswers) == 0 || e.decideAnswers[0] != ev.S {
					m.failf("C08", "vote-target-from-strategy", "", "precommit for %s in %d/%d; strategy answers of this round: %v", short(ev.S), e.H, e.R, shorts(e.decideAnswers))
					m.failf("C02", "target-equals-strategy-answer", "", "precommit for %s in %d/%d; strategy answers of this round: %v", short(ev.S), e.H, e.R, shorts(e.decideAnswers))
				}
			case "proposal":
				e.signProposal++
				if e.signProposal > e.proposalsSent {
					m.failf("C02", "proposal-without-strategy", "", "proposal signed in %d/%d although the strategy sent %d proposals for this round", e.H, e.R, e.proposalsSent)
				}
			}
		case "save-prevote", "save-precommit", "save-proposal":
			if ev.Err == "" {
				m.saved[fmt.Sprintf("%s|%d|%d|%x", ev.Kind[5:], ev.H, ev.R, ev.B)] = true
				if ev.Kind == "save-proposal" {
					m.ownPH[ev.S] = true
				}
			}
		case "action-prevote", "action-precommit", "action-proposal":
			if e != nil {
				rec, n := &e.recPrevote, &e.reemitPrevote
				if ev.Kind == "action-precommit" {
					rec, n = &e.recPrecommit, &e.reemitPrecommit
				}
				if ev.Kind != "action-proposal" && rec.present {
					*n++
					if rec.sig != string(ev.B) || rec.target != ev.S {
						m.failf("C02", "re-emitted-vote-differs", "", "%s emitted in %d/%d after the restart (target %s) is not the recorded one (target %s) byte for byte", ev.Kind[7:], e.H, e.R, short(ev.S), short(rec.target))
					}
					if *n > 1 {
						m.failf("C02", "recorded-vote-re-emitted-twice", "", "%s of %d/%d emitted %d times after the restart", ev.Kind[7:], e.H, e.R, *n)
					}
				}
			}
			if ev.Kind != "action-proposal" {
				// what the machine hands to the mirror (first vote, or a recorded vote sent again after a
				// restart) is a vote for exactly (kind, height, round, target): the sign content it names is
				// the scheme's content for that vote and the signature is the local key's over it
				want := m.w.voteContent(ev.Kind == "action-precommit", ev.H, ev.R, ev.S)
				if !bytes.Equal(ev.G, want) {
					for _, prop := range []string{"C02", "C10"} {
						m.failf(prop, "emitted-vote-sign-content", "", "%s emitted for %d/%d (target %s) names sign content %q, the content of that vote is %q", ev.Kind[7:], ev.H, ev.R, short(ev.S), ev.G, want)
					}
				} else if !m.w.fx.PrivVals[0].Val.PubKey.Verify(want, ev.B) {
					for _, prop := range []string{"C02", "C10"} {
						m.failf(prop, "emitted-vote-signature", "", "%s emitted for %d/%d (target %s): the signature does not verify under the local key for that vote", ev.Kind[7:], ev.H, ev.R, short(ev.S))
					}
				}
			}
			if !m.saved[fmt.Sprintf("%s|%d|%d|%x", ev.Kind[7:], ev.H, ev.R, ev.B)] {
				m.failf("C02", "emit-before-save", "", "%s for %d/%d (target %s) emitted without a preceding successful save of the same signature", ev.Kind[7:], ev.H, ev.R, short(ev.S))
			}
		case "save-fin":
			if ev.Err == "" {
				m.finSaved[ev.H] = true
				if rr, ok := m.finReqRound[ev.H]; ok && rr != ev.R {
					m.failf("C08", "finalization-round", "", "finalization of height %d stored for round %d, the finalize request named round %d", ev.H, ev.R, rr)
				}
			} else if ev.Err != "context canceled" {
				m.failf("C10", "finalization-overwrite-attempt", "", "SaveFinalization(%d) refused: %s", ev.H, ev.Err)
			}
		case "set-hr":
			if ev.Err == "" {
				m.storedHR = &hr{ev.H, ev.R}
			}
		case "timer-start":
			if !inRound {
				m.failf("C12", "timer-round", "", "%s timer started for %d/%d while machine is in %v", ev.S, ev.H, ev.R, m.lastEntered)
			}
		}
	}
}

// onStratCall checks one strategy call (C08: every call refers to the round the
// machine is in; at most one Choose / DecidePrecommit; DecidePrecommit justified).
func (m *rmodel) onStratCall(c *stratCall) {
	e := m.epochs[c.epoch]
	if c.inc != m.w.inc {
		e = nil
	}
	name := scNames[c.kind]
	if e == nil {
		m.failf("C08", "strategy-call-round", "", "%s called before any round entrance", name)
		return
	}
	if c.kind == scEnter {
		if c.h != e.H || c.r != e.R {
			m.failf("C08", "strategy-call-round", "", "EnterRound(%d/%d) while machine is in %d/%d", c.h, c.r, e.H, e.R)
		}
		if !e.vrv {
			m.failf("C08", "enter-round-in-catchup", "", "EnterRound(%d/%d) although the entrance was not answered with a view", c.h, c.r)
		}
		for _, ph := range c.phs {
			m.checkPHSets("EnterRound", ph)
		}
		e.enterCalls++
		return
	}
	if !e.vrv {
		m.failf("C08", "strategy-call-round", "", "%s called while no round is live (machine in %d/%d)", name, e.H, e.R)
		return
	}
	for _, ph := range c.phs {
		m.checkPHSets(name, ph)
		if ph.Header.Height != e.H || ph.Round != e.R {
			m.failf("C08", "strategy-call-round", "", "%s passed a proposal of %d/%d while machine is in %d/%d", name, ph.Header.Height, ph.Round, e.H, e.R)
		} else if !e.allPH[string(ph.Header.Hash)] && !m.ownPH[string(ph.Header.Hash)] {
			m.failf("C08", "strategy-call-round", "", "%s passed proposal %s that no view of %d/%d contained", name, short(string(ph.Header.Hash)), e.H, e.R)
		}
	}
	if c.kind == scConsider || c.kind == scChoose {
		got := map[string]bool{}
		for _, ph := range c.phs {
			got[string(ph.Header.Hash)] = true
		}
		for k := range e.lastOK {
			if !got[k] {
				m.failf("C07", "acceptable-proposal-withheld", "", "%s in %d/%d was not passed proposal %s although it carries the validator sets the driver returned", name, e.H, e.R, short(k))
			}
		}
		for k := range got {
			if !e.lastOK[k] && !m.ownPH[k] {
				m.failf("C07", "unacceptable-proposal-reached-strategy", "", "%s in %d/%d was passed proposal %s, which is not an acceptable proposal of the latest view", name, e.H, e.R, short(k))
			}
		}
	}
	if ((c.kind == scConsider || c.kind == scChoose) && e.recPrevote.present) || (c.kind == scDecide && e.recPrecommit.present) {
		m.failf("C02", "strategy-consulted-for-recorded-vote", "", "%s called in %d/%d although the vote of that kind was recorded for this round before the restart", name, e.H, e.R)
		m.failf("C08", "strategy-consulted-for-recorded-vote", "", "%s called in %d/%d although the vote of that kind was recorded for this round before the restart", name, e.H, e.R)
	}
	switch c.kind {
	case scConsider:
		e.considerCalls++
	case scChoose:
		e.chooseCalls++
		if e.chooseCalls > 1 {
			m.failf("C08", "choose-count", "", "ChooseProposedBlock requested twice in %d/%d", e.H, e.R)
		}
	case scDecide:
		e.decideCalls++
		if e.decideCalls > 1 {
			m.failf("C08", "decide-precommit-once", "", "DecidePrecommit requested twice in %d/%d", e.H, e.R)
		}
		if !(e.trigPrevoteMaj || e.trigPrevoteDelay || e.trigPrecSplit || e.permPrecMin) {
			m.failf("C08", "decide-precommit-justified", "", "DecidePrecommit in %d/%d without prevote quorum, prevote-delay timeout or 1/3 precommits shown", e.H, e.R)
		}
		if !e.shownVS[vsDigest(c.vs)] {
			m.failf("C08", "strategy-call-round", "", "DecidePrecommit in %d/%d passed a vote summary that no view of this round showed", e.H, e.R)
		}
	}
}

// sameValSet compares a validator set with the one the chain prescribes (keys, powers, hashes).
func sameValSet(a tmconsensus.ValidatorSet, vi *valInfo) bool {
	b := vi.set
	if len(a.Validators) != len(b.Validators) || string(a.PubKeyHash) != string(b.PubKeyHash) || string(a.VotePowerHash) != string(b.VotePowerHash) {
		return false
	}
	for i := range a.Validators {
		if a.Validators[i].Power != b.Validators[i].Power || !bytes.Equal(a.Validators[i].PubKey.PubKeyBytes(), b.Validators[i].PubKey.PubKeyBytes()) {
			return false
		}
	}
	return true
}

// checkPHSets (C07): a proposed header handed to the strategy, or built by the machine, carries
// ValidatorSet = what the driver returned for h-2 and NextValidatorSet = what it returned for h-1.
func (m *rmodel) checkPHSets(where string, ph tmconsensus.ProposedHeader) {
	h := ph.Header.Height
	if !sameValSet(ph.Header.ValidatorSet, m.w.valsAt(h)) {
		m.failf("C07", "validator-set", "", "%s: proposal %s of %d/%d carries a ValidatorSet (%d validators) other than the one the driver returned for height %d", where, short(string(ph.Header.Hash)), h, ph.Round, len(ph.Header.ValidatorSet.Validators), int64(h)-2)
	}
	if !sameValSet(ph.Header.NextValidatorSet, m.w.valsAt(h+1)) {
		m.failf("C07", "next-validator-set", "", "%s: proposal %s of %d/%d carries a NextValidatorSet (%d validators) other than the one the driver returned for height %d", where, short(string(ph.Header.Hash)), h, ph.Round, len(ph.Header.NextValidatorSet.Validators), int64(h)-1)
	}
}

func shorts(ss []string) []string {
	out := make([]string, len(ss))
	for i, s := range ss {
		out[i] = short(s)
	}
	return out
}

// onFinReq checks C08's finalize clause for one request.
func (m *rmodel) onFinReq(epoch int, hash string, height uint64, round uint32) {
	m.finReqRound[height] = round
	if m.finSaved[height] {
		m.failf("C10", "finalize-request-for-stored-height", "", "finalize request for height %d (%s) although its finalization is stored", height, short(hash))
	}
	e := m.epochs[epoch]
	if e == nil {
		m.failf("C08", "finalize-justified", "", "finalize request for %s outside any round", short(hash))
		return
	}
	e.finReqs++
	if height != e.H {
		m.failf("C08", "finalize-justified", "", "finalize request for height %d while in %d/%d", height, e.H, e.R)
		return
	}
	if e.chHash != "" {
		if hash != e.chHash {
			m.failf("C08", "finalize-justified", "", "catch-up finalize request for %s, mirror supplied %s", short(hash), short(e.chHash))
		}
		return
	}
	if hash == "" || !(3*e.maxPrec[hash] > 2*e.total) {
		m.failf("C08", "finalize-justified", "", "finalize request for %s in %d/%d; max precommit power shown for it %d of %d", short(hash), e.H, e.R, e.maxPrec[hash], e.total)
	}
}
