package tmstate_test

// Interpreter: runs one op list against a real StateMachine inside a synctest
// bubble. Every op is followed by exact quiescence (synctest.Wait) and by the
// evaluation of the oracles.

import (
	"context"
	"fmt"
	"io"
	"log/slog"
	"runtime"
	"sort"
	"strings"
	"testing"
	"testing/synctest"
	"time"

	"github.com/gordian-engine/gordian/gassert/gasserttest"
	"github.com/gordian-engine/gordian/gwatchdog"
	"github.com/gordian-engine/gordian/internal/zzverif/vk"
	"github.com/gordian-engine/gordian/tm/tmconsensus"
	"github.com/gordian-engine/gordian/tm/tmdriver"
	"github.com/gordian-engine/gordian/tm/tmengine/internal/tmeil"
	"github.com/gordian-engine/gordian/tm/tmengine/internal/tmstate"
	"github.com/gordian-engine/gordian/tm/tmengine/tmelink"
	"github.com/gordian-engine/gordian/tm/tmstore/tmmemstore"
)

// Known finding ids (see /verif/known_findings.json).
const (
	fidA15       = "C08-A15"       // entrance view with majority power but no majority target: panic
	fidA16       = "C08-A16"       // HeightCommitted outside commit wait: panic
	fidA17       = "C08-A17"       // jump-ahead to another height: panic
	fidA18       = "C08-A18"       // strategy busy > 100ms when a view needs it: panic
	fidNoDecide  = "C08-NODECIDE"  // prevote quorum seen while awaiting proposal: DecidePrecommit never requested
	fidCHRound   = "C08-CHROUND"   // catch-up header committed in another round than entered: panic on finalization
	fidJumpRound = "C08-JUMPROUND" // round-ending view delivered together with a jump-ahead: panic
	// Defects with a proposed repair (fixes/C08-*.diff). Listed as "fixed": nothing is excluded;
	// should one of them be turned into an open finding, the same trigger predicates exclude it.
	fidF1         = "C08-F1"     // entrance view with a block commit quorum but without the header: machine stops / keeps a stale view
	fidF2         = "C08-F2"     // catch-up handling never left after a catch-up start; step left over when catching up after a live round
	fidF3         = "C08-F3"     // catch-up start leaves the previous-finalization values empty
	fidF4         = "C08-F4"     // second stale strategy result deadlocks consensus manager and state machine
	fidRestartFin = "C02-F1"     // second restart during commit wait re-enters a finalized height
	fidA7b        = "C03-A7b"    // mirror: entrance for a round beyond the committing round of the committing height
	fidStranded   = "C10-SM1"    // live machine more than a height behind: jump-ahead slot overwritten with another height, machine wedged
	fidResign     = "C02-RESIGN" // restart in a round with a recorded vote: strategy consulted and signer called again
)

type sim struct {
	st   *vk.Stats
	c    smCase
	mode string // property whose clauses are judged: C08, C02, C12

	w     *world
	mm    *mirror
	model *rmodel
	log   *slog.Logger

	rootCtx    context.Context
	rootCancel context.CancelFunc

	// stores survive restarts
	aStore *hActionStore
	fStore *hFinStore
	sStore *hSMStore

	// per incarnation
	cancel           context.CancelFunc
	sm               *tmstate.StateMachine
	wd               *gwatchdog.Watchdog
	viewIn           chan tmeil.StateMachineRoundView
	entOut           chan tmeil.StateMachineRoundEntrance
	finCh            chan tmdriver.FinalizeBlockRequest
	bdCh             chan tmelink.BlockDataArrival
	everVRV          bool
	startedInCatchup bool // this incarnation's first entrance was answered with a committed header

	pendingEnt  *entranceRec
	finReqs     []*finReqRec
	stratCursor int

	timedBlockedAt time.Time
	timedBlocked   bool

	skips        map[string]int
	labels       map[string]bool
	fail         *smFailure
	opIdx        int
	crashHandled bool
	finSnap      map[uint64]string // finalization store content at the crash
	crashInfo    string
	deadEnd      string // why the epilogue could not bring the machine in sync with the mirror
	walDirty     bool   // the write-ahead file currently names a finding for the op in flight
}

func (s *sim) skip(why string) { s.skips[why]++ }

func (s *sim) excluded(id string) bool {
	if vk.Excluded(id) {
		s.st.Excluded(id)
		s.skips["excluded:"+id]++
		return true
	}
	// Reproducer / not-yet-listed mode: the op runs; if the process dies the
	// write-ahead file names the finding whose trigger held.
	s.st.WALFinding(s.c, id)
	s.walDirty = true
	return false
}

func (s *sim) newIncarnation() {
	w := s.w
	ctx, cancel := context.WithCancel(s.rootCtx)
	s.cancel = cancel
	wd, wctx := gwatchdog.NewNopWatchdog(ctx, s.log)
	s.wd = wd
	s.viewIn = make(chan tmeil.StateMachineRoundView)
	s.entOut = make(chan tmeil.StateMachineRoundEntrance)
	s.finCh = make(chan tmdriver.FinalizeBlockRequest)
	s.bdCh = make(chan tmelink.BlockDataArrival) // unbuffered: also the idle probe
	s.everVRV = false
	s.startedInCatchup = false
	s.pendingEnt = nil
	s.timedBlocked = false

	w.mu.Lock()
	w.timer = &hTimer{w: w}
	w.strat = &hStrat{w: w}
	w.closing = false
	w.mu.Unlock()
	s.stratCursor = 0

	cfg := tmstate.StateMachineConfig{
		HashScheme:                        w.fx.HashScheme,
		SignatureScheme:                   w.fx.SignatureScheme,
		CommonMessageSignatureProofScheme: w.fx.CommonMessageSignatureProofScheme,
		Genesis:                           w.gen,
		ActionStore:                       s.aStore,
		FinalizationStore:                 s.fStore,
		StateMachineStore:                 s.sStore,
		RoundTimer:                        w.timer,
		ConsensusStrategy:                 w.strat,
		RoundViewInCh:                     s.viewIn,
		RoundEntranceOutCh:                s.entOut,
		BlockDataArrivalCh:                s.bdCh,
		FinalizeBlockRequestCh:            s.finCh,
		Watchdog:                          wd,
		AssertEnv:                         gasserttest.DefaultEnv(),
	}
	if !w.cfg.Follower {
		cfg.Signer = &hSigner{w: w, inner: tmconsensus.PassthroughSigner{Signer: w.fx.PrivVals[0].Signer, SignatureScheme: w.fx.SignatureScheme}}
	}
	s.model.onBoot()
	sm, err := tmstate.NewStateMachine(wctx, s.log, cfg)
	if err != nil {
		panic(err)
	}
	s.sm = sm
}

// teardown stops the current incarnation without letting it sign anything.
func (s *sim) teardown() {
	w := s.w
	w.mu.Lock()
	w.closing = true
	var rel []*stratCall
	for _, c := range w.strat.calls {
		if c.kind != scEnter && !c.done {
			c.done = true
			rel = append(rel, c)
		}
	}
	w.mu.Unlock()
	for _, c := range rel {
		c.release <- stratAns{err: errSmTeardown}
	}
	synctest.Wait()
	s.cancel()
	s.sm.Wait()
	s.wd.Wait()
	synctest.Wait()
}

// probe reports whether the kernel sits in its live select (idle).
func (s *sim) probe() bool {
	select {
	case s.bdCh <- tmelink.BlockDataArrival{}: // height 0 never matches a round: ignored by the machine
		synctest.Wait()
		return true
	default:
		return false
	}
}

func (s *sim) stratPending() *stratCall {
	s.w.mu.Lock()
	defer s.w.mu.Unlock()
	return s.w.strat.pending()
}

// idle: the kernel is in its main select and will take the next event.
func (s *sim) idle() bool {
	if s.pendingEnt != nil {
		return false
	}
	if s.model.phase == phReplay {
		// A replaying machine sits in its catch-up select, which takes nothing but the
		// finalization response (no views, timers, strategy results, block data: the probe
		// channel is not read there). Its progress is demanded by the finalize-request and
		// next-entrance expectations of the model instead.
		return true
	}
	if s.stratPending() == nil {
		return true
	}
	return s.probe()
}

func (s *sim) curEpoch() int { s.w.mu.Lock(); defer s.w.mu.Unlock(); return s.w.epoch }

func (s *sim) drainActions() bool {
	w := s.w
	w.mu.Lock()
	defer w.mu.Unlock()
	return w.drainActionsLocked()
}

// drainActionsLocked moves emitted actions of this incarnation's entrances
// into the log. Also called by the action store wrapper right before a save,
// so "emitted before saved" is visible in the event order.
func (w *world) drainActionsLocked() bool {
	any := false
	for _, e := range w.entrances {
		if e.inc != w.inc || e.re.Actions == nil {
			continue
		}
		for {
			select {
			case a := <-e.re.Actions:
				any = true
				e.actions = append(e.actions, a)
				switch {
				case len(a.PH.Header.Hash) > 0:
					w.evLocked("action-proposal", a.PH.Header.Height, a.PH.Round, string(a.PH.Header.Hash), a.PH.Signature, nil)
				case len(a.Prevote.Sig) > 0:
					w.evLocked("action-prevote", e.re.H, e.re.R, a.Prevote.TargetHash, a.Prevote.Sig, nil)
					w.log[len(w.log)-1].G = a.Prevote.SignContent
				case len(a.Precommit.Sig) > 0:
					w.evLocked("action-precommit", e.re.H, e.re.R, a.Precommit.TargetHash, a.Precommit.Sig, nil)
					w.log[len(w.log)-1].G = a.Precommit.SignContent
				default:
					w.evLocked("action-empty", e.re.H, e.re.R, "", nil, nil)
				}
				continue
			default:
			}
			break
		}
	}
	return any
}

func (s *sim) smPos() (uint64, uint32, bool) {
	w := s.w
	if w.epoch < 0 || w.epoch >= len(w.entrances) || w.entrances[w.epoch].inc != w.inc {
		return 0, 0, false
	}
	e := w.entrances[w.epoch]
	return e.re.H, e.re.R, true
}

// settle: quiescence, then take what the machine put on its outgoing channels.
func (s *sim) settle() {
	w := s.w
	for {
		synctest.Wait()
		s.digest() // everything the machine did before it (possibly) asked for the next entrance
		progressed := false
		select {
		case re := <-s.entOut:
			w.mu.Lock()
			rec := &entranceRec{idx: len(w.entrances), inc: w.inc, seq: w.seq, re: re}
			w.entrances = append(w.entrances, rec)
			w.epoch = rec.idx
			w.evLocked("entrance", re.H, re.R, "", nil, nil)
			w.mu.Unlock()
			s.pendingEnt = rec
			s.timedBlocked = false
			boot := s.model.lastEntered == nil
			s.model.onEntranceReq(rec.idx, re.H, re.R, re.Actions != nil)
			if boot && !vk.Excluded(fidResign) {
				// votes of this round recorded before the restart: the machine's votes for the round
				if ra, err := s.aStore.inner.LoadActions(context.Background(), re.H, re.R); err == nil {
					if ra.PrevoteSignature != "" {
						s.model.cur.recPrevote = recordedVote{present: true, target: ra.PrevoteTarget, sig: ra.PrevoteSignature}
					}
					if ra.PrecommitSignature != "" {
						s.model.cur.recPrecommit = recordedVote{present: true, target: ra.PrecommitTarget, sig: ra.PrecommitSignature}
					}
				}
			}
			if cap(re.Response) != 1 {
				s.model.failf("harness", "entrance-response-chan", "", "response channel capacity %d", cap(re.Response))
			}
			progressed = true
		default:
		}
		select {
		case fr := <-s.finCh:
			w.mu.Lock()
			rec := &finReqRec{seq: w.seq, epoch: w.epoch, req: fr}
			w.evLocked("fin-req", fr.Header.Height, fr.Round, string(fr.Header.Hash), nil, nil)
			w.mu.Unlock()
			s.finReqs = append(s.finReqs, rec)
			s.model.onFinReq(rec.epoch, string(fr.Header.Hash), fr.Header.Height, fr.Round)
			progressed = true
		default:
		}
		if s.drainActions() {
			progressed = true
		}
		// apply emitted actions to the mirror, as its kernel would
		for _, e := range w.entrances {
			if e.inc != w.inc {
				continue
			}
			for e.applied < len(e.actions) {
				a := e.actions[e.applied]
				e.applied++
				if len(a.PH.Header.Hash) > 0 {
					s.model.checkPHSets("own proposal", a.PH)
				}
				h, r, _ := s.smPos()
				if why := s.mm.ownAction(e, a, h, r); why != "" {
					s.skip("own-action-" + why)
				}
			}
		}
		if !progressed {
			break
		}
	}
	s.digest()
	if s.w.crashed && !s.crashHandled {
		s.crashRestart()
	}
}

func (s *sim) finDigest(h uint64) string {
	r, bh, vs, app, err := s.fStore.inner.LoadFinalizationByHeight(context.Background(), h)
	if err != nil {
		return ""
	}
	var sb strings.Builder
	fmt.Fprintf(&sb, "r%d|%x|%x|%x|%x|", r, bh, app, vs.PubKeyHash, vs.VotePowerHash)
	for _, v := range vs.Validators {
		fmt.Fprintf(&sb, "%x:%d,", v.PubKey.PubKeyBytes(), v.Power)
	}
	return sb.String()
}

// crashRestart: the kernel is parked inside the store write chosen as crash
// point. The incarnation is discarded and a new machine is built on the same stores.
func (s *sim) crashRestart() {
	s.crashHandled = true
	w := s.w
	h, r, _ := s.smPos()
	s.crashInfo = fmt.Sprintf("%s in %d/%d (%s)", w.crashKind, h, r, s.model.where())
	s.labels["crash-after-"+w.crashKind] = true
	if r >= 1 {
		s.labels["crash-in-round>=1"] = true
	}
	s.finSnap = map[uint64]string{}
	for fh := w.initH - 1; fh < w.initH+64; fh++ {
		if d := s.finDigest(fh); d != "" {
			s.finSnap[fh] = d
		}
	}
	s.teardown()
	w.mu.Lock()
	w.inc++
	w.evLocked("crash-restart", h, r, w.crashKind, nil, nil)
	w.mu.Unlock()
	s.mm.restart()
	s.finReqs = nil
	s.newIncarnation()
	s.settle()
}

// checkFinSnap (C10): finalizations stored before the crash are unchanged.
func (s *sim) checkFinSnap() {
	for fh, d := range s.finSnap {
		if now := s.finDigest(fh); now != d {
			s.model.failf("C10", "finalization-changed", "", "stored finalization of height %d differs after the restart:\n before %s\n after  %s", fh, d, now)
		}
	}
}

// digest feeds strategy calls and log events made since the last look to the oracles.
func (s *sim) digest() {
	w := s.w
	w.mu.Lock()
	calls := append([]*stratCall(nil), w.strat.calls[s.stratCursor:]...)
	s.stratCursor = len(w.strat.calls)
	w.mu.Unlock()
	for _, c := range calls {
		s.model.onStratCall(c)
	}
	s.model.scan()
}

// judge compares model and machine when the kernel is idle and collects failures.
func (s *sim) judge() {
	m := s.model
	if s.finSnap != nil {
		s.checkFinSnap()
	}
	if s.fail == nil && len(m.fails) == 0 {
		canCompare := s.pendingEnt != nil
		if !canCompare {
			if s.stratPending() == nil {
				canCompare = true
				if m.phase != phReplay && m.phase != phStopped && !s.probe() {
					fid := ""
					if h, r, ok := s.smPos(); ok && m.resignTrigger[fmt.Sprintf("%d|%d", h, r)] {
						fid = fidResign
					}
					m.failf("harness", "machine-stopped", fid, "the kernel does not take events although nothing is outstanding (%s)\n%s", m.where(), kernelStacks())
					canCompare = false
				}
			} else {
				canCompare = m.phase == phReplay || s.probe()
			}
		}
		if canCompare {
			s.w.mu.Lock()
			t := s.w.timer.outstanding()
			s.w.mu.Unlock()
			m.compare(smObs{timer: t})
		}
	}
	for i := range m.fails {
		f := m.fails[i]
		if f.prop == s.mode || f.prop == "harness" {
			if s.fail == nil {
				s.fail = &f
			}
		} else {
			s.labels["other-property-clause:"+f.prop+":"+f.clause] = true
		}
	}
	m.fails = nil
}

// kernelStacks returns the stacks of the state machine's goroutines (diagnosis only).
func kernelStacks() string {
	buf := make([]byte, 1<<20)
	buf = buf[:runtime.Stack(buf, true)]
	var out []string
	for _, g := range strings.Split(string(buf), "\n\n") {
		if strings.Contains(g, "tmstate.(*StateMachine)") || strings.Contains(g, "tsi.(*ConsensusManager)") {
			lines := strings.Split(g, "\n")
			if len(lines) > 14 {
				lines = lines[:14]
			}
			out = append(out, strings.Join(lines, "\n"))
		}
	}
	if len(out) == 0 {
		return "(no state machine goroutine alive)"
	}
	return strings.Join(out, "\n\n")
}

func (s *sim) candFor(h uint64, r uint32, k int) *candidate {
	if k%smMaxCands == 0 {
		if c := s.w.reproposal(h, r); c != nil {
			s.labels["certified-block-reproposed"] = true
			return c
		}
	}
	pc := s.mm.voting.PrevCommit
	if s.mm.committing != nil && s.mm.committing.H == h {
		pc = s.mm.committing.PrevCommit
	}
	key := hrKey{h, r}
	if n := len(s.w.cands[key]); n > smMaxCands && k >= smMaxCands {
		return s.w.cands[key][k%n]
	}
	return s.w.cand(h, r, k%smMaxCands, pc)
}

func descView(v *mmView) string {
	var sb strings.Builder
	fmt.Fprintf(&sb, "v%d phs=[", v.Version)
	for _, c := range v.PHs {
		fmt.Fprintf(&sb, "%s:%v ", short(c.hash), c.ok)
	}
	sb.WriteString("] pv={")
	for k, m := range v.Prevotes {
		fmt.Fprintf(&sb, "%s:%b ", short(k), m)
	}
	sb.WriteString("} pc={")
	for k, m := range v.Precommits {
		fmt.Fprintf(&sb, "%s:%b ", short(k), m)
	}
	sb.WriteString("}")
	return sb.String()
}

func (s *sim) factsFor(v *mmView) (viewFacts, tmconsensus.VersionedRoundView) {
	f := s.w.facts(v)
	vrv := s.mm.materialize(v)
	f.vsDigest = vsDigest(vrv.VoteSummary)
	return f, vrv
}

// ---------------------------------------------------------------------------
// ops

func (s *sim) opEntrance() {
	e := s.pendingEnt
	if e == nil {
		s.skip("ent-none")
		return
	}
	a := s.mm.previewEntrance(e.re.H, e.re.R)
	switch a.status {
	case fvFound:
		f, vrv := s.factsFor(a.view)
		if s.model.a15(f) {
			if s.excluded(fidA15) {
				return
			}
			if vi := s.w.valsAt(f.H); vi.maj(f.PrecTot) {
				s.labels["entered-in-precommit-delay-situation"] = true
			} else {
				s.labels["entered-in-prevote-delay-situation"] = true
			}
		}
		if f.PrecMajTarget && !f.PrecMajNil && !f.allPH[f.PrecBestHash] && vk.Excluded(fidF1) {
			s.st.Excluded(fidF1)
			s.skip("excluded:" + fidF1)
			return
		}
		if s.startedInCatchup && vk.Excluded(fidF2) {
			s.st.Excluded(fidF2)
			s.skip("excluded:" + fidF2)
			return
		}
		s.mm.acceptEntrance(e, a)
		e.answered, e.ansVRV = true, true
		s.pendingEnt = nil
		s.everVRV = true
		s.w.ev("entrance-vrv", e.re.H, e.re.R, descView(a.view), nil, nil)
		s.model.onEntranceVRV(f)
		e.re.Response <- tmeil.RoundEntranceResponse{VRV: vrv}
		if a.view == nil {
			return
		}
		if _, id, _ := s.mm.findView(e.re.H, e.re.R); id == vidNext {
			s.labels["entered-next-round-view"] = true
		} else if id == vidCommitting {
			s.labels["entered-committing-view"] = true
		}
	case fvBeforeCommitting:
		if id := map[bool]string{true: fidF2, false: fidF3}[s.everVRV]; vk.Excluded(id) {
			s.st.Excluded(id)
			s.skip("excluded:" + id)
			return
		}
		if !s.everVRV {
			s.startedInCatchup = true
		}
		s.mm.acceptEntrance(e, a)
		e.answered = true
		e.chHash = a.ch.cand.hash
		s.pendingEnt = nil
		s.labels["catchup"] = true
		switch {
		case a.ch.proof.Round > e.re.R:
			s.labels["catchup-committed-in-later-round"] = true
		case a.ch.proof.Round < e.re.R:
			s.labels["catchup-committed-in-earlier-round"] = true
		}
		if s.everVRV {
			s.labels["catchup-after-live-round"] = true
		}
		s.w.ev("entrance-ch", e.re.H, e.re.R, a.ch.cand.hash, nil, nil)
		s.model.onEntranceCH(a.ch.cand.hash)
		e.re.Response <- tmeil.RoundEntranceResponse{CH: tmconsensus.CommittedHeader{Header: a.ch.cand.ph.Header, Proof: a.ch.proof}}
	default:
		s.skip("ent-mirror-would-panic") // A7 / unhandled FindView in the real mirror
	}
}

func (s *sim) opView() {
	if !s.idle() {
		s.skip("view-not-idle")
		return
	}
	o := s.mm.output()
	if !o.ok {
		s.skip("view-none")
		return
	}
	h, _, _ := s.smPos()
	if o.jump != nil && o.jump.H != h && s.excluded(fidA17) {
		return
	}
	var val tmeil.StateMachineRoundView
	var fp *viewFacts
	if o.vrv != nil {
		f, vrv := s.factsFor(o.vrv)
		if s.model.p16Trigger(f) && vk.Excluded(fidNoDecide) {
			s.st.Excluded(fidNoDecide)
			s.skip("excluded:" + fidNoDecide)
			return
		}
		if o.jump != nil && o.jump.H == h && s.model.viewEndsRound(f) && s.excluded(fidJumpRound) {
			return
		}
		val.VRV = vrv
		fp = &f
	}
	if o.jump != nil {
		j := s.mm.materialize(o.jump)
		val.JumpAheadRoundView = &j
	}
	stepBefore := s.model.step
	select {
	case s.viewIn <- val:
	default:
		s.skip("view-not-received")
		return
	}
	s.mm.markSent(o)
	if fp != nil {
		s.w.ev("view", fp.H, fp.R, fmt.Sprintf("%s jump=%v", descView(o.vrv), o.jump != nil), nil, nil)
		vi := s.w.valsAt(fp.H)
		if stepBefore == stAwaitProposal && (fp.PrevTot > 0 || fp.PrecTot > 0) {
			s.labels["votes-while-awaiting-proposal"] = true
		}
		if fp.PrecMajTarget && !fp.PrecMajNil && !fp.allPH[fp.PrecBestHash] {
			s.labels["commit-quorum-without-header"] = true
		}
		_ = vi
	} else {
		s.w.ev("view-jump-only", o.jump.H, o.jump.R, "", nil, nil)
	}
	if o.jump != nil {
		s.labels["jump-ahead"] = true
		if s.stratPending() != nil {
			s.labels["jump-ahead-with-pending-strategy-call"] = true
		}
	}
	s.model.onView(fp, o.jump != nil)
	s.settle()
	if stepBefore == stAwaitProposal && s.pendingEnt == nil && s.stratPending() != nil && !s.probe() {
		s.timedBlocked = true
		s.timedBlockedAt = time.Now()
	}
}

func (s *sim) opHC() {
	if !s.idle() {
		s.skip("hc-not-idle")
		return
	}
	if len(s.mm.hcDue) == 0 {
		s.skip("hc-none")
		return
	}
	e := s.mm.hcDue[0]
	cur := e.inc == s.w.inc && e.idx == s.curEpoch()
	if cur && s.model.hcUnhandled() && s.excluded(fidA16) {
		return
	}
	s.mm.hcDue = s.mm.hcDue[1:]
	e.hcClosed = true
	s.w.ev("height-committed", e.re.H, e.re.R, "", nil, nil)
	if cur {
		s.labels["height-committed-signal"] = true
		s.model.onHeightCommitted()
	}
	close(e.re.HeightCommitted)
}

func (s *sim) opFire() {
	if !s.idle() {
		s.skip("fire-not-idle")
		return
	}
	s.w.mu.Lock()
	t := s.w.timer.outstanding()
	if t != nil {
		t.state = tsFired
		t.closed = true
		s.w.evLocked("timer-fire", t.h, t.r, tkNames[t.kind], nil, nil)
	}
	s.w.mu.Unlock()
	if t == nil {
		s.skip("fire-none")
		return
	}
	s.labels["fired-"+tkNames[t.kind]] = true
	s.model.onTimerFired(t.kind)
	close(t.ch)
}

// opFireCancelled closes the channel of a cancelled timer: a machine that no
// longer waits on it must not react at all.
func (s *sim) opFireCancelled() {
	if !s.idle() {
		s.skip("firec-not-idle")
		return
	}
	s.w.mu.Lock()
	t := s.w.timer.lastCancelled()
	if t != nil {
		t.closed = true
	}
	before := len(s.w.log)
	s.w.mu.Unlock()
	if t == nil {
		s.skip("firec-none")
		return
	}
	s.labels["cancelled-timer-channel-closed"] = true
	close(t.ch)
	s.settle()
	s.w.mu.Lock()
	after := len(s.w.log)
	var what string
	if after > before {
		what = s.w.log[before].String()
	}
	s.w.mu.Unlock()
	if after != before {
		s.model.failf("C12", "cancelled-timer-waited-on", "", "machine reacted to the channel of a cancelled %s timer %d/%d: %s", tkNames[t.kind], t.h, t.r, what)
	}
}

func (s *sim) opAnswer(a int) {
	c := s.stratPending()
	if c == nil {
		s.skip("ans-none")
		return
	}
	w := s.w
	ce := w.entrances[c.epoch]
	var ans stratAns
	n := 4
	if c.kind == scConsider {
		n = 5
	}
	k := ((a % n) + n) % n
	if c.kind == scConsider {
		if k == 0 {
			ans.notReady = true
		}
		k--
	}
	if !ans.notReady && k >= 1 {
		ans.hash = s.candFor(ce.re.H, ce.re.R, k-1).hash
	}
	cur := c.inc == w.inc && c.epoch == s.curEpoch()
	if e := s.model.epochs[c.epoch]; e != nil && c.inc == w.inc && !ans.notReady {
		// C08-F4: a result for a round the machine has left stays unread in that round's
		// 1-buffered channel; a second one blocks the consensus manager forever.
		unread := &e.unreadPrevote
		if c.kind == scDecide {
			unread = &e.unreadDecide
		}
		left := !cur || s.model.expectEntrance != nil || s.pendingEnt != nil
		if left && *unread && vk.Excluded(fidF4) {
			s.st.Excluded(fidF4)
			s.skip("excluded:" + fidF4)
			return
		}
		if left {
			*unread = true
		}
	}
	w.mu.Lock()
	c.done = true
	c.ans = ans
	desc := short(ans.hash)
	if ans.notReady {
		desc = "not-ready"
	}
	w.evLocked("answer-"+scNames[c.kind], ce.re.H, ce.re.R, desc, nil, nil)
	w.mu.Unlock()
	if e := s.model.epochs[c.epoch]; e != nil && c.inc == w.inc && !ans.notReady {
		if c.kind == scDecide {
			e.decideAnswers = append(e.decideAnswers, ans.hash)
		} else {
			e.prevoteAnswers = append(e.prevoteAnswers, ans.hash)
		}
	}
	if ans.notReady {
		s.labels["answer-not-ready"] = true
	}
	if !cur {
		s.labels["answer-after-round-change"] = true
	} else if !ans.notReady && s.pendingEnt == nil {
		if c.kind == scDecide {
			s.model.onDecideAnswer(ans.hash)
		} else {
			s.model.onPrevoteAnswer(ans.hash)
		}
	}
	c.release <- ans
}

func (s *sim) opPropose(a, b int) {
	if !s.idle() {
		s.skip("prop-not-idle")
		return
	}
	w := s.w
	cur := s.curEpoch()
	if cur < 0 {
		s.skip("prop-none")
		return
	}
	target := cur
	if a%4 == 3 { // late: the previous round's channel
		target = cur - 1
	}
	if target < 0 || w.entrances[target].inc != w.inc {
		s.skip("prop-none")
		return
	}
	te := w.entrances[target]
	if w.cfg.Follower || w.valsAt(te.re.H).self < 0 {
		s.skip("prop-not-validator") // a strategy knows it is not a validator and does not propose
		return
	}
	var call *stratCall
	w.mu.Lock()
	for _, c := range w.strat.calls {
		if c.kind == scEnter && c.epoch == target && c.inc == w.inc {
			call = c
		}
	}
	w.mu.Unlock()
	if call == nil || call.propOut == nil {
		s.skip("prop-no-channel")
		return
	}
	p := tmconsensus.Proposal{DataID: fmt.Sprintf("own-%d-%d-%d", te.re.H, te.re.R, b%3)}
	select {
	case call.propOut <- p:
		if e := s.model.epochs[target]; e != nil {
			e.proposalsSent++
		}
		s.w.ev("proposal-sent", te.re.H, te.re.R, p.DataID, nil, nil)
		if target != cur {
			s.labels["proposal-after-round-change"] = true
		} else {
			s.labels["own-proposal"] = true
		}
	default:
		s.skip("prop-buffer-full")
	}
}

func (s *sim) opFinalize() {
	var fr *finReqRec
	for _, r := range s.finReqs {
		if !r.responded {
			fr = r
			break
		}
	}
	if fr == nil {
		s.skip("fin-none")
		return
	}
	if !s.idle() {
		s.skip("fin-not-idle")
		return
	}
	cur := fr.epoch == s.curEpoch() && s.w.entrances[fr.epoch].inc == s.w.inc
	if cur && s.model.phase == phReplay && fr.req.Round != s.model.R && s.excluded(fidCHRound) {
		return
	}
	fr.responded = true
	h := fr.req.Header.Height
	resp := tmdriver.FinalizeBlockResponse{
		Height: h, Round: fr.req.Round, BlockHash: fr.req.Header.Hash,
		Validators:   s.w.valsAt(h + 2).set.Validators,
		AppStateHash: s.w.appHash(h),
	}
	select {
	case fr.req.Resp <- resp:
	default:
		s.skip("fin-resp-full")
		return
	}
	s.w.ev("fin-resp", h, fr.req.Round, string(fr.req.Header.Hash), nil, nil)
	if cur {
		if s.model.phase == phLive && s.model.step == stCommitWait {
			s.labels["finalization-before-commit-wait-elapsed"] = true
		} else if s.model.phase == phLive && s.model.step == stAwaitFin {
			s.labels["finalization-after-commit-wait-elapsed"] = true
		}
		s.model.onFinResp()
	} else {
		s.labels["finalization-for-stale-request"] = true
	}
}

func (s *sim) opBlockData(a, b int) {
	h, r, ok := s.smPos()
	if !ok || !s.idle() {
		s.skip("bd-not-idle")
		return
	}
	bh, br := h, r
	switch a % 4 {
	case 2:
		br = r + 1
	case 3:
		bh = h + 1
	}
	id := string(s.candFor(h, r, b%smMaxCands).ph.Header.DataID)
	if b >= smMaxCands && r > 0 {
		// data first proposed in the previous round (a later round may re-propose it; a machine
		// that is only replaying this round still holds the previous round's view)
		id = string(s.candFor(h, r-1, b%smMaxCands).ph.Header.DataID)
		s.labels["block-data-of-previous-round"] = true
	}
	select {
	case s.bdCh <- tmelink.BlockDataArrival{Height: bh, Round: br, ID: id}:
		s.w.ev("block-data", bh, br, id, nil, nil)
		s.labels["block-data"] = true
	default:
		s.skip("bd-not-received")
	}
}

var smTimeSteps = []time.Duration{10 * time.Millisecond, 50 * time.Millisecond, 99 * time.Millisecond, 100 * time.Millisecond, time.Second}

func (s *sim) opTime(a int) {
	d := smTimeSteps[((a%len(smTimeSteps))+len(smTimeSteps))%len(smTimeSteps)]
	if s.timedBlocked {
		if s.pendingEnt != nil || s.stratPending() == nil || s.probe() {
			s.timedBlocked = false
		}
	}
	if s.timedBlocked && time.Since(s.timedBlockedAt)+d >= 100*time.Millisecond && s.excluded(fidA18) {
		return
	}
	if s.stratPending() != nil {
		s.labels["strategy-answer-delayed-in-fake-time"] = true
	}
	time.Sleep(d)
}

func (s *sim) opRestart() {
	m := s.model
	s.digest() // the stored position may have been written since the last look
	// where will the machine re-enter?
	h, r := s.w.initH, uint32(0)
	if m.storedHR != nil {
		h, r = m.storedHR.H, m.storedHR.R
	}
	if m.finSaved[h] && m.finSaved[h+1] && vk.Excluded(fidRestartFin) {
		// more than one finalized height ahead of the stored position
		s.st.Excluded(fidRestartFin)
		s.skip("excluded:" + fidRestartFin)
		return
	}
	for m.finSaved[h] {
		h, r = h+1, 0
	}
	if a := s.mm.previewEntrance(h, r); a.status != fvFound && a.status != fvBeforeCommitting {
		s.skip("restart-mirror-would-panic")
		return
	}
	ra, err := s.aStore.inner.LoadActions(context.Background(), h, r)
	recorded := err == nil && (ra.PrevoteSignature != "" || ra.PrecommitSignature != "")
	if recorded {
		if vk.Excluded(fidResign) {
			s.st.Excluded(fidResign)
			s.skip("excluded:" + fidResign)
			return
		}
		m.resignTrigger[fmt.Sprintf("%d|%d", h, r)] = true
		s.labels["restart-in-round-with-recorded-vote"] = true
	}
	if err == nil && ra.ProposedHeader.Header.Height != 0 {
		s.labels["restart-in-round-with-recorded-proposal"] = true
	}
	s.labels["restart"] = true
	s.teardown()
	s.digest() // writes that completed while the incarnation was stopping
	s.w.mu.Lock()
	s.w.inc++
	s.w.evLocked("restart", h, r, "", nil, nil)
	s.w.mu.Unlock()
	s.mm.restart()
	s.finReqs = nil
	s.newIncarnation()
}

func (s *sim) viewSel(a int) int { return ((a % 3) + 3) % 3 }

func (s *sim) opNetPH(a, b int) {
	v := s.mm.view(s.viewSel(a))
	if v == nil {
		s.skip("net-no-view")
		return
	}
	k := ((b % 6) + 6) % 6
	var c *candidate
	if k < 3 {
		c = s.candFor(v.H, v.R, k)
	} else {
		key := hrKey{v.H, v.R}
		variant := k - 2
		for _, bc := range s.w.bads[key] {
			if string(bc.ph.Header.DataID) == fmt.Sprintf("bad-%d", variant) {
				c = bc
			}
		}
		if c == nil {
			pc := v.PrevCommit
			c = s.w.makeCand(v.H, v.R, fmt.Sprintf("bad-%d", variant), variant, pc)
			s.w.bads[key] = append(s.w.bads[key], c)
		}
		s.labels["unacceptable-proposal"] = true
	}
	if why := s.mm.addPH(c); why != "" {
		s.skip("net-ph-" + why)
	} else {
		s.w.ev("net-ph", v.H, v.R, fmt.Sprintf("%s ok=%v -> %s", short(c.hash), c.ok, s.mm.pos()), nil, nil)
	}
}

func (s *sim) voteTarget(v *mmView, b int) string {
	k := ((b % 4) + 4) % 4
	if k == 0 {
		return ""
	}
	return s.candFor(v.H, v.R, k-1).hash
}

func (s *sim) opNetVote(a, b, c int) {
	precommit := a&1 == 1
	id := s.viewSel(a >> 1)
	v := s.mm.view(id)
	if v == nil {
		s.skip("net-no-view")
		return
	}
	vi := s.w.valsAt(v.H)
	pos := ((c % len(vi.idx)) + len(vi.idx)) % len(vi.idx)
	if pos == vi.self {
		s.skip("net-own-key") // the harness never signs with the machine's key
		return
	}
	h, r, ok := s.smPos()
	tgt := s.voteTarget(v, b)
	if why := s.mm.addVote(precommit, id, tgt, pos, h, r, ok, s.pendingEnt != nil); why != "" {
		s.skip("net-vote-" + why)
	} else {
		s.w.ev("net-vote", v.H, v.R, fmt.Sprintf("precommit=%v %s by %d -> %s", precommit, short(tgt), pos, s.mm.pos()), nil, nil)
	}
}

// opNetQuorum: the other validators vote for one target until it holds a majority.
func (s *sim) opNetQuorum(a, b int) {
	precommit := a&1 == 1
	id := s.viewSel(a >> 1)
	v := s.mm.view(id)
	if v == nil {
		s.skip("net-no-view")
		return
	}
	target := s.voteTarget(v, b)
	vi := s.w.valsAt(v.H)
	for pos := range vi.idx {
		if pos == vi.self {
			continue
		}
		if s.mm.view(id) != v {
			break // the view shifted
		}
		m := v.Prevotes
		if precommit {
			m = v.Precommits
		}
		if vi.maj(vi.power(m[target])) {
			break
		}
		h, r, ok := s.smPos()
		if why := s.mm.addVote(precommit, id, target, pos, h, r, ok, s.pendingEnt != nil); why != "" {
			if why != "already-voted" {
				s.skip("net-vote-" + why)
				break
			}
		} else {
			s.w.ev("net-vote", v.H, v.R, fmt.Sprintf("precommit=%v %s by %d -> %s", precommit, short(target), pos, s.mm.pos()), nil, nil)
		}
	}
}

func (s *sim) opAny(a, b int) {
	var acts []func()
	if s.pendingEnt != nil {
		acts = append(acts, s.opEntrance)
	}
	if s.stratPending() != nil {
		acts = append(acts, func() { s.opAnswer(b) })
	}
	if s.pendingEnt == nil {
		for _, r := range s.finReqs {
			if !r.responded {
				acts = append(acts, s.opFinalize)
				break
			}
		}
		if s.mm.output().ok {
			acts = append(acts, s.opView)
		}
		if len(s.mm.hcDue) > 0 {
			acts = append(acts, s.opHC)
		}
		s.w.mu.Lock()
		t := s.w.timer.outstanding()
		s.w.mu.Unlock()
		if t != nil {
			acts = append(acts, s.opFire)
		}
	}
	if len(acts) == 0 {
		s.skip("any-none")
		return
	}
	acts[((a%len(acts))+len(acts))%len(acts)]()
}

// opAdvance: deliver what is pending, in protocol order, until nothing is left
// (timers are not fired, except commit wait when b is odd).
func (s *sim) opAdvance(a, b int) {
	for i := 0; i < 12 && s.fail == nil; i++ {
		did := true
		switch {
		case s.pendingEnt != nil:
			before := s.pendingEnt
			s.opEntrance()
			did = s.pendingEnt != before
		case s.stratPending() != nil:
			s.opAnswer(a + 1) // never "not ready" from the macro
		case s.hasFinReq() && s.idle():
			s.opFinalize()
		case s.mm.output().ok && s.idle():
			n := s.skips["view-not-received"] + s.skips["excluded:"+fidA17] + s.skips["excluded:"+fidNoDecide]
			s.opView()
			did = n == s.skips["view-not-received"]+s.skips["excluded:"+fidA17]+s.skips["excluded:"+fidNoDecide]
		case b%2 == 1 && s.outstandingKind() == tkCommitWait && s.idle():
			s.opFire()
		default:
			did = false
		}
		if !did {
			return
		}
		s.settle()
		s.judge()
	}
}

func (s *sim) hasFinReq() bool {
	for _, r := range s.finReqs {
		if !r.responded {
			return true
		}
	}
	return false
}

func (s *sim) outstandingKind() int {
	s.w.mu.Lock()
	defer s.w.mu.Unlock()
	if t := s.w.timer.outstanding(); t != nil {
		return t.kind
	}
	return tkNone
}

// opNetRound: the network runs an honest round on the voting view: proposal k
// visible, the other validators prevote and precommit it (or nil when a is 0).
func (s *sim) opNetRound(a, b int) {
	if a%6 == 5 {
		s.opNetSplit(b)
		return
	}
	tgt := 0
	if a%6 != 0 {
		tgt = 1 + b%smMaxCands
		s.opNetPH(0, b%smMaxCands)
	}
	v := s.mm.voting
	s.opNetQuorum(0, tgt)
	if s.mm.voting == v {
		s.opNetQuorum(1, tgt)
	}
}

// opNetSplit: the other validators split their prevotes (b even) or precommits (b odd)
// between nil and a block until a majority of the power has voted without a majority
// target: the delay situations. (b>>1)&1 selects the voting or the next-round view.
func (s *sim) opNetSplit(b int) {
	precommit := b&1 == 1
	id := (b >> 1) & 1
	v := s.mm.view(id)
	if v == nil {
		s.skip("net-no-view")
		return
	}
	vi := s.w.valsAt(v.H)
	block := s.candFor(v.H, v.R, 0).hash
	n := 0
	for pos := range vi.idx {
		if pos == vi.self {
			continue
		}
		if s.mm.view(id) != v {
			if s.mm.voting != v {
				break // the view was committed or dropped
			}
			id = vidVoting // a minority in the next round made the mirror jump: same view, now the voting one
		}
		if vi.maj(vi.power(v.voted(precommit))) {
			break
		}
		tgt := ""
		if n%2 == 1 {
			tgt = block
		}
		n++
		h, r, ok := s.smPos()
		if why := s.mm.addVote(precommit, id, tgt, pos, h, r, ok, s.pendingEnt != nil); why != "" {
			if why != "already-voted" {
				s.skip("net-vote-" + why)
				break
			}
		} else {
			s.w.ev("net-vote", v.H, v.R, fmt.Sprintf("precommit=%v %s by %d -> %s", precommit, short(tgt), pos, s.mm.pos()), nil, nil)
		}
	}
}

func (s *sim) exec(op smOp) {
	switch op.K {
	case "-":
	case "ent":
		s.opEntrance()
	case "view":
		s.opView()
	case "hc":
		s.opHC()
	case "fire":
		s.opFire()
	case "firec":
		s.opFireCancelled()
	case "ans":
		s.opAnswer(op.A)
	case "prop":
		s.opPropose(op.A, op.B)
	case "fin":
		s.opFinalize()
	case "bd":
		s.opBlockData(op.A, op.B)
	case "time":
		s.opTime(op.A)
	case "restart":
		if s.mode == "C02" || s.mode == "C10" || s.mode == "C07" || s.mode == "C12" {
			s.opRestart()
		} else {
			s.skip("restart-not-in-domain")
		}
	case "nph":
		s.opNetPH(op.A, op.B)
	case "nv":
		s.opNetVote(op.A, op.B, op.C)
	case "nq":
		s.opNetQuorum(op.A, op.B)
	case "any":
		s.opAny(op.A, op.B)
	case "adv":
		s.opAdvance(op.A, op.B)
	case "nround":
		s.opNetRound(op.A, op.B)
	default:
		s.skip("unknown-op")
	}
}

// epilogue delivers everything that is pending, in protocol order, until the
// machine is in sync with the harness mirror or can not get further.
func (s *sim) epilogue() {
	total := func() int {
		n := 0
		for _, v := range s.skips {
			n += v
		}
		return n
	}
	for i := 0; i < 60 && s.fail == nil; i++ {
		before := total()
		switch {
		case s.pendingEnt != nil:
			s.opEntrance()
		case s.stratPending() != nil:
			s.opAnswer(0) // Consider: not ready; Choose / Decide: nil
		case s.hasFinReq() && s.idle():
			s.opFinalize()
		case s.mm.output().ok && s.idle():
			s.opView()
		case s.outstandingKind() == tkCommitWait && s.idle():
			s.opFire()
		case (s.outstandingKind() == tkPrevoteDelay || s.outstandingKind() == tkPrecommitDelay) && s.idle():
			// An armed delay timer elapses by itself: a machine waiting on one is not stuck.
			// (The proposal timer is left alone: a machine awaiting a proposal in the mirror's
			// voting round is in sync.)
			s.opFire()
		case len(s.mm.hcDue) > 0 && s.idle():
			// The mirror has closed a HeightCommitted channel. For a machine that the mirror
			// left more than a height behind (its jump-ahead view was replaced by one of a
			// later height, which the view manager never hands out) this signal is the only
			// thing it will still get; outside commit wait that is the open finding C08-A16,
			// and the refused step marks the run as a dead end.
			s.opHC()
		default:
			return
		}
		s.settle()
		s.judge()
		if total() != before {
			// the step was refused (mirror would panic, known finding excluded, kernel busy)
			s.deadEnd = "step-refused"
			return
		}
	}
	s.deadEnd = "epilogue-budget"
}

func (s *sim) synced() bool {
	h, r, ok := s.smPos()
	return ok && s.pendingEnt == nil && s.stratPending() == nil && !s.hasFinReq() && !s.mm.output().ok &&
		s.model.phase == phLive && h == s.mm.voting.H && r == s.mm.voting.R
}

func (m *mirror) digest() string {
	var sb strings.Builder
	fmt.Fprintf(&sb, "voting %d/%d|", m.voting.H, m.voting.R)
	hs := make([]uint64, 0, len(m.store))
	for h := range m.store {
		hs = append(hs, h)
	}
	sort.Slice(hs, func(i, j int) bool { return hs[i] < hs[j] })
	for _, h := range hs {
		fmt.Fprintf(&sb, "%d=%x@%d,", h, m.store[h].cand.hash, m.store[h].proof.Round)
	}
	for _, v := range []*mmView{m.committing, m.voting, m.next} {
		if v == nil {
			sb.WriteString("|-")
			continue
		}
		fmt.Fprintf(&sb, "|%d/%d phs=%d", v.H, v.R, len(v.PHs))
		for _, mp := range []map[string]uint64{v.Prevotes, v.Precommits} {
			keys := make([]string, 0, len(mp))
			for k := range mp {
				keys = append(keys, k)
			}
			sort.Strings(keys)
			for _, k := range keys {
				fmt.Fprintf(&sb, " %x:%b", k, mp[k])
			}
			sb.WriteString(";")
		}
	}
	return sb.String()
}

type smResult struct {
	stranded                               bool // not in sync, and the mirror jump-ahead slot holds a view of another height
	synced                                 bool
	posH                                   uint64
	posR                                   uint32
	mmDigest                               string
	deadEnd                                string
	writes                                 int          // eligible store writes of the whole run
	midWrites                              map[int]bool // eligible write ordinals followed by another store write of the same transition
	writeRound                             map[int]uint32
	crashed                                bool
	crashInfo                              string
	entrSeq                                string
	fail                                   *smFailure
	labels                                 []string
	skips                                  map[string]int
	entrances                              int
	heights                                int
	tail                                   string
	resign                                 int
	timerKinds, timerFired, timerCancelled int
	opsRun                                 int
}

// runSim executes one case inside a bubble. outer is the real *testing.T.
func runSim(outer *testing.T, st *vk.Stats, c smCase, mode string) (res smResult) {
	defer func() {
		if r := recover(); r != nil {
			res.fail = &smFailure{prop: "harness", clause: "bubble-panic", detail: fmt.Sprint(r)}
		}
	}()
	synctest.Test(outer, func(t *testing.T) {
		w := newWorld(c.Cfg)
		w.crashAt = c.Crash
		s := &sim{st: st, c: c, mode: mode, w: w, skips: map[string]int{}, labels: map[string]bool{}}
		s.log = slog.New(slog.NewTextHandler(io.Discard, &slog.HandlerOptions{Level: slog.Level(100)}))
		s.mm = newMirror(w)
		s.model = newModel(w)
		s.rootCtx, s.rootCancel = context.WithCancel(context.Background())
		s.aStore = &hActionStore{w: w, inner: tmmemstore.NewActionStore()}
		s.fStore = &hFinStore{w: w, inner: tmmemstore.NewFinalizationStore()}
		s.sStore = &hSMStore{w: w, inner: tmmemstore.NewStateMachineStore()}
		// The engine stores the genesis pseudo-finalization before starting the machine.
		if err := s.fStore.inner.SaveFinalization(context.Background(), w.initH-1, 0, w.genHdrHash, w.gen.ValidatorSet, string(w.gen.CurrentAppStateHash)); err != nil {
			panic(err)
		}
		func() {
			defer func() {
				if r := recover(); r != nil {
					s.fail = &smFailure{prop: "harness", clause: "interpreter-panic", detail: fmt.Sprintf("%v (op %d)", r, s.opIdx)}
				}
			}()
			s.newIncarnation()
			s.settle()
			s.judge()
			for i, op := range c.Ops {
				if s.fail != nil {
					break
				}
				s.opIdx = i
				s.exec(op)
				s.settle()
				s.judge()
				if s.walDirty { // the op survived: later deaths are not attributed to its finding
					s.st.WAL(s.c)
					s.walDirty = false
				}
				res.opsRun++
			}
			if s.fail == nil && (mode == "C10" || mode == "C07") {
				s.epilogue()
			}
		}()
		res.synced = s.fail == nil && s.synced()
		if h, _, ok := s.smPos(); ok && !res.synced && s.pendingEnt == nil && s.mm.jumpAhead != nil && s.mm.jumpAhead.H != h {
			// The only thing the mirror still holds for this machine is a jump-ahead view of a later
			// height, which its view manager never hands out for a machine on another height.
			res.stranded = true
		}
		res.posH, res.posR, _ = s.smPos()
		res.mmDigest = s.mm.digest()
		res.deadEnd = s.deadEnd
		res.crashed = w.crashed
		res.crashInfo = s.crashInfo
		res.writes = w.writes
		res.midWrites, res.writeRound = map[int]bool{}, map[int]uint32{}
		{
			last := 0 // eligible ordinal of the latest store write of the current transition
			for _, e := range w.log {
				switch {
				case e.Elig > 0 || (strings.HasPrefix(e.Kind, "save-") && e.Err == "") || (e.Kind == "set-hr" && e.Err == ""):
					if last > 0 {
						res.midWrites[last] = true
					}
					last = e.Elig
					if e.Elig > 0 && e.Epoch >= 0 && e.Epoch < len(w.entrances) {
						res.writeRound[e.Elig] = w.entrances[e.Epoch].re.R
					}
				case e.Kind == "view" || e.Kind == "view-jump-only" || e.Kind == "entrance-vrv" || e.Kind == "entrance-ch" ||
					e.Kind == "timer-fire" || e.Kind == "height-committed" || e.Kind == "fin-resp" || e.Kind == "proposal-sent" ||
					e.Kind == "block-data" || strings.HasPrefix(e.Kind, "answer-") || e.Kind == "restart":
					last = 0
				}
			}
		}
		for _, e := range w.entrances {
			res.entrSeq += fmt.Sprintf("%d/%d ", e.re.H, e.re.R)
		}
		s.teardown()
		s.rootCancel()

		if w.twoBlocks {
			s.labels["network-decided-two-blocks"] = true
		}
		res.fail = s.fail
		res.skips = s.skips
		res.resign = s.model.resign
		hs := map[uint64]bool{}
		for _, e := range w.entrances {
			hs[e.re.H] = true
			if e.re.Actions == nil {
				s.labels["round-without-participation"] = true
			}
		}
		res.entrances = len(w.entrances)
		res.heights = len(hs)
		kinds := map[int]bool{}
		for _, e := range w.log {
			switch e.Kind {
			case "timer-start":
				kinds[len(e.S)] = true
			case "timer-fire":
				res.timerFired++
			case "timer-cancel":
				res.timerCancelled++
			}
		}
		res.timerKinds = len(kinds)
		for l := range s.labels {
			res.labels = append(res.labels, l)
		}
		if vk.Replaying() {
			res.tail = w.tail(1 << 20)
		} else if s.fail != nil {
			res.tail = w.tail(60)
		}
	})
	return res
}
