package tmstate_test

import (
	"fmt"
	"sort"
	"strings"
	"testing"

	"github.com/gordian-engine/gordian/internal/zzverif/vk"
	"pgregory.net/rapid"
)

// Three checks on the same interpreter (one real tmstate.StateMachine per case,
// harness plays mirror, driver, strategy, signer, timer, stores):
//   TestVerifC08RoundRules      - reference model of the round rules + trace invariants
//   TestVerifC02NoDoubleSign    - signer / action store / emission history incl. restarts
//   TestVerifC12TimerDiscipline - harness round timer vs the model's step

type smWeights struct {
	kinds   []string
	weights []int
}

func smOpWeights(mode string) smWeights {
	w := map[string]int{
		"-":   1, // no-op: what shrinking turns an op into
		"any": 24, "adv": 8, "ent": 5, "view": 10, "ans": 10, "fin": 4, "fire": 6, "hc": 2, "firec": 1,
		"prop": 3, "bd": 2, "time": 2,
		"nph": 8, "nv": 16, "nq": 8, "nround": 5,
	}
	switch mode {
	case "C02":
		w["restart"] = 5
		w["prop"] = 6
		w["ans"] = 14
		w["time"] = 1
	case "C10":
		w["restart"] = 3
		w["prop"] = 5
		w["nround"] = 9
		w["adv"] = 12
		w["nq"] = 10
	case "C07":
		w["restart"] = 3
		w["prop"] = 8
		w["nph"] = 12
		w["nround"] = 10
		w["adv"] = 14
	case "C12":
		w["restart"] = 3 // the timer discipline must also hold right after a restart (step derived from recorded votes)
		w["fire"] = 10
		w["firec"] = 5
		w["nv"] = 18
		w["hc"] = 3
	}
	var sw smWeights
	keys := make([]string, 0, len(w))
	for k := range w {
		keys = append(keys, k)
	}
	sort.Strings(keys)
	for _, k := range keys {
		sw.kinds = append(sw.kinds, k)
		sw.weights = append(sw.weights, w[k])
	}
	return sw
}

// smUni draws a (nearly) uniform value in [0,n) from fair coin flips. rapid's
// integer generators are biased towards small values, which would starve most
// op kinds; coin flips still shrink towards 0.
func smUni(t *rapid.T, n int) int {
	nb := 2
	for (1 << uint(nb-2)) < n {
		nb++
	}
	v := 0
	for i := 0; i < nb; i++ {
		if rapid.Bool().Draw(t, "b") {
			v |= 1 << uint(i)
		}
	}
	return v % n
}

func smOpGen(mode string) *rapid.Generator[smOp] {
	sw := smOpWeights(mode)
	total := 0
	for _, x := range sw.weights {
		total += x
	}
	return rapid.Custom(func(t *rapid.T) smOp {
		x := smUni(t, total)
		k := 0
		for x >= sw.weights[k] {
			x -= sw.weights[k]
			k++
		}
		op := smOp{K: sw.kinds[k]}
		switch op.K {
		case "any", "prop", "bd", "nph", "nq", "adv", "nround":
			op.A = smUni(t, 6)
			op.B = smUni(t, 6)
		case "ans", "time":
			op.A = smUni(t, 5)
		case "nv":
			op.A = smUni(t, 6)
			op.B = smUni(t, 4)
			op.C = smUni(t, smMaxVals)
		}
		return op
	})
}

func smGenCase(rt *rapid.T, mode string) smCase {
	var c smCase
	c.Cfg = smCfg{
		N:       1 + smUni(rt, smMaxVals),
		Pow:     smUni(rt, 6),
		ValMode: smUni(rt, 5),
		InitH:   1 + smUni(rt, 3),
	}
	if smUni(rt, 10) == 0 {
		c.Cfg.Follower = true
	}
	switch mode {
	case "C10":
		c.Crash = 1 + smUni(rt, 64)
	case "C07":
		// validators change at every height; mode 4 (keys and powers) most of the time
		c.Cfg.ValMode = []int{4, 4, 4, 1, 2, 3}[smUni(rt, 6)]
		if c.Cfg.N < 3 {
			c.Cfg.N += 2
		}
		c.Cfg.Follower = false
		c.Crash = smUni(rt, 48) // 0 = no crash point
	}
	// rapid's slices average about twice their minimum length: the minimum is
	// itself drawn (8..48, shrinks to 8) so that long histories are common.
	minLen := 8 + 8*smUni(rt, 6)
	c.Ops = rapid.SliceOfN(smOpGen(mode), minLen, 160).Draw(rt, "ops")
	return c
}

var smOuterT *testing.T

func smRunCase(t vk.TB, st *vk.Stats, c smCase, mode string) {
	if st.WantSample() {
		st.Sample(c)
	}
	st.WAL(c)
	res := runSim(smOuterT, st, c, mode)

	labels := res.labels
	nontrivial := false
	switch mode {
	case "C08":
		order := false
		for _, l := range res.labels {
			switch l {
			case "votes-while-awaiting-proposal", "finalization-before-commit-wait-elapsed", "jump-ahead", "jump-ahead-with-pending-strategy-call",
				"catchup", "answer-after-round-change", "height-committed-signal", "commit-quorum-without-header", "entered-next-round-view", "entered-committing-view":
				order = true
			}
		}
		nontrivial = res.entrances >= 2 && order
	case "C02":
		for _, l := range res.labels {
			switch l {
			case "answer-after-round-change", "proposal-after-round-change", "restart-in-round-with-recorded-vote", "restart-in-round-with-recorded-proposal":
				nontrivial = true
			}
		}
	case "C12":
		nontrivial = res.timerKinds >= 2 && res.timerFired >= 1 && res.timerCancelled >= 1
	}
	switch {
	case res.entrances >= 4:
		labels = append(labels, "entrances>=4")
	case res.entrances >= 2:
		labels = append(labels, "entrances>=2")
	}
	if res.heights >= 3 {
		labels = append(labels, "heights>=3")
	} else if res.heights == 2 {
		labels = append(labels, "heights=2")
	}
	if res.resign > 0 {
		labels = append(labels, "identical-resign")
	}
	for k, v := range res.skips {
		if strings.HasPrefix(k, "excluded:") {
			continue
		}
		st.LabelN("skipped:"+k, int64(v))
	}
	st.LabelN("ops-run", int64(res.opsRun))
	st.Case(nontrivial, vk.FP(c), labels...)
	if vk.Replaying() {
		t.Logf("replay: entrances=%d heights=%d ops-run=%d labels=%v skips=%v\n%s", res.entrances, res.heights, res.opsRun, labels, res.skips, res.tail)
	}
	if res.fail != nil {
		st.Fail(t, c, res.fail.finding, res.fail.clause, "[%s] %s\n--- last events ---\n%s", res.fail.prop, res.fail.detail, res.tail)
	}
}

// smRunCrashCase (C10 / C07 state-machine units): the history is run once
// without a stop (reference) and then with the process dying after an eligible
// store write; quick: the drawn write, thorough (C10): every write of the history.
func smRunCrashCase(t vk.TB, st *vk.Stats, c smCase, mode string) {
	if st.WantSample() {
		st.Sample(c)
	}
	ref := c
	ref.Crash = 0
	st.WAL(ref)
	rres := runSim(smOuterT, st, ref, mode)
	labels := append([]string(nil), rres.labels...)
	if rres.fail != nil {
		st.Case(false, vk.FP(c), labels...)
		st.Fail(t, ref, rres.fail.finding, rres.fail.clause, "[%s] (run without stop) %s\n--- last events ---\n%s", rres.fail.prop, rres.fail.detail, rres.tail)
		return
	}
	var points []int
	switch {
	case rres.writes == 0 || (mode == "C07" && c.Crash == 0):
	case mode == "C10" && vk.Thorough() && !vk.Replaying():
		for k := 1; k <= rres.writes; k++ {
			points = append(points, k)
		}
	default:
		points = []int{1 + (c.Crash-1+rres.writes)%rres.writes}
	}
	nontrivial := false
	seen := map[string]bool{}
	for _, l := range labels {
		seen[l] = true
	}
	var fail *smFailure
	var failCase smCase
	var failTail string
	for _, k := range points {
		cc := c
		cc.Crash = k
		st.WAL(cc)
		res := runSim(smOuterT, st, cc, mode)
		st.Label("crash-runs")
		for _, l := range res.labels {
			if !seen[l] {
				seen[l] = true
				labels = append(labels, l)
			}
		}
		if !res.crashed {
			st.Label("crash-point-not-reached")
		}
		if res.crashed && (rres.midWrites[k] || rres.writeRound[k] >= 1) {
			nontrivial = true
			if rres.midWrites[k] {
				st.Label("crash-between-writes-of-one-transition")
			}
		}
		f := res.fail
		if f == nil && mode == "C10" && res.crashed {
			// after redelivery the machine reaches the position of the run without the stop
			switch {
			case smHas(res.labels, "network-decided-two-blocks") || smHas(rres.labels, "network-decided-two-blocks"):
				// only with the machine's own vote on top of a nearly complete second certificate; not a safe network
				st.Label("join-skipped:network-decided-two-blocks")
			case !rres.synced:
				st.Label("join-skipped:reference-not-in-sync")
			case res.mmDigest != rres.mmDigest:
				st.Label("join-skipped:mirror-histories-differ")
			case !res.synced && res.deadEnd != "":
				st.Label("join-skipped:" + res.deadEnd)
			case !res.synced && res.stranded && vk.Excluded(fidStranded):
				st.Excluded(fidStranded)
				st.Label("join-skipped:excluded:" + fidStranded)
			case res.posH > rres.posH || (res.posH == rres.posH && res.posR > rres.posR):
				// a timeout that elapsed only in the run with the stop took the machine past the reference position: nothing was lost
				st.Label("joined-ahead-of-reference")
			case !res.synced || res.posH != rres.posH || res.posR != rres.posR:
				fid := ""
				if res.stranded {
					fid = fidStranded
				}
				f = &smFailure{prop: "C10", clause: "not-rejoined", finding: fid, detail: fmt.Sprintf(
					"after the stop (%s) and redelivery the machine ends at %d/%d (in sync with the mirror: %v); without the stop it ends at %d/%d; entrances with stop: %s; without: %s",
					res.crashInfo, res.posH, res.posR, res.synced, rres.posH, rres.posR, res.entrSeq, rres.entrSeq)}
				res.tail = ""
			default:
				st.Label("joined")
			}
		}
		if f != nil && fail == nil {
			fail, failCase, failTail = f, cc, res.tail
			break
		}
	}
	if mode == "C07" {
		nontrivial = seen["own-proposal"] && (seen["heights>=3"] || rres.heights >= 3)
	}
	if rres.heights >= 3 {
		labels = append(labels, "heights>=3")
	}
	st.LabelN("ops-run", int64(rres.opsRun))
	st.Case(nontrivial, vk.FP(c), labels...)
	if fail != nil {
		st.Fail(t, failCase, fail.finding, fail.clause, "[%s] %s\n--- last events ---\n%s", fail.prop, fail.detail, failTail)
	}
}

func smHas(labels []string, l string) bool {
	for _, x := range labels {
		if x == l {
			return true
		}
	}
	return false
}

func smTest(t *testing.T, prop, name, mode, rule string) {
	smOuterT = t
	smUniverse() // keys are generated outside any bubble
	st := vk.NewStats(prop, name, rule)
	defer st.Flush()
	var c smCase
	if ok, err := vk.LoadReplay(prop, name, &c); err != nil {
		t.Fatal(err)
	} else if ok {
		smTrace = true
		if mode == "C10" || mode == "C07" {
			smRunCrashCase(t, st, c, mode)
		} else {
			smRunCase(t, st, c, mode)
		}
		return
	} else if vk.Replaying() {
		t.Skip("replay file is for another test")
	}
	rapid.Check(t, func(rt *rapid.T) {
		c := smGenCase(rt, mode)
		if mode == "C10" || mode == "C07" {
			smRunCrashCase(rt, st, c, mode)
		} else {
			smRunCase(rt, st, c, mode)
		}
	})
}

const smRuleCommon = "case = configuration (1-6 validators, 6 power profiles, 4 validator-change modes, initial height 1-3, follower) + 1-120 ops interpreted against one real StateMachine in a synctest bubble (harness mirror ported from the kernel's three-view logic, harness strategy/driver/timer/signer/stores); distinct = distinct (cfg, op list) fingerprints; "

func TestVerifC08RoundRules(t *testing.T) {
	smTest(t, "C08", "TestVerifC08RoundRules", "C08", smRuleCommon+
		"non-trivial = at least two round entrances and an event order outside the shapes of the existing tests (votes shown while awaiting a proposal, finalization before commit-wait elapse, jump-ahead, catch-up header, strategy answer after a round change, HeightCommitted signal, commit quorum before the header, entrance into the next-round or committing view)")
}

// The same unit in a build with the data race detector (thorough tier only): the state machine
// kernel, its consensus manager and the round timer share the round lifecycle's channels and values.
func TestVerifC08RoundRulesDetector(t *testing.T) {
	smTest(t, "C08", "TestVerifC08RoundRulesDetector", "C08", smRuleCommon+
		"same generator and clauses as TestVerifC08RoundRules, compiled with -race")
}

func TestVerifC02NoDoubleSign(t *testing.T) {
	smTest(t, "C02", "TestVerifC02NoDoubleSign", "C02", smRuleCommon+
		"ops additionally contain restarts on the same stores; non-trivial = a strategy answer or proposal arrives after a round change, or a restart happens in a round in which an action had been recorded")
}

func TestVerifC12TimerDiscipline(t *testing.T) {
	smTest(t, "C12", "TestVerifC12TimerDiscipline", "C12", smRuleCommon+
		"non-trivial = at least two timer kinds were started and at least one timer fired and one was cancelled")
}

func TestVerifC10SMRestart(t *testing.T) {
	smTest(t, "C10", "TestVerifC10SMRestart", "C10", smRuleCommon+
		"ops as for C02 (incl. quiescent restarts); each history is run without a stop and then with the process dying inside an eligible store write of the machine (SaveProposedHeaderAction, SaveFinalization, SetStateMachineHeightRound; quick: one drawn write, thorough: every write of the history), followed by a new machine on the same stores and the rest of the ops; non-trivial = the stop lies between two store writes of one transition or in a round >= 1")
}

func TestVerifC07SMValidatorSets(t *testing.T) {
	smTest(t, "C07", "TestVerifC07SMValidatorSets", "C07", smRuleCommon+
		"the application changes validator keys and powers at every height; restarts and one drawn crash point as in the C10 unit; non-trivial = the machine built a proposal of its own and the history spans at least three heights")
}

var _ = fmt.Sprintf
